/-
`postprocess.aggregate_graph`: entries of `membership_row.T · A · membership_col` for integer labels, negative labels
ignored (C05).
-/
import SkNet.Lemmas.ClusteringSecondary

namespace SkNet.Clustering

/-- summing row by row over selected rows and selected columns = summing the selected stored entries -/
theorem sum_rows_eq_triples (a : SpMat) (p q : Nat → Bool) :
    sumR (((List.range a.length).filter p).map fun i =>
        sumR (((a.getD i []).filter fun e => q e.1).map (·.2))) =
      sumR (((triples a).filter fun t => p t.1 && q t.2.1).map (·.2.2)) := by
  rw [sumR_filter_map]
  unfold triples
  rw [sumR_flatMap_filter_map]
  apply sumR_map_congr
  intro i _
  simp only [List.filter_map, List.map_map]
  by_cases hp : p i
  · simp only [hp, if_true]
    have hf : ((fun t : Nat × Nat × Rat => p t.1 && q t.2.1) ∘ fun e : Nat × Rat => (i, e.1, e.2)) =
        fun e => q e.1 := by
      funext e; simp only [Function.comp, hp, Bool.true_and]
    rw [hf]; rfl
  · have hp' : p i = false := by simpa using hp
    simp only [hp', Bool.false_eq_true, if_false]
    have : (List.filter ((fun t : Nat × Nat × Rat => p t.1 && q t.2.1) ∘
        fun e : Nat × Rat => (i, e.1, e.2)) (a.getD i [])) = [] := by
      rw [List.filter_eq_nil_iff]
      intro e _
      simp only [Function.comp, hp', Bool.false_and, Bool.false_eq_true, not_false_eq_true]
    rw [this]; rfl

theorem natLabels_length (l : List Int) (k : Nat) : (natLabels l k).length = l.length := by simp [natLabels]

/-- the out-of-range encoding of negative labels selects the same positions as the integer labels -/
theorem natLabels_beq (l : List Int) (k : Nat) (i : Nat) {x : Nat} (hx : x < k) :
    ((natLabels l k).getD i k == x) = (l.getD i (-1) == (x : Int)) := by
  by_cases hi : i < l.length
  · have hi' : i < (natLabels l k).length := by rw [natLabels_length]; exact hi
    have e1 : (natLabels l k).getD i k = if 0 ≤ l[i] then l[i].toNat else k := by
      simp [natLabels, List.getD_eq_getElem?_getD, hi]
    have e2 : l.getD i (-1) = l[i] := by simp [List.getD_eq_getElem?_getD, hi]
    rw [e1, e2]
    by_cases h0 : 0 ≤ l[i]
    · simp only [h0, if_true]
      rw [Bool.eq_iff_iff]; simp only [beq_iff_eq]; omega
    · simp only [h0, if_false]
      rw [Bool.eq_iff_iff]; simp only [beq_iff_eq]; omega
  · have e1 : (natLabels l k).getD i k = k := by
      have : ¬ i < (natLabels l k).length := by rw [natLabels_length]; exact hi
      simp [List.getD_eq_getElem?_getD, List.getElem?_eq_none (Nat.le_of_not_lt this)]
    have e2 : l.getD i (-1) = -1 := by
      simp [List.getD_eq_getElem?_getD, List.getElem?_eq_none (Nat.le_of_not_lt hi)]
    rw [e1, e2, Bool.eq_iff_iff]; simp only [beq_iff_eq]; omega

theorem memberTDot_getD2 (lr : List Nat) (k k2 : Nat) (am : List (List Rat)) {x y : Nat} (hx : x < k) (hy : y < k2) :
    ((memberTDot lr k am k2).getD x []).getD y 0 =
      sumR (((List.range lr.length).filter fun i => lr.getD i k == x).map fun i => (am.getD i []).getD y 0) := by
  rw [show memberTDot lr k am k2 = tab k fun a => tab k2 fun b =>
    sumR (((List.range lr.length).filter fun i => lr.getD i k == a).map fun i => (am.getD i []).getD b 0) from rfl,
    tab_getD, if_pos hx, tab_getD, if_pos hy]

theorem getMembership_rows_length {l : List Int} {k : Option Nat} {m : Membership}
    (h : getMembership l k = .ok m) : m.rows.length = l.length := by
  unfold getMembership at h
  cases hc : membershipCols l k with
  | error e => rw [hc] at h; cases h
  | ok nCol =>
    rw [hc] at h
    simp only at h
    split at h
    · cases h
    · split at h
      · cases h
      · cases h; simp

/-- entry `(x, y)` of `Mrᵀ·A·Mc` for integer labels with the out-of-range encoding -/
theorem aggregate_entry_int (a : SpMat) (lr lc : List Int) (kr kc : Nat) (hlen : lr.length = a.length)
    {x y : Nat} (hx : x < kr) (hy : y < kc) :
    ((memberTDot (natLabels lr kr) kr (dotMember a (natLabels lc kc) kc) kc).getD x []).getD y 0 =
      aggEntryInt a lr lc x y := by
  rw [memberTDot_getD2 _ kr kc _ hx hy, natLabels_length, hlen]
  have hrow : ∀ i ∈ (List.range a.length).filter fun i => (natLabels lr kr).getD i kr == x,
      ((dotMember a (natLabels lc kc) kc).getD i []).getD y 0 =
        sumR (((a.getD i []).filter fun e => lc.getD e.1 (-1) == (y : Int)).map (·.2)) := by
    intro i hi
    have hi' := List.mem_range.mp (List.mem_filter.mp hi).1
    rw [dotMember_getD a _ kc hi', tab_getD, if_pos hy]
    unfold classSum
    congr 2
    apply List.filter_congr
    intro e _
    exact natLabels_beq lc kc e.1 hy
  rw [sumR_map_congr hrow]
  have hfil : ((List.range a.length).filter fun i => (natLabels lr kr).getD i kr == x) =
      (List.range a.length).filter fun i => lr.getD i (-1) == (x : Int) := by
    apply List.filter_congr
    intro i _
    exact natLabels_beq lr kr i hx
  rw [hfil]
  exact sum_rows_eq_triples a (fun i => lr.getD i (-1) == (x : Int)) (fun j => lc.getD j (-1) == (y : Int))

/-- ★ `aggregate_graph`: when it returns, the result is `(max row label + 1) × (max column label + 1)` and entry
    `(x, y)` is the sum of the input weights from the rows labelled `x` to the columns labelled `y`; rows and columns
    with a negative label do not contribute -/
theorem aggregateGraph_spec {a : SpMat} {nCol : Nat} {labels labelsRow labelsCol : Option (List Int)}
    {kr kc : Nat} {g : List (List Rat)}
    (h : aggregateGraph a nCol labels labelsRow labelsCol = .ok (kr, kc, g)) :
    ∃ lr, rowLabelsArg labels labelsRow = some lr ∧
      g.length = kr ∧ ∀ x, x < kr → (g.getD x []).length = kc ∧
        ∀ y, y < kc → (g.getD x []).getD y 0 = aggEntryInt a lr (colLabelsArg labelsCol lr) x y := by
  unfold aggregateGraph at h
  cases hlr : rowLabelsArg labels labelsRow with
  | none => rw [hlr] at h; cases h
  | some lr =>
    rw [hlr] at h
    simp only at h
    cases hmr : getMembership lr none with
    | error e => rw [hmr] at h; cases h
    | ok mr =>
      rw [hmr] at h
      simp only at h
      cases hmc : colMembership labelsCol mr with
      | error e => rw [hmc] at h; cases h
      | ok mc =>
        rw [hmc] at h
        simp only at h
        split at h
        · cases h
        rename_i hshape
        simp only [Except.ok.injEq, Prod.mk.injEq] at h
        obtain ⟨rfl, rfl, rfl⟩ := h
        have hl : lr.length = a.length := by
          have := getMembership_rows_length hmr
          simp only [Bool.or_eq_true, bne_iff_ne, ne_eq, not_or, Decidable.not_not] at hshape
          omega
        refine ⟨lr, rfl, by simp [memberTDot], ?_⟩
        intro x hx
        constructor
        · rw [show memberTDot (natLabels lr mr.nCol) mr.nCol
              (dotMember a (natLabels (colLabelsArg labelsCol lr) mc.nCol) mc.nCol) mc.nCol =
              tab mr.nCol fun a' => tab mc.nCol fun b =>
                sumR (((List.range (natLabels lr mr.nCol).length).filter fun i =>
                  (natLabels lr mr.nCol).getD i mr.nCol == a').map fun i =>
                  ((dotMember a (natLabels (colLabelsArg labelsCol lr) mc.nCol) mc.nCol).getD i []).getD b 0) from rfl,
            tab_getD, if_pos hx]
          simp
        · intro y hy
          exact aggregate_entry_int a lr _ mr.nCol mc.nCol hl hx hy

/-- ★ `get_membership`: when it returns, one row per label; the row of a non-negative label holds exactly that
    column, inside the shape; the row of a negative label is empty -/
theorem getMembership_spec {l : List Int} {k : Option Nat} {m : Membership}
    (h : getMembership l k = .ok m) :
    m.rows.length = l.length ∧
    ∀ i (hi : i < l.length), m.rows.getD i [] = (if 0 ≤ l[i] then [l[i].toNat] else []) ∧
      (0 ≤ l[i] → l[i].toNat < m.nCol) := by
  refine ⟨getMembership_rows_length h, ?_⟩
  unfold getMembership at h
  cases hc : membershipCols l k with
  | error e => rw [hc] at h; cases h
  | ok nCol =>
    rw [hc] at h
    simp only at h
    split at h
    · cases h
    rename_i hneg
    split at h
    · cases h
    rename_i hany
    cases h
    intro i hi
    refine ⟨by simp [List.getD_eq_getElem?_getD, hi], ?_⟩
    intro h0
    have : ¬ (nCol ≤ l[i]) := by
      intro hle
      apply hany
      rw [List.any_eq_true]
      exact ⟨l[i], List.getElem_mem hi, by simpa using hle⟩
    show l[i].toNat < nCol.toNat
    omega

end SkNet.Clustering
