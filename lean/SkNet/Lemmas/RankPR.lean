/-
PageRank as a linear-algebra object (C04): uniqueness of the probability vector proportional to the solution of
`x = a Pᵀ x + (1−a) y`, its reading as the stationary distribution of the random surfer, and the distance
between normalised vectors.  Functions `ℕ → ℚ` on `range n`; `P` row-substochastic.
-/
import SkNet.Lemmas.RankL1
import Mathlib.Tactic.FieldSimp
import Mathlib.Algebra.Order.Field.Basic
import Mathlib.Algebra.BigOperators.Field
import Mathlib.Tactic.LinearCombination

open Finset

namespace SkNet.RankL1

theorem PT_linear (n : ℕ) (P : ℕ → ℕ → ℚ) (c c' : ℚ) (x x' : ℕ → ℚ) (i : ℕ) :
    PT n P (fun j => c * x j + c' * x' j) i = c * PT n P x i + c' * PT n P x' i := by
  unfold PT
  rw [mul_sum, mul_sum, ← sum_add_distrib]
  apply sum_congr rfl; intro j _; ring

theorem PT_sub (n : ℕ) (P : ℕ → ℕ → ℚ) (x x' : ℕ → ℚ) (i : ℕ) :
    PT n P (fun j => x j - x' j) i = PT n P x i - PT n P x' i := by
  unfold PT
  rw [← sum_sub_distrib]
  apply sum_congr rfl; intro j _; ring

theorem PT_nonneg {n : ℕ} {P : ℕ → ℕ → ℚ} (h : SubStoch n P) {x : ℕ → ℚ} (hx : ∀ j, j < n → 0 ≤ x j) (i : ℕ) :
    0 ≤ PT n P x i :=
  sum_nonneg fun j hj => mul_nonneg (h.nonneg j i) (hx j (mem_range.mp hj))

/-- `Σ Pᵀx ≤ Σ x` for a non-negative `x` -/
theorem sum_PT_le {n : ℕ} {P : ℕ → ℕ → ℚ} (h : SubStoch n P) {x : ℕ → ℚ} (hx : ∀ j, j < n → 0 ≤ x j) :
    ∑ i ∈ range n, PT n P x i ≤ ∑ j ∈ range n, x j := by
  rw [sum_PT]
  apply sum_le_sum; intro j hj
  calc (∑ i ∈ range n, P j i) * x j ≤ 1 * x j := mul_le_mul_of_nonneg_right (h.row_le j) (hx j (mem_range.mp hj))
    _ = x j := one_mul _

/-- `x` is a probability vector with `x − a Pᵀ x = c·y` -/
structure IsPR (n : ℕ) (P : ℕ → ℕ → ℚ) (a : ℚ) (y x : ℕ → ℚ) (c : ℚ) : Prop where
  nonneg : ∀ i, i < n → 0 ≤ x i
  sum_one : ∑ i ∈ range n, x i = 1
  eq : ∀ i, i < n → x i = a * PT n P x i + c * y i

/-- the constant of proportionality is `1 − a Σ Pᵀx`, hence at least `1 − a` -/
theorem IsPR.const {n : ℕ} {P : ℕ → ℕ → ℚ} {a : ℚ} {y x : ℕ → ℚ} {c : ℚ} (hy : ∑ i ∈ range n, y i = 1)
    (h : IsPR n P a y x c) : c = 1 - a * ∑ i ∈ range n, PT n P x i := by
  have hs : ∑ i ∈ range n, x i = ∑ i ∈ range n, (a * PT n P x i + c * y i) :=
    sum_congr rfl fun i hi => h.eq i (mem_range.mp hi)
  rw [sum_add_distrib, ← mul_sum, ← mul_sum, hy, h.sum_one] at hs
  linarith

theorem IsPR.const_ge {n : ℕ} {P : ℕ → ℕ → ℚ} (hP : SubStoch n P) {a : ℚ} (ha : 0 ≤ a) {y x : ℕ → ℚ} {c : ℚ}
    (hy : ∑ i ∈ range n, y i = 1) (h : IsPR n P a y x c) : 1 - a ≤ c := by
  rw [h.const hy]
  have h1 := sum_PT_le hP h.nonneg
  rw [h.sum_one] at h1
  have := mul_le_mul_of_nonneg_left h1 ha
  linarith

theorem IsPR.const_le {n : ℕ} {P : ℕ → ℕ → ℚ} (hP : SubStoch n P) {a : ℚ} (ha : 0 ≤ a) {y x : ℕ → ℚ} {c : ℚ}
    (hy : ∑ i ∈ range n, y i = 1) (h : IsPR n P a y x c) : c ≤ 1 := by
  rw [h.const hy]
  have h0 : 0 ≤ ∑ i ∈ range n, PT n P x i := sum_nonneg fun i _ => PT_nonneg hP h.nonneg i
  have := mul_nonneg ha h0
  linarith

/-- ★ uniqueness: the probability vector proportional to the solution of `x = a Pᵀ x + (1−a) y` is unique -/
theorem IsPR.unique {n : ℕ} {P : ℕ → ℕ → ℚ} (hP : SubStoch n P) {a : ℚ} (ha : 0 ≤ a) (ha1 : a < 1)
    {y x x' : ℕ → ℚ} {c c' : ℚ} (hy : ∑ i ∈ range n, y i = 1)
    (h : IsPR n P a y x c) (h' : IsPR n P a y x' c') : c = c' ∧ ∀ i, i < n → x i = x' i := by
  have hc : 0 < c := lt_of_lt_of_le (by linarith) (h.const_ge hP ha hy)
  have hc' : 0 < c' := lt_of_lt_of_le (by linarith) (h'.const_ge hP ha hy)
  -- d = c'·x − c·x' solves the homogeneous equation
  have hd : ∀ i, i < n → (fun j => c' * x j + (-c) * x' j) i
      - a * PT n P (fun j => c' * x j + (-c) * x' j) i = (fun _ => (0 : ℚ)) i := by
    intro i hi
    rw [PT_linear]
    have e1 := h.eq i hi
    have e2 := h'.eq i hi
    simp only
    linear_combination c' * e1 - c * e2
  have hb := resolvent_bound hP ha _ _ hd
  have hz0 : l1 n (fun _ => (0 : ℚ)) = 0 := by simp [l1]
  rw [hz0] at hb
  have hl : l1 n (fun j => c' * x j + (-c) * x' j) ≤ 0 := by
    by_contra hcon
    have := mul_pos (by linarith : (0 : ℚ) < 1 - a) (not_le.mp hcon)
    linarith
  have hzero := eq_zero_of_l1_le_zero hl
  have hcc : c = c' := by
    have hs : ∑ i ∈ range n, (c' * x i + (-c) * x' i) = 0 :=
      sum_eq_zero fun i hi => hzero i (mem_range.mp hi)
    rw [sum_add_distrib, ← mul_sum, ← mul_sum, h.sum_one, h'.sum_one] at hs
    linarith
  refine ⟨hcc, fun i hi => ?_⟩
  have h0 : c' * x i + (-c) * x' i = 0 := hzero i hi
  rw [← hcc] at h0
  have h2 : c * (x i - x' i) = 0 := by linarith
  rcases mul_eq_zero.mp h2 with h3 | h3
  · exact absurd h3 (ne_of_gt hc)
  · linarith

/-! ### the random surfer -/

/-- transition probabilities of the surfer: from a node whose row of `P` is null (no out-link) restart from `y`,
    otherwise follow `P` with probability `a` and restart from `y` with probability `1−a` -/
def surfer (P : ℕ → ℕ → ℚ) (sink : ℕ → Prop) [DecidablePred sink] (a : ℚ) (y : ℕ → ℚ) (i j : ℕ) : ℚ :=
  if sink i then y j else a * P i j + (1 - a) * y j

/-- ★ a probability vector is stationary for the surfer iff it is proportional to the solution of
    `x = a Pᵀ x + (1−a) y`, provided `P` is stochastic off the sinks and null on them -/
theorem stationary_iff_isPR {n : ℕ} {P : ℕ → ℕ → ℚ} (sink : ℕ → Prop) [DecidablePred sink]
    (hsink : ∀ i, sink i → ∀ j, P i j = 0) (hrow : ∀ i, ¬ sink i → ∑ j ∈ range n, P i j = 1)
    {a : ℚ} {y x : ℕ → ℚ} (hx0 : ∀ i, i < n → 0 ≤ x i) (hx1 : ∑ i ∈ range n, x i = 1) (hy : ∑ i ∈ range n, y i = 1) :
    (∀ j, j < n → x j = ∑ i ∈ range n, x i * surfer P sink a y i j) ↔ ∃ c, IsPR n P a y x c := by
  -- the restart mass
  have key : ∀ j, ∑ i ∈ range n, x i * surfer P sink a y i j
      = a * PT n P x j + (∑ i ∈ range n, x i * (if sink i then 1 else 1 - a)) * y j := by
    intro j
    unfold PT surfer
    rw [mul_sum, sum_mul, ← sum_add_distrib]
    apply sum_congr rfl; intro i _
    by_cases hs : sink i
    · simp only [hs, if_true, hsink i hs j]; ring
    · simp only [hs, if_false]; ring
  constructor
  · intro hst
    exact ⟨_, hx0, hx1, fun j hj => by rw [hst j hj, key j]⟩
  · rintro ⟨c, hpr⟩ j hj
    rw [key j, hpr.eq j hj]
    congr 1
    -- c = 1 − a Σ_j (rowsum_j) x_j = Σ x_i (1 or 1−a)
    have hc := hpr.const hy
    rw [sum_PT] at hc
    have : ∑ i ∈ range n, x i * (if sink i then 1 else 1 - a)
        = ∑ i ∈ range n, x i - a * ∑ i ∈ range n, (∑ k ∈ range n, P i k) * x i := by
      rw [mul_sum, ← sum_sub_distrib]
      apply sum_congr rfl; intro i _
      by_cases hs : sink i
      · have : ∑ k ∈ range n, P i k = 0 := sum_eq_zero fun k _ => hsink i hs k
        simp only [hs, if_true, this]; ring
      · simp only [hs, if_false, hrow i hs]; ring
    rw [this, hx1, hc]

/-! ### distance between normalised vectors -/

/-- `‖u/Σu − v/Σv‖₁ ≤ 2 ‖u − v‖₁ / Σv` for a non-negative `u` and positive sums -/
theorem normalize_close {n : ℕ} (u v : ℕ → ℚ) (hu : ∀ i, i < n → 0 ≤ u i)
    (hsu : 0 < ∑ i ∈ range n, u i) (hsv : 0 < ∑ i ∈ range n, v i) :
    ∑ i ∈ range n, |u i / (∑ k ∈ range n, u k) - v i / (∑ k ∈ range n, v k)|
      ≤ 2 * (∑ i ∈ range n, |u i - v i|) / (∑ k ∈ range n, v k) := by
  set su := ∑ k ∈ range n, u k with hsu_def
  set sv := ∑ k ∈ range n, v k with hsv_def
  set D := ∑ i ∈ range n, |u i - v i| with hD
  have hdiff : |su - sv| ≤ D := by
    rw [hsu_def, hsv_def, ← sum_sub_distrib]
    exact abs_sum_le_sum_abs _ _
  have hterm : ∀ i ∈ range n,
      |u i / su - v i / sv| ≤ |u i - v i| / sv + u i / su * (|su - sv| / sv) := by
    intro i hi
    have hui := hu i (mem_range.mp hi)
    have e : u i / su - v i / sv = (u i - v i) / sv + u i / su * ((sv - su) / sv) := by
      field_simp
      ring
    rw [e]
    refine (abs_add_le _ _).trans ?_
    rw [abs_div, abs_mul, abs_div, abs_div, abs_of_pos hsv, abs_of_pos hsu, abs_of_nonneg hui, abs_sub_comm sv su]
  calc ∑ i ∈ range n, |u i / su - v i / sv|
      ≤ ∑ i ∈ range n, (|u i - v i| / sv + u i / su * (|su - sv| / sv)) := sum_le_sum hterm
    _ = D / sv + (∑ i ∈ range n, u i / su) * (|su - sv| / sv) := by
        rw [sum_add_distrib, ← sum_div, ← sum_mul]
    _ = D / sv + |su - sv| / sv := by
        rw [← sum_div, ← hsu_def, div_self (ne_of_gt hsu), one_mul]
    _ ≤ D / sv + D / sv := by
        have := div_le_div_of_nonneg_right hdiff (le_of_lt hsv)
        linarith
    _ = 2 * D / sv := by ring

end SkNet.RankL1
