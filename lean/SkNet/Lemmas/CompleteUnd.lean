/- The traversal of `get_cycles` on an undirected graph: every simple path from a start node is explored, every
   back edge other than the move back to the parent is recorded; so a cycle with three nodes or more in the
   component of a start node leaves a trace. -/
import SkNet.Model.Cycles
import SkNet.Spec.Connectivity
import SkNet.Lemmas.Complete

namespace SkNet.Cycles
open SkNet SkNet.Connectivity

/-- what one pop does (undirected graph) -/
theorem cyclesNeighbors_effect_und (rp : List Nat) (nbs : List Nat) (stack cycles : List (List Nat)) :
    (∀ p ∈ stack, p ∈ (cyclesNeighbors false rp nbs (stack, cycles)).1) ∧
    (∀ c ∈ cycles, c ∈ (cyclesNeighbors false rp nbs (stack, cycles)).2) ∧
    (∀ nb ∈ nbs, nb ∉ rp → (nb :: rp) ∈ (cyclesNeighbors false rp nbs (stack, cycles)).1) ∧
    (∀ nb ∈ nbs, nb ∈ rp → ¬ (rp.length > 1 ∧ nb = rp.getD 1 0) →
      cycleOf rp nb ∈ (cyclesNeighbors false rp nbs (stack, cycles)).2) := by
  induction nbs generalizing stack cycles with
  | nil => simp [cyclesNeighbors]
  | cons nb rest ih =>
    unfold cyclesNeighbors
    by_cases hback : (!false && decide (rp.length > 1) && nb == rp.getD 1 0) = true
    · simp only [hback, ↓reduceIte]
      obtain ⟨h1, h2, h3, h4⟩ := ih stack cycles
      have hb : rp.length > 1 ∧ nb = rp.getD 1 0 := by simpa using hback
      refine ⟨h1, h2, ?_, ?_⟩
      · intro x hx hxn
        rcases List.mem_cons.mp hx with rfl | hx
        · exfalso
          apply hxn
          rw [hb.2, List.getD_eq_getElem?_getD, List.getElem?_eq_getElem hb.1]
          exact List.getElem_mem _
        · exact h3 x hx hxn
      · intro x hx hxin hnp
        rcases List.mem_cons.mp hx with rfl | hx
        · exact absurd hb hnp
        · exact h4 x hx hxin hnp
    · simp only [hback, Bool.false_eq_true, ↓reduceIte]
      by_cases hin : rp.contains nb = true
      · simp only [hin, ↓reduceIte]
        obtain ⟨h1, h2, h3, h4⟩ := ih stack (cycles ++ [cycleOf rp nb])
        refine ⟨h1, fun c hc => h2 c (List.mem_append_left _ hc), ?_, ?_⟩
        · intro x hx hxn
          rcases List.mem_cons.mp hx with rfl | hx
          · exact absurd (by simpa using hin) hxn
          · exact h3 x hx hxn
        · intro x hx hxin hnp
          rcases List.mem_cons.mp hx with rfl | hx
          · exact h2 _ (List.mem_append_right _ (by simp))
          · exact h4 x hx hxin hnp
      · simp only [hin, Bool.false_eq_true, ↓reduceIte]
        obtain ⟨h1, h2, h3, h4⟩ := ih ((nb :: rp) :: stack) cycles
        refine ⟨fun p hp => h1 p (List.mem_cons_of_mem _ hp), h2, ?_, ?_⟩
        · intro x hx hxn
          rcases List.mem_cons.mp hx with rfl | hx
          · exact h1 _ List.mem_cons_self
          · exact h3 x hx hxn
        · intro x hx hxin hnp
          rcases List.mem_cons.mp hx with rfl | hx
          · exact absurd hxin (by simpa using hin)
          · exact h4 x hx hxin hnp

/-- exploration (undirected) -/
theorem cyclesLoop_explores_und (adj : Nat → List Nat) (fuel : Nat) (stack cycles out : List (List Nat))
    (h : cyclesLoop adj false fuel stack cycles = some out) :
    (∀ c ∈ cycles, c ∈ out) ∧
    ∀ rp ∈ stack, ∀ rp', Extends adj rp rp' → ∀ nb ∈ adj (rp'.headD 0), nb ∈ rp' →
      ¬ (rp'.length > 1 ∧ nb = rp'.getD 1 0) → cycleOf rp' nb ∈ out := by
  induction fuel generalizing stack cycles with
  | zero => simp [cyclesLoop] at h
  | succ fuel ih =>
    unfold cyclesLoop at h
    match stack with
    | [] =>
      simp only at h
      cases h
      exact ⟨fun c hc => hc, fun rp hrp => by cases hrp⟩
    | rp0 :: rest =>
      simp only at h
      obtain ⟨e1, e2, e3, e4⟩ := cyclesNeighbors_effect_und rp0 (adj (rp0.headD 0)) rest cycles
      obtain ⟨ihc, ihs⟩ := ih _ _ h
      refine ⟨fun c hc => ihc c (e2 c hc), ?_⟩
      intro rp hrp rp' hext nb hnb hin hnp
      rcases List.mem_cons.mp hrp with rfl | hrp
      · cases hext with
        | refl => exact ihc _ (e4 nb hnb hin hnp)
        | step hx hxn hrest => exact ihs _ (e3 _ hx hxn) rp' hrest nb hnb hin hnp
      · exact ihs rp (e1 rp hrp) rp' hext nb hnb hin hnp

theorem cyclesFromStarts_explores_und (adj : Nat → List Nat) (fuel : Nat) (starts : List Nat)
    (cycles out : List (List Nat)) (h : cyclesFromStarts adj false fuel starts cycles = some out) :
    (∀ c ∈ cycles, c ∈ out) ∧
    ∀ s ∈ starts, ∀ rp', Extends adj [s] rp' → ∀ nb ∈ adj (rp'.headD 0), nb ∈ rp' →
      ¬ (rp'.length > 1 ∧ nb = rp'.getD 1 0) → cycleOf rp' nb ∈ out := by
  induction starts generalizing cycles with
  | nil => simp only [cyclesFromStarts] at h; cases h; exact ⟨fun c hc => hc, fun s hs => by cases hs⟩
  | cons s rest ih =>
    unfold cyclesFromStarts at h
    split at h
    · cases h
    · rename_i cycles' hl
      obtain ⟨l1, l2⟩ := cyclesLoop_explores_und adj fuel [[s]] cycles cycles' hl
      obtain ⟨r1, r2⟩ := ih cycles' h
      refine ⟨fun c hc => r1 c (l1 c hc), ?_⟩
      intro x hx rp' hext nb hnb hin hnp
      rcases List.mem_cons.mp hx with rfl | hx
      · exact r1 _ (l2 [x] (by simp) rp' hext nb hnb hin hnp)
      · exact r2 x hx rp' hext nb hnb hin hnp

/-- ★ a cycle with three nodes or more that a start node reaches makes the traversal record something -/
theorem cycle_found_und {n : Nat} {adj : Nat → List Nat} (fuel : Nat) (starts : List Nat)
    (cycles out : List (List Nat)) (h : cyclesFromStarts adj false fuel starts cycles = some out)
    {s : Nat} (hs : s ∈ starts) {C : List Nat} (hC : IsSimpleCycle n adj false C) (hlen : 3 ≤ C.length)
    {c : Nat} (hc : c ∈ C) (hreach : Reach adj s c) : out ≠ [] := by
  have hC' : IsSimpleCycle n adj true C := ⟨hC.1, hC.2.1, hC.2.2.1, Or.inl rfl⟩
  obtain ⟨a, b, y0, tw, hsplit, hnd, hext, hedge⟩ := path_around_cycle hC' hc hreach
  have hin : y0 ∈ (b ++ a).reverse ++ y0 :: tw.reverse := by simp
  have hL : 2 ≤ (b ++ a).length := by
    have : C.length = a.length + (b.length + 1) := by rw [hsplit]; simp
    simp only [List.length_append]
    omega
  have hnp : ¬ (((b ++ a).reverse ++ y0 :: tw.reverse).length > 1 ∧
      y0 = ((b ++ a).reverse ++ y0 :: tw.reverse).getD 1 0) := by
    intro ⟨_, hpar⟩
    match hrev : (b ++ a).reverse with
    | [] => have := congrArg List.length hrev; rw [List.length_reverse] at this; simp only [List.length_nil] at this; omega
    | [_] => have := congrArg List.length hrev; rw [List.length_reverse] at this; simp only [List.length_singleton] at this; omega
    | z1 :: z2 :: zs =>
      rw [hrev] at hpar
      simp only [List.cons_append, List.getD_cons_succ, List.getD_cons_zero] at hpar
      have hz2 : z2 ∈ b ++ a := by
        have : z2 ∈ (b ++ a).reverse := by rw [hrev]; simp
        exact List.mem_reverse.mp this
      exact (List.nodup_cons.mp hnd).1 (hpar ▸ hz2)
  have := (cyclesFromStarts_explores_und adj fuel starts cycles out h).2 s hs _ hext y0 hedge hin hnp
  intro hnil
  rw [hnil] at this
  cases this

/-- the duplicate removal keeps at least one cycle -/
theorem dedupCycles_ne_nil (directed : Bool) (cycles : List (List Nat)) (h : cycles ≠ []) :
    dedupCycles directed cycles ([], []) ≠ [] := by
  obtain ⟨c, t, rfl⟩ := List.exists_cons_of_ne_nil h
  unfold dedupCycles
  simp only [List.contains_nil, Bool.false_eq_true, ↓reduceIte, List.nil_append]
  -- the first candidate is kept, and what is kept stays
  have : ∀ (cs visited unique : List (List Nat)), unique ≠ [] → dedupCycles directed cs (visited, unique) ≠ [] := by
    intro cs
    induction cs with
    | nil => intro v u hu; simpa [dedupCycles] using hu
    | cons x xs ih =>
      intro v u hu
      unfold dedupCycles
      simp only
      generalize (if directed = true then rollMin x else sortNat (rollMin x)) = key
      by_cases hv : v.contains key = true
      · simp only [hv, ↓reduceIte]; exact ih v u hu
      · simp only [hv, Bool.false_eq_true, ↓reduceIte]; exact ih _ _ (by simp)
  exact this t _ _ (by simp)

end SkNet.Cycles
