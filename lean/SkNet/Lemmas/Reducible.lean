/- Paris' linkage is reducible: the similarity of a merged cluster to a third one lies between the similarities of
   its two parts (mediant inequality), in exact arithmetic. -/
import SkNet.Model.Paris
import SkNet.Lemmas.MergeW
import Mathlib.Algebra.Order.Field.Basic
import Mathlib.Algebra.Order.Field.Rat
import Mathlib.Tactic.Linarith
import Mathlib.Tactic.Ring

namespace SkNet.Paris
open SkNet SkNet.Dendro SkNet.Agg

theorem mediant_le_max {p1 p2 q1 q2 : ℚ} (h1 : 0 < q1) (h2 : 0 < q2) :
    (p1 + p2) / (q1 + q2) ≤ max (p1 / q1) (p2 / q2) := by
  have hq : 0 < q1 + q2 := by linarith
  rw [div_le_iff₀ hq]
  have a1 : p1 ≤ max (p1 / q1) (p2 / q2) * q1 := by
    have : p1 / q1 ≤ max (p1 / q1) (p2 / q2) := le_max_left _ _
    calc p1 = p1 / q1 * q1 := (div_mul_cancel₀ p1 (ne_of_gt h1)).symm
      _ ≤ _ := mul_le_mul_of_nonneg_right this (le_of_lt h1)
  have a2 : p2 ≤ max (p1 / q1) (p2 / q2) * q2 := by
    have : p2 / q2 ≤ max (p1 / q1) (p2 / q2) := le_max_right _ _
    calc p2 = p2 / q2 * q2 := (div_mul_cancel₀ p2 (ne_of_gt h2)).symm
      _ ≤ _ := mul_le_mul_of_nonneg_right this (le_of_lt h2)
  linarith

theorem min_le_mediant {p1 p2 q1 q2 : ℚ} (h1 : 0 < q1) (h2 : 0 < q2) :
    min (p1 / q1) (p2 / q2) ≤ (p1 + p2) / (q1 + q2) := by
  have hq : 0 < q1 + q2 := by linarith
  rw [le_div_iff₀ hq]
  have a1 : min (p1 / q1) (p2 / q2) * q1 ≤ p1 := by
    have : min (p1 / q1) (p2 / q2) ≤ p1 / q1 := min_le_left _ _
    calc _ ≤ p1 / q1 * q1 := mul_le_mul_of_nonneg_right this (le_of_lt h1)
      _ = p1 := div_mul_cancel₀ p1 (ne_of_gt h1)
  have a2 : min (p1 / q1) (p2 / q2) * q2 ≤ p2 := by
    have : min (p1 / q1) (p2 / q2) ≤ p2 / q2 := min_le_right _ _
    calc _ ≤ p2 / q2 * q2 := mul_le_mul_of_nonneg_right this (le_of_lt h2)
      _ = p2 := div_mul_cancel₀ p2 (ne_of_gt h2)
  linarith

/-- the weight dicts after a merge -/
theorem wOf_merge_new (d : Dict ℚ) (n1 n2 new : Nat) :
    wOf (((d.erase n1).erase n2).set new ((d.get? n1).getD 0 + (d.get? n2).getD 0)) new = wOf d n1 + wOf d n2 := by
  unfold wOf; rw [Dict.get?_set]; simp

theorem wOf_merge_other (d : Dict ℚ) (n1 n2 new : Nat) (v : ℚ) {c : Nat} (h1 : c ≠ n1) (h2 : c ≠ n2) (h3 : c ≠ new) :
    wOf (((d.erase n1).erase n2).set new v) c = wOf d c := by
  unfold wOf; rw [Dict.get?_set, Dict.get?_erase, Dict.get?_erase]; simp [h1, h2, h3]

/-- similarity in exact arithmetic, when the denominator is positive -/
theorem similarity_exact (g : AggGraph ℚ) (x c : Nat)
    (hd : 0 < wOf g.outW x * wOf g.inW c + wOf g.outW c * wOf g.inW x) :
    similarity id g x c =
      some (2 * getEntry g.nb x c / (wOf g.outW x * wOf g.inW c + wOf g.outW c * wOf g.inW x)) := by
  unfold similarity
  simp only [id_eq, hd, if_true]

/-- **reducibility of the linkage**: after `merge n1 n2`, the similarity of the new node to any other node `c`
    lies between the similarities of `n1` and `n2` to `c` -/
theorem similarity_merge {g : AggGraph ℚ} {n1 n2 c : Nat} (hI : NbInv g.nb g.next) (h12 : n1 ≠ n2)
    (h1 : n1 < g.next) (h2 : n2 < g.next) (hc : c < g.next) (hc1 : c ≠ n1) (hc2 : c ≠ n2)
    (ho1 : 0 < wOf g.outW n1) (ho2 : 0 < wOf g.outW n2) (hoc : 0 < wOf g.outW c)
    (hi1 : 0 < wOf g.inW n1) (hi2 : 0 < wOf g.inW n2) (hic : 0 < wOf g.inW c) :
    ∃ s s1 s2, similarity id (g.merge n1 n2) g.next c = some s ∧ similarity id g n1 c = some s1 ∧
      similarity id g n2 c = some s2 ∧ min s1 s2 ≤ s ∧ s ≤ max s1 s2 := by
  have h4 : g.next ≠ n1 := by omega
  have h5 : g.next ≠ n2 := by omega
  have hc3 : c ≠ g.next := by omega
  obtain ⟨_, hW, _⟩ := mergeNb_spec g.nb h12 h4 h5 hI.rows (fun x => hI.fresh x g.next (Nat.le_refl _)) hI.sym
  have hd1 : 0 < wOf g.outW n1 * wOf g.inW c + wOf g.outW c * wOf g.inW n1 := by positivity
  have hd2 : 0 < wOf g.outW n2 * wOf g.inW c + wOf g.outW c * wOf g.inW n2 := by positivity
  have eO : wOf (g.merge n1 n2).outW g.next = wOf g.outW n1 + wOf g.outW n2 := wOf_merge_new _ _ _ _
  have eI : wOf (g.merge n1 n2).inW g.next = wOf g.inW n1 + wOf g.inW n2 := wOf_merge_new _ _ _ _
  have eOc : wOf (g.merge n1 n2).outW c = wOf g.outW c := wOf_merge_other _ _ _ _ _ hc1 hc2 hc3
  have eIc : wOf (g.merge n1 n2).inW c = wOf g.inW c := wOf_merge_other _ _ _ _ _ hc1 hc2 hc3
  have eK : getEntry (g.merge n1 n2).nb g.next c = getEntry g.nb n1 c + getEntry g.nb n2 c := by
    show getEntry (mergeNb g.nb n1 n2 g.next) g.next c = _
    rw [hW]
    simp [h4, h5, hc1, hc2, hc3]
  have hd : 0 < wOf (g.merge n1 n2).outW g.next * wOf (g.merge n1 n2).inW c +
      wOf (g.merge n1 n2).outW c * wOf (g.merge n1 n2).inW g.next := by
    rw [eO, eI, eOc, eIc]; positivity
  refine ⟨_, _, _, similarity_exact _ _ _ hd, similarity_exact _ _ _ hd1, similarity_exact _ _ _ hd2, ?_, ?_⟩
  · rw [eO, eI, eOc, eIc, eK]
    have := min_le_mediant (p1 := 2 * getEntry g.nb n1 c) (p2 := 2 * getEntry g.nb n2 c) hd1 hd2
    have e : (2 * getEntry g.nb n1 c + 2 * getEntry g.nb n2 c) /
        (wOf g.outW n1 * wOf g.inW c + wOf g.outW c * wOf g.inW n1 +
          (wOf g.outW n2 * wOf g.inW c + wOf g.outW c * wOf g.inW n2)) =
        2 * (getEntry g.nb n1 c + getEntry g.nb n2 c) /
          ((wOf g.outW n1 + wOf g.outW n2) * wOf g.inW c + wOf g.outW c * (wOf g.inW n1 + wOf g.inW n2)) := by
      congr 1 <;> ring
    rw [e] at this; exact this
  · rw [eO, eI, eOc, eIc, eK]
    have := mediant_le_max (p1 := 2 * getEntry g.nb n1 c) (p2 := 2 * getEntry g.nb n2 c) hd1 hd2
    have e : (2 * getEntry g.nb n1 c + 2 * getEntry g.nb n2 c) /
        (wOf g.outW n1 * wOf g.inW c + wOf g.outW c * wOf g.inW n1 +
          (wOf g.outW n2 * wOf g.inW c + wOf g.outW c * wOf g.inW n2)) =
        2 * (getEntry g.nb n1 c + getEntry g.nb n2 c) /
          ((wOf g.outW n1 + wOf g.outW n2) * wOf g.inW c + wOf g.outW c * (wOf g.inW n1 + wOf g.inW n2)) := by
      congr 1 <;> ring
    rw [e] at this; exact this

end SkNet.Paris
