/-
Lemmas for C02 (Weisfeiler-Lehman): the sort, the colour-assigning walk, one round against refinement.
Core Lean only.
-/
import SkNet.Model.WL
import SkNet.Spec.WL

namespace SkNet.WL

attribute [-simp] List.getD_eq_getElem?_getD

/-- exact arithmetic: the hash identifies exactly the colour lists that are permutations of each other,
`lt` is a strict total order, `apart` is disequality -/
structure ExactOps {H : Type} (ops : HashOps H) : Prop where
  hash_iff : ∀ l l', ops.hashOf l = ops.hashOf l' ↔ l.Perm l'
  lt_irrefl : ∀ a, ops.lt a a = false
  lt_trans : ∀ a b c, ops.lt a b = true → ops.lt b c = true → ops.lt a c = true
  lt_total : ∀ a b, a = b ∨ ops.lt a b = true ∨ ops.lt b a = true
  apart_iff : ∀ a b, ops.apart a b = true ↔ a ≠ b

variable {H : Type} {ops : HashOps H}

/-- same (colour, hash) key -/
def KeyEq (a b : Triple H) : Prop := a.label = b.label ∧ a.hash = b.hash

theorem KeyEq.refl (a : Triple H) : KeyEq a a := ⟨rfl, rfl⟩
theorem KeyEq.symm {a b : Triple H} (h : KeyEq a b) : KeyEq b a := ⟨h.1.symm, h.2.symm⟩
theorem KeyEq.trans {a b c : Triple H} (h1 : KeyEq a b) (h2 : KeyEq b c) : KeyEq a c :=
  ⟨h1.1.trans h2.1, h1.2.trans h2.2⟩

theorem isLower_irrefl (hx : ExactOps ops) (a : Triple H) : isLower ops a a = false := by
  simp [isLower, hx.lt_irrefl]

theorem isLower_of_keyEq_left (a b c : Triple H) (h : KeyEq a b) : isLower ops a c = isLower ops b c := by
  unfold isLower; rw [h.1, h.2]

theorem isLower_of_keyEq_right (a b c : Triple H) (h : KeyEq a b) : isLower ops c a = isLower ops c b := by
  unfold isLower; rw [h.1, h.2]

theorem isLower_iff (a b : Triple H) :
    isLower ops a b = true ↔ a.label < b.label ∨ (a.label = b.label ∧ ops.lt a.hash b.hash = true) := by
  unfold isLower
  by_cases hab : a.label = b.label
  · simp [hab]
  · simp [hab]

theorem isLower_trans (hx : ExactOps ops) {a b c : Triple H}
    (h1 : isLower ops a b = true) (h2 : isLower ops b c = true) : isLower ops a c = true := by
  rw [isLower_iff] at *
  rcases h1 with h1 | ⟨e1, h1⟩ <;> rcases h2 with h2 | ⟨e2, h2⟩
  · left; omega
  · left; omega
  · left; omega
  · right; exact ⟨e1.trans e2, hx.lt_trans _ _ _ h1 h2⟩

theorem isLower_total (hx : ExactOps ops) (a b : Triple H) :
    KeyEq a b ∨ isLower ops a b = true ∨ isLower ops b a = true := by
  unfold isLower KeyEq
  by_cases hab : a.label = b.label
  · rcases hx.lt_total a.hash b.hash with h | h | h
    · exact Or.inl ⟨hab, h⟩
    · right; left; simp [hab, h]
    · right; right; simp [hab, h]
  · rcases Nat.lt_or_gt_of_ne hab with h | h
    · right; left; simp [hab, h]
    · right; right
      have : ¬ b.label = a.label := fun e => hab e.symm
      simp [this, h]

theorem not_isLower_of_keyEq (hx : ExactOps ops) {a b : Triple H} (h : KeyEq a b) :
    isLower ops a b = false := by
  rw [isLower_of_keyEq_left a b b h]; exact isLower_irrefl hx b

/-- `a ≤ b` in the key order -/
def Le (ops : HashOps H) (a b : Triple H) : Prop := isLower ops b a = false

theorem lt_of_le_of_not_keyEq (hx : ExactOps ops) {a b : Triple H} (hle : Le ops a b) (hne : ¬ KeyEq a b) :
    isLower ops a b = true := by
  rcases isLower_total hx a b with h | h | h
  · exact absurd h hne
  · exact h
  · unfold Le at hle; rw [hle] at h; exact Bool.noConfusion h

theorem lt_of_lt_of_le (hx : ExactOps ops) {a b c : Triple H} (h1 : isLower ops a b = true) (h2 : Le ops b c) :
    isLower ops a c = true := by
  rcases isLower_total hx b c with h | h | h
  · rw [← isLower_of_keyEq_right b c a h]; exact h1
  · exact isLower_trans hx h1 h
  · unfold Le at h2; rw [h2] at h; exact Bool.noConfusion h

theorem keyEq_of_le_of_le (hx : ExactOps ops) {a b : Triple H} (h1 : Le ops a b) (h2 : Le ops b a) : KeyEq a b := by
  rcases isLower_total hx a b with h | h | h
  · exact h
  · unfold Le at h2; rw [h2] at h; exact Bool.noConfusion h
  · unfold Le at h1; rw [h1] at h; exact Bool.noConfusion h

theorem Le.trans (hx : ExactOps ops) {a b c : Triple H} (h1 : Le ops a b) (h2 : Le ops b c) : Le ops a c := by
  unfold Le
  cases hca : isLower ops c a
  · rfl
  · have := lt_of_lt_of_le hx hca h1
    unfold Le at h2; rw [h2] at this; exact Bool.noConfusion this

/-! ### the sort -/

theorem insertT_perm (t : Triple H) (l : List (Triple H)) : (insertT ops t l).Perm (t :: l) := by
  induction l with
  | nil => simp [insertT]
  | cons x xs ih =>
    unfold insertT
    split
    · exact List.Perm.refl _
    · exact (List.Perm.cons x ih).trans (List.Perm.swap t x xs)

theorem sortT_perm (l : List (Triple H)) : (sortT ops l).Perm l := by
  induction l with
  | nil => simp [sortT]
  | cons x xs ih =>
    have : sortT ops (x :: xs) = insertT ops x (sortT ops xs) := by simp [sortT]
    rw [this]
    exact (insertT_perm x _).trans (List.Perm.cons x ih)

/-- sorted for the key order -/
def Sorted (ops : HashOps H) (l : List (Triple H)) : Prop := l.Pairwise (Le ops)

theorem le_of_isLower (hx : ExactOps ops) {a b : Triple H} (h : isLower ops a b = true) : Le ops a b := by
  unfold Le
  cases hba : isLower ops b a
  · rfl
  · have := isLower_trans hx h hba
    rw [isLower_irrefl hx] at this; exact Bool.noConfusion this

theorem insertT_sorted (hx : ExactOps ops) (t : Triple H) (l : List (Triple H)) (h : Sorted ops l) :
    Sorted ops (insertT ops t l) := by
  induction l with
  | nil => simp [insertT, Sorted]
  | cons x xs ih =>
    obtain ⟨hx1, hxs⟩ := List.pairwise_cons.1 h
    unfold insertT
    split
    · rename_i hlt
      refine List.pairwise_cons.2 ⟨fun y hy => ?_, h⟩
      rcases List.mem_cons.1 hy with rfl | hy
      · exact le_of_isLower hx hlt
      · exact le_of_isLower hx (lt_of_lt_of_le hx hlt (hx1 y hy))
    · rename_i hnlt
      refine List.pairwise_cons.2 ⟨fun y hy => ?_, ih hxs⟩
      have : y ∈ t :: xs := (insertT_perm t xs).mem_iff.1 hy
      rcases List.mem_cons.1 this with rfl | hy'
      · unfold Le; simpa using hnlt
      · exact hx1 y hy'

theorem sortT_sorted (hx : ExactOps ops) (l : List (Triple H)) : Sorted ops (sortT ops l) := by
  induction l with
  | nil => simp [sortT, Sorted]
  | cons x xs ih =>
    have : sortT ops (x :: xs) = insertT ops x (sortT ops xs) := by simp [sortT]
    rw [this]
    exact insertT_sorted hx x _ ih

/-! ### the colour-assigning walk over the sorted triples -/

/-- the colours handed out by `assign`, without the node names -/
def colours (ops : HashOps H) : Triple H → Nat → List (Triple H) → List Nat
  | _, _, [] => []
  | prev, label, t :: ts =>
    let label' := if ops.apart t.hash prev.hash || t.label != prev.label then label + 1 else label
    label' :: colours ops t label' ts

theorem assign_eq_zip (prev : Triple H) (label : Nat) (ts : List (Triple H)) :
    assign ops prev label ts = (ts.map (·.node)).zip (colours ops prev label ts) := by
  induction ts generalizing prev label with
  | nil => simp [assign, colours]
  | cons t ts ih => simp [assign, colours, ih]

theorem colours_length (prev : Triple H) (label : Nat) (ts : List (Triple H)) :
    (colours ops prev label ts).length = ts.length := by
  induction ts generalizing prev label with
  | nil => simp [colours]
  | cons t ts ih => simp [colours, ih]

theorem bump_iff (hx : ExactOps ops) (t prev : Triple H) :
    (ops.apart t.hash prev.hash || t.label != prev.label) = true ↔ ¬ KeyEq t prev := by
  unfold KeyEq
  rw [Bool.or_eq_true, hx.apart_iff]
  simp only [bne_iff_ne, ne_eq]
  constructor
  · rintro (h | h) ⟨h1, h2⟩
    · exact h h2
    · exact h h1
  · intro h
    by_cases h2 : t.hash = prev.hash
    · right; intro h1; exact h ⟨h1, h2⟩
    · left; exact h2

theorem colours_spec (hx : ExactOps ops) : ∀ (ts : List (Triple H)) (prev : Triple H) (label : Nat),
    Sorted ops (prev :: ts) →
    (∀ p ∈ ts.zip (colours ops prev label ts), label ≤ p.2 ∧ (p.2 = label ↔ KeyEq p.1 prev)) ∧
    (ts.zip (colours ops prev label ts)).Pairwise (fun p q => (p.2 = q.2 ↔ KeyEq p.1 q.1)) := by
  intro ts
  induction ts with
  | nil => intro prev label _; simp [colours]
  | cons t ts ih =>
    intro prev label hs
    obtain ⟨hprev, hs'⟩ := List.pairwise_cons.1 hs
    have hpt : Le ops prev t := hprev t (by simp)
    by_cases hk : KeyEq t prev
    · have hb : (ops.apart t.hash prev.hash || t.label != prev.label) = false := by
        cases hbb : (ops.apart t.hash prev.hash || t.label != prev.label)
        · rfl
        · exact absurd hk ((bump_iff hx t prev).1 hbb)
      obtain ⟨ih1, ih2⟩ := ih t label hs'
      simp only [colours, hb, Bool.false_eq_true, if_false, List.zip_cons_cons]
      constructor
      · intro p hp
        rcases List.mem_cons.1 hp with rfl | hp
        · exact ⟨Nat.le_refl _, by simp [hk]⟩
        · obtain ⟨h1, h2⟩ := ih1 p hp
          exact ⟨h1, h2.trans ⟨fun h => h.trans hk, fun h => h.trans hk.symm⟩⟩
      · refine List.pairwise_cons.2 ⟨fun q hq => ?_, ih2⟩
        obtain ⟨_, h2⟩ := ih1 q hq
        exact ⟨fun h => (h2.1 h.symm).symm, fun h => (h2.2 h.symm).symm⟩
    · have hb : (ops.apart t.hash prev.hash || t.label != prev.label) = true := (bump_iff hx t prev).2 hk
      obtain ⟨ih1, ih2⟩ := ih t (label+1) hs'
      simp only [colours, hb, if_true, List.zip_cons_cons]
      have hlt : isLower ops prev t = true := lt_of_le_of_not_keyEq hx hpt (fun h => hk h.symm)
      constructor
      · intro p hp
        rcases List.mem_cons.1 hp with rfl | hp
        · refine ⟨by omega, ?_⟩
          simp only
          constructor
          · intro h; omega
          · intro h; exact absurd h hk
        · obtain ⟨h1, _⟩ := ih1 p hp
          refine ⟨by omega, ⟨fun h => by omega, fun h => ?_⟩⟩
          -- prev < t ≤ p.1, so p.1 cannot have the key of prev
          have hmem : p.1 ∈ ts := (List.of_mem_zip hp).1
          have htp : Le ops t p.1 := (List.pairwise_cons.1 hs').1 p.1 hmem
          have := lt_of_lt_of_le hx hlt htp
          rw [isLower_of_keyEq_right p.1 prev prev h, isLower_irrefl hx] at this
          exact Bool.noConfusion this
      · refine List.pairwise_cons.2 ⟨fun q hq => ?_, ih2⟩
        obtain ⟨_, h2⟩ := ih1 q hq
        exact ⟨fun h => (h2.1 h.symm).symm, fun h => (h2.2 h.symm).symm⟩

/-! ### from the walk to the new colour of every node -/

/-- the triple of node `i` -/
def trip (ops : HashOps H) (adj : List (List Nat)) (labels : List Nat) (i : Nat) : Triple H :=
  ⟨labels.getD i 0, ops.hashOf ((adj.getD i []).map fun j => labels.getD j 0), i⟩

theorem triples_eq (adj : List (List Nat)) (labels : List Nat) :
    triples ops adj labels = tab adj.length (trip ops adj labels) := rfl

theorem exists_zip_of_mem {α β : Type} {a : α} : ∀ {l1 : List α} {l2 : List β},
    l1.length = l2.length → a ∈ l1 → ∃ b, (a, b) ∈ l1.zip l2
  | [], _, _, h => by simp at h
  | x :: xs, [], hl, _ => by simp at hl
  | x :: xs, y :: ys, hl, h => by
    rcases List.mem_cons.1 h with rfl | h
    · exact ⟨y, by simp⟩
    · obtain ⟨b, hb⟩ := exists_zip_of_mem (l1 := xs) (l2 := ys) (by simpa using hl) h
      exact ⟨b, by simp [hb]⟩

theorem lookup_of_mem_nodup : ∀ (asg : List (Nat × Nat)) (u c : Nat),
    (asg.map (·.1)).Nodup → (u, c) ∈ asg → lookup asg u = c := by
  intro asg
  induction asg with
  | nil => intro u c _ h; simp at h
  | cons p ps ih =>
    intro u c hnd h
    simp only [List.map_cons, List.nodup_cons] at hnd
    unfold lookup
    rcases List.mem_cons.1 h with rfl | h
    · simp
    · have hne : (p.1 == u) = false := by
        apply Bool.eq_false_iff.2
        intro hpu
        have : p.1 = u := by simpa using hpu
        exact hnd.1 (by rw [this]; exact List.mem_map.2 ⟨(u, c), h, rfl⟩)
      simp only [List.find?_cons, hne]
      exact ih u c hnd.2 h

/-- colours of a whole sorted list: the head gets `0` -/
def allColours (ops : HashOps H) : List (Triple H) → List Nat
  | [] => []
  | t :: ts => 0 :: colours ops t 0 ts

theorem roundAssign_eq (adj : List (List Nat)) (labels : List Nat) :
    roundAssign ops adj labels =
      ((sortT ops (triples ops adj labels)).map (·.node)).zip (allColours ops (sortT ops (triples ops adj labels))) := by
  unfold roundAssign allColours
  split
  · rename_i h; simp [h]
  · rename_i t ts h
    simp [h, assign_eq_zip]

theorem allColours_length (l : List (Triple H)) : (allColours ops l).length = l.length := by
  cases l with
  | nil => rfl
  | cons t ts => simp [allColours, colours_length]

/-- in the sorted list, two triples carry the same new colour iff they have the same key -/
theorem allColours_spec (hx : ExactOps ops) (l : List (Triple H)) (hs : Sorted ops l) :
    ∀ p ∈ l.zip (allColours ops l), ∀ q ∈ l.zip (allColours ops l), (p.2 = q.2 ↔ KeyEq p.1 q.1) := by
  have hpw : (l.zip (allColours ops l)).Pairwise (fun p q => (p.2 = q.2 ↔ KeyEq p.1 q.1)) := by
    cases l with
    | nil => simp [allColours]
    | cons t ts =>
      obtain ⟨h1, h2⟩ := colours_spec hx ts t 0 hs
      simp only [allColours, List.zip_cons_cons]
      refine List.pairwise_cons.2 ⟨fun q hq => ?_, h2⟩
      obtain ⟨_, h⟩ := h1 q hq
      exact ⟨fun e => (h.1 e.symm).symm, fun e => (h.2 e.symm).symm⟩
  intro p hp q hq
  have hflip : (l.zip (allColours ops l)).Pairwise (flip fun p q : Triple H × Nat => (p.2 = q.2 ↔ KeyEq p.1 q.1)) :=
    hpw.imp (fun {a b} h => ⟨fun e => (h.1 e.symm).symm, fun e => (h.2 e.symm).symm⟩)
  exact List.Pairwise.forall_of_forall_of_flip
    (R := fun p q : Triple H × Nat => (p.2 = q.2 ↔ KeyEq p.1 q.1))
    (fun a _ => ⟨fun _ => KeyEq.refl _, fun _ => rfl⟩) hpw hflip hp hq

/-- **one round, by keys**: two nodes receive the same new colour iff they had the same colour and the
same hash of neighbour colours -/
theorem round_keyEq (hx : ExactOps ops) (adj : List (List Nat)) (labels : List Nat) (u v : Nat)
    (hu : u < adj.length) (hv : v < adj.length) :
    (round ops adj labels).1.getD u 0 = (round ops adj labels).1.getD v 0 ↔
      KeyEq (trip ops adj labels u) (trip ops adj labels v) := by
  have hS := sortT_sorted hx (triples ops adj labels)
  have hP := sortT_perm (ops := ops) (triples ops adj labels)
  generalize hSdef : sortT ops (triples ops adj labels) = S at hS hP
  have hlen : S.length = (allColours ops S).length := (allColours_length S).symm
  have hmemS : ∀ i, i < adj.length → trip ops adj labels i ∈ S := by
    intro i hi
    apply hP.mem_iff.2
    rw [triples_eq]
    exact List.mem_map.2 ⟨i, List.mem_range.2 hi, rfl⟩
  have hnodes : (S.map (·.node)).Nodup := by
    have h1 : (S.map (·.node)).Perm ((triples ops adj labels).map (·.node)) := hP.map _
    have h2 : (triples ops adj labels).map (·.node) = List.range adj.length := by
      rw [triples_eq]; simp [tab, trip, Function.comp_def]
    rw [h2] at h1
    exact h1.nodup_iff.2 List.nodup_range
  have hasg : roundAssign ops adj labels = (S.map (·.node)).zip (allColours ops S) := by
    rw [roundAssign_eq, hSdef]
  have hfst : (roundAssign ops adj labels).map (·.1) = S.map (·.node) := by
    rw [hasg]; exact List.map_fst_zip (by simp [hlen])
  have hlook : ∀ i, i < adj.length → ∀ c, (trip ops adj labels i, c) ∈ S.zip (allColours ops S) →
      lookup (roundAssign ops adj labels) i = c := by
    intro i hi c hc
    apply lookup_of_mem_nodup _ i c (by rw [hfst]; exact hnodes)
    rw [hasg, List.zip_map_left]
    exact List.mem_map.2 ⟨(trip ops adj labels i, c), hc, rfl⟩
  obtain ⟨cu, hcu⟩ := exists_zip_of_mem hlen (hmemS u hu)
  obtain ⟨cv, hcv⟩ := exists_zip_of_mem hlen (hmemS v hv)
  have hru : (round ops adj labels).1.getD u 0 = cu := by
    simp only [round, tab_getD, hu, if_true]; exact hlook u hu cu hcu
  have hrv : (round ops adj labels).1.getD v 0 = cv := by
    simp only [round, tab_getD, hv, if_true]; exact hlook v hv cv hcv
  rw [hru, hrv]
  exact allColours_spec hx S hS _ hcu _ hcv

/-! ### one round against refinement -/

/-- adjacency lists only mention existing nodes -/
def WFAdj (adj : List (List Nat)) : Prop := ∀ u, u < adj.length → ∀ w ∈ nbrs adj u, w < adj.length

/-- `labels` groups the nodes exactly as round `k` of refinement -/
def Groups (adj : List (List Nat)) (k : Nat) (labels : List Nat) : Prop :=
  ∀ u v, u < adj.length → v < adj.length →
    (labels.getD u 0 = labels.getD v 0 ↔ sameClass adj k u v = true)

/-- executable form of `WFAdj` -/
def wfAdjB (adj : List (List Nat)) : Bool := adj.all fun l => l.all (· < adj.length)

theorem wfAdj_of_check (adj : List (List Nat)) (h : wfAdjB adj = true) : WFAdj adj := by
  intro u hu w hw
  unfold wfAdjB at h
  have h1 := List.all_eq_true.1 h (adj.getD u []) (by
    rw [List.getD_eq_getElem?_getD, List.getElem?_eq_getElem hu]; simp)
  have := List.all_eq_true.1 h1 w hw
  simpa using this

theorem sameClass_succ_iff (adj : List (List Nat)) (k u v : Nat) :
    sameClass adj (k+1) u v = true ↔
      sameClass adj k u v = true ∧
      ∀ w, w < adj.length → (nbrs adj u).countP (sameClass adj k w) = (nbrs adj v).countP (sameClass adj k w) := by
  simp [sameClass, List.all_eq_true]

theorem countP_class_eq_count {adj : List (List Nat)} {k : Nat} {labels : List Nat}
    (hL : Groups adj k labels) {w : Nat} (hw : w < adj.length) (l : List Nat) (hl : ∀ x ∈ l, x < adj.length) :
    l.countP (sameClass adj k w) = (l.map fun j => labels.getD j 0).count (labels.getD w 0) := by
  rw [List.count_eq_countP, List.countP_map]
  apply List.countP_congr
  intro x hx
  have := hL w x hw (hl x hx)
  simp only [Function.comp, beq_iff_eq]
  constructor
  · intro h; exact ((this.2 h)).symm
  · intro h; exact this.1 h.symm

theorem perm_labels_iff {adj : List (List Nat)} {k : Nat} {labels : List Nat}
    (hL : Groups adj k labels) (lu lv : List Nat)
    (hlu : ∀ x ∈ lu, x < adj.length) (hlv : ∀ x ∈ lv, x < adj.length) :
    (lu.map fun j => labels.getD j 0).Perm (lv.map fun j => labels.getD j 0) ↔
      ∀ w, w < adj.length → lu.countP (sameClass adj k w) = lv.countP (sameClass adj k w) := by
  rw [List.perm_iff_count]
  constructor
  · intro h w hw
    rw [countP_class_eq_count hL hw lu hlu, countP_class_eq_count hL hw lv hlv]
    exact h _
  · intro h c
    by_cases hc : ∃ w, w < adj.length ∧ labels.getD w 0 = c
    · obtain ⟨w, hw, rfl⟩ := hc
      rw [← countP_class_eq_count hL hw lu hlu, ← countP_class_eq_count hL hw lv hlv]
      exact h w hw
    · have hz : ∀ l : List Nat, (∀ x ∈ l, x < adj.length) → (l.map fun j => labels.getD j 0).count c = 0 := by
        intro l hl
        apply List.count_eq_zero.2
        intro hmem
        obtain ⟨x, hx, hxc⟩ := List.mem_map.1 hmem
        exact hc ⟨x, hl x hx, hxc⟩
      rw [hz lu hlu, hz lv hlv]

/-- **one round refines exactly one level**: if the colours group the nodes as round `k` of colour
refinement, the colours after one more round of the kernel group them as round `k+1`. -/
theorem round_groups (hx : ExactOps ops) (adj : List (List Nat)) (hwf : WFAdj adj) (k : Nat)
    (labels : List Nat) (hL : Groups adj k labels) :
    Groups adj (k+1) (round ops adj labels).1 := by
  intro u v hu hv
  rw [round_keyEq hx adj labels u v hu hv, sameClass_succ_iff]
  unfold KeyEq trip
  simp only
  rw [hx.hash_iff, hL u v hu hv]
  have := perm_labels_iff hL (nbrs adj u) (nbrs adj v) (hwf u hu) (hwf v hv)
  unfold nbrs at this
  rw [this]
  rfl

/-! ### refinement: an equivalence at every level, coarser levels contain finer ones, stability persists -/

theorem sameClass_refl (adj : List (List Nat)) : ∀ k u, sameClass adj k u u = true := by
  intro k
  induction k with
  | zero => intro u; rfl
  | succ k ih => intro u; rw [sameClass_succ_iff]; exact ⟨ih u, fun _ _ => rfl⟩

theorem sameClass_symm (adj : List (List Nat)) : ∀ k u v, sameClass adj k u v = true → sameClass adj k v u = true := by
  intro k
  induction k with
  | zero => intro u v _; rfl
  | succ k ih =>
    intro u v h
    rw [sameClass_succ_iff] at *
    exact ⟨ih u v h.1, fun w hw => (h.2 w hw).symm⟩

theorem sameClass_trans (adj : List (List Nat)) : ∀ k u v w, sameClass adj k u v = true →
    sameClass adj k v w = true → sameClass adj k u w = true := by
  intro k
  induction k with
  | zero => intro u v w _ _; rfl
  | succ k ih =>
    intro u v w h1 h2
    rw [sameClass_succ_iff] at *
    exact ⟨ih u v w h1.1 h2.1, fun x hx => (h1.2 x hx).trans (h2.2 x hx)⟩

theorem sameClass_mono (adj : List (List Nat)) (k u v : Nat) (h : sameClass adj (k+1) u v = true) :
    sameClass adj k u v = true := ((sameClass_succ_iff adj k u v).1 h).1

theorem sameClass_mono_le (adj : List (List Nat)) {j k : Nat} (hjk : j ≤ k) (u v : Nat)
    (h : sameClass adj k u v = true) : sameClass adj j u v = true := by
  induction k with
  | zero => have : j = 0 := by omega
            subst this; exact h
  | succ k ih =>
    by_cases hj : j = k + 1
    · subst hj; exact h
    · exact ih (by omega) (sameClass_mono adj k u v h)

/-- round `k+1` separates nothing that round `k` kept together -/
def Stable (adj : List (List Nat)) (k : Nat) : Prop :=
  ∀ u v, u < adj.length → v < adj.length → sameClass adj k u v = true → sameClass adj (k+1) u v = true

theorem stable_succ (adj : List (List Nat)) (hwf : WFAdj adj) (k : Nat) (h : Stable adj k) : Stable adj (k+1) := by
  intro u v hu hv huv
  rw [sameClass_succ_iff]
  refine ⟨huv, fun w hw => ?_⟩
  have hc : ∀ l : List Nat, (∀ x ∈ l, x < adj.length) →
      l.countP (sameClass adj (k+1) w) = l.countP (sameClass adj k w) := by
    intro l hl
    apply List.countP_congr
    intro x hx
    exact ⟨sameClass_mono adj k w x, h w x hw (hl x hx)⟩
  rw [hc _ (hwf u hu), hc _ (hwf v hv)]
  exact ((sameClass_succ_iff adj k u v).1 huv).2 w hw

theorem stable_forever (adj : List (List Nat)) (hwf : WFAdj adj) (k : Nat) (h : Stable adj k) :
    ∀ j, Stable adj (k + j) := by
  intro j
  induction j with
  | zero => exact h
  | succ j ih => exact stable_succ adj hwf (k+j) ih

/-- once refinement is stable at `k`, "together at round `k`" is "never separated" -/
theorem inseparable_iff_of_stable (adj : List (List Nat)) (hwf : WFAdj adj) (k : Nat) (h : Stable adj k)
    (u v : Nat) (hu : u < adj.length) (hv : v < adj.length) :
    Inseparable adj u v ↔ sameClass adj k u v = true := by
  constructor
  · intro hi; exact hi k
  · intro hk j
    by_cases hjk : j ≤ k
    · exact sameClass_mono_le adj hjk u v hk
    · have hall : ∀ i, sameClass adj (k + i) u v = true := by
        intro i
        induction i with
        | zero => exact hk
        | succ i ih => exact stable_forever adj hwf k h i u v hu hv ih
      have := hall (j - k)
      have e : k + (j - k) = j := by omega
      rw [e] at this; exact this

/-! ### refinement is stable after at most `n-1` rounds (every unstable round creates a new class) -/

theorem exists_min_of_exists (p : Nat → Prop) (h : ∃ x, p x) : ∃ m, p m ∧ ∀ y, y < m → ¬ p y := by
  obtain ⟨x, hx⟩ := h
  induction x using Nat.strongRecOn with
  | _ x ih =>
    by_cases hmin : ∀ y, y < x → ¬ p y
    · exact ⟨x, hx, hmin⟩
    · have : ∃ y, y < x ∧ p y := by
        apply Classical.byContradiction
        intro hc
        exact hmin (fun y hy hp => hc ⟨y, hy, hp⟩)
      obtain ⟨y, hy, hp⟩ := this
      exact ih y hy hp

/-- `u` is the smallest member of its round-`k` class -/
def rep (adj : List (List Nat)) (k u : Nat) : Bool := (List.range u).all fun v => !sameClass adj k u v

theorem rep_iff (adj : List (List Nat)) (k u : Nat) :
    rep adj k u = true ↔ ∀ v, v < u → sameClass adj k u v = false := by
  simp [rep, List.all_eq_true]

theorem rep_succ (adj : List (List Nat)) (k u : Nat) (h : rep adj k u = true) : rep adj (k+1) u = true := by
  rw [rep_iff] at *
  intro v hv
  cases hs : sameClass adj (k+1) u v
  · rfl
  · have := sameClass_mono adj k u v hs
    rw [h v hv] at this; exact Bool.noConfusion this

theorem new_rep_of_not_stable (adj : List (List Nat)) (k : Nat) (h : ¬ Stable adj k) :
    ∃ m, m < adj.length ∧ rep adj k m = false ∧ rep adj (k+1) m = true := by
  -- a pair kept together at round k and separated at round k+1
  have : ∃ u v, u < adj.length ∧ v < adj.length ∧ sameClass adj k u v = true ∧ sameClass adj (k+1) u v = false := by
    apply Classical.byContradiction
    intro hc
    apply h
    intro u v hu hv huv
    cases hs : sameClass adj (k+1) u v
    · exact absurd ⟨u, v, hu, hv, huv, hs⟩ hc
    · rfl
  obtain ⟨u, v, hu, hv, huv, hsep⟩ := this
  -- u0: the smallest member of the round-k class of u
  obtain ⟨u0, hu0, hu0min⟩ := exists_min_of_exists (fun x => sameClass adj k x u = true) ⟨u, sameClass_refl adj k u⟩
  have hu0u : sameClass adj k u0 u = true := hu0
  have hu0v : sameClass adj k u0 v = true := sameClass_trans adj k u0 u v hu0u huv
  -- one of u, v is separated from u0 at round k+1
  have : ∃ z, z < adj.length ∧ sameClass adj k z u0 = true ∧ sameClass adj (k+1) z u0 = false := by
    cases h1 : sameClass adj (k+1) u u0
    · exact ⟨u, hu, sameClass_symm adj k u0 u hu0u, h1⟩
    · cases h2 : sameClass adj (k+1) v u0
      · exact ⟨v, hv, sameClass_symm adj k u0 v hu0v, h2⟩
      · have := sameClass_trans adj (k+1) u u0 v h1 (sameClass_symm adj (k+1) v u0 h2)
        rw [hsep] at this; exact Bool.noConfusion this
  obtain ⟨z, hz, hz1, hz2⟩ := this
  -- m: the smallest such node
  obtain ⟨m, ⟨hmn, hm1, hm2⟩, hmmin⟩ := exists_min_of_exists
    (fun x => x < adj.length ∧ sameClass adj k x u0 = true ∧ sameClass adj (k+1) x u0 = false) ⟨z, hz, hz1, hz2⟩
  refine ⟨m, hmn, ?_, ?_⟩
  · -- u0 is a smaller member of m's round-k class
    have hne : m ≠ u0 := by
      intro e; rw [e, sameClass_refl] at hm2; exact Bool.noConfusion hm2
    have hlt : u0 < m := by
      rcases Nat.lt_trichotomy u0 m with h1 | h1 | h1
      · exact h1
      · exact absurd h1.symm hne
      · exact absurd (sameClass_trans adj k m u0 u hm1 hu0u) (hu0min m h1)
    cases hr : rep adj k m
    · rfl
    · have := (rep_iff adj k m).1 hr u0 hlt
      rw [hm1] at this; exact Bool.noConfusion this
  · rw [rep_iff]
    intro y hy
    cases hs : sameClass adj (k+1) m y
    · rfl
    · exfalso
      have hyk : sameClass adj k y u0 = true :=
        sameClass_trans adj k y m u0 (sameClass_symm adj k m y (sameClass_mono adj k m y hs)) hm1
      cases hy2 : sameClass adj (k+1) y u0
      · exact hmmin y hy ⟨by omega, hyk, hy2⟩
      · have := sameClass_trans adj (k+1) m y u0 hs hy2
        rw [hm2] at this; exact Bool.noConfusion this

/-- number of round-`k` classes -/
def numClasses (adj : List (List Nat)) (k : Nat) : Nat := (List.range adj.length).countP (rep adj k)

theorem countP_lt_of_imp' (l : List Nat) (p q : Nat → Bool)
    (himp : ∀ x, x ∈ l → p x = true → q x = true)
    (hex : ∃ x, x ∈ l ∧ p x = false ∧ q x = true) :
    l.countP p < l.countP q := by
  induction l with
  | nil => obtain ⟨x, hx, _⟩ := hex; simp at hx
  | cons a l ih =>
    have hle : l.countP p ≤ l.countP q := by
      apply List.countP_mono_left
      intro x hx hp; exact himp x (by simp [hx]) hp
    obtain ⟨x, hx, hpx, hqx⟩ := hex
    simp only [List.countP_cons]
    rcases List.mem_cons.1 hx with h | h
    · subst h
      simp [hpx, hqx]; omega
    · have := ih (fun y hy => himp y (by simp [hy])) ⟨x, h, hpx, hqx⟩
      have ha := himp a (by simp)
      cases hpa : p a <;> cases hqa : q a <;> simp_all <;> omega

theorem numClasses_lt (adj : List (List Nat)) (k : Nat) (h : ¬ Stable adj k) :
    numClasses adj k < numClasses adj (k+1) := by
  obtain ⟨m, hm, h1, h2⟩ := new_rep_of_not_stable adj k h
  exact countP_lt_of_imp' _ _ _ (fun x _ hx => rep_succ adj k x hx) ⟨m, List.mem_range.2 hm, h1, h2⟩

theorem numClasses_le (adj : List (List Nat)) (k : Nat) : numClasses adj k ≤ adj.length := by
  have := List.countP_le_length (p := rep adj k) (l := List.range adj.length)
  simpa [numClasses] using this

theorem numClasses_ge (adj : List (List Nat)) : ∀ m, (∀ j, j < m → ¬ Stable adj j) → 0 < adj.length →
    m + 1 ≤ numClasses adj m := by
  intro m
  induction m with
  | zero =>
    intro _ hn
    unfold numClasses
    exact List.countP_pos_iff.2 ⟨0, List.mem_range.2 hn, by simp [rep]⟩
  | succ m ih =>
    intro h hn
    have h1 := ih (fun j hj => h j (by omega)) hn
    have h2 := numClasses_lt adj m (h m (by omega))
    omega

/-- **refinement stabilises within `n-1` rounds** -/
theorem exists_stable (adj : List (List Nat)) (hn : 0 < adj.length) : ∃ k, k < adj.length ∧ Stable adj k := by
  apply Classical.byContradiction
  intro hc
  have hall : ∀ j, j < adj.length → ¬ Stable adj j := fun j hj hs => hc ⟨j, hj, hs⟩
  have h1 := numClasses_ge adj adj.length hall hn
  have h2 := numClasses_le adj adj.length
  omega

/-! ### the loop of `weisfeiler_lehman_coloring` -/

/-- the new colour of node `i` is the colour paired with its triple in the sorted list -/
theorem round_getD (adj : List (List Nat)) (labels : List Nat) (i : Nat) (hi : i < adj.length) (c : Nat)
    (hc : (trip ops adj labels i, c) ∈
      (sortT ops (triples ops adj labels)).zip (allColours ops (sortT ops (triples ops adj labels)))) :
    (round ops adj labels).1.getD i 0 = c := by
  have hP := sortT_perm (ops := ops) (triples ops adj labels)
  generalize hSdef : sortT ops (triples ops adj labels) = S at hP hc
  have hlen : S.length = (allColours ops S).length := (allColours_length S).symm
  have hnodes : (S.map (·.node)).Nodup := by
    have h1 : (S.map (·.node)).Perm ((triples ops adj labels).map (·.node)) := hP.map _
    have h2 : (triples ops adj labels).map (·.node) = List.range adj.length := by
      rw [triples_eq]; simp [tab, trip, Function.comp_def]
    rw [h2] at h1
    exact h1.nodup_iff.2 List.nodup_range
  have hasg : roundAssign ops adj labels = (S.map (·.node)).zip (allColours ops S) := by
    rw [roundAssign_eq, hSdef]
  have hfst : (roundAssign ops adj labels).map (·.1) = S.map (·.node) := by
    rw [hasg]; exact List.map_fst_zip (by simp [hlen])
  simp only [round, tab_getD, hi, if_true]
  apply lookup_of_mem_nodup _ i c (by rw [hfst]; exact hnodes)
  rw [hasg, List.zip_map_left]
  exact List.mem_map.2 ⟨(trip ops adj labels i, c), hc, rfl⟩

theorem mem_sorted_triples (adj : List (List Nat)) (labels : List Nat) (t : Triple H) :
    t ∈ sortT ops (triples ops adj labels) ↔ ∃ i, i < adj.length ∧ t = trip ops adj labels i := by
  rw [(sortT_perm (ops := ops) (triples ops adj labels)).mem_iff, triples_eq]
  simp only [tab, List.mem_map, List.mem_range]
  constructor
  · rintro ⟨i, hi, rfl⟩; exact ⟨i, hi, rfl⟩
  · rintro ⟨i, hi, rfl⟩; exact ⟨i, hi, rfl⟩

/-- invariant of the loop after `k` rounds -/
structure WLInv (adj : List (List Nat)) (k : Nat) (labels : List Nat) : Prop where
  groups : Groups adj k labels
  len : labels.length = adj.length
  zero : 0 < adj.length → ∃ u, u < adj.length ∧ labels.getD u 0 = 0

theorem sorted_ne_nil (adj : List (List Nat)) (labels : List Nat) (hn : 0 < adj.length) :
    ∃ t0 ts, sortT ops (triples ops adj labels) = t0 :: ts := by
  have hl := (sortT_perm (ops := ops) (triples ops adj labels)).length_eq
  have hl2 : (triples ops adj labels).length = adj.length := by rw [triples_eq, tab_length]
  rw [hl2] at hl
  cases hS : sortT ops (triples ops adj labels) with
  | nil => rw [hS] at hl; simp at hl; omega
  | cons t0 ts => exact ⟨t0, ts, rfl⟩

theorem wlInv_round (hx : ExactOps ops) (adj : List (List Nat)) (hwf : WFAdj adj) (k : Nat)
    (labels : List Nat) (inv : WLInv adj k labels) : WLInv adj (k+1) (round ops adj labels).1 := by
  refine ⟨round_groups hx adj hwf k labels inv.groups, by simp [round], fun hn => ?_⟩
  obtain ⟨t0, ts, hS⟩ := sorted_ne_nil (ops := ops) adj labels hn
  obtain ⟨i, hi, hti⟩ := (mem_sorted_triples adj labels t0).1 (by rw [hS]; simp)
  refine ⟨i, hi, ?_⟩
  apply round_getD adj labels i hi 0
  rw [hS, ← hti]
  simp [allColours]

/-- if a round reports `has_changed = False`, no node changed its colour -/
theorem round_unchanged (hx : ExactOps ops) (adj : List (List Nat)) (k : Nat) (labels : List Nat)
    (inv : WLInv adj k labels) (hch : (round ops adj labels).2 = false) :
    ∀ u, u < adj.length → (round ops adj labels).1.getD u 0 = labels.getD u 0 := by
  intro u hu
  have hn : 0 < adj.length := by omega
  obtain ⟨t0, ts, hS⟩ := sorted_ne_nil (ops := ops) adj labels hn
  have hsorted := sortT_sorted hx (triples ops adj labels)
  rw [hS] at hsorted
  have hlen : (t0 :: ts).length = (allColours ops (t0 :: ts)).length := (allColours_length _).symm
  have hmem : trip ops adj labels u ∈ t0 :: ts := by
    rw [← hS]; exact (mem_sorted_triples adj labels _).2 ⟨u, hu, rfl⟩
  obtain ⟨c, hc⟩ := exists_zip_of_mem hlen hmem
  have hnew : (round ops adj labels).1.getD u 0 = c := round_getD adj labels u hu c (by rw [hS]; exact hc)
  rw [hnew]
  -- the assignments after the first one were all compared with the old colours
  have hrest : ∀ p ∈ (ts.map (·.node)).zip (colours ops t0 0 ts), labels.getD p.1 0 = p.2 := by
    have hasg : roundAssign ops adj labels = (t0.node, 0) :: (ts.map (·.node)).zip (colours ops t0 0 ts) := by
      rw [roundAssign_eq, hS]; simp [allColours]
    have : ((roundAssign ops adj labels).drop 1).any (fun p => labels.getD p.1 0 != p.2) = false := hch
    rw [hasg] at this
    simp only [List.drop_succ_cons, List.drop_zero] at this
    intro p hp
    have h2 := List.any_eq_false.1 this p hp
    simpa using h2
  simp only [allColours, List.zip_cons_cons, List.mem_cons] at hc
  rcases hc with hc | hc
  · -- u is the first node of the sorted order: it gets 0, and its old colour is the smallest one, 0
    have hc1 : trip ops adj labels u = t0 := (Prod.mk.inj hc).1
    have hc2 : c = 0 := (Prod.mk.inj hc).2
    obtain ⟨u0, hu0, hz⟩ := inv.zero hn
    have hmem0 : trip ops adj labels u0 ∈ t0 :: ts := by
      rw [← hS]; exact (mem_sorted_triples adj labels _).2 ⟨u0, hu0, rfl⟩
    have hle : Le ops t0 (trip ops adj labels u0) := by
      rcases List.mem_cons.1 hmem0 with h | h
      · rw [h]; exact isLower_irrefl hx t0
      · exact (List.pairwise_cons.1 hsorted).1 _ h
    have hlab : t0.label = 0 := by
      cases hl : t0.label with
      | zero => rfl
      | succ m =>
        have : isLower ops (trip ops adj labels u0) t0 = true := by
          rw [isLower_iff]; left
          show labels.getD u0 0 < t0.label
          rw [hz, hl]; omega
        unfold Le at hle; rw [hle] at this; exact Bool.noConfusion this
    have hl0 : labels.getD u 0 = 0 := by
      have : (trip ops adj labels u).label = 0 := by rw [hc1]; exact hlab
      exact this
    rw [hc2, hl0]
  · have : (u, c) ∈ (ts.map (·.node)).zip (colours ops t0 0 ts) := by
      rw [List.zip_map_left]
      exact List.mem_map.2 ⟨(trip ops adj labels u, c), hc, rfl⟩
    exact (hrest (u, c) this).symm

theorem stable_of_unchanged (hx : ExactOps ops) (adj : List (List Nat)) (hwf : WFAdj adj) (k : Nat)
    (labels : List Nat) (inv : WLInv adj k labels) (hch : (round ops adj labels).2 = false) : Stable adj k := by
  intro u v hu hv huv
  have h1 := round_unchanged hx adj k labels inv hch
  have h2 := round_groups hx adj hwf k labels inv.groups u v hu hv
  rw [h1 u hu, h1 v hv] at h2
  exact h2.1 ((inv.groups u v hu hv).2 huv)

theorem coloring_spec (hx : ExactOps ops) (adj : List (List Nat)) (hwf : WFAdj adj) :
    ∀ (m k : Nat) (labels : List Nat) (ch : Bool), WLInv adj k labels → (ch = false → Stable adj k) →
    ∃ k', k ≤ k' ∧ k' ≤ k + m ∧ WLInv adj k' (coloring ops adj m labels ch).1 ∧ (k' < k + m → Stable adj k') := by
  intro m
  induction m with
  | zero => intro k labels ch inv _; exact ⟨k, Nat.le_refl _, Nat.le_refl _, inv, fun h => by omega⟩
  | succ m ih =>
    intro k labels ch inv hst
    unfold coloring
    cases ch with
    | false => exact ⟨k, Nat.le_refl _, by omega, inv, fun _ => hst rfl⟩
    | true =>
      simp only [if_true]
      have inv' := wlInv_round hx adj hwf k labels inv
      have hst' : (round ops adj labels).2 = false → Stable adj (k+1) := fun h =>
        stable_succ adj hwf k (stable_of_unchanged hx adj hwf k labels inv h)
      obtain ⟨k', h1, h2, h3, h4⟩ := ih (k+1) (round ops adj labels).1 (round ops adj labels).2 inv' hst'
      exact ⟨k', by omega, by omega, h3, fun h => h4 (by omega)⟩

/-! ### the exact instance: sorted colour lists, lexicographic order -/

theorem insertNat_perm (x : Nat) (l : List Nat) : (insertNat x l).Perm (x :: l) := by
  induction l with
  | nil => simp [insertNat]
  | cons y ys ih =>
    unfold insertNat
    split
    · exact List.Perm.refl _
    · exact (List.Perm.cons y ih).trans (List.Perm.swap x y ys)

theorem sortNat_perm (l : List Nat) : (sortNat l).Perm l := by
  induction l with
  | nil => simp [sortNat]
  | cons x xs ih =>
    have : sortNat (x :: xs) = insertNat x (sortNat xs) := by simp [sortNat]
    rw [this]; exact (insertNat_perm x _).trans (List.Perm.cons x ih)

theorem insertNat_sorted (x : Nat) (l : List Nat) (h : l.Pairwise (· ≤ ·)) : (insertNat x l).Pairwise (· ≤ ·) := by
  induction l with
  | nil => simp [insertNat]
  | cons y ys ih =>
    obtain ⟨h1, h2⟩ := List.pairwise_cons.1 h
    unfold insertNat
    split
    · rename_i hxy
      refine List.pairwise_cons.2 ⟨fun z hz => ?_, h⟩
      rcases List.mem_cons.1 hz with rfl | hz
      · exact hxy
      · exact Nat.le_trans hxy (h1 z hz)
    · rename_i hxy
      refine List.pairwise_cons.2 ⟨fun z hz => ?_, ih h2⟩
      have : z ∈ x :: ys := (insertNat_perm x ys).mem_iff.1 hz
      rcases List.mem_cons.1 this with rfl | hz'
      · omega
      · exact h1 z hz'

theorem sortNat_sorted (l : List Nat) : (sortNat l).Pairwise (· ≤ ·) := by
  induction l with
  | nil => simp [sortNat]
  | cons x xs ih =>
    have : sortNat (x :: xs) = insertNat x (sortNat xs) := by simp [sortNat]
    rw [this]; exact insertNat_sorted x _ ih

theorem sortNat_eq_iff (l l' : List Nat) : sortNat l = sortNat l' ↔ l.Perm l' := by
  constructor
  · intro h
    exact (sortNat_perm l).symm.trans (h ▸ sortNat_perm l')
  · intro h
    apply List.Perm.eq_of_pairwise (le := (· ≤ ·)) (fun a b _ _ h1 h2 => Nat.le_antisymm h1 h2)
      (sortNat_sorted l) (sortNat_sorted l')
    exact (sortNat_perm l).trans (h.trans (sortNat_perm l').symm)

theorem ltList_irrefl : ∀ a, ltList a a = false
  | [] => rfl
  | x :: xs => by simp [ltList, ltList_irrefl xs]

theorem ltList_trans : ∀ a b c, ltList a b = true → ltList b c = true → ltList a c = true
  | [], [], _, h, _ => by simp [ltList] at h
  | [], _ :: _, [], _, h => by simp [ltList] at h
  | [], _ :: _, _ :: _, _, _ => by simp [ltList]
  | _ :: _, [], _, h, _ => by simp [ltList] at h
  | _ :: _, _ :: _, [], _, h => by simp [ltList] at h
  | x :: xs, y :: ys, z :: zs, h1, h2 => by
    unfold ltList at *
    by_cases hxy : x < y
    · by_cases hyz : y < z
      · have : x < z := by omega
        simp [this]
      · by_cases hzy : z < y
        · simp [hyz, hzy] at h2
        · have : y = z := by omega
          subst this; simp [hxy]
    · by_cases hyx : y < x
      · simp [hxy, hyx] at h1
      · have hxy' : x = y := by omega
        subst hxy'
        simp only [hxy, if_false] at h1
        by_cases hyz : x < z
        · simp [hyz]
        · by_cases hzy : z < x
          · simp [hyz, hzy] at h2
          · simp only [hyz, hzy, if_false] at h2 ⊢
            exact ltList_trans xs ys zs h1 h2

theorem ltList_total : ∀ a b, a = b ∨ ltList a b = true ∨ ltList b a = true
  | [], [] => Or.inl rfl
  | [], _ :: _ => Or.inr (Or.inl (by simp [ltList]))
  | _ :: _, [] => Or.inr (Or.inr (by simp [ltList]))
  | x :: xs, y :: ys => by
    unfold ltList
    by_cases hxy : x < y
    · right; left; simp [hxy]
    · by_cases hyx : y < x
      · right; right; simp [hyx]
      · have : x = y := by omega
        subst this
        simp only [hxy, if_false]
        rcases ltList_total xs ys with h | h | h
        · left; rw [h]
        · right; left; exact h
        · right; right; exact h

end SkNet.WL
