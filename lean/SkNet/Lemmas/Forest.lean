/- The forest structure behind a valid dendrogram: at every time the live clusters are disjoint non-empty leaf
   sets, every node created so far lies below exactly one of them, and every merge has at least two leaves. -/
import SkNet.Lemmas.Valid

set_option linter.unusedSimpArgs false

namespace SkNet.Dendro
open SkNet SkNet.Cut

variable {α : Type}

/-- facts about all the nodes created by the rows `pre`, and about the live clusters `st` -/
structure Hist (n : Nat) (pre : Dendro α) (st : Dict (List Nat)) : Prop where
  nonempty : ∀ p ∈ st, p.2 ≠ []
  forest : ∀ z, z < n + pre.length → ∃ p ∈ st, ∀ u ∈ leaves n pre z, u ∈ p.2
  nodupL : ∀ z, z < n + pre.length → (leaves n pre z).Nodup
  two : ∀ z, n ≤ z → z < n + pre.length → 2 ≤ (leaves n pre z).length

theorem flatten_nodup_facts : ∀ (L : List (Nat × List Nat)), (L.map (·.2)).flatten.Nodup →
    (∀ p ∈ L, p.2.Nodup) ∧ (∀ p ∈ L, ∀ q ∈ L, p.1 ≠ q.1 → ∀ u ∈ p.2, u ∉ q.2) := by
  intro L
  induction L with
  | nil => intro _; exact ⟨by simp, by simp⟩
  | cons a L ih =>
    intro h
    simp only [List.map_cons, List.flatten_cons] at h
    obtain ⟨h1, h2, h3⟩ := List.nodup_append.mp h
    obtain ⟨i1, i2⟩ := ih h2
    have hsub : ∀ q ∈ L, ∀ u ∈ q.2, u ∈ (L.map (·.2)).flatten := fun q hq u hu =>
      List.mem_flatten.mpr ⟨q.2, List.mem_map.mpr ⟨q, hq, rfl⟩, hu⟩
    refine ⟨?_, ?_⟩
    · intro p hp
      rcases List.mem_cons.mp hp with e | e
      · rw [e]; exact h1
      · exact i1 p e
    · intro p hp q hq hne u hu hu'
      rcases List.mem_cons.mp hp with e | e <;> rcases List.mem_cons.mp hq with e' | e'
      · rw [e, e'] at hne; exact hne rfl
      · rw [e] at hu; exact h3 u hu u (hsub q e' u hu') rfl
      · rw [e'] at hu'; exact h3 u hu' u (hsub p e u hu) rfl
      · exact i2 p e q e' hne u hu hu'

/-- distinct live clusters have disjoint leaf lists -/
theorem cinv_disjoint {n : Nat} {pre : Dendro α} {st : Dict (List Nat)} (h : CInv n pre st)
    {p q : Nat × List Nat} (hp : p ∈ st) (hq : q ∈ st) (hne : p.1 ≠ q.1) : ∀ u ∈ p.2, u ∉ q.2 := by
  have hnd : (Dict.values st).flatten.Nodup := h.perm.nodup_iff.mpr List.nodup_range
  exact (flatten_nodup_facts st hnd).2 p hp q hq hne

theorem cinv_nodup_val {n : Nat} {pre : Dendro α} {st : Dict (List Nat)} (h : CInv n pre st)
    {p : Nat × List Nat} (hp : p ∈ st) : p.2.Nodup := by
  have hnd : (Dict.values st).flatten.Nodup := h.perm.nodup_iff.mpr List.nodup_range
  exact (flatten_nodup_facts st hnd).1 p hp

theorem cinv_lt {n : Nat} {pre : Dendro α} {st : Dict (List Nat)} (h : CInv n pre st)
    {p : Nat × List Nat} (hp : p ∈ st) : ∀ u ∈ p.2, u < n := by
  intro u hu
  have : u ∈ (Dict.values st).flatten := List.mem_flatten.mpr ⟨p.2, List.mem_map.mpr ⟨p, hp, rfl⟩, hu⟩
  simpa using h.perm.mem_iff.mp this

theorem hist_init (n : Nat) : Hist n ([] : Dendro α) (initCluster n) where
  nonempty := by
    intro p hp
    simp only [initCluster, List.mem_map] at hp
    obtain ⟨i, _, rfl⟩ := hp; simp
  forest := by
    intro z hz
    simp only [List.length_nil, Nat.add_zero] at hz
    refine ⟨(z, [z]), by simp [initCluster, hz], ?_⟩
    intro u hu
    rw [leaves_leaf n [] hz] at hu; exact hu
  nodupL := by
    intro z hz
    simp only [List.length_nil, Nat.add_zero] at hz
    rw [leaves_leaf n [] hz]; simp
  two := by intro z h1 h2; simp only [List.length_nil, Nat.add_zero] at h2; omega

/-- one applied merge -/
theorem hist_merge {n : Nat} {pre : Dendro α} {st : Dict (List Nat)} (hc : CInv n pre st) (hh : Hist n pre st)
    (r : Row α) {ci cj : List Nat} (hi : st.get? r.i = some ci) (hj : st.get? r.j = some cj) (hne : r.i ≠ r.j) :
    Hist n (pre ++ [r]) (merged n st pre.length r.i r.j ci cj) := by
  have hmi := Dict.get?_some_mem hi
  have hmj := Dict.get?_some_mem hj
  have hbi := hc.bound _ (Dict.get?_some_key_mem hi)
  have hbj := hc.bound _ (Dict.get?_some_key_mem hj)
  have hci : ci = leaves n pre r.i := get?_leaves hc hi
  have hcj : cj = leaves n pre r.j := get?_leaves hc hj
  have hnewL : leaves n (pre ++ [r]) (n + pre.length) = ci ++ cj := by rw [leaves_new, ← hci, ← hcj]
  have holdL : ∀ x, x < n + pre.length → leaves n (pre ++ [r]) x = leaves n pre x :=
    fun x hx => leaves_append_lt n pre [r] hx
  have hmem : ∀ q, q ∈ merged n st pre.length r.i r.j ci cj ↔
      (q ∈ st ∧ q.1 ≠ r.i ∧ q.1 ≠ r.j) ∨ q = (n + pre.length, ci ++ cj) := by
    intro q
    rw [merged_eq hc]
    simp only [List.mem_append, List.mem_cons, List.not_mem_nil, or_false, Dict.mem_erase]
    constructor
    · rintro (⟨⟨h1, h2⟩, h3⟩ | h4)
      · exact Or.inl ⟨h1, h2, h3⟩
      · exact Or.inr h4
    · rintro (⟨h1, h2, h3⟩ | h4)
      · exact Or.inl ⟨⟨h1, h2⟩, h3⟩
      · exact Or.inr h4
  have hdisj := cinv_disjoint hc hmi hmj hne
  refine ⟨?_, ?_, ?_, ?_⟩
  · intro q hq
    rcases (hmem q).mp hq with ⟨h1, _, _⟩ | h1
    · exact hh.nonempty q h1
    · subst h1
      have := hh.nonempty _ hmi
      simp only [ne_eq, List.append_eq_nil_iff, not_and]
      intro e; exact absurd e this
  · intro z hz
    simp only [List.length_append, List.length_cons, List.length_nil] at hz
    by_cases hzn : z = n + pre.length
    · subst hzn
      exact ⟨_, (hmem _).mpr (Or.inr rfl), fun u hu => by rw [hnewL] at hu; exact hu⟩
    · have hzl : z < n + pre.length := by omega
      obtain ⟨p, hp, hsub⟩ := hh.forest z hzl
      rw [holdL z hzl]
      by_cases h1 : p.1 = r.i
      · have : p.2 = ci := by
          have := Dict.mem_get?_of_nodup hc.nodup (k := p.1) (v := p.2) hp
          rw [h1, hi] at this; exact (Option.some.inj this).symm
        exact ⟨_, (hmem _).mpr (Or.inr rfl), fun u hu => List.mem_append_left _ (this ▸ hsub u hu)⟩
      · by_cases h2 : p.1 = r.j
        · have : p.2 = cj := by
            have := Dict.mem_get?_of_nodup hc.nodup (k := p.1) (v := p.2) hp
            rw [h2, hj] at this; exact (Option.some.inj this).symm
          exact ⟨_, (hmem _).mpr (Or.inr rfl), fun u hu => List.mem_append_right _ (this ▸ hsub u hu)⟩
        · exact ⟨p, (hmem _).mpr (Or.inl ⟨hp, h1, h2⟩), hsub⟩
  · intro z hz
    simp only [List.length_append, List.length_cons, List.length_nil] at hz
    by_cases hzn : z = n + pre.length
    · subst hzn
      rw [hnewL]
      refine List.nodup_append.mpr ⟨cinv_nodup_val hc hmi, cinv_nodup_val hc hmj, ?_⟩
      intro a ha b hb e
      subst e
      exact hdisj a ha hb
    · rw [holdL z (by omega)]; exact hh.nodupL z (by omega)
  · intro z h1 hz
    simp only [List.length_append, List.length_cons, List.length_nil] at hz
    by_cases hzn : z = n + pre.length
    · subst hzn
      rw [hnewL, List.length_append]
      have a := List.length_pos_iff.mpr (hh.nonempty _ hmi)
      have b := List.length_pos_iff.mpr (hh.nonempty _ hmj)
      simp only at a b
      omega
    · rw [holdL z (by omega)]; exact hh.two z h1 (by omega)

/-- the state of the full replay just before a given row of a valid dendrogram, with its history -/
theorem hist_replay (n : Nat) : ∀ (rs1 pre : Dendro α) (st : Dict (List Nat)) (r : Row α) (rs2 : Dendro α),
    CInv n pre st → Hist n pre st → validLoop n pre.length (rs1 ++ r :: rs2) (sizesOf st) = true →
    ∃ st1, CInv n (pre ++ rs1) st1 ∧ Hist n (pre ++ rs1) st1 ∧ RowOK n (pre ++ rs1) st1 r := by
  intro rs1
  induction rs1 with
  | nil =>
    intro pre st r rs2 hinv hh hv
    obtain ⟨st1, h1, h2, h3, _⟩ := valid_replay n [] pre st r rs2 hinv hv
    simp only [mergeLoop, Except.ok.injEq] at h1
    subst h1
    exact ⟨st, by simpa using hinv, by simpa using hh, by simpa using h3⟩
  | cons a rs1 ih =>
    intro pre st r rs2 hinv hh hv
    simp only [List.cons_append] at hv
    unfold validLoop at hv
    simp only [get?_sizesOf] at hv
    cases hi : st.get? a.i with
    | none => simp [hi] at hv
    | some ci =>
      cases hj : st.get? a.j with
      | none => simp [hi, hj] at hv
      | some cj =>
        simp only [hi, hj, Option.map_some, Bool.and_eq_true, bne_iff_ne, ne_eq, beq_iff_eq] at hv
        obtain ⟨⟨hne, hs⟩, hrest⟩ := hv
        have hm := cinv_merge hinv a hi hj hne
        have hhm := hist_merge hinv hh a hi hj hne
        have hsz : ((Dict.erase (Dict.erase (sizesOf st) a.i) a.j).set (n + pre.length) a.s) =
            sizesOf (merged n st pre.length a.i a.j ci cj) := by
          unfold merged
          rw [erase_sizesOf, erase_sizesOf, hs, ← List.length_append, set_sizesOf]
        rw [hsz] at hrest
        have hl : (pre ++ [a]).length = pre.length + 1 := by simp
        rw [← hl] at hrest
        obtain ⟨st1, h1, h2, h3⟩ := ih (pre ++ [a]) _ r rs2 hm hhm hrest
        exact ⟨st1, by simpa using h1, by simpa using h2, by simpa using h3⟩

theorem hist_at {n : Nat} {pre : Dendro α} {r : Row α} {rs : Dendro α}
    (hv : ValidDendro n (pre ++ r :: rs) = true) :
    ∃ st, CInv n pre st ∧ Hist n pre st ∧ RowOK n pre st r := by
  unfold ValidDendro ValidDendroW at hv
  simp only [Bool.and_eq_true, List.length_replicate] at hv
  have h2 := hv.2
  rw [← sizesOf_initCluster] at h2
  obtain ⟨st, h1, hh, hr⟩ := hist_replay n pre [] (initCluster n) r rs (cinv_init n) (hist_init n) (by simpa using h2)
  exact ⟨st, by simpa using h1, by simpa using hh, by simpa using hr⟩

end SkNet.Dendro
