/- Soundness of the ownership check (C01). Core Lean only. -/
import SkNet.Model.Ownership

namespace SkNet.Own

theorem padded_getD {α : Type} (s : List α) (x y : Nat) (d : α) :
    ((if x < s.length then s else s ++ List.replicate (x + 1 - s.length) d).getD y d) = s.getD y d := by
  split
  · rfl
  · rename_i h
    rw [List.getD_eq_getElem?_getD, List.getD_eq_getElem?_getD]
    by_cases hy : y < s.length
    · rw [List.getElem?_append_left hy]
    · rw [List.getElem?_append_right (by omega), List.getElem?_eq_none (Nat.le_of_not_lt hy)]
      by_cases hy2 : y - s.length < x + 1 - s.length
      · rw [List.getElem?_replicate]; simp [hy2]
      · rw [List.getElem?_eq_none (by simp; omega)]

theorem padded_length {α : Type} (s : List α) (x : Nat) (d : α) :
    x < (if x < s.length then s else s ++ List.replicate (x + 1 - s.length) d).length := by
  split
  · assumption
  · simp; omega

theorem getD_set {α : Type} (s : List α) (x y : Nat) (v d : α) (hx : x < s.length) :
    (s.set x v).getD y d = if y = x then v else s.getD y d := by
  rw [List.getD_eq_getElem?_getD, List.getD_eq_getElem?_getD, List.getElem?_set]
  by_cases h : x = y
  · subst h; simp [hx]
  · have : ¬ y = x := fun e => h e.symm
    simp [h, this]

theorem cellOf_setStore (s : List (Option Nat)) (x y : Nat) (v : Option Nat) :
    (setStore s x v).getD y none = if y = x then v else s.getD y none := by
  unfold setStore
  simp only
  rw [getD_set _ x y v none (padded_length s x none), padded_getD]

theorem version_bump (v : List Nat) (c p : Nat) :
    (bump v c).getD p 0 = if p = c then v.getD c 0 + 1 else v.getD p 0 := by
  unfold bump
  simp only
  rw [getD_set _ c p _ 0 (padded_length v c 0), padded_getD, padded_getD]

theorem subset_mem {a b : List Nat} (h : subset a b = true) {p : Nat} (hp : p ∈ a) : p ∈ b := by
  unfold subset at h
  have := List.all_eq_true.1 h p hp
  simpa using this

/-- invariant of any execution of a checked program -/
structure Good (A : Cert) (declared : List Nat) (np : Nat) (c : Conc) : Prop where
  alias : ∀ x cell, c.cellOf x = some cell → cell < np → cell ∈ A.at x
  next : np ≤ c.next
  untouched : ∀ p, p < np → p ∉ declared → c.version.getD p 0 = 0

theorem good_init (A : Cert) (declared : List Nat) (np : Nat) : Good A declared np (init np) := by
  refine ⟨fun x cell h _ => ?_, Nat.le_refl _, fun p hp _ => ?_⟩
  · simp [init, Conc.cellOf] at h
  · simp [init, List.getD_eq_getElem?_getD, List.getElem?_replicate, hp]

theorem good_step (A : Cert) (declared : List Nat) (np : Nat) (c : Conc) (s : Stmt) (k : Nat)
    (hcl : closed A s = true) (hw : writeOk A declared s = true) (g : Good A declared np c) :
    Good A declared np (step c s k) := by
  cases s with
  | bind x src =>
    cases src with
    | fresh =>
      refine ⟨fun y cell h hlt => ?_, by simp [step]; exact Nat.le_succ_of_le g.next, g.untouched⟩
      simp only [step, Conc.cellOf, cellOf_setStore] at h
      by_cases hyx : y = x
      · simp only [hyx, if_true, Option.some.injEq] at h
        have := g.next; omega
      · simp only [hyx, if_false] at h
        exact g.alias y cell h hlt
    | param p =>
      refine ⟨fun y cell h hlt => ?_, g.next, g.untouched⟩
      simp only [step, Conc.cellOf, cellOf_setStore] at h
      by_cases hyx : y = x
      · simp only [hyx, if_true, Option.some.injEq] at h
        subst hyx; subst h
        simpa [closed] using hcl
      · simp only [hyx, if_false] at h
        exact g.alias y cell h hlt
    | alias ys =>
      simp only [step]
      cases hch : (ys[k]?).bind c.cellOf with
      | none =>
        simp only
        refine ⟨fun y cell h hlt => ?_, Nat.le_succ_of_le g.next, g.untouched⟩
        simp only [Conc.cellOf, cellOf_setStore] at h
        by_cases hyx : y = x
        · simp only [hyx, if_true, Option.some.injEq] at h
          have := g.next; omega
        · simp only [hyx, if_false] at h
          exact g.alias y cell h hlt
      | some cell0 =>
        simp only
        refine ⟨fun y cell h hlt => ?_, g.next, g.untouched⟩
        simp only [Conc.cellOf, cellOf_setStore] at h
        by_cases hyx : y = x
        · simp only [hyx, if_true, Option.some.injEq] at h
          subst hyx; subst h
          -- the chosen variable is one of ys and carries cell0
          obtain ⟨z, hz, hzc⟩ := Option.bind_eq_some_iff.1 hch
          have hzmem : z ∈ ys := List.mem_of_getElem? hz
          have hsub : subset (A.at z) (A.at y) = true := by
            have := List.all_eq_true.1 (by simpa [closed] using hcl) z hzmem
            exact this
          exact subset_mem hsub (g.alias z cell0 hzc hlt)
        · simp only [hyx, if_false] at h
          exact g.alias y cell h hlt
  | mutate x =>
    simp only [step]
    cases hc : c.cellOf x with
    | none => exact g
    | some cell =>
      refine ⟨g.alias, g.next, fun p hp hnd => ?_⟩
      simp only [version_bump]
      by_cases hpc : p = cell
      · exfalso
        subst hpc
        have h1 := g.alias x p hc hp
        have h2 : subset (A.at x) declared = true := by simpa [writeOk] using hw
        exact hnd (subset_mem h2 h1)
      · simp only [hpc, if_false]
        exact g.untouched p hp hnd
  | sortIndices x => exact g

theorem good_run (A : Cert) (declared : List Nat) (np : Nat) (prog : Prog)
    (h : safeWith prog A declared = true) :
    ∀ (trace : List (Stmt × Nat)) (c : Conc), (∀ e ∈ trace, e.1 ∈ prog) → Good A declared np c →
      Good A declared np (run c trace) := by
  intro trace
  induction trace with
  | nil => intro c _ g; exact g
  | cons e rest ih =>
    intro c hmem g
    obtain ⟨s, k⟩ := e
    have hs : s ∈ prog := hmem (s, k) (by simp)
    unfold safeWith at h
    rw [Bool.and_eq_true] at h
    have hcl := List.all_eq_true.1 h.1 s hs
    have hw := List.all_eq_true.1 h.2 s hs
    exact ih (step c s k) (fun e he => hmem e (by simp [he])) (good_step A declared np c s k hcl hw g)

end SkNet.Own
