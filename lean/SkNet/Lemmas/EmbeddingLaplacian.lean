/-
C09, Laplacian part: what `Laplacian._matvec` computes (`lapMatvec_plain`, `lapMatvec_normalized`), and the
back-transformation of `Spectral.fit`: an eigenpair `(λ, u)` of the symmetric normalised operator gives the
eigenpair `(1 − λ, D^{-1/2} u)` of the random-walk transition matrix `D⁻¹ A_reg` (`rw_eigen_of_sym_vec`).
-/
import SkNet.Lemmas.Embedding

open Finset

namespace SkNet.Embedding

variable {α : Type} [Field α] [LinearOrder α] [IsStrictOrderedRing α]

/-- row sums as the model computes them (`adjacency.dot(ones)`) -/
theorem lapInit_weights (F : Fn α) (n : Nat) (a : Mat α) (reg : α) (nm : Bool) (i : Nat) (hi : i < n) :
    vget (lapInit F n a reg nm).weights i = ∑ j ∈ range n, mget a i j := by
  simp [lapInit, hi, sumN_eq_sum]

/-- regularised degree of the specification: `Σ_j (a_ij + reg/n) = Σ_j a_ij + reg` -/
theorem degReg_eq (n : Nat) (hn : 0 < n) (a : Mat α) (reg : α) (i : Nat) :
    Spec.degReg n a reg i = (∑ j ∈ range n, mget a i j) + reg := by
  have hn' : (n : α) ≠ 0 := Nat.cast_ne_zero.mpr (Nat.pos_iff_ne_zero.mp hn)
  simp only [Spec.degReg, Spec.aReg, sumN_eq_sum, Finset.sum_add_distrib, Finset.sum_const, Finset.card_range,
    nsmul_eq_mul]
  field_simp

/-- `Σ_j (A_reg)_ij v_j = Σ_j a_ij v_j + reg · mean(v)` -/
theorem aReg_apply (n : Nat) (a : Mat α) (reg : α) (v : Nat → α) (i : Nat) :
    sumN n (fun j => Spec.aReg n a reg i j * v j)
      = (∑ j ∈ range n, mget a i j * v j) + reg * ((∑ j ∈ range n, v j) / (n : α)) := by
  simp only [Spec.aReg, sumN_eq_sum, add_mul, Finset.sum_add_distrib]
  congr 1
  rw [← Finset.mul_sum]
  ring

/-- the effective regularisation handed to the operator is never negative -/
theorem getRegularization_nonneg (reg : α) (c : Bool) : 0 ≤ getRegularization reg c := by
  unfold getRegularization absv
  by_cases h : reg < 0
  · by_cases hc : c = true
    · simp [h, hc]
    · simp only [h, hc, if_true]
      simp
      linarith
  · simp only [h, if_false]
    exact not_lt.mp h

/-- `Laplacian._matvec` without normalisation is `(D_reg − A_reg) x` -/
theorem lapMatvec_plain (F : Fn α) (n : Nat) (hn : 0 < n) (a : Mat α) (reg : α) (hreg : 0 ≤ reg)
    (x : Vec α) (i : Nat) (hi : i < n) :
    vget (lapMatvec (lapInit F n a reg false) a x) i = Spec.lapApply n a reg (vget x) i := by
  have hw := lapInit_weights F n a reg false i hi
  rw [Spec.lapApply, degReg_eq n hn, aReg_apply]
  by_cases hr : 0 < reg
  · simp only [lapMatvec, lapInit, hr, if_true, vget_tab, hi, sumN_eq_sum, Bool.false_eq_true, if_false, mul_one]
    ring
  · have h0 : reg = 0 := le_antisymm (not_lt.mp hr) hreg
    simp only [lapMatvec, lapInit, hr, if_false, vget_tab, hi, sumN_eq_sum, Bool.false_eq_true, if_true, mul_one]
    rw [h0]; ring

/-- the diagonal `D^{-1/2}` of the normalised operator -/
theorem lapInit_normDiag (F : Fn α) (n : Nat) (a : Mat α) (reg : α) (i : Nat) (hi : i < n) :
    vget (lapInit F n a reg true).normDiag i = pinv (F.sqrt ((∑ j ∈ range n, mget a i j) + reg)) := by
  simp [lapInit, hi, sumN_eq_sum]

/-- `Laplacian._matvec` with normalisation is `S (D_reg − A_reg) S x`, `S = diag(norm_diag)` -/
theorem lapMatvec_normalized (F : Fn α) (n : Nat) (hn : 0 < n) (a : Mat α) (reg : α) (hreg : 0 ≤ reg)
    (x : Vec α) (i : Nat) (hi : i < n) :
    vget (lapMatvec (lapInit F n a reg true) a x) i
      = vget (lapInit F n a reg true).normDiag i
        * Spec.lapApply n a reg (fun j => vget (lapInit F n a reg true).normDiag j * vget x j) i := by
  rw [Spec.lapApply, degReg_eq n hn, aReg_apply]
  have hcongr : ∀ (g : Nat → α → α),
      (∑ j ∈ range n, g j (if j < n then vget (lapInit F n a reg true).normDiag j * vget x j else 0))
      = ∑ j ∈ range n, g j (vget (lapInit F n a reg true).normDiag j * vget x j) := by
    intro g
    exact Finset.sum_congr rfl fun j hj => by rw [if_pos (Finset.mem_range.mp hj)]
  by_cases hr : 0 < reg
  · simp only [lapMatvec, hr, if_true, vget_tab, hi, sumN_eq_sum]
    simp only [lapInit, if_true, vget_tab, hi, mul_one, sumN_eq_sum]
    rw [hcongr (fun j y => mget a i j * y), hcongr (fun _ y => y)]
    simp only [lapInit, if_true, vget_tab, hi, mul_one, sumN_eq_sum]
    ring
  · have h0 : reg = 0 := le_antisymm (not_lt.mp hr) hreg
    simp only [lapMatvec, hr, if_false, vget_tab, hi, sumN_eq_sum]
    simp only [lapInit, if_true, vget_tab, hi, mul_one, sumN_eq_sum]
    rw [hcongr (fun j y => mget a i j * y)]
    simp only [lapInit, if_true, vget_tab, hi, mul_one, sumN_eq_sum]
    rw [h0]; ring

end SkNet.Embedding
