/-
C09, Laplacian part: what `Laplacian._matvec` computes (`lapMatvec_plain`, `lapMatvec_normalized`), and the
back-transformation of `Spectral.fit`: an eigenpair `(λ, u)` of the symmetric normalised operator gives the
eigenpair `(1 − λ, D^{-1/2} u)` of the random-walk transition matrix `D⁻¹ A_reg` (`rw_eigen_of_sym_vec`).
-/
import SkNet.Lemmas.Embedding

set_option linter.unusedSectionVars false

open Finset

namespace SkNet.Embedding

variable {α : Type} [Field α] [LinearOrder α] [IsStrictOrderedRing α]

/-- row sums as the model computes them (`adjacency.dot(ones)`) -/
theorem lapInit_weights (F : Fn α) (n : Nat) (a : Mat α) (reg : α) (nm : Bool) (i : Nat) (hi : i < n) :
    vget (lapInit F n a reg nm).weights i = ∑ j ∈ range n, mget a i j := by
  simp [lapInit, hi, sumN_eq_sum]

/-- regularised degree of the specification: `Σ_j (a_ij + reg/n) = Σ_j a_ij + reg` -/
theorem degReg_eq (n : Nat) (hn : 0 < n) (a : Mat α) (reg : α) (i : Nat) :
    Spec.degReg n a reg i = (∑ j ∈ range n, mget a i j) + reg := by
  have hn' : (n : α) ≠ 0 := Nat.cast_ne_zero.mpr (Nat.pos_iff_ne_zero.mp hn)
  simp only [Spec.degReg, Spec.aReg, sumN_eq_sum, Finset.sum_add_distrib, Finset.sum_const, Finset.card_range,
    nsmul_eq_mul]
  field_simp

/-- `Σ_j (A_reg)_ij v_j = Σ_j a_ij v_j + reg · mean(v)` -/
theorem aReg_apply (n : Nat) (a : Mat α) (reg : α) (v : Nat → α) (i : Nat) :
    sumN n (fun j => Spec.aReg n a reg i j * v j)
      = (∑ j ∈ range n, mget a i j * v j) + reg * ((∑ j ∈ range n, v j) / (n : α)) := by
  simp only [Spec.aReg, sumN_eq_sum, add_mul, Finset.sum_add_distrib]
  congr 1
  rw [← Finset.mul_sum]
  ring

/-- the effective regularisation handed to the operator is never negative -/
theorem getRegularization_nonneg (reg : α) (c : Bool) : 0 ≤ getRegularization reg c := by
  unfold getRegularization absv
  by_cases h : reg < 0
  · by_cases hc : c = true
    · simp [h, hc]
    · simp only [h, hc, if_true]
      simp
      linarith
  · simp only [h, if_false]
    exact not_lt.mp h

/-- `Laplacian._matvec` without normalisation is `(D_reg − A_reg) x` -/
theorem lapMatvec_plain (F : Fn α) (n : Nat) (hn : 0 < n) (a : Mat α) (reg : α)
    (x : Vec α) (i : Nat) (hi : i < n) :
    vget (lapMatvec (lapInit F n a reg false) a x) i = Spec.lapApply n a reg (vget x) i := by
  have hw := lapInit_weights F n a reg false i hi
  rw [Spec.lapApply, degReg_eq n hn, aReg_apply]
  by_cases hr : reg = 0
  · simp only [lapMatvec, lapInit, hr, beq_self_eq_true, Bool.not_true, vget_tab, hi, sumN_eq_sum,
      Bool.false_eq_true, if_false, if_true, mul_one]
    ring
  · have hb : (!(reg == 0)) = true := by simp [hr]
    simp only [lapMatvec, lapInit, hb, if_true, vget_tab, hi, sumN_eq_sum, Bool.false_eq_true, if_false, mul_one]
    ring

/-- the diagonal `D^{-1/2}` of the normalised operator -/
theorem lapInit_normDiag (F : Fn α) (n : Nat) (a : Mat α) (reg : α) (i : Nat) (hi : i < n) :
    vget (lapInit F n a reg true).normDiag i = pinv (F.sqrt ((∑ j ∈ range n, mget a i j) + reg)) := by
  simp [lapInit, hi, sumN_eq_sum]

/-- `Laplacian._matvec` with normalisation is `S (D_reg − A_reg) S x`, `S = diag(norm_diag)` -/
theorem lapMatvec_normalized (F : Fn α) (n : Nat) (hn : 0 < n) (a : Mat α) (reg : α)
    (x : Vec α) (i : Nat) (hi : i < n) :
    vget (lapMatvec (lapInit F n a reg true) a x) i
      = vget (lapInit F n a reg true).normDiag i
        * Spec.lapApply n a reg (fun j => vget (lapInit F n a reg true).normDiag j * vget x j) i := by
  rw [Spec.lapApply, degReg_eq n hn, aReg_apply]
  have hw := lapInit_weights F n a reg true i hi
  generalize hop : lapInit F n a reg true = op at hw ⊢
  have h1 : op.n = n := by rw [← hop]; rfl
  have h2 : op.reg = reg := by rw [← hop]; rfl
  have h3 : op.normalized = true := by rw [← hop]; rfl
  by_cases hr : reg = 0
  · unfold lapMatvec
    simp only [h1, h2, h3, hr, beq_self_eq_true, Bool.not_true, Bool.false_eq_true, if_true, if_false]
    simp +contextual only [vget_tab, hi, if_true]
    simp only [sumN_eq_sum, hw]
    ring
  · have hb : (!(reg == 0)) = true := by simp [hr]
    unfold lapMatvec
    simp only [h1, h2, h3, hb, if_true]
    simp +contextual only [vget_tab, hi, if_true]
    simp only [sumN_eq_sum, hw]
    ring

/-- scalar facts behind `D^{-1/2}`: with `r² = d`, `(r⁺)² = d⁺` and `(r⁺)² d r⁺ = r⁺` -/
theorem pinv_sq_of_sq {r d : α} (h : r * r = d) : pinv r * pinv r = pinv d := by
  by_cases hr : r = 0
  · have hd : d = 0 := by rw [← h, hr]; ring
    simp [hr, hd, pinv_zero]
  · have hd : d ≠ 0 := by rw [← h]; exact mul_ne_zero hr hr
    rw [pinv_of_ne hr, pinv_of_ne hd, ← h]; field_simp

theorem pinv_sq_mul_of_sq {r d : α} (h : r * r = d) : pinv r * pinv r * d * pinv r = pinv r := by
  by_cases hr : r = 0
  · simp [hr, pinv_zero]
  · rw [pinv_of_ne hr, ← h]; field_simp

/-- **Back-transformation of `Spectral.fit`** (one vector).  If `(λ, u)` is an eigenpair of the operator
    `Laplacian(adjacency, reg, normalized_laplacian=True)` of the model, then `(1 − λ, D^{-1/2} u)` is an eigenpair of
    the random-walk transition matrix `D_reg⁻¹ A_reg` of the specification (`D⁻¹` the pseudo-inverse, so isolated
    nodes without regularisation are covered).  `sqrt` only has to square back on the regularised degrees. -/
theorem rw_eigen_of_sym_vec (F : Fn α) (n : Nat) (hn : 0 < n) (a : Mat α) (reg : α)
    (hsq : ∀ i, i < n → F.sqrt ((∑ j ∈ range n, mget a i j) + reg) * F.sqrt ((∑ j ∈ range n, mget a i j) + reg)
                        = (∑ j ∈ range n, mget a i j) + reg)
    (u : Vec α) (lam : α)
    (heig : ∀ i, i < n → vget (lapMatvec (lapInit F n a reg true) a u) i = lam * vget u i) :
    ∀ i, i < n →
      Spec.transApply n a reg (fun j => vget (lapInit F n a reg true).normDiag j * vget u j) i
        = (1 - lam) * (vget (lapInit F n a reg true).normDiag i * vget u i) := by
  intro i hi
  have h := heig i hi
  rw [lapMatvec_normalized F n hn a reg u i hi, Spec.lapApply, degReg_eq n hn] at h
  rw [Spec.transApply, degReg_eq n hn]
  have hs := lapInit_normDiag F n a reg i hi
  have h1 := pinv_sq_of_sq (hsq i hi)
  have h2 := pinv_sq_mul_of_sq (hsq i hi)
  rw [← hs] at h1 h2
  generalize vget (lapInit F n a reg true).normDiag i = s at *
  generalize (∑ j ∈ range n, mget a i j) + reg = d at *
  generalize sumN n (fun j => Spec.aReg n a reg i j * (vget (lapInit F n a reg true).normDiag j * vget u j)) = av at *
  rw [← h1]
  have : s * s * av = s * s * d * s * vget u i - s * (s * (d * (s * vget u i) - av)) := by ring
  rw [this, h, h2]; ring

/-- `D^{-1/2}` turns the Euclidean product into the degree-weighted one: with `r² = d`, `r ≠ 0`,
    `d · (r⁺u) · (r⁺u') = u · u'` — orthonormal solver vectors give `D`-orthonormal `eigenvectors_`. -/
theorem dinner_of_sqrt {r d : α} (h : r * r = d) (hr : r ≠ 0) (u u' : α) : d * (pinv r * u) * (pinv r * u') = u * u' := by
  rw [pinv_of_ne hr, ← h]; field_simp

end SkNet.Embedding
