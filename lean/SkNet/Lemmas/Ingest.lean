/-
Helper lemmas for C18 (ingestion): `np.unique` as `uniq` / `pos`, sums, COO entries.
-/
import SkNet.Model.Ingest
import SkNet.Spec.Ingest

namespace SkNet.Ingest

/-! ### insertSorted / uniq -/

theorem mem_insertSorted (lt : α → α → Bool) (x y : α) (l : List α) :
    y ∈ insertSorted lt x l ↔ y = x ∨ y ∈ l := by
  induction l with
  | nil => simp [insertSorted]
  | cons z zs ih =>
    unfold insertSorted
    by_cases h : lt z x = true
    · simp only [h, if_true, List.mem_cons, ih]
      constructor
      · rintro (h1 | h1 | h1)
        · exact Or.inr (Or.inl h1)
        · exact Or.inl h1
        · exact Or.inr (Or.inr h1)
      · rintro (h1 | h1 | h1)
        · exact Or.inr (Or.inl h1)
        · exact Or.inl h1
        · exact Or.inr (Or.inr h1)
    · have h' : lt z x = false := by simpa using h
      simp [h']

theorem nodup_insertSorted (lt : α → α → Bool) (x : α) (l : List α) (hx : x ∉ l) (hl : l.Nodup) :
    (insertSorted lt x l).Nodup := by
  induction l with
  | nil => simp [insertSorted]
  | cons z zs ih =>
    unfold insertSorted
    have hz : z ∉ zs := (List.nodup_cons.mp hl).1
    have hzs : zs.Nodup := (List.nodup_cons.mp hl).2
    have hxz : x ≠ z := fun h => hx (by simp [h])
    have hxzs : x ∉ zs := fun h => hx (by simp [h])
    by_cases h : lt z x = true
    · simp only [h, if_true]
      refine List.nodup_cons.mpr ⟨?_, ih hxzs hzs⟩
      intro hm
      rcases (mem_insertSorted lt x z zs).mp hm with h1 | h1
      · exact hxz h1.symm
      · exact hz h1
    · simp only [h]
      refine List.nodup_cons.mpr ⟨hx, hl⟩

theorem uniq_cons [DecidableEq α] (lt : α → α → Bool) (x : α) (xs : List α) :
    uniq lt (x :: xs) = if x ∈ uniq lt xs then uniq lt xs else insertSorted lt x (uniq lt xs) := rfl

theorem mem_uniq [DecidableEq α] (lt : α → α → Bool) (xs : List α) (y : α) :
    y ∈ uniq lt xs ↔ y ∈ xs := by
  induction xs with
  | nil => simp [uniq]
  | cons x xs ih =>
    rw [uniq_cons]
    by_cases h : x ∈ uniq lt xs
    · simp only [h, if_true, List.mem_cons, ih]
      constructor
      · intro hy; exact Or.inr hy
      · rintro (rfl | hy)
        · exact ih.mp h
        · exact hy
    · simp only [h, if_false, mem_insertSorted, ih, List.mem_cons]

theorem nodup_uniq [DecidableEq α] (lt : α → α → Bool) (xs : List α) : (uniq lt xs).Nodup := by
  induction xs with
  | nil => simp [uniq]
  | cons x xs ih =>
    rw [uniq_cons]
    by_cases h : x ∈ uniq lt xs
    · simpa [h] using ih
    · simp only [h, if_false]
      exact nodup_insertSorted lt x _ h ih

/-! ### pos -/

theorem pos_lt [DecidableEq α] (x : α) (l : List α) (h : x ∈ l) : pos x l < l.length := by
  induction l with
  | nil => simp at h
  | cons y ys ih =>
    unfold pos
    by_cases hxy : x = y
    · simp [hxy]
    · have : x ∈ ys := by
        rcases List.mem_cons.mp h with h1 | h1
        · exact absurd h1 hxy
        · exact h1
      simp [hxy, ih this]

theorem getElem?_pos [DecidableEq α] (x : α) (l : List α) (h : x ∈ l) : l[pos x l]? = some x := by
  induction l with
  | nil => simp at h
  | cons y ys ih =>
    unfold pos
    by_cases hxy : x = y
    · simp [hxy]
    · have : x ∈ ys := by
        rcases List.mem_cons.mp h with h1 | h1
        · exact absurd h1 hxy
        · exact h1
      simp [hxy, ih this]

theorem pos_of_getElem? [DecidableEq α] (l : List α) (hl : l.Nodup) (i : Nat) (x : α)
    (h : l[i]? = some x) : pos x l = i := by
  induction l generalizing i with
  | nil => simp at h
  | cons y ys ih =>
    have hy : y ∉ ys := (List.nodup_cons.mp hl).1
    have hys : ys.Nodup := (List.nodup_cons.mp hl).2
    unfold pos
    cases i with
    | zero =>
      simp at h
      simp [h]
    | succ k =>
      simp at h
      have hx : x ∈ ys := List.mem_of_getElem? h
      have hxy : x ≠ y := fun e => hy (e ▸ hx)
      simp [hxy, ih hys k h]

/-- on the members of a duplicate-free list, `pos · l = i` singles out the element at `i` -/
theorem pos_eq_iff [DecidableEq α] (l : List α) (hl : l.Nodup) (i : Nat) (a x : α)
    (ha : l[i]? = some a) (hx : x ∈ l) : pos x l = i ↔ x = a := by
  constructor
  · intro h
    have := getElem?_pos x l hx
    rw [h, ha] at this
    exact (Option.some.inj this).symm
  · rintro rfl
    exact pos_of_getElem? l hl i x ha

/-! ### sums -/

theorem rsum_append (l₁ l₂ : List Rat) : rsum (l₁ ++ l₂) = rsum l₁ + rsum l₂ := by
  induction l₁ with
  | nil => simp [rsum, Rat.zero_add]
  | cons x xs ih => simp [rsum, ih, Rat.add_assoc]

theorem rsum_singleton (x : Rat) : rsum [x] = x := by simp [rsum, Rat.add_zero]

theorem rsum_perm (l₁ l₂ : List Rat) (h : l₁.Perm l₂) : rsum l₁ = rsum l₂ := by
  induction h with
  | nil => rfl
  | cons x _ ih => simp [rsum, ih]
  | swap x y l =>
    simp only [rsum]
    rw [← Rat.add_assoc, ← Rat.add_assoc, Rat.add_comm y x]
  | trans _ _ ih₁ ih₂ => exact ih₁.trans ih₂

theorem any_perm (l₁ l₂ : List Rat) (p : Rat → Bool) (h : l₁.Perm l₂) : l₁.any p = l₂.any p := by
  cases h1 : l₁.any p with
  | true =>
    rw [List.any_eq_true] at h1
    obtain ⟨x, hx, hpx⟩ := h1
    exact (List.any_eq_true.mpr ⟨x, h.mem_iff.mp hx, hpx⟩).symm
  | false =>
    rw [List.any_eq_false] at h1
    symm
    rw [List.any_eq_false]
    intro x hx
    exact h1 x (h.mem_iff.mpr hx)

/-! ### filters of duplicate-free lists -/

theorem filter_eq_of_nodup [DecidableEq α] (l : List α) (hl : l.Nodup) (x : α) :
    l.filter (fun y => y = x) = if x ∈ l then [x] else [] := by
  induction l with
  | nil => simp
  | cons y ys ih =>
    have hy : y ∉ ys := (List.nodup_cons.mp hl).1
    have hys : ys.Nodup := (List.nodup_cons.mp hl).2
    by_cases hyx : y = x
    · subst hyx
      simp [ih hys, hy]
    · have hxy : ¬ x = y := fun e => hyx e.symm
      simp [hyx, ih hys, hxy]

/-! ### COO entries -/

/-- the stored values at (i, j) of the triples built from the edges are the listed weights of (a, b) as soon
    as the numbering singles out `a` among the row identifiers and `b` among the column identifiers -/
theorem vals_cooOf [DecidableEq α] (n m : Nat) (k : Kind) (es : List ((α × α) × Rat)) (fr fc : α → Nat)
    (i j : Nat) (a b : α)
    (hr : ∀ e ∈ es, fr e.1.1 = i ↔ e.1.1 = a) (hc : ∀ e ∈ es, fc e.1.2 = j ↔ e.1.2 = b) :
    (⟨n, m, k, cooOf es fr fc⟩ : Coo).vals i j = listed es a b := by
  unfold Coo.vals listed cooOf
  simp only [List.filter_map, List.map_map]
  have : es.filter ((fun e : Nat × Nat × Rat => decide (e.1 = i ∧ e.2.1 = j)) ∘ fun e => (fr e.1.1, fc e.1.2, e.2))
       = es.filter (fun e => decide (e.1 = (a, b))) := by
    apply List.filter_congr
    intro e he
    have h1 := hr e he
    have h2 := hc e he
    have h3 : e.1 = (a, b) ↔ e.1.1 = a ∧ e.1.2 = b := by
      constructor
      · intro h; rw [h]; exact ⟨rfl, rfl⟩
      · intro h; exact Prod.ext h.1 h.2
    simp only [Function.comp, h1, h2, h3]
  rw [this]
  rfl

theorem vals_nil_of_not_mem (m : Coo) (i j : Nat)
    (h : (i, j) ∉ m.entries.map fun e => (e.1, e.2.1)) : m.vals i j = [] := by
  unfold Coo.vals
  rw [List.map_eq_nil_iff, List.filter_eq_nil_iff]
  intro e he hp
  apply h
  simp only [decide_eq_true_eq] at hp
  exact List.mem_map.mpr ⟨e, he, by rw [hp.1, hp.2]⟩

theorem combine_zero_one (l : List Rat) : combine .bool [combine .bool l] = combine .bool l := by
  unfold combine
  by_cases h : l.any (· != 0) = true
  · simp [h]
  · simp [h]

theorem combine_singleton (k : Kind) (l : List Rat) : combine k [combine k l] = combine k l := by
  cases k with
  | bool => exact combine_zero_one l
  | int => simp [combine, rsum_singleton]
  | float => simp [combine, rsum_singleton]

theorem combine_nil (k : Kind) : combine k [] = 0 := by
  cases k <;> simp [combine, rsum]

/-- building the csr matrix (summing duplicates) does not change the dense values -/
theorem entry_csrOf (m : Coo) (i j : Nat) : (csrOf m).entry i j = m.entry i j := by
  unfold Coo.entry
  have hk : (csrOf m).kind = m.kind := rfl
  rw [hk]
  have hv : (csrOf m).vals i j =
      if (i, j) ∈ m.entries.map (fun e => (e.1, e.2.1)) then [m.entry i j] else [] := by
    unfold Coo.vals csrOf
    simp only [List.filter_map, List.map_map]
    have hf : (uniq (ltPair ltNat) (m.entries.map fun e => (e.1, e.2.1))).filter
          ((fun e : Nat × Nat × Rat => decide (e.1 = i ∧ e.2.1 = j)) ∘ fun p => (p.1, p.2, m.entry p.1 p.2))
        = (uniq (ltPair ltNat) (m.entries.map fun e => (e.1, e.2.1))).filter (fun p => decide (p = (i, j))) := by
      apply List.filter_congr
      intro p _
      have : p = (i, j) ↔ p.1 = i ∧ p.2 = j := by
        constructor
        · intro h; rw [h]; exact ⟨rfl, rfl⟩
        · intro h; exact Prod.ext h.1 h.2
      simp only [Function.comp, this]
    rw [hf, filter_eq_of_nodup _ (nodup_uniq _ _)]
    by_cases hm : (i, j) ∈ m.entries.map (fun e => (e.1, e.2.1))
    · have hm' : (i, j) ∈ uniq (ltPair ltNat) (m.entries.map fun e => (e.1, e.2.1)) := (mem_uniq _ _ _).mpr hm
      simp [hm, hm']
    · have hm' : (i, j) ∉ uniq (ltPair ltNat) (m.entries.map fun e => (e.1, e.2.1)) :=
        fun h => hm ((mem_uniq _ _ _).mp h)
      simp [hm, hm']
  rw [hv]
  by_cases hm : (i, j) ∈ m.entries.map (fun e => (e.1, e.2.1))
  · simp only [hm, if_true]
    exact combine_singleton m.kind (m.vals i j)
  · simp only [hm, if_false]
    rw [vals_nil_of_not_mem m i j hm]

@[simp] theorem csrOf_kind (m : Coo) : (csrOf m).kind = m.kind := rfl
@[simp] theorem csrOf_nRow (m : Coo) : (csrOf m).nRow = m.nRow := rfl
@[simp] theorem csrOf_nCol (m : Coo) : (csrOf m).nCol = m.nCol := rfl

theorem vals_append (n m : Nat) (k : Kind) (e₁ e₂ : List (Nat × Nat × Rat)) (i j : Nat) :
    (⟨n, m, k, e₁ ++ e₂⟩ : Coo).vals i j = (⟨n, m, k, e₁⟩ : Coo).vals i j ++ (⟨n, m, k, e₂⟩ : Coo).vals i j := by
  simp [Coo.vals, List.filter_append]

theorem vals_transpose (n m : Nat) (k : Kind) (es : List (Nat × Nat × Rat)) (i j : Nat) :
    (⟨n, m, k, transposeEntries es⟩ : Coo).vals i j = (⟨n, m, k, es⟩ : Coo).vals j i := by
  unfold Coo.vals transposeEntries
  simp only [List.filter_map, List.map_map]
  congr 1
  apply List.filter_congr
  intro e _
  simp only [Function.comp]
  by_cases h1 : e.1 = j <;> by_cases h2 : e.2.1 = i <;> simp [h1, h2]

theorem vals_indep (n m n' m' : Nat) (k k' : Kind) (es : List (Nat × Nat × Rat)) (i j : Nat) :
    (⟨n, m, k, es⟩ : Coo).vals i j = (⟨n', m', k', es⟩ : Coo).vals i j := rfl

/-- `B = A.astype(int or float); B += A.T` on a matrix that is not boolean: `A + Aᵀ` -/
theorem entry_d2u_weighted (m : Coo) (hk : m.kind ≠ .bool) (i j : Nat) :
    (directed2undirected m true).entry i j = m.entry i j + m.entry j i := by
  unfold directed2undirected Coo.entry
  simp only [if_true]
  have h1 : (if m.kind = Kind.float then Kind.float else Kind.int) ≠ .bool := by
    by_cases h : m.kind = .float <;> simp [h]
  have hc : ∀ k : Kind, k ≠ .bool → ∀ l, combine k l = rsum l := by
    intro k hk l; cases k <;> simp_all [combine]
  rw [hc _ h1, hc _ hk, hc _ hk]
  show rsum ((⟨m.nRow, m.nCol, _, m.entries ++ transposeEntries m.entries⟩ : Coo).vals i j) = _
  rw [vals_append, vals_transpose, rsum_append]
  rfl

theorem any_map_bool (l : List Rat) :
    (l.map fun v => if v != 0 then (1 : Rat) else 0).any (· != 0) = l.any (· != 0) := by
  induction l with
  | nil => rfl
  | cons x xs ih =>
    simp only [List.map_cons, List.any_cons, ih]
    by_cases hx : x = 0
    · simp [hx]
    · have h1 : ((1 : Rat) != 0) = true := by decide
      have h2 : (x != 0) = true := by simpa [bne_iff_ne] using hx
      simp [h1, h2]

theorem vals_boolEntries (n m : Nat) (k : Kind) (es : List (Nat × Nat × Rat)) (i j : Nat) :
    (⟨n, m, k, boolEntries es⟩ : Coo).vals i j
      = ((⟨n, m, k, es⟩ : Coo).vals i j).map fun v => if v != 0 then (1 : Rat) else 0 := by
  unfold Coo.vals boolEntries
  simp only [List.filter_map, List.map_map]
  rfl

theorem combine_bool_append (l₁ l₂ : List Rat) :
    combine .bool (l₁ ++ l₂) = if combine .bool l₁ != 0 || combine .bool l₂ != 0 then 1 else 0 := by
  unfold combine
  simp only [List.any_append]
  by_cases h1 : l₁.any (· != 0) = true <;> by_cases h2 : l₂.any (· != 0) = true <;> simp [h1, h2]

/-- `(A + A.T).astype(bool)` on a boolean matrix: the `or` of the two entries -/
theorem entry_d2u_bool (m : Coo) (hk : m.kind = .bool) (i j : Nat) :
    (directed2undirected m false).entry i j = if m.entry i j != 0 || m.entry j i != 0 then 1 else 0 := by
  have h0 : (directed2undirected m false).entry i j
      = combine .bool ((⟨m.nRow, m.nCol, .bool,
          boolEntries (csrOf { m with entries := m.entries ++ transposeEntries m.entries }).entries⟩ : Coo).vals i j) := by
    unfold directed2undirected Coo.entry
    simp
  rw [h0, vals_boolEntries]
  have h1 : ∀ l : List Rat, combine .bool (l.map fun v => if v != 0 then (1 : Rat) else 0) = combine .bool l := by
    intro l; unfold combine; rw [any_map_bool]
  rw [h1]
  have h2 : combine .bool ((⟨m.nRow, m.nCol, .bool,
      (csrOf { m with entries := m.entries ++ transposeEntries m.entries }).entries⟩ : Coo).vals i j)
      = (csrOf { m with entries := m.entries ++ transposeEntries m.entries }).entry i j := by
    unfold Coo.entry
    rw [csrOf_kind]
    simp only [hk]
    rfl
  rw [h2, entry_csrOf]
  unfold Coo.entry
  simp only [hk]
  show combine .bool ((⟨m.nRow, m.nCol, _, m.entries ++ transposeEntries m.entries⟩ : Coo).vals i j) = _
  rw [vals_append, vals_transpose, combine_bool_append]
  rfl

/-! ### the typed edges against the listed weights -/

theorem listed_map_snd [DecidableEq α] (es : List ((α × α) × Rat)) (g : Rat → Rat) (a b : α) :
    listed (es.map fun e => (e.1, g e.2)) a b = (listed es a b).map g := by
  unfold listed
  simp only [List.filter_map, List.map_map]
  rfl

theorem listed_zip_map [DecidableEq α] (rows : List (α × α)) (w : List Rat) (g : Rat → Rat) (a b : α) :
    listed (rows.zip (w.map g)) a b = (listed (rows.zip w) a b).map g := by
  rw [← listed_map_snd]
  congr 1
  rw [List.zip_map_right]
  rfl

theorem take_one_filter (l : List β) (p : β → Bool) : (l.filter p).take 1 = (l.find? p).toList := by
  induction l with
  | nil => rfl
  | cons x xs ih =>
    by_cases h : p x = true
    · simp [h]
    · simp [h, ih]

theorem filter_filterMap_congr (U : List γ) (F : γ → Option β) (p : β → Bool) (q : γ → Bool)
    (h : ∀ r ∈ U, ∀ e, F r = some e → p e = q r) :
    (U.filterMap F).filter p = (U.filter q).filterMap F := by
  induction U with
  | nil => rfl
  | cons r rs ih =>
    have ih' := ih (fun r' hr' => h r' (List.mem_cons_of_mem _ hr'))
    cases hF : F r with
    | none =>
      by_cases hq : q r = true
      · simp [hF, hq, ih']
      · simp [hF, hq, ih']
    | some e =>
      have hpe := h r (List.mem_cons_self) e hF
      by_cases hq : q r = true
      · simp [hF, hq, hpe, ih']
      · simp [hF, hq, hpe, ih']

/-- keeping the first occurrence of every row keeps the first listed weight of every edge -/
theorem listed_firstRows [DecidableEq α] (lt : α → α → Bool) (es : List ((α × α) × Rat)) (a b : α) :
    listed (firstRows lt es) a b = (listed es a b).take 1 := by
  unfold listed firstRows
  rw [filter_filterMap_congr _ _ _ (fun r => decide (r = (a, b)))]
  · rw [filter_eq_of_nodup _ (nodup_uniq _ _), ← List.map_take, take_one_filter]
    by_cases hm : (a, b) ∈ uniq (ltPair lt) (es.map (·.1))
    · simp only [hm, if_true, List.filterMap_cons, List.filterMap_nil]
      cases hF : es.find? (fun e => decide (e.1 = (a, b))) with
      | none => simp
      | some e => simp
    · simp only [hm, if_false, List.filterMap_nil]
      have : es.find? (fun e => decide (e.1 = (a, b))) = none := by
        rw [List.find?_eq_none]
        intro e he hp
        apply hm
        rw [mem_uniq]
        simp only [decide_eq_true_eq] at hp
        exact List.mem_map.mpr ⟨e, he, hp⟩
      simp [this]
  · intro r _ e hF
    have := List.find?_some hF
    simp only [decide_eq_true_eq] at this
    simp [this]

/-- the rows kept by `firstRows` are the rows of the list (as a set) -/
theorem mem_firstRows_key [DecidableEq α] (lt : α → α → Bool) (es : List ((α × α) × Rat)) (r : α × α) :
    r ∈ (firstRows lt es).map (·.1) ↔ r ∈ es.map (·.1) := by
  unfold firstRows
  constructor
  · intro h
    obtain ⟨e, he, rfl⟩ := List.mem_map.mp h
    obtain ⟨r', _, hF⟩ := List.mem_filterMap.mp he
    exact List.mem_map.mpr ⟨e, List.mem_of_find?_eq_some hF, rfl⟩
  · intro h
    have hu : r ∈ uniq (ltPair lt) (es.map (·.1)) := (mem_uniq _ _ _).mpr h
    obtain ⟨e0, he0, hr0⟩ := List.mem_map.mp h
    cases hF : es.find? (fun e => decide (e.1 = r)) with
    | none =>
      rw [List.find?_eq_none] at hF
      exact absurd (by simpa using hr0) (by simpa using hF e0 he0)
    | some e =>
      have := List.find?_some hF
      simp only [decide_eq_true_eq] at this
      exact List.mem_map.mpr ⟨e, List.mem_filterMap.mpr ⟨r, hu, hF⟩, this⟩

theorem castWeight_bool : castWeight .bool = fun v => if v != 0 then (1 : Rat) else 0 := funext fun _ => rfl
theorem castWeight_int : castWeight .int = id := funext fun _ => rfl
theorem castWeight_float : castWeight .float = id := funext fun _ => rfl

theorem combine_cast (weighted : Bool) (w l : List Rat) :
    combine (weightKind weighted w) (l.map (castWeight (weightKind weighted w)))
      = if weighted then rsum l else (if l.any (· != 0) then 1 else 0) := by
  cases weighted with
  | false =>
    have hk : weightKind false w = .bool := by simp [weightKind]
    rw [hk, castWeight_bool]
    simp only [combine]
    rw [any_map_bool]
    simp
  | true =>
    by_cases hw : w.all (fun x => x.den == 1) = true
    · have hk : weightKind true w = .int := by simp [weightKind, hw]
      rw [hk, castWeight_int]
      simp [combine]
    · have hk : weightKind true w = .float := by simp [weightKind, hw]
      rw [hk, castWeight_float]
      simp [combine]

/-- what the duplicates of one ordered pair combine to is the value the specification reads off the list -/
theorem combine_typed [DecidableEq α] (lt : α → α → Bool) (rows : List (α × α)) (w : List Rat) (f : Flags) (a b : α) :
    combine (weightKind f.weighted w) (listed (typedEdges lt rows w f) a b)
      = baseEntry f (listed (rows.zip w) a b) := by
  unfold typedEdges baseEntry
  by_cases hs : f.sumDuplicates = true
  · simp only [hs, if_true]
    rw [listed_zip_map, combine_cast]
  · have hs' : f.sumDuplicates = false := by simpa using hs
    simp only [hs', Bool.false_eq_true, if_false]
    rw [listed_firstRows, listed_zip_map, ← List.map_take, combine_cast]

/-! ### node numbering -/

theorem axisOf_named [DecidableEq α] (lt : α → α → Bool) (asInt : Option (α → Int)) (reindex : Bool)
    (sd : Option Nat) (ids : List α) (ax : Axis α) (hn : asInt = none ∨ reindex = true)
    (h : axisOf lt asInt reindex sd ids = .ok ax) :
    ax.names = some (uniq lt ids) ∧ ax.n = (uniq lt ids).length ∧ ax.index = fun x => pos x (uniq lt ids) := by
  unfold axisOf at h
  rcases hn with rfl | rfl
  · simp only at h
    cases h
    exact ⟨rfl, rfl, rfl⟩
  · cases asInt with
    | none =>
      simp only at h
      cases h
      exact ⟨rfl, rfl, rfl⟩
    | some v =>
      simp only at h
      cases h
      exact ⟨rfl, rfl, rfl⟩

theorem le_foldl_max (l : List Nat) (init x : Nat) (h : x ≤ init ∨ x ∈ l) : x ≤ l.foldl max init := by
  induction l generalizing init with
  | nil =>
    rcases h with h | h
    · exact h
    · simp at h
  | cons y ys ih =>
    simp only [List.foldl_cons]
    apply ih
    rcases h with h | h
    · exact Or.inl (Nat.le_trans h (Nat.le_max_left _ _))
    · rcases List.mem_cons.mp h with rfl | h
      · exact Or.inl (Nat.le_max_right _ _)
      · exact Or.inr h

theorem foldl_max_init_or_mem (l : List Nat) (init : Nat) : l.foldl max init = init ∨ l.foldl max init ∈ l := by
  induction l generalizing init with
  | nil => exact Or.inl rfl
  | cons x xs ih =>
    simp only [List.foldl_cons]
    rcases ih (max init x) with h | h
    · rw [h]
      by_cases hx : init ≤ x
      · exact Or.inr (by rw [Nat.max_eq_right hx]; simp)
      · exact Or.inl (Nat.max_eq_left (by omega))
    · exact Or.inr (List.mem_cons_of_mem _ h)

/-- the maximum of a non-empty list of naturals is one of them -/
theorem foldl_max_mem (l : List Nat) (hne : l ≠ []) : l.foldl max 0 ∈ l := by
  rcases foldl_max_init_or_mem l 0 with h | h
  · cases l with
    | nil => exact absurd rfl hne
    | cons x xs =>
      have hx : x ≤ (x :: xs).foldl max 0 := le_foldl_max _ _ _ (Or.inr (by simp))
      rw [h] at hx ⊢
      have : x = 0 := by omega
      rw [this]; simp
  · exact h

theorem axisOf_int [DecidableEq α] (lt : α → α → Bool) (v : α → Int) (sd : Option Nat) (ids : List α) (ax : Axis α)
    (h : axisOf lt (some v) false sd ids = .ok ax) :
    ax.names = none ∧ ax.index = (fun x => (v x).toNat) ∧ (∀ x ∈ ids, 0 ≤ v x) ∧ ids ≠ [] ∧
    ax.n = specDim sd (ids.map v) ∧ (∀ x ∈ ids, (v x).toNat < ax.n) := by
  unfold axisOf at h
  simp only at h
  by_cases he : ids.isEmpty = true
  · simp [he] at h
  · simp only [he] at h
    by_cases hneg : ids.any (fun x => decide (v x < 0)) = true
    · simp [hneg] at h
    · simp only [hneg] at h
      cases h
      have hpos : ∀ x ∈ ids, 0 ≤ v x := by
        intro x hx
        have := hneg
        simp only [List.any_eq_true, decide_eq_true_eq, not_exists, not_and] at this
        have := this x hx
        omega
      have hne : ids ≠ [] := by
        intro h0; apply he; simp [h0]
      have hmap : (ids.map fun x => (v x).toNat) = (ids.map v).map Int.toNat := by simp [List.map_map]
      refine ⟨rfl, rfl, hpos, hne, ?_, ?_⟩
      · unfold specDim
        simp only [hmap]
        cases sd <;> rfl
      · intro x hx
        have hle : (v x).toNat ≤ (ids.map fun x => (v x).toNat).foldl max 0 :=
          le_foldl_max _ _ _ (Or.inr (List.mem_map.mpr ⟨x, hx, rfl⟩))
        cases sd with
        | none => simp only; omega
        | some s =>
          simp only
          have := Nat.le_max_right s ((ids.map fun x => (v x).toNat).foldl max 0 + 1)
          omega

/-- the rows of the typed edges are the rows of the array (as a set) -/
theorem keys_typedEdges [DecidableEq α] (lt : α → α → Bool) (rows : List (α × α)) (w : List Rat) (f : Flags)
    (hl : w.length = rows.length) (r : α × α) :
    r ∈ (typedEdges lt rows w f).map (·.1) ↔ r ∈ rows := by
  have h0 : (rows.zip (w.map (castWeight (weightKind f.weighted w)))).map (·.1) = rows := by
    apply List.map_fst_zip
    simp [hl]
  unfold typedEdges
  by_cases hs : f.sumDuplicates = true
  · simp only [hs, if_true]
    rw [h0]
  · have hs' : f.sumDuplicates = false := by simpa using hs
    simp only [hs', Bool.false_eq_true, if_false]
    rw [mem_firstRows_key, h0]

/-- without `shape` and without reindexing the dimension is the largest identifier plus one -/
theorem axisOf_int_minimal [DecidableEq α] (lt : α → α → Bool) (v : α → Int) (ids : List α) (ax : Axis α)
    (h : axisOf lt (some v) false none ids = .ok ax) : ∃ x ∈ ids, (v x).toNat + 1 = ax.n := by
  obtain ⟨_, _, _, hne, hdim, _⟩ := axisOf_int lt v none ids ax h
  rw [hdim]
  unfold specDim
  simp only
  have hne' : (ids.map v).map Int.toNat ≠ [] := by
    intro h0
    apply hne
    cases ids with
    | nil => rfl
    | cons _ _ => simp at h0
  obtain ⟨z, hz, hzm⟩ := List.mem_map.mp (foldl_max_mem _ hne')
  obtain ⟨x, hx, rfl⟩ := List.mem_map.mp hz
  exact ⟨x, hx, by rw [hzm]⟩

/-- the numbering of an axis succeeds when names are built, or the list is non-empty with non-negative integers -/
theorem axisOf_ok [DecidableEq α] (lt : α → α → Bool) (asInt : Option (α → Int)) (reindex : Bool) (sd : Option Nat)
    (ids : List α) (h : asInt = none ∨ reindex = true ∨ (ids ≠ [] ∧ ∀ v, asInt = some v → ∀ x ∈ ids, 0 ≤ v x)) :
    ∃ ax, axisOf lt asInt reindex sd ids = .ok ax := by
  unfold axisOf
  cases asInt with
  | none => exact ⟨_, rfl⟩
  | some v =>
    cases reindex with
    | true => exact ⟨_, rfl⟩
    | false =>
      rcases h with h | h | ⟨hne, hpos⟩
      · cases h
      · cases h
      · have h1 : ids.isEmpty = false := by
          cases ids with
          | nil => exact absurd rfl hne
          | cons _ _ => rfl
        have h2 : ids.any (fun x => decide (v x < 0)) = false := by
          rw [List.any_eq_false]
          intro x hx
          have := hpos v rfl x hx
          simp only [decide_eq_true_eq]
          omega
        simp only [h1, h2, Bool.false_eq_true, if_false]
        exact ⟨_, rfl⟩

theorem typedEdges_ne_nil [DecidableEq α] (lt : α → α → Bool) (rows : List (α × α)) (w : List Rat) (f : Flags)
    (hl : w.length = rows.length) (hne : rows ≠ []) : typedEdges lt rows w f ≠ [] := by
  intro h0
  cases rows with
  | nil => exact hne rfl
  | cons r rs =>
    have := (keys_typedEdges lt (r :: rs) w f hl r).mpr (by simp)
    rw [h0] at this
    simp at this

/-! ### the two matrices of `from_edge_array` -/

/-- the csr matrix built from the typed edges has, at (i, j), the value the specification reads off the list
    for the identifiers (a, b) that the numbering sends to (i, j) -/
theorem entry_base [DecidableEq α] (lt : α → α → Bool) (rows : List (α × α)) (w : List Rat) (f : Flags)
    (n m : Nat) (fr fc : α → Nat) (i j : Nat) (a b : α)
    (hr : ∀ e ∈ typedEdges lt rows w f, fr e.1.1 = i ↔ e.1.1 = a)
    (hc : ∀ e ∈ typedEdges lt rows w f, fc e.1.2 = j ↔ e.1.2 = b) :
    (csrOf ⟨n, m, weightKind f.weighted w, cooOf (typedEdges lt rows w f) fr fc⟩).entry i j
      = baseEntry f (listed (rows.zip w) a b) := by
  rw [entry_csrOf]
  unfold Coo.entry
  rw [vals_cooOf n m _ _ fr fc i j a b hr hc]
  exact combine_typed lt rows w f a b

theorem weightKind_true_ne_bool (w : List Rat) : weightKind true w ≠ .bool := by
  unfold weightKind
  by_cases h : w.all (fun x => x.den == 1) = true <;> simp [h]

theorem entry_bipMatrix [DecidableEq α] (lt : α → α → Bool) (rows : List (α × α)) (w : List Rat) (f : Flags)
    (hb : f.bipartite = true) (ar ac : Axis α) (i j : Nat) (a b : α)
    (hr : ∀ e ∈ typedEdges lt rows w f, ar.index e.1.1 = i ↔ e.1.1 = a)
    (hc : ∀ e ∈ typedEdges lt rows w f, ac.index e.1.2 = j ↔ e.1.2 = b) :
    (bipMatrix (weightKind f.weighted w) (typedEdges lt rows w f) ar ac).entry i j
      = specEntry f (rows.zip w) a b := by
  unfold bipMatrix specEntry
  rw [entry_base lt rows w f _ _ _ _ i j a b hr hc]
  simp [hb]

theorem entry_sqMatrix [DecidableEq α] (lt : α → α → Bool) (rows : List (α × α)) (w : List Rat) (f : Flags)
    (hb : f.bipartite = false) (ax : Axis α) (i j : Nat) (a b : α)
    (h11 : ∀ e ∈ typedEdges lt rows w f, ax.index e.1.1 = i ↔ e.1.1 = a)
    (h22 : ∀ e ∈ typedEdges lt rows w f, ax.index e.1.2 = j ↔ e.1.2 = b)
    (h12 : ∀ e ∈ typedEdges lt rows w f, ax.index e.1.1 = j ↔ e.1.1 = b)
    (h21 : ∀ e ∈ typedEdges lt rows w f, ax.index e.1.2 = i ↔ e.1.2 = a) :
    (sqMatrix f.weighted f.directed (weightKind f.weighted w) (typedEdges lt rows w f) ax).entry i j
      = specEntry f (rows.zip w) a b := by
  unfold sqMatrix specEntry
  have e1 := entry_base lt rows w f ax.n ax.n ax.index ax.index i j a b h11 h22
  have e2 := entry_base lt rows w f ax.n ax.n ax.index ax.index j i b a h12 h21
  by_cases hd : f.directed = true
  · simp only [hd, if_true, hb, Bool.or_true]
    exact e1
  · have hd' : f.directed = false := by simpa using hd
    simp only [hd', hb, Bool.or_self, Bool.false_eq_true, if_false]
    by_cases hw : f.weighted = true
    · simp only [hw, if_true]
      rw [entry_d2u_weighted _ (by rw [csrOf_kind]; exact weightKind_true_ne_bool w)]
      rw [hw] at e1 e2
      rw [e1, e2]
    · have hw' : f.weighted = false := by simpa using hw
      simp only [hw', Bool.false_eq_true, if_false]
      rw [entry_d2u_bool _ (by rw [csrOf_kind]; simp [weightKind])]
      rw [hw'] at e1 e2
      rw [e1, e2]

end SkNet.Ingest
