/-
Helper lemmas for C03 about C14's model of Diffusion / Dirichlet (Model/Heat.lean): what its `get_adjacency_values`
returns for bipartite input. Written so that they hold whichever seeds the bipartite branch stacks (they only use that
the result of `Heat.stackValues` has `n_row + n_col` entries).
-/
import SkNet.Model.Heat

namespace SkNet.Bip
open SkNet

theorem heat_stackValues_length {nRow nCol : Nat} {vr vc : Heat.Values} {d : Rat} {s : List Rat}
    (h : Heat.stackValues nRow nCol vr vc d = .ok s) : ∃ r c, s = r ++ c ∧ r.length = nRow ∧ c.length = nCol := by
  have hlen : ∀ (n : Nat) (v : Heat.Values) (y : List Rat), Heat.getValues n v d = .ok y → y.length = n := by
    intro n v y hy
    unfold Heat.getValues at hy
    cases v with
    | none => cases hy; simp
    | arr l => simp only at hy; split at hy; · cases hy
               · rename_i hl; cases hy; simpa using hl
    | list l => simp only at hy; split at hy; · cases hy
                · rename_i hl; cases hy; simpa using hl
    | dict kv =>
      simp only at hy
      split at hy
      · cases hy
      · have hassign : ∀ (kv : List (Int × Rat)) (acc y : List Rat), Heat.assign n acc kv = .ok y → y.length = acc.length := by
          intro kv
          induction kv with
          | nil => intro acc y h; simp only [Heat.assign] at h; cases h; rfl
          | cons p ps ih =>
            intro acc y h
            obtain ⟨k, x⟩ := p
            simp only [Heat.assign] at h
            split at h
            · rw [ih _ _ h]; simp
            · cases h
        rw [hassign _ _ _ hy]; simp
  unfold Heat.stackValues at h
  simp only at h
  split at h
  · cases h
  · rename_i r hr
    split at h
    · cases h
    · rename_i c hc
      cases h
      exact ⟨r, c, rfl, hlen _ _ _ hr, hlen _ _ _ hc⟩

/-- what `get_adjacency_values` of C14's model returns for bipartite input: the block matrix on `n_row + n_col`
nodes and a seed vector of that length -/
theorem heat_prepared_bipartite {nRow nCol nnz : Nat} {B : Nat → Nat → Rat} {a : Heat.Args} {p : Heat.Prepared}
    (hp : Heat.getAdjacencyValues nRow nCol nnz B a = .ok p) (hb : p.bipartite = true) :
    nnz ≠ 0 ∧ p.n = nRow + nCol ∧ p.adj = Heat.blockMat nRow B ∧ p.seeds.length = nRow + nCol := by
  unfold Heat.getAdjacencyValues at hp
  split at hp
  · cases hp
  · rename_i hnnz
    simp only at hp
    split at hp
    · -- the bipartite branch: whatever is stacked has length n_row + n_col
      split at hp
      · cases hp
      · rename_i s hs
        cases hp
        have hlen : s.length = nRow + nCol := by
          split at hs
          · obtain ⟨r, c, rfl, h1, h2⟩ := heat_stackValues_length hs; simp [h1, h2]
          · obtain ⟨r, c, rfl, h1, h2⟩ := heat_stackValues_length hs; simp [h1, h2]
        exact ⟨hnnz, rfl, rfl, hlen⟩
    · split at hp
      · cases hp
      · cases hp; simp at hb

end SkNet.Bip
