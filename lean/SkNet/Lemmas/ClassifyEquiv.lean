/-
Renumbering the nodes (the C02 clause for the classifiers of C13): for a permutation `π` of the nodes, the graph
stored with its rows and columns renumbered (entries of a row in any order) and the seeds renumbered give the
renumbered labels and probability rows, for the rank-based classifier and for DiffusionClassifier.
-/
import SkNet.Lemmas.ClassifyStrong
import SkNet.Lemmas.WLEquiv

namespace SkNet.Classify
open SkNet.WL (IsPerm)

attribute [-simp] List.getD_eq_getElem?_getD

/-- values of the renumbered nodes: node `π i` carries what node `i` carried -/
def relabelVals (n : Nat) (πinv : Nat → Nat) (l : List Int) : List Int := tab n fun i => l.getD (πinv i) (-1)

/-- rows of a dense matrix (one per node) after renumbering -/
def relabelRows (n : Nat) (πinv : Nat → Nat) (m : List (List Rat)) : List (List Rat) :=
  tab n fun i => getRow m (πinv i)

/-- `c'` stores the graph of `c` with node `i` renumbered `π i`; the entries of a row may be stored in any order -/
structure RelabelOf (n : Nat) (π : Nat → Nat) (c c' : Csr Rat) : Prop where
  rows : ∀ i, i < n → (c'.row (π i)).Perm ((c.row i).map fun e => (π e.1, e.2))
  cols : ∀ i, i < n → ∀ e ∈ c.row i, e.1 < n

theorem relabelVals_getD {n : Nat} {π πinv : Nat → Nat} (hp : IsPerm n π πinv) (l : List Int) (i : Nat)
    (hi : i < n) : (relabelVals n πinv l).getD (π i) (-1) = l.getD i (-1) := by
  unfold relabelVals
  rw [tab_getD, if_pos (hp.lt i hi), hp.left i hi]

theorem tab_getD_self (l : List Int) : tab l.length (fun i => l.getD i (-1)) = l := by
  apply List.ext_getElem?
  intro i
  rw [tab_getElem?]
  by_cases h : i < l.length
  · rw [if_pos h, List.getD_eq_getElem?_getD, List.getElem?_eq_getElem h]
    rfl
  · rw [if_neg h, List.getElem?_eq_none (by omega)]

theorem relabelVals_perm {n : Nat} {π πinv : Nat → Nat} (hp : IsPerm n π πinv) (l : List Int) (hl : l.length = n) :
    (relabelVals n πinv l).Perm l := by
  have h := WL.tab_perm_of_perm hp (fun i => l.getD i (-1)) (fun i => l.getD (πinv i) (-1))
    (fun u hu => by rw [hp.left u hu])
  have h2 := tab_getD_self l
  rw [hl] at h2
  rw [h2] at h
  exact h

/-- two strictly increasing lists with the same elements are equal -/
theorem sorted_ext : ∀ (l₁ l₂ : List Int), l₁.Pairwise (· < ·) → l₂.Pairwise (· < ·) →
    (∀ x, x ∈ l₁ ↔ x ∈ l₂) → l₁ = l₂
  | [], [], _, _, _ => rfl
  | [], b :: _, _, _, h => absurd ((h b).mpr (List.mem_cons_self ..)) (by simp)
  | a :: _, [], _, _, h => absurd ((h a).mp (List.mem_cons_self ..)) (by simp)
  | a :: l₁, b :: l₂, h₁, h₂, h => by
    have p₁ := List.pairwise_cons.mp h₁
    have p₂ := List.pairwise_cons.mp h₂
    have hab : a = b := by
      have ha : a ∈ b :: l₂ := (h a).mp (List.mem_cons_self ..)
      have hb : b ∈ a :: l₁ := (h b).mpr (List.mem_cons_self ..)
      rcases List.mem_cons.mp ha with h1 | h1
      · exact h1
      · rcases List.mem_cons.mp hb with h2 | h2
        · exact h2.symm
        · have := p₂.1 a h1
          have := p₁.1 b h2
          omega
    subst hab
    congr 1
    apply sorted_ext l₁ l₂ p₁.2 p₂.2
    intro x
    constructor
    · intro hx
      have := (h x).mp (List.mem_cons_of_mem _ hx)
      rcases List.mem_cons.mp this with h1 | h1
      · have := p₁.1 x hx
        omega
      · exact h1
    · intro hx
      have := (h x).mpr (List.mem_cons_of_mem _ hx)
      rcases List.mem_cons.mp this with h1 | h1
      · have := p₂.1 x hx
        omega
      · exact h1

theorem uniqueLabels_perm {l₁ l₂ : List Int} (h : l₁.Perm l₂) : uniqueLabels l₁ = uniqueLabels l₂ := by
  apply sorted_ext _ _ (uniqueLabels_sorted l₁) (uniqueLabels_sorted l₂)
  intro x
  rw [mem_uniqueLabels, mem_uniqueLabels, h.mem_iff]

theorem foldl_max_perm {l₁ l₂ : List Int} (h : l₁.Perm l₂) (m : Int) : l₁.foldl max m = l₂.foldl max m := by
  induction h generalizing m with
  | nil => rfl
  | cons x _ ih => simp only [List.foldl_cons]; exact ih _
  | swap x y l =>
    simp only [List.foldl_cons]
    congr 1
    omega
  | trans _ _ ih1 ih2 => rw [ih1, ih2]

theorem rsum_perm {l₁ l₂ : List Rat} (h : l₁.Perm l₂) : rsum l₁ = rsum l₂ := by
  induction h with
  | nil => rfl
  | cons x _ ih => simp only [rsum_cons, ih]
  | swap x y l => simp only [rsum_cons]; ring
  | trans _ _ ih1 ih2 => rw [ih1, ih2]

/-! ### the rank-based classifier -/
namespace Rank

/-- ★ renumbering the nodes renumbers `labels_` and the rows of `probs_` of a rank-based classifier (the scores of
    the renumbered graph being the renumbered scores: C04's equivariance of the ranking) -/
theorem relabel_equivariant {n : Nat} {π πinv : Nat → Nat} (hp : IsPerm n π πinv) (values : List Int)
    (scores : List (List Rat)) (hv : values.length = n) (hs : scores.length = n) (o : Out)
    (h : fitCore values scores = .ok o) :
    ∃ o', fitCore (relabelVals n πinv values) (relabelRows n πinv scores) = .ok o' ∧
      ∀ i, i < n → o'.labels.getD (π i) (-1) = o.labels.getD i (-1) ∧ getRow o'.probs (π i) = getRow o.probs i := by
  have hperm := relabelVals_perm hp values hv
  have hu : uniqueLabels (relabelVals n πinv values) = uniqueLabels values := uniqueLabels_perm hperm
  have hm : (relabelVals n πinv values).foldl max 0 = values.foldl max 0 := foldl_max_perm hperm 0
  have hparts := fit_parts values scores o h
  have hfit : fitCore (relabelVals n πinv values) (relabelRows n πinv scores) =
      .ok ⟨((relabelRows n πinv scores).map normalizeRow).map fun r => (uniqueLabels values).getD (argmax r) (-1),
           ((relabelRows n πinv scores).map normalizeRow).map (movedRow values)⟩ := by
    unfold fitCore
    rw [hu, hm]
    have : ¬ ((uniqueLabels values).length < 2) := by have := hparts.classes; omega
    simp only [this, if_false]
    rfl
  refine ⟨_, hfit, ?_⟩
  intro i hi
  have hrow : getRow (relabelRows n πinv scores) (π i) = getRow scores i := by
    unfold relabelRows
    rw [getRow_tab, if_pos (hp.lt i hi), hp.left i hi]
  have hgen : ∀ {β : Type} (f : List Rat → β) (d : β) (m : List (List Rat)) (j : Nat) (hj : j < m.length),
      (m.map f).getD j d = f (getRow m j) := by
    intro β f d m j hj
    unfold getRow
    rw [List.getD_eq_getElem?_getD, List.getElem?_map, List.getElem?_eq_getElem hj,
      List.getD_eq_getElem?_getD, List.getElem?_eq_getElem hj]
    rfl
  have hlen' : π i < (relabelRows n πinv scores).length := by
    unfold relabelRows
    simp
    exact hp.lt i hi
  have hsi : i < scores.length := by rw [hs]; exact hi
  constructor
  · simp only
    rw [List.map_map, hgen _ _ _ _ hlen', hparts.labels_eq, List.map_map, hgen _ _ _ _ hsi]
    simp only [Function.comp, hrow]
  · simp only
    unfold getRow
    rw [List.map_map, hgen _ _ _ _ hlen', probs_eq_moved values scores o h, List.map_map, hgen _ _ _ _ hsi]
    simp only [Function.comp, hrow]

end Rank
/-! ### DiffusionClassifier -/
namespace Diffusion

variable {n : Nat} {π πinv : Nat → Nat}

/-- the rows of the nodes agree after renumbering -/
def RowsEq (n : Nat) (π : Nat → Nat) (t t' : List (List Rat)) : Prop := ∀ i, i < n → getRow t' (π i) = getRow t i

theorem relabelVals_length (l : List Int) : (relabelVals n πinv l).length = n := by
  unfold relabelVals
  simp

theorem diffRow_fst (c : Csr Rat) (i : Nat) : ∀ e ∈ diffRow c i, ∃ e0 ∈ c.row i, e.1 = e0.1 := by
  intro e he
  unfold diffRow at he
  simp only at he
  split at he
  · exact ⟨e, he, rfl⟩
  · obtain ⟨e0, he0, rfl⟩ := List.mem_map.mp he
    exact ⟨e0, he0, rfl⟩

theorem diffRow_relabel (c c' : Csr Rat) (hrel : RelabelOf n π c c') (i : Nat) (hi : i < n) :
    (diffRow c' (π i)).Perm ((diffRow c i).map fun e => (π e.1, e.2)) := by
  have hr := hrel.rows i hi
  have hs : rsum ((c'.row (π i)).map fun e => rabs e.2) = rsum ((c.row i).map fun e => rabs e.2) := by
    rw [rsum_perm (hr.map fun e => rabs e.2), List.map_map]
    rfl
  unfold diffRow
  simp only
  rw [hs]
  split
  · exact hr
  · have := hr.map fun (e : Nat × Rat) => (e.1, e.2 / rsum ((c.row i).map fun e => rabs e.2))
    rw [List.map_map] at this
    rw [List.map_map]
    exact this

theorem rowsEq_init (hp : IsPerm n π πinv) (labels : List Int) (hl : labels.length = n) (uniq : List Int) :
    RowsEq n π (initTemps labels uniq) (initTemps (relabelVals n πinv labels) uniq) := by
  intro i hi
  unfold initTemps
  rw [getRow_tab, getRow_tab, relabelVals_length, hl, if_pos hi, if_pos (hp.lt i hi),
    relabelVals_getD hp labels i hi]

theorem rowsEq_step (hp : IsPerm n π πinv) (c c' : Csr Rat) (hrel : RelabelOf n π c c') (labels : List Int)
    (hl : labels.length = n) (st st' : List (List Rat)) (k : Nat) (t t' : List (List Rat))
    (hst : RowsEq n π st st') (ht : RowsEq n π t t') :
    RowsEq n π (step c labels st k t) (step c' (relabelVals n πinv labels) st' k t') := by
  intro i hi
  unfold step
  rw [getRow_tab, getRow_tab, relabelVals_length, hl, if_pos hi, if_pos (hp.lt i hi),
    relabelVals_getD hp labels i hi]
  split
  · exact hst i hi
  · unfold tab
    apply List.map_congr_left
    intro q _
    have hperm := (diffRow_relabel c c' hrel i hi).map fun e => e.2 * getCell t' e.1 q
    rw [rsum_perm hperm, List.map_map]
    congr 1
    apply List.map_congr_left
    intro e he
    obtain ⟨e0, he0, h1⟩ := diffRow_fst c i e he
    have hlt : e.1 < n := by rw [h1]; exact hrel.cols i hi e0 he0
    simp only [Function.comp]
    rw [getCell_eq_getRow, getCell_eq_getRow, ht e.1 hlt]

theorem rowsEq_iterate (hp : IsPerm n π πinv) (c c' : Csr Rat) (hrel : RelabelOf n π c c') (labels : List Int)
    (hl : labels.length = n) (st st' : List (List Rat)) (k m : Nat) (t t' : List (List Rat))
    (hst : RowsEq n π st st') (ht : RowsEq n π t t') :
    RowsEq n π (iterate c labels st k m t) (iterate c' (relabelVals n πinv labels) st' k m t') := by
  induction m generalizing t t' with
  | zero => exact ht
  | succ m ih => exact ih _ _ (rowsEq_step hp c c' hrel labels hl st st' k t t' hst ht)

theorem rowsEq_center (hp : IsPerm n π πinv) (k : Nat) (t t' : List (List Rat)) (ht : RowsEq n π t t') :
    RowsEq n π (center n k t) (center n k t') := by
  intro i hi
  have hmean : ∀ q, rsum (tab n fun j => getCell t' j q) = rsum (tab n fun j => getCell t j q) := by
    intro q
    apply rsum_perm
    apply WL.tab_perm_of_perm hp (fun j => getCell t j q) (fun j => getCell t' j q)
    intro u hu
    show getCell t' (π u) q = getCell t u q
    rw [getCell_eq_getRow, getCell_eq_getRow, ht u hu]
  apply List.ext_getElem?
  intro q
  have hc1 := getCell_center n k t' (π i) q
  have hc2 := getCell_center n k t i q
  have hl1 : (getRow (center n k t') (π i)).length = k := rowLen_center n k t' (π i) (hp.lt i hi)
  have hl2 : (getRow (center n k t) i).length = k := rowLen_center n k t i hi
  by_cases hq : q < k
  · rw [List.getElem?_eq_getElem (by rw [hl1]; exact hq), List.getElem?_eq_getElem (by rw [hl2]; exact hq)]
    congr 1
    rw [getElem_getRow _ _ _ (by rw [hl1]; exact hq), getElem_getRow _ _ _ (by rw [hl2]; exact hq), hc1, hc2]
    simp only [hi, hp.lt i hi, hq, if_true]
    rw [hmean q, getCell_eq_getRow, getCell_eq_getRow, ht i hi]
  · rw [List.getElem?_eq_none (by rw [hl1]; omega), List.getElem?_eq_none (by rw [hl2]; omega)]

/-! #### reachability -/

theorem hasEdge_relabel (hp : IsPerm n π πinv) (c c' : Csr Rat) (hrel : RelabelOf n π c c') (a b : Nat)
    (ha : a < n) (hb : b < n) : hasEdge c' (π a) (π b) = hasEdge c a b := by
  unfold hasEdge
  rw [Bool.eq_iff_iff]
  simp only [List.any_eq_true, Bool.and_eq_true, beq_iff_eq, bne_iff_ne, ne_eq]
  constructor
  · rintro ⟨e, he, h1, h2⟩
    have := (hrel.rows a ha).subset he
    obtain ⟨e0, he0, rfl⟩ := List.mem_map.mp this
    refine ⟨e0, he0, ?_, h2⟩
    simp only at h1
    have hlt := hrel.cols a ha e0 he0
    rw [← hp.left e0.1 hlt, h1, hp.left b hb]
  · rintro ⟨e0, he0, h1, h2⟩
    refine ⟨(π e0.1, e0.2), (hrel.rows a ha).symm.subset (List.mem_map.mpr ⟨e0, he0, rfl⟩), ?_, h2⟩
    simp only
    rw [h1]

theorem reach_relabel (hp : IsPerm n π πinv) (edge edge' : Nat → Nat → Bool) (src src' : Nat → Bool)
    (he : ∀ a b, a < n → b < n → edge' (π a) (π b) = edge a b) (hs : ∀ a, a < n → src' (π a) = src a) (v : Nat)
    (h : Spec.Reach n edge src v) : Spec.Reach n edge' src' (π v) := by
  induction h with
  | base hv hsv => exact Spec.Reach.base (hp.lt _ hv) (by rw [hs _ hv]; exact hsv)
  | step hu hedge hv ih =>
    exact Spec.Reach.step ih (by rw [he _ _ (reach_lt hu) hv]; exact hedge) (hp.lt _ hv)

theorem isPerm_symm (hp : IsPerm n π πinv) : IsPerm n πinv π :=
  ⟨hp.lt_inv, hp.lt, hp.right, hp.left⟩

theorem reached_relabel (hp : IsPerm n π πinv) (edge edge' : Nat → Nat → Bool) (src src' : Nat → Bool)
    (he : ∀ a b, a < n → b < n → edge' (π a) (π b) = edge a b) (hs : ∀ a, a < n → src' (π a) = src a) (v : Nat)
    (hv : v < n) : (reached n edge' src').getD (π v) false = (reached n edge src).getD v false := by
  rw [Bool.eq_iff_iff, reached_iff, reached_iff]
  constructor
  · intro h
    have := reach_relabel (isPerm_symm hp) edge' edge src' src
      (fun a b ha hb => by
        have := he (πinv a) (πinv b) (hp.lt_inv a ha) (hp.lt_inv b hb)
        rw [hp.right a ha, hp.right b hb] at this
        exact this.symm)
      (fun a ha => by
        have := hs (πinv a) (hp.lt_inv a ha)
        rw [hp.right a ha] at this
        exact this.symm) (π v) h
    rw [hp.left v hv] at this
    exact this
  · exact reach_relabel hp edge edge' src src' he hs v

/-- ★ renumbering the nodes renumbers the result of `DiffusionClassifier.fit`: labels, temperatures (hence both
    forms of `probs_`) and the set of reached nodes -/
theorem relabel_equivariant (hp : IsPerm n π πinv) (c c' : Csr Rat) (hrel : RelabelOf n π c c')
    (labels : List Int) (hl : labels.length = n) (nIter : Nat) (centering : Bool) (o : Out)
    (h : fit c labels nIter centering = .ok o) :
    ∃ o', fit c' (relabelVals n πinv labels) nIter centering = .ok o' ∧ o'.labels.length = n ∧
      ∀ i, i < n → o'.labels.getD (π i) (-1) = o.labels.getD i (-1) ∧
        getRow o'.temps (π i) = getRow o.temps i ∧ o'.reached.getD (π i) false = o.reached.getD i false := by
  have hparts := fit_parts c labels nIter centering o h
  have hperm := relabelVals_perm hp labels hl
  have hu : uniqueLabels (relabelVals n πinv labels) = uniqueLabels labels := uniqueLabels_perm hperm
  have hsome : ¬ ((relabelVals n πinv labels).all (· < 0) = true) := by
    intro hall
    apply hparts.some_seed
    rw [List.all_eq_true] at hall ⊢
    intro x hx
    exact hall x (hperm.symm.subset hx)
  -- the result on the renumbered input, by unfolding
  have hfit : ∃ o', fit c' (relabelVals n πinv labels) nIter centering = .ok o' := by
    unfold fit
    simp only [hsome, if_false]
    exact ⟨_, rfl⟩
  obtain ⟨o', ho'⟩ := hfit
  have hparts' := fit_parts c' (relabelVals n πinv labels) nIter centering o' ho'
  have hlen' : (relabelVals n πinv labels).length = n := relabelVals_length labels
  have htemps : RowsEq n π o.temps o'.temps := by
    rw [hparts.temps, hparts'.temps, hu, hlen', hl]
    have hit := rowsEq_iterate hp c c' hrel labels hl _ _ (uniqueLabels labels).length nIter _ _
      (rowsEq_init hp labels hl (uniqueLabels labels)) (rowsEq_init hp labels hl (uniqueLabels labels))
    cases centering with
    | false => simpa using hit
    | true =>
      simp only [if_true]
      exact rowsEq_center hp _ _ _ hit
  have hreach : ∀ i, i < n → o'.reached.getD (π i) false = o.reached.getD i false := by
    intro i hi
    rw [hparts.reach, hparts'.reach, hlen', hl]
    apply reached_relabel hp _ _ _ _ _ _ i hi
    · intro a b ha hb
      exact hasEdge_relabel hp c c' hrel a b ha hb
    · intro a ha
      rw [relabelVals_getD hp labels a ha]
  refine ⟨o', ho', by rw [labels_length c' _ nIter centering o' hparts', hlen'], ?_⟩
  intro i hi
  refine ⟨?_, htemps i hi, hreach i hi⟩
  rw [hparts'.labels_eq, hparts.labels_eq, hlen', hl, tab_getD, tab_getD, if_pos hi, if_pos (hp.lt i hi),
    hreach i hi, htemps i hi, hu]

end Diffusion

/-! ### Propagation: the probabilities are equivariant, the labels depend on the order of the sweep -/

theorem propagation_probsRow_relabel {n : Nat} {π πinv : Nat → Nat} (hp : IsPerm n π πinv) (c c' : Csr Rat)
    (hrel : RelabelOf n π c c') (labels : List Int) (hl : labels.length = n) (i : Nat) (hi : i < n) :
    Propagation.probsRow c' (relabelVals n πinv labels) (π i) = Propagation.probsRow c labels i := by
  have hperm := relabelVals_perm hp labels hl
  have hK : Vote.nLabels (relabelVals n πinv labels) = Vote.nLabels labels := by
    unfold Vote.nLabels
    -- nLabels is `max label + 1`, a fold of a right-commutative step
    have hcomm : ∀ (m : Nat) (a b : Int), Vote.nLabelsStep (Vote.nLabelsStep m a) b =
        Vote.nLabelsStep (Vote.nLabelsStep m b) a := by
      intro m a b
      unfold Vote.nLabelsStep
      split_ifs <;> omega
    have : ∀ {l₁ l₂ : List Int}, l₁.Perm l₂ → ∀ m, l₁.foldl Vote.nLabelsStep m = l₂.foldl Vote.nLabelsStep m := by
      intro l₁ l₂ hpm
      induction hpm with
      | nil => intro m; rfl
      | cons x _ ih => intro m; simp only [List.foldl_cons]; exact ih _
      | swap x y l => intro m; simp only [List.foldl_cons]; rw [hcomm]
      | trans _ _ ih1 ih2 => intro m; rw [ih1, ih2]
    exact this hperm 0
  unfold Propagation.probsRow
  rw [hK]
  congr 1
  unfold tab
  apply List.map_congr_left
  intro l _
  have hr := hrel.rows i hi
  have h1 := (hr.filter fun e => (relabelVals n πinv labels).getD e.1 (-1) == (l : Int)).map (·.2)
  rw [rsum_perm h1, List.filter_map, List.map_map]
  congr 1
  have hf : ∀ e ∈ c.row i, (((fun e => (relabelVals n πinv labels).getD e.1 (-1) == (l : Int)) ∘
      fun e => (π e.1, e.2)) e) = (labels.getD e.1 (-1) == (l : Int)) := by
    intro e he
    simp only [Function.comp]
    rw [relabelVals_getD hp labels e.1 (hrel.cols i hi e he)]
  rw [List.filter_congr hf]
  rfl

end SkNet.Classify
