/-
Closeness (`ranking/closeness.py`) equals `(n−1)/Σ_j d(i,j)` with `d` the hop distance of the walk-based specification:
the rows of distances come from `get_distances`, exact by C10 (`bfsLoop_correct`, `hopDist_spec`).
-/
import SkNet.Lemmas.RankKatz
import SkNet.Properties.C10

open Finset

namespace SkNet.Rank
open SkNet.RankSpec SkNet.Path

/-- an exact distance vector agrees with the executable hop distance of the specification -/
theorem exact_eq_hopDist {n : ℕ} {edge : ℕ → ℕ → Bool} {src : ℕ → Bool} {dist : List ℤ}
    (h : Exact n edge src dist) (v : ℕ) (hv : v < n) : dist.getD v (-1) = hopDist n edge src v := by
  rcases h.2 v hv with ⟨d, hd, hdist⟩ | ⟨hm, hun⟩
  · rw [hd, ((SkNet.C10.hopDist_spec n edge src v).1 d).mpr hdist]
  · rw [hm, (SkNet.C10.hopDist_spec n edge src v).2.mpr hun]

/-- the row of distances `get_distances(adjacency, source=s)` -/
theorem distances_row (n : ℕ) (edge : ℕ → ℕ → Bool) (s : ℕ) :
    ∃ dist, distancesFromMask n edge (tab n fun v => v == s) = some dist ∧ dist.length = n ∧
      ∀ v, v < n → dist.getD v (-1) = hopDist n edge (fun v => v == s) v := by
  obtain ⟨dist, hd, hex, _⟩ := SkNet.C10.bfs_exact n edge (tab n fun v => v == s)
  have hc : ∀ w, w < n → (fun v => (tab n fun v => v == s).getD v false) w = (fun v => v == s) w := by
    intro w hw
    show (tab n fun v => v == s).getD w false = (w == s)
    rw [tab_getD, if_pos hw]
  have hex' : Exact n edge (fun v => v == s) dist := Exact.congr hc hex
  exact ⟨dist, hd, hex'.1, fun v hv => exact_eq_hopDist hex' v hv⟩

theorem mapM_some {α β : Type} (f : α → Option β) (g : α → β) (l : List α) (h : ∀ x ∈ l, f x = some (g x)) :
    l.mapM f = some (l.map g) := by
  induction l with
  | nil => rfl
  | cons a t ih =>
    rw [List.mapM_cons, h a (by simp), ih fun x hx => h x (by simp [hx])]
    rfl

theorem int_sum_getD (l : List ℤ) : l.foldl (· + ·) 0 = ∑ j ∈ range l.length, l.getD j (-1) := by
  have hf : ∀ (l : List ℤ) (b : ℤ), l.foldl (· + ·) b = b + l.sum := by
    intro l
    induction l with
    | nil => intro b; simp
    | cons a t ih => intro b; rw [List.foldl_cons, ih, List.sum_cons]; ring
  rw [hf, zero_add]
  induction l with
  | nil => simp
  | cons a t ih =>
    rw [List.sum_cons, List.length_cons, sum_range_succ', ih]
    simp [add_comm]

/-- ★ `closeness_eq_def` (with the distances): `Closeness(method='exact')` returns `(n−1)/Σ_j d(i,j)` for the hop distance
    `d` of the specification, `0` when some node is unreachable from `i`; the distance loop never runs out of fuel -/
theorem closeness_eq_spec (n : ℕ) (hn : 0 < n) (edge : ℕ → ℕ → Bool) :
    ∃ sc : List ℚ, closeness n edge = some sc ∧ ∀ i, i < n → sc.getD i 0 = closenessSpec n edge i := by
  -- the rows
  have hrow := fun s => distances_row n edge s
  choose dist hdist hlen hval using hrow
  have hm : (List.range n).mapM (fun s => distancesFromMask n edge (tab n fun v => v == s))
      = some ((List.range n).map dist) := mapM_some _ dist _ fun s _ => hdist s
  refine ⟨closenessOf n ((List.range n).map dist), by unfold closeness; rw [hm]; rfl, fun i hi => ?_⟩
  rw [closenessOf_eq n hn _ i hi]
  have hgi : ((List.range n).map dist).getD i [] = dist i := by
    rw [List.getD_eq_getElem?_getD, List.getElem?_map, List.getElem?_range hi]; rfl
  rw [hgi]
  unfold closenessSpec
  simp only
  have hany : (dist i).any (· < 0) = (List.range n).any fun j => decide (hopDist n edge (fun v => v == i) j < 0) := by
    rw [Bool.eq_iff_iff]
    simp only [List.any_eq_true, List.mem_range, decide_eq_true_eq]
    constructor
    · rintro ⟨x, hx, hneg⟩
      obtain ⟨j, hj, rfl⟩ := List.getElem_of_mem hx
      have hjn : j < n := by rw [← hlen i]; exact hj
      refine ⟨j, hjn, ?_⟩
      rw [← hval i j hjn, List.getD_eq_getElem?_getD, List.getElem?_eq_getElem hj]
      exact hneg
    · rintro ⟨j, hjn, hneg⟩
      have hj : j < (dist i).length := by rw [hlen i]; exact hjn
      refine ⟨(dist i)[j], List.getElem_mem hj, ?_⟩
      rw [← hval i j hjn, List.getD_eq_getElem?_getD, List.getElem?_eq_getElem hj] at hneg
      exact hneg
  rw [hany]
  split
  · rfl
  · congr 1
    rw [int_sum_getD, hlen i, map_range_sum]
    push_cast
    exact sum_congr rfl fun j hj => by rw [hval i j (mem_range.mp hj)]

end SkNet.Rank
