/-
Existence and non-negativity of the PageRank vector (C04): for a row-substochastic `P`, `0 ≤ a < 1` and a
restart distribution `y`, the system `x − a Pᵀ x = y` has a solution (`I − a Pᵀ` is injective on a
finite-dimensional space, hence surjective), the solution is non-negative (M-matrix argument) with sum `≥ 1`,
and its normalisation is a PageRank vector.
-/
import SkNet.Lemmas.RankPR
import Mathlib.LinearAlgebra.FiniteDimensional.Basic

open Finset

namespace SkNet.RankL1

/-- a vector on `Fin n` read as a function on `ℕ` (zero outside) -/
def ext {n : ℕ} (z : Fin n → ℚ) (i : ℕ) : ℚ := if h : i < n then z ⟨i, h⟩ else 0

theorem ext_fin {n : ℕ} (z : Fin n → ℚ) (i : Fin n) : ext z i = z i := by
  unfold ext; simp

theorem PT_ext {n : ℕ} (P : ℕ → ℕ → ℚ) (z : Fin n → ℚ) (i : ℕ) :
    PT n P (ext z) i = ∑ j : Fin n, P j i * z j := by
  unfold PT
  rw [sum_range]
  exact sum_congr rfl fun j _ => by rw [ext_fin]

/-- `z ↦ z − a Pᵀ z` on `Fin n → ℚ` -/
def resolventMap (n : ℕ) (P : ℕ → ℕ → ℚ) (a : ℚ) : (Fin n → ℚ) →ₗ[ℚ] (Fin n → ℚ) where
  toFun z := fun i => z i - a * ∑ j : Fin n, P j i * z j
  map_add' := by
    intro z z'; funext i
    simp only [Pi.add_apply, mul_add, sum_add_distrib]; ring
  map_smul' := by
    intro c z; funext i
    simp only [Pi.smul_apply, smul_eq_mul, RingHom.id_apply]
    have : ∑ j : Fin n, P j i * (c * z j) = c * ∑ j : Fin n, P j i * z j := by
      rw [mul_sum]; exact sum_congr rfl fun j _ => by ring
    rw [this]; ring

theorem resolventMap_injective {n : ℕ} {P : ℕ → ℕ → ℚ} (hP : SubStoch n P) {a : ℚ} (ha : 0 ≤ a) (ha1 : a < 1) :
    Function.Injective (resolventMap n P a) := by
  rw [← LinearMap.ker_eq_bot, LinearMap.ker_eq_bot']
  intro z hz
  have h0 : ∀ i, i < n → ext z i - a * PT n P (ext z) i = (fun _ => (0 : ℚ)) i := by
    intro i hi
    have := congrFun hz ⟨i, hi⟩
    simp only [resolventMap, LinearMap.coe_mk, AddHom.coe_mk, Pi.zero_apply] at this
    rw [PT_ext]
    have e : ext z i = z ⟨i, hi⟩ := ext_fin z ⟨i, hi⟩
    rw [e]; exact this
  have hz0 : ∀ i, i < n → (fun _ => (0 : ℚ)) i - a * PT n P (fun _ => (0 : ℚ)) i = (fun _ => (0 : ℚ)) i := by
    intro i _; unfold PT; simp
  have := solution_unique hP ha ha1 (fun _ => 0) (ext z) (fun _ => 0) h0 hz0
  funext i
  rw [← ext_fin z i]
  exact this i i.2

/-- the system `x − a Pᵀ x = y` has a solution -/
theorem exists_solution {n : ℕ} {P : ℕ → ℕ → ℚ} (hP : SubStoch n P) {a : ℚ} (ha : 0 ≤ a) (ha1 : a < 1) (y : ℕ → ℚ) :
    ∃ x : ℕ → ℚ, ∀ i, i < n → x i - a * PT n P x i = y i := by
  have hsurj := LinearMap.injective_iff_surjective.mp (resolventMap_injective hP ha ha1)
  obtain ⟨z, hz⟩ := hsurj (fun i : Fin n => y i)
  refine ⟨ext z, fun i hi => ?_⟩
  have := congrFun hz ⟨i, hi⟩
  simp only [resolventMap, LinearMap.coe_mk, AddHom.coe_mk] at this
  rw [PT_ext, ext_fin z ⟨i, hi⟩]
  exact this

/-- M-matrix argument: the solution of `x − a Pᵀ x = y` with `y ≥ 0` is non-negative -/
theorem solution_nonneg {n : ℕ} {P : ℕ → ℕ → ℚ} (hP : SubStoch n P) {a : ℚ} (ha : 0 ≤ a) (ha1 : a < 1)
    {y x : ℕ → ℚ} (hy : ∀ i, i < n → 0 ≤ y i) (hx : ∀ i, i < n → x i - a * PT n P x i = y i) :
    ∀ i, i < n → 0 ≤ x i := by
  -- negative part
  set m : ℕ → ℚ := fun i => max (-x i) 0 with hm
  have hm0 : ∀ i, 0 ≤ m i := fun i => le_max_right _ _
  have hmx : ∀ i, -x i ≤ m i := fun i => le_max_left _ _
  have hPTm : ∀ i, 0 ≤ PT n P m i := fun i => PT_nonneg hP (fun j _ => hm0 j) i
  have hle : ∀ i, i < n → m i ≤ a * PT n P m i := by
    intro i hi
    by_cases hxi : 0 ≤ x i
    · have : m i = 0 := max_eq_right (by linarith)
      rw [this]; exact mul_nonneg ha (hPTm i)
    · have hneg : x i < 0 := not_le.mp hxi
      have : m i = -x i := max_eq_left (by linarith)
      rw [this]
      have e := hx i hi
      have hyi := hy i hi
      have hcmp : -PT n P x i ≤ PT n P m i := by
        unfold PT
        rw [← sum_neg_distrib]
        apply sum_le_sum; intro j _
        have := mul_le_mul_of_nonneg_left (hmx j) (hP.nonneg j i)
        linarith
      have := mul_le_mul_of_nonneg_left hcmp ha
      linarith
  have hsum : ∑ i ∈ range n, m i ≤ a * ∑ i ∈ range n, m i := by
    calc ∑ i ∈ range n, m i ≤ ∑ i ∈ range n, a * PT n P m i := sum_le_sum fun i hi => hle i (mem_range.mp hi)
      _ = a * ∑ i ∈ range n, PT n P m i := by rw [mul_sum]
      _ ≤ a * ∑ i ∈ range n, m i := mul_le_mul_of_nonneg_left (sum_PT_le hP fun j _ => hm0 j) ha
  have hs0 : ∑ i ∈ range n, m i ≤ 0 := by
    by_contra hc
    have hpos := not_le.mp hc
    have : (1 - a) * ∑ i ∈ range n, m i ≤ 0 := by linarith
    have := mul_pos (by linarith : (0 : ℚ) < 1 - a) hpos
    linarith
  intro i hi
  have hz : ∑ i ∈ range n, m i = 0 := le_antisymm hs0 (sum_nonneg fun i _ => hm0 i)
  have := (sum_eq_zero_iff_of_nonneg fun i _ => hm0 i).mp hz i (mem_range.mpr hi)
  have := hmx i
  linarith

/-- ★ existence: for a row-substochastic `P`, `0 ≤ a < 1` and a restart distribution `y` there is a probability
    vector proportional to the solution of `x = a Pᵀ x + (1−a) y` -/
theorem exists_isPR {n : ℕ} {P : ℕ → ℕ → ℚ} (hP : SubStoch n P) {a : ℚ} (ha : 0 ≤ a) (ha1 : a < 1)
    {y : ℕ → ℚ} (hy0 : ∀ i, i < n → 0 ≤ y i) (hy1 : ∑ i ∈ range n, y i = 1) :
    ∃ π c, IsPR n P a y π c := by
  obtain ⟨x, hx⟩ := exists_solution hP ha ha1 y
  have hx0 := solution_nonneg hP ha ha1 hy0 hx
  have hge : ∀ i, i < n → y i ≤ x i := by
    intro i hi
    have := hx i hi
    have := mul_nonneg ha (PT_nonneg hP hx0 i)
    linarith
  set S := ∑ i ∈ range n, x i with hS
  have hS1 : 1 ≤ S := by
    rw [← hy1]; exact sum_le_sum fun i hi => hge i (mem_range.mp hi)
  have hSpos : 0 < S := by linarith
  refine ⟨fun i => x i / S, 1 / S, ?_, ?_, ?_⟩
  · intro i hi; exact div_nonneg (hx0 i hi) (le_of_lt hSpos)
  · rw [← sum_div, div_self (ne_of_gt hSpos)]
  · intro i hi
    have e : PT n P (fun j => x j / S) i = PT n P x i / S := by
      unfold PT; rw [sum_div]; exact sum_congr rfl fun j _ => by ring
    simp only [e]
    have := hx i hi
    field_simp
    linarith

end SkNet.RankL1
