/-
Power iteration with the (repaired) `RandomSurferOperator`:
  `surferStep_getD`   one `_matvec` is one step of the surfer chain: `a Qᵀ x + (1−a)·y·Σx`, where `Q` is the
                      transition matrix with the rows of the sinks replaced by `y`
  `stepF_contracts`   the step contracts the ℓ1 distance between vectors of equal sum by the factor `a`
  `piter_close`       `solver='piteration'` with `n_iter = K` and no early stop is within `2 a^K` of PageRank
-/
import SkNet.Lemmas.RankClose

open Finset

namespace SkNet.Rank
open SkNet.RankSpec SkNet.RankL1

/-- a node without out-weight -/
def isSink (g : Graph ℚ) (i : ℕ) : Prop := ¬ 0 < rowSum g i

instance (g : Graph ℚ) : DecidablePred (isSink g) := fun i => by unfold isSink; infer_instance

/-- transition matrix with the null rows of the sinks replaced by the restart distribution -/
def patched (g : Graph ℚ) (y : ℕ → ℚ) (i j : ℕ) : ℚ := if isSink g i then y j else trans g i j

/-- one step of the surfer chain on functions -/
def stepF (g : Graph ℚ) (a : ℚ) (y : ℕ → ℚ) (x : ℕ → ℚ) (i : ℕ) : ℚ :=
  a * PT g.n (patched g y) x i + (1 - a) * y i * ∑ j ∈ range g.n, x j

theorem trans_sink {g : Graph ℚ} (hg : g.Nonneg) {i : ℕ} (h : isSink g i) (j : ℕ) : trans g i j = 0 := by
  unfold trans
  rw [norm1_eq_rowSum hg]
  unfold isSink at h
  simp [h]

theorem outInd_eq {g : Graph ℚ} (hg : g.Nonneg) (i : ℕ) : outInd g i = if isSink g i then 0 else 1 := by
  unfold outInd isSink
  have h0 := rowSum_nonneg hg i
  have : ¬ rowSum g i < 0 := not_lt.mpr h0
  simp only [this, if_false]
  by_cases h : 0 < rowSum g i <;> simp [h]

theorem patched_subStoch {g : Graph ℚ} (hg : g.Nonneg) (hr : g.InRange) {y : ℕ → ℚ} (hy0 : ∀ i, 0 ≤ y i)
    (hy1 : ∑ i ∈ range g.n, y i = 1) : SubStoch g.n (patched g y) where
  nonneg := by
    intro i j; unfold patched
    split
    · exact hy0 j
    · exact trans_nonneg hg i j
  row_le := by
    intro i; unfold patched
    split
    · exact le_of_eq hy1
    · exact (trans_subStoch hg hr).row_le i

theorem patched_row_sum {g : Graph ℚ} (hg : g.Nonneg) (hr : g.InRange) {y : ℕ → ℚ}
    (hy1 : ∑ i ∈ range g.n, y i = 1) (i : ℕ) : ∑ j ∈ range g.n, patched g y i j = 1 := by
  unfold patched
  by_cases h : isSink g i
  · simp only [h, if_true]; exact hy1
  · simp only [h, if_false]
    rw [sum_trans hg hr]
    unfold isSink at h
    simp [not_not.mp h]

/-- `RandomSurferOperator._matvec` is one step of the surfer chain -/
theorem surferStep_getD {g : Graph ℚ} (hg : g.Nonneg) (a : ℚ) (y s : List ℚ) (i : ℕ) (hi : i < g.n) :
    (surferStep g a y s).getD i 0 = stepF g a (vec y) (vec s) i := by
  have hL : (surferStep g a y s).getD i 0
      = ∑ j ∈ range g.n, (a * (trans g j i * vec s j) + vec y i * (surferRestart g a j * vec s j)) := by
    unfold surferStep
    simp only [tab_getD, hi, if_true]
    rw [surferA_eq, map_range_sum]
    unfold PT
    rw [mul_sum, mul_sum, ← sum_add_distrib]
    rfl
  have hR : stepF g a (vec y) (vec s) i
      = ∑ j ∈ range g.n, (a * (patched g (vec y) j i * vec s j) + (1 - a) * vec y i * vec s j) := by
    unfold stepF PT
    rw [mul_sum, mul_sum, ← sum_add_distrib]
  rw [hL, hR]
  apply sum_congr rfl; intro j _
  unfold surferRestart patched
  rw [outInd_eq hg]
  by_cases h : isSink g j
  · simp only [h, if_true, trans_sink hg h]; ring
  · simp only [h, if_false]; ring

theorem surferStep_length (g : Graph ℚ) (a : ℚ) (y s : List ℚ) : (surferStep g a y s).length = g.n := by
  unfold surferStep; simp

/-- the step only reads the first `n` coordinates -/
theorem stepF_congr (g : Graph ℚ) (a : ℚ) (y x x' : ℕ → ℚ) (h : ∀ j, j < g.n → x j = x' j) (i : ℕ) :
    stepF g a y x i = stepF g a y x' i := by
  unfold stepF PT
  rw [sum_congr rfl fun j hj => by rw [h j (mem_range.mp hj)],
      sum_congr rfl (fun j hj => h j (mem_range.mp hj))]

theorem stepF_smul (g : Graph ℚ) (a : ℚ) (y x : ℕ → ℚ) (c : ℚ) (i : ℕ) :
    stepF g a y (fun j => c * x j) i = c * stepF g a y x i := by
  unfold stepF PT
  rw [← mul_sum]
  have : ∑ j ∈ range g.n, patched g y j i * (c * x j) = c * ∑ j ∈ range g.n, patched g y j i * x j := by
    rw [mul_sum]; apply sum_congr rfl; intro j _; ring
  rw [this]; ring

theorem stepF_sub (g : Graph ℚ) (a : ℚ) (y x z : ℕ → ℚ) (i : ℕ) :
    stepF g a y x i - stepF g a y z i
      = a * PT g.n (patched g y) (fun j => x j - z j) i + (1 - a) * y i * ∑ j ∈ range g.n, (x j - z j) := by
  unfold stepF
  rw [PT_sub, sum_sub_distrib]; ring

theorem sum_stepF {g : Graph ℚ} (hg : g.Nonneg) (hr : g.InRange) (a : ℚ) {y : ℕ → ℚ}
    (hy1 : ∑ i ∈ range g.n, y i = 1) (x : ℕ → ℚ) : ∑ i ∈ range g.n, stepF g a y x i = ∑ j ∈ range g.n, x j := by
  unfold stepF
  rw [sum_add_distrib, ← mul_sum, sum_PT, ← sum_mul, ← mul_sum, hy1]
  rw [sum_congr rfl fun j _ => by rw [patched_row_sum hg hr hy1 j, one_mul]]
  ring

/-- ★ the surfer step contracts the ℓ1 distance between two vectors of equal sum by the factor `a` -/
theorem stepF_contracts {g : Graph ℚ} (hg : g.Nonneg) (hr : g.InRange) {a : ℚ} (ha : 0 ≤ a) {y : ℕ → ℚ}
    (hy0 : ∀ i, 0 ≤ y i) (hy1 : ∑ i ∈ range g.n, y i = 1) (x z : ℕ → ℚ)
    (hs : ∑ j ∈ range g.n, x j = ∑ j ∈ range g.n, z j) :
    l1 g.n (fun i => stepF g a y x i - stepF g a y z i) ≤ a * l1 g.n (fun j => x j - z j) := by
  have h0 : ∑ j ∈ range g.n, (x j - z j) = 0 := by rw [sum_sub_distrib, hs, sub_self]
  have e : l1 g.n (fun i => stepF g a y x i - stepF g a y z i)
      = a * l1 g.n (PT g.n (patched g y) (fun j => x j - z j)) := by
    unfold l1
    rw [mul_sum]
    apply sum_congr rfl; intro i _
    show |stepF g a y x i - stepF g a y z i| = _
    rw [stepF_sub, h0, mul_zero, add_zero, abs_mul, abs_of_nonneg ha]
  rw [e]
  exact mul_le_mul_of_nonneg_left (l1_PT_le (patched_subStoch hg hr hy0 hy1) _) ha

/-- the PageRank vector is a fixed point of the step -/
theorem stepF_fixed {g : Graph ℚ} (hg : g.Nonneg) (hr : g.InRange) {a : ℚ} {y π : ℕ → ℚ} {c : ℚ}
    (hy1 : ∑ i ∈ range g.n, y i = 1) (hπ : IsPR g.n (trans g) a y π c) :
    ∀ i, i < g.n → stepF g a y π i = π i := by
  intro i hi
  have hst := (stationary_iff_isPR (P := trans g) (isSink g) (fun i h j => trans_sink hg h j)
    (fun i h => by
      rw [sum_trans hg hr]; unfold isSink at h; simp [not_not.mp h])
    hπ.nonneg hπ.sum_one hy1).mpr ⟨c, hπ⟩ i hi
  rw [hst]
  unfold stepF PT
  rw [hπ.sum_one, mul_one, mul_sum]
  have hy' : (1 - a) * y i = ∑ j ∈ range g.n, π j * ((1 - a) * y i) := by rw [← sum_mul, hπ.sum_one, one_mul]
  rw [hy', ← sum_add_distrib]
  apply sum_congr rfl; intro j _
  unfold surfer patched
  by_cases h : isSink g j
  · simp only [h, if_true]; ring
  · simp only [h, if_false]; ring

/-! ### the loop -/

/-- the list `s` stands for `σ · x` on the first `n` coordinates -/
structure Rep (n : ℕ) (s : List ℚ) (σ : ℚ) (x : ℕ → ℚ) : Prop where
  len : s.length = n
  pos : 0 < σ
  eq : ∀ i, i < n → s.getD i 0 = σ * x i
  sum_one : ∑ i ∈ range n, x i = 1

theorem Rep.normalize {n : ℕ} {s : List ℚ} {σ : ℚ} {x : ℕ → ℚ} (h : Rep n s σ x) :
    ∀ i, i < n → (normalizeV n s).getD i 0 = x i := by
  intro i hi
  rw [normalizeV_getD, if_pos hi, list_sum_eq, h.len, sum_congr rfl fun j hj => h.eq j (mem_range.mp hj),
      ← mul_sum, h.sum_one, mul_one, h.eq i hi]
  have := ne_of_gt h.pos
  field_simp

/-- one round of the loop: from `σ·x` to exactly `step x` -/
theorem Rep.round {g : Graph ℚ} (hg : g.Nonneg) (hr : g.InRange) (a : ℚ) (y : List ℚ)
    (hy1 : ∑ i ∈ range g.n, vec y i = 1) {s : List ℚ} {σ : ℚ} {x : ℕ → ℚ} (h : Rep g.n s σ x) :
    Rep g.n (normalizeV g.n (surferStep g a y s)) 1 (stepF g a (vec y) x) := by
  have hstep : ∀ i, i < g.n → (surferStep g a y s).getD i 0 = σ * stepF g a (vec y) x i := by
    intro i hi
    rw [surferStep_getD hg a y s i hi, ← stepF_smul]
    exact stepF_congr g a (vec y) _ _ (fun j hj => h.eq j hj) i
  have hrep : Rep g.n (surferStep g a y s) σ (stepF g a (vec y) x) :=
    ⟨surferStep_length g a y s, h.pos, hstep, by rw [sum_stepF hg hr a hy1, h.sum_one]⟩
  exact ⟨normalizeV_length _ _, one_pos, fun i hi => by rw [hrep.normalize i hi, one_mul],
    by rw [sum_stepF hg hr a hy1, h.sum_one]⟩

theorem l1dist_nonneg (n : ℕ) (x y : List ℚ) : 0 ≤ l1dist n x y := by
  rw [l1dist_eq]; exact sum_nonneg fun _ _ => abs_nonneg _

/-- without early stop the loop performs `K` exact steps of the chain (up to a positive scale) -/
theorem piterLoop_rep {g : Graph ℚ} (hg : g.Nonneg) (hr : g.InRange) (a : ℚ) (y : List ℚ)
    (hy1 : ∑ i ∈ range g.n, vec y i = 1) {tol : ℚ} (htol : tol ≤ 0) (K : ℕ) {s : List ℚ} {σ : ℚ} {x : ℕ → ℚ}
    (h : Rep g.n s σ x) :
    ∃ σ', Rep g.n (piterLoop g.n (surferStep g a y) tol K s) σ' ((stepF g a (vec y))^[K] x) := by
  induction K generalizing s σ x with
  | zero => exact ⟨σ, h⟩
  | succ k ih =>
    unfold piterLoop
    simp only
    have hno : ¬ l1dist g.n s (normalizeV g.n (surferStep g a y s)) < tol :=
      not_lt.mpr (htol.trans (l1dist_nonneg _ _ _))
    rw [if_neg hno, Function.iterate_succ_apply]
    exact ih (h.round hg hr a y hy1)

/-- ★ `piter_error` : with `n_iter = K` and no early stop (`tol ≤ 0`) the output of `solver='piteration'` is within
    `2 a^K` (ℓ1) of the PageRank vector -/
theorem piter_close {g : Graph ℚ} (hg : g.Nonneg) (hr : g.InRange) {a : ℚ} (ha : 0 ≤ a) (ha1 : a < 1)
    (y : List ℚ) (hy0 : ∀ i, 0 ≤ vec y i) (hy1 : ∑ i ∈ range g.n, vec y i = 1)
    {π : ℕ → ℚ} {c : ℚ} (hπ : IsPR g.n (trans g) a (vec y) π c) {tol : ℚ} (htol : tol ≤ 0) (K : ℕ) :
    ∑ i ∈ range g.n, |(piteration g a y K tol).getD i 0 - π i| ≤ 2 * a ^ K := by
  -- the start vector b = (1−a)·y
  have hb : Rep g.n (surferB g a y) (1 - a) (vec y) :=
    ⟨by unfold surferB; simp, by linarith, fun i hi => by unfold surferB vec; rw [tab_getD, if_pos hi], hy1⟩
  obtain ⟨σ', hrep⟩ := piterLoop_rep hg hr a y hy1 htol K hb
  have hout : ∀ i, i < g.n → (piteration g a y K tol).getD i 0 = ((stepF g a (vec y))^[K] (vec y)) i :=
    fun i hi => hrep.normalize i hi
  rw [sum_congr rfl fun i hi => by rw [hout i (mem_range.mp hi)]]
  -- distance after K steps
  have hK : ∀ K : ℕ, (∑ j ∈ range g.n, ((stepF g a (vec y))^[K] (vec y)) j = 1) ∧
      l1 g.n (fun i => ((stepF g a (vec y))^[K] (vec y)) i - π i) ≤ a ^ K * l1 g.n (fun i => vec y i - π i) := by
    intro K
    induction K with
    | zero => exact ⟨hy1, by simp⟩
    | succ k ih =>
      rw [Function.iterate_succ_apply']
      refine ⟨by rw [sum_stepF hg hr a hy1, ih.1], ?_⟩
      have hc := stepF_contracts hg hr ha hy0 hy1 ((stepF g a (vec y))^[k] (vec y)) π (by rw [ih.1, hπ.sum_one])
      have e : l1 g.n (fun i => stepF g a (vec y) ((stepF g a (vec y))^[k] (vec y)) i - π i)
          = l1 g.n (fun i => stepF g a (vec y) ((stepF g a (vec y))^[k] (vec y)) i - stepF g a (vec y) π i) := by
        unfold l1
        apply sum_congr rfl; intro i hi
        show |_ - π i| = |_ - stepF g a (vec y) π i|
        rw [stepF_fixed hg hr hy1 hπ i (mem_range.mp hi)]
      rw [e, pow_succ]
      calc _ ≤ a * l1 g.n (fun j => ((stepF g a (vec y))^[k] (vec y)) j - π j) := hc
        _ ≤ a * (a ^ k * l1 g.n (fun i => vec y i - π i)) := mul_le_mul_of_nonneg_left ih.2 ha
        _ = a ^ k * a * l1 g.n (fun i => vec y i - π i) := by ring
  have h2 : l1 g.n (fun i => vec y i - π i) ≤ 2 := by
    unfold l1
    calc ∑ i ∈ range g.n, |vec y i - π i| ≤ ∑ i ∈ range g.n, (vec y i + π i) := by
          apply sum_le_sum; intro i hi
          have h1 := hy0 i
          have h2 := hπ.nonneg i (mem_range.mp hi)
          rw [abs_le]; constructor <;> linarith
      _ = 2 := by rw [sum_add_distrib, hy1, hπ.sum_one]; norm_num
  have hak : 0 ≤ a ^ K := pow_nonneg ha K
  calc ∑ i ∈ range g.n, |((stepF g a (vec y))^[K] (vec y)) i - π i|
      ≤ a ^ K * l1 g.n (fun i => vec y i - π i) := (hK K).2
    _ ≤ a ^ K * 2 := mul_le_mul_of_nonneg_left h2 hak
    _ = 2 * a ^ K := by ring

/-! ### the stopping test -/

theorem stepF_nonneg {g : Graph ℚ} (hg : g.Nonneg) (hr : g.InRange) {a : ℚ} (ha : 0 ≤ a) (ha1 : a ≤ 1) {y : ℕ → ℚ}
    (hy0 : ∀ i, 0 ≤ y i) (hy1 : ∑ i ∈ range g.n, y i = 1) {x : ℕ → ℚ} (hx : ∀ j, j < g.n → 0 ≤ x j) (i : ℕ) :
    0 ≤ stepF g a y x i := by
  unfold stepF
  have h1 := PT_nonneg (patched_subStoch hg hr hy0 hy1) hx i
  have h2 : 0 ≤ ∑ j ∈ range g.n, x j := sum_nonneg fun j hj => hx j (mem_range.mp hj)
  have h3 : 0 ≤ (1 - a) * y i * ∑ j ∈ range g.n, x j := mul_nonneg (mul_nonneg (by linarith) (hy0 i)) h2
  have := mul_nonneg ha h1
  linarith

/-- a probability vector that the step moves by less than `tol` is within `tol/(1−a)` of the PageRank vector -/
theorem close_of_small_move {g : Graph ℚ} (hg : g.Nonneg) (hr : g.InRange) {a : ℚ} (ha : 0 ≤ a) (ha1 : a < 1)
    {y : ℕ → ℚ} (hy0 : ∀ i, 0 ≤ y i) (hy1 : ∑ i ∈ range g.n, y i = 1) {π : ℕ → ℚ} {c : ℚ}
    (hπ : IsPR g.n (trans g) a y π c) {x : ℕ → ℚ} (hx1 : ∑ i ∈ range g.n, x i = 1) {tol : ℚ}
    (hmove : l1 g.n (fun i => x i - stepF g a y x i) ≤ tol) :
    l1 g.n (fun i => x i - π i) ≤ tol / (1 - a) := by
  have h1a : 0 < 1 - a := by linarith
  have hc := stepF_contracts hg hr ha hy0 hy1 x π (by rw [hx1, hπ.sum_one])
  have htri : l1 g.n (fun i => x i - π i)
      ≤ l1 g.n (fun i => x i - stepF g a y x i) + l1 g.n (fun i => stepF g a y x i - stepF g a y π i) := by
    unfold l1
    rw [← sum_add_distrib]
    apply sum_le_sum; intro i hi
    have e : x i - π i = (x i - stepF g a y x i) + (stepF g a y x i - stepF g a y π i) := by
      rw [stepF_fixed hg hr hy1 hπ i (mem_range.mp hi)]; ring
    show |x i - π i| ≤ |x i - stepF g a y x i| + |stepF g a y x i - stepF g a y π i|
    rw [e]; exact abs_add_le _ _
  rw [le_div_iff₀ h1a]
  nlinarith

/-- the first stopping test compares the *unnormalised* start vector `(1−a)·y` with the first iterate: their distance
    is exactly `a` -/
theorem first_move {g : Graph ℚ} (hg : g.Nonneg) (hr : g.InRange) {a : ℚ} (ha : 0 ≤ a) (_ha1 : a ≤ 1) {y : ℕ → ℚ}
    (hy0 : ∀ i, 0 ≤ y i) (hy1 : ∑ i ∈ range g.n, y i = 1) :
    ∑ i ∈ range g.n, |(1 - a) * y i - stepF g a y y i| = a := by
  have hge : ∀ i, (1 - a) * y i ≤ stepF g a y y i := by
    intro i
    unfold stepF
    rw [hy1, mul_one]
    have := mul_nonneg ha (PT_nonneg (patched_subStoch hg hr hy0 hy1) (fun j _ => hy0 j) i)
    linarith
  rw [sum_congr rfl fun i _ => by rw [abs_sub_comm, abs_of_nonneg (sub_nonneg.mpr (hge i))],
      sum_sub_distrib, sum_stepF hg hr a hy1, ← mul_sum, hy1]
  ring

/-- the restart distribution itself is within `2a` of the PageRank vector -/
theorem start_close {g : Graph ℚ} (hg : g.Nonneg) (hr : g.InRange) {a : ℚ} (ha : 0 ≤ a) (_ha1 : a ≤ 1) {y : ℕ → ℚ}
    (hy0 : ∀ i, 0 ≤ y i) (hy1 : ∑ i ∈ range g.n, y i = 1) {π : ℕ → ℚ} {c : ℚ}
    (hπ : IsPR g.n (trans g) a y π c) : l1 g.n (fun i => y i - π i) ≤ 2 * a := by
  -- π − y = a (Qᵀπ − y)
  have hQ := patched_subStoch hg hr hy0 hy1
  have e : ∀ i ∈ range g.n, |y i - π i| ≤ a * (PT g.n (patched g y) π i + y i) := by
    intro i hi
    have hfix := stepF_fixed hg hr hy1 hπ i (mem_range.mp hi)
    unfold stepF at hfix
    rw [hπ.sum_one, mul_one] at hfix
    have hpt := PT_nonneg hQ hπ.nonneg i
    have : y i - π i = a * (y i - PT g.n (patched g y) π i) := by linarith
    rw [this, abs_mul, abs_of_nonneg ha]
    apply mul_le_mul_of_nonneg_left _ ha
    rw [abs_le]; constructor <;> linarith [hy0 i]
  calc l1 g.n (fun i => y i - π i) ≤ ∑ i ∈ range g.n, a * (PT g.n (patched g y) π i + y i) := sum_le_sum e
    _ = a * (∑ i ∈ range g.n, PT g.n (patched g y) π i + 1) := by rw [← mul_sum, sum_add_distrib, hy1]
    _ ≤ a * (1 + 1) := by
        apply mul_le_mul_of_nonneg_left _ ha
        have := sum_PT_le hQ hπ.nonneg
        rw [hπ.sum_one] at this
        linarith
    _ = 2 * a := by ring

/-- the loop with the stopping test: the vector it returns is `K` exact steps from the start, or the step moved it by
    less than `tol` -/
theorem piterLoop_stop {g : Graph ℚ} (hg : g.Nonneg) (hr : g.InRange) {a : ℚ} (ha : 0 ≤ a) (ha1 : a < 1)
    (y : List ℚ) (hy0 : ∀ i, 0 ≤ vec y i) (hy1 : ∑ i ∈ range g.n, vec y i = 1)
    {π : ℕ → ℚ} {c : ℚ} (hπ : IsPR g.n (trans g) a (vec y) π c) (tol : ℚ) (K : ℕ) {s : List ℚ} {σ : ℚ} {x : ℕ → ℚ}
    (h : Rep g.n s σ x) (hσ : σ = 1 ∨ (σ = 1 - a ∧ ∀ i, i < g.n → x i = vec y i)) (E : ℚ)
    (hE : l1 g.n (fun i => x i - π i) ≤ E) :
    ∃ σ' X, Rep g.n (piterLoop g.n (surferStep g a y) tol K s) σ' X ∧
      (l1 g.n (fun i => X i - π i) ≤ a ^ K * E ∨ l1 g.n (fun i => X i - π i) ≤ 2 * tol / (1 - a)) := by
  have h1a : 0 < 1 - a := by linarith
  induction K generalizing s σ x E with
  | zero => exact ⟨σ, x, h, Or.inl (by simpa using hE)⟩
  | succ k ih =>
    unfold piterLoop
    simp only
    have hround := h.round hg hr a y hy1
    by_cases hstop : l1dist g.n s (normalizeV g.n (surferStep g a y s)) < tol
    · rw [if_pos hstop]
      refine ⟨σ, x, h, Or.inr ?_⟩
      have hd : l1dist g.n s (normalizeV g.n (surferStep g a y s))
          = ∑ i ∈ range g.n, |σ * x i - stepF g a (vec y) x i| := by
        rw [l1dist_eq]
        exact sum_congr rfl fun i hi => by
          rw [h.eq i (mem_range.mp hi), hround.eq i (mem_range.mp hi), one_mul]
      rw [hd] at hstop
      rcases hσ with h1 | ⟨h1, hxy⟩
      · -- a probability vector moved by less than tol
        subst h1
        have hmove : l1 g.n (fun i => x i - stepF g a (vec y) x i) ≤ tol := by
          unfold l1
          have : ∑ i ∈ range g.n, |x i - stepF g a (vec y) x i| = ∑ i ∈ range g.n, |1 * x i - stepF g a (vec y) x i| :=
            sum_congr rfl fun i _ => by rw [one_mul]
          rw [this]; exact le_of_lt hstop
        have := close_of_small_move hg hr ha ha1 hy0 hy1 hπ h.sum_one hmove
        have htol : 0 ≤ tol := le_trans (sum_nonneg fun _ _ => abs_nonneg _) (le_of_lt hstop)
        calc l1 g.n (fun i => x i - π i) ≤ tol / (1 - a) := this
          _ ≤ 2 * tol / (1 - a) := div_le_div_of_nonneg_right (by linarith) (le_of_lt h1a)
      · -- the first test: the start vector (1−a)·y against the first iterate; their distance is a
        subst h1
        have hfm := first_move hg hr ha (le_of_lt ha1) hy0 hy1
        have hxy' : ∑ i ∈ range g.n, |(1 - a) * x i - stepF g a (vec y) x i|
            = ∑ i ∈ range g.n, |(1 - a) * vec y i - stepF g a (vec y) (vec y) i| :=
          sum_congr rfl fun i hi => by
            rw [hxy i (mem_range.mp hi), stepF_congr g a (vec y) x (vec y) hxy i]
        rw [hxy', hfm] at hstop
        have hsc := start_close hg hr ha (le_of_lt ha1) hy0 hy1 hπ
        have hxl : l1 g.n (fun i => x i - π i) = l1 g.n (fun i => vec y i - π i) :=
          sum_congr rfl fun i hi => by show |x i - π i| = |vec y i - π i|; rw [hxy i (mem_range.mp hi)]
        rw [hxl]
        have h2 : 2 * a ≤ 2 * tol / (1 - a) := by
          rw [le_div_iff₀ h1a]
          nlinarith
        linarith
    · rw [if_neg hstop]
      have hc := stepF_contracts hg hr ha hy0 hy1 x π (by rw [h.sum_one, hπ.sum_one])
      have hE' : l1 g.n (fun i => stepF g a (vec y) x i - π i) ≤ a * E := by
        have e : l1 g.n (fun i => stepF g a (vec y) x i - π i)
            = l1 g.n (fun i => stepF g a (vec y) x i - stepF g a (vec y) π i) := by
          unfold l1
          apply sum_congr rfl; intro i hi
          show |_ - π i| = |_ - stepF g a (vec y) π i|
          rw [stepF_fixed hg hr hy1 hπ i (mem_range.mp hi)]
        rw [e]
        exact hc.trans (mul_le_mul_of_nonneg_left hE ha)
      obtain ⟨σ', X, hrep, hor⟩ := ih hround (Or.inl rfl) (a * E) hE'
      refine ⟨σ', X, hrep, ?_⟩
      rcases hor with h3 | h3
      · left; rw [pow_succ]; calc _ ≤ a ^ k * (a * E) := h3
          _ = a ^ k * a * E := by ring
      · right; exact h3

/-- ★ `piter_stop_error` : for every `n_iter = K` and every tolerance the output of `solver='piteration'` is within
    `max (2 a^K) (2·tol/(1−a))` (ℓ1) of the PageRank vector -/
theorem piter_close_tol {g : Graph ℚ} (hg : g.Nonneg) (hr : g.InRange) {a : ℚ} (ha : 0 ≤ a) (ha1 : a < 1)
    (y : List ℚ) (hy0 : ∀ i, 0 ≤ vec y i) (hy1 : ∑ i ∈ range g.n, vec y i = 1)
    {π : ℕ → ℚ} {c : ℚ} (hπ : IsPR g.n (trans g) a (vec y) π c) (tol : ℚ) (K : ℕ) :
    ∑ i ∈ range g.n, |(piteration g a y K tol).getD i 0 - π i| ≤ max (2 * a ^ K) (2 * tol / (1 - a)) := by
  have hb : Rep g.n (surferB g a y) (1 - a) (vec y) :=
    ⟨by unfold surferB; simp, by linarith, fun i hi => by unfold surferB vec; rw [tab_getD, if_pos hi], hy1⟩
  have h2 : l1 g.n (fun i => vec y i - π i) ≤ 2 := by
    unfold l1
    calc ∑ i ∈ range g.n, |vec y i - π i| ≤ ∑ i ∈ range g.n, (vec y i + π i) := by
          apply sum_le_sum; intro i hi
          have h1 := hy0 i
          have h2 := hπ.nonneg i (mem_range.mp hi)
          rw [abs_le]; constructor <;> linarith
      _ = 2 := by rw [sum_add_distrib, hy1, hπ.sum_one]; norm_num
  obtain ⟨σ', X, hrep, hor⟩ := piterLoop_stop hg hr ha ha1 y hy0 hy1 hπ tol K hb (Or.inr ⟨rfl, fun _ _ => rfl⟩) 2 h2
  have hout : ∀ i, i < g.n → (piteration g a y K tol).getD i 0 = X i := fun i hi => hrep.normalize i hi
  rw [sum_congr rfl fun i hi => by rw [hout i (mem_range.mp hi)]]
  rcases hor with h | h
  · refine le_max_of_le_left ?_
    have e : a ^ K * 2 = 2 * a ^ K := by ring
    rw [← e]; exact h
  · exact le_max_of_le_right h

end SkNet.Rank
