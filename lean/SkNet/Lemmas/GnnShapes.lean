/-
Shapes: a product is defined exactly when the inner dimensions agree, a normalisation exactly when the matrix is
square for `right` / `both`; the shapes of the results.
-/
import SkNet.Lemmas.GnnForward

namespace SkNet.Gnn
open SkNet Mat Finset

theorem matmul_cases (A B : Mat ℝ) :
    (A.c = B.r ∧ ∃ M, matmul A B = .ok M ∧ M.r = A.r ∧ M.c = B.c) ∨
      (A.c ≠ B.r ∧ matmul A B = .error .valueError) := by
  by_cases h : A.c = B.r
  · left
    refine ⟨h, mk' A.r B.c (fun i k => sumTo A.c fun j => A.get i j * B.get j k), ?_, rfl, rfl⟩
    unfold matmul
    rw [if_neg (not_not.mpr h)]
  · right
    exact ⟨h, matmul_dim_error A B h⟩

theorem pinvDiag_shape (w : List ℝ) : (pinvDiag w).r = w.length ∧ (pinvDiag w).c = w.length := ⟨rfl, rfl⟩

theorem rowSums_length (A : Mat ℝ) : (rowSums A).length = A.r := by
  unfold rowSums
  simp

theorem normalize_cases (norm : Norm) (A : Mat ℝ) :
    (((norm = .right ∨ norm = .both) → A.r = A.c) ∧ ∃ M, Gnn.normalize norm A = .ok M ∧ M.r = A.r ∧ M.c = A.c) ∨
      (¬ ((norm = .right ∨ norm = .both) → A.r = A.c) ∧ Gnn.normalize norm A = .error .valueError) := by
  unfold Gnn.normalize
  cases norm with
  | none => left; exact ⟨fun h => (by rcases h with h | h <;> cases h), A, rfl, rfl, rfl⟩
  | left =>
    left
    refine ⟨fun h => (by rcases h with h | h <;> cases h), ?_⟩
    rcases matmul_cases (pinvDiag (rowSums A)) A with ⟨_, M, hM, hr, hc⟩ | ⟨hne, _⟩
    · exact ⟨M, hM, by rw [hr, (pinvDiag_shape _).1, rowSums_length], hc⟩
    · exact absurd (by rw [(pinvDiag_shape _).2, rowSums_length]) hne
  | right =>
    rcases matmul_cases A (pinvDiag (rowSums A)) with ⟨heq, M, hM, hr, hc⟩ | ⟨hne, herr⟩
    · left
      rw [(pinvDiag_shape _).1, rowSums_length] at heq
      exact ⟨fun _ => heq.symm, M, hM, hr, by rw [hc, (pinvDiag_shape _).2, rowSums_length, heq]⟩
    · right
      rw [(pinvDiag_shape _).1, rowSums_length] at hne
      exact ⟨fun h => hne (h (by simp)).symm, herr⟩
  | both =>
    simp only [bind, Except.bind]
    have hlen : ((rowSums A).map Num.sqrt).length = A.r := by rw [List.length_map, rowSums_length]
    rcases matmul_cases (pinvDiag ((rowSums A).map Num.sqrt)) A with ⟨_, T, hT, hTr, hTc⟩ | ⟨hne, _⟩
    · rw [hT]
      simp only []
      rcases matmul_cases T (pinvDiag ((rowSums A).map Num.sqrt)) with ⟨heq, M, hM, hr, hc⟩ | ⟨hne, herr⟩
      · left
        rw [hTc, (pinvDiag_shape _).1, hlen] at heq
        exact ⟨fun _ => heq.symm, M, hM, by rw [hr, hTr, (pinvDiag_shape _).1, hlen],
          by rw [hc, (pinvDiag_shape _).2, hlen, heq]⟩
      · right
        rw [hTc, (pinvDiag_shape _).1, hlen] at hne
        exact ⟨fun h => hne (h (by simp)).symm, herr⟩
    · exact absurd (by rw [(pinvDiag_shape _).2, hlen]) hne

theorem shapesOk_iff (norm : Norm) (A X W : Mat ℝ) (b : Option (List ℝ)) :
    Spec.shapesOk norm A X W b = true ↔
      (A.c = X.r ∧ X.c = W.r ∧ (∀ bl, b = some bl → bl.length = W.c) ∧
        ((norm = .right ∨ norm = .both) → A.r = A.c)) := by
  unfold Spec.shapesOk
  cases b <;> cases norm <;> simp [and_assoc]

/-- two matrices with the same denotation: same shape, same entries inside the shape (what lies outside the shape
of a `Mat` is never read) -/
def SameEntries (A A' : Mat ℝ) : Prop :=
  A.r = A'.r ∧ A.c = A'.c ∧ ∀ i j, i < A.r → j < A.c → A.get i j = A'.get i j

theorem SameEntries.refl (A : Mat ℝ) : SameEntries A A := ⟨rfl, rfl, fun _ _ _ _ => rfl⟩

theorem SameEntries.tabulated (A : Mat ℝ) : SameEntries A (mk' A.r A.c fun i j => A.get i j) :=
  ⟨rfl, rfl, fun _ _ hi hj => (get_mk'_of_lt _ hi hj).symm⟩

theorem matmul_congr {A A' B B' : Mat ℝ} (hA : SameEntries A A') (hB : SameEntries B B') :
    matmul A B = matmul A' B' := by
  obtain ⟨hAr, hAc, hA⟩ := hA
  obtain ⟨hBr, hBc, hB⟩ := hB
  unfold matmul
  rw [← hAr, ← hAc, ← hBr, ← hBc]
  by_cases h : A.c = B.r
  · rw [if_neg (not_not.mpr h), if_neg (not_not.mpr h)]
    congr 1
    apply mk'_congr
    intro i hi k hk
    apply sumTo_congr
    intro j hj
    rw [hA i j hi hj, hB j k (h ▸ hj) hk]
  · rw [if_pos h, if_pos h]

theorem rowSums_congr {A A' : Mat ℝ} (hA : SameEntries A A') : rowSums A = rowSums A' := by
  obtain ⟨hAr, hAc, hA⟩ := hA
  unfold rowSums
  rw [← hAr, ← hAc]
  apply tab_congr
  intro i hi
  apply sumTo_congr
  intro j hj
  exact hA i j hi hj

theorem addSelfLoops_congr {A A' : Mat ℝ} (hA : SameEntries A A') : addSelfLoops A = addSelfLoops A' := by
  obtain ⟨hAr, hAc, hA⟩ := hA
  unfold addSelfLoops
  rw [← hAr, ← hAc]
  apply mk'_congr
  intro i hi j hj
  rw [hA i j hi hj]

theorem normalize_congr (norm : Norm) {A A' : Mat ℝ} (hA : SameEntries A A') :
    (∃ e, Gnn.normalize norm A = .error e ∧ Gnn.normalize norm A' = .error e) ∨
      (∃ M M', Gnn.normalize norm A = .ok M ∧ Gnn.normalize norm A' = .ok M' ∧ SameEntries M M') := by
  have key : norm ≠ .none → Gnn.normalize norm A = Gnn.normalize norm A' := by
    intro hn
    unfold Gnn.normalize
    rw [rowSums_congr hA]
    cases norm with
    | left => exact matmul_congr (SameEntries.refl _) hA
    | right => exact matmul_congr hA (SameEntries.refl _)
    | both => simp only [matmul_congr (SameEntries.refl _) hA]
    | none => exact absurd rfl hn
  by_cases hn : norm = .none
  · subst hn
    right
    exact ⟨A, A', rfl, rfl, hA⟩
  · rw [key hn]
    cases h : Gnn.normalize norm A' with
    | error e => left; exact ⟨e, rfl, rfl⟩
    | ok M => right; exact ⟨M, M, rfl, rfl, SameEntries.refl M⟩

/-- the layer reads its three matrices only through shape and entries -/
theorem forward_congr (cfg : LayerCfg) {A A' X X' W W' : Mat ℝ} (b : Option (List ℝ))
    (hA : SameEntries A A') (hX : SameEntries X X') (hW : SameEntries W W') :
    forward cfg A X W b = forward cfg A' X' W' b := by
  unfold forward
  simp only [bind, Except.bind]
  rcases normalize_congr cfg.norm hA with ⟨e, h1, h2⟩ | ⟨M, M', h1, h2, hM⟩
  · rw [h1, h2]
  · rw [h1, h2]
    simp only []
    have h2' : SameEntries (if cfg.selfEmb then addSelfLoops M else M) (if cfg.selfEmb then addSelfLoops M' else M') := by
      cases cfg.selfEmb with
      | false => simpa using hM
      | true =>
        simp only [if_true]
        rw [addSelfLoops_congr hM]
        exact SameEntries.refl _
    rw [matmul_congr h2' hX]
    cases hm : matmul (if cfg.selfEmb then addSelfLoops M' else M') X' with
    | error e => rfl
    | ok msg =>
      simp only []
      rw [matmul_congr (SameEntries.refl msg) hW]

/-- **either the shapes fit and the layer returns a value, or they do not and it raises `ValueError`** -/
theorem forward_cases (cfg : LayerCfg) (A X W : Mat ℝ) (b : Option (List ℝ)) :
    (Spec.shapesOk cfg.norm A X W b = true ∧ ∃ O, forward cfg A X W b = .ok O) ∨
      (Spec.shapesOk cfg.norm A X W b = false ∧ forward cfg A X W b = .error .valueError) := by
  have hno : ∀ {P : Prop}, ¬ P → (Spec.shapesOk cfg.norm A X W b = true → P) → Spec.shapesOk cfg.norm A X W b = false := by
    intro P hnp himp
    cases h : Spec.shapesOk cfg.norm A X W b with
    | false => rfl
    | true => exact absurd (himp h) hnp
  unfold forward
  simp only [bind, Except.bind, pure, Except.pure]
  rcases normalize_cases cfg.norm A with ⟨hsq, A1, hA1, hr1, hc1⟩ | ⟨hnsq, herr⟩
  · rw [hA1]
    simp only []
    have hA2c : (if cfg.selfEmb then addSelfLoops A1 else A1).c = A.c := by
      cases cfg.selfEmb <;> simp [addSelfLoops, hc1]
    rcases matmul_cases (if cfg.selfEmb then addSelfLoops A1 else A1) X with ⟨h1, M1, hM1, _, hM1c⟩ | ⟨h1, herr1⟩
    · rw [hM1]
      simp only []
      rw [hA2c] at h1
      rcases matmul_cases M1 W with ⟨h2, M2, hM2, _, hM2c⟩ | ⟨h2, herr2⟩
      · rw [hM2]
        simp only []
        rw [hM1c] at h2
        cases b with
        | none =>
          simp only []
          left
          exact ⟨(shapesOk_iff _ _ _ _ _).mpr ⟨h1, h2, fun _ h => (by cases h), hsq⟩, _, rfl⟩
        | some bl =>
          simp only [addBias]
          by_cases hbl : bl.length = W.c
          · rw [if_neg (by rw [hM2c]; exact not_not.mpr hbl)]
            simp only []
            left
            exact ⟨(shapesOk_iff _ _ _ _ _).mpr ⟨h1, h2, fun bl' h => (by cases h; exact hbl), hsq⟩, _, rfl⟩
          · rw [if_pos (by rw [hM2c]; exact hbl)]
            simp only []
            right
            exact ⟨hno hbl fun h => ((shapesOk_iff _ _ _ _ _).mp h).2.2.1 bl rfl, trivial⟩
      · rw [herr2]
        simp only []
        rw [hM1c] at h2
        right
        exact ⟨hno h2 fun h => ((shapesOk_iff _ _ _ _ _).mp h).2.1, trivial⟩
    · rw [herr1]
      simp only []
      rw [hA2c] at h1
      right
      exact ⟨hno h1 fun h => ((shapesOk_iff _ _ _ _ _).mp h).1, trivial⟩
  · rw [herr]
    simp only []
    right
    exact ⟨hno hnsq fun h => ((shapesOk_iff _ _ _ _ _).mp h).2.2.2, trivial⟩

theorem pinv_mul_self (x : ℝ) (hx : x ≠ 0) : pinv x * x = 1 := by
  unfold pinv
  simp only [num_eqb, decide_eq_true_eq, hx, if_false]
  field_simp

/-- the stored (column, value) pairs of row `i` of a CSR matrix, in storage order -/
def csrEntries (m : Csr ℝ) (i : Nat) : List (Nat × ℝ) :=
  (m.rowRange i).map fun p => (m.indices.getD p 0, m.data.getD p 0)

theorem csrToMat_get (m : Csr ℝ) (i j : Nat) (hi : i < m.nRow) (hj : j < m.nCol) :
    (csrToMat m).get i j = ((csrEntries m i).map fun e => if e.1 = j then e.2 else 0).sum := by
  unfold csrToMat csrEntries
  rw [get_mk'_of_lt _ hi hj, List.map_map]
  congr 1
  apply List.map_congr_left
  intro p _
  simp only [Function.comp, beq_iff_eq]

/-- two CSR matrices whose rows hold the same (column, value) pairs in any order have the same denotation -/
theorem csrToMat_perm (m m' : Csr ℝ) (hr : m.nRow = m'.nRow) (hc : m.nCol = m'.nCol)
    (h : ∀ i, i < m.nRow → (csrEntries m i).Perm (csrEntries m' i)) :
    SameEntries (csrToMat m) (csrToMat m') := by
  refine ⟨hr, hc, ?_⟩
  intro i j hi hj
  have hi' : i < m.nRow := hi
  have hj' : j < m.nCol := hj
  rw [csrToMat_get m i j hi' hj', csrToMat_get m' i j (hr ▸ hi') (hc ▸ hj')]
  exact ((h i hi').map _).sum_eq

/-- splitting a stored value into two stored halves (un-summed duplicates) does not change the entry -/
theorem duplicate_entries_sum (j c : Nat) (v : ℝ) (rest : List (Nat × ℝ)) :
    (((c, v / 2) :: (c, v / 2) :: rest).map fun e => if e.1 = j then e.2 else 0).sum =
      (((c, v) :: rest).map fun e => if e.1 = j then e.2 else 0).sum := by
  simp only [List.map_cons, List.sum_cons]
  split_ifs <;> ring

end SkNet.Gnn
