/-
Shapes: a product is defined exactly when the inner dimensions agree, a normalisation exactly when the matrix is
square for `right` / `both`; the shapes of the results.
-/
import SkNet.Lemmas.GnnForward

namespace SkNet.Gnn
open SkNet Mat Finset

theorem matmul_cases (A B : Mat ℝ) :
    (A.c = B.r ∧ ∃ M, matmul A B = .ok M ∧ M.r = A.r ∧ M.c = B.c) ∨
      (A.c ≠ B.r ∧ matmul A B = .error .valueError) := by
  by_cases h : A.c = B.r
  · left
    refine ⟨h, mk' A.r B.c (fun i k => sumTo A.c fun j => A.get i j * B.get j k), ?_, rfl, rfl⟩
    unfold matmul
    rw [if_neg (not_not.mpr h)]
  · right
    exact ⟨h, matmul_dim_error A B h⟩

theorem pinvDiag_shape (w : List ℝ) : (pinvDiag w).r = w.length ∧ (pinvDiag w).c = w.length := ⟨rfl, rfl⟩

theorem rowSums_length (A : Mat ℝ) : (rowSums A).length = A.r := by
  unfold rowSums
  simp

theorem normalize_cases (norm : Norm) (A : Mat ℝ) :
    (((norm = .right ∨ norm = .both) → A.r = A.c) ∧ ∃ M, Gnn.normalize norm A = .ok M ∧ M.r = A.r ∧ M.c = A.c) ∨
      (¬ ((norm = .right ∨ norm = .both) → A.r = A.c) ∧ Gnn.normalize norm A = .error .valueError) := by
  unfold Gnn.normalize
  cases norm with
  | none => left; exact ⟨fun h => (by rcases h with h | h <;> cases h), A, rfl, rfl, rfl⟩
  | left =>
    left
    refine ⟨fun h => (by rcases h with h | h <;> cases h), ?_⟩
    rcases matmul_cases (pinvDiag (rowSums A)) A with ⟨_, M, hM, hr, hc⟩ | ⟨hne, _⟩
    · exact ⟨M, hM, by rw [hr, (pinvDiag_shape _).1, rowSums_length], hc⟩
    · exact absurd (by rw [(pinvDiag_shape _).2, rowSums_length]) hne
  | right =>
    rcases matmul_cases A (pinvDiag (rowSums A)) with ⟨heq, M, hM, hr, hc⟩ | ⟨hne, herr⟩
    · left
      rw [(pinvDiag_shape _).1, rowSums_length] at heq
      exact ⟨fun _ => heq.symm, M, hM, hr, by rw [hc, (pinvDiag_shape _).2, rowSums_length, heq]⟩
    · right
      rw [(pinvDiag_shape _).1, rowSums_length] at hne
      exact ⟨fun h => hne (h (by simp)).symm, herr⟩
  | both =>
    simp only [bind, Except.bind]
    have hlen : ((rowSums A).map Num.sqrt).length = A.r := by rw [List.length_map, rowSums_length]
    rcases matmul_cases (pinvDiag ((rowSums A).map Num.sqrt)) A with ⟨_, T, hT, hTr, hTc⟩ | ⟨hne, _⟩
    · rw [hT]
      simp only []
      rcases matmul_cases T (pinvDiag ((rowSums A).map Num.sqrt)) with ⟨heq, M, hM, hr, hc⟩ | ⟨hne, herr⟩
      · left
        rw [hTc, (pinvDiag_shape _).1, hlen] at heq
        exact ⟨fun _ => heq.symm, M, hM, by rw [hr, hTr, (pinvDiag_shape _).1, hlen],
          by rw [hc, (pinvDiag_shape _).2, hlen, heq]⟩
      · right
        rw [hTc, (pinvDiag_shape _).1, hlen] at hne
        exact ⟨fun h => hne (h (by simp)).symm, herr⟩
    · exact absurd (by rw [(pinvDiag_shape _).2, hlen]) hne

theorem shapesOk_iff (norm : Norm) (A X W : Mat ℝ) (b : Option (List ℝ)) :
    Spec.shapesOk norm A X W b = true ↔
      (A.c = X.r ∧ X.c = W.r ∧ (∀ bl, b = some bl → bl.length = W.c) ∧
        ((norm = .right ∨ norm = .both) → A.r = A.c)) := by
  unfold Spec.shapesOk
  cases b <;> cases norm <;> simp [and_assoc]

/-- two containers with the same denotation: same shape, same entries -/
def SameEntries (A A' : Mat ℝ) : Prop := A.r = A'.r ∧ A.c = A'.c ∧ ∀ i j, A.get i j = A'.get i j

theorem SameEntries.refl (A : Mat ℝ) : SameEntries A A := ⟨rfl, rfl, fun _ _ => rfl⟩

theorem matmul_congr {A A' B B' : Mat ℝ} (hA : SameEntries A A') (hB : SameEntries B B') :
    matmul A B = matmul A' B' := by
  obtain ⟨hAr, hAc, hA⟩ := hA
  obtain ⟨hBr, hBc, hB⟩ := hB
  have hgA : A.get = A'.get := funext fun i => funext fun j => hA i j
  have hgB : B.get = B'.get := funext fun i => funext fun j => hB i j
  unfold matmul
  simp only [hAr, hAc, hgA, hBr, hBc, hgB]

theorem rowSums_congr {A A' : Mat ℝ} (hA : SameEntries A A') : rowSums A = rowSums A' := by
  obtain ⟨hAr, hAc, hA⟩ := hA
  have hgA : A.get = A'.get := funext fun i => funext fun j => hA i j
  unfold rowSums
  simp only [hAr, hAc, hgA]

theorem addSelfLoops_congr {A A' : Mat ℝ} (hA : SameEntries A A') : addSelfLoops A = addSelfLoops A' := by
  obtain ⟨hAr, hAc, hA⟩ := hA
  have hgA : A.get = A'.get := funext fun i => funext fun j => hA i j
  unfold addSelfLoops
  simp only [hAr, hAc, hgA]

theorem normalize_congr (norm : Norm) {A A' : Mat ℝ} (hA : SameEntries A A') :
    (∃ e, Gnn.normalize norm A = .error e ∧ Gnn.normalize norm A' = .error e) ∨
      (∃ M M', Gnn.normalize norm A = .ok M ∧ Gnn.normalize norm A' = .ok M' ∧ SameEntries M M') := by
  have key : norm ≠ .none → Gnn.normalize norm A = Gnn.normalize norm A' := by
    intro hn
    unfold Gnn.normalize
    rw [rowSums_congr hA]
    cases norm with
    | left => exact matmul_congr (SameEntries.refl _) hA
    | right => exact matmul_congr hA (SameEntries.refl _)
    | both => simp only [matmul_congr (SameEntries.refl _) hA]
    | none => exact absurd rfl hn
  by_cases hn : norm = .none
  · subst hn
    right
    exact ⟨A, A', rfl, rfl, hA⟩
  · rw [key hn]
    cases h : Gnn.normalize norm A' with
    | error e => left; exact ⟨e, rfl, rfl⟩
    | ok M => right; exact ⟨M, M, rfl, rfl, SameEntries.refl M⟩

theorem pinv_mul_self (x : ℝ) (hx : x ≠ 0) : pinv x * x = 1 := by
  unfold pinv
  simp only [num_eqb, decide_eq_true_eq, hx, if_false]
  field_simp

/-- the stored (column, value) pairs of row `i` of a CSR matrix, in storage order -/
def csrEntries (m : Csr ℝ) (i : Nat) : List (Nat × ℝ) :=
  (m.rowRange i).map fun p => (m.indices.getD p 0, m.data.getD p 0)

theorem csrToMat_get (m : Csr ℝ) (i j : Nat) (hi : i < m.nRow) (hj : j < m.nCol) :
    (csrToMat m).get i j = ((csrEntries m i).map fun e => if e.1 = j then e.2 else 0).sum := by
  unfold csrToMat csrEntries
  rw [get_mk'_of_lt _ hi hj, List.map_map]
  congr 1
  apply List.map_congr_left
  intro p _
  simp only [Function.comp, beq_iff_eq]

/-- two CSR matrices whose rows hold the same (column, value) pairs in any order have the same denotation -/
theorem csrToMat_perm (m m' : Csr ℝ) (hr : m.nRow = m'.nRow) (hc : m.nCol = m'.nCol)
    (h : ∀ i, i < m.nRow → (csrEntries m i).Perm (csrEntries m' i)) :
    SameEntries (csrToMat m) (csrToMat m') := by
  refine ⟨hr, hc, ?_⟩
  intro i j
  by_cases hij : i < m.nRow ∧ j < m.nCol
  · rw [csrToMat_get m i j hij.1 hij.2, csrToMat_get m' i j (hr ▸ hij.1) (hc ▸ hij.2)]
    exact ((h i hij.1).map _).sum_eq
  · have h1 : (csrToMat m).get i j = 0 := by
      unfold csrToMat
      rw [get_mk', if_neg hij]
    have h2 : (csrToMat m').get i j = 0 := by
      unfold csrToMat
      rw [get_mk', if_neg (by rw [← hr, ← hc]; exact hij)]
    rw [h1, h2]

/-- splitting a stored value into two stored halves (un-summed duplicates) does not change the entry -/
theorem duplicate_entries_sum (j c : Nat) (v : ℝ) (rest : List (Nat × ℝ)) :
    (((c, v / 2) :: (c, v / 2) :: rest).map fun e => if e.1 = j then e.2 else 0).sum =
      (((c, v) :: rest).map fun e => if e.1 = j then e.2 else 0).sum := by
  simp only [List.map_cons, List.sum_cons]
  split_ifs <;> ring

end SkNet.Gnn
