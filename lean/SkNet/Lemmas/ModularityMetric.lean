/-
`get_modularity`: the membership products of the code are the documented double sums.
-/
import Mathlib.Algebra.BigOperators.Group.Finset.Sigma
import SkNet.Lemmas.ModularitySums

namespace SkNet.Modularity
open Finset

theorem le_foldl_max (l : List Int) (init : Int) :
    init ≤ l.foldl max init ∧ ∀ x ∈ l, x ≤ l.foldl max init := by
  induction l generalizing init with
  | nil => simp
  | cons a r ih =>
    obtain ⟨h1, h2⟩ := ih (max init a)
    simp only [List.foldl_cons, List.mem_cons]
    refine ⟨le_trans (le_max_left _ _) h1, ?_⟩
    rintro x (rfl | hx)
    · exact le_trans (le_max_right _ _) h1
    · exact h2 x hx

theorem le_maxLabel (labels : List Int) (x : Int) (hx : x ∈ labels) : x ≤ maxLabel labels :=
  (le_foldl_max labels _).2 x hx

/-- the label of node `i` as `get_membership` sees it (`-1` outside the vector: no cluster) -/
def labelAt (labels : List Int) (i : Nat) : Int := labels.getD i (-1)

theorem labelAt_le (labels : List Int) (i : Nat) (h : 0 ≤ labelAt labels i) :
    labelAt labels i ≤ maxLabel labels := by
  unfold labelAt at *
  rw [List.getD_eq_getElem?_getD] at *
  cases hq : labels[i]? with
  | none => rw [hq] at h; simp at h
  | some v =>
    simp only [Option.getD_some]
    exact le_maxLabel labels v (List.mem_of_getElem? hq)

/-- column sums of products of membership entries: the Kronecker symbol of the documentation -/
theorem member_mul_sum (labels : List Int) (i j : Nat) :
    ∑ c ∈ range (maxLabel labels + 1).toNat, member labels i c * member labels j c
      = if sameCluster (labelAt labels) i j then 1 else 0 := by
  unfold member sameCluster
  simp only [beq_iff_eq, Bool.and_eq_true, decide_eq_true_eq]
  change ∑ c ∈ range (maxLabel labels + 1).toNat,
      (if labelAt labels i = (c : Int) then (1 : Rat) else 0) * (if labelAt labels j = (c : Int) then 1 else 0) = _
  by_cases h : labelAt labels i = labelAt labels j ∧ 0 ≤ labelAt labels i
  · rw [if_pos h]
    obtain ⟨he, hpos⟩ := h
    have hle := labelAt_le labels i hpos
    have hmem : (labelAt labels i).toNat ∈ range (maxLabel labels + 1).toNat := by
      rw [Finset.mem_range]; omega
    rw [Finset.sum_eq_single_of_mem _ hmem]
    · have : ((labelAt labels i).toNat : Int) = labelAt labels i := Int.toNat_of_nonneg hpos
      simp [← he, this]
    · intro c _ hc
      have : labelAt labels i ≠ (c : Int) := by
        intro hh; apply hc; rw [hh]; simp
      simp [this]
  · rw [if_neg h]
    refine Finset.sum_eq_zero fun c _ => ?_
    by_cases h1 : labelAt labels i = (c : Int)
    · by_cases h2 : labelAt labels j = (c : Int)
      · exfalso; apply h; refine ⟨by rw [h1, h2], ?_⟩; rw [h1]; exact Int.natCast_nonneg c
      · simp [h2]
    · simp [h1]

/-- **fit term** = `(1/w) Σ_{i,j} A_ij δ(c_i,c_j)` -/
theorem modTerms_fit (n : Nat) (A : Nat → Nat → Rat) (labels : List Int) (pr pc : Nat → Rat) (γ : Rat) :
    (modTerms n A labels pr pc γ).fit = fitDoc n A (labelAt labels) := by
  unfold modTerms fitDoc totalWeight
  simp only [sumTo_eq]
  rw [div_eq_mul_inv, mul_comm, one_div]
  congr 1
  calc ∑ c ∈ range (maxLabel labels + 1).toNat, ∑ i ∈ range n,
          member labels i c * ∑ j ∈ range n, A i j * member labels j c
      = ∑ c ∈ range (maxLabel labels + 1).toNat, ∑ i ∈ range n, ∑ j ∈ range n,
          A i j * (member labels i c * member labels j c) := by
        refine sum_congr rfl fun c _ => sum_congr rfl fun i _ => ?_
        rw [mul_sum]; exact sum_congr rfl fun j _ => by ring
    _ = ∑ i ∈ range n, ∑ j ∈ range n, ∑ c ∈ range (maxLabel labels + 1).toNat,
          A i j * (member labels i c * member labels j c) := by
        rw [sum_comm]; exact sum_congr rfl fun i _ => sum_comm
    _ = ∑ i ∈ range n, ∑ j ∈ range n, if sameCluster (labelAt labels) i j then A i j else 0 := by
        refine sum_congr rfl fun i _ => sum_congr rfl fun j _ => ?_
        rw [← mul_sum, member_mul_sum]; split_ifs <;> simp

/-- **diversity term** = `Σ_{i,j} p^row_i p^col_j δ(c_i,c_j)` -/
theorem modTerms_div (n : Nat) (A : Nat → Nat → Rat) (labels : List Int) (pr pc : Nat → Rat) (γ : Rat) :
    (modTerms n A labels pr pc γ).div = divDoc n pr pc (labelAt labels) := by
  unfold modTerms divDoc
  simp only [sumTo_eq]
  calc ∑ c ∈ range (maxLabel labels + 1).toNat,
          (∑ i ∈ range n, member labels i c * pc i) * ∑ i ∈ range n, member labels i c * pr i
      = ∑ c ∈ range (maxLabel labels + 1).toNat, ∑ j ∈ range n, ∑ i ∈ range n,
          pr i * pc j * (member labels i c * member labels j c) := by
        refine sum_congr rfl fun c _ => ?_
        rw [sum_mul_sum]
        exact sum_congr rfl fun j _ => sum_congr rfl fun i _ => by ring
    _ = ∑ j ∈ range n, ∑ i ∈ range n, ∑ c ∈ range (maxLabel labels + 1).toNat,
          pr i * pc j * (member labels i c * member labels j c) := by
        rw [sum_comm]; exact sum_congr rfl fun i _ => sum_comm
    _ = ∑ j ∈ range n, ∑ i ∈ range n, if sameCluster (labelAt labels) i j then pr i * pc j else 0 := by
        refine sum_congr rfl fun j _ => sum_congr rfl fun i _ => ?_
        rw [← mul_sum, member_mul_sum]; split_ifs <;> simp
    _ = ∑ i ∈ range n, ∑ j ∈ range n, if sameCluster (labelAt labels) i j then pr i * pc j else 0 := sum_comm

theorem modTerms_mod (n : Nat) (A : Nat → Nat → Rat) (labels : List Int) (pr pc : Nat → Rat) (γ : Rat) :
    (modTerms n A labels pr pc γ).mod
      = (modTerms n A labels pr pc γ).fit - γ * (modTerms n A labels pr pc γ).div := rfl

/-- fit − γ·div with degree probabilities is the documented (directed) modularity -/
theorem fit_sub_div_eq_doc (n : Nat) (A : Nat → Nat → Rat) (γ : Rat) (c : Nat → Int) :
    fitDoc n A c - γ * divDoc n (fun i => outDeg n A i / totalWeight n A) (fun j => inDeg n A j / totalWeight n A) c
      = modularityDoc n A γ c := by
  unfold fitDoc divDoc modularityDoc
  simp only [sumTo_eq]
  rw [mul_sum, mul_sum, mul_sum, ← sum_sub_distrib]
  refine sum_congr rfl fun i _ => ?_
  rw [mul_sum, mul_sum, mul_sum, ← sum_sub_distrib]
  refine sum_congr rfl fun j _ => ?_
  split_ifs <;> ring

/-- fit − γ·div with a weight vector `p` is the weighted variant -/
theorem fit_sub_div_eq_weighted (n : Nat) (A : Nat → Nat → Rat) (p : Nat → Rat) (γ : Rat) (c : Nat → Int) :
    fitDoc n A c - γ * divDoc n p p c = modularityWeighted n A p γ c := by
  unfold fitDoc divDoc modularityWeighted
  simp only [sumTo_eq]
  rw [mul_sum, mul_sum, ← sum_sub_distrib]
  refine sum_congr rfl fun i _ => ?_
  rw [mul_sum, mul_sum, ← sum_sub_distrib]
  refine sum_congr rfl fun j _ => ?_
  split_ifs <;> ring

/-! ### unpacking a successful call -/

theorem getProbs_degree (n : Nat) (M : Nat → Nat → Rat) (pr : Nat → Rat)
    (h : getProbs n .degree M = .ok pr) :
    pr = fun i => sumTo n (M i) / sumTo n fun i => sumTo n (M i) := by
  unfold getProbs normalise at h
  simp only at h
  split at h
  · cases h
  · cases h; rfl

theorem sumTo_one (n : Nat) : sumTo n (fun _ => (1 : Rat)) = n := by
  rw [sumTo_eq]; simp

theorem getProbs_uniform (n : Nat) (M : Nat → Nat → Rat) (pr : Nat → Rat)
    (h : getProbs n .uniform M = .ok pr) : pr = fun _ => 1 / (n : Rat) := by
  unfold getProbs normalise at h
  simp only at h
  split at h
  · cases h
  · cases h; funext i; rw [sumTo_one]

theorem getProbs_custom (n : Nat) (M : Nat → Nat → Rat) (w : List Rat) (pr : Nat → Rat)
    (h : getProbs n (.custom w) M = .ok pr) :
    pr = fun i => w.getD i 0 / sumTo n fun j => w.getD j 0 := by
  unfold getProbs normalise at h
  simp only at h
  split at h
  · cases h
  · split at h
    · cases h
    · cases h; rfl

theorem totalWeight_transpose (n : Nat) (A : Nat → Nat → Rat) :
    (sumTo n fun i => sumTo n fun j => A j i) = totalWeight n A := by
  unfold totalWeight
  simp only [sumTo_eq]
  exact sum_comm

theorem getProbs_degree_out (n : Nat) (A : Nat → Nat → Rat) (pr : Nat → Rat)
    (h : getProbs n .degree A = .ok pr) : pr = fun i => outDeg n A i / totalWeight n A :=
  getProbs_degree n A pr h

theorem getProbs_degree_in (n : Nat) (A : Nat → Nat → Rat) (pc : Nat → Rat)
    (h : getProbs n .degree (fun i j => A j i) = .ok pc) : pc = fun j => inDeg n A j / totalWeight n A := by
  rw [getProbs_degree _ _ _ h]
  funext j
  show sumTo n (fun i => A i j) / (sumTo n fun i => sumTo n fun j => A j i) = _
  rw [totalWeight_transpose]
  rfl

/-- what a successful call of the model went through -/
theorem getModularity_ok (nRow nCol nnz : Nat) (B : Nat → Nat → Rat) (labels : List Int)
    (labelsCol : Option (List Int)) (weights : Weights) (γ : Rat) (o : ModOut)
    (h : getModularity nRow nCol nnz B labels labelsCol weights γ = .ok o) :
    ∃ lab pr pc, modLabels nRow nCol labels labelsCol = .ok lab ∧
      getProbs (modAdj nRow nCol B).1 weights (modAdj nRow nCol B).2 = .ok pr ∧
      getProbs (modAdj nRow nCol B).1 weights (fun i j => (modAdj nRow nCol B).2 j i) = .ok pc ∧
      totalWeight (modAdj nRow nCol B).1 (modAdj nRow nCol B).2 ≠ 0 ∧
      o = modTerms (modAdj nRow nCol B).1 (modAdj nRow nCol B).2 lab pr pc γ := by
  unfold getModularity at h
  split at h
  · cases h
  · simp only at h
    split at h
    · cases h
    · rename_i lab hlab
      split at h
      · cases h
      · split at h
        · cases h
        · rename_i pr hpr
          split at h
          · cases h
          · rename_i pc hpc
            split at h
            · cases h
            · split at h
              · cases h
              · rename_i hw
                refine ⟨lab, pr, pc, hlab, hpr, hpc, ?_, ?_⟩
                · intro h0; apply hw; unfold totalWeight at h0; rw [h0]; rfl
                · cases h; rfl

/-- `weights='degree'`: the returned modularity is the documented directed form -/
theorem getModularity_eq_def_degree (nRow nCol nnz : Nat) (B : Nat → Nat → Rat) (labels : List Int)
    (labelsCol : Option (List Int)) (γ : Rat) (o : ModOut)
    (h : getModularity nRow nCol nnz B labels labelsCol .degree γ = .ok o) :
    ∃ lab, modLabels nRow nCol labels labelsCol = .ok lab ∧
      o.mod = modularityDoc (modAdj nRow nCol B).1 (modAdj nRow nCol B).2 γ (labelAt lab) := by
  obtain ⟨lab, pr, pc, h1, h2, h3, -, rfl⟩ := getModularity_ok _ _ _ _ _ _ _ _ _ h
  refine ⟨lab, h1, ?_⟩
  rw [modTerms_mod, modTerms_fit, modTerms_div, getProbs_degree_out _ _ _ h2, getProbs_degree_in _ _ _ h3,
    ← fit_sub_div_eq_doc]

end SkNet.Modularity
