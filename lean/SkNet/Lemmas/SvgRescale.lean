/-
`rescale` (graphs.py) followed by `position *= scale` keeps distinct nodes apart and coincident nodes together:
on a canvas with a non-zero dimension and a non-zero scale, two nodes are drawn at the same place iff their input
positions are equal.  (This is the only decision the drawing code takes on numbers: `svg_edge_directed` draws
nothing when the end points coincide.)
-/
import Mathlib.Tactic.Ring
import Mathlib.Tactic.Linarith
import Mathlib.Tactic.FieldSimp
import Mathlib.Tactic.LinearCombination
import SkNet.Model.Svg

namespace SkNet.Svg

theorem getD_lt {α : Type} (l : List α) (d : α) (i : Nat) (h : i < l.length) : l.getD i d = l[i] := by
  simp [List.getD_eq_getElem?_getD, h]

/-! ### `lmin`, `lmax` -/

theorem foldl_min_le (l : List Rat) (a : Rat) : l.foldl min a ≤ a ∧ ∀ x ∈ l, l.foldl min a ≤ x := by
  induction l generalizing a with
  | nil => simp
  | cons y ys ih =>
    simp only [List.foldl_cons]
    obtain ⟨h1, h2⟩ := ih (min a y)
    refine ⟨le_trans h1 (min_le_left _ _), ?_⟩
    intro x hx
    rcases List.mem_cons.mp hx with h | h
    · subst h; exact le_trans h1 (min_le_right _ _)
    · exact h2 x h

theorem le_foldl_max (l : List Rat) (a : Rat) : a ≤ l.foldl max a ∧ ∀ x ∈ l, x ≤ l.foldl max a := by
  induction l generalizing a with
  | nil => simp
  | cons y ys ih =>
    simp only [List.foldl_cons]
    obtain ⟨h1, h2⟩ := ih (max a y)
    refine ⟨le_trans (le_max_left _ _) h1, ?_⟩
    intro x hx
    rcases List.mem_cons.mp hx with h | h
    · subst h; exact le_trans (le_max_right _ _) h1
    · exact h2 x h

theorem lmin_le (x : List Rat) (v : Rat) (hv : v ∈ x) : lmin x ≤ v := (foldl_min_le x _).2 v hv
theorem le_lmax (x : List Rat) (v : Rat) (hv : v ∈ x) : v ≤ lmax x := (le_foldl_max x _).2 v hv

/-! ### `min_max_scaling` is injective on the values it scales -/

theorem getD_mem (x : List Rat) (i : Nat) (hi : i < x.length) : x.getD i 0 ∈ x := by
  rw [getD_lt _ _ _ hi]; exact List.getElem_mem hi

theorem minMax_getD (x : List Rat) (i : Nat) (hi : i < x.length) :
    (minMaxScaling x).getD i 0 =
      if lmax x > lmin x then (x.getD i 0 - lmin x) / (lmax x - lmin x) else 1 / 2 := by
  unfold minMaxScaling
  split
  · rw [getD_lt _ _ _ (by simpa using hi), getD_lt _ _ _ hi]; simp
  · rw [getD_lt _ _ _ (by simpa using hi)]; simp

theorem minMax_inj (x : List Rat) (i j : Nat) (hi : i < x.length) (hj : j < x.length) :
    (minMaxScaling x).getD i 0 = (minMaxScaling x).getD j 0 ↔ x.getD i 0 = x.getD j 0 := by
  rw [minMax_getD x i hi, minMax_getD x j hj]
  by_cases h : lmax x > lmin x
  · have hd : lmax x - lmin x ≠ 0 := by
      have : 0 < lmax x - lmin x := by linarith
      exact ne_of_gt this
    simp only [h, if_true]
    constructor
    · intro e
      have := (div_left_inj' hd).mp e
      linarith
    · intro e; rw [e]
  · simp only [h, if_false, true_iff]
    have h1 := lmin_le x _ (getD_mem x i hi)
    have h2 := le_lmax x _ (getD_mem x i hi)
    have h3 := lmin_le x _ (getD_mem x j hj)
    have h4 := le_lmax x _ (getD_mem x j hj)
    have h5 : lmax x ≤ lmin x := not_lt.mp h
    linarith

/-! ### the effective dimensions are non-zero -/

theorem truthy_some {w : Option Rat} (h : truthy w = true) : ∃ v, w = some v ∧ v ≠ 0 := by
  cases w with
  | none => simp [truthy] at h
  | some v => exact ⟨v, rfl, by simpa [truthy] using h⟩

theorem effDims_ne_zero {width height : Option Rat} {sx sy w h : Rat}
    (hnd : truthy width = true ∨ truthy height = true)
    (he : effDims width height sx sy = (some w, some h)) : w ≠ 0 ∧ h ≠ 0 := by
  have hratio : ∀ a b : Rat, (if a ≠ 0 ∧ b ≠ 0 then b / a else (1 : Rat)) ≠ 0 := by
    intro a b
    split
    · rename_i hab; exact div_ne_zero hab.2 hab.1
    · exact one_ne_zero
  have hratio' : ∀ a b : Rat, (if a ≠ 0 ∧ b ≠ 0 then a / b else (1 : Rat)) ≠ 0 := by
    intro a b
    split
    · rename_i hab; exact div_ne_zero hab.1 hab.2
    · exact one_ne_zero
  unfold effDims at he
  split at he
  · rename_i hc
    obtain ⟨v, hv, hv0⟩ := truthy_some hc.1
    subst hv
    simp only [Option.getD_some, Prod.mk.injEq, Option.some.injEq] at he
    obtain ⟨e1, e2⟩ := he
    subst e1; subst e2
    exact ⟨hv0, mul_ne_zero hv0 (hratio _ _)⟩
  · split at he
    · rename_i hc
      obtain ⟨v, hv, hv0⟩ := truthy_some hc.1
      subst hv
      simp only [Option.getD_some, Prod.mk.injEq, Option.some.injEq] at he
      obtain ⟨e1, e2⟩ := he
      subst e1; subst e2
      exact ⟨mul_ne_zero hv0 (hratio' _ _), hv0⟩
    · rename_i h1 h2
      simp only [Prod.mk.injEq] at he
      obtain ⟨e1, e2⟩ := he
      subst e1; subst e2
      -- both dimensions are given as they are: both are truthy
      have hw : truthy (some w) = true := by
        rcases hnd with h | h
        · exact h
        · by_contra hw; exact h2 ⟨h, hw⟩
      have hh : truthy (some h) = true := by
        by_contra hh; exact h1 ⟨hw, hh⟩
      exact ⟨by simpa [truthy] using hw, by simpa [truthy] using hh⟩

/-! ### final positions -/

/-- On a canvas with a non-zero dimension and a non-zero scale, the test of `svg_edge_directed` (the end points
    coincide after rescaling) is the same as: the two nodes were given the same position. -/
theorem finalPos_coincide (a : GraphArgs) (pos : List (Rat × Rat)) (h : finalPos a = .ok pos)
    (hnd : truthy a.width = true ∨ truthy a.height = true) (hs : a.lay.scale ≠ 0)
    (i j : Nat) (hi : i < a.pos.length) (hj : j < a.pos.length) :
    ((pos.getD j (0, 0)).1 - (pos.getD i (0, 0)).1 = 0 ∧ (pos.getD j (0, 0)).2 - (pos.getD i (0, 0)).2 = 0) ↔
      a.pos.getD i (0, 0) = a.pos.getD j (0, 0) := by
  unfold finalPos at h
  split at h
  · simp at h
  rename_i rp hrp
  simp only [Except.ok.injEq] at h
  subst h
  unfold rescale at hrp
  split at hrp
  · simp at hrp
  simp only at hrp
  split at hrp
  · rename_i w hh hdims
    split at hrp
    · simp at hrp
    simp only [Except.ok.injEq] at hrp
    subst hrp
    obtain ⟨hw0, hh0⟩ := effDims_ne_zero hnd hdims
    have hlen : ∀ k, k < a.pos.length →
        ((List.map (fun p : Rat × Rat => (p.1 * a.lay.scale, p.2 * a.lay.scale))
          (tab a.pos.length fun i =>
            ((List.map (fun x => x * w) (minMaxScaling (List.map (fun x => x.1) a.pos))).getD i 0 +
                (nameShift (Option.map (fun l => List.map List.length l) a.names) a.namePos a.lay.fontSize
                    (List.map (fun x => x * w) (minMaxScaling (List.map (fun x => x.1) a.pos)))).1 +
              effMargin a.lay,
            (List.map (fun v => (1 - v) * hh) (minMaxScaling (List.map (fun x => x.2) a.pos))).getD i 0 +
                (nameShift (Option.map (fun l => List.map List.length l) a.names) a.namePos a.lay.fontSize
                    (List.map (fun x => x * w) (minMaxScaling (List.map (fun x => x.1) a.pos)))).2 +
              effMargin a.lay))).getD k (0, 0)) =
        ((((minMaxScaling (List.map (fun x => x.1) a.pos)).getD k 0 * w +
            (nameShift (Option.map (fun l => List.map List.length l) a.names) a.namePos a.lay.fontSize
                    (List.map (fun x => x * w) (minMaxScaling (List.map (fun x => x.1) a.pos)))).1 +
              effMargin a.lay) * a.lay.scale),
         (((1 - (minMaxScaling (List.map (fun x => x.2) a.pos)).getD k 0) * hh +
            (nameShift (Option.map (fun l => List.map List.length l) a.names) a.namePos a.lay.fontSize
                    (List.map (fun x => x * w) (minMaxScaling (List.map (fun x => x.1) a.pos)))).2 +
              effMargin a.lay) * a.lay.scale)) := by
      intro k hk
      have hmx : (minMaxScaling (List.map (fun x => x.1) a.pos)).length = a.pos.length := by
        unfold minMaxScaling; split <;> simp
      have hmy : (minMaxScaling (List.map (fun x => x.2) a.pos)).length = a.pos.length := by
        unfold minMaxScaling; split <;> simp
      rw [getD_lt _ _ _ (by simp [SkNet.tab, hk])]
      simp only [SkNet.tab, List.getElem_map, List.getElem_range]
      rw [getD_lt _ _ _ (by simp [hmx, hk]), getD_lt _ _ _ (by simp [hmy, hk]),
        getD_lt _ _ _ (by simp [hmx, hk]), getD_lt _ _ _ (by simp [hmy, hk])]
      simp
    rw [hlen i hi, hlen j hj]
    simp only
    have hxi := minMax_inj (List.map (fun x => x.1) a.pos) i j (by simpa using hi) (by simpa using hj)
    have hyi := minMax_inj (List.map (fun x => x.2) a.pos) i j (by simpa using hi) (by simpa using hj)
    have gx : ∀ k, k < a.pos.length → (List.map (fun x => x.1) a.pos).getD k 0 = (a.pos.getD k (0, 0)).1 := by
      intro k hk
      rw [getD_lt _ _ _ (by simpa using hk), getD_lt _ _ _ hk]; simp
    have gy : ∀ k, k < a.pos.length → (List.map (fun x => x.2) a.pos).getD k 0 = (a.pos.getD k (0, 0)).2 := by
      intro k hk
      rw [getD_lt _ _ _ (by simpa using hk), getD_lt _ _ _ hk]; simp
    rw [gx i hi, gx j hj] at hxi
    rw [gy i hi, gy j hj] at hyi
    constructor
    · rintro ⟨e1, e2⟩
      have ex : (minMaxScaling (List.map (fun x => x.1) a.pos)).getD i 0 =
          (minMaxScaling (List.map (fun x => x.1) a.pos)).getD j 0 := by
        have : ((minMaxScaling (List.map (fun x => x.1) a.pos)).getD j 0 -
            (minMaxScaling (List.map (fun x => x.1) a.pos)).getD i 0) * (w * a.lay.scale) = 0 := by
          linear_combination e1
        rcases mul_eq_zero.mp this with h | h
        · linarith
        · exact absurd h (mul_ne_zero hw0 hs)
      have ey : (minMaxScaling (List.map (fun x => x.2) a.pos)).getD i 0 =
          (minMaxScaling (List.map (fun x => x.2) a.pos)).getD j 0 := by
        have : ((minMaxScaling (List.map (fun x => x.2) a.pos)).getD i 0 -
            (minMaxScaling (List.map (fun x => x.2) a.pos)).getD j 0) * (hh * a.lay.scale) = 0 := by
          linear_combination e2
        rcases mul_eq_zero.mp this with h | h
        · linarith
        · exact absurd h (mul_ne_zero hh0 hs)
      exact Prod.ext (hxi.mp ex) (hyi.mp ey)
    · intro e
      have ex := hxi.mpr (congrArg Prod.fst e)
      have ey := hyi.mpr (congrArg Prod.snd e)
      rw [ex, ey]
      constructor <;> ring
  · simp at hrp

end SkNet.Svg
