/- Invariants of the traversal of `get_cycles` (Model/Cycles.lean): every stacked path is a simple path of the graph,
   every recorded cycle is a simple cycle. -/
import SkNet.Model.Cycles
import SkNet.Spec.Connectivity
import SkNet.Lemmas.Connectivity

namespace SkNet.Cycles
open SkNet SkNet.Connectivity

/-! ### chains -/

/-- the last node of `a` has the first node of `b` among its successors (vacuous when one is empty) -/
def linkB (adj : Nat → List Nat) (a b : List Nat) : Bool :=
  match a.getLast?, b.head? with
  | some x, some y => (adj x).contains y
  | _, _ => true

theorem isChain_cons_cons (adj : Nat → List Nat) (x y : Nat) (l : List Nat) :
    isChain adj (x :: y :: l) = ((adj x).contains y && isChain adj (y :: l)) := by
  rw [isChain]

theorem isChain_append (adj : Nat → List Nat) (a b : List Nat) :
    isChain adj (a ++ b) = (isChain adj a && isChain adj b && linkB adj a b) := by
  induction a with
  | nil => simp [isChain, linkB]
  | cons x a ih =>
    cases a with
    | nil =>
      cases b with
      | nil => simp [isChain, linkB]
      | cons y b => simp [isChain_cons_cons, isChain, linkB, Bool.and_comm]
    | cons y a =>
      have : (x :: y :: a) ++ b = x :: y :: (a ++ b) := rfl
      rw [this, isChain_cons_cons, isChain_cons_cons]
      have ih' : isChain adj (y :: (a ++ b)) = (isChain adj (y :: a) && isChain adj b && linkB adj (y :: a) b) := ih
      rw [ih']
      have hl : linkB adj (x :: y :: a) b = linkB adj (y :: a) b := by
        simp [linkB, List.getLast?_cons_cons]
      rw [hl]
      simp [Bool.and_assoc]

/-! ### simple paths kept on the stack (reversed) -/

/-- `rp` is a simple path of the graph, stored from its last node back to its first -/
structure RPathOK (n : Nat) (adj : Nat → List Nat) (rp : List Nat) : Prop where
  ne : rp ≠ []
  nodup : rp.Nodup
  lt : ∀ v ∈ rp, v < n
  chain : isChain adj rp.reverse = true

theorem RPathOK.single {n : Nat} (adj : Nat → List Nat) {s : Nat} (hs : s < n) : RPathOK n adj [s] :=
  ⟨by simp, by simp, by simp [hs], by simp [isChain]⟩

theorem RPathOK.extend {n : Nat} {adj : Nat → List Nat} {rp : List Nat} (h : RPathOK n adj rp) {nb : Nat}
    (hnb : nb < n) (hedge : nb ∈ adj (rp.headD 0)) (hnew : nb ∉ rp) : RPathOK n adj (nb :: rp) := by
  refine ⟨by simp, List.nodup_cons.mpr ⟨hnew, h.nodup⟩, ?_, ?_⟩
  · intro v hv
    rcases List.mem_cons.mp hv with rfl | hv
    · exact hnb
    · exact h.lt v hv
  · rw [List.reverse_cons, isChain_append]
    simp only [h.chain, isChain, Bool.true_and, Bool.and_true]
    obtain ⟨x, t, rfl⟩ := List.exists_cons_of_ne_nil h.ne
    simp only [List.headD_cons] at hedge
    simp [linkB, hedge]

/-! ### the cycle closed by a back edge -/

theorem cycleOf_suffix {rp : List Nat} {nb : Nat} (hmem : nb ∈ rp) :
    ∃ pre, rp.reverse = pre ++ cycleOf rp nb := by
  have hsplit := List.takeWhile_append_dropWhile (p := (· != nb)) (l := rp)
  have hd : ∃ rest, rp.dropWhile (· != nb) = nb :: rest := by
    cases hdw : rp.dropWhile (· != nb) with
    | nil =>
      exfalso
      have : ∀ x ∈ rp, (x != nb) = true := by
        intro x hx
        have h2 : rp.takeWhile (· != nb) = rp := by rw [← hsplit, hdw]; simp
        rw [← h2] at hx
        exact List.mem_takeWhile_imp hx
      simpa using this nb hmem
    | cons y rest =>
      have := List.head_dropWhile_not (p := (· != nb)) (l := rp) (by rw [hdw]; simp)
      simp only [hdw, List.head_cons, bne_iff_ne, ne_eq, Bool.not_eq_true, bne_eq_false_iff_eq] at this
      exact ⟨rest, by rw [this]⟩
  obtain ⟨rest, hrest⟩ := hd
  refine ⟨rest.reverse, ?_⟩
  conv => lhs; rw [← hsplit, hrest]
  simp [cycleOf]

theorem cycleOf_getLast {rp : List Nat} {nb : Nat} (hne : rp ≠ []) (hmem : nb ∈ rp) :
    (cycleOf rp nb).getLast? = some (rp.headD 0) := by
  obtain ⟨x, t, rfl⟩ := List.exists_cons_of_ne_nil hne
  unfold cycleOf
  by_cases hx : x = nb
  · subst hx
    simp [List.takeWhile_cons]
  · have : (x != nb) = true := by simpa using hx
    simp [List.takeWhile_cons, this, List.getLast?_cons_cons]
    rw [List.getLast?_append]
    simp

/-- ★ the list recorded when the traversal meets a node of its own path is a simple cycle of the graph -/
theorem cycleOf_simple {n : Nat} {adj : Nat → List Nat} {rp : List Nat} (h : RPathOK n adj rp) {nb : Nat}
    (hmem : nb ∈ rp) (hedge : nb ∈ adj (rp.headD 0)) (directed : Bool)
    (hback : (!directed && decide (rp.length > 1) && nb == rp.getD 1 0) = false) :
    IsSimpleCycle n adj directed (cycleOf rp nb) := by
  obtain ⟨pre, hpre⟩ := cycleOf_suffix hmem
  have hnd : (cycleOf rp nb).Nodup := by
    have : (rp.reverse).Nodup := List.nodup_reverse.mpr h.nodup
    rw [hpre] at this
    exact (List.nodup_append.mp this).2.1
  have hlt : ∀ v ∈ cycleOf rp nb, v < n := by
    intro v hv
    apply h.lt v
    have : v ∈ rp.reverse := by rw [hpre]; exact List.mem_append_right _ hv
    simpa using this
  have hch : isChain adj (cycleOf rp nb) = true := by
    have := h.chain
    rw [hpre, isChain_append] at this
    simp only [Bool.and_eq_true] at this
    exact this.1.2
  refine ⟨hnd, hlt, ?_, ?_⟩
  · have hcyc : cycleOf rp nb = nb :: (rp.takeWhile (· != nb)).reverse := rfl
    rw [hcyc]
    show isChain adj (nb :: (rp.takeWhile (· != nb)).reverse ++ [nb]) = true
    rw [← hcyc, isChain_append]
    simp only [hch, isChain, Bool.true_and, Bool.and_true]
    simp only [linkB, cycleOf_getLast h.ne hmem, List.head?_cons]
    simpa using hedge
  · -- length: 1, or at least 3 in an undirected graph
    cases directed with
    | true => left; rfl
    | false =>
      right
      simp only [Bool.not_false, Bool.true_and, Bool.and_eq_false_iff, decide_eq_false_iff_not,
        beq_eq_false_iff_ne] at hback
      have hlen : (cycleOf rp nb).length = (rp.takeWhile (· != nb)).length + 1 := by simp [cycleOf]
      obtain ⟨x, t, rfl⟩ := List.exists_cons_of_ne_nil h.ne
      by_cases hx : x = nb
      · left; subst hx; simp [cycleOf, List.takeWhile_cons]
      · right
        have hxb : (x != nb) = true := by simpa using hx
        cases t with
        | nil => simp at hmem; exact absurd hmem.symm hx
        | cons y t =>
          have hy : nb ≠ y := by
            rcases hback with hb | hb
            · simp at hb
            · simpa using hb
          have hyb : (y != nb) = true := by simpa using (Ne.symm hy)
          simp [hlen, List.takeWhile_cons, hxb, hyb]

end SkNet.Cycles
