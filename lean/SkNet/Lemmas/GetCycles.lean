/- Invariants of the traversal of `get_cycles` (Model/Cycles.lean): every stacked path is a simple path of the graph,
   every recorded cycle is a simple cycle. -/
import SkNet.Model.Cycles
import SkNet.Spec.Connectivity
import SkNet.Lemmas.Connectivity

namespace SkNet.Cycles
open SkNet SkNet.Connectivity

/-! ### chains -/

/-- the last node of `a` has the first node of `b` among its successors (vacuous when one is empty) -/
def linkB (adj : Nat → List Nat) (a b : List Nat) : Bool :=
  match a.getLast?, b.head? with
  | some x, some y => (adj x).contains y
  | _, _ => true

theorem isChain_cons_cons (adj : Nat → List Nat) (x y : Nat) (l : List Nat) :
    isChain adj (x :: y :: l) = ((adj x).contains y && isChain adj (y :: l)) := by
  rw [isChain]

theorem isChain_append (adj : Nat → List Nat) (a b : List Nat) :
    isChain adj (a ++ b) = (isChain adj a && isChain adj b && linkB adj a b) := by
  induction a with
  | nil => simp [isChain, linkB]
  | cons x a ih =>
    cases a with
    | nil =>
      cases b with
      | nil => simp [isChain, linkB]
      | cons y b => simp [isChain_cons_cons, isChain, linkB, Bool.and_comm]
    | cons y a =>
      have : (x :: y :: a) ++ b = x :: y :: (a ++ b) := rfl
      rw [this, isChain_cons_cons, isChain_cons_cons]
      have ih' : isChain adj (y :: (a ++ b)) = (isChain adj (y :: a) && isChain adj b && linkB adj (y :: a) b) := ih
      rw [ih']
      have hl : linkB adj (x :: y :: a) b = linkB adj (y :: a) b := by
        simp [linkB, List.getLast?_cons_cons]
      rw [hl]
      simp [Bool.and_assoc]

/-! ### simple paths kept on the stack (reversed) -/

/-- `rp` is a simple path of the graph, stored from its last node back to its first -/
structure RPathOK (n : Nat) (adj : Nat → List Nat) (rp : List Nat) : Prop where
  ne : rp ≠ []
  nodup : rp.Nodup
  lt : ∀ v ∈ rp, v < n
  chain : isChain adj rp.reverse = true

theorem RPathOK.single {n : Nat} (adj : Nat → List Nat) {s : Nat} (hs : s < n) : RPathOK n adj [s] :=
  ⟨by simp, by simp, by simp [hs], by simp [isChain]⟩

theorem RPathOK.extend {n : Nat} {adj : Nat → List Nat} {rp : List Nat} (h : RPathOK n adj rp) {nb : Nat}
    (hnb : nb < n) (hedge : nb ∈ adj (rp.headD 0)) (hnew : nb ∉ rp) : RPathOK n adj (nb :: rp) := by
  refine ⟨by simp, List.nodup_cons.mpr ⟨hnew, h.nodup⟩, ?_, ?_⟩
  · intro v hv
    rcases List.mem_cons.mp hv with rfl | hv
    · exact hnb
    · exact h.lt v hv
  · rw [List.reverse_cons, isChain_append]
    simp only [h.chain, isChain, Bool.true_and, Bool.and_true]
    obtain ⟨x, t, rfl⟩ := List.exists_cons_of_ne_nil h.ne
    simp only [List.headD_cons] at hedge
    simp [linkB, hedge]

/-! ### the cycle closed by a back edge -/

theorem split_at_first {rp : List Nat} {nb : Nat} (hmem : nb ∈ rp) :
    ∃ rest, rp = rp.takeWhile (· != nb) ++ nb :: rest := by
  induction rp with
  | nil => cases hmem
  | cons x t ih =>
    by_cases hx : x = nb
    · subst hx; exact ⟨t, by simp [List.takeWhile_cons]⟩
    · have hxb : (x != nb) = true := by simpa using hx
      have : nb ∈ t := by
        rcases List.mem_cons.mp hmem with h | h
        · exact absurd h.symm hx
        · exact h
      obtain ⟨rest, hr⟩ := ih this
      refine ⟨rest, ?_⟩
      rw [List.takeWhile_cons, hxb]
      simp only [↓reduceIte, List.cons_append, List.cons.injEq, true_and]
      exact hr

theorem cycleOf_suffix {rp : List Nat} {nb : Nat} (hmem : nb ∈ rp) :
    ∃ pre, rp.reverse = pre ++ cycleOf rp nb := by
  obtain ⟨rest, hrest⟩ := split_at_first hmem
  refine ⟨rest.reverse, ?_⟩
  conv => lhs; rw [hrest]
  simp [cycleOf]

theorem cycleOf_getLast {rp : List Nat} {nb : Nat} (hne : rp ≠ []) (hmem : nb ∈ rp) :
    (cycleOf rp nb).getLast? = some (rp.headD 0) := by
  obtain ⟨x, t, rfl⟩ := List.exists_cons_of_ne_nil hne
  unfold cycleOf
  by_cases hx : x = nb
  · subst hx
    simp [List.takeWhile_cons]
  · have : (x != nb) = true := by simpa using hx
    rw [List.takeWhile_cons, this]
    simp only [↓reduceIte, List.reverse_cons, List.headD_cons]
    rw [← List.cons_append, List.getLast?_append]
    simp

/-- ★ the list recorded when the traversal meets a node of its own path is a simple cycle of the graph -/
theorem cycleOf_simple {n : Nat} {adj : Nat → List Nat} {rp : List Nat} (h : RPathOK n adj rp) {nb : Nat}
    (hmem : nb ∈ rp) (hedge : nb ∈ adj (rp.headD 0)) (directed : Bool)
    (hback : (!directed && decide (rp.length > 1) && nb == rp.getD 1 0) = false) :
    IsSimpleCycle n adj directed (cycleOf rp nb) := by
  obtain ⟨pre, hpre⟩ := cycleOf_suffix hmem
  have hnd : (cycleOf rp nb).Nodup := by
    have : (rp.reverse).Nodup := (List.Perm.nodup_iff (List.reverse_perm rp)).mpr h.nodup
    rw [hpre] at this
    exact (List.nodup_append.mp this).2.1
  have hlt : ∀ v ∈ cycleOf rp nb, v < n := by
    intro v hv
    apply h.lt v
    have : v ∈ rp.reverse := by rw [hpre]; exact List.mem_append_right _ hv
    simpa using this
  have hch : isChain adj (cycleOf rp nb) = true := by
    have := h.chain
    rw [hpre, isChain_append] at this
    simp only [Bool.and_eq_true] at this
    exact this.1.2
  refine ⟨hnd, hlt, ?_, ?_⟩
  · have hcyc : cycleOf rp nb = nb :: (rp.takeWhile (· != nb)).reverse := rfl
    rw [hcyc]
    show isChain adj (nb :: (rp.takeWhile (· != nb)).reverse ++ [nb]) = true
    rw [← hcyc, isChain_append]
    simp only [hch, isChain, Bool.true_and, Bool.and_true]
    simp only [linkB, cycleOf_getLast h.ne hmem, List.head?_cons]
    simpa using hedge
  · -- length: 1, or at least 3 in an undirected graph
    cases directed with
    | true => left; rfl
    | false =>
      right
      simp only [Bool.not_false, Bool.true_and, Bool.and_eq_false_iff, decide_eq_false_iff_not,
        beq_eq_false_iff_ne] at hback
      have hlen : (cycleOf rp nb).length = (rp.takeWhile (· != nb)).length + 1 := by simp [cycleOf]
      obtain ⟨x, t, rfl⟩ := List.exists_cons_of_ne_nil h.ne
      by_cases hx : x = nb
      · left; subst hx; simp [cycleOf]
      · right
        have hxb : (x != nb) = true := by simpa using hx
        cases t with
        | nil => simp at hmem; exact absurd hmem.symm hx
        | cons y t =>
          have hy : nb ≠ y := by
            rcases hback with hb | hb
            · simp at hb
            · simpa using hb
          have hyb : (y != nb) = true := by simpa using (Ne.symm hy)
          simp [hlen, hxb, hyb]

end SkNet.Cycles

namespace SkNet.Cycles
open SkNet SkNet.Connectivity

/-! ### the traversal -/

theorem cyclesNeighbors_inv {n : Nat} {adj : Nat → List Nat} (hwf : ∀ u, u < n → ∀ v ∈ adj u, v < n)
    (directed : Bool) {rp : List Nat} (hrp : RPathOK n adj rp)
    (nbs : List Nat) (hnbs : ∀ v ∈ nbs, v ∈ adj (rp.headD 0))
    (stack cycles : List (List Nat))
    (hs : ∀ p ∈ stack, RPathOK n adj p) (hc : ∀ c ∈ cycles, IsSimpleCycle n adj directed c) :
    (∀ p ∈ (cyclesNeighbors directed rp nbs (stack, cycles)).1, RPathOK n adj p) ∧
    (∀ c ∈ (cyclesNeighbors directed rp nbs (stack, cycles)).2, IsSimpleCycle n adj directed c) := by
  induction nbs generalizing stack cycles with
  | nil => exact ⟨hs, hc⟩
  | cons nb rest ih =>
    have hrest : ∀ v ∈ rest, v ∈ adj (rp.headD 0) := fun v hv => hnbs v (List.mem_cons_of_mem _ hv)
    have hedge : nb ∈ adj (rp.headD 0) := hnbs nb List.mem_cons_self
    have hhead : rp.headD 0 < n := by
      obtain ⟨x, t, rfl⟩ := List.exists_cons_of_ne_nil hrp.ne
      exact hrp.lt x List.mem_cons_self
    unfold cyclesNeighbors
    by_cases hback : (!directed && decide (rp.length > 1) && nb == rp.getD 1 0) = true
    · simp only [hback, ↓reduceIte]
      exact ih hrest stack cycles hs hc
    · simp only [hback, Bool.false_eq_true, ↓reduceIte]
      by_cases hin : rp.contains nb = true
      · simp only [hin, ↓reduceIte]
        apply ih hrest stack _ hs
        intro c hcm
        rcases List.mem_append.mp hcm with h | h
        · exact hc c h
        · simp only [List.mem_singleton] at h
          subst h
          exact cycleOf_simple hrp (by simpa using hin) hedge directed (by simpa using hback)
      · simp only [hin, Bool.false_eq_true, ↓reduceIte]
        apply ih hrest _ cycles _ hc
        intro p hp
        rcases List.mem_cons.mp hp with h | h
        · subst h
          exact hrp.extend (hwf _ hhead nb hedge) hedge (by simpa using hin)
        · exact hs p h

theorem cyclesLoop_inv {n : Nat} {adj : Nat → List Nat} (hwf : ∀ u, u < n → ∀ v ∈ adj u, v < n)
    (directed : Bool) (fuel : Nat) (stack cycles out : List (List Nat))
    (hs : ∀ p ∈ stack, RPathOK n adj p) (hc : ∀ c ∈ cycles, IsSimpleCycle n adj directed c)
    (h : cyclesLoop adj directed fuel stack cycles = some out) :
    ∀ c ∈ out, IsSimpleCycle n adj directed c := by
  induction fuel generalizing stack cycles with
  | zero => simp [cyclesLoop] at h
  | succ fuel ih =>
    unfold cyclesLoop at h
    match stack, hs with
    | [], _ => simp only at h; cases h; exact hc
    | rp :: rest, hs =>
      simp only at h
      have hrp := hs rp List.mem_cons_self
      have hrest : ∀ p ∈ rest, RPathOK n adj p := fun p hp => hs p (List.mem_cons_of_mem _ hp)
      have := cyclesNeighbors_inv hwf directed hrp (adj (rp.headD 0)) (fun v hv => hv) rest cycles hrest hc
      exact ih _ _ this.1 this.2 h

theorem cyclesFromStarts_inv {n : Nat} {adj : Nat → List Nat} (hwf : ∀ u, u < n → ∀ v ∈ adj u, v < n)
    (directed : Bool) (fuel : Nat) (starts : List Nat) (hst : ∀ s ∈ starts, s < n)
    (cycles out : List (List Nat)) (hc : ∀ c ∈ cycles, IsSimpleCycle n adj directed c)
    (h : cyclesFromStarts adj directed fuel starts cycles = some out) :
    ∀ c ∈ out, IsSimpleCycle n adj directed c := by
  induction starts generalizing cycles with
  | nil => simp only [cyclesFromStarts] at h; cases h; exact hc
  | cons s rest ih =>
    unfold cyclesFromStarts at h
    split at h
    · cases h
    · rename_i cycles' hl
      have hs : s < n := hst s List.mem_cons_self
      have hc' := cyclesLoop_inv hwf directed fuel [[s]] cycles cycles'
        (by intro p hp; simp only [List.mem_singleton] at hp; subst hp; exact RPathOK.single adj hs) hc hl
      exact ih (fun x hx => hst x (List.mem_cons_of_mem _ hx)) cycles' hc' h

/-! ### rotation keeps a simple cycle simple -/

theorem linkB_append_left (adj : Nat → List Nat) (a b c : List Nat) (hb : b ≠ []) :
    linkB adj (a ++ b) c = linkB adj b c := by
  simp only [linkB, List.getLast?_append]
  cases hbl : b.getLast? with
  | none => exact absurd (List.getLast?_eq_none_iff.mp hbl) hb
  | some x => simp

theorem linkB_append_right (adj : Nat → List Nat) (a b c : List Nat) (ha : a ≠ []) :
    linkB adj c (a ++ b) = linkB adj c a := by
  obtain ⟨x, t, rfl⟩ := List.exists_cons_of_ne_nil ha
  simp [linkB]

theorem isClosedChain_iff (adj : Nat → List Nat) (c : List Nat) :
    IsClosedChain adj c ↔ c ≠ [] ∧ isChain adj c = true ∧ linkB adj c c = true := by
  cases c with
  | nil => simp [IsClosedChain]
  | cons h t =>
    simp only [IsClosedChain, ne_eq, reduceCtorEq, not_false_eq_true, true_and]
    rw [isChain_append]
    have : linkB adj (h :: t) [h] = linkB adj (h :: t) (h :: t) := by simp [linkB]
    simp [isChain, this]

theorem isClosedChain_rotate (adj : Nat → List Nat) (a b : List Nat) (h : IsClosedChain adj (a ++ b)) :
    IsClosedChain adj (b ++ a) := by
  by_cases ha : a = []
  · subst ha; simpa using h
  by_cases hb : b = []
  · subst hb; simpa using h
  rw [isClosedChain_iff] at h ⊢
  obtain ⟨_, hch, hl⟩ := h
  rw [isChain_append] at hch
  simp only [Bool.and_eq_true] at hch
  rw [linkB_append_left adj a b _ hb, linkB_append_right adj a b _ ha] at hl
  refine ⟨by simp [ha], ?_, ?_⟩
  · rw [isChain_append]
    simp only [Bool.and_eq_true]
    exact ⟨⟨hch.1.2, hch.1.1⟩, hl⟩
  · rw [linkB_append_left adj b a _ ha, linkB_append_right adj b a _ hb]
    exact hch.2

theorem isSimpleCycle_rotate {n : Nat} {adj : Nat → List Nat} {directed : Bool} {c : List Nat}
    (h : IsSimpleCycle n adj directed c) (k : Nat) : IsSimpleCycle n adj directed (c.drop k ++ c.take k) := by
  obtain ⟨hnd, hlt, hcl, hlen⟩ := h
  have hperm : (c.drop k ++ c.take k).Perm c := by
    have := List.perm_append_comm (l₁ := c.drop k) (l₂ := c.take k)
    rw [List.take_append_drop] at this
    exact this
  refine ⟨hperm.nodup_iff.mpr hnd, fun v hv => hlt v (hperm.mem_iff.mp hv), ?_, ?_⟩
  · apply isClosedChain_rotate
    rw [List.take_append_drop]; exact hcl
  · rw [hperm.length_eq]; exact hlen

theorem isSimpleCycle_rollMin {n : Nat} {adj : Nat → List Nat} {directed : Bool} {c : List Nat}
    (h : IsSimpleCycle n adj directed c) : IsSimpleCycle n adj directed (rollMin c) :=
  isSimpleCycle_rotate h _

/-! ### duplicate removal -/

theorem dedupCycles_mem (directed : Bool) (cycles visited unique : List (List Nat)) :
    ∀ c ∈ dedupCycles directed cycles (visited, unique), c ∈ unique ∨ ∃ c0 ∈ cycles, c = rollMin c0 := by
  induction cycles generalizing visited unique with
  | nil => intro c hc; left; simpa [dedupCycles] using hc
  | cons cy rest ih =>
    intro c hc
    unfold dedupCycles at hc
    simp only at hc
    generalize (if directed = true then rollMin cy else sortNat (rollMin cy)) = key at hc
    by_cases hv : visited.contains key = true
    · simp only [hv, ↓reduceIte] at hc
      rcases ih _ _ c hc with h | ⟨c0, h0, h1⟩
      · left; exact h
      · right; exact ⟨c0, List.mem_cons_of_mem _ h0, h1⟩
    · simp only [hv, Bool.false_eq_true, ↓reduceIte] at hc
      rcases ih _ _ c hc with h | ⟨c0, h0, h1⟩
      · rcases List.mem_append.mp h with h | h
        · left; exact h
        · right; exact ⟨cy, List.mem_cons_self, by simpa using h⟩
      · right; exact ⟨c0, List.mem_cons_of_mem _ h0, h1⟩

theorem isChain_mono {adj adj' : Nat → List Nat} (hsub : ∀ u v, v ∈ adj u → v ∈ adj' u) (l : List Nat)
    (h : isChain adj l = true) : isChain adj' l = true := by
  induction l with
  | nil => rfl
  | cons x l ih =>
    cases l with
    | nil => rfl
    | cons y l =>
      rw [isChain_cons_cons] at h ⊢
      simp only [Bool.and_eq_true, List.contains_iff_mem] at h ⊢
      exact ⟨hsub x y h.1, ih h.2⟩

theorem isSimpleCycle_mono {n : Nat} {adj adj' : Nat → List Nat} (hsub : ∀ u v, v ∈ adj u → v ∈ adj' u)
    {d : Bool} {C : List Nat} (h : IsSimpleCycle n adj d C) : IsSimpleCycle n adj' d C := by
  obtain ⟨h1, h2, h3, h4⟩ := h
  refine ⟨h1, h2, ?_, h4⟩
  cases C with
  | nil => exact absurd h3 (by simp [IsClosedChain])
  | cons hd t => exact isChain_mono hsub (hd :: t ++ [hd]) h3


end SkNet.Cycles
