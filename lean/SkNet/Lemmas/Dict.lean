/- Lemmas on the association-list model of Python dicts (`SkNet.Dendro.Dict`). -/
import SkNet.Model.Dendro

namespace SkNet

/-- unfolding one `←` of a `do` block in `Except` -/
theorem bind_ok {ε β γ : Type} {x : Except ε β} {f : β → Except ε γ} {b : γ} (h : x >>= f = .ok b) :
    ∃ a, x = .ok a ∧ f a = .ok b := by
  cases x with
  | error e => simp [bind, Except.bind] at h
  | ok a => exact ⟨a, rfl, h⟩

end SkNet

namespace SkNet.Dendro.Dict
variable {β : Type}

@[simp] theorem get?_nil (k : Nat) : get? ([] : Dict β) k = none := rfl

theorem get?_cons (k' : Nat) (v : β) (r : Dict β) (k : Nat) :
    get? ((k', v) :: r) k = if k' = k then some v else get? r k := rfl

theorem get?_eq_none_iff (d : Dict β) (k : Nat) : get? d k = none ↔ k ∉ keys d := by
  induction d with
  | nil => simp [keys]
  | cons p r ih =>
    obtain ⟨k', v⟩ := p
    by_cases h : k' = k
    · simp [get?_cons, h, keys]
    · simp only [get?_cons, h, if_false, keys, List.map_cons, List.mem_cons, not_or] at ih ⊢
      constructor
      · intro hh; exact ⟨fun e => h e.symm, ih.mp hh⟩
      · intro hh; exact ih.mpr hh.2

theorem get?_some_mem {d : Dict β} {k : Nat} {v : β} (h : get? d k = some v) : (k, v) ∈ d := by
  induction d with
  | nil => simp at h
  | cons p r ih =>
    obtain ⟨k', v'⟩ := p
    by_cases e : k' = k
    · simp only [get?_cons, e, if_true, Option.some.injEq] at h
      subst e; subst h; simp
    · simp only [get?_cons, e, if_false] at h
      exact List.mem_cons_of_mem _ (ih h)

theorem get?_some_key_mem {d : Dict β} {k : Nat} {v : β} (h : get? d k = some v) : k ∈ keys d := by
  have := get?_some_mem h
  exact List.mem_map.mpr ⟨(k, v), this, rfl⟩

theorem mem_get?_of_nodup {d : Dict β} (hd : (keys d).Nodup) {k : Nat} {v : β} (h : (k, v) ∈ d) :
    get? d k = some v := by
  induction d with
  | nil => simp at h
  | cons p r ih =>
    obtain ⟨k', v'⟩ := p
    simp only [keys, List.map_cons, List.nodup_cons] at hd
    rcases List.mem_cons.mp h with e | e
    · cases e; simp [get?_cons]
    · have hk : k ∈ keys r := List.mem_map.mpr ⟨(k, v), e, rfl⟩
      have : k' ≠ k := fun e' => hd.1 (e' ▸ hk)
      simp only [get?_cons, this, if_false]
      exact ih hd.2 e

theorem get?_erase (d : Dict β) (k k' : Nat) :
    get? (erase d k) k' = if k' = k then none else get? d k' := by
  induction d with
  | nil => simp [erase]
  | cons p r ih =>
    obtain ⟨k0, v⟩ := p
    unfold erase at ih ⊢
    by_cases h0 : k0 = k
    · subst h0
      simp only [List.filter_cons, bne_self_eq_false, Bool.false_eq_true, if_false, ih, get?_cons]
      by_cases h1 : k' = k0
      · simp [h1]
      · have : ¬ k0 = k' := fun e => h1 e.symm
        simp [h1, this]
    · have : (k0 != k) = true := by simp [h0]
      simp only [List.filter_cons, this, if_true, get?_cons, ih]
      by_cases h1 : k0 = k'
      · subst h1; simp [h0]
      · simp [h1]

theorem keys_erase (d : Dict β) (k : Nat) : keys (erase d k) = (keys d).filter (· != k) := by
  unfold keys erase
  induction d with
  | nil => rfl
  | cons p r ih =>
    by_cases h : (p.1 != k) = true
    · simp [h, ih]
    · simp [h, ih]

theorem nodup_keys_erase {d : Dict β} (hd : (keys d).Nodup) (k : Nat) : (keys (erase d k)).Nodup := by
  rw [keys_erase]; exact hd.filter _

theorem mem_keys_erase {d : Dict β} {k x : Nat} : x ∈ keys (erase d k) ↔ x ∈ keys d ∧ x ≠ k := by
  rw [keys_erase]; simp

theorem mem_erase {d : Dict β} {k : Nat} {p : Nat × β} : p ∈ erase d k ↔ p ∈ d ∧ p.1 ≠ k := by
  unfold erase; simp

theorem set_of_not_mem {d : Dict β} {k : Nat} (h : k ∉ keys d) (v : β) : set d k v = d ++ [(k, v)] := by
  induction d with
  | nil => rfl
  | cons p r ih =>
    obtain ⟨k', v'⟩ := p
    simp only [keys, List.map_cons, List.mem_cons, not_or] at h
    have hne : ¬ k' = k := fun e => h.1 e.symm
    simp only [set, hne, if_false, List.cons_append]
    rw [ih h.2]

theorem get?_set (d : Dict β) (k : Nat) (v : β) (k' : Nat) :
    get? (set d k v) k' = if k' = k then some v else get? d k' := by
  induction d with
  | nil =>
    simp only [set, get?_cons, get?_nil]
    by_cases h : k = k' <;> simp [h, eq_comm]
  | cons p r ih =>
    obtain ⟨k0, v0⟩ := p
    by_cases h0 : k0 = k
    · subst h0
      simp only [set, if_true, get?_cons]
      by_cases h1 : k0 = k'
      · simp [h1]
      · have : ¬ k' = k0 := fun e => h1 e.symm
        simp [h1, this]
    · simp only [set, h0, if_false, get?_cons, ih]
      by_cases h1 : k0 = k'
      · subst h1; simp [h0]
      · simp [h1]

theorem length_erase_of_mem {d : Dict β} (hd : (keys d).Nodup) {k : Nat} (h : k ∈ keys d) :
    (erase d k).length + 1 = d.length := by
  induction d with
  | nil => simp [keys] at h
  | cons p r ih =>
    obtain ⟨k', v'⟩ := p
    simp only [keys, List.map_cons, List.nodup_cons] at hd
    by_cases e : k' = k
    · subst e
      have : erase r k' = r := by
        unfold erase
        apply List.filter_eq_self.mpr
        intro a ha
        have : a.1 ∈ keys r := List.mem_map.mpr ⟨a, ha, rfl⟩
        simp only [bne_iff_ne, ne_eq]
        intro e; exact hd.1 (e ▸ this)
      have hb : ((k', v').1 != k') = false := by simp
      simp only [erase, List.filter_cons, hb, List.length_cons] at this ⊢
      simp only [Bool.false_eq_true, if_false]
      rw [this]
    · have hk : k ∈ keys r := by
        simp only [keys, List.map_cons, List.mem_cons] at h
        rcases h with h | h
        · exact absurd h.symm e
        · exact h
      have := ih hd.2 hk
      have hb : ((k', v').1 != k) = true := by simp [e]
      simp only [erase, List.filter_cons, hb, if_true, List.length_cons] at this ⊢
      omega

end SkNet.Dendro.Dict
