/-
Termination of the work-list loop of `push_pagerank` (`while not worklist.empty()`), property C17, on the model of
C04 (`SkNet/Model/Rank.lean : pushLoop`), exact arithmetic.

A vertex is appended to the work-list only when its residual crosses the tolerance from below
(`residuals[neighbor] > tol > tmp`).  Residuals never decrease (every increment `residuals[vertex]·(1-α)/degrees[vertex]`
is non-negative: residuals stay non-negative, `α ≤ 1`, degrees are non-negative), so every vertex crosses at most
once: the quantity  |work-list| + #{v : residuals[v] < tol}  decreases by at least one per popped vertex.
With the initial work-list of `n` vertices the loop makes at most `2n` rounds.
-/
import SkNet.Model.Rank
import Mathlib.Data.Finset.Card
import Mathlib.Algebra.Order.Field.Rat
import Mathlib.Tactic.Linarith
import Mathlib.Tactic.Positivity

namespace SkNet.Terminate
open SkNet SkNet.Rank

/-- the vertices whose residual is still below the tolerance -/
def belowTol (resid : List ℚ) (tol : ℚ) : Finset Nat :=
  (Finset.range resid.length).filter fun v => resid.getD v 0 < tol

/-- the measure of the work-list loop -/
def pushMeasure (st : PState ℚ) (tol : ℚ) : Nat := st.work.length + (belowTol st.resid tol).card

theorem getD_set_rat (l : List ℚ) (i j : Nat) (a : ℚ) :
    (l.set i a).getD j 0 = if i = j ∧ j < l.length then a else l.getD j 0 := by
  simp only [List.getD_eq_getElem?_getD, List.getElem?_set]
  by_cases hij : i = j
  · subst hij
    by_cases hl : i < l.length
    · simp [hl]
    · simp [hl]
  · simp [hij]

/-- one neighbour: the measure does not grow, residuals stay non-negative, the length is kept -/
theorem pushStep_measure (deg : List ℚ) (a tol : ℚ) (ha : a ≤ 1) (hdeg : ∀ v, 0 ≤ deg.getD v 0) (vertex : Nat)
    (st : PState ℚ) (p : Nat × ℚ) (hnn : ∀ v, 0 ≤ st.resid.getD v 0) (hp : p.1 < st.resid.length) :
    let st' : PState ℚ :=
      (let nb := p.1
       let tmp := st.resid.getD nb 0
       let r' := tmp + st.resid.getD vertex 0 * (1 - a) / deg.getD vertex 0
       let resid := st.resid.set nb r'
       if tol < r' ∧ tmp < tol then { st with resid := resid, work := st.work ++ [nb] }
       else { st with resid := resid })
    pushMeasure st' tol ≤ pushMeasure st tol ∧ (∀ v, 0 ≤ st'.resid.getD v 0) ∧
      st'.resid.length = st.resid.length := by
  have hinc : 0 ≤ st.resid.getD vertex 0 * (1 - a) / deg.getD vertex 0 := by
    apply div_nonneg
    · exact mul_nonneg (hnn vertex) (by linarith)
    · exact hdeg vertex
  set r' := st.resid.getD p.1 0 + st.resid.getD vertex 0 * (1 - a) / deg.getD vertex 0 with hr'
  have hge : st.resid.getD p.1 0 ≤ r' := by rw [hr']; linarith
  have hnn' : ∀ v, 0 ≤ (st.resid.set p.1 r').getD v 0 := by
    intro v
    rw [getD_set_rat]
    split
    · exact le_trans (hnn p.1) hge
    · exact hnn v
  have hsub : belowTol (st.resid.set p.1 r') tol ⊆ belowTol st.resid tol := by
    intro v hv
    simp only [belowTol, Finset.mem_filter, Finset.mem_range, List.length_set] at hv ⊢
    refine ⟨hv.1, ?_⟩
    have := hv.2
    rw [getD_set_rat] at this
    split at this
    · rename_i hc
      rw [← hc.1]
      exact lt_of_le_of_lt hge this
    · exact this
  simp only
  split
  · rename_i hpush
    refine ⟨?_, hnn', by simp⟩
    -- pushed: `p.1` leaves the set of vertices below the tolerance
    have hmem : p.1 ∈ belowTol st.resid tol := by
      simp only [belowTol, Finset.mem_filter, Finset.mem_range]
      exact ⟨hp, hpush.2⟩
    have hnot : p.1 ∉ belowTol (st.resid.set p.1 r') tol := by
      simp only [belowTol, Finset.mem_filter, Finset.mem_range, List.length_set, not_and, not_lt]
      intro _
      rw [getD_set_rat, if_pos ⟨rfl, hp⟩]
      exact le_of_lt hpush.1
    have hss : belowTol (st.resid.set p.1 r') tol ⊂ belowTol st.resid tol :=
      Finset.ssubset_iff_subset_ne.mpr ⟨hsub, fun e => hnot (e ▸ hmem)⟩
    have := Finset.card_lt_card hss
    simp only [pushMeasure, List.length_append, List.length_singleton, ← hr']
    omega
  · refine ⟨?_, hnn', by simp⟩
    have := Finset.card_le_card hsub
    simp only [pushMeasure, ← hr']
    omega

/-- the loop over the out-neighbours of the popped vertex does not increase the measure -/
theorem pushNeighbours_measure (deg : List ℚ) (a tol : ℚ) (ha : a ≤ 1) (hdeg : ∀ v, 0 ≤ deg.getD v 0) (vertex : Nat) :
    ∀ (row : List (Nat × ℚ)) (st : PState ℚ), (∀ v, 0 ≤ st.resid.getD v 0) → (∀ p ∈ row, p.1 < st.resid.length) →
      pushMeasure (pushNeighbours deg a tol vertex row st) tol ≤ pushMeasure st tol ∧
      (∀ v, 0 ≤ (pushNeighbours deg a tol vertex row st).resid.getD v 0) ∧
      (pushNeighbours deg a tol vertex row st).resid.length = st.resid.length := by
  intro row
  induction row with
  | nil => intro st hnn _; exact ⟨Nat.le_refl _, hnn, rfl⟩
  | cons p ps ih =>
    intro st hnn hrow
    obtain ⟨m1, n1, l1⟩ := pushStep_measure deg a tol ha hdeg vertex st p hnn (hrow p (List.mem_cons_self ..))
    simp only [pushNeighbours, List.foldl_cons]
    have := ih _ n1 (fun q hq => by rw [l1]; exact hrow q (List.mem_cons_of_mem _ hq))
    simp only [pushNeighbours] at this
    exact ⟨le_trans this.1 m1, this.2.1, by rw [this.2.2, l1]⟩

/-- **The work-list loop of `push_pagerank` terminates** (exact arithmetic): if the residuals are non-negative,
    `α ≤ 1`, the degrees are non-negative and every stored column index is a vertex, then `pushMeasure` units of fuel
    suffice — at most `|work-list| + n`. -/
theorem pushLoop_terminates (g : Graph ℚ) (deg : List ℚ) (a tol : ℚ) (ha : a ≤ 1) (hdeg : ∀ v, 0 ≤ deg.getD v 0)
    (N : Nat) (hg : ∀ v, ∀ p ∈ g.row v, p.1 < N) :
    ∀ (fuel : Nat) (st : PState ℚ), (∀ v, 0 ≤ st.resid.getD v 0) → st.resid.length = N →
      pushMeasure st tol ≤ fuel → pushLoop g deg a tol fuel st ≠ none := by
  intro fuel
  induction fuel with
  | zero =>
    intro st _ _ hm
    have : st.work.length = 0 := by simp only [pushMeasure] at hm; omega
    have : st.work = [] := List.length_eq_zero_iff.mp this
    simp [pushLoop, this]
  | succ f ih =>
    intro st hnn hlen hm
    simp only [pushLoop]
    cases hw : st.work with
    | nil => simp
    | cons v rest =>
      simp only
      have hm1 : pushMeasure { st with scores := st.scores.modify v (fun s => s + st.resid.getD v 0), work := rest } tol
          + 1 = pushMeasure st tol := by
        simp only [pushMeasure, hw, List.length_cons]
        omega
      obtain ⟨m2, n2, l2⟩ := pushNeighbours_measure deg a tol ha hdeg v (g.row v)
        { st with scores := st.scores.modify v (fun s => s + st.resid.getD v 0), work := rest } hnn
        (fun p hp => by show p.1 < st.resid.length; rw [hlen]; exact hg v p hp)
      exact ih _ n2 (by rw [l2]; exact hlen) (by omega)

end SkNet.Terminate
