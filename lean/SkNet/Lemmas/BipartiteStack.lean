/-
Helper lemmas for C03: `get_values` / `stack_values` of Model/Bipartite.lean as tabulated vectors, and the look-up in a
dict whose column keys were shifted by `n_row`.
-/
import SkNet.Model.Bipartite

namespace SkNet.Bip

attribute [-simp] List.getD_eq_getElem?_getD

theorem tab_congr {n : Nat} {f g : Nat → α} (h : ∀ i, i < n → f i = g i) : tab n f = tab n g := by
  apply List.ext_getElem?
  intro i
  rw [tab_getElem?, tab_getElem?]
  by_cases hi : i < n
  · simp [hi, h i hi]
  · simp [hi]

/-- two tabulated vectors one after the other are one tabulated vector -/
theorem tab_append (n m : Nat) (f g : Nat → α) :
    tab n f ++ tab m g = tab (n + m) fun i => if i < n then f i else g (i - n) := by
  apply List.ext_getElem?
  intro i
  rw [tab_getElem?]
  by_cases hi : i < n
  · rw [List.getElem?_append_left (by simpa using hi), tab_getElem?]
    have : i < n + m := by omega
    simp [hi, this]
  · rw [List.getElem?_append_right (by simpa using Nat.le_of_not_lt hi), tab_getElem?]
    simp only [tab_length]
    by_cases h2 : i - n < m
    · have : i < n + m := by omega
      simp [h2, this, hi]
    · have : ¬ i < n + m := by omega
      simp [h2, this]

/-- a list is the tabulation of its entries -/
theorem eq_tab_of_length {l : List Rat} {n : Nat} (h : l.length = n) (d : Rat) : l = tab n fun i => l.getD i d := by
  apply List.ext_getElem?
  intro i
  rw [tab_getElem?]
  by_cases hi : i < n
  · have hi' : i < l.length := by omega
    simp [hi, List.getD_eq_getElem?_getD, List.getElem?_eq_getElem hi']
  · simp [hi, List.getElem?_eq_none (by omega : l.length ≤ i)]

theorem getValues_length {n : Nat} {v : Values} {d : Rat} {y : List Rat}
    (hy : getValues n (some v) d = .ok y) : y.length = n := by
  unfold getValues at hy
  cases v with
  | arr l =>
    simp only at hy
    split at hy
    · cases hy
    · rename_i hl; cases hy; simpa using hl
  | dict kv =>
    simp only at hy
    split at hy
    · cases hy
    · split at hy
      · cases hy; simp
      · cases hy

theorem getValues_arr_ok {n : Nat} {l : List Rat} (d : Rat) (h : l.length = n) :
    getValues n (some (.arr l)) d = .ok l := by
  simp [getValues, h]

theorem getValues_dict_ok (n : Nat) (kv : List (Nat × Rat)) (d : Rat) (hne : kv ≠ [])
    (hin : ∀ p ∈ kv, p.1 < n) :
    getValues n (some (.dict kv)) d = .ok (tab n fun i => (dictLookup kv i).getD d) := by
  have h1 : kv.isEmpty = false := by cases kv <;> simp_all
  have h2 : kv.all (fun p => p.1 < n) = true := List.all_eq_true.2 (fun p hp => by simpa using hin p hp)
  simp [getValues, h1, h2]

/-- `stack_values` succeeds exactly when both (defaulted) parts do, and then it is their concatenation -/
theorem stackValues_ok_iff (nRow nCol : Nat) (vr vc : Option Values) (d : Rat) (x : List Rat) :
    stackValues nRow nCol vr vc d = .ok x ↔
      ∃ r c, getValues nRow (some (defaultedRow nRow vr vc d)) d = .ok r ∧
             getValues nCol (some (defaultedCol nCol vc d)) d = .ok c ∧ x = r ++ c := by
  unfold stackValues
  simp only [bind, Except.bind, pure, Except.pure]
  constructor
  · intro h
    split at h
    · cases h
    · rename_i r hr
      split at h
      · cases h
      · rename_i c hc
        cases h
        exact ⟨r, c, hr, hc, rfl⟩
  · rintro ⟨r, c, hr, hc, rfl⟩
    simp [hr, hc]

theorem stackValues_eq {nRow nCol : Nat} {vr vc : Option Values} {d : Rat} {r c : List Rat}
    (hr : getValues nRow (some (defaultedRow nRow vr vc d)) d = .ok r)
    (hc : getValues nCol (some (defaultedCol nCol vc d)) d = .ok c) :
    stackValues nRow nCol vr vc d = .ok (r ++ c) :=
  (stackValues_ok_iff ..).2 ⟨r, c, hr, hc, rfl⟩

theorem stackValues_length {nRow nCol : Nat} {vr vc : Option Values} {d : Rat} {x : List Rat}
    (h : stackValues nRow nCol vr vc d = .ok x) : x.length = nRow + nCol := by
  obtain ⟨r, c, hr, hc, rfl⟩ := (stackValues_ok_iff ..).1 h
  simp [getValues_length hr, getValues_length hc]

/-! ### look-up in dicts with shifted keys -/

theorem dictLookup_none_of_ge {kv : List (Nat × Rat)} {n i : Nat} (hin : ∀ p ∈ kv, p.1 < n) (hi : n ≤ i) :
    dictLookup kv i = none := by
  unfold dictLookup
  rw [Option.map_eq_none_iff, List.find?_eq_none]
  intro p hp
  have := hin p (List.mem_reverse.1 hp)
  simp; omega

/-- keys shifted by `nRow`: nothing below `nRow`, the original entry above -/
theorem dictLookup_shift (nRow : Nat) (kc : List (Nat × Rat)) (i : Nat) :
    dictLookup (kc.map fun p => (nRow + p.1, p.2)) i = if i < nRow then none else dictLookup kc (i - nRow) := by
  unfold dictLookup
  by_cases hlt : i < nRow
  · simp only [hlt, if_true]
    rw [Option.map_eq_none_iff, List.find?_eq_none]
    intro p hp
    obtain ⟨q, _, rfl⟩ := List.mem_map.1 (List.mem_reverse.1 hp)
    simp; omega
  · simp only [hlt, if_false]
    rw [← List.map_reverse, List.find?_map]
    have hfun : ((fun p : Nat × Rat => p.1 == i) ∘ fun p : Nat × Rat => (nRow + p.1, p.2))
        = fun p => p.1 == i - nRow := by
      funext p
      simp only [Function.comp]
      apply Bool.eq_iff_iff.2
      simp; omega
    rw [hfun]
    cases hfc : kc.reverse.find? (fun p => p.1 == i - nRow) with
    | none => simp
    | some q => simp

/-- a row dict followed by a shifted column dict: rows are looked up in the first, columns in the second -/
theorem dictLookup_append_shift (nRow : Nat) (kr kc : List (Nat × Rat)) (i : Nat) (hrin : ∀ p ∈ kr, p.1 < nRow) :
    dictLookup (kr ++ kc.map fun p => (nRow + p.1, p.2)) i =
      if i < nRow then dictLookup kr i else dictLookup kc (i - nRow) := by
  have hs := dictLookup_shift nRow kc i
  unfold dictLookup at hs ⊢
  rw [List.reverse_append, List.find?_append]
  by_cases hlt : i < nRow
  · simp only [hlt, if_true] at hs ⊢
    rw [Option.map_eq_none_iff] at hs
    simp [hs]
  · simp only [hlt, if_false] at hs ⊢
    have hkr : kr.reverse.find? (fun p => p.1 == i) = none := by
      rw [List.find?_eq_none]
      intro p hp
      have := hrin p (List.mem_reverse.1 hp)
      simp; omega
    rw [← hs]
    cases hfc : (kc.map fun p => (nRow + p.1, p.2)).reverse.find? (fun p => p.1 == i) with
    | none => simp [hkr]
    | some q => simp

end SkNet.Bip
