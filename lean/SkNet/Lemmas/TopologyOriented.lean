/-
C11 helper lemmas: the clique count does not depend on the order in which the nodes are listed (symmetric
adjacency), and the recursive count over any orientation by an injective rank equals the brute-force count.
-/
import SkNet.Lemmas.TopologyCliques

set_option linter.unusedSimpArgs false

namespace SkNet.Topology

/-- the brute-force clique count is invariant under permutation of the node list -/
theorem cliqueCountOn_perm (adj : Nat → Nat → Bool) (hsym : ∀ a b, adj a b = adj b a) :
    ∀ (k : Nat) {l l' : List Nat}, l.Perm l' → cliqueCountOn adj k l = cliqueCountOn adj k l' := by
  intro k
  induction k with
  | zero => intro l l' _; rw [cliqueCountOn_zero, cliqueCountOn_zero]
  | succ k ihk =>
    intro l l' h
    induction h with
    | nil => rfl
    | cons x h ih =>
      rw [cliqueCountOn_cons, cliqueCountOn_cons, ih, ihk (h.filter _)]
    | swap x y t =>
      rw [cliqueCountOn_cons, cliqueCountOn_cons, cliqueCountOn_cons, cliqueCountOn_cons]
      have hc : (t.filter (adj x)).filter (adj y) = (t.filter (adj y)).filter (adj x) := by
        rw [List.filter_filter, List.filter_filter]
        apply List.filter_congr; intro z _; rw [Bool.and_comm]
      rw [List.filter_cons, List.filter_cons, hsym x y]
      by_cases hxy : adj y x = true
      · simp only [hxy, if_true]
        cases k with
        | zero => simp only [cliqueCountOn_zero]
        | succ k =>
          rw [cliqueCountOn_cons, cliqueCountOn_cons, hc]; omega
      · rw [if_neg hxy, if_neg hxy]; omega
    | trans _ _ ih1 ih2 => rw [ih1, ih2]

/-- the recursive count over an orientation `p u y` ("`y` is an out-neighbour of `u`") on a candidate set `S` -/
def orientedCount (p : Nat → Nat → Bool) : Nat → List Nat → Nat
  | 0, _ => 1
  | k+1, S => (S.map fun u => orientedCount p k (S.filter (p u))).sum

/-- the orientation of an undirected graph by a rank `r` -/
def orient (adj : Nat → Nat → Bool) (r : Nat → Int) (u y : Nat) : Bool := adj u y && decide (r u < r y)

/-- one level of the brute-force count on a list that is strictly increasing in rank -/
theorem cliqueCountOn_succ_ranked (adj : Nat → Nat → Bool) (r : Nat → Int) (k : Nat) (l : List Nat)
    (h : l.Pairwise fun a b => r a < r b) :
    cliqueCountOn adj (k+1) l = (l.map fun x => cliqueCountOn adj k (l.filter (orient adj r x))).sum := by
  induction l with
  | nil => rw [cliqueCountOn_nil]; rfl
  | cons a as ih =>
    rw [List.pairwise_cons] at h
    rw [cliqueCountOn_cons, ih h.2, List.map_cons, List.sum_cons]
    have h1 : (a :: as).filter (orient adj r a) = as.filter (adj a) := by
      rw [List.filter_cons]
      have : orient adj r a a = false := by simp [orient]
      rw [if_neg (by rw [this]; exact Bool.false_ne_true)]
      apply List.filter_congr
      intro y hy
      simp [orient, h.1 y hy]
    rw [h1]
    congr 1
    congr 1
    apply List.map_congr_left
    intro x hx
    have : ¬ r x < r a := by have := h.1 x hx; omega
    rw [List.filter_cons]
    simp [orient, this]

/-- sorting a duplicate-free list by an injective rank makes it strictly increasing in rank -/
theorem exists_ranked_perm (r : Nat → Int) (S : List Nat) (hnd : S.Nodup)
    (hinj : ∀ a ∈ S, ∀ b ∈ S, r a = r b → a = b) :
    ∃ S' : List Nat, S'.Perm S ∧ S'.Pairwise fun a b => r a < r b := by
  refine ⟨S.mergeSort (fun a b => decide (r a ≤ r b)), List.mergeSort_perm _ _, ?_⟩
  have hp : (S.mergeSort (fun a b => decide (r a ≤ r b))).Pairwise (fun a b => decide (r a ≤ r b) = true) :=
    List.pairwise_mergeSort (by intro a b c; simp; omega) (by intro a b; simp; omega) S
  have hnd' : (S.mergeSort (fun a b => decide (r a ≤ r b))).Nodup := (List.mergeSort_perm _ _).nodup_iff.2 hnd
  have hboth := hp.and hnd'
  apply hboth.imp_of_mem
  intro a b ha hb hab
  have ha' : a ∈ S := List.mem_mergeSort.1 ha
  have hb' : b ∈ S := List.mem_mergeSort.1 hb
  have h1 : r a ≤ r b := by simpa using hab.1
  have h2 : r a ≠ r b := fun e => hab.2 (hinj a ha' b hb' e)
  omega

theorem sum_map_perm {l l' : List Nat} (f : Nat → Nat) (h : l.Perm l') : (l.map f).sum = (l'.map f).sum :=
  (h.map f).sum_nat

/-- ★ the recursive count over the orientation by any injective rank is the brute-force clique count -/
theorem orientedCount_eq (adj : Nat → Nat → Bool) (hsym : ∀ a b, adj a b = adj b a) (r : Nat → Int) :
    ∀ (k : Nat) (S : List Nat), S.Nodup → (∀ a ∈ S, ∀ b ∈ S, r a = r b → a = b) →
      orientedCount (orient adj r) k S = cliqueCountOn adj k S := by
  intro k
  induction k with
  | zero => intro S _ _; rw [cliqueCountOn_zero]; rfl
  | succ k ih =>
    intro S hnd hinj
    obtain ⟨S', hperm, hsorted⟩ := exists_ranked_perm r S hnd hinj
    have step1 : orientedCount (orient adj r) (k+1) S =
        (S.map fun u => cliqueCountOn adj k (S.filter (orient adj r u))).sum := by
      show (S.map fun u => orientedCount (orient adj r) k (S.filter (orient adj r u))).sum = _
      congr 1
      apply List.map_congr_left
      intro u _
      apply ih
      · exact hnd.filter _
      · intro a ha b hb
        exact hinj a (List.mem_filter.1 ha).1 b (List.mem_filter.1 hb).1
    rw [step1, sum_map_perm _ hperm.symm]
    have step2 : (S'.map fun u => cliqueCountOn adj k (S.filter (orient adj r u))) =
        (S'.map fun u => cliqueCountOn adj k (S'.filter (orient adj r u))) := by
      apply List.map_congr_left
      intro u _
      exact cliqueCountOn_perm adj hsym k (hperm.symm.filter _)
    rw [step2, ← cliqueCountOn_succ_ranked adj r k S' hsorted]
    exact cliqueCountOn_perm adj hsym (k+1) hperm

/-- the recursive count only depends on the candidate *set* -/
theorem orientedCount_perm (adj : Nat → Nat → Bool) (hsym : ∀ a b, adj a b = adj b a) (r : Nat → Int)
    (k : Nat) (S S' : List Nat) (hnd : S.Nodup) (hinj : ∀ a ∈ S, ∀ b ∈ S, r a = r b → a = b) (h : S.Perm S') :
    orientedCount (orient adj r) k S = orientedCount (orient adj r) k S' := by
  rw [orientedCount_eq adj hsym r k S hnd hinj,
    orientedCount_eq adj hsym r k S' (h.nodup_iff.1 hnd)
      (fun a ha b hb => hinj a (h.mem_iff.2 ha) b (h.mem_iff.2 hb)),
    cliqueCountOn_perm adj hsym k h]

end SkNet.Topology
