/-
Counting what a document contains: `countElems`, `textContents` and `dropDefs` over the templates and loops of
Model/Svg.lean.  `Shape ps s` says that the pieces `ps` contribute the summary `s` (circles, sectors, edge paths,
displayed texts) wherever they stand in a document.
-/
import SkNet.Lemmas.SvgDoc
import SkNet.Lemmas.SvgIndex
import SkNet.Spec.Svg

set_option linter.unusedSimpArgs false

namespace SkNet.Svg

/-! ### `countElems`, `textContents`, `dropDefs` over concatenation -/

theorem countElems_append (n : PyStr) (p : List Attr → Bool) (a b : List Piece) :
    countElems n p (a ++ b) = countElems n p a + countElems n p b := by
  induction a with
  | nil => simp [countElems]
  | cons x xs ih =>
    cases x <;> simp [countElems, ih] <;> omega

/-- no `<defs>` start tag among the pieces -/
def noDefs : List Piece → Bool
  | [] => true
  | .otag m _ _ :: r => m != py!"defs" && noDefs r
  | _ :: r => noDefs r

theorem noDefs_append (a b : List Piece) : noDefs (a ++ b) = (noDefs a && noDefs b) := by
  induction a with
  | nil => simp [noDefs]
  | cons x xs ih => cases x <;> simp [noDefs, ih, Bool.and_assoc]

theorem dropDefs_noDefs (a r : List Piece) (h : noDefs a = true) : dropDefs (a ++ r) 0 = a ++ dropDefs r 0 := by
  induction a with
  | nil => rfl
  | cons x xs ih =>
    cases x with
    | otag m as t =>
      simp only [noDefs, Bool.and_eq_true, bne_iff_ne, ne_eq] at h
      have hm : (m == py!"defs") = false := by simpa using h.1
      simp [dropDefs, hm, ih h.2]
    | etag m as t => simp only [noDefs] at h; simp [dropDefs, ih h]
    | ctag m t => simp only [noDefs] at h; simp [dropDefs, ih h]
    | chr c => simp only [noDefs] at h; simp [dropDefs, ih h]
    | ref b => simp only [noDefs] at h; simp [dropDefs, ih h]

/-- the marker definition of one colour leaves only its trailing line feed outside `defs` -/
theorem dropDefs_marker (c : PyStr) (r : List Piece) : dropDefs (svgMarker c ++ r) 0 = .chr 10 :: dropDefs r 0 := by
  have h1 : (py!"defs" == py!"defs") = true := by decide
  have h2 : (py!"marker" == py!"defs") = false := by decide
  simp [svgMarker, dropDefs, h1, h2]

theorem dropDefs_markers (cs : List PyStr) (r : List Piece) :
    dropDefs (cs.flatMap svgMarker ++ r) 0 = List.replicate cs.length (.chr 10) ++ dropDefs r 0 := by
  induction cs with
  | nil => simp
  | cons c cs ih =>
    simp only [List.flatMap_cons, List.append_assoc, List.length_cons, List.replicate_succ, List.cons_append]
    rw [dropDefs_marker, ih]

/-! ### the contribution of a group of pieces -/

structure Summary where
  circles : Nat
  sectors : Nat
  edgePaths : Nat
  texts : List PyStr
deriving Repr, DecidableEq

def Summary.add (a b : Summary) : Summary :=
  ⟨a.circles + b.circles, a.sectors + b.sectors, a.edgePaths + b.edgePaths, a.texts ++ b.texts⟩

def Summary.zero : Summary := ⟨0, 0, 0, []⟩

/-- `ps` has no `defs`, contributes these counts, and its `text` elements are closed inside it -/
structure Shape (ps : List Piece) (s : Summary) : Prop where
  nodefs : noDefs ps = true
  circles : countElems py!"circle" (fun _ => true) ps = s.circles
  sectors : countElems py!"path" hasStyle ps = s.sectors
  edges : countElems py!"path" hasStroke ps = s.edgePaths
  texts : ∀ r, textContents (ps ++ r) = s.texts ++ textContents r

theorem Shape.nil : Shape [] Summary.zero := ⟨rfl, rfl, rfl, rfl, fun _ => rfl⟩

theorem Shape.append {a b : List Piece} {sa sb : Summary} (ha : Shape a sa) (hb : Shape b sb) :
    Shape (a ++ b) (sa.add sb) := by
  refine ⟨?_, ?_, ?_, ?_, fun r => ?_⟩
  · rw [noDefs_append, ha.nodefs, hb.nodefs]; rfl
  · rw [countElems_append, ha.circles, hb.circles]; rfl
  · rw [countElems_append, ha.sectors, hb.sectors]; rfl
  · rw [countElems_append, ha.edges, hb.edges]; rfl
  · rw [List.append_assoc, ha.texts, hb.texts]; simp [Summary.add]

/-- an element that is not `text`, without content -/
theorem Shape.chr (c : Nat) : Shape [.chr c] Summary.zero :=
  ⟨rfl, rfl, rfl, rfl, fun _ => rfl⟩

/-! ### names -/

theorem textUpToTag_escape (s : PyStr) (n : PyStr) (t : PyStr) (r : List Piece) :
    textUpToTag (escape s ++ .ctag n t :: r) = displayed s := by
  induction s with
  | nil => simp [escape, textUpToTag, displayed]
  | cons c s ih =>
    have hd : displayed (c :: s) = (if isXmlChar c then c else 0xFFFD) :: displayed s := by simp [displayed]
    rw [hd]
    simp only [escape, List.append_assoc]
    unfold escapeCp
    split
    · rename_i h; subst h; simp only [List.cons_append, List.nil_append, textUpToTag, ih]; congr 1
    split
    · rename_i h; subst h; simp only [List.cons_append, List.nil_append, textUpToTag, ih]; congr 1
    split
    · rename_i h; subst h; simp only [List.cons_append, List.nil_append, textUpToTag, ih]; congr 1
    split
    · rename_i h; subst h; simp only [List.cons_append, List.nil_append, textUpToTag, ih]; congr 1
    split
    · rename_i h; subst h; simp only [List.cons_append, List.nil_append, textUpToTag, ih]; congr 1
    split
    · rename_i h; simp [textUpToTag, ih, h]
    · rename_i h; simp [textUpToTag, ih, h]

theorem textContents_escape (s : PyStr) (r : List Piece) : textContents (escape s ++ r) = textContents r := by
  induction s with
  | nil => rfl
  | cons c s ih =>
    simp only [escape, List.append_assoc]
    unfold escapeCp
    repeat' split
    all_goals simp [textContents, ih]

theorem countElems_escape (n : PyStr) (p : List Attr → Bool) (s : PyStr) : countElems n p (escape s) = 0 := by
  induction s with
  | nil => rfl
  | cons c s ih =>
    simp only [escape, countElems_append, ih]
    unfold escapeCp
    repeat' split
    all_goals simp [countElems]

theorem noDefs_escape (s : PyStr) : noDefs (escape s) = true := by
  induction s with
  | nil => rfl
  | cons c s ih =>
    simp only [escape, noDefs_append, ih]
    unfold escapeCp
    repeat' split
    all_goals simp [noDefs]

theorem plainOf_displayed (s : PyStr) : plainOf (displayed s) = plainOf s := by
  induction s with
  | nil => rfl
  | cons c s ih =>
    simp only [displayed, List.map_cons, plainOf] at ih ⊢
    by_cases hc : isXmlChar c = true
    · simp [hc, List.filter_cons, ih]
    · have h1 : isPlain c = false := by simp [isPlain, hc]
      have h2 : isPlain 0xFFFD = false := by decide
      simp [hc, List.filter_cons, h1, h2, ih]

/-- a `text` element with the escaped name as content shows exactly `displayed name` -/
theorem Shape.textElem (as : List Attr) (t : PyStr) (name : PyStr) :
    Shape (.otag py!"text" as t :: (escape name ++ [.ctag py!"text" []])) ⟨0, 0, 0, [displayed name]⟩ := by
  have ht : (py!"text" == py!"defs") = false := by decide
  have ht2 : (py!"text" == py!"circle") = false := by decide
  have ht3 : (py!"text" == py!"path") = false := by decide
  have ht4 : (py!"text" == py!"text") = true := by decide
  refine ⟨?_, ?_, ?_, ?_, fun r => ?_⟩
  · simp [noDefs, noDefs_append, noDefs_escape]
  · simp [countElems, countElems_append, countElems_escape, ht2]
  · simp [countElems, countElems_append, countElems_escape, ht3]
  · simp [countElems, countElems_append, countElems_escape, ht3]
  · simp only [List.cons_append, List.append_assoc, textContents, ht4, if_true, List.nil_append]
    rw [textUpToTag_escape, textContents_escape]
    simp [textContents]

/-! ### templates -/

theorem svgNode_shape (x y size color sw : PyStr) : Shape (svgNode x y size color sw) ⟨1, 0, 0, []⟩ := by
  refine ⟨rfl, ?_, ?_, ?_, fun r => rfl⟩ <;> simp [svgNode, countElems] <;> decide

theorem svgPieSector_shape (t : Nat → PyStr) (color sw : PyStr) : Shape (svgPieSector t color sw) ⟨0, 1, 0, []⟩ := by
  have h1 : (py!"style" == py!"d") = false := by decide
  have h2 : (py!"stroke" == py!"d") = false := by decide
  have h3 : (py!"stroke" == py!"style") = false := by decide
  have h4 : (py!"path" == py!"circle") = false := by decide
  refine ⟨rfl, ?_, ?_, ?_, fun r => rfl⟩ <;>
    simp [svgPieSector, countElems, hasStyle, hasStroke, attrVal?, att, List.find?, h1, h2, h3, h4]

theorem svgEdge_shape (t : Nat → PyStr) (color : PyStr) : Shape (svgEdge t color) ⟨0, 0, 1, []⟩ := by
  have h1 : (py!"stroke-width" == py!"style") = false := by decide
  have h2 : (py!"stroke" == py!"style") = false := by decide
  have h3 : (py!"d" == py!"style") = false := by decide
  have h4 : (py!"stroke-width" == py!"stroke") = false := by decide
  have h5 : (py!"path" == py!"circle") = false := by decide
  refine ⟨rfl, ?_, ?_, ?_, fun r => rfl⟩ <;>
    simp [svgEdge, countElems, hasStyle, hasStroke, attrVal?, att, List.find?, h1, h2, h3, h4, h5]

/-- a directed edge is drawn iff its end points differ -/
theorem svgEdgeDirected_shape (p1 p2 : Rat × Rat) (t : Nat → PyStr) (color : PyStr) :
    Shape (svgEdgeDirected p1 p2 t color)
      ⟨0, 0, if p2.1 - p1.1 = 0 ∧ p2.2 - p1.2 = 0 then 0 else 1, []⟩ := by
  have h1 : (py!"stroke-width" == py!"style") = false := by decide
  have h2 : (py!"stroke" == py!"style") = false := by decide
  have h3 : (py!"d" == py!"style") = false := by decide
  have h4 : (py!"stroke-width" == py!"stroke") = false := by decide
  have h5 : (py!"path" == py!"circle") = false := by decide
  have h6 : (py!"marker-end" == py!"style") = false := by decide
  unfold svgEdgeDirected
  split
  · exact Shape.nil
  · refine ⟨rfl, ?_, ?_, ?_, fun r => rfl⟩ <;>
      simp [countElems, hasStyle, hasStroke, attrVal?, att, List.find?, h1, h2, h3, h4, h5, h6]

theorem svgText_shape (t : Nat → PyStr) (text : PyStr) (position : NamePos) :
    Shape (svgText t text position) ⟨0, 0, 0, [displayed text]⟩ := by
  unfold svgText
  exact Shape.textElem _ _ _

theorem dendroText_shape (ν : Nums) (i : Nat) (name : PyStr) (rotate rotateNames : Bool) :
    Shape (dendroText ν i name rotate rotateNames) ⟨0, 0, 0, [displayed name]⟩ := by
  unfold dendroText
  simp only
  split
  · exact Shape.textElem _ _ _
  · split <;> exact Shape.textElem _ _ _

theorem dendroPaths_shape (ν : Nums) (t : Nat) (c : PyStr) : Shape (dendroPaths ν t c) ⟨0, 0, 3, []⟩ := by
  have h1 : (py!"stroke-width" == py!"style") = false := by decide
  have h2 : (py!"stroke" == py!"style") = false := by decide
  have h3 : (py!"d" == py!"style") = false := by decide
  have h4 : (py!"stroke-width" == py!"stroke") = false := by decide
  have h5 : (py!"path" == py!"circle") = false := by decide
  refine ⟨rfl, ?_, ?_, ?_, fun r => rfl⟩ <;>
    simp [dendroPaths, List.range, List.range.loop, countElems, hasStyle, hasStroke, attrVal?, att, List.find?,
      h1, h2, h3, h4, h5]

/-! ### loops with a running summary -/

theorem foldlM_prefix {α β ε : Type} (P : List α → β → Prop) (f : β → α → Except ε β) (l : List α) :
    ∀ (pre : List α) (init res : β), P pre init →
      (∀ pre x acc acc', P pre acc → f acc x = .ok acc' → P (pre ++ [x]) acc') →
      l.foldlM f init = .ok res → P (pre ++ l) res := by
  induction l with
  | nil =>
    intro pre init res h0 _ h
    simp only [List.foldlM, pure, Except.pure, Except.ok.injEq] at h
    simpa using h ▸ h0
  | cons x xs ih =>
    intro pre init res h0 hstep h
    simp only [List.foldlM, bind, Except.bind] at h
    cases hx : f init x with
    | error e => simp [hx] at h
    | ok acc' =>
      simp only [hx] at h
      have := ih (pre ++ [x]) acc' res (hstep pre x init acc' h0 hx) hstep h
      simpa using this

/-! ### the whole document -/

theorem rootName_svgDoc (ν : Nums) (tb nl : Bool) (body : List Piece) :
    rootName (svgDoc ν tb nl body) = some py!"svg" := rfl

/-- what is observed in a document whose content is marker definitions followed by pieces of shape `s` -/
theorem observed_svgDoc (ν : Nums) (tb nl : Bool) (cs : List PyStr) {body : List Piece} {s : Summary}
    (hb : Shape body s) :
    observed (svgDoc ν tb nl (cs.flatMap svgMarker ++ body)) =
      ⟨s.circles, s.sectors, s.edgePaths, s.texts⟩ := by
  have hs1 : (py!"svg" == py!"defs") = false := by decide
  have hs2 : (py!"svg" == py!"circle") = false := by decide
  have hs3 : (py!"svg" == py!"path") = false := by decide
  have hs4 : (py!"svg" == py!"text") = false := by decide
  have hlead : ∀ r, dropDefs ((if nl = true then [Piece.chr 10] else []) ++ r) 0 =
      (if nl = true then [Piece.chr 10] else []) ++ dropDefs r 0 := by
    intro r; cases nl <;> simp [dropDefs]
  have htail : dropDefs (Piece.ctag py!"svg" [] :: (if nl = true then [Piece.chr 10] else [])) 0 =
      Piece.ctag py!"svg" [] :: (if nl = true then [Piece.chr 10] else []) := by
    cases nl <;> simp [dropDefs]
  have hdrop : dropDefs (svgDoc ν tb nl (cs.flatMap svgMarker ++ body)) 0 =
      Piece.otag py!"svg" (svgHeader ν tb) [] :: ((if nl = true then [Piece.chr 10] else []) ++
        (List.replicate cs.length (Piece.chr 10) ++ (body ++
          (Piece.ctag py!"svg" [] :: (if nl = true then [Piece.chr 10] else []))))) := by
    unfold svgDoc
    simp only [dropDefs, hs1, if_false, if_true, Bool.false_eq_true]
    rw [hlead, List.append_assoc, dropDefs_markers, dropDefs_noDefs _ _ hb.nodefs, htail]
  have hcnt : ∀ (n : PyStr) (p : List Attr → Bool) (k : Nat), countElems n p (List.replicate k (Piece.chr 10)) = 0 := by
    intro n p k; induction k with
    | zero => rfl
    | succ k ih => simp [List.replicate_succ, countElems, ih]
  have htxt : ∀ (k : Nat) (r : List Piece), textContents (List.replicate k (Piece.chr 10) ++ r) = textContents r := by
    intro k r; induction k with
    | zero => rfl
    | succ k ih => simp [List.replicate_succ, textContents, ih]
  have hleadc : ∀ (n : PyStr) (p : List Attr → Bool),
      countElems n p (if nl = true then [Piece.chr 10] else []) = 0 := by
    intro n p; cases nl <;> simp [countElems]
  have htailc : ∀ (n : PyStr) (p : List Attr → Bool),
      countElems n p (Piece.ctag py!"svg" [] :: (if nl = true then [Piece.chr 10] else [])) = 0 := by
    intro n p; cases nl <;> simp [countElems]
  have hleadt : ∀ r, textContents ((if nl = true then [Piece.chr 10] else []) ++ r) = textContents r := by
    intro r; cases nl <;> simp [textContents]
  have htailt : textContents (Piece.ctag py!"svg" [] :: (if nl = true then [Piece.chr 10] else [])) = [] := by
    cases nl <;> simp [textContents]
  unfold observed
  simp only [hdrop]
  simp only [countElems, hs2, hs3, Bool.false_and, if_false, Bool.false_eq_true, Nat.zero_add, countElems_append,
    hcnt, hleadc, htailc, Nat.add_zero, textContents, hs4, hleadt, htxt]
  rw [hb.texts, htailt]
  have e1 := hb.circles
  have e2 := hb.sectors
  have e3 := hb.edges
  simp [e1, e2, e3]

/-- the pieces of a document made of `Inner` content are lexically sound -/
theorem svgDoc_lexOk {ν : Nums} (hν : SafeNums ν) (tb nl : Bool) {body : List Piece} (hb : Inner body) :
    piecesLexOk (svgDoc ν tb nl body) = true := by
  have hh : (svgHeader ν tb).all attrLexOk = true := by
    unfold svgHeader
    refine all_attrLexOk_cons (attrLexOk_att (by decide) (hν _ _ _))
      (all_attrLexOk_cons (attrLexOk_att (by decide) (hν _ _ _)) (all_attrLexOk_cons ?_ rfl))
    split
    · exact attrLexOk_att2 (by decide) (by decide)
    · exact attrLexOk_att (by decide) (by decide)
  have h1 := hb.1
  unfold svgDoc
  simp only [piecesLexOk, List.all_cons, List.all_append, pieceLexOk, hh, Bool.and_true, Bool.true_and] at *
  cases nl <;> simp [h1, pieceLexOk] <;> decide

/-- the whole observation of C20 on the rendered document -/
theorem docMeets_svgDoc {ν : Nums} (hν : SafeNums ν) (tb nl : Bool) (cs : List PyStr)
    {body : List Piece} {s : Summary} (hi : Inner body) (hs : Shape body s) :
    docMeets (render (svgDoc ν tb nl (cs.flatMap svgMarker ++ body)))
      ⟨s.circles, s.sectors, s.edgePaths, s.texts⟩ = true := by
  have hin : Inner (cs.flatMap svgMarker ++ body) :=
    Inner.append (Inner.flatMap _ _ (fun c => svgMarker_inner c)) hi
  have hwf := svgDoc_wf hν tb nl hin
  have hlex := svgDoc_lexOk hν tb nl hin
  unfold docMeets
  rw [hwf, parseDoc_render _ hlex]
  simp only [Bool.true_and, rootName_svgDoc, observed_svgDoc ν tb nl cs hs]
  rw [beq_self_eq_true, beq_self_eq_true]
  rfl

theorem Shape.cast {ps : List Piece} {s s' : Summary} (h : Shape ps s) (e : s = s') : Shape ps s' := e ▸ h

/-! ### dendrogram loops -/

theorem dendroNames_shape {ν : Nums} {a : DendroArgs} {index : List Nat} {names : List PyStr} {ps : List Piece}
    (hn : a.names = some names) (h : dendroNames ν a index = .ok ps) :
    Shape ps ⟨0, 0, 0, (List.range index.length).map fun i => displayed (names.getD i [])⟩ := by
  unfold dendroNames at h
  rw [hn] at h
  simp only at h
  have := foldlM_prefix (fun pre acc => Shape acc ⟨0, 0, 0, pre.map fun i => displayed (names.getD i [])⟩)
    _ _ [] [] ps Shape.nil ?_ h
  · simpa using this
  · intro pre x acc acc' hacc hstep
    split at hstep
    · simp at hstep
    · split at hstep
      · simp at hstep
      · simp only [Except.ok.injEq] at hstep
        subst hstep
        exact (Shape.append hacc (dendroText_shape ν x _ _ _)).cast (by simp [Summary.add])

theorem dendroNames_none {ν : Nums} {a : DendroArgs} {index : List Nat} {ps : List Piece}
    (hn : a.names = none) (h : dendroNames ν a index = .ok ps) : ps = [] := by
  unfold dendroNames at h
  rw [hn] at h
  simpa [pure, Except.pure] using h.symm

theorem dendroStep_shape {ν : Nums} {a : DendroArgs} {n t k : Nat} {st st' : TreeState}
    (hst : Shape st.out ⟨0, 0, 3 * k, []⟩) (h : dendroStep ν a n st t = .ok st') :
    Shape st'.out ⟨0, 0, 3 * (k + 1), []⟩ := by
  unfold dendroStep at h
  simp only [bind, Except.bind, pure, Except.pure] at h
  repeat' split at h
  all_goals first
    | (simp at h; done)
    | (simp only [Except.ok.injEq] at h
       subst h
       exact (Shape.append hst (dendroPaths_shape ν _ _)).cast (by simp [Summary.add]; omega))

theorem dendroTree_shape {ν : Nums} {a : DendroArgs} {cut index : List Nat} {ps : List Piece}
    (h : dendroTree ν a cut index = .ok ps) : Shape ps ⟨0, 0, 3 * (index.length - 1), []⟩ := by
  unfold dendroTree at h
  simp only [bind, Except.bind, pure, Except.pure] at h
  split at h
  · simp at h
  · rename_i st hst
    simp only [Except.ok.injEq] at h
    subst h
    have := foldlM_prefix (fun pre (st : TreeState) => Shape st.out ⟨0, 0, 3 * pre.length, []⟩)
      _ _ [] _ st Shape.nil ?_ hst
    · simpa using this
    · intro pre x acc acc' hacc hstep
      have := dendroStep_shape hacc hstep
      simpa using this

end SkNet.Svg
