/-
The loss code of the model against the specification: `loss_gradient` of both losses is the closed form, the
loss values are the textbook means wherever the numerical clipping is inactive, and the formula of the pinned
tree (before the repair of F14) is not the gradient.
-/
import SkNet.Lemmas.GnnGrad

namespace SkNet.Gnn
open SkNet Mat Finset

theorem labelsOk_ok (n c : Nat) (s : Nat → Nat → ℝ) (labels : List Nat) (hlen : labels.length = n)
    (hlab : ∀ y ∈ labels, y < c) : labelsOk (mk' n c s) labels = .ok () := by
  unfold labelsOk
  have h1 : ¬ labels.length > (mk' n c s).r := by simp [hlen]
  have h2 : (labels.all fun y => decide (y < (mk' n c s).c)) = true := by
    rw [List.all_eq_true]
    intro y hy
    exact decide_eq_true (hlab y hy)
  rw [if_neg h1, if_pos h2]

theorem oneHot_real (labels : List Nat) (i k : Nat) (hi : i < labels.length) :
    (oneHot labels i k : ℝ) = if labels.getD i 0 = k then 1 else 0 := by
  unfold oneHot isLabel
  simp only [hi, decide_true, Bool.true_and, beq_iff_eq]

theorem getD_mem (labels : List Nat) (i : Nat) (hi : i < labels.length) : labels.getD i 0 ∈ labels := by
  rw [List.getD_eq_getElem?_getD, List.getElem?_eq_getElem hi]
  simp

theorem getD_mem_lt (labels : List Nat) (c : Nat) (hlab : ∀ y ∈ labels, y < c) (i : Nat) (hi : i < labels.length) :
    labels.getD i 0 < c := hlab _ (getD_mem labels i hi)

/-- **`CrossEntropy.loss_gradient` = soft-max − one-hot** (labels inside the channels) -/
theorem ceLossGradient_eq_spec (n c : Nat) (s : Nat → Nat → ℝ) (labels : List Nat) (hlen : labels.length = n)
    (hlab : ∀ y ∈ labels, y < c) :
    ceLossGradient (mk' n c s) labels = .ok (Spec.ceGradient (mk' n c s) labels) := by
  unfold ceLossGradient
  rw [labelsOk_ok n c s labels hlen hlab]
  simp only [bind, Except.bind, pure, Except.pure]
  congr 1
  unfold Spec.ceGradient
  simp only [mk'_r, mk'_c]
  apply mk'_congr
  intro i hi k hk
  rw [actOutput_mk', get_mk'_of_lt _ hi hk, oneHot_real labels i k (hlen ▸ hi),
    softmaxFn_congr c _ (s i) (get_row_eq n c s i hi) k hk]
  rfl

/-- **`BinaryCrossEntropy.loss_gradient` (repaired) = sigmoid − target**: several channels, labels inside the
channels -/
theorem bceLossGradient_eq_spec_several (n c : Nat) (hc : c ≠ 1) (s : Nat → Nat → ℝ) (labels : List Nat)
    (hlen : labels.length = n) (hlab : ∀ y ∈ labels, y < c) :
    bceLossGradient (mk' n c s) labels = .ok (Spec.bceGradient (mk' n c s) labels) := by
  unfold bceLossGradient
  simp only [mk'_c, hc, if_false]
  rw [labelsOk_ok n c s labels hlen hlab]
  simp only [bind, Except.bind, pure, Except.pure]
  congr 1
  unfold Spec.bceGradient
  simp only [mk'_r, mk'_c, hc, if_false]
  apply mk'_congr
  intro i hi k hk
  rw [actOutput_mk', get_mk'_of_lt _ hi hk, oneHot_real labels i k (hlen ▸ hi),
    actFn_congr .sigmoid c _ (s i) (get_row_eq n c s i hi) k hk]

/-- **`BinaryCrossEntropy.loss_gradient` = sigmoid − label**: one channel, binary labels -/
theorem bceLossGradient_eq_spec_one (n : Nat) (s : Nat → Nat → ℝ) (labels : List Nat)
    (hlen : labels.length = n) (hlab : ∀ y ∈ labels, y ≤ 1) :
    bceLossGradient (mk' n 1 s) labels = .ok (Spec.bceGradient (mk' n 1 s) labels) := by
  unfold bceLossGradient bceGradOneChannel
  simp only [mk'_c, mk'_r, if_true, hlen]
  congr 1
  unfold Spec.bceGradient
  simp only [mk'_r, mk'_c, if_true]
  apply mk'_congr
  intro i hi k hk
  rw [actOutput_mk', get_mk'_of_lt _ hi hk, actFn_congr .sigmoid 1 _ (s i) (get_row_eq n 1 s i hi) k hk]
  congr 1
  have hy : labels.getD i 0 ≤ 1 := hlab _ (getD_mem labels i (hlen ▸ hi))
  simp only [num_nat]
  rcases Nat.le_one_iff_eq_zero_or_eq_one.mp hy with h | h <;> rw [h] <;> simp

/-- **F14 (pinned tree)**: with two channels, signal `[[0, 0]]` and label `1`, the pinned
`(probs.T − labels).T` gives `σ(0) − 1` on channel 0, whereas `n · ∂(mean loss)/∂ signal[0,0] = σ(0)`:
the pinned formula is not the gradient. -/
theorem bce_pinned_not_gradient :
    ∃ G, bceLossGradientPinned (mk' 1 2 fun _ _ => (0 : ℝ)) [1] = .ok G ∧
      G.get 0 0 ≠ (Spec.bceGradient (mk' 1 2 fun _ _ => (0 : ℝ)) [1]).get 0 0 := by
  refine ⟨_, rfl, ?_⟩
  simp only [mk'_r, mk'_c]
  rw [get_mk'_of_lt _ (by decide) (by decide), actOutput_mk', get_mk'_of_lt _ (by decide) (by decide)]
  unfold Spec.bceGradient
  simp only [mk'_r, mk'_c]
  rw [get_mk'_of_lt _ (by decide) (by decide),
    actFn_congr .sigmoid 2 _ (fun _ => (0 : ℝ)) (get_row_eq 1 2 (fun _ _ => (0 : ℝ)) 0 (by decide)) 0 (by decide)]
  simp

/-! ### the loss values: the clipping is the identity away from 0 and 1 -/

theorem clip_eq_self (x lo hi : ℝ) (h1 : lo ≤ x) (h2 : x ≤ hi) : clip x lo hi = x := by
  unfold clip
  simp only [num_lt, decide_eq_true_eq, not_lt.mpr h1, if_false, not_lt.mpr h2]

/-- **`CrossEntropy.loss` is the mean of `−log softmax(signal[i])[labels[i]]`** whenever the probabilities of the
labels lie in `[1e-10, 1 − 1e-10]` (otherwise the code clips them) -/
theorem ceLoss_eq_spec (n c : Nat) (s : Nat → Nat → ℝ) (labels : List Nat) (hlen : labels.length = n)
    (hlab : ∀ y ∈ labels, y < c)
    (hclip : ∀ i, i < n → (eps10 : ℝ) ≤ Spec.softmaxFn c (s i) (labels.getD i 0) ∧
      Spec.softmaxFn c (s i) (labels.getD i 0) ≤ 1 - eps10) :
    ceLoss (mk' n c s) labels = .ok (Spec.ceLoss (mk' n c s) labels) := by
  unfold ceLoss
  rw [labelsOk_ok n c s labels hlen hlab]
  simp only [bind, Except.bind, pure, Except.pure]
  congr 1
  unfold Spec.ceLoss sumLab
  simp only [mk'_r, mk'_c, hlen]
  congr 2
  apply sumTo_congr
  intro i hi
  have hy : labels.getD i 0 < c := getD_mem_lt labels c hlab i (hlen ▸ hi)
  rw [actOutput_mk', get_mk'_of_lt _ hi hy, softmaxFn_congr c _ (s i) (get_row_eq n c s i hi) _ hy]
  show Num.log (clip (Spec.softmaxFn c (s i) (labels.getD i 0)) eps10 (1 - eps10)) = _
  rw [clip_eq_self _ _ _ (hclip i hi).1 (hclip i hi).2]

theorem isLabel_eq (labels : List Nat) (i k : Nat) (hi : i < labels.length) :
    isLabel labels i k = decide (labels.getD i 0 = k) := by
  unfold isLabel
  generalize labels.getD i 0 = y
  by_cases h : y = k <;> simp [hi, h]

/-- **`BinaryCrossEntropy.loss` is the mean binary cross-entropy** (one-versus-rest with several channels) whenever
every sigmoid probability lies in `[1e-15, 1 − 1e-15]` (otherwise the code clips it) -/
theorem bceLoss_eq_spec (n c : Nat) (s : Nat → Nat → ℝ) (labels : List Nat) (hlen : labels.length = n)
    (hlab : c ≠ 1 → ∀ y ∈ labels, y < c)
    (hclip : ∀ i, i < n → ∀ k, k < c → (eps15 : ℝ) ≤ Real.sigmoid (s i k) ∧ Real.sigmoid (s i k) ≤ 1 - eps15) :
    bceLoss (mk' n c s) labels = .ok (Spec.bceLoss (mk' n c s) labels) := by
  have hP : ∀ i, i < n → ∀ k, k < c →
      clip ((actOutput .sigmoid (mk' n c s)).get i k) eps15 (1 - eps15) = Real.sigmoid (s i k) := by
    intro i hi k hk
    rw [actOutput_mk', get_mk'_of_lt _ hi hk, sigmoid_spec_eq]
    exact clip_eq_self _ _ _ (hclip i hi k hk).1 (hclip i hi k hk).2
  have hS : ∀ i, i < n → ∀ k, k < c →
      Spec.actFn .sigmoid c (fun j => (mk' n c s).get i j) k = Real.sigmoid (s i k) := by
    intro i hi k hk
    rw [sigmoid_spec_eq, get_mk'_of_lt s hi hk]
  unfold bceLoss Spec.bceLoss
  by_cases hc : c = 1
  · subst hc
    simp only [mk'_c, mk'_r, if_true, hlen, ne_eq, not_true_eq_false, if_false, bind, Except.bind, pure, Except.pure,
      num_nat, num_log]
    congr 2
    rw [sumTo_eq, sumTo_eq, sumTo_eq, neg_sub_left, ← Finset.sum_add_distrib, ← Finset.sum_neg_distrib]
    apply Finset.sum_congr rfl
    intro i hi
    have hi' := mem_range.mp hi
    rw [sumTo_eq, Finset.sum_range_one, hP i hi' 0 (by decide), hS i hi' 0 (by decide)]
    generalize labels.getD i 0 = y
    rcases Nat.eq_zero_or_pos y with h | h
    · subst h
      simp
    · have h0 : y ≠ 0 := Nat.pos_iff_ne_zero.mp h
      simp [h, h0]
  · simp only [mk'_c, mk'_r, hc, if_false, num_nat, num_log]
    rw [labelsOk_ok n c s labels hlen (hlab hc)]
    simp only [bind, Except.bind, pure, Except.pure, hlen]
    congr 2
    apply sumTo_congr
    intro i hi
    apply sumTo_congr
    intro k hk
    rw [hP i hi k hk, hS i hi k hk, isLabel_eq labels i k (hlen ▸ hi)]

/-- the value of a loss call (`0` if it raised) -/
noncomputable def lossVal (r : Except PyErr ℝ) : ℝ :=
  match r with
  | .ok v => v
  | .error _ => 0

theorem softmax_update_continuousAt (c : Nat) (s : Nat → ℝ) (y k : Nat) (hk : k < c) :
    ContinuousAt (fun t => Spec.softmaxFn c (Function.update s k t) y) (s k) :=
  (softmax_hasDerivAt c s y k hk).continuousAt

/-- **the code's own (clipped) `CrossEntropy.loss`** has the derivative `loss_gradient / n` wherever the label
probabilities lie strictly inside the clipping interval -/
theorem ceLoss_model_hasDerivAt (n c : Nat) (s : Nat → Nat → ℝ) (labels : List Nat) (hn : 0 < n)
    (hlen : labels.length = n) (hlab : ∀ y ∈ labels, y < c)
    (hclip : ∀ i, i < n → (eps10 : ℝ) < Spec.softmaxFn c (s i) (labels.getD i 0) ∧
      Spec.softmaxFn c (s i) (labels.getD i 0) < 1 - eps10)
    (i0 k : Nat) (hi : i0 < n) (hk : k < c) :
    HasDerivAt (fun t => (n : ℝ) * lossVal (ceLoss (mk' n c (updRow s i0 k t)) labels))
      ((Spec.ceGradient (mk' n c s) labels).get i0 k) (s i0 k) := by
  have hlab' : ∀ j, j < n → labels.getD j 0 < c := fun j hj => getD_mem_lt labels c hlab j (hlen ▸ hj)
  have hbase := ceLoss_hasDerivAt n c s labels hn hlab' i0 k hi hk
  refine hbase.congr_of_eventuallyEq ?_
  have hev : ∀ᶠ t in nhds (s i0 k), ∀ i ∈ range n,
      Spec.softmaxFn c (updRow s i0 k t i) (labels.getD i 0) ∈ Set.Ioo (eps10 : ℝ) (1 - eps10) := by
    rw [Filter.eventually_all_finset]
    intro i hi'
    have hin := hclip i (mem_range.mp hi')
    by_cases h : i = i0
    · subst h
      have hc := softmax_update_continuousAt c (s i) (labels.getD i 0) k hk
      have hmem : Set.Ioo (eps10 : ℝ) (1 - eps10) ∈ nhds (Spec.softmaxFn c (Function.update (s i) k (s i k)) (labels.getD i 0)) := by
        rw [Function.update_eq_self]
        exact Ioo_mem_nhds hin.1 hin.2
      have := hc.eventually hmem
      filter_upwards [this] with t ht
      rw [updRow_self]
      exact ht
    · filter_upwards with t
      rw [updRow_of_ne s i0 k t h]
      exact ⟨hin.1, hin.2⟩
  filter_upwards [hev] with t ht
  rw [ceLoss_eq_spec n c (updRow s i0 k t) labels hlen hlab
    (fun i hi' => ⟨(ht i (mem_range.mpr hi')).1.le, (ht i (mem_range.mpr hi')).2.le⟩)]
  rfl


theorem updRow_apply (s : Nat → Nat → ℝ) (i0 k0 : Nat) (t : ℝ) (i k : Nat) :
    updRow s i0 k0 t i k = if i = i0 ∧ k = k0 then t else s i k := by
  by_cases hi : i = i0
  · subst hi
    rw [updRow_self]
    by_cases hk : k = k0
    · subst hk; simp
    · simp [hk]
  · rw [updRow_of_ne s i0 k0 t hi]
    simp [hi]

/-- **the code's own (clipped) `BinaryCrossEntropy.loss`** has the derivative `loss_gradient / n` wherever every
sigmoid probability lies strictly inside the clipping interval -/
theorem bceLoss_model_hasDerivAt (n c : Nat) (s : Nat → Nat → ℝ) (labels : List Nat) (hn : 0 < n)
    (hlen : labels.length = n) (hlab : c ≠ 1 → ∀ y ∈ labels, y < c)
    (hclip : ∀ i, i < n → ∀ k, k < c → (eps15 : ℝ) < Real.sigmoid (s i k) ∧ Real.sigmoid (s i k) < 1 - eps15)
    (i0 k0 : Nat) (hi : i0 < n) (hk : k0 < c) :
    HasDerivAt (fun t => (n : ℝ) * lossVal (bceLoss (mk' n c (updRow s i0 k0 t)) labels))
      ((Spec.bceGradient (mk' n c s) labels).get i0 k0) (s i0 k0) := by
  have hbase := bceLoss_hasDerivAt n c s labels hn i0 k0 hi hk
  refine hbase.congr_of_eventuallyEq ?_
  have hin := hclip i0 hi k0 hk
  have hev : ∀ᶠ t in nhds (s i0 k0), Real.sigmoid t ∈ Set.Ioo (eps15 : ℝ) (1 - eps15) :=
    (Real.hasDerivAt_sigmoid (s i0 k0)).continuousAt.eventually (Ioo_mem_nhds hin.1 hin.2)
  filter_upwards [hev] with t ht
  rw [bceLoss_eq_spec n c (updRow s i0 k0 t) labels hlen hlab (by
    intro i hi' k hk'
    rw [updRow_apply]
    by_cases h : i = i0 ∧ k = k0
    · rw [if_pos h]; exact ⟨ht.1.le, ht.2.le⟩
    · rw [if_neg h]; exact ⟨(hclip i hi' k hk').1.le, (hclip i hi' k hk').2.le⟩)]
  rfl

end SkNet.Gnn
