/-
The loss code of the model against the specification: `loss_gradient` of both losses is the closed form, the
loss values are the textbook means wherever the numerical clipping is inactive, and the formula of the pinned
tree (before the repair of F14) is not the gradient.
-/
import SkNet.Lemmas.GnnGrad

namespace SkNet.Gnn
open SkNet Mat Finset

theorem labelsOk_ok (n c : Nat) (s : Nat → Nat → ℝ) (labels : List Nat) (hlen : labels.length = n)
    (hlab : ∀ y ∈ labels, y < c) : labelsOk (mk' n c s) labels = .ok () := by
  unfold labelsOk
  have h1 : ¬ labels.length > (mk' n c s).r := by simp [hlen]
  have h2 : (labels.all fun y => decide (y < (mk' n c s).c)) = true := by
    rw [List.all_eq_true]
    intro y hy
    exact decide_eq_true (hlab y hy)
  rw [if_neg h1, if_pos h2]

theorem oneHot_real (labels : List Nat) (i k : Nat) (hi : i < labels.length) :
    (oneHot labels i k : ℝ) = if labels.getD i 0 = k then 1 else 0 := by
  unfold oneHot isLabel
  simp only [hi, decide_true, Bool.true_and, beq_iff_eq]

theorem getD_mem (labels : List Nat) (i : Nat) (hi : i < labels.length) : labels.getD i 0 ∈ labels := by
  rw [List.getD_eq_getElem?_getD, List.getElem?_eq_getElem hi]
  simp

theorem getD_mem_lt (labels : List Nat) (c : Nat) (hlab : ∀ y ∈ labels, y < c) (i : Nat) (hi : i < labels.length) :
    labels.getD i 0 < c := hlab _ (getD_mem labels i hi)

/-- **`CrossEntropy.loss_gradient` = soft-max − one-hot** (labels inside the channels) -/
theorem ceLossGradient_eq_spec (n c : Nat) (s : Nat → Nat → ℝ) (labels : List Nat) (hlen : labels.length = n)
    (hlab : ∀ y ∈ labels, y < c) :
    ceLossGradient (mk' n c s) labels = .ok (Spec.ceGradient (mk' n c s) labels) := by
  unfold ceLossGradient
  rw [labelsOk_ok n c s labels hlen hlab]
  simp only [bind, Except.bind, pure, Except.pure]
  congr 1
  unfold Spec.ceGradient
  simp only [mk'_r, mk'_c]
  apply mk'_congr
  intro i hi k hk
  rw [actOutput_mk', get_mk'_of_lt _ hi hk, oneHot_real labels i k (hlen ▸ hi),
    softmaxFn_congr c _ (s i) (get_row_eq n c s i hi) k hk]
  rfl

/-- **`BinaryCrossEntropy.loss_gradient` (repaired) = sigmoid − target**: several channels, labels inside the
channels -/
theorem bceLossGradient_eq_spec_several (n c : Nat) (hc : c ≠ 1) (s : Nat → Nat → ℝ) (labels : List Nat)
    (hlen : labels.length = n) (hlab : ∀ y ∈ labels, y < c) :
    bceLossGradient (mk' n c s) labels = .ok (Spec.bceGradient (mk' n c s) labels) := by
  unfold bceLossGradient
  simp only [mk'_c, hc, if_false]
  rw [labelsOk_ok n c s labels hlen hlab]
  simp only [bind, Except.bind, pure, Except.pure]
  congr 1
  unfold Spec.bceGradient
  simp only [mk'_r, mk'_c, hc, if_false]
  apply mk'_congr
  intro i hi k hk
  rw [actOutput_mk', get_mk'_of_lt _ hi hk, oneHot_real labels i k (hlen ▸ hi),
    actFn_congr .sigmoid c _ (s i) (get_row_eq n c s i hi) k hk]

/-- **`BinaryCrossEntropy.loss_gradient` = sigmoid − label**: one channel, binary labels -/
theorem bceLossGradient_eq_spec_one (n : Nat) (s : Nat → Nat → ℝ) (labels : List Nat)
    (hlen : labels.length = n) (hlab : ∀ y ∈ labels, y ≤ 1) :
    bceLossGradient (mk' n 1 s) labels = .ok (Spec.bceGradient (mk' n 1 s) labels) := by
  unfold bceLossGradient bceLossGradientPinned
  simp only [mk'_c, mk'_r, if_true, hlen, ne_eq, not_true_eq_false, if_false]
  congr 1
  unfold Spec.bceGradient
  simp only [mk'_r, mk'_c, if_true]
  apply mk'_congr
  intro i hi k hk
  rw [actOutput_mk', get_mk'_of_lt _ hi hk, actFn_congr .sigmoid 1 _ (s i) (get_row_eq n 1 s i hi) k hk]
  congr 1
  have hy : labels.getD i 0 ≤ 1 := hlab _ (getD_mem labels i (hlen ▸ hi))
  simp only [num_nat]
  rcases Nat.le_one_iff_eq_zero_or_eq_one.mp hy with h | h <;> rw [h] <;> simp

/-- **F14 (pinned tree)**: with two channels, signal `[[0, 0]]` and label `1`, the pinned
`(probs.T − labels).T` gives `σ(0) − 1` on channel 0, whereas `n · ∂(mean loss)/∂ signal[0,0] = σ(0)`:
the pinned formula is not the gradient. -/
theorem bce_pinned_not_gradient :
    ∃ G, bceLossGradientPinned (mk' 1 2 fun _ _ => (0 : ℝ)) [1] = .ok G ∧
      G.get 0 0 ≠ (Spec.bceGradient (mk' 1 2 fun _ _ => (0 : ℝ)) [1]).get 0 0 := by
  refine ⟨_, rfl, ?_⟩
  simp only [mk'_r, mk'_c]
  rw [get_mk'_of_lt _ (by decide) (by decide), actOutput_mk', get_mk'_of_lt _ (by decide) (by decide)]
  unfold Spec.bceGradient
  simp only [mk'_r, mk'_c]
  rw [get_mk'_of_lt _ (by decide) (by decide),
    actFn_congr .sigmoid 2 _ (fun _ => (0 : ℝ)) (get_row_eq 1 2 (fun _ _ => (0 : ℝ)) 0 (by decide)) 0 (by decide)]
  simp

/-! ### the loss values: the clipping is the identity away from 0 and 1 -/

theorem clip_eq_self (x lo hi : ℝ) (h1 : lo ≤ x) (h2 : x ≤ hi) : clip x lo hi = x := by
  unfold clip
  simp only [num_lt, decide_eq_true_eq, not_lt.mpr h1, if_false, not_lt.mpr h2]

/-- **`CrossEntropy.loss` is the mean of `−log softmax(signal[i])[labels[i]]`** whenever the probabilities of the
labels lie in `[1e-10, 1 − 1e-10]` (otherwise the code clips them) -/
theorem ceLoss_eq_spec (n c : Nat) (s : Nat → Nat → ℝ) (labels : List Nat) (hlen : labels.length = n)
    (hlab : ∀ y ∈ labels, y < c)
    (hclip : ∀ i, i < n → (eps10 : ℝ) ≤ Spec.softmaxFn c (s i) (labels.getD i 0) ∧
      Spec.softmaxFn c (s i) (labels.getD i 0) ≤ 1 - eps10) :
    ceLoss (mk' n c s) labels = .ok (Spec.ceLoss (mk' n c s) labels) := by
  unfold ceLoss
  rw [labelsOk_ok n c s labels hlen hlab]
  simp only [bind, Except.bind, pure, Except.pure]
  congr 1
  unfold Spec.ceLoss sumLab
  simp only [mk'_r, mk'_c, hlen]
  congr 2
  apply sumTo_congr
  intro i hi
  have hy : labels.getD i 0 < c := getD_mem_lt labels c hlab i (hlen ▸ hi)
  rw [actOutput_mk', get_mk'_of_lt _ hi hy, softmaxFn_congr c _ (s i) (get_row_eq n c s i hi) _ hy]
  show Num.log (clip (Spec.softmaxFn c (s i) (labels.getD i 0)) eps10 (1 - eps10)) = _
  rw [clip_eq_self _ _ _ (hclip i hi).1 (hclip i hi).2]

end SkNet.Gnn
