/-
D-iteration: one sweep over all the nodes leaves at most the fraction `a` of the fluid (`sweep_contracts`), so
after `K` sweeps `residu ≤ a^K · (1−a)` unless the stopping test has fired earlier (`diterLoop_budget`), and
`solver='diteration'` is within `2·residu/(1−a)²` of the PageRank vector (`diteration_close`).
-/
import SkNet.Lemmas.RankClose
import Mathlib.Order.Interval.Finset.Nat
import Mathlib.Algebra.BigOperators.Intervals

open Finset

namespace SkNet.Rank
open SkNet.RankSpec SkNet.RankL1

/-- state of a sweep after the nodes `0 … k−1` have been visited -/
def sweepPrefix (g : Graph ℚ) (a r : ℚ) (st : DState ℚ) (k : ℕ) : DState ℚ := activate g a r st (List.range k)

theorem sweepPrefix_succ (g : Graph ℚ) (a r : ℚ) (st : DState ℚ) (k : ℕ) :
    sweepPrefix g a r st (k + 1) = diterNode g a r (sweepPrefix g a r st k) k := by
  unfold sweepPrefix Rank.activate
  rw [List.range_succ, List.foldl_append]; rfl

/-- the invariant of a sweep: the fluid that has not moved yet is still where it was, and
    `Σ fluid − (1−a)·Σ_{i ≥ k} fluid₀ i ≤ a · Σ fluid₀` -/
structure SweepInv (g : Graph ℚ) (a : ℚ) (F0 : ℕ → ℚ) (st : DState ℚ) (k : ℕ) : Prop where
  keep : ∀ i, k ≤ i → i < g.n → F0 i ≤ st.fluid.getD i 0
  pot : ∑ i ∈ range g.n, st.fluid.getD i 0 - (1 - a) * ∑ i ∈ Ico k g.n, F0 i ≤ a * ∑ i ∈ range g.n, F0 i

theorem sweep_step {g : Graph ℚ} (hg : g.Nonneg) (hr : g.InRange) (hP : SubStoch g.n (entry g)) {a : ℚ}
    (ha : 0 ≤ a) (ha1 : a ≤ 1) {F0 : ℕ → ℚ} (hF0 : ∀ i, 0 ≤ F0 i) {st : DState ℚ}
    (_hlS : st.scores.length = g.n) (hlF : st.fluid.length = g.n) (hnF : ∀ i, 0 ≤ st.fluid.getD i 0)
    {k : ℕ} (hk : k < g.n) (h : SweepInv g a F0 st k) :
    SweepInv g a F0 (diterNode g a (1 - a) st k) (k + 1) := by
  have hsplit : ∑ i ∈ Ico k g.n, F0 i = F0 k + ∑ i ∈ Ico (k + 1) g.n, F0 i := sum_eq_sum_Ico_succ_bot hk F0
  by_cases hpos : 0 < st.fluid.getD k 0
  · obtain ⟨_, hf, _⟩ := diterNode_active g a (1 - a) st k hpos
    have hkF : k < st.fluid.length := by rw [hlF]; exact hk
    have hrow : ∀ p ∈ g.row k, p.1 < (st.fluid.set k 0).length := by
      intro p hp; rw [List.length_set, hlF]; exact hr k p hp
    have hfl : ∀ i, (diterNode g a (1 - a) st k).fluid.getD i 0
        = (if k = i then 0 else st.fluid.getD i 0) + st.fluid.getD k 0 * a * entry g k i := by
      intro i
      rw [hf, pushRow_getD _ _ _ hrow, set_getD _ _ _ _ hkF]; rfl
    refine ⟨?_, ?_⟩
    · intro i hki hi
      rw [hfl, if_neg (by omega)]
      have := h.keep i (by omega) hi
      have : 0 ≤ st.fluid.getD k 0 * a * entry g k i :=
        mul_nonneg (mul_nonneg (le_of_lt hpos) ha) (entry_nonneg hg k i)
      linarith
    · have hsum : ∑ i ∈ range g.n, (diterNode g a (1 - a) st k).fluid.getD i 0
          = ∑ i ∈ range g.n, st.fluid.getD i 0 - st.fluid.getD k 0
            + st.fluid.getD k 0 * a * ∑ i ∈ range g.n, entry g k i := by
        rw [sum_congr rfl (fun i _ => hfl i), sum_add_distrib, ← mul_sum]
        congr 1
        have : ∀ i ∈ range g.n, (if k = i then 0 else st.fluid.getD i 0)
            = st.fluid.getD i 0 - (if k = i then st.fluid.getD k 0 else 0) := by
          intro i _
          by_cases hki : k = i
          · subst hki; simp
          · simp [hki]
        rw [sum_congr rfl this, sum_sub_distrib, sum_ite_eq]
        simp [hk]
      have hrs : ∑ i ∈ range g.n, entry g k i ≤ 1 := hP.row_le k
      have hkeep := h.keep k (le_refl k) hk
      have hpot := h.pot
      rw [hsum]
      rw [hsplit] at hpot
      have h1 : st.fluid.getD k 0 * a * ∑ i ∈ range g.n, entry g k i ≤ st.fluid.getD k 0 * a :=
        by
          have := mul_le_mul_of_nonneg_left hrs (mul_nonneg (le_of_lt hpos) ha)
          linarith
      have h2 : 0 ≤ (1 - a) * (st.fluid.getD k 0 - F0 k) := mul_nonneg (by linarith) (by linarith)
      nlinarith
  · rw [diterNode_idle g a (1 - a) st k hpos]
    have hz : st.fluid.getD k 0 = 0 := le_antisymm (not_lt.mp hpos) (hnF k)
    have hF0k : F0 k = 0 := le_antisymm (by have := h.keep k (le_refl k) hk; linarith) (hF0 k)
    refine ⟨fun i hki hi => h.keep i (by omega) hi, ?_⟩
    have hpot := h.pot
    rw [hsplit, hF0k, zero_add] at hpot
    exact hpot

/-- ★ `sweep_contracts` : one sweep over the nodes `0 … n−1` leaves at most the fraction `a` of the fluid -/
theorem sweep_contracts {g : Graph ℚ} (hg : g.Nonneg) (hr : g.InRange) (hs : g.RowStoch)
    (hP : SubStoch g.n (entry g)) {a : ℚ} (ha : 0 ≤ a) (ha1 : a ≤ 1) {F0 : ℕ → ℚ} {st : DState ℚ}
    (hI : DInv g a F0 st) (hM : DMass g st) :
    (diterSweep g a (1 - a) st).residu ≤ a * st.residu := by
  -- invariant over the prefixes of the sweep, with F0' = the fluid at the start of the sweep
  have key : ∀ k, k ≤ g.n →
      SweepInv g a (fun i => st.fluid.getD i 0) (sweepPrefix g a (1 - a) st k) k := by
    intro k
    induction k with
    | zero =>
      intro _
      refine ⟨fun i _ _ => le_refl _, ?_⟩
      show ∑ i ∈ range g.n, st.fluid.getD i 0 - (1 - a) * ∑ i ∈ Ico 0 g.n, st.fluid.getD i 0 ≤ _
      rw [← range_eq_Ico]; linarith
    | succ k ih =>
      intro hk
      rw [sweepPrefix_succ]
      have hIk := hI.activate hr (1 - a) (List.range k)
      have hMk := hM.activate hg hr hs ha (List.range k) hI
      exact sweep_step hg hr hP ha ha1 hM.nonnegF hIk.lenS hIk.lenF hMk.nonnegF (by omega) (ih (by omega))
  have hfin := (key g.n (le_refl _)).pot
  rw [Ico_self, sum_empty, mul_zero, sub_zero] at hfin
  have hMn := hM.activate hg hr hs ha (List.range g.n) hI
  rw [diterSweep_eq, hMn.mass, hM.mass]
  exact hfin

/-- the sweep keeps both invariants -/
theorem sweep_invs {g : Graph ℚ} (hg : g.Nonneg) (hr : g.InRange) (hs : g.RowStoch) {a : ℚ} (ha : 0 ≤ a)
    {F0 : ℕ → ℚ} {st : DState ℚ} (hI : DInv g a F0 st) (hM : DMass g st) :
    DInv g a F0 (diterSweep g a (1 - a) st) ∧ DMass g (diterSweep g a (1 - a) st) :=
  ⟨hI.activate hr (1 - a) _, hM.activate hg hr hs ha _ hI⟩

theorem diterLoop_succ (g : Graph ℚ) (a r tol : ℚ) (k : ℕ) (st : DState ℚ) :
    diterLoop g a r tol (k + 1) st
      = if (diterSweep g a r st).residu < tol * r then diterSweep g a r st
        else diterLoop g a r tol k (diterSweep g a r st) := rfl

/-- ★ `diter_budget` : the loop with `n_iter = K` ends with `residu < tol·(1−a)` (stopping test) or with
    `residu ≤ a^K · residu₀`; in both cases the invariants hold -/
theorem diterLoop_budget {g : Graph ℚ} (hg : g.Nonneg) (hr : g.InRange) (hs : g.RowStoch)
    (hP : SubStoch g.n (entry g)) {a : ℚ} (ha : 0 ≤ a) (ha1 : a ≤ 1) (tol : ℚ) {F0 : ℕ → ℚ} (K : ℕ) {st : DState ℚ}
    (hI : DInv g a F0 st) (hM : DMass g st) :
    DInv g a F0 (diterLoop g a (1 - a) tol K st) ∧ DMass g (diterLoop g a (1 - a) tol K st) ∧
      ((diterLoop g a (1 - a) tol K st).residu < tol * (1 - a) ∨
        (diterLoop g a (1 - a) tol K st).residu ≤ a ^ K * st.residu) ∧
      (0 < K → (diterLoop g a (1 - a) tol K st).residu ≤ a * st.residu) := by
  induction K generalizing st with
  | zero =>
    refine ⟨hI, hM, Or.inr ?_, fun h => absurd h (lt_irrefl 0)⟩
    simp [diterLoop]
  | succ k ih =>
    have hc := sweep_contracts hg hr hs hP ha ha1 hI hM
    obtain ⟨hI', hM'⟩ := sweep_invs hg hr hs ha hI hM
    rw [diterLoop_succ]
    by_cases hstop : (diterSweep g a (1 - a) st).residu < tol * (1 - a)
    · rw [if_pos hstop]
      exact ⟨hI', hM', Or.inl hstop, fun _ => hc⟩
    · rw [if_neg hstop]
      obtain ⟨hI2, hM2, hor, hmono⟩ := ih hI' hM'
      refine ⟨hI2, hM2, ?_, fun _ => ?_⟩
      · rcases hor with h | h
        · exact Or.inl h
        · right
          calc _ ≤ a ^ k * (diterSweep g a (1 - a) st).residu := h
            _ ≤ a ^ k * (a * st.residu) := mul_le_mul_of_nonneg_left hc (pow_nonneg ha k)
            _ = a ^ (k + 1) * st.residu := by ring
      · -- the residual never increases
        by_cases hk : 0 < k
        · have h1 := hmono hk
          have hres1 : 0 ≤ (diterSweep g a (1 - a) st).residu := by
            rw [hM'.mass]; exact sum_nonneg fun i _ => hM'.nonnegF i
          calc _ ≤ a * (diterSweep g a (1 - a) st).residu := h1
            _ ≤ 1 * (diterSweep g a (1 - a) st).residu := mul_le_mul_of_nonneg_right ha1 hres1
            _ = (diterSweep g a (1 - a) st).residu := one_mul _
            _ ≤ a * st.residu := hc
        · have : k = 0 := by omega
          subst this
          simpa [diterLoop] using hc

/-! ### the data handed to the kernel: `normalize(adjacency)` -/

theorem normalized_inRange {g : Graph ℚ} (hr : g.InRange) : (normalized g).InRange := by
  intro i p hp
  show p.1 < g.n
  unfold normalized normRow at hp
  simp only at hp
  split at hp
  · simp only [List.mem_map] at hp
    obtain ⟨q, hq, rfl⟩ := hp
    exact hr i q hq
  · simp at hp

theorem normalized_nonneg {g : Graph ℚ} (hg : g.Nonneg) : (normalized g).Nonneg := by
  intro i p hp
  unfold normalized normRow at hp
  simp only at hp
  split at hp
  · rename_i h
    simp only [List.mem_map] at hp
    obtain ⟨q, hq, rfl⟩ := hp
    exact mul_nonneg (div_nonneg zero_le_one (le_of_lt h)) (hg i q hq)
  · simp at hp

theorem sum_map_mul_left (c : ℚ) (l : List ℚ) : (l.map fun x => c * x).sum = c * l.sum := by
  induction l with
  | nil => simp
  | cons a t ih => simp [ih, mul_add]

theorem entry_normalized (g : Graph ℚ) (i j : ℕ) : entry (normalized g) i j = trans g i j := by
  unfold entry trans normalized normRow
  simp only
  split
  · rw [List.filter_map, List.map_map]
    have : ((fun p : ℕ × ℚ => p.2) ∘ fun p : ℕ × ℚ => (p.1, 1 / norm1 g i * p.2))
        = fun p : ℕ × ℚ => 1 / norm1 g i * p.2 := rfl
    rw [this]
    have h2 : ((fun p : ℕ × ℚ => p.1 == j) ∘ fun p : ℕ × ℚ => (p.1, 1 / norm1 g i * p.2))
        = fun p : ℕ × ℚ => p.1 == j := rfl
    rw [h2, show (fun p : ℕ × ℚ => 1 / norm1 g i * p.2) = (fun x => 1 / norm1 g i * x) ∘ (fun p : ℕ × ℚ => p.2) from rfl,
      ← List.map_map, sum_map_mul_left]
    rfl
  · simp

theorem rowSum_normalized {g : Graph ℚ} (hg : g.Nonneg) (i : ℕ) (h : 0 < norm1 g i) : rowSum (normalized g) i = 1 := by
  unfold rowSum normalized normRow
  simp only [h, if_true, List.map_map]
  have : ((fun p : ℕ × ℚ => p.2) ∘ fun p : ℕ × ℚ => (p.1, 1 / norm1 g i * p.2))
      = fun p : ℕ × ℚ => 1 / norm1 g i * p.2 := rfl
  rw [this]
  have h3 : ((g.row i).map fun p : ℕ × ℚ => 1 / norm1 g i * p.2)
      = ((g.row i).map fun p : ℕ × ℚ => p.2).map fun x => 1 / norm1 g i * x := by rw [List.map_map]; rfl
  rw [h3, sum_map_mul_left]
  have : ((g.row i).map fun p => p.2).sum = norm1 g i := by
    rw [norm1_eq_rowSum hg]; rfl
  rw [this, one_div, inv_mul_cancel₀ (ne_of_gt h)]

theorem normalized_rowStoch {g : Graph ℚ} (hg : g.Nonneg) : (normalized g).RowStoch := by
  intro k hk
  by_cases h : 0 < norm1 g k
  · exact rowSum_normalized hg k h
  · exfalso; apply hk
    show normRow g k = []
    unfold normRow; simp [h]

theorem normalized_subStoch {g : Graph ℚ} (hg : g.Nonneg) (hr : g.InRange) :
    SubStoch (normalized g).n (entry (normalized g)) := by
  have : entry (normalized g) = trans g := by funext i j; exact entry_normalized g i j
  rw [this]; exact trans_subStoch hg hr

/-- distance of a normalised non-negative `u` to `π` from its distance to a positive multiple `t·π` -/
theorem close_of_scaled {n : ℕ} {π : ℕ → ℚ} (hπ1 : ∑ i ∈ range n, π i = 1) (u : ℕ → ℚ) (hu : ∀ i, i < n → 0 ≤ u i)
    (hsu : 0 < ∑ i ∈ range n, u i) (t : ℚ) (ht : 0 < t) (E : ℚ) (hE : ∑ i ∈ range n, |u i - t * π i| ≤ E) :
    ∑ i ∈ range n, |u i / (∑ k ∈ range n, u k) - π i| ≤ 2 * E / t := by
  have hsz : ∑ i ∈ range n, t * π i = t := by rw [← mul_sum, hπ1, mul_one]
  have hnc := normalize_close u (fun i => t * π i) hu hsu (by rw [hsz]; exact ht)
  have e : ∀ i ∈ range n, |u i / (∑ k ∈ range n, u k) - π i|
      = |u i / (∑ k ∈ range n, u k) - (fun i => t * π i) i / (∑ k ∈ range n, (fun i => t * π i) k)| := by
    intro i _
    simp only [hsz]
    rw [mul_div_cancel_left₀ _ (ne_of_gt ht)]
  rw [sum_congr rfl e]
  refine hnc.trans ?_
  simp only [hsz]
  have : 2 * (∑ i ∈ range n, |u i - t * π i|) ≤ 2 * E := by linarith
  exact div_le_div_of_nonneg_right this (le_of_lt ht)

/-- ★ `diteration_error` : `solver='diteration'` with `n_iter = K ≥ 1` is within `2·max(tol, a^K)/(1−a)` (ℓ1) of the
    PageRank vector: the loop stops with `residu < tol·(1−a)` or after `K` sweeps with `residu ≤ a^K (1−a)` -/
theorem diteration_close {g : Graph ℚ} (hg : g.Nonneg) (hr : g.InRange) {a : ℚ} (ha : 0 ≤ a) (ha1 : a < 1)
    (y : List ℚ) (hy0 : ∀ i, 0 ≤ vec y i) (hy1 : ∑ i ∈ range g.n, vec y i = 1)
    {π : ℕ → ℚ} {c : ℚ} (hπ : IsPR g.n (trans g) a (vec y) π c) (tol : ℚ) (K : ℕ) (hK : 0 < K) :
    ∑ i ∈ range g.n, |(diteration g a y K tol).getD i 0 - π i| ≤ 2 * max tol (a ^ K) / (1 - a) := by
  have h1a : 0 < 1 - a := by linarith
  have hP := trans_subStoch hg hr
  have hc : 0 < c := lt_of_lt_of_le h1a (hπ.const_ge hP ha hy1)
  have hc1 : c ≤ 1 := hπ.const_le hP ha hy1
  have hPn : SubStoch g.n (entry (normalized g)) := normalized_subStoch hg hr
  -- initial state
  let st0 : DState ℚ := { scores := tab g.n fun _ => 0, fluid := smul g.n (1 - a) y, residu := 1 - a }
  have hfl : ∀ i, st0.fluid.getD i 0 = if i < g.n then (1 - a) * vec y i else 0 := by
    intro i; show (smul g.n (1 - a) y).getD i 0 = _; unfold smul; rw [tab_getD]; rfl
  have hI0 : DInv (normalized g) a (fun i => (1 - a) * vec y i) st0 := by
    refine ⟨by show (tab g.n fun _ => (0 : ℚ)).length = g.n; simp,
      by show (smul g.n (1 - a) y).length = g.n; simp [smul], fun i hi => ?_⟩
    have hi : i < g.n := hi
    have hz : PT g.n (entry (normalized g)) (fun j => st0.scores.getD j 0) i = 0 := by
      unfold PT; apply sum_eq_zero; intro j _
      show entry (normalized g) j i * (tab g.n fun _ => (0 : ℚ)).getD j 0 = 0
      rw [tab_getD]; simp
    show st0.scores.getD i 0 - a * PT g.n (entry (normalized g)) (fun j => st0.scores.getD j 0) i
      + st0.fluid.getD i 0 = (1 - a) * vec y i
    rw [hz, hfl, if_pos hi]
    show (tab g.n fun _ => (0 : ℚ)).getD i 0 - a * 0 + _ = _
    rw [tab_getD, if_pos hi]; ring
  have hM0 : DMass (normalized g) st0 := by
    refine ⟨fun i => ?_, fun i => ?_, ?_⟩
    · rw [hfl]; split
      · exact mul_nonneg (le_of_lt h1a) (hy0 i)
      · exact le_refl _
    · show 0 ≤ (tab g.n fun _ => (0 : ℚ)).getD i 0
      rw [tab_getD]; split <;> exact le_refl _
    · show 1 - a = ∑ i ∈ range g.n, st0.fluid.getD i 0
      rw [sum_congr rfl fun i hi => by rw [hfl, if_pos (mem_range.mp hi)], ← mul_sum, hy1, mul_one]
  obtain ⟨hI, hM, hor, hmono⟩ := diterLoop_budget (normalized_nonneg hg) (normalized_inRange hr)
    (normalized_rowStoch hg) hPn ha (le_of_lt ha1) tol K hI0 hM0
  set out := diterLoop (normalized g) a (1 - a) tol K st0 with hout
  have hscores : diterScores g a y K tol = out.scores := rfl
  -- the scaled PageRank vector solves the kernel's system
  set t := (1 - a) / c with ht
  have htpos : 0 < t := div_pos h1a hc
  have hv : ∀ i, i < g.n → (fun j => t * π j) i - a * PT g.n (entry (normalized g)) (fun j => t * π j) i
      = (fun i => (1 - a) * vec y i) i := by
    intro i hi
    have e : PT g.n (entry (normalized g)) (fun j => t * π j) i = t * PT g.n (trans g) π i := by
      unfold PT
      rw [mul_sum]
      apply sum_congr rfl; intro j _
      rw [entry_normalized]; ring
    simp only [e]
    have := hπ.eq i hi
    have hc' : c ≠ 0 := ne_of_gt hc
    rw [ht]
    field_simp
    linarith
  have hres := diffusion_residual hPn ha hI hM (fun j => t * π j) hv
  have hres0 : 0 ≤ out.residu := by rw [hM.mass]; exact sum_nonneg fun i _ => hM.nonnegF i
  have hresK : out.residu ≤ a * (1 - a) := hmono hK
  -- Σ scores > 0
  have hSpos : 0 < ∑ i ∈ range g.n, out.scores.getD i 0 := by
    have hsumI : ∑ i ∈ range g.n, (out.scores.getD i 0
        - a * PT g.n (entry (normalized g)) (fun j => out.scores.getD j 0) i + out.fluid.getD i 0)
        = ∑ i ∈ range g.n, (1 - a) * vec y i := sum_congr rfl fun i hi => hI.eq i (mem_range.mp hi)
    have hmass : out.residu = ∑ i ∈ range g.n, out.fluid.getD i 0 := hM.mass
    rw [sum_add_distrib, sum_sub_distrib, ← mul_sum, ← mul_sum, hy1, mul_one, ← hmass] at hsumI
    have hPT0 : 0 ≤ ∑ i ∈ range g.n, PT g.n (entry (normalized g)) (fun j => out.scores.getD j 0) i :=
      sum_nonneg fun i _ => PT_nonneg hPn (fun j _ => hM.nonnegS j) i
    have := mul_nonneg ha hPT0
    have : a * (1 - a) < 1 - a := by nlinarith
    linarith
  -- assemble
  have houtv : ∀ i, i < g.n → (diteration g a y K tol).getD i 0
      = out.scores.getD i 0 / ∑ k ∈ range g.n, out.scores.getD k 0 := by
    intro i hi
    unfold diteration
    rw [normalizeV_getD, if_pos hi, hscores, list_sum_eq, hI.lenS]
    rfl
  rw [sum_congr rfl fun i hi => by rw [houtv i (mem_range.mp hi)]]
  have hE : ∑ i ∈ range g.n, |out.scores.getD i 0 - t * π i| ≤ out.residu / (1 - a) := by
    rw [le_div_iff₀ h1a, mul_comm]
    have : ∑ i ∈ range g.n, |out.scores.getD i 0 - t * π i| = ∑ i ∈ range g.n, |(fun j => t * π j) i - out.scores.getD i 0| :=
      sum_congr rfl fun i _ => abs_sub_comm _ _
    rw [this]; exact hres
  have hcl := close_of_scaled hπ.sum_one (fun i => out.scores.getD i 0) (fun i _ => hM.nonnegS i) hSpos t htpos _ hE
  refine hcl.trans ?_
  -- 2 (residu/(1−a)) / t = 2 residu c / (1−a)² ≤ 2 max(tol, a^K) / (1−a)
  have hbound : out.residu ≤ max tol (a ^ K) * (1 - a) := by
    rcases hor with h | h
    · exact le_of_lt (lt_of_lt_of_le h (mul_le_mul_of_nonneg_right (le_max_left _ _) (le_of_lt h1a)))
    · exact h.trans (mul_le_mul_of_nonneg_right (le_max_right _ _) (le_of_lt h1a))
  have hmax0 : 0 ≤ max tol (a ^ K) := le_max_of_le_right (pow_nonneg ha K)
  rw [ht]
  have e2 : 2 * (out.residu / (1 - a)) / ((1 - a) / c) = 2 * out.residu * c / ((1 - a) * (1 - a)) := by
    field_simp
  rw [e2, div_le_div_iff₀ (mul_pos h1a h1a) h1a]
  have h3 : 2 * out.residu * c ≤ 2 * (max tol (a ^ K) * (1 - a)) * 1 := by
    have : out.residu * c ≤ max tol (a ^ K) * (1 - a) * 1 :=
      mul_le_mul hbound hc1 (le_of_lt hc) (mul_nonneg hmax0 (le_of_lt h1a))
    linarith
  nlinarith

end SkNet.Rank
