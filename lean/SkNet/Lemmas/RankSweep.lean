/-
D-iteration: one sweep over all the nodes leaves at most the fraction `a` of the fluid (`sweep_contracts`), so
after `K` sweeps `residu ≤ a^K · (1−a)` unless the stopping test has fired earlier (`diterLoop_budget`), and
`solver='diteration'` is within `2·residu/(1−a)²` of the PageRank vector (`diteration_close`).
-/
import SkNet.Lemmas.RankClose
import Mathlib.Order.Interval.Finset.Nat
import Mathlib.Algebra.BigOperators.Intervals

open Finset

namespace SkNet.Rank
open SkNet.RankSpec SkNet.RankL1

/-- state of a sweep after the nodes `0 … k−1` have been visited -/
def sweepPrefix (g : Graph ℚ) (a r : ℚ) (st : DState ℚ) (k : ℕ) : DState ℚ := activate g a r st (List.range k)

theorem sweepPrefix_succ (g : Graph ℚ) (a r : ℚ) (st : DState ℚ) (k : ℕ) :
    sweepPrefix g a r st (k + 1) = diterNode g a r (sweepPrefix g a r st k) k := by
  unfold sweepPrefix Rank.activate
  rw [List.range_succ, List.foldl_append]; rfl

/-- the invariant of a sweep: the fluid that has not moved yet is still where it was, and
    `Σ fluid − (1−a)·Σ_{i ≥ k} fluid₀ i ≤ a · Σ fluid₀` -/
structure SweepInv (g : Graph ℚ) (a : ℚ) (F0 : ℕ → ℚ) (st : DState ℚ) (k : ℕ) : Prop where
  keep : ∀ i, k ≤ i → i < g.n → F0 i ≤ st.fluid.getD i 0
  pot : ∑ i ∈ range g.n, st.fluid.getD i 0 - (1 - a) * ∑ i ∈ Ico k g.n, F0 i ≤ a * ∑ i ∈ range g.n, F0 i

theorem sweep_step {g : Graph ℚ} (hg : g.Nonneg) (hr : g.InRange) (hP : SubStoch g.n (entry g)) {a : ℚ}
    (ha : 0 ≤ a) (ha1 : a ≤ 1) {F0 : ℕ → ℚ} (hF0 : ∀ i, 0 ≤ F0 i) {st : DState ℚ}
    (hlS : st.scores.length = g.n) (hlF : st.fluid.length = g.n) (hnF : ∀ i, 0 ≤ st.fluid.getD i 0)
    {k : ℕ} (hk : k < g.n) (h : SweepInv g a F0 st k) :
    SweepInv g a F0 (diterNode g a (1 - a) st k) (k + 1) := by
  have hsplit : ∑ i ∈ Ico k g.n, F0 i = F0 k + ∑ i ∈ Ico (k + 1) g.n, F0 i := sum_eq_sum_Ico_succ_bot hk F0
  by_cases hpos : 0 < st.fluid.getD k 0
  · obtain ⟨_, hf, _⟩ := diterNode_active g a (1 - a) st k hpos
    have hkF : k < st.fluid.length := by rw [hlF]; exact hk
    have hrow : ∀ p ∈ g.row k, p.1 < (st.fluid.set k 0).length := by
      intro p hp; rw [List.length_set, hlF]; exact hr k p hp
    have hfl : ∀ i, (diterNode g a (1 - a) st k).fluid.getD i 0
        = (if k = i then 0 else st.fluid.getD i 0) + st.fluid.getD k 0 * a * entry g k i := by
      intro i
      rw [hf, pushRow_getD _ _ _ hrow, set_getD _ _ _ _ hkF]; rfl
    refine ⟨?_, ?_⟩
    · intro i hki hi
      rw [hfl, if_neg (by omega)]
      have := h.keep i (by omega) hi
      have : 0 ≤ st.fluid.getD k 0 * a * entry g k i :=
        mul_nonneg (mul_nonneg (le_of_lt hpos) ha) (entry_nonneg hg k i)
      linarith
    · have hsum : ∑ i ∈ range g.n, (diterNode g a (1 - a) st k).fluid.getD i 0
          = ∑ i ∈ range g.n, st.fluid.getD i 0 - st.fluid.getD k 0
            + st.fluid.getD k 0 * a * ∑ i ∈ range g.n, entry g k i := by
        rw [sum_congr rfl (fun i _ => hfl i), sum_add_distrib, ← mul_sum]
        congr 1
        have : ∀ i ∈ range g.n, (if k = i then 0 else st.fluid.getD i 0)
            = st.fluid.getD i 0 - (if k = i then st.fluid.getD k 0 else 0) := by
          intro i _
          by_cases hki : k = i
          · subst hki; simp
          · simp [hki]
        rw [sum_congr rfl this, sum_sub_distrib, sum_ite_eq]
        simp [hk]
      have hrs : ∑ i ∈ range g.n, entry g k i ≤ 1 := hP.row_le k
      have hkeep := h.keep k (le_refl k) hk
      have hpot := h.pot
      rw [hsum]
      rw [hsplit] at hpot
      have h1 : st.fluid.getD k 0 * a * ∑ i ∈ range g.n, entry g k i ≤ st.fluid.getD k 0 * a :=
        by
          have := mul_le_mul_of_nonneg_left hrs (mul_nonneg (le_of_lt hpos) ha)
          linarith
      have h2 : 0 ≤ (1 - a) * (st.fluid.getD k 0 - F0 k) := mul_nonneg (by linarith) (by linarith)
      nlinarith
  · rw [diterNode_idle g a (1 - a) st k hpos]
    have hz : st.fluid.getD k 0 = 0 := le_antisymm (not_lt.mp hpos) (hnF k)
    have hF0k : F0 k = 0 := le_antisymm (by have := h.keep k (le_refl k) hk; linarith) (hF0 k)
    refine ⟨fun i hki hi => h.keep i (by omega) hi, ?_⟩
    have hpot := h.pot
    rw [hsplit, hF0k, zero_add] at hpot
    exact hpot

/-- ★ `sweep_contracts` : one sweep over the nodes `0 … n−1` leaves at most the fraction `a` of the fluid -/
theorem sweep_contracts {g : Graph ℚ} (hg : g.Nonneg) (hr : g.InRange) (hs : g.RowStoch)
    (hP : SubStoch g.n (entry g)) {a : ℚ} (ha : 0 ≤ a) (ha1 : a ≤ 1) {F0 : ℕ → ℚ} {st : DState ℚ}
    (hI : DInv g a F0 st) (hM : DMass g st) :
    (diterSweep g a (1 - a) st).residu ≤ a * st.residu := by
  -- invariant over the prefixes of the sweep, with F0' = the fluid at the start of the sweep
  have key : ∀ k, k ≤ g.n →
      SweepInv g a (fun i => st.fluid.getD i 0) (sweepPrefix g a (1 - a) st k) k := by
    intro k
    induction k with
    | zero =>
      intro _
      refine ⟨fun i _ _ => le_refl _, ?_⟩
      show ∑ i ∈ range g.n, st.fluid.getD i 0 - (1 - a) * ∑ i ∈ Ico 0 g.n, st.fluid.getD i 0 ≤ _
      rw [← range_eq_Ico]; linarith
    | succ k ih =>
      intro hk
      rw [sweepPrefix_succ]
      have hIk := hI.activate hr (1 - a) (List.range k)
      have hMk := hM.activate hg hr hs ha (List.range k) hI
      exact sweep_step hg hr hP ha ha1 hM.nonnegF hIk.lenS hIk.lenF hMk.nonnegF (by omega) (ih (by omega))
  have hfin := (key g.n (le_refl _)).pot
  rw [Ico_self, sum_empty, mul_zero, sub_zero] at hfin
  have hMn := hM.activate hg hr hs ha (List.range g.n) hI
  rw [diterSweep_eq, hMn.mass, hM.mass]
  exact hfin

/-- the sweep keeps both invariants -/
theorem sweep_invs {g : Graph ℚ} (hg : g.Nonneg) (hr : g.InRange) (hs : g.RowStoch) {a : ℚ} (ha : 0 ≤ a)
    {F0 : ℕ → ℚ} {st : DState ℚ} (hI : DInv g a F0 st) (hM : DMass g st) :
    DInv g a F0 (diterSweep g a (1 - a) st) ∧ DMass g (diterSweep g a (1 - a) st) :=
  ⟨hI.activate hr (1 - a) _, hM.activate hg hr hs ha _ hI⟩

theorem diterLoop_succ (g : Graph ℚ) (a r tol : ℚ) (k : ℕ) (st : DState ℚ) :
    diterLoop g a r tol (k + 1) st
      = if (diterSweep g a r st).residu < tol * r then diterSweep g a r st
        else diterLoop g a r tol k (diterSweep g a r st) := rfl

/-- ★ `diter_budget` : the loop with `n_iter = K` ends with `residu < tol·(1−a)` (stopping test) or with
    `residu ≤ a^K · residu₀`; in both cases the invariants hold -/
theorem diterLoop_budget {g : Graph ℚ} (hg : g.Nonneg) (hr : g.InRange) (hs : g.RowStoch)
    (hP : SubStoch g.n (entry g)) {a : ℚ} (ha : 0 ≤ a) (ha1 : a ≤ 1) (tol : ℚ) {F0 : ℕ → ℚ} (K : ℕ) {st : DState ℚ}
    (hI : DInv g a F0 st) (hM : DMass g st) :
    DInv g a F0 (diterLoop g a (1 - a) tol K st) ∧ DMass g (diterLoop g a (1 - a) tol K st) ∧
      ((diterLoop g a (1 - a) tol K st).residu < tol * (1 - a) ∨
        (diterLoop g a (1 - a) tol K st).residu ≤ a ^ K * st.residu) ∧
      (0 < K → (diterLoop g a (1 - a) tol K st).residu ≤ a * st.residu) := by
  induction K generalizing st with
  | zero =>
    refine ⟨hI, hM, Or.inr ?_, fun h => absurd h (lt_irrefl 0)⟩
    simp [diterLoop]
  | succ k ih =>
    have hc := sweep_contracts hg hr hs hP ha ha1 hI hM
    obtain ⟨hI', hM'⟩ := sweep_invs hg hr hs ha hI hM
    rw [diterLoop_succ]
    by_cases hstop : (diterSweep g a (1 - a) st).residu < tol * (1 - a)
    · rw [if_pos hstop]
      exact ⟨hI', hM', Or.inl hstop, fun _ => hc⟩
    · rw [if_neg hstop]
      obtain ⟨hI2, hM2, hor, hmono⟩ := ih hI' hM'
      refine ⟨hI2, hM2, ?_, fun _ => ?_⟩
      · rcases hor with h | h
        · exact Or.inl h
        · right
          calc _ ≤ a ^ k * (diterSweep g a (1 - a) st).residu := h
            _ ≤ a ^ k * (a * st.residu) := mul_le_mul_of_nonneg_left hc (pow_nonneg ha k)
            _ = a ^ (k + 1) * st.residu := by ring
      · -- the residual never increases
        by_cases hk : 0 < k
        · have h1 := hmono hk
          have hres1 : 0 ≤ (diterSweep g a (1 - a) st).residu := by
            rw [hM'.mass]; exact sum_nonneg fun i _ => hM'.nonnegF i
          calc _ ≤ a * (diterSweep g a (1 - a) st).residu := h1
            _ ≤ 1 * (diterSweep g a (1 - a) st).residu := mul_le_mul_of_nonneg_right ha1 hres1
            _ = (diterSweep g a (1 - a) st).residu := one_mul _
            _ ≤ a * st.residu := hc
        · have : k = 0 := by omega
          subst this
          simpa [diterLoop] using hc

end SkNet.Rank
