/- Paris: the nearest-neighbour chain cannot run forever. Between two merges the graph is fixed; along the chain the
   similarity of consecutive nodes never decreases and, while it stays the same, the sum of the two node ids
   strictly decreases (ties go to the smaller id, similarities are symmetric), so the pair on top of the chain
   climbs strictly in a finite order. Holds for any rounding function (only symmetry and comparisons are used). -/
import SkNet.Lemmas.Paris
import SkNet.Lemmas.MergeW
import Mathlib.Algebra.Order.Field.Rat
import Mathlib.Data.Finset.Card
import Mathlib.Data.Finset.Prod
import Mathlib.Tactic.Linarith

set_option linter.unusedSimpArgs false
set_option linter.unusedVariables false

namespace SkNet.Paris
open SkNet SkNet.Dendro SkNet.Agg

/-! ### the order on similarities (`none` = `-inf`) -/

theorem simGt_irrefl (a : Option ℚ) : simGt a a = false := by
  cases a with
  | none => rfl
  | some x => simp [simGt]

theorem simGt_trans {a b c : Option ℚ} (h1 : simGt a b = true) (h2 : simGt b c = true) : simGt a c = true := by
  cases a with
  | none => simp [simGt] at h1
  | some x =>
    cases b with
    | none => simp [simGt] at h2
    | some y =>
      cases c with
      | none => rfl
      | some z =>
        simp only [simGt, decide_eq_true_eq] at h1 h2 ⊢
        linarith

theorem simEq_iff {a b : Option ℚ} : simEq a b = true ↔ a = b := by
  cases a <;> cases b <;> simp [simEq]

/-- not greater and not equal: smaller -/
theorem simGt_of_not {a b : Option ℚ} (h1 : simGt a b = false) (h2 : a ≠ b) : simGt b a = true := by
  cases a with
  | none =>
    cases b with
    | none => exact absurd rfl h2
    | some y => rfl
  | some x =>
    cases b with
    | none => simp [simGt] at h1
    | some y =>
      simp only [simGt, decide_eq_false_iff_not, not_lt, decide_eq_true_eq] at h1 ⊢
      have : x ≠ y := fun e => h2 (by rw [e])
      exact lt_of_le_of_ne h1 this

/-! ### similarities are symmetric -/

theorem similarity_symm (round32 : ℚ → ℚ) (g : AggGraph ℚ) (hw : ∀ x y, getEntry g.nb x y = getEntry g.nb y x)
    (a b : Nat) : similarity round32 g a b = similarity round32 g b a := by
  unfold similarity
  simp only
  rw [hw a b, add_comm (wOf g.outW a * wOf g.inW b) (wOf g.outW b * wOf g.inW a)]

/-! ### what the scan of the neighbours returns -/

/-- the state of the scan after the neighbours `pre` -/
def ScanInv (round32 : ℚ → ℚ) (g : AggGraph ℚ) (node : Nat) (pre : List Nat) (acc : Nat × Option ℚ) : Prop :=
  acc.1 ∈ pre ∧ similarity round32 g node acc.1 = acc.2 ∧
    (∀ y ∈ pre, simGt (similarity round32 g node y) acc.2 = false) ∧
    (∀ y ∈ pre, similarity round32 g node y = acc.2 → acc.1 ≤ y)

theorem scan_spec (round32 : ℚ → ℚ) (g : AggGraph ℚ) (node : Nat) :
    ∀ (nbrs pre : List Nat) (acc : Nat × Option ℚ),
      ScanInv round32 g node pre acc →
      ScanInv round32 g node (pre ++ nbrs) (nbrs.foldl (scanStep round32 g node) acc) := by
  intro nbrs
  induction nbrs with
  | nil => intro pre acc hinv; simpa using hinv
  | cons k ks ih =>
    intro pre acc hinv
    simp only [List.foldl_cons]
    have e : pre ++ k :: ks = (pre ++ [k]) ++ ks := by simp
    rw [e]
    refine ih (pre ++ [k]) _ ?_
    obtain ⟨nn, ms⟩ := acc
    obtain ⟨hmem, hsim, hmax, hmin⟩ := hinv
    simp only at hmem hsim hmax hmin
    unfold scanStep
    simp only
    by_cases hgt : simGt (similarity round32 g node k) ms = true
    · simp only [hgt, if_true]
      refine ⟨by simp, rfl, ?_, ?_⟩
      · intro y hy
        rcases List.mem_append.mp hy with h1 | h1
        · by_contra hcon
          have hcon' : simGt (similarity round32 g node y) (similarity round32 g node k) = true := by
            simpa using hcon
          have := simGt_trans hcon' hgt
          rw [hmax y h1] at this; cases this
        · simp only [List.mem_cons, List.not_mem_nil, or_false] at h1
          rw [h1]; exact simGt_irrefl _
      · intro y hy hye
        rcases List.mem_append.mp hy with h1 | h1
        · exfalso
          have := hmax y h1
          rw [hye, hgt] at this; cases this
        · simp only [List.mem_cons, List.not_mem_nil, or_false] at h1
          simp only; omega
    · have hgt' : simGt (similarity round32 g node k) ms = false := by simpa using hgt
      simp only [hgt', Bool.false_eq_true, if_false]
      by_cases heq : simEq (similarity round32 g node k) ms = true
      · simp only [heq, if_true]
        have hk := simEq_iff.mp heq
        refine ⟨?_, ?_, ?_, ?_⟩
        · simp only
          by_cases hle : k ≤ nn
          · rw [Nat.min_eq_left hle]; simp
          · rw [Nat.min_eq_right (by omega)]; exact List.mem_append_left _ hmem
        · simp only
          by_cases hle : k ≤ nn
          · rw [Nat.min_eq_left hle]; exact hk
          · rw [Nat.min_eq_right (by omega)]; exact hsim
        · intro y hy
          rcases List.mem_append.mp hy with h1 | h1
          · exact hmax y h1
          · simp only [List.mem_cons, List.not_mem_nil, or_false] at h1
            rw [h1]; exact hgt'
        · intro y hy hye
          simp only at hye ⊢
          rcases List.mem_append.mp hy with h1 | h1
          · exact le_trans (Nat.min_le_right _ _) (hmin y h1 hye)
          · simp only [List.mem_cons, List.not_mem_nil, or_false] at h1
            rw [h1]; exact Nat.min_le_left _ _
      · have heq' : simEq (similarity round32 g node k) ms = false := by simpa using heq
        simp only [heq', Bool.false_eq_true, if_false]
        refine ⟨List.mem_append_left _ hmem, hsim, ?_, ?_⟩
        · intro y hy
          rcases List.mem_append.mp hy with h1 | h1
          · exact hmax y h1
          · simp only [List.mem_cons, List.not_mem_nil, or_false] at h1
            rw [h1]; exact hgt'
        · intro y hy hye
          rcases List.mem_append.mp hy with h1 | h1
          · exact hmin y h1 hye
          · simp only [List.mem_cons, List.not_mem_nil, or_false] at h1
            exfalso
            rw [h1] at hye
            have := simEq_iff.mpr hye
            rw [this] at heq'; cases heq'

/-- `nearest`: the neighbour of greatest similarity, the smallest id among equals -/
theorem nearest_spec (round32 : ℚ → ℚ) (g : AggGraph ℚ) (node k : Nat) (ks : List Nat) :
    (nearest round32 g node k ks).1 ∈ k :: ks ∧
    similarity round32 g node (nearest round32 g node k ks).1 = (nearest round32 g node k ks).2 ∧
    (∀ y ∈ k :: ks, simGt (similarity round32 g node y) (nearest round32 g node k ks).2 = false) ∧
    (∀ y ∈ k :: ks, similarity round32 g node y = (nearest round32 g node k ks).2 →
      (nearest round32 g node k ks).1 ≤ y) := by
  unfold nearest
  have h0 : ScanInv round32 g node [k] (k, similarity round32 g node k) := by
    refine ⟨by simp, rfl, ?_, ?_⟩
    · intro y hy
      simp only [List.mem_cons, List.not_mem_nil, or_false] at hy
      rw [hy]; exact simGt_irrefl _
    · intro y hy _
      simp only [List.mem_cons, List.not_mem_nil, or_false] at hy
      simp only; omega
  have := scan_spec round32 g node ks [k] _ h0
  simpa [ScanInv] using this

/-! ### the finite order in which the top of the chain climbs -/

/-- `key e < key e'` for the key (similarity, then minus the sum of the two ids) of an ordered pair -/
def keyLtB (round32 : ℚ → ℚ) (g : AggGraph ℚ) (e e' : Nat × Nat) : Bool :=
  simGt (similarity round32 g e'.1 e'.2) (similarity round32 g e.1 e.2) ||
    (simEq (similarity round32 g e'.1 e'.2) (similarity round32 g e.1 e.2) && decide (e'.1 + e'.2 < e.1 + e.2))

theorem keyLtB_irrefl (round32 : ℚ → ℚ) (g : AggGraph ℚ) (e : Nat × Nat) : keyLtB round32 g e e = false := by
  unfold keyLtB
  simp [simGt_irrefl]

theorem keyLtB_trans {round32 : ℚ → ℚ} {g : AggGraph ℚ} {e1 e2 e3 : Nat × Nat}
    (h1 : keyLtB round32 g e1 e2 = true) (h2 : keyLtB round32 g e2 e3 = true) : keyLtB round32 g e1 e3 = true := by
  unfold keyLtB at h1 h2 ⊢
  simp only [Bool.or_eq_true, Bool.and_eq_true, decide_eq_true_eq] at h1 h2 ⊢
  rcases h1 with a | ⟨a, a'⟩
  · rcases h2 with b | ⟨b, b'⟩
    · exact Or.inl (simGt_trans b a)
    · rw [simEq_iff.mp b]; exact Or.inl a
  · rcases h2 with b | ⟨b, b'⟩
    · rw [← simEq_iff.mp a]; exact Or.inl b
    · right
      exact ⟨simEq_iff.mpr ((simEq_iff.mp b).trans (simEq_iff.mp a)), by omega⟩

/-- number of ordered pairs of ids below `m` whose key is above the key of `e` -/
def rank (round32 : ℚ → ℚ) (g : AggGraph ℚ) (m : Nat) (e : Nat × Nat) : Nat :=
  ((Finset.range m ×ˢ Finset.range m).filter (fun e' => keyLtB round32 g e e' = true)).card

theorem rank_le (round32 : ℚ → ℚ) (g : AggGraph ℚ) (m : Nat) (e : Nat × Nat) : rank round32 g m e ≤ m * m := by
  unfold rank
  have := Finset.card_filter_le (Finset.range m ×ˢ Finset.range m) (fun e' => keyLtB round32 g e e' = true)
  simpa using this

theorem rank_lt_sq (round32 : ℚ → ℚ) (g : AggGraph ℚ) {m : Nat} {e : Nat × Nat} (h1 : e.1 < m) (h2 : e.2 < m) :
    rank round32 g m e < m * m := by
  unfold rank
  have hsub : (Finset.range m ×ˢ Finset.range m).filter (fun e' => keyLtB round32 g e e' = true) ⊂
      Finset.range m ×ˢ Finset.range m := by
    rw [Finset.ssubset_iff_of_subset (Finset.filter_subset _ _)]
    refine ⟨e, by simp [h1, h2], ?_⟩
    simp [keyLtB_irrefl]
  have := Finset.card_lt_card hsub
  simpa using this

theorem rank_lt_of_keyLt {round32 : ℚ → ℚ} {g : AggGraph ℚ} {m : Nat} {e e' : Nat × Nat} (h1 : e'.1 < m)
    (h2 : e'.2 < m) (h : keyLtB round32 g e e' = true) : rank round32 g m e' < rank round32 g m e := by
  unfold rank
  apply Finset.card_lt_card
  rw [Finset.ssubset_iff_of_subset]
  · refine ⟨e', by simp [h1, h2, h], ?_⟩
    simp [keyLtB_irrefl]
  · intro x hx
    simp only [Finset.mem_filter] at hx ⊢
    exact ⟨hx.1, keyLtB_trans h hx.2⟩


/-! ### the measure -/

/-- `z1` is what the scan of the neighbours of `z0` returns in `g` -/
def Fresh (round32 : ℚ → ℚ) (g : AggGraph ℚ) (z0 z1 : Nat) : Prop :=
  ∃ row k ks, g.nb.get? z0 = some row ∧ row.keys.filter (· != z0) = k :: ks ∧ (nearest round32 g z0 k ks).1 = z1

open Classical in
/-- what is left to do before the next merge or the next finished component -/
noncomputable def pot (round32 : ℚ → ℚ) (m : Nat) (st : PState ℚ) : Nat :=
  match st.chain with
  | [] => m * m + 2
  | [_] => m * m + 1
  | z1 :: z0 :: _ => if Fresh round32 st.g z0 z1 then rank round32 st.g m (z0, z1) else m * m

noncomputable def mu (round32 : ℚ → ℚ) (m : Nat) (st : PState ℚ) : Nat :=
  st.g.sizes.length * (m * m + 3) + pot round32 m st

theorem pot_le (round32 : ℚ → ℚ) (m : Nat) (st : PState ℚ) : pot round32 m st ≤ m * m + 2 := by
  unfold pot
  split
  · omega
  · omega
  · rename_i z1 z0 tl _
    split
    · have := rank_le round32 st.g m (z0, z1); omega
    · omega

theorem mu_dec {a b C p1 p : Nat} (h : a + 1 = b) (hp : p1 < C) : a * C + p1 < b * C + p := by
  subst h
  rw [Nat.succ_mul]
  calc a * C + p1 < a * C + C := Nat.add_lt_add_left hp _
    _ ≤ a * C + C + p := Nat.le_add_right _ _

/-- the invariants carried along the chain loop -/
structure TInv (n : Nat) (st : PState ℚ) : Prop where
  pinv : ∃ L, PInv n st.g st.rows st.comps L
  nbi : NbInv st.g.nb st.g.next

theorem pinv_next_le {n : Nat} {g : AggGraph ℚ} {rows : List (Row (HInf ℚ))} {comps : List (Nat × Nat)}
    {L : Dict Nat} (h : PInv n g rows comps L) : g.next ≤ 2 * n := by
  have := (liveAfter_linv rows 0 _ L (by simpa using linv_init (List.replicate n 1)) h.live).2
  simp only [liveInit, List.length_map, List.length_range, List.length_replicate] at this
  rw [h.next]; omega

theorem row_of_get {nb : Dict (Dict ℚ)} {x : Nat} {rw' : Dict ℚ} (h : nb.get? x = some rw') : row nb x = rw' := by
  unfold row; rw [h]; rfl

/-- a scanned neighbour: both ends are nodes of the graph, and the relation is symmetric -/
theorem nbr_facts {nb : Dict (Dict ℚ)} {next : Nat} (hI : NbInv nb next) {x y : Nat} {rowX : Dict ℚ}
    (hx : nb.get? x = some rowX) (hy : y ∈ rowX.keys.filter (· != x)) :
    y < next ∧ x < next ∧ x ≠ y ∧ ∀ rowY, nb.get? y = some rowY → x ∈ rowY.keys.filter (· != y) := by
  obtain ⟨hmem, hne⟩ := List.mem_filter.mp hy
  have hne' : y ≠ x := by simpa using hne
  have hK : K nb x y = true := by
    rw [← mem_keys_row_iff, row_of_get hx]; exact hmem
  have hK' : K nb y x = true := by rw [hI.sym y x]; exact hK
  have hyl : y < next := by
    by_contra hcon
    have := hI.fresh x y (by omega)
    rw [hK] at this; cases this
  have hxl : x < next := by
    by_contra hcon
    have := hI.fresh y x (by omega)
    rw [hK'] at this; cases this
  refine ⟨hyl, hxl, Ne.symm hne', ?_⟩
  intro rowY hY
  refine List.mem_filter.mpr ⟨?_, by simpa using Ne.symm hne'⟩
  rw [← row_of_get hY, mem_keys_row_iff]; exact hK'

theorem merge_sizes_length {n : Nat} {g : AggGraph ℚ} {rows : List (Row (HInf ℚ))} {comps : List (Nat × Nat)}
    {L : Dict Nat} (h : PInv n g rows comps L) {a b s1 s2 : Nat} (h1 : g.sizes.get? a = some s1)
    (h2 : g.sizes.get? b = some s2) (hne : a ≠ b) : (g.merge a b).sizes.length + 1 = g.sizes.length := by
  obtain ⟨hms, _⟩ := merge_sizes g a b h1 h2
  have hfresh : g.next ∉ Dict.keys ((g.sizes.erase a).erase b) := by
    intro hm
    have hk := (Dict.mem_keys_erase.mp (Dict.mem_keys_erase.mp hm).1).1
    obtain ⟨s, hs⟩ : ∃ s, g.sizes.get? g.next = some s := by
      cases e : g.sizes.get? g.next with
      | none => exact absurd hk ((Dict.get?_eq_none_iff _ _).mp e)
      | some s => exact ⟨s, rfl⟩
    have := h.linv.bound _ (Dict.get?_some_key_mem (h.sizes _ s hs))
    rw [h.next] at this; omega
  rw [hms, Dict.set_of_not_mem hfresh]
  have l1 := Dict.length_erase_of_mem h.sizesNodup (Dict.get?_some_key_mem h1)
  have hb' : (g.sizes.erase a).get? b = some s2 := by
    rw [Dict.get?_erase]; simp [Ne.symm hne, h2]
  have l2 := Dict.length_erase_of_mem (Dict.nodup_keys_erase h.sizesNodup a) (Dict.get?_some_key_mem hb')
  simp only [List.length_append, List.length_cons, List.length_nil]
  omega


/-! ### every iteration makes progress -/

theorem chainStep_mu {n : Nat} (round32 : ℚ → ℚ) (n0 : Nat) {st st1 : PState ℚ} (h : TInv n st)
    (hs : chainStep round32 n0 st = .ok (some st1)) :
    TInv n st1 ∧ mu round32 (2 * n) st1 < mu round32 (2 * n) st := by
  obtain ⟨L, hP⟩ := h.pinv
  have hI := h.nbi
  have hnext := pinv_next_le hP
  obtain ⟨g, chain, rows, comps⟩ := st
  simp only at hP hI hnext
  unfold chainStep at hs
  split at hs
  · -- the chain is empty: start from the first remaining node
    rename_i hchain
    simp only at hchain
    subst hchain
    split at hs
    · cases hs
    · rename_i node sz tl hsz
      simp only [Except.ok.injEq, Option.some.injEq] at hs; subst hs
      refine ⟨⟨⟨L, hP⟩, hI⟩, ?_⟩
      unfold mu pot
      simp only
      omega
  · rename_i node rest hchain
    simp only at hchain
    subst hchain
    split at hs
    · cases hs
    · rename_i rowNode hrow
      simp only at hs hrow
      split at hs
      · -- no neighbour left: a connected component is finished
        split at hs
        · cases hs
        · rename_i sz hsz
          simp only [Except.ok.injEq, Option.some.injEq] at hs; subst hs
          refine ⟨⟨⟨L, pinv_comp hP hsz⟩, hI⟩, ?_⟩
          have hl := Dict.length_erase_of_mem hP.sizesNodup (Dict.get?_some_key_mem hsz)
          unfold mu
          simp only
          exact mu_dec hl (Nat.lt_succ_of_le (pot_le _ _ _))
      · rename_i k ks hnb
        obtain ⟨hnnmem, hsimnn, hmax, hmin⟩ := nearest_spec round32 g node k ks
        rw [← hnb] at hnnmem hmax hmin
        obtain ⟨hnnlt, hnodelt, hnodenn, _⟩ := nbr_facts hI hrow hnnmem
        have hfresh : Fresh round32 g node (nearest round32 g node k ks).1 := ⟨rowNode, k, ks, hrow, hnb, rfl⟩
        split at hs
        · rename_i last rest'
          split at hs
          · -- reciprocal nearest neighbours: merge
            split at hs
            · rename_i s1 s2 h1 h2
              simp only [Except.ok.injEq, Option.some.injEq] at hs; subst hs
              obtain ⟨L', hP'⟩ := pinv_merge hP h1 h2 hnodenn
                (clampHeight n0 rows (invSim (nearest round32 g node k ks).2) node (nearest round32 g node k ks).1)
              have hnb' : NbInv (g.merge node (nearest round32 g node k ks).1).nb
                  (g.merge node (nearest round32 g node k ks).1).next := nbInv_merge hI hnodenn hnodelt hnnlt
              refine ⟨⟨⟨L', hP'⟩, hnb'⟩, ?_⟩
              have hl := merge_sizes_length hP h1 h2 hnodenn
              unfold mu
              simp only
              exact mu_dec hl (Nat.lt_succ_of_le (pot_le _ _ _))
            · cases hs
          · -- the chain grows: the pair on top climbs
            rename_i hlast
            simp only [Except.ok.injEq, Option.some.injEq] at hs; subst hs
            refine ⟨⟨⟨L, hP⟩, hI⟩, ?_⟩
            have hlastne : last ≠ (nearest round32 g node k ks).1 := by simpa using hlast
            unfold mu
            simp only
            apply Nat.add_lt_add_left
            unfold pot
            simp only [hfresh, if_true]
            split
            · -- the pair below was fresh: its key is smaller
              rename_i hfl
              obtain ⟨rowL, kL, ksL, hrowL, hnbL, hnnL⟩ := hfl
              obtain ⟨hnodemem, hsim0, _, _⟩ := nearest_spec round32 g last kL ksL
              rw [← hnbL, hnnL] at hnodemem
              rw [hnnL] at hsim0
              obtain ⟨_, _, _, hback⟩ := nbr_facts hI hrowL hnodemem
              have hlastmem := hback rowNode hrow
              have hsymm : similarity round32 g node last = similarity round32 g last node :=
                similarity_symm round32 g hI.wsym node last
              have hle := hmax last hlastmem
              apply rank_lt_of_keyLt (by simp only; omega) (by simp only; omega)
              unfold keyLtB
              simp only [hsimnn, Bool.or_eq_true, Bool.and_eq_true, decide_eq_true_eq]
              by_cases heq : similarity round32 g last node = (nearest round32 g node k ks).2
              · right
                refine ⟨simEq_iff.mpr heq.symm, ?_⟩
                have := hmin last hlastmem (by rw [hsymm, heq])
                omega
              · left
                rw [hsymm] at hle
                exact simGt_of_not hle heq
            · exact rank_lt_sq round32 g (by simp only; omega) (by simp only; omega)
        · -- the chain had one element
          simp only [Except.ok.injEq, Option.some.injEq] at hs; subst hs
          refine ⟨⟨⟨L, hP⟩, hI⟩, ?_⟩
          unfold mu
          simp only
          apply Nat.add_lt_add_left
          unfold pot
          simp only [hfresh, if_true]
          have := rank_lt_sq round32 g (m := 2 * n) (e := (node, (nearest round32 g node k ks).1))
            (by simp only; omega) (by simp only; omega)
          omega

/-- with more fuel than the measure, the chain loop never runs out of fuel -/
theorem chainLoop_terminates {n : Nat} (round32 : ℚ → ℚ) (n0 : Nat) : ∀ (fuel : Nat) (st : PState ℚ),
    TInv n st → mu round32 (2 * n) st < fuel → chainLoop round32 n0 fuel st ≠ .ok none := by
  intro fuel
  induction fuel with
  | zero => intro st _ h; omega
  | succ fuel ih =>
    intro st hT hmu
    unfold chainLoop
    cases hstep : chainStep round32 n0 st with
    | error e => simp
    | ok r =>
      cases r with
      | none => simp
      | some st1 =>
        simp only
        obtain ⟨hT1, hlt⟩ := chainStep_mu round32 n0 hT hstep
        exact ih st1 hT1 (by omega)

end SkNet.Paris
