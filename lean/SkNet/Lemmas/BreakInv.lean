/- The invariant behind `break_cycles`: the edges of a stacked path other than its last one are never removed
   ("prefix edges stay"), hence every removal keeps its two ends joined by the path it closes. -/
import SkNet.Model.Cycles
import SkNet.Spec.Connectivity
import SkNet.Lemmas.BreakCycles
import SkNet.Lemmas.Reach

namespace SkNet.Cycles
open SkNet SkNet.Connectivity

/-! ### reversed paths whose edges are present in the current adjacency -/

/-- `l = [v_k, …, v_1, v_0]` and every edge `v_i → v_{i+1}` is stored in `a` -/
def rchain (a : Rows) : List Nat → Bool
  | [] => true
  | [_] => true
  | y :: x :: l => a.has x y && rchain a (x :: l)

theorem rchain_cons_cons (a : Rows) (y x : Nat) (l : List Nat) :
    rchain a (y :: x :: l) = (a.has x y && rchain a (x :: l)) := by
  rw [rchain]

theorem rchain_tail {a : Rows} {l : List Nat} (h : rchain a l = true) : rchain a l.tail = true := by
  match l with
  | [] => rfl
  | [_] => rfl
  | y :: x :: l =>
    rw [rchain_cons_cons] at h
    simp only [Bool.and_eq_true] at h
    exact h.2

theorem rchain_suffix {a : Rows} {l l' : List Nat} (hs : l' <:+ l) (h : rchain a l = true) : rchain a l' = true := by
  induction l with
  | nil =>
    have : l' = [] := List.suffix_nil.mp hs
    subst this; rfl
  | cons c t ih =>
    rcases List.suffix_cons_iff.mp hs with rfl | hs'
    · exact h
    · exact ih hs' (rchain_tail h)

theorem mem_row_remove (a : Rows) (i j x y : Nat) :
    y ∈ (a.remove i j).row x ↔ y ∈ a.row x ∧ ¬ (x = i ∧ y = j) := by
  rw [Rows.row_remove]
  by_cases hix : i = x
  · subst hix
    simp only [↓reduceIte, List.mem_filter, bne_iff_ne, ne_eq, true_and]
  · simp only [hix, ↓reduceIte]
    constructor
    · intro h; exact ⟨h, fun h2 => hix h2.1.symm⟩
    · intro h; exact h.1

theorem Rows.has_remove (a : Rows) (i j x y : Nat) :
    (a.remove i j).has x y = (a.has x y && !(x == i && y == j)) := by
  unfold Rows.has
  rw [Bool.eq_iff_iff]
  simp only [List.contains_iff_mem, mem_row_remove, Bool.and_eq_true, Bool.not_eq_true', Bool.and_eq_false_iff,
    beq_eq_false_iff_ne]
  constructor
  · intro ⟨h1, h2⟩
    refine ⟨h1, ?_⟩
    by_cases hx : x = i
    · right; exact fun hy => h2 ⟨hx, hy⟩
    · left; exact hx
  · intro ⟨h1, h2⟩
    refine ⟨h1, fun ⟨h3, h4⟩ => ?_⟩
    rcases h2 with h5 | h5
    · exact h5 h3
    · exact h5 h4

/-- removing `u → v` keeps the chain when `u` is not the source of one of its edges -/
theorem rchain_remove_source {a : Rows} {l : List Nat} (u v : Nat) (h : rchain a l = true)
    (hu : ∀ x ∈ l.tail, x ≠ u) : rchain (a.remove u v) l = true := by
  match l with
  | [] => rfl
  | [_] => rfl
  | y :: x :: l =>
    rw [rchain_cons_cons] at h ⊢
    simp only [Bool.and_eq_true] at h ⊢
    refine ⟨?_, rchain_remove_source u v h.2 (fun z hz => hu z (List.mem_cons_of_mem _ hz))⟩
    rw [Rows.has_remove]
    have : (x == u) = false := by simpa using hu x (by simp)
    simp [h.1, this]

/-- removing `u → v` keeps the chain when `v` is not on it -/
theorem rchain_remove_target {a : Rows} {l : List Nat} (u v : Nat) (h : rchain a l = true)
    (hv : v ∉ l) : rchain (a.remove u v) l = true := by
  match l with
  | [] => rfl
  | [_] => rfl
  | y :: x :: l =>
    rw [rchain_cons_cons] at h ⊢
    simp only [Bool.and_eq_true] at h ⊢
    refine ⟨?_, rchain_remove_target u v h.2 (fun hm => hv (List.mem_cons_of_mem _ hm))⟩
    rw [Rows.has_remove]
    have : (y == v) = false := by
      have : y ≠ v := fun hy => hv (by rw [hy]; simp)
      simpa using this
    simp [h.1, this]

/-- removing `u → c` keeps the chain `c :: l` when `c` occurs only at its head and `u` is not the node before `c` -/
theorem rchain_remove_head_target {a : Rows} {c : Nat} {l : List Nat} (u : Nat) (h : rchain a (c :: l) = true)
    (hc : c ∉ l) (hpar : l.head? ≠ some u) : rchain (a.remove u c) (c :: l) = true := by
  match l with
  | [] => rfl
  | x :: l =>
    rw [rchain_cons_cons] at h ⊢
    simp only [Bool.and_eq_true] at h ⊢
    refine ⟨?_, rchain_remove_target u c h.2 hc⟩
    rw [Rows.has_remove]
    have : (x == u) = false := by
      have : x ≠ u := fun hx => hpar (by rw [hx]; rfl)
      simpa using this
    simp [h.1, this]

/-- along a chain every node reaches the head -/
theorem rchain_reach_head {a : Rows} {c : Nat} {l : List Nat} (h : rchain a (c :: l) = true) :
    ∀ y ∈ c :: l, Reach a.row y c := by
  induction l generalizing c with
  | nil => intro y hy; simp at hy; subst hy; exact Reach.refl _
  | cons x l ih =>
    rw [rchain_cons_cons] at h
    simp only [Bool.and_eq_true] at h
    intro y hy
    rcases List.mem_cons.mp hy with rfl | hy
    · exact Reach.refl _
    · have hxc : c ∈ a.row x := by simpa [Rows.has] using h.1
      exact (ih h.2 y hy).trans (Reach.edge hxc)

/-! ### sub-patterns and reachability -/

theorem Reach.mono {adj adj' : Nat → List Nat} (hsub : ∀ u v, v ∈ adj u → v ∈ adj' u) {u v : Nat}
    (h : Reach adj u v) : Reach adj' u v := by
  induction h with
  | refl => exact Reach.refl _
  | tail _ he ih => exact Reach.tail ih (hsub _ _ he)

/-- the pattern is symmetric -/
def Rows.Symm (a : Rows) : Prop := ∀ u v, v ∈ a.row u → u ∈ a.row v

theorem reach_symm {a : Rows} (hs : a.Symm) {u v : Nat} (h : Reach a.row u v) : Reach a.row v u := by
  induction h with
  | refl => exact Reach.refl _
  | tail _ he ih => exact (Reach.edge (hs _ _ he)).trans ih

end SkNet.Cycles

namespace SkNet.Cycles
open SkNet SkNet.Connectivity

/-! ### the undirected branch -/

/-- what holds of the adjacency throughout the undirected branch -/
structure UGraph (a0 a : Rows) : Prop where
  sub : a.Sub a0
  symm : a.Symm
  conn : ∀ u v, Reach a0.row u v → Reach a.row u v
  noloop : ∀ u, u ∉ a.row u

/-- a stack entry: a duplicate-free path whose edges, except possibly the last one, are stored -/
def EntryOK (a : Rows) (q : List Nat) : Prop := q ≠ [] ∧ q.Nodup ∧ rchain a q.tail = true

/-- removing the edge `cur — nb` (both directions) where `cur` heads the intact path `cur :: t`, `nb` lies on it
    and is not the node before `cur`: every chain that is a suffix of the path survives -/
theorem rchain_remove_pair {a : Rows} {cur nb : Nat} {t l : List Nat} (hnd : (cur :: t).Nodup)
    (hpar : t.head? ≠ some nb) (hl : l <:+ cur :: t) (h : rchain a l = true) :
    rchain ((a.remove cur nb).remove nb cur) l = true := by
  have hct : cur ∉ t := (List.nodup_cons.mp hnd).1
  rcases List.suffix_cons_iff.mp hl with rfl | hl'
  · apply rchain_remove_head_target nb _ hct hpar
    exact rchain_remove_source cur nb h (fun x hx => by
      intro hxc; subst hxc; exact hct hx)
  · have hcl : cur ∉ l := fun hm => hct (List.IsSuffix.mem hm hl')
    apply rchain_remove_target nb cur _ hcl
    exact rchain_remove_source cur nb h (fun x hx => by
      intro hxc; subst hxc; exact hcl (List.mem_of_mem_tail hx))

theorem UGraph.remove_pair {a0 a : Rows} (hg : UGraph a0 a) {cur nb : Nat} {t : List Nat}
    (hnd : (cur :: t).Nodup) (hch : rchain a (cur :: t) = true) (hnb : nb ∈ cur :: t)
    (hpar : t.head? ≠ some nb) :
    UGraph a0 ((a.remove cur nb).remove nb cur) := by
  have hch2 := rchain_remove_pair hnd hpar (List.suffix_refl _) hch
  have hmem : ∀ x y, y ∈ ((a.remove cur nb).remove nb cur).row x ↔
      y ∈ a.row x ∧ ¬ (x = cur ∧ y = nb) ∧ ¬ (x = nb ∧ y = cur) := by
    intro x y
    rw [mem_row_remove, mem_row_remove]
    constructor
    · intro ⟨⟨h1, h2⟩, h3⟩; exact ⟨h1, h2, h3⟩
    · intro ⟨h1, h2, h3⟩; exact ⟨⟨h1, h2⟩, h3⟩
  have hsymm : ((a.remove cur nb).remove nb cur).Symm := by
    intro u v hv
    obtain ⟨h1, h2, h3⟩ := (hmem u v).mp hv
    exact (hmem v u).mpr ⟨hg.symm u v h1, fun ⟨h4, h5⟩ => h3 ⟨h5, h4⟩, fun ⟨h4, h5⟩ => h2 ⟨h5, h4⟩⟩
  have hnc : Reach ((a.remove cur nb).remove nb cur).row nb cur := rchain_reach_head hch2 nb hnb
  have hcn : Reach ((a.remove cur nb).remove nb cur).row cur nb := reach_symm hsymm hnc
  have hre : ∀ u v, Reach a.row u v → Reach ((a.remove cur nb).remove nb cur).row u v := by
    intro u v huv
    induction huv with
    | refl => exact Reach.refl _
    | @tail x y _ he ih =>
      by_cases h1 : x = cur ∧ y = nb
      · obtain ⟨rfl, rfl⟩ := h1; exact ih.trans hcn
      · by_cases h2 : x = nb ∧ y = cur
        · obtain ⟨rfl, rfl⟩ := h2; exact ih.trans hnc
        · exact Reach.tail ih ((hmem x y).mpr ⟨he, h1, h2⟩)
  refine ⟨((Rows.remove_sub _ nb cur).trans (Rows.remove_sub a cur nb)).trans hg.sub, hsymm,
    fun u v huv => hre u v (hg.conn u v huv), ?_⟩
  · intro u hu
    exact hg.noloop u ((hmem u u).mp hu).1

/-- `for neighbor in neighbors` (undirected): the invariants of the adjacency, of the popped path and of the stack -/
theorem breakNeighborsUnd_inv {a0 : Rows} {cur : Nat} {t : List Nat}
    (nbs : List Nat) (a : Rows) (stack : List (List Nat))
    (hg : UGraph a0 a) (hnd : (cur :: t).Nodup) (hch : rchain a (cur :: t) = true)
    (hnbs : ∀ nb ∈ nbs, nb ≠ cur)
    (hst : ∀ q ∈ stack, EntryOK a q ∧ q.tail <:+ cur :: t) :
    let r := breakNeighborsUnd cur (cur :: t) nbs (a, stack)
    UGraph a0 r.1 ∧ rchain r.1 (cur :: t) = true ∧ r.1.Sub a ∧
    (∀ q ∈ r.2, EntryOK r.1 q ∧ q.tail <:+ cur :: t) ∧
    ∃ pushed, r.2 = pushed ++ stack ∧ ∀ q ∈ pushed, q.tail = cur :: t := by
  induction nbs generalizing a stack with
  | nil =>
    simp only [breakNeighborsUnd]
    exact ⟨hg, hch, Rows.Sub.refl a, hst, [], rfl, by simp⟩
  | cons nb rest ih =>
    have hrest : ∀ x ∈ rest, x ≠ cur := fun x hx => hnbs x (List.mem_cons_of_mem _ hx)
    have hnbc : nb ≠ cur := hnbs nb List.mem_cons_self
    unfold breakNeighborsUnd
    by_cases hback : (decide ((cur :: t).length > 1) && nb == (cur :: t).getD 1 0) = true
    · simp only [hback, ↓reduceIte]
      exact ih a stack hg hch hrest hst
    · simp only [hback, Bool.false_eq_true, ↓reduceIte]
      by_cases hin : (cur :: t).contains nb = true
      · simp only [hin, ↓reduceIte]
        have hnb : nb ∈ cur :: t := by simpa using hin
        have hpar : t.head? ≠ some nb := by
          intro hp
          apply hback
          cases t with
          | nil => simp at hp
          | cons x t => simp at hp; simp [hp]
        have hg' := hg.remove_pair hnd hch hnb hpar
        have hch' := rchain_remove_pair hnd hpar (List.suffix_refl _) hch
        have hst' : ∀ q ∈ stack, EntryOK ((a.remove cur nb).remove nb cur) q ∧ q.tail <:+ cur :: t := by
          intro q hq
          obtain ⟨⟨h1, h2, h3⟩, h4⟩ := hst q hq
          exact ⟨⟨h1, h2, rchain_remove_pair hnd hpar h4 h3⟩, h4⟩
        obtain ⟨r1, r2, r3, r4, r5⟩ := ih _ stack hg' hch' hrest hst'
        exact ⟨r1, r2, r3.trans ((Rows.remove_sub _ nb cur).trans (Rows.remove_sub a cur nb)), r4, r5⟩
      · simp only [hin, Bool.false_eq_true, ↓reduceIte]
        have hnotin : nb ∉ cur :: t := by simpa using hin
        have hst' : ∀ q ∈ (nb :: cur :: t) :: stack, EntryOK a q ∧ q.tail <:+ cur :: t := by
          intro q hq
          rcases List.mem_cons.mp hq with rfl | hq
          · exact ⟨⟨by simp, List.nodup_cons.mpr ⟨hnotin, hnd⟩, hch⟩, List.suffix_refl _⟩
          · exact hst q hq
        obtain ⟨r1, r2, r3, r4, pushed, r5, r6⟩ := ih a _ hg hch hrest hst'
        refine ⟨r1, r2, r3, r4, pushed ++ [nb :: cur :: t], by rw [r5]; simp, ?_⟩
        intro q hq
        rcases List.mem_append.mp hq with h | h
        · exact r6 q h
        · simp only [List.mem_singleton] at h; subst h; rfl

end SkNet.Cycles

namespace SkNet.Cycles
open SkNet SkNet.Connectivity

/-- the stack of the traversal: entries with stored prefix edges, each entry's path-before-last a suffix of the
    ones above it -/
def StackOK (a : Rows) (stack : List (List Nat)) : Prop :=
  (∀ q ∈ stack, EntryOK a q) ∧ stack.Pairwise (fun q1 q2 => q2.tail <:+ q1.tail)

theorem rchain_of_edge_present {a : Rows} {cur : Nat} {t : List Nat} (ht : rchain a t = true)
    (hpresent : edgeGone a (cur :: t) = false) : rchain a (cur :: t) = true := by
  cases t with
  | nil => rfl
  | cons prev t =>
    rw [rchain_cons_cons]
    simp only [edgeGone, Bool.not_eq_eq_eq_not, Bool.not_false] at hpresent
    simp [hpresent, ht]

theorem breakLoopUnd_inv {a0 : Rows} (fuel : Nat) (a : Rows) (stack : List (List Nat)) (aEnd : Rows)
    (hg : UGraph a0 a) (hs : StackOK a stack) (h : breakLoopUnd fuel a stack = some aEnd) :
    UGraph a0 aEnd ∧ aEnd.Sub a := by
  induction fuel generalizing a stack with
  | zero => simp [breakLoopUnd] at h
  | succ fuel ih =>
    unfold breakLoopUnd at h
    match stack, hs with
    | [], _ => simp only at h; cases h; exact ⟨hg, Rows.Sub.refl _⟩
    | rp :: rest, hs =>
      simp only at h
      obtain ⟨hent, hpw⟩ := hs
      have hrest : StackOK a rest :=
        ⟨fun q hq => hent q (List.mem_cons_of_mem _ hq), (List.pairwise_cons.mp hpw).2⟩
      by_cases hgone : edgeGone a rp = true
      · simp only [hgone, ↓reduceIte] at h
        exact ih a rest hg hrest h
      · simp only [hgone, Bool.false_eq_true, ↓reduceIte] at h
        obtain ⟨hne, hnd, htail⟩ := hent rp List.mem_cons_self
        obtain ⟨cur, t, rfl⟩ := List.exists_cons_of_ne_nil hne
        have hch : rchain a (cur :: t) = true := rchain_of_edge_present htail (by simpa using hgone)
        have hst : ∀ q ∈ rest, EntryOK a q ∧ q.tail <:+ cur :: t := by
          intro q hq
          refine ⟨hent q (List.mem_cons_of_mem _ hq), ?_⟩
          have := (List.pairwise_cons.mp hpw).1 q hq
          exact this.trans (List.suffix_cons cur t)
        have hnbs : ∀ nb ∈ a.row cur, nb ≠ cur := fun nb hnb hc => hg.noloop cur (hc ▸ hnb)
        obtain ⟨r1, _, r3, r4, pushed, r5, r6⟩ := breakNeighborsUnd_inv (a.row cur) a rest hg hnd hch hnbs hst
        simp only [List.headD_cons] at h
        have hs' : StackOK (breakNeighborsUnd cur (cur :: t) (a.row cur) (a, rest)).1
            (breakNeighborsUnd cur (cur :: t) (a.row cur) (a, rest)).2 := by
          refine ⟨fun q hq => (r4 q hq).1, ?_⟩
          rw [r5, List.pairwise_append]
          refine ⟨?_, (List.pairwise_cons.mp hpw).2, ?_⟩
          · apply List.pairwise_of_forall_mem_list
            intro q1 h1 q2 h2
            rw [r6 q1 h1, r6 q2 h2]
            exact List.suffix_refl _
          · intro q1 h1 q2 h2
            rw [r6 q1 h1]
            have := (List.pairwise_cons.mp hpw).1 q2 h2
            exact this.trans (List.suffix_cons cur t)
        obtain ⟨e1, e2⟩ := ih _ _ r1 hs' h
        exact ⟨e1, e2.trans r3⟩

theorem breakStarts_inv {a0 : Rows} (fuel : Nat) (starts : List Nat) (a aEnd : Rows)
    (hg : UGraph a0 a) (h : breakStarts fuel starts a = some aEnd) :
    UGraph a0 aEnd ∧ aEnd.Sub a := by
  induction starts generalizing a with
  | nil => simp only [breakStarts] at h; cases h; exact ⟨hg, Rows.Sub.refl _⟩
  | cons s rest ih =>
    unfold breakStarts at h
    split at h
    · cases h
    · rename_i a' ha'
      have hs : StackOK a [[s]] := ⟨by
        intro q hq
        simp only [List.mem_singleton] at hq
        subst hq
        exact ⟨by simp, by simp, rfl⟩, by simp⟩
      obtain ⟨g1, s1⟩ := breakLoopUnd_inv fuel a [[s]] a' hg hs ha'
      obtain ⟨g2, s2⟩ := ih a' g1 h
      exact ⟨g2, s2.trans s1⟩

theorem edgeGone_mono {a a' : Rows} (hs : a'.Sub a) {rp : List Nat} (h : edgeGone a rp = true) :
    edgeGone a' rp = true := by
  match rp with
  | [] => simp [edgeGone] at h
  | [_] => simp [edgeGone] at h
  | last :: prev :: _ =>
    simp only [edgeGone, Bool.not_eq_eq_eq_not, Bool.not_true] at h ⊢
    cases hh : a'.has prev last with
    | false => rfl
    | true =>
      have : last ∈ a'.row prev := by simpa [Rows.has] using hh
      have := hs.2 prev last this
      simp [Rows.has, this] at h


end SkNet.Cycles
