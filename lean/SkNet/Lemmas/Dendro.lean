/- Lemmas on the leaf table of a dendrogram (`SkNet.Dendro.leaves`). -/
import SkNet.Model.Dendro

namespace SkNet.Dendro
variable {α : Type}

theorem leafTable_append (pre rs : List (Row α)) (tbl : List (List Nat)) :
    leafTable (pre ++ rs) tbl = leafTable rs (leafTable pre tbl) := by
  induction pre generalizing tbl with
  | nil => rfl
  | cons r pre ih => simp only [List.cons_append, leafTable, ih]

theorem leafTable_length (D : List (Row α)) (tbl : List (List Nat)) :
    (leafTable D tbl).length = tbl.length + D.length := by
  induction D generalizing tbl with
  | nil => simp [leafTable]
  | cons r rs ih => simp only [leafTable, ih, List.length_append, List.length_cons, List.length_nil]; omega

theorem leafTable_getD_lt (D : List (Row α)) (tbl : List (List Nat)) {x : Nat} (hx : x < tbl.length) :
    (leafTable D tbl).getD x [] = tbl.getD x [] := by
  induction D generalizing tbl with
  | nil => rfl
  | cons r rs ih =>
    simp only [leafTable]
    rw [ih _ (by simp; omega)]
    simp only [List.getD_eq_getElem?_getD]
    rw [List.getElem?_append_left hx]

theorem leafTable0_length (n : Nat) (D : Dendro α) : (leafTable0 n D).length = n + D.length := by
  simp [leafTable0, leafTable_length]

/-- a leaf is below itself only -/
theorem leaves_leaf (n : Nat) (D : Dendro α) {x : Nat} (hx : x < n) : leaves n D x = [x] := by
  unfold leaves leafTable0
  rw [leafTable_getD_lt _ _ (by simpa using hx), tab_getD]
  simp [hx]

/-- rows after the creation of `x` do not change its leaves -/
theorem leaves_append_lt (n : Nat) (pre rs : Dendro α) {x : Nat} (hx : x < n + pre.length) :
    leaves n (pre ++ rs) x = leaves n pre x := by
  unfold leaves leafTable0
  rw [leafTable_append]
  exact leafTable_getD_lt _ _ (by rw [leafTable_length]; simpa using hx)

/-- the defining equation: the node created by row `r` (after the rows `pre`) has the leaves of its children -/
theorem leaves_new (n : Nat) (pre : Dendro α) (r : Row α) :
    leaves n (pre ++ [r]) (n + pre.length) = leaves n pre r.i ++ leaves n pre r.j := by
  unfold leaves leafTable0
  rw [leafTable_append]
  simp only [leafTable]
  have hl : (leafTable pre (tab n fun x => [x])).length = n + pre.length := by
    rw [leafTable_length]; simp
  simp only [List.getD_eq_getElem?_getD]
  rw [List.getElem?_append_right (by omega)]
  simp [hl]

/-- the defining equation inside a longer dendrogram -/
theorem leaves_row (n : Nat) (pre : Dendro α) (r : Row α) (rs : Dendro α)
    (hi : r.i < n + pre.length) (hj : r.j < n + pre.length) :
    leaves n (pre ++ r :: rs) (n + pre.length) =
      leaves n (pre ++ r :: rs) r.i ++ leaves n (pre ++ r :: rs) r.j := by
  have e : pre ++ r :: rs = (pre ++ [r]) ++ rs := by simp
  rw [e, leaves_append_lt n (pre ++ [r]) rs (by simp), leaves_new,
      leaves_append_lt n (pre ++ [r]) rs (by simp; omega), leaves_append_lt n (pre ++ [r]) rs (by simp; omega),
      leaves_append_lt n pre [r] hi, leaves_append_lt n pre [r] hj]


/-! ### `reorder_dendrogram` keeps the number of rows -/
section reorder
variable [LT α] [DecidableLT α]

theorem insertIdx_perm (D : Dendro α) (t : Nat) (l : List Nat) : (insertIdx D t l).Perm (t :: l) := by
  induction l with
  | nil => simp [insertIdx]
  | cons u us ih =>
    simp only [insertIdx]
    split
    · split
      · exact (List.Perm.cons u ih).trans (List.Perm.swap t u us)
      · exact List.Perm.refl _
    · exact List.Perm.refl _

theorem lexsortIdx_perm (D : Dendro α) : (lexsortIdx D).Perm (List.range D.length) := by
  unfold lexsortIdx
  generalize List.range D.length = idx
  induction idx with
  | nil => simp
  | cons t ts ih =>
    simp only [List.foldr_cons]
    exact (insertIdx_perm _ _ _).trans (List.Perm.cons t ih)

theorem reorderDendrogram_length {D D' : Dendro α} (h : reorderDendrogram D = .ok D') :
    D'.length = D.length := by
  unfold reorderDendrogram at h
  simp only at h
  split at h
  · simp only [Except.ok.injEq] at h
    subst h
    have hp := lexsortIdx_perm D
    have : ∀ t ∈ lexsortIdx D, (D[t]?).isSome := by
      intro t ht
      have := hp.subset ht
      simp only [List.mem_range] at this
      simp [this]
    rw [List.length_filterMap_eq_countP]
    rw [List.countP_eq_length.mpr]
    · simpa using hp.length_eq
    · intro t ht
      have := this t ht
      cases h' : D[t]? <;> simp_all
  · cases h

end reorder

end SkNet.Dendro
