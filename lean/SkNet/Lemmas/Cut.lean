/- Invariants of the merge loop shared by `cut_straight` and `cut_balanced`. -/
import SkNet.Model.Cut
import SkNet.Lemmas.Dict
import SkNet.Lemmas.Dendro

namespace SkNet.Cut
open SkNet SkNet.Dendro

variable {α : Type}

/-- What the cluster dict satisfies after replaying the rows `P`: distinct keys that are nodes created so far,
    every value is the leaf list of its key, and the values partition the leaves. -/
structure CInv (n : Nat) (P : Dendro α) (st : Dict (List Nat)) : Prop where
  nodup : (Dict.keys st).Nodup
  bound : ∀ k ∈ Dict.keys st, k < n + P.length
  leaves : ∀ p ∈ st, p.2 = leaves n P p.1
  perm : (Dict.values st).flatten.Perm (List.range n)

theorem keys_initCluster (n : Nat) : Dict.keys (initCluster n) = List.range n := by
  simp [initCluster, Dict.keys, Function.comp_def]

theorem values_initCluster_flatten (n : Nat) : (Dict.values (initCluster n)).flatten = List.range n := by
  simp only [initCluster, Dict.values, List.map_map, Function.comp_def]
  induction n with
  | zero => rfl
  | succ k ih => simp [List.range_succ, ih]

theorem cinv_init (n : Nat) : CInv n ([] : Dendro α) (initCluster n) where
  nodup := by rw [keys_initCluster]; exact List.nodup_range
  bound := by intro k hk; rw [keys_initCluster] at hk; simpa using hk
  leaves := by
    intro p hp
    simp only [initCluster, List.mem_map, List.mem_range] at hp
    obtain ⟨i, hi, rfl⟩ := hp
    exact (leaves_leaf n [] hi).symm
  perm := by rw [values_initCluster_flatten]

theorem perm_values_erase {d : Dict (List Nat)} (hd : (Dict.keys d).Nodup) {k : Nat} {c : List Nat}
    (h : Dict.get? d k = some c) :
    (Dict.values d).flatten.Perm (c ++ (Dict.values (Dict.erase d k)).flatten) := by
  induction d with
  | nil => simp at h
  | cons p r ih =>
    obtain ⟨k', v'⟩ := p
    simp only [Dict.keys, List.map_cons, List.nodup_cons] at hd
    by_cases e : k' = k
    · subst e
      simp only [Dict.get?_cons, if_true, Option.some.injEq] at h
      subst h
      have : Dict.erase r k' = r := by
        unfold Dict.erase
        apply List.filter_eq_self.mpr
        intro a ha
        have : a.1 ∈ Dict.keys r := List.mem_map.mpr ⟨a, ha, rfl⟩
        simp only [bne_iff_ne, ne_eq]
        intro e; exact hd.1 (e ▸ this)
      have hb : ((k', v').1 != k') = false := by simp
      simp only [Dict.erase, List.filter_cons, hb, Bool.false_eq_true, if_false] at this ⊢
      rw [this]
      simp [Dict.values]
    · simp only [Dict.get?_cons, e, if_false] at h
      have hb : ((k', v').1 != k) = true := by simp [e]
      have := ih hd.2 h
      simp only [Dict.erase, List.filter_cons, hb, if_true, Dict.values, List.map_cons, List.flatten_cons] at this ⊢
      -- v' ++ X ~ c ++ (v' ++ Y) given X ~ c ++ Y
      refine (List.Perm.append_left v' this).trans ?_
      rw [← List.append_assoc, ← List.append_assoc]
      exact List.Perm.append_right _ List.perm_append_comm

/-- the dict after `cluster[n+t] = cluster.pop(i) + cluster.pop(j)` -/
def merged (n : Nat) (st : Dict (List Nat)) (t i j : Nat) (ci cj : List Nat) : Dict (List Nat) :=
  ((st.erase i).erase j).set (n + t) (ci ++ cj)

theorem cinv_keep {n : Nat} {pre : Dendro α} {st : Dict (List Nat)} (h : CInv n pre st) (r : Row α) :
    CInv n (pre ++ [r]) st where
  nodup := h.nodup
  bound := by
    intro k hk; have := h.bound k hk; simp only [List.length_append, List.length_cons, List.length_nil]; omega
  leaves := by
    intro p hp
    have hk : p.1 ∈ Dict.keys st := List.mem_map.mpr ⟨p, hp, rfl⟩
    rw [leaves_append_lt n pre [r] (h.bound _ hk)]
    exact h.leaves p hp
  perm := h.perm

theorem merged_eq {n : Nat} {pre : Dendro α} {st : Dict (List Nat)} (h : CInv n pre st) (i j : Nat)
    (ci cj : List Nat) :
    merged n st pre.length i j ci cj = ((st.erase i).erase j) ++ [(n + pre.length, ci ++ cj)] := by
  unfold merged
  apply Dict.set_of_not_mem
  intro hm
  have h1 := (Dict.mem_keys_erase.mp hm).1
  have h2 := (Dict.mem_keys_erase.mp h1).1
  have := h.bound _ h2
  omega

theorem cinv_merge {n : Nat} {pre : Dendro α} {st : Dict (List Nat)} (h : CInv n pre st) (r : Row α)
    {ci cj : List Nat} (hi : st.get? r.i = some ci) (hj : st.get? r.j = some cj) (hne : r.i ≠ r.j) :
    CInv n (pre ++ [r]) (merged n st pre.length r.i r.j ci cj) := by
  rw [merged_eq h]
  have hbi := h.bound _ (Dict.get?_some_key_mem hi)
  have hbj := h.bound _ (Dict.get?_some_key_mem hj)
  refine ⟨?_, ?_, ?_, ?_⟩
  · -- nodup
    simp only [Dict.keys, List.map_append, List.map_cons, List.map_nil]
    have hn : (Dict.keys ((st.erase r.i).erase r.j)).Nodup :=
      Dict.nodup_keys_erase (Dict.nodup_keys_erase h.nodup _) _
    refine List.nodup_append.mpr ⟨hn, by simp, ?_⟩
    intro a ha b hb
    simp only [List.mem_cons, List.not_mem_nil, or_false] at hb
    subst hb
    have h1 := (Dict.mem_keys_erase.mp ha).1
    have h2 := (Dict.mem_keys_erase.mp h1).1
    have := h.bound _ h2
    omega
  · -- bound
    intro k hk
    simp only [Dict.keys, List.map_append, List.map_cons, List.map_nil, List.mem_append, List.mem_cons,
      List.not_mem_nil, or_false] at hk
    simp only [List.length_append, List.length_cons, List.length_nil]
    rcases hk with hk | hk
    · have h1 := (Dict.mem_keys_erase.mp hk).1
      have h2 := (Dict.mem_keys_erase.mp h1).1
      have := h.bound _ h2
      omega
    · omega
  · -- leaves
    intro p hp
    rcases List.mem_append.mp hp with hp | hp
    · have h1 := (Dict.mem_erase.mp hp).1
      have h2 := (Dict.mem_erase.mp h1).1
      have hk : p.1 ∈ Dict.keys st := List.mem_map.mpr ⟨p, h2, rfl⟩
      rw [leaves_append_lt n pre [r] (h.bound _ hk)]
      exact h.leaves p h2
    · simp only [List.mem_cons, List.not_mem_nil, or_false] at hp
      subst hp
      simp only
      rw [leaves_new, ← h.leaves _ (Dict.get?_some_mem hi), ← h.leaves _ (Dict.get?_some_mem hj)]
  · -- perm
    have hj' : (st.erase r.i).get? r.j = some cj := by
      rw [Dict.get?_erase]; simp [Ne.symm hne, hj]
    have p1 := perm_values_erase h.nodup hi
    have p2 := perm_values_erase (Dict.nodup_keys_erase h.nodup r.i) hj'
    simp only [Dict.values, List.map_append, List.map_cons, List.map_nil, List.flatten_append,
      List.flatten_cons, List.flatten_nil, List.append_nil] at p1 p2 ⊢
    refine List.Perm.trans ?_ h.perm
    refine List.Perm.trans ?_ p1.symm
    refine List.Perm.trans List.perm_append_comm ?_
    rw [List.append_assoc]
    exact List.Perm.append_left ci p2.symm

/-- The merge loop keeps the invariant, whatever the cut's own condition `ok`. -/
theorem mergeLoop_cinv (n : Nat) (ok : Row α → List Nat → List Nat → Bool) :
    ∀ (rs pre : Dendro α) (st st' : Dict (List Nat)),
      mergeLoop n ok pre.length rs st = .ok st' → CInv n pre st → CInv n (pre ++ rs) st' := by
  intro rs
  induction rs with
  | nil => intro pre st st' h hinv; simp only [mergeLoop, Except.ok.injEq] at h; subst h; simpa using hinv
  | cons r rs ih =>
    intro pre st st' h hinv
    have e : pre ++ r :: rs = (pre ++ [r]) ++ rs := by simp
    have hl : (pre ++ [r]).length = pre.length + 1 := by simp
    rw [e]
    unfold mergeLoop at h
    split at h
    · rename_i ci cj hi hj
      split at h
      · split at h
        · cases h
        · rename_i hne
          rw [← hl] at h
          exact ih (pre ++ [r]) _ st' h (cinv_merge hinv r hi hj hne)
      · rw [← hl] at h
        exact ih (pre ++ [r]) _ st' h (cinv_keep hinv r)
    · rw [← hl] at h
      exact ih (pre ++ [r]) _ st' h (cinv_keep hinv r)

/-- a predicate on clusters that single leaves satisfy and that admitted merges preserve holds at the end -/
theorem mergeLoop_all (n : Nat) (ok : Row α → List Nat → List Nat → Bool) (Q : List Nat → Prop)
    (hQ : ∀ r ci cj, ok r ci cj = true → Q ci → Q cj → Q (ci ++ cj)) :
    ∀ (rs : Dendro α) (t : Nat) (st st' : Dict (List Nat)),
      mergeLoop n ok t rs st = .ok st' → (∀ p ∈ st, Q p.2) → ∀ p ∈ st', Q p.2 := by
  intro rs
  induction rs with
  | nil => intro t st st' h hq; simp only [mergeLoop, Except.ok.injEq] at h; subst h; exact hq
  | cons r rs ih =>
    intro t st st' h hq
    unfold mergeLoop at h
    split at h
    · rename_i ci cj hi hj
      split at h
      · rename_i hok
        split at h
        · cases h
        · refine ih (t + 1) _ st' h ?_
          intro p hp
          have := Dict.get?_some_mem (d := ((st.erase r.i).erase r.j).set (n + t) (ci ++ cj)) (k := p.1) (v := p.2)
          -- membership in a `set` result: either the new entry or an old one
          have hmem : p ∈ ((st.erase r.i).erase r.j) ∨ p = (n + t, ci ++ cj) := by
            clear this
            generalize ((st.erase r.i).erase r.j) = d at hp
            induction d with
            | nil => simp only [Dict.set, List.mem_cons, List.not_mem_nil, or_false] at hp; exact Or.inr hp
            | cons q d ihd =>
              obtain ⟨k0, v0⟩ := q
              simp only [Dict.set] at hp
              split at hp
              · rcases List.mem_cons.mp hp with hp | hp
                · exact Or.inr hp
                · exact Or.inl (List.mem_cons_of_mem _ hp)
              · rcases List.mem_cons.mp hp with hp | hp
                · exact Or.inl (hp ▸ List.mem_cons_self)
                · rcases ihd hp with h1 | h1
                  · exact Or.inl (List.mem_cons_of_mem _ h1)
                  · exact Or.inr h1
          rcases hmem with hm | hm
          · exact hq p (Dict.mem_erase.mp (Dict.mem_erase.mp hm).1).1
          · subst hm
            exact hQ r ci cj hok (hq _ (Dict.get?_some_mem hi)) (hq _ (Dict.get?_some_mem hj))
      · exact ih (t + 1) _ st' h hq
    · exact ih (t + 1) _ st' h hq


theorem length_merged {n : Nat} {pre : Dendro α} {st : Dict (List Nat)} (h : CInv n pre st) {i j : Nat}
    {ci cj : List Nat} (hi : st.get? i = some ci) (hj : st.get? j = some cj) (hne : i ≠ j) :
    (merged n st pre.length i j ci cj).length + 1 = st.length := by
  rw [merged_eq h]
  have h1 := Dict.length_erase_of_mem h.nodup (Dict.get?_some_key_mem hi)
  have hj' : (st.erase i).get? j = some cj := by
    rw [Dict.get?_erase]; simp [Ne.symm hne, hj]
  have h2 := Dict.length_erase_of_mem (Dict.nodup_keys_erase h.nodup i) (Dict.get?_some_key_mem hj')
  simp only [List.length_append, List.length_cons, List.length_nil]
  omega

/-- every admitted merge removes one cluster: if `ok` implies `q` on rows, at most `|filter q|` clusters are lost -/
theorem mergeLoop_length (n : Nat) (ok : Row α → List Nat → List Nat → Bool) (q : Row α → Bool)
    (hq : ∀ r ci cj, ok r ci cj = true → q r = true) :
    ∀ (rs pre : Dendro α) (st st' : Dict (List Nat)),
      mergeLoop n ok pre.length rs st = .ok st' → CInv n pre st →
      st.length ≤ st'.length + rs.countP q := by
  intro rs
  induction rs with
  | nil => intro pre st st' h _; simp only [mergeLoop, Except.ok.injEq] at h; subst h; simp
  | cons r rs ih =>
    intro pre st st' h hinv
    have hl : (pre ++ [r]).length = pre.length + 1 := by simp
    unfold mergeLoop at h
    split at h
    · rename_i ci cj hi hj
      split at h
      · rename_i hok
        split at h
        · cases h
        · rename_i hne
          rw [← hl] at h
          have h1 := ih (pre ++ [r]) _ st' h (cinv_merge hinv r hi hj hne)
          have h2 := length_merged hinv hi hj hne
          have h3 : q r = true := hq r ci cj hok
          rw [List.countP_cons, h3]
          unfold merged at h2
          simp only [if_true]
          omega
      · rw [← hl] at h
        have h1 := ih (pre ++ [r]) _ st' h (cinv_keep hinv r)
        rw [List.countP_cons]; omega
    · rw [← hl] at h
      have h1 := ih (pre ++ [r]) _ st' h (cinv_keep hinv r)
      rw [List.countP_cons]; omega


/-- a set of leaves that lies inside one cluster stays inside one cluster -/
theorem mergeLoop_superset (n : Nat) (ok : Row α → List Nat → List Nat → Bool) (S : List Nat) :
    ∀ (rs pre : Dendro α) (st st' : Dict (List Nat)),
      mergeLoop n ok pre.length rs st = .ok st' → CInv n pre st →
      (∃ p ∈ st, ∀ v ∈ S, v ∈ p.2) → ∃ p ∈ st', ∀ v ∈ S, v ∈ p.2 := by
  intro rs
  induction rs with
  | nil => intro pre st st' h _ hp; simp only [mergeLoop, Except.ok.injEq] at h; subst h; exact hp
  | cons r rs ih =>
    intro pre st st' h hinv hp
    have hl : (pre ++ [r]).length = pre.length + 1 := by simp
    unfold mergeLoop at h
    split at h
    · rename_i ci cj hi hj
      split at h
      · split at h
        · cases h
        · rename_i hne
          rw [← hl] at h
          refine ih (pre ++ [r]) _ st' h (cinv_merge hinv r hi hj hne) ?_
          obtain ⟨p, hp, hS⟩ := hp
          have hmem : ∀ q, q ∈ merged n st pre.length r.i r.j ci cj ↔
              (q ∈ st ∧ q.1 ≠ r.i ∧ q.1 ≠ r.j) ∨ q = (n + pre.length, ci ++ cj) := by
            intro q
            rw [merged_eq hinv]
            simp only [List.mem_append, List.mem_cons, List.not_mem_nil, or_false, Dict.mem_erase]
            constructor
            · rintro (⟨⟨h1, h2⟩, h3⟩ | h4)
              · exact Or.inl ⟨h1, h2, h3⟩
              · exact Or.inr h4
            · rintro (⟨h1, h2, h3⟩ | h4)
              · exact Or.inl ⟨⟨h1, h2⟩, h3⟩
              · exact Or.inr h4
          by_cases h1 : p.1 = r.i
          · have : p.2 = ci := by
              have := Dict.mem_get?_of_nodup hinv.nodup (k := p.1) (v := p.2) hp
              rw [h1, hi] at this; exact (Option.some.inj this).symm
            refine ⟨(n + pre.length, ci ++ cj), (hmem _).mpr (Or.inr rfl), ?_⟩
            intro v hv; exact List.mem_append_left _ (this ▸ hS v hv)
          · by_cases h2 : p.1 = r.j
            · have : p.2 = cj := by
                have := Dict.mem_get?_of_nodup hinv.nodup (k := p.1) (v := p.2) hp
                rw [h2, hj] at this; exact (Option.some.inj this).symm
              refine ⟨(n + pre.length, ci ++ cj), (hmem _).mpr (Or.inr rfl), ?_⟩
              intro v hv; exact List.mem_append_right _ (this ▸ hS v hv)
            · exact ⟨p, (hmem _).mpr (Or.inl ⟨hp, h1, h2⟩), hS⟩
      · rw [← hl] at h
        exact ih (pre ++ [r]) _ st' h (cinv_keep hinv r) hp
    · rw [← hl] at h
      exact ih (pre ++ [r]) _ st' h (cinv_keep hinv r) hp

end SkNet.Cut
