/-
D-iteration (`linalg/diteration.pyx`): the invariant `(I − a Pᵀ)·scores + fluid = fluid₀` holds after every
atomic activation of a node, in any order; `residu` is the mass still to diffuse.
`P` is the matrix of the data handed to the kernel (`entry g`).
-/
import SkNet.Lemmas.RankModel

open Finset

namespace SkNet.Rank

/-! ### list updates -/

theorem modify_getD (l : List ℚ) (j : ℕ) (f : ℚ → ℚ) (i : ℕ) (hj : j < l.length) :
    (l.modify j f).getD i 0 = if j = i then f (l.getD i 0) else l.getD i 0 := by
  rw [List.getD_eq_getElem?_getD, List.getElem?_modify, List.getD_eq_getElem?_getD]
  by_cases h : j = i
  · subst h
    simp [List.getElem?_eq_getElem hj]
  · simp only [h, if_false]
    cases l[i]? <;> simp

theorem set_getD (l : List ℚ) (j : ℕ) (v : ℚ) (i : ℕ) (hj : j < l.length) :
    (l.set j v).getD i 0 = if j = i then v else l.getD i 0 := by
  rw [List.getD_eq_getElem?_getD, List.getElem?_set, List.getD_eq_getElem?_getD]
  by_cases h : j = i
  · subst h; simp [hj]
  · simp [h]

theorem getD_eq_zero_of_le (l : List ℚ) (i : ℕ) (h : l.length ≤ i) : l.getD i 0 = 0 := by
  rw [List.getD_eq_getElem?_getD, List.getElem?_eq_none h]; rfl

theorem pushRow_length (tmp : ℚ) (row : List (ℕ × ℚ)) (F : List ℚ) : (pushRow tmp row F).length = F.length := by
  unfold pushRow
  induction row generalizing F with
  | nil => rfl
  | cons p t ih => rw [List.foldl_cons, ih, List.length_modify]

theorem pushRow_getD (tmp : ℚ) (row : List (ℕ × ℚ)) (F : List ℚ) (h : ∀ p ∈ row, p.1 < F.length) (i : ℕ) :
    (pushRow tmp row F).getD i 0
      = F.getD i 0 + tmp * ((row.filter fun p => p.1 == i).map fun p => p.2).sum := by
  unfold pushRow
  induction row generalizing F with
  | nil => simp
  | cons p t ih =>
    have hp : p.1 < F.length := h p (by simp)
    have ht : ∀ q ∈ t, q.1 < (F.modify p.1 fun v => v + tmp * p.2).length := by
      intro q hq; rw [List.length_modify]; exact h q (by simp [hq])
    rw [List.foldl_cons, ih _ ht, modify_getD _ _ _ _ hp]
    by_cases hpi : p.1 = i
    · simp [hpi, mul_add]; ring
    · simp [hpi]

/-! ### the invariant -/

/-- `(I − a Pᵀ)·scores + fluid = F0` on the first `n` coordinates, arrays of length `n` -/
structure DInv (g : Graph ℚ) (a : ℚ) (F0 : ℕ → ℚ) (st : DState ℚ) : Prop where
  lenS : st.scores.length = g.n
  lenF : st.fluid.length = g.n
  eq : ∀ i, i < g.n →
    st.scores.getD i 0 - a * RankL1.PT g.n (entry g) (fun j => st.scores.getD j 0) i + st.fluid.getD i 0 = F0 i

/-- fluid and scores stay non-negative and `residu` is the total fluid -/
structure DMass (g : Graph ℚ) (st : DState ℚ) : Prop where
  nonnegF : ∀ i, 0 ≤ st.fluid.getD i 0
  nonnegS : ∀ i, 0 ≤ st.scores.getD i 0
  mass : st.residu = ∑ i ∈ range g.n, st.fluid.getD i 0

/-- the rows of the data handed to the kernel are stochastic (what `normalize` produces) -/
def Graph.RowStoch (g : Graph ℚ) : Prop := ∀ k, g.row k ≠ [] → rowSum g k = 1

/-- one activation, in either branch, updates the arrays in the same way -/
theorem diterNode_active (g : Graph ℚ) (a r : ℚ) (st : DState ℚ) (k : ℕ) (h : 0 < st.fluid.getD k 0) :
    (diterNode g a r st k).scores = st.scores.modify k (fun v => v + st.fluid.getD k 0) ∧
    (diterNode g a r st k).fluid = pushRow (st.fluid.getD k 0 * a) (g.row k) (st.fluid.set k 0) ∧
    (diterNode g a r st k).residu
      = st.residu - (if (g.row k).isEmpty then st.fluid.getD k 0 else st.fluid.getD k 0 * r) := by
  unfold diterNode
  simp only [h, if_true]
  by_cases he : (g.row k).isEmpty
  · have : g.row k = [] := List.isEmpty_iff.mp he
    simp [this, pushRow]
  · simp [he]

theorem diterNode_idle (g : Graph ℚ) (a r : ℚ) (st : DState ℚ) (k : ℕ) (h : ¬ 0 < st.fluid.getD k 0) :
    diterNode g a r st k = st := by
  show (if 0 < st.fluid.getD k 0 then _ else st) = st
  rw [if_neg h]

theorem lt_of_fluid_pos {g : Graph ℚ} {st : DState ℚ} (hl : st.fluid.length = g.n) {k : ℕ}
    (h : 0 < st.fluid.getD k 0) : k < g.n := by
  by_contra hk
  rw [getD_eq_zero_of_le _ _ (by omega)] at h
  exact lt_irrefl _ h

/-- ★ the D-iteration invariant is preserved by the activation of any node -/
theorem DInv.step {g : Graph ℚ} (hr : g.InRange) {a : ℚ} {F0 : ℕ → ℚ} {st : DState ℚ} (r : ℚ)
    (hI : DInv g a F0 st) (k : ℕ) : DInv g a F0 (diterNode g a r st k) := by
  by_cases h : 0 < st.fluid.getD k 0
  · obtain ⟨hs, hf, _⟩ := diterNode_active g a r st k h
    have hk : k < g.n := lt_of_fluid_pos hI.lenF h
    have hkS : k < st.scores.length := by rw [hI.lenS]; exact hk
    have hkF : k < st.fluid.length := by rw [hI.lenF]; exact hk
    have hrow : ∀ p ∈ g.row k, p.1 < (st.fluid.set k 0).length := by
      intro p hp; rw [List.length_set, hI.lenF]; exact hr k p hp
    refine ⟨?_, ?_, ?_⟩
    · rw [hs, List.length_modify]; exact hI.lenS
    · rw [hf, pushRow_length, List.length_set]; exact hI.lenF
    · intro i hi
      have hPT : RankL1.PT g.n (entry g) (fun j => (diterNode g a r st k).scores.getD j 0) i
          = RankL1.PT g.n (entry g) (fun j => st.scores.getD j 0) i + entry g k i * st.fluid.getD k 0 := by
        unfold RankL1.PT
        rw [hs]
        have : ∀ j ∈ range g.n, entry g j i * (st.scores.modify k fun v => v + st.fluid.getD k 0).getD j 0
            = entry g j i * st.scores.getD j 0 + (if k = j then entry g k i * st.fluid.getD k 0 else 0) := by
          intro j _
          rw [modify_getD _ _ _ _ hkS]
          by_cases hkj : k = j
          · subst hkj; simp [mul_add]
          · simp [hkj]
        rw [sum_congr rfl this, sum_add_distrib, sum_ite_eq]
        simp [hk]
      rw [hPT, hs, hf, modify_getD _ _ _ _ hkS, pushRow_getD _ _ _ hrow, set_getD _ _ _ _ hkF]
      have hE := hI.eq i hi
      have hent : entry g k i
          = (((g.row k).filter fun p : ℕ × ℚ => p.1 == i).map fun p : ℕ × ℚ => p.2).sum := rfl
      rw [← hent]
      by_cases hki : k = i
      · subst hki; simp only [if_true]; linarith
      · simp only [hki, if_false]; linarith
  · rw [diterNode_idle g a r st k h]; exact hI

/-- ★ mass accounting: `residu` decreases by `(1−a)·sent` (by `sent` at a sink) and stays the total fluid -/
theorem DMass.step {g : Graph ℚ} (hg : g.Nonneg) (hr : g.InRange) (hs : g.RowStoch) {a : ℚ} (ha : 0 ≤ a)
    {F0 : ℕ → ℚ} {st : DState ℚ} (hI : DInv g a F0 st) (hM : DMass g st) (k : ℕ) :
    DMass g (diterNode g a (1 - a) st k) := by
  by_cases h : 0 < st.fluid.getD k 0
  · obtain ⟨hsc, hf, hres⟩ := diterNode_active g a (1 - a) st k h
    have hk : k < g.n := lt_of_fluid_pos hI.lenF h
    have hkS : k < st.scores.length := by rw [hI.lenS]; exact hk
    have hkF : k < st.fluid.length := by rw [hI.lenF]; exact hk
    have hrow : ∀ p ∈ g.row k, p.1 < (st.fluid.set k 0).length := by
      intro p hp; rw [List.length_set, hI.lenF]; exact hr k p hp
    have hfl : ∀ i, (diterNode g a (1 - a) st k).fluid.getD i 0
        = (if k = i then 0 else st.fluid.getD i 0) + st.fluid.getD k 0 * a * entry g k i := by
      intro i
      rw [hf, pushRow_getD _ _ _ hrow, set_getD _ _ _ _ hkF]; rfl
    refine ⟨?_, ?_, ?_⟩
    · intro i
      rw [hfl]
      have := hM.nonnegF i
      have := entry_nonneg hg k i
      have : 0 ≤ st.fluid.getD k 0 * a * entry g k i := by positivity
      split <;> linarith
    · intro i
      rw [hsc, modify_getD _ _ _ _ hkS]
      have := hM.nonnegS i
      split <;> linarith
    · rw [hres, hM.mass, sum_congr rfl (fun i _ => hfl i), sum_add_distrib, ← mul_sum, sum_entry hr]
      have hsplit : ∑ i ∈ range g.n, (if k = i then 0 else st.fluid.getD i 0)
          = ∑ i ∈ range g.n, st.fluid.getD i 0 - st.fluid.getD k 0 := by
        have : ∀ i ∈ range g.n, (if k = i then 0 else st.fluid.getD i 0)
            = st.fluid.getD i 0 - (if k = i then st.fluid.getD k 0 else 0) := by
          intro i _
          by_cases hki : k = i
          · subst hki; simp
          · simp [hki]
        rw [sum_congr rfl this, sum_sub_distrib, sum_ite_eq]
        simp [hk]
      rw [hsplit]
      by_cases he : (g.row k).isEmpty
      · have hnil : g.row k = [] := List.isEmpty_iff.mp he
        have : rowSum g k = 0 := by simp [rowSum, hnil]
        simp only [he, if_true, this]; ring
      · have hne : g.row k ≠ [] := fun hn => he (List.isEmpty_iff.mpr hn)
        simp only [he, hs k hne]; simp only [Bool.false_eq_true, if_false]; ring
  · rw [diterNode_idle g a (1 - a) st k h]; exact hM

/-- any sequence of activations -/
def activate (g : Graph ℚ) (a r : ℚ) (st : DState ℚ) (ks : List ℕ) : DState ℚ := ks.foldl (diterNode g a r) st

theorem DInv.activate {g : Graph ℚ} (hr : g.InRange) {a : ℚ} {F0 : ℕ → ℚ} (r : ℚ) (ks : List ℕ) {st : DState ℚ}
    (hI : DInv g a F0 st) : DInv g a F0 (activate g a r st ks) := by
  unfold Rank.activate
  induction ks generalizing st with
  | nil => exact hI
  | cons k t ih => exact ih (hI.step hr r k)

theorem DMass.activate {g : Graph ℚ} (hg : g.Nonneg) (hr : g.InRange) (hs : g.RowStoch) {a : ℚ} (ha : 0 ≤ a)
    {F0 : ℕ → ℚ} (ks : List ℕ) {st : DState ℚ} (hI : DInv g a F0 st) (hM : DMass g st) :
    DMass g (Rank.activate g a (1 - a) st ks) := by
  unfold Rank.activate
  induction ks generalizing st with
  | nil => exact hM
  | cons k t ih => exact ih (hI.step hr (1 - a) k) (hM.step hg hr hs ha hI k)

theorem diterSweep_eq (g : Graph ℚ) (a r : ℚ) (st : DState ℚ) :
    diterSweep g a r st = activate g a r st (List.range g.n) := rfl

/-- the whole loop is a sequence of activations -/
theorem diterLoop_activations (g : Graph ℚ) (a r tol : ℚ) (K : ℕ) (st : DState ℚ) :
    ∃ ks : List ℕ, diterLoop g a r tol K st = activate g a r st ks := by
  induction K generalizing st with
  | zero => exact ⟨[], rfl⟩
  | succ k ih =>
    unfold diterLoop
    simp only
    split
    · exact ⟨List.range g.n, rfl⟩
    · obtain ⟨ks, hks⟩ := ih (diterSweep g a r st)
      refine ⟨List.range g.n ++ ks, ?_⟩
      rw [hks, diterSweep_eq]
      unfold Rank.activate
      rw [List.foldl_append]

end SkNet.Rank
