/-
Algebra of `Convolution.forward` at `ℝ`: products of tabulated matrices, the three normalisations as entry
formulas, the shifted soft-max of scipy equals the textbook soft-max.
-/
import SkNet.Lemmas.GnnReal

namespace SkNet.Gnn
open SkNet Mat Finset

theorem tab_map {β γ : Type} (n : Nat) (f : Nat → β) (g : β → γ) : (tab n f).map g = tab n fun i => g (f i) := by
  unfold tab
  rw [List.map_map]
  rfl

theorem matmul_mk' (n m p : Nat) (f g : Nat → Nat → ℝ) :
    matmul (mk' n m f) (mk' m p g) = .ok (mk' n p fun i k => ∑ j ∈ range m, f i j * g j k) := by
  unfold matmul
  simp only [mk'_c, mk'_r, ne_eq, not_true_eq_false, ite_false]
  congr 1
  apply mk'_congr
  intro i hi k hk
  rw [sumTo_eq]
  apply Finset.sum_congr rfl
  intro j hj
  rw [get_mk'_of_lt f hi (mem_range.mp hj), get_mk'_of_lt g (mem_range.mp hj) hk]

theorem matmul_dim_error (A B : Mat ℝ) (h : A.c ≠ B.r) : matmul A B = .error .valueError := by
  unfold matmul
  simp [h]

theorem rowSums_mk' (n m : Nat) (a : Nat → Nat → ℝ) :
    rowSums (mk' n m a) = tab n fun i => ∑ j ∈ range m, a i j := by
  unfold rowSums
  simp only [mk'_r, mk'_c]
  apply tab_congr
  intro i hi
  rw [sumTo_eq]
  apply Finset.sum_congr rfl
  intro j hj
  exact get_mk'_of_lt a hi (mem_range.mp hj)

theorem weight_mk' (n m : Nat) (a : Nat → Nat → ℝ) (i : Nat) (hi : i < n) :
    Spec.weight (mk' n m a) i = ∑ j ∈ range m, a i j := by
  unfold Spec.weight
  simp only [mk'_c]
  rw [sumTo_eq]
  apply Finset.sum_congr rfl
  intro j hj
  exact get_mk'_of_lt a hi (mem_range.mp hj)

theorem pinvDiag_tab (n : Nat) (w : Nat → ℝ) :
    pinvDiag (tab n w) = mk' n n fun i j => if i = j then pinv (w i) else 0 := by
  unfold pinvDiag
  simp only [tab_length]
  apply mk'_congr
  intro i hi j _
  show (if i = j then pinv ((tab n w).getD i 0) else 0) = _
  rw [tab_getD, if_pos hi]

/-- `diag(u) · A` -/
theorem diag_mul (n m : Nat) (u : Nat → ℝ) (a : Nat → Nat → ℝ) :
    matmul (mk' n n fun i j => if i = j then u i else 0) (mk' n m a) = .ok (mk' n m fun i j => u i * a i j) := by
  rw [matmul_mk']
  congr 1
  apply mk'_congr
  intro i hi j _
  simp only [ite_mul, zero_mul]
  rw [Finset.sum_ite_eq]
  simp [hi]

/-- `A · diag(u)` -/
theorem mul_diag (n m : Nat) (u : Nat → ℝ) (a : Nat → Nat → ℝ) :
    matmul (mk' n m a) (mk' m m fun i j => if i = j then u i else 0) = .ok (mk' n m fun i j => a i j * u j) := by
  rw [matmul_mk']
  congr 1
  apply mk'_congr
  intro i _ j hj
  simp only [mul_ite, mul_zero]
  rw [Finset.sum_ite_eq']
  simp [hj]

/-- the base (no self-embedding) entry of the specification on a tabulated matrix -/
theorem normalize_mk' (norm : Norm) (n m : Nat) (a : Nat → Nat → ℝ)
    (hsq : norm = .right ∨ norm = .both → n = m) :
    normalize norm (mk' n m a) = .ok (mk' n m fun i j => Spec.normEntry norm false (mk' n m a) i j) := by
  unfold normalize
  rw [rowSums_mk']
  cases norm with
  | left =>
    simp only []
    rw [pinvDiag_tab, diag_mul]
    congr 1
    apply mk'_congr
    intro i hi j hj
    simp only [Spec.normEntry, Bool.false_and, Bool.false_eq_true, ite_false]
    rw [weight_mk' n m a i hi, get_mk'_of_lt a hi hj]
  | right =>
    have hnm : n = m := hsq (Or.inl rfl)
    subst hnm
    simp only []
    rw [pinvDiag_tab, mul_diag]
    congr 1
    apply mk'_congr
    intro i hi j hj
    simp only [Spec.normEntry, Bool.false_and, Bool.false_eq_true, ite_false]
    rw [weight_mk' n n a j hj, get_mk'_of_lt a hi hj]
  | both =>
    have hnm : n = m := hsq (Or.inr rfl)
    subst hnm
    simp only []
    rw [tab_map, pinvDiag_tab]
    show (matmul _ _ >>= fun t => matmul t _) = _
    rw [diag_mul]
    show matmul (mk' n n _) _ = _
    rw [mul_diag]
    congr 1
    apply mk'_congr
    intro i hi j hj
    simp only [Spec.normEntry, Bool.false_and, Bool.false_eq_true, ite_false]
    rw [weight_mk' n n a j hj, weight_mk' n n a i hi, get_mk'_of_lt a hi hj]
  | none =>
    simp only []
    congr 1
    unfold mk'
    congr 1
    apply tab_congr
    intro i hi
    apply tab_congr
    intro j hj
    simp only [Spec.normEntry, Bool.false_and, Bool.false_eq_true, ite_false]
    exact (get_mk'_of_lt a hi hj).symm

/-- the self-embedding adds the identity -/
theorem selfLoops_mk' (norm : Norm) (se : Bool) (A : Mat ℝ) (n m : Nat) :
    (if se then addSelfLoops (mk' n m fun i j => Spec.normEntry norm false A i j)
      else mk' n m fun i j => Spec.normEntry norm false A i j)
    = mk' n m fun i j => Spec.normEntry norm se A i j := by
  cases se with
  | false => simp
  | true =>
    simp only [ite_true]
    unfold addSelfLoops
    simp only [mk'_r, mk'_c]
    apply mk'_congr
    intro i hi j hj
    rw [get_mk'_of_lt _ hi hj]
    by_cases h : i = j
    · simp [Spec.normEntry, h]
    · simp [Spec.normEntry, h]

/-! ### soft-max: scipy's shifted form is the textbook one -/

theorem sum_map_exp_shift (l : List ℝ) (m : ℝ) :
    (l.map fun x => Real.exp (x - m)).sum = (l.map Real.exp).sum * Real.exp (-m) := by
  induction l with
  | nil => simp
  | cons x xs ih =>
    simp only [List.map_cons, List.sum_cons, ih]
    rw [sub_eq_add_neg, Real.exp_add]
    ring

theorem softmaxRow_eq (l : List ℝ) :
    softmaxRow l = l.map fun x => Real.exp x / (l.map Real.exp).sum := by
  unfold softmaxRow
  simp only [num_exp, List.map_map]
  rw [sum_map_exp_shift]
  apply List.map_congr_left
  intro x _
  simp only [Function.comp]
  rw [sub_eq_add_neg, Real.exp_add]
  exact mul_div_mul_right _ _ (ne_of_gt (Real.exp_pos _))

theorem softmaxRow_tab (c : Nat) (s : Nat → ℝ) (k : Nat) (hk : k < c) :
    (softmaxRow (tab c s)).getD k 0 = Spec.softmaxFn c s k := by
  rw [softmaxRow_eq, tab_map, tab_map, tab_getD, if_pos hk, tab_sum]
  unfold Spec.softmaxFn
  rw [sumTo_eq]
  rfl

end SkNet.Gnn

namespace SkNet.Gnn
open SkNet Mat Finset

theorem relu_real (x : ℝ) : relu x = if 0 < x then x else 0 := by
  unfold relu
  simp only [num_lt, decide_eq_true_eq]
  split_ifs <;> linarith

theorem actFn_congr (act : Act) (c : Nat) (s s' : Nat → ℝ) (h : ∀ k, k < c → s k = s' k) (k : Nat) (hk : k < c) :
    Spec.actFn act c s k = Spec.actFn act c s' k := by
  cases act with
  | identity => exact h k hk
  | relu => simp only [Spec.actFn, h k hk]
  | sigmoid => simp only [Spec.actFn, h k hk]
  | softmax =>
    simp only [Spec.actFn, Spec.softmaxFn, h k hk]
    congr 1
    exact sumTo_congr fun l hl => by rw [h l hl]

theorem actOutput_mk' (act : Act) (n c : Nat) (e : Nat → Nat → ℝ) :
    actOutput act (mk' n c e) = mk' n c fun i k => Spec.actFn act c (e i) k := by
  cases act with
  | identity => rfl
  | relu =>
    simp only [actOutput, mk'_r, mk'_c]
    apply mk'_congr
    intro i hi k hk
    rw [get_mk'_of_lt e hi hk, relu_real]
    simp [Spec.actFn]
  | sigmoid =>
    simp only [actOutput, mk'_r, mk'_c]
    apply mk'_congr
    intro i hi k hk
    rw [get_mk'_of_lt e hi hk]
    rfl
  | softmax =>
    simp only [actOutput, mk'_r, mk'_c]
    apply mk'_congr
    intro i hi k hk
    rw [row_mk' n c e i hi, softmaxRow_tab c (e i) k hk]
    rfl

/-- the bias of channel `k` (0 without bias) -/
noncomputable def biasAt (b : Option (List ℝ)) (k : Nat) : ℝ :=
  match b with
  | some bl => bl.getD k 0
  | none => 0

/-- `(A₂ X) W = A₂ (X W)` entrywise, plus the bias: the pre-activation of the specification -/
theorem preAct_mk' (norm : Norm) (se : Bool) (A : Mat ℝ) (m d c : Nat) (hA : A.c = m) (x w : Nat → Nat → ℝ)
    (b : Option (List ℝ)) (i k : Nat) (hk : k < c) :
    Spec.preAct norm se A (mk' m d x) (mk' d c w) b i k =
      (∑ l ∈ range d, (∑ j ∈ range m, Spec.normEntry norm se A i j * x j l) * w l k) +
        biasAt b k := by
  have hz : (sumTo A.c fun j => Spec.normEntry norm se A i j *
        sumTo (mk' m d x).c fun l => (mk' m d x).get j l * (mk' d c w).get l k)
      = ∑ l ∈ range d, (∑ j ∈ range m, Spec.normEntry norm se A i j * x j l) * w l k := by
    rw [hA, sumTo_eq]
    simp only [mk'_c]
    have : ∀ j ∈ range m, Spec.normEntry norm se A i j * (sumTo d fun l => (mk' m d x).get j l * (mk' d c w).get l k)
        = ∑ l ∈ range d, Spec.normEntry norm se A i j * x j l * w l k := by
      intro j hj
      rw [sumTo_eq, Finset.mul_sum]
      apply Finset.sum_congr rfl
      intro l hl
      rw [get_mk'_of_lt x (mem_range.mp hj) (mem_range.mp hl), get_mk'_of_lt w (mem_range.mp hl) hk]
      ring
    rw [Finset.sum_congr rfl this, Finset.sum_comm]
    apply Finset.sum_congr rfl
    intro l _
    rw [Finset.sum_mul]
  unfold Spec.preAct
  cases b with
  | none => simp only [hz, biasAt, add_zero]
  | some bl => simp only [hz, biasAt]

end SkNet.Gnn
