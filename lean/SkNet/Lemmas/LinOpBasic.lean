/-
Helper lemmas for C15: finite sums `sumTo`, tabulated vectors, entries of the matrix operations of
`SkNet.LinOp.Mat`, extensional equality `Mat.Eqv`.
-/
import Mathlib.Tactic.Ring
import Mathlib.Algebra.Ring.Rat
import SkNet.Model.LinOp

namespace SkNet.LinOp
open SkNet

/-! ### finite sums -/

@[simp] theorem sumTo_zero_n (f : Nat → Rat) : sumTo 0 f = 0 := rfl
theorem sumTo_succ (n : Nat) (f : Nat → Rat) : sumTo (n+1) f = sumTo n f + f n := rfl

theorem sumTo_congr {n : Nat} {f g : Nat → Rat} (h : ∀ k, k < n → f k = g k) : sumTo n f = sumTo n g := by
  induction n with
  | zero => rfl
  | succ n ih =>
    rw [sumTo_succ, sumTo_succ, ih (fun k hk => h k (Nat.lt_succ_of_lt hk)), h n (Nat.lt_succ_self n)]

@[simp] theorem sumTo_const_zero (n : Nat) : sumTo n (fun _ => 0) = 0 := by
  induction n with
  | zero => rfl
  | succ n ih => rw [sumTo_succ, ih]; ring

theorem sumTo_eq_zero {n : Nat} {f : Nat → Rat} (h : ∀ k, k < n → f k = 0) : sumTo n f = 0 := by
  rw [sumTo_congr h, sumTo_const_zero]

theorem sumTo_add (n : Nat) (f g : Nat → Rat) :
    sumTo n (fun k => f k + g k) = sumTo n f + sumTo n g := by
  induction n with
  | zero => simp
  | succ n ih => simp only [sumTo_succ, ih]; ring

theorem sumTo_sub (n : Nat) (f g : Nat → Rat) :
    sumTo n (fun k => f k - g k) = sumTo n f - sumTo n g := by
  induction n with
  | zero => simp
  | succ n ih => simp only [sumTo_succ, ih]; ring

theorem sumTo_neg (n : Nat) (f : Nat → Rat) : sumTo n (fun k => - f k) = - sumTo n f := by
  induction n with
  | zero => simp
  | succ n ih => simp only [sumTo_succ, ih]; ring

theorem sumTo_mul_left (n : Nat) (c : Rat) (f : Nat → Rat) :
    sumTo n (fun k => c * f k) = c * sumTo n f := by
  induction n with
  | zero => simp
  | succ n ih => simp only [sumTo_succ, ih]; ring

theorem sumTo_mul_right (n : Nat) (c : Rat) (f : Nat → Rat) :
    sumTo n (fun k => f k * c) = sumTo n f * c := by
  induction n with
  | zero => simp
  | succ n ih => simp only [sumTo_succ, ih]; ring

/-- exchange of two finite sums -/
theorem sumTo_comm (n m : Nat) (f : Nat → Nat → Rat) :
    sumTo n (fun i => sumTo m (fun j => f i j)) = sumTo m (fun j => sumTo n (fun i => f i j)) := by
  induction n with
  | zero => simp
  | succ n ih => simp only [sumTo_succ, ih, sumTo_add]

/-- sum of a Kronecker delta -/
theorem sumTo_ite_eq (n i : Nat) (f : Nat → Rat) :
    sumTo n (fun k => if k = i then f k else 0) = if i < n then f i else 0 := by
  induction n with
  | zero => simp
  | succ n ih =>
    rw [sumTo_succ, ih]
    by_cases h1 : i < n
    · have : n ≠ i := by omega
      simp [h1, this, Nat.lt_succ_of_lt h1]
    · by_cases h2 : n = i
      · subst h2; simp
      · have : ¬ i < n + 1 := by omega
        simp [h1, h2, this]

theorem sumTo_ite_eq' (n i : Nat) (f : Nat → Rat) :
    sumTo n (fun k => if i = k then f k else 0) = if i < n then f i else 0 := by
  rw [← sumTo_ite_eq n i f]
  apply sumTo_congr; intro k _
  by_cases h : k = i
  · simp [h]
  · have : ¬ i = k := fun e => h e.symm
    simp [h, this]

/-- splitting a sum over `n + m` -/
theorem sumTo_split (n m : Nat) (f : Nat → Rat) :
    sumTo (n + m) f = sumTo n f + sumTo m (fun k => f (n + k)) := by
  induction m with
  | zero => simp
  | succ m ih => rw [← Nat.add_assoc, sumTo_succ, ih, sumTo_succ]; ring

/-- a sum only sees the terms below the bound: terms that vanish from `n` on can be added -/
theorem sumTo_extend {n m : Nat} (hnm : n ≤ m) {f : Nat → Rat} (h : ∀ k, n ≤ k → k < m → f k = 0) :
    sumTo m f = sumTo n f := by
  obtain ⟨d, rfl⟩ := Nat.exists_eq_add_of_le hnm
  rw [sumTo_split]
  have : sumTo d (fun k => f (n + k)) = 0 := sumTo_eq_zero (fun k hk => h (n + k) (by omega) (by omega))
  rw [this]; ring

/-! ### vectors -/

@[simp] theorem vget_tab (n : Nat) (f : Nat → Rat) (i : Nat) : vget (tab n f) i = if i < n then f i else 0 := by
  unfold vget; exact tab_getD n f i 0

theorem vget_of_ge {v : Vec} {i : Nat} (h : v.length ≤ i) : vget v i = 0 := by
  unfold vget; simp [List.getD_eq_getElem?_getD, List.getElem?_eq_none h]

theorem tab_congr {α : Type} {n : Nat} {f g : Nat → α} (h : ∀ i, i < n → f i = g i) : tab n f = tab n g := by
  unfold tab
  apply List.map_congr_left
  intro i hi
  exact h i (List.mem_range.mp hi)

theorem vec_ext {u v : Vec} (hl : u.length = v.length) (h : ∀ i, i < u.length → vget u i = vget v i) : u = v := by
  apply List.ext_getElem hl
  intro i h1 h2
  have := h i h1
  unfold vget at this
  simpa [List.getD_eq_getElem?_getD, List.getElem?_eq_getElem h1, List.getElem?_eq_getElem h2] using this

theorem tab_vget (v : Vec) : tab v.length (fun i => vget v i) = v := by
  apply vec_ext (by simp)
  intro i hi
  simp at hi
  simp [hi]

@[simp] theorem ones_length (n : Nat) : (ones n).length = n := by simp [ones]
@[simp] theorem zeros_length (n : Nat) : (zeros n).length = n := by simp [zeros]
@[simp] theorem vget_ones (n i : Nat) : vget (ones n) i = if i < n then 1 else 0 := by simp [ones]
@[simp] theorem vget_zeros (n i : Nat) : vget (zeros n) i = 0 := by simp [zeros]
@[simp] theorem vneg_length (v : Vec) : (vneg v).length = v.length := by simp [vneg]
@[simp] theorem vsmul_length (c : Rat) (v : Vec) : (vsmul c v).length = v.length := by simp [vsmul]

@[simp] theorem vget_vneg (v : Vec) (i : Nat) : vget (vneg v) i = - vget v i := by
  unfold vneg
  by_cases h : i < v.length
  · simp [h]
  · simp [h, vget_of_ge (Nat.le_of_not_lt h)]

@[simp] theorem vget_vsmul (c : Rat) (v : Vec) (i : Nat) : vget (vsmul c v) i = c * vget v i := by
  unfold vsmul
  by_cases h : i < v.length
  · simp [h]
  · simp [h, vget_of_ge (Nat.le_of_not_lt h)]

theorem vget_append_left {u v : Vec} {i : Nat} (h : i < u.length) : vget (u ++ v) i = vget u i := by
  unfold vget
  simp [List.getD_eq_getElem?_getD, List.getElem?_append_left h]

theorem vget_append_right {u v : Vec} {i : Nat} (h : u.length ≤ i) : vget (u ++ v) i = vget v (i - u.length) := by
  unfold vget
  simp [List.getD_eq_getElem?_getD, List.getElem?_append_right h]

/-! ### entries of matrices -/

namespace Mat

@[simp] theorem ofFn_nRow (n m : Nat) (f : Nat → Nat → Rat) : (ofFn n m f).nRow = n := rfl
@[simp] theorem ofFn_nCol (n m : Nat) (f : Nat → Nat → Rat) : (ofFn n m f).nCol = m := rfl

@[simp] theorem get_ofFn (n m : Nat) (f : Nat → Nat → Rat) (i j : Nat) :
    (ofFn n m f).get i j = if i < n ∧ j < m then f i j else 0 := by
  unfold get ofFn
  by_cases h : i < n ∧ j < m
  · obtain ⟨h1, h2⟩ := h
    simp only [h1, h2, and_self, if_true]
    rw [tab_getD, if_pos h1, tab_getD, if_pos h2]
  · simp [h]

theorem get_of_not_lt {a : Mat} {i j : Nat} (h : ¬ (i < a.nRow ∧ j < a.nCol)) : a.get i j = 0 := by
  unfold get; rw [if_neg h]

theorem get_of_row_ge {a : Mat} {i : Nat} (j : Nat) (h : a.nRow ≤ i) : a.get i j = 0 := by
  unfold get
  have : ¬ (i < a.nRow ∧ j < a.nCol) := fun c => absurd c.1 (Nat.not_lt.mpr h)
  simp [this]

theorem get_of_col_ge {a : Mat} (i : Nat) {j : Nat} (h : a.nCol ≤ j) : a.get i j = 0 := by
  unfold get
  have : ¬ (i < a.nRow ∧ j < a.nCol) := fun c => absurd c.2 (Nat.not_lt.mpr h)
  simp [this]

/-- two tabulated matrices with the same entries inside the shape are equal -/
theorem ofFn_congr {n m : Nat} {f g : Nat → Nat → Rat} (h : ∀ i j, i < n → j < m → f i j = g i j) :
    ofFn n m f = ofFn n m g := by
  unfold ofFn
  congr 1
  exact tab_congr (fun i hi => tab_congr (fun j hj => h i j hi hj))

/-- extensional equality: same shape, same entries -/
structure Eqv (a b : Mat) : Prop where
  nRow : a.nRow = b.nRow
  nCol : a.nCol = b.nCol
  get : ∀ i j, a.get i j = b.get i j

theorem Eqv.refl (a : Mat) : Eqv a a := ⟨rfl, rfl, fun _ _ => rfl⟩
theorem Eqv.symm {a b : Mat} (h : Eqv a b) : Eqv b a := ⟨h.nRow.symm, h.nCol.symm, fun i j => (h.get i j).symm⟩
theorem Eqv.trans {a b c : Mat} (h1 : Eqv a b) (h2 : Eqv b c) : Eqv a c :=
  ⟨h1.nRow.trans h2.nRow, h1.nCol.trans h2.nCol, fun i j => (h1.get i j).trans (h2.get i j)⟩

theorem Eqv.of_eq {a b : Mat} (h : a = b) : Eqv a b := h ▸ Eqv.refl a

/-- a matrix is equivalent to the tabulation of its entries -/
theorem eqv_ofFn_get (a : Mat) : Eqv a (ofFn a.nRow a.nCol a.get) := by
  refine ⟨rfl, rfl, fun i j => ?_⟩
  rw [get_ofFn]
  by_cases h : i < a.nRow ∧ j < a.nCol
  · simp [h]
  · simp only [h, if_false]
    unfold Mat.get; simp [h]

@[simp] theorem add_nRow (a b : Mat) : (a.add b).nRow = a.nRow := rfl
@[simp] theorem add_nCol (a b : Mat) : (a.add b).nCol = a.nCol := rfl
@[simp] theorem sub_nRow (a b : Mat) : (a.sub b).nRow = a.nRow := rfl
@[simp] theorem sub_nCol (a b : Mat) : (a.sub b).nCol = a.nCol := rfl
@[simp] theorem neg_nRow (a : Mat) : a.neg.nRow = a.nRow := rfl
@[simp] theorem neg_nCol (a : Mat) : a.neg.nCol = a.nCol := rfl
@[simp] theorem smul_nRow (c : Rat) (a : Mat) : (a.smul c).nRow = a.nRow := rfl
@[simp] theorem smul_nCol (c : Rat) (a : Mat) : (a.smul c).nCol = a.nCol := rfl
@[simp] theorem transpose_nRow (a : Mat) : a.transpose.nRow = a.nCol := rfl
@[simp] theorem transpose_nCol (a : Mat) : a.transpose.nCol = a.nRow := rfl
@[simp] theorem mul_nRow (a b : Mat) : (a.mul b).nRow = a.nRow := rfl
@[simp] theorem mul_nCol (a b : Mat) : (a.mul b).nCol = b.nCol := rfl
@[simp] theorem zero_nRow (n m : Nat) : (zero n m).nRow = n := rfl
@[simp] theorem zero_nCol (n m : Nat) : (zero n m).nCol = m := rfl
@[simp] theorem identity_nRow (n : Nat) : (identity n).nRow = n := rfl
@[simp] theorem identity_nCol (n : Nat) : (identity n).nCol = n := rfl
@[simp] theorem diag_nRow (n : Nat) (w : Vec) : (diag n w).nRow = n := rfl
@[simp] theorem diag_nCol (n : Nat) (w : Vec) : (diag n w).nCol = n := rfl
@[simp] theorem const_nRow (n m : Nat) (c : Rat) : (const n m c).nRow = n := rfl
@[simp] theorem const_nCol (n m : Nat) (c : Rat) : (const n m c).nCol = m := rfl
@[simp] theorem outer_nRow (n m : Nat) (x y : Vec) : (outer n m x y).nRow = n := rfl
@[simp] theorem outer_nCol (n m : Nat) (x y : Vec) : (outer n m x y).nCol = m := rfl
@[simp] theorem block_nRow (b c : Mat) : (block b c).nRow = b.nRow + b.nCol := rfl
@[simp] theorem block_nCol (b c : Mat) : (block b c).nCol = b.nRow + b.nCol := rfl
@[simp] theorem abs_nRow (a : Mat) : a.abs.nRow = a.nRow := rfl
@[simp] theorem abs_nCol (a : Mat) : a.abs.nCol = a.nCol := rfl

theorem get_add {a b : Mat} (hr : a.nRow = b.nRow) (hc : a.nCol = b.nCol) (i j : Nat) :
    (a.add b).get i j = a.get i j + b.get i j := by
  unfold add
  rw [get_ofFn]
  by_cases h : i < a.nRow ∧ j < a.nCol
  · simp [h]
  · simp only [h, if_false]
    have ha : a.get i j = 0 := by unfold Mat.get; simp [h]
    have hb : b.get i j = 0 := by unfold Mat.get; rw [← hr, ← hc]; simp [h]
    rw [ha, hb]; ring

theorem get_sub {a b : Mat} (hr : a.nRow = b.nRow) (hc : a.nCol = b.nCol) (i j : Nat) :
    (a.sub b).get i j = a.get i j - b.get i j := by
  unfold sub
  rw [get_ofFn]
  by_cases h : i < a.nRow ∧ j < a.nCol
  · simp [h]
  · simp only [h, if_false]
    have ha : a.get i j = 0 := by unfold Mat.get; simp [h]
    have hb : b.get i j = 0 := by unfold Mat.get; rw [← hr, ← hc]; simp [h]
    rw [ha, hb]; ring

@[simp] theorem get_neg (a : Mat) (i j : Nat) : a.neg.get i j = - a.get i j := by
  unfold neg
  rw [get_ofFn]
  by_cases h : i < a.nRow ∧ j < a.nCol
  · simp [h]
  · simp only [h, if_false]
    have ha : a.get i j = 0 := by unfold Mat.get; simp [h]
    rw [ha]; ring

@[simp] theorem get_smul (c : Rat) (a : Mat) (i j : Nat) : (a.smul c).get i j = c * a.get i j := by
  unfold smul
  rw [get_ofFn]
  by_cases h : i < a.nRow ∧ j < a.nCol
  · simp [h]
  · simp only [h, if_false]
    have ha : a.get i j = 0 := by unfold Mat.get; simp [h]
    rw [ha]; ring

@[simp] theorem get_transpose (a : Mat) (i j : Nat) : a.transpose.get i j = a.get j i := by
  unfold transpose
  rw [get_ofFn]
  by_cases h : i < a.nCol ∧ j < a.nRow
  · simp [h]
  · simp only [h, if_false]
    have : ¬ (j < a.nRow ∧ i < a.nCol) := fun c => h ⟨c.2, c.1⟩
    unfold Mat.get; simp [this]

@[simp] theorem get_mul (a b : Mat) (i j : Nat) :
    (a.mul b).get i j = sumTo a.nCol (fun k => a.get i k * b.get k j) := by
  unfold mul
  rw [get_ofFn]
  by_cases h : i < a.nRow ∧ j < b.nCol
  · simp [h]
  · simp only [h, if_false]
    symm; apply sumTo_eq_zero; intro k _
    by_cases h1 : i < a.nRow
    · have h2 : b.nCol ≤ j := Nat.le_of_not_lt (fun c => h ⟨h1, c⟩)
      rw [get_of_col_ge k h2]; ring
    · rw [get_of_row_ge k (Nat.le_of_not_lt h1)]; ring

@[simp] theorem mulVec_length (a : Mat) (x : Vec) : (a.mulVec x).length = a.nRow := by simp [mulVec]

@[simp] theorem vget_mulVec (a : Mat) (x : Vec) (i : Nat) :
    vget (a.mulVec x) i = sumTo a.nCol (fun j => a.get i j * vget x j) := by
  unfold mulVec
  rw [vget_tab]
  by_cases h : i < a.nRow
  · simp [h]
  · simp only [h, if_false]
    symm; apply sumTo_eq_zero; intro k _
    rw [get_of_row_ge k (Nat.le_of_not_lt h)]; ring

@[simp] theorem get_zero (n m i j : Nat) : (zero n m).get i j = 0 := by
  unfold zero; rw [get_ofFn]; simp

@[simp] theorem get_const (n m : Nat) (c : Rat) (i j : Nat) :
    (const n m c).get i j = if i < n ∧ j < m then c else 0 := by
  unfold const; rw [get_ofFn]

@[simp] theorem get_outer (n m : Nat) (x y : Vec) (i j : Nat) :
    (outer n m x y).get i j = if i < n ∧ j < m then vget x i * vget y j else 0 := by
  unfold outer; rw [get_ofFn]

@[simp] theorem get_identity (n i j : Nat) : (identity n).get i j = if i < n ∧ i = j then 1 else 0 := by
  unfold identity; rw [get_ofFn]
  by_cases h : i = j
  · subst h; by_cases h2 : i < n <;> simp [h2]
  · simp [h]

@[simp] theorem get_diag (n : Nat) (w : Vec) (i j : Nat) :
    (diag n w).get i j = if i < n ∧ i = j then vget w i else 0 := by
  unfold diag; rw [get_ofFn]
  by_cases h : i = j
  · subst h; by_cases h2 : i < n <;> simp [h2]
  · simp [h]

@[simp] theorem get_abs (a : Mat) (i j : Nat) : a.abs.get i j = rabs (a.get i j) := by
  unfold abs
  rw [get_ofFn]
  by_cases h : i < a.nRow ∧ j < a.nCol
  · simp [h]
  · simp only [h, if_false]
    have ha : a.get i j = 0 := by unfold Mat.get; simp [h]
    rw [ha]; simp [rabs]

/-! ### congruence of the operations for `Eqv` -/

theorem Eqv.add {a a' b b' : Mat} (h1 : Eqv a a') (h2 : Eqv b b') (hr : a.nRow = b.nRow) (hc : a.nCol = b.nCol) :
    Eqv (a.add b) (a'.add b') := by
  refine ⟨h1.nRow, h1.nCol, fun i j => ?_⟩
  rw [get_add hr hc, get_add (by rw [← h1.nRow, ← h2.nRow, hr]) (by rw [← h1.nCol, ← h2.nCol, hc]), h1.get, h2.get]

theorem Eqv.sub {a a' b b' : Mat} (h1 : Eqv a a') (h2 : Eqv b b') (hr : a.nRow = b.nRow) (hc : a.nCol = b.nCol) :
    Eqv (a.sub b) (a'.sub b') := by
  refine ⟨h1.nRow, h1.nCol, fun i j => ?_⟩
  rw [get_sub hr hc, get_sub (by rw [← h1.nRow, ← h2.nRow, hr]) (by rw [← h1.nCol, ← h2.nCol, hc]), h1.get, h2.get]

theorem Eqv.neg {a a' : Mat} (h : Eqv a a') : Eqv a.neg a'.neg :=
  ⟨h.nRow, h.nCol, fun i j => by rw [get_neg, get_neg, h.get]⟩

theorem Eqv.smul {a a' : Mat} (c : Rat) (h : Eqv a a') : Eqv (a.smul c) (a'.smul c) :=
  ⟨h.nRow, h.nCol, fun i j => by rw [get_smul, get_smul, h.get]⟩

theorem Eqv.transpose {a a' : Mat} (h : Eqv a a') : Eqv a.transpose a'.transpose :=
  ⟨h.nCol, h.nRow, fun i j => by rw [get_transpose, get_transpose, h.get]⟩

theorem Eqv.mul {a a' b b' : Mat} (h1 : Eqv a a') (h2 : Eqv b b') : Eqv (a.mul b) (a'.mul b') := by
  refine ⟨h1.nRow, h2.nCol, fun i j => ?_⟩
  rw [get_mul, get_mul, h1.nCol]
  apply sumTo_congr; intro k _
  rw [h1.get, h2.get]

theorem Eqv.mulVec {a a' : Mat} (h : Eqv a a') (x : Vec) : a.mulVec x = a'.mulVec x := by
  apply vec_ext (by simp [h.nRow])
  intro i _
  rw [vget_mulVec, vget_mulVec, h.nCol]
  apply sumTo_congr; intro k _
  rw [h.get]

/-! ### algebra -/

/-- `(A B) x = A (B x)` -/
theorem mulVec_mul (a b : Mat) (x : Vec) : (a.mul b).mulVec x = a.mulVec (b.mulVec x) := by
  apply vec_ext (by simp)
  intro i _
  rw [vget_mulVec, vget_mulVec]
  simp only [get_mul, vget_mulVec, mul_nCol]
  rw [show (fun j => sumTo a.nCol (fun k => a.get i k * b.get k j) * vget x j)
        = (fun j => sumTo a.nCol (fun k => a.get i k * b.get k j * vget x j)) from by
      funext j; rw [sumTo_mul_right]]
  rw [sumTo_comm]
  apply sumTo_congr; intro k _
  rw [← sumTo_mul_left]
  apply sumTo_congr; intro j _
  ring

/-- `(A B) C = A (B C)` -/
theorem mul_assoc (a b c : Mat) : Eqv ((a.mul b).mul c) (a.mul (b.mul c)) := by
  refine ⟨rfl, rfl, fun i j => ?_⟩
  simp only [get_mul, mul_nCol]
  rw [show (fun k => sumTo a.nCol (fun l => a.get i l * b.get l k) * c.get k j)
        = (fun k => sumTo a.nCol (fun l => a.get i l * b.get l k * c.get k j)) from by
      funext k; rw [sumTo_mul_right]]
  rw [sumTo_comm]
  apply sumTo_congr; intro l _
  rw [← sumTo_mul_left]
  apply sumTo_congr; intro k _
  ring

/-- `(A B)ᵀ = Bᵀ Aᵀ` -/
theorem transpose_mul (a b : Mat) (h : a.nCol = b.nRow) : Eqv (a.mul b).transpose (b.transpose.mul a.transpose) := by
  refine ⟨rfl, rfl, fun i j => ?_⟩
  simp only [get_transpose, get_mul, transpose_nCol]
  rw [h]
  apply sumTo_congr; intro k _
  ring

theorem transpose_transpose (a : Mat) : Eqv a.transpose.transpose a :=
  ⟨rfl, rfl, fun i j => by simp⟩

theorem transpose_add (a b : Mat) (hr : a.nRow = b.nRow) (hc : a.nCol = b.nCol) :
    Eqv (a.add b).transpose (a.transpose.add b.transpose) := by
  refine ⟨rfl, rfl, fun i j => ?_⟩
  rw [get_transpose, get_add hr hc, get_add (by simpa using hc) (by simpa using hr)]
  simp

theorem transpose_smul (c : Rat) (a : Mat) : Eqv (a.smul c).transpose (a.transpose.smul c) :=
  ⟨rfl, rfl, fun i j => by simp⟩

theorem transpose_neg (a : Mat) : Eqv a.neg.transpose a.transpose.neg :=
  ⟨rfl, rfl, fun i j => by simp⟩

/-- `(A + B) x = A x + B x` -/
theorem vget_mulVec_add {a b : Mat} (hr : a.nRow = b.nRow) (hc : a.nCol = b.nCol) (x : Vec) (i : Nat) :
    vget ((a.add b).mulVec x) i = vget (a.mulVec x) i + vget (b.mulVec x) i := by
  simp only [vget_mulVec, add_nCol]
  rw [← hc, ← sumTo_add]
  apply sumTo_congr; intro k _
  rw [get_add hr hc]; ring

theorem mul_add_left (m a b : Mat) (hr : a.nRow = b.nRow) (hc : a.nCol = b.nCol) :
    Eqv (m.mul (a.add b)) ((m.mul a).add (m.mul b)) := by
  refine ⟨rfl, rfl, fun i j => ?_⟩
  rw [get_add (by simp) (by simpa using hc)]
  simp only [get_mul]
  rw [← sumTo_add]
  apply sumTo_congr; intro k _
  rw [get_add hr hc]; ring

theorem mul_add_right (a b m : Mat) (hr : a.nRow = b.nRow) (hc : a.nCol = b.nCol) :
    Eqv ((a.add b).mul m) ((a.mul m).add (b.mul m)) := by
  refine ⟨rfl, rfl, fun i j => ?_⟩
  rw [get_add (by simpa using hr) (by simp)]
  simp only [get_mul, add_nCol]
  rw [← hc, ← sumTo_add]
  apply sumTo_congr; intro k _
  rw [get_add hr hc]; ring

theorem mul_smul (c : Rat) (a b : Mat) : Eqv ((a.smul c).mul b) ((a.mul b).smul c) := by
  refine ⟨rfl, rfl, fun i j => ?_⟩
  simp only [get_mul, get_smul, smul_nCol]
  rw [← sumTo_mul_left]
  apply sumTo_congr; intro k _
  ring

theorem smul_mul (c : Rat) (a b : Mat) : Eqv (a.mul (b.smul c)) ((a.mul b).smul c) := by
  refine ⟨rfl, rfl, fun i j => ?_⟩
  simp only [get_mul, get_smul]
  rw [← sumTo_mul_left]
  apply sumTo_congr; intro k _
  ring

end Mat
end SkNet.LinOp

namespace SkNet.LinOp

/-- unpacking a successful `do` step -/
theorem bind_eq_ok {ε α β : Type} {x : Except ε α} {f : α → Except ε β} {b : β}
    (h : (x >>= f) = .ok b) : ∃ a, x = .ok a ∧ f a = .ok b := by
  cases x with
  | error e => simp [bind, Except.bind] at h
  | ok a => exact ⟨a, rfl, by simpa [bind, Except.bind] using h⟩

theorem pure_eq_ok {ε α : Type} {a b : α} (h : (pure a : Except ε α) = .ok b) : a = b := by
  simpa [pure, Except.pure] using h

namespace Mat

theorem add?_ok {a b m : Mat} (h : a.add? b = .ok m) : a.nRow = b.nRow ∧ a.nCol = b.nCol ∧ m = a.add b := by
  unfold add? at h
  split at h
  · rename_i hc; exact ⟨hc.1, hc.2, by cases h; rfl⟩
  · cases h

theorem mul?_ok {a b m : Mat} (h : a.mul? b = .ok m) : a.nCol = b.nRow ∧ m = a.mul b := by
  unfold mul? at h
  split at h
  · rename_i hc; exact ⟨hc, by cases h; rfl⟩
  · cases h

theorem mulVec?_ok {a : Mat} {x y : Vec} (h : a.mulVec? x = .ok y) : a.nCol = x.length ∧ y = a.mulVec x := by
  unfold mulVec? at h
  split at h
  · rename_i hc; exact ⟨hc, by cases h; rfl⟩
  · cases h

end Mat
end SkNet.LinOp
