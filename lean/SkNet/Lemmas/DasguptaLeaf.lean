/- The replay of merges in `get_sampling_distributions`, read on the leaves: the weight between two live
   clusters is the total weight between their leaf sets, cluster weights are sums over leaves. -/
import SkNet.Lemmas.DasguptaInit
import SkNet.Lemmas.Valid

set_option linter.unusedSimpArgs false

namespace SkNet.HMetrics
open SkNet SkNet.Dendro SkNet.Agg SkNet.Cut

/-- total weight between two lists of leaves -/
def B (P : Nat → Nat → ℚ) (l1 l2 : List Nat) : ℚ := S l1 (fun u => S l2 (fun v => P u v))

theorem B_append_left (P : Nat → Nat → ℚ) (a b c : List Nat) : B P (a ++ b) c = B P a c + B P b c := by
  simp [B, S_append]

theorem B_append_right (P : Nat → Nat → ℚ) (a b c : List Nat) : B P a (b ++ c) = B P a b + B P a c := by
  simp only [B, S_append, S_add]

theorem B_singleton (P : Nat → Nat → ℚ) (x y : Nat) : B P [x] [y] = P x y := by
  simp [B, S_cons, S_nil]

variable {α : Type}

/-- the leaf reading of the aggregate graph after the rows `pre` -/
structure LeafInv (n : Nat) (P : Nat → Nat → ℚ) (wr wc : Nat → ℚ) (pre : Dendro α) (g : AggGraph ℚ)
    (st : Dict (List Nat)) : Prop where
  cinv : CInv n pre st
  keysSt : Dict.keys g.outW = Dict.keys st
  wleaf : ∀ x ∈ Dict.keys g.outW, ∀ y ∈ Dict.keys g.outW,
    getEntry g.nb x y = B P (leaves n pre x) (leaves n pre y)
  outLeaf : ∀ x v, g.outW.get? x = some v → v = S (leaves n pre x) wr
  inLeaf : ∀ x v, g.inW.get? x = some v → v = S (leaves n pre x) wc
  forest : ∀ z, z < n + pre.length → ∃ y ∈ Dict.keys g.outW, ∀ u ∈ leaves n pre z, u ∈ leaves n pre y

/-- one merge, on the leaf reading -/
theorem leafInv_step {n : Nat} {P : Nat → Nat → ℚ} {wr wc : Nat → ℚ} {pre : Dendro α} {g : AggGraph ℚ}
    {st : Dict (List Nat)} {r : Row α} {ci cj : List Nat}
    (hJ : JInv n pre.length g) (hLf : LeafInv n P wr wc pre g st)
    (hi : st.get? r.i = some ci) (hj : st.get? r.j = some cj) (hij : r.i ≠ r.j) :
    LeafInv n P wr wc (pre ++ [r]) (g.merge r.i r.j) (merged n st pre.length r.i r.j ci cj) := by
  have hki : r.i ∈ Dict.keys g.outW := by rw [hLf.keysSt]; exact Dict.get?_some_key_mem hi
  have hkj : r.j ∈ Dict.keys g.outW := by rw [hLf.keysSt]; exact Dict.get?_some_key_mem hj
  have hbi := hJ.bound _ hki
  have hbj := hJ.bound _ hkj
  have hci : ci = leaves n pre r.i := get?_leaves hLf.cinv hi
  have hcj : cj = leaves n pre r.j := get?_leaves hLf.cinv hj
  obtain ⟨vi, hvi⟩ := keys_get? hki
  obtain ⟨vj, hvj⟩ := keys_get? hkj
  obtain ⟨ui, hui⟩ := keys_get? (d := g.inW) (by rw [hJ.keysEq]; exact hki)
  obtain ⟨uj, huj⟩ := keys_get? (d := g.inW) (by rw [hJ.keysEq]; exact hkj)
  have hnewO : n + pre.length ∉ Dict.keys g.outW := fun hm => by have := hJ.bound _ hm; omega
  have hnewI : n + pre.length ∉ Dict.keys g.inW := by rw [hJ.keysEq]; exact hnewO
  have ko := (merged_dict hJ.nodup hvi hvj hij hnewO hJ.outSum hJ.outNonneg).1
  obtain ⟨_, hW, _⟩ := mergeNb_spec g.nb hij (by omega : n + pre.length ≠ r.i) (by omega : n + pre.length ≠ r.j)
    hJ.nbi.rows (fun x => hJ.nbi.fresh x (n + pre.length) (Nat.le_refl _)) hJ.nbi.sym
  have hmo : (g.merge r.i r.j).outW = ((g.outW.erase r.i).erase r.j).set (n + pre.length) (vi + vj) := by
    unfold AggGraph.merge; simp [hvi, hvj, hJ.next]
  have hmi : (g.merge r.i r.j).inW = ((g.inW.erase r.i).erase r.j).set (n + pre.length) (ui + uj) := by
    unfold AggGraph.merge; simp [hui, huj, hJ.next]
  have hmn : (g.merge r.i r.j).nb = mergeNb g.nb r.i r.j (n + pre.length) := by
    unfold AggGraph.merge; simp [hJ.next]
  have hkeys' : Dict.keys (g.merge r.i r.j).outW =
      ((Dict.keys g.outW).filter (· != r.i)).filter (· != r.j) ++ [n + pre.length] := by rw [hmo, ko]
  -- leaves after the row
  have hnewL : leaves n (pre ++ [r]) (n + pre.length) = leaves n pre r.i ++ leaves n pre r.j := leaves_new n pre r
  have holdL : ∀ x, x < n + pre.length → leaves n (pre ++ [r]) x = leaves n pre x :=
    fun x hx => leaves_append_lt n pre [r] hx
  have hrest : ∀ x ∈ ((Dict.keys g.outW).filter (· != r.i)).filter (· != r.j),
      x ≠ r.i ∧ x ≠ r.j ∧ x ≠ n + pre.length ∧ x ∈ Dict.keys g.outW := by
    intro x hx
    obtain ⟨hx1, hx2⟩ := List.mem_filter.mp hx
    obtain ⟨hx3, hx4⟩ := List.mem_filter.mp hx1
    have := hJ.bound x hx3
    exact ⟨by simpa using hx4, by simpa using hx2, by omega, hx3⟩
  have e1 : n + pre.length ≠ r.i := by omega
  have e2 : n + pre.length ≠ r.j := by omega
  have hcm := cinv_merge hLf.cinv r hi hj hij
  refine ⟨hcm, ?_, ?_, ?_, ?_, ?_⟩
  · -- same keys
    rw [hkeys', merged_eq hLf.cinv]
    simp only [Dict.keys, List.map_append, List.map_cons, List.map_nil]
    have h1 := Dict.keys_erase (st.erase r.i) r.j
    have h2 := Dict.keys_erase st r.i
    have h3 := hLf.keysSt
    simp only [Dict.keys] at h1 h2 h3
    rw [h1, h2, h3]
  · -- weights between live clusters
    intro x hx y hy
    rw [hkeys'] at hx hy
    rw [hmn, hW]
    rcases List.mem_append.mp hx with hx | hx <;> rcases List.mem_append.mp hy with hy | hy
    · obtain ⟨a1, a2, a3, a4⟩ := hrest x hx
      obtain ⟨b1, b2, b3, b4⟩ := hrest y hy
      simp only [a1, a2, a3, b1, b2, b3, or_self, if_false, false_and, and_false]
      rw [holdL x (hJ.bound x a4), holdL y (hJ.bound y b4)]
      exact hLf.wleaf x a4 y b4
    · obtain ⟨a1, a2, a3, a4⟩ := hrest x hx
      simp only [List.mem_cons, List.not_mem_nil, or_false] at hy
      subst hy
      simp only [a1, a2, a3, e1, e2, or_self, if_false, false_and, and_true, if_true]
      rw [holdL x (hJ.bound x a4), hnewL, B_append_right, hLf.wleaf x a4 r.i hki, hLf.wleaf x a4 r.j hkj]
    · obtain ⟨b1, b2, b3, b4⟩ := hrest y hy
      simp only [List.mem_cons, List.not_mem_nil, or_false] at hx
      subst hx
      simp only [b1, b2, b3, e1, e2, or_self, if_false, and_false, if_true]
      rw [holdL y (hJ.bound y b4), hnewL, B_append_left, hLf.wleaf r.i hki y b4, hLf.wleaf r.j hkj y b4]
    · simp only [List.mem_cons, List.not_mem_nil, or_false] at hx hy
      subst hx; subst hy
      simp only [e1, e2, or_self, if_false, and_self, if_true]
      rw [hnewL, B_append_left, B_append_right, B_append_right, hLf.wleaf r.i hki r.i hki, hLf.wleaf r.i hki r.j hkj,
        hLf.wleaf r.j hkj r.i hki, hLf.wleaf r.j hkj r.j hkj]
      ring
  · intro x v hx
    rw [hmo, Dict.get?_set, Dict.get?_erase, Dict.get?_erase] at hx
    by_cases h1 : x = n + pre.length
    · subst h1
      simp only [if_true, Option.some.injEq] at hx
      rw [hnewL, S_append, ← hLf.outLeaf r.i vi hvi, ← hLf.outLeaf r.j vj hvj, hx]
    · simp only [h1, if_false] at hx
      by_cases h2 : x = r.j
      · simp [h2] at hx
      · by_cases h3 : x = r.i
        · simp [h2, h3] at hx
        · simp only [h2, h3, if_false] at hx
          rw [holdL x (hJ.bound x (Dict.get?_some_key_mem hx))]
          exact hLf.outLeaf x v hx
  · intro x v hx
    rw [hmi, Dict.get?_set, Dict.get?_erase, Dict.get?_erase] at hx
    by_cases h1 : x = n + pre.length
    · subst h1
      simp only [if_true, Option.some.injEq] at hx
      rw [hnewL, S_append, ← hLf.inLeaf r.i ui hui, ← hLf.inLeaf r.j uj huj, hx]
    · simp only [h1, if_false] at hx
      by_cases h2 : x = r.j
      · simp [h2] at hx
      · by_cases h3 : x = r.i
        · simp [h2, h3] at hx
        · simp only [h2, h3, if_false] at hx
          have hxk : x ∈ Dict.keys g.outW := by rw [← hJ.keysEq]; exact Dict.get?_some_key_mem hx
          rw [holdL x (hJ.bound x hxk)]
          exact hLf.inLeaf x v hx
  · -- every node created so far lies below a live cluster
    intro z hz
    simp only [List.length_append, List.length_cons, List.length_nil] at hz
    have hnewmem : n + pre.length ∈ Dict.keys (g.merge r.i r.j).outW := by rw [hkeys']; simp
    by_cases hzn : z = n + pre.length
    · exact ⟨n + pre.length, hnewmem, fun u hu => by rw [hzn] at hu; exact hu⟩
    · have hzl : z < n + pre.length := by omega
      obtain ⟨y, hy, hsub⟩ := hLf.forest z hzl
      rw [holdL z hzl]
      by_cases hyi : y = r.i
      · refine ⟨n + pre.length, hnewmem, fun u hu => ?_⟩
        rw [hnewL]; exact List.mem_append_left _ (hyi ▸ hsub u hu)
      · by_cases hyj : y = r.j
        · refine ⟨n + pre.length, hnewmem, fun u hu => ?_⟩
          rw [hnewL]; exact List.mem_append_right _ (hyj ▸ hsub u hu)
        · refine ⟨y, ?_, fun u hu => ?_⟩
          · rw [hkeys']
            refine List.mem_append_left _ (List.mem_filter.mpr ⟨List.mem_filter.mpr ⟨hy, by simpa using hyi⟩,
              by simpa using hyj⟩)
          · rw [holdL y (hJ.bound y hy)]; exact hsub u hu


/-! ### the accumulated lists, in terms of the leaves of the dendrogram -/

/-- `edge_sampling[t]` read on the leaves of the dendrogram `D` -/
def edgeAt (n : Nat) (P : Nat → Nat → ℚ) (D : Dendro α) (t : Nat) : ℚ :=
  match D[t]? with
  | none => 0
  | some r =>
    2 * B P (leaves n D r.i) (leaves n D r.j) +
      (if r.i < n then B P (leaves n D r.i) (leaves n D r.i) else 0) +
      (if r.j < n then B P (leaves n D r.j) (leaves n D r.j) else 0)

/-- `cluster_weight[t] / 2` read on the leaves -/
def weightAt (n : Nat) (wr wc : Nat → ℚ) (D : Dendro α) (t : Nat) : ℚ :=
  match D[t]? with
  | none => 0
  | some r =>
    (S (leaves n D r.i) wr + S (leaves n D r.j) wr + S (leaves n D r.i) wc + S (leaves n D r.j) wc) / 2

theorem samplingLoop_leaf {n : Nat} {P : Nat → Nat → ℚ} {wr wc : Nat → ℚ} (D : Dendro α) :
    ∀ (rs pre : Dendro α) (g : AggGraph ℚ) (st : Dict (List Nat)) (acc : Sampling),
      D = pre ++ rs → JInv n pre.length g → LeafInv n P wr wc pre g st →
      validLoop n pre.length rs (sizesOf st) = true →
      acc.edge = (List.range pre.length).map (edgeAt n P D) →
      acc.weight = (List.range pre.length).map (weightAt n wr wc D) →
      (samplingLoop n rs g acc).edge = (List.range D.length).map (edgeAt n P D) ∧
      (samplingLoop n rs g acc).weight = (List.range D.length).map (weightAt n wr wc D) := by
  intro rs
  induction rs with
  | nil =>
    intro pre g st acc hD _ _ _ he hw
    have : D.length = pre.length := by rw [hD]; simp
    rw [this]
    exact ⟨he, hw⟩
  | cons r rs ih =>
    intro pre g st acc hD hJ hLf hv he hw
    have hl : (pre ++ [r]).length = pre.length + 1 := by simp
    have hD' : D = (pre ++ [r]) ++ rs := by simp [hD]
    unfold validLoop at hv
    simp only [get?_sizesOf] at hv
    cases hi : st.get? r.i with
    | none => simp [hi] at hv
    | some ci =>
      cases hj : st.get? r.j with
      | none => simp [hi, hj] at hv
      | some cj =>
        simp only [hi, hj, Option.map_some, Bool.and_eq_true, bne_iff_ne, ne_eq, beq_iff_eq] at hv
        obtain ⟨⟨hne, hs⟩, hrest⟩ := hv
        have hsz : ((Dict.erase (Dict.erase (sizesOf st) r.i) r.j).set (n + pre.length) r.s) =
            sizesOf (merged n st pre.length r.i r.j ci cj) := by
          unfold merged
          rw [erase_sizesOf, erase_sizesOf, hs, ← List.length_append, set_sizesOf]
        rw [hsz, ← hl] at hrest
        have hki : r.i ∈ Dict.keys g.outW := by rw [hLf.keysSt]; exact Dict.get?_some_key_mem hi
        have hkj : r.j ∈ Dict.keys g.outW := by rw [hLf.keysSt]; exact Dict.get?_some_key_mem hj
        have hbi := hJ.bound _ hki
        have hbj := hJ.bound _ hkj
        obtain ⟨hJ', _, _, _, _⟩ := jinv_step hJ hki hkj hne
        have hLf' := leafInv_step hJ hLf hi hj hne
        -- the values appended at this step
        have hrow : D[pre.length]? = some r := by
          rw [hD, List.getElem?_append_right (Nat.le_refl _)]; simp
        have hli : leaves n D r.i = leaves n pre r.i := by rw [hD]; exact leaves_append_lt n pre _ hbi
        have hlj : leaves n D r.j = leaves n pre r.j := by rw [hD]; exact leaves_append_lt n pre _ hbj
        have hedge : (samplingOf n g r.i r.j).1 = edgeAt n P D pre.length := by
          rw [samplingOf_edge n g hne]
          unfold edgeAt
          rw [hrow]
          simp only [hli, hlj]
          rw [hLf.wleaf r.i hki r.j hkj, hLf.wleaf r.i hki r.i hki, hLf.wleaf r.j hkj r.j hkj]
        have hweight : clusterWeightOf g r.i r.j / 2 = weightAt n wr wc D pre.length := by
          obtain ⟨vi, hvi⟩ := keys_get? hki
          obtain ⟨vj, hvj⟩ := keys_get? hkj
          obtain ⟨ui, hui⟩ := keys_get? (d := g.inW) (by rw [hJ.keysEq]; exact hki)
          obtain ⟨uj, huj⟩ := keys_get? (d := g.inW) (by rw [hJ.keysEq]; exact hkj)
          unfold weightAt clusterWeightOf wOf
          rw [hrow]
          simp only [hvi, hvj, hui, huj, Option.getD_some, hli, hlj]
          rw [← hLf.outLeaf r.i vi hvi, ← hLf.outLeaf r.j vj hvj, ← hLf.inLeaf r.i ui hui, ← hLf.inLeaf r.j uj huj]
        unfold samplingLoop
        rw [← hl] at hJ'
        refine ih (pre ++ [r]) _ _ _ hD' hJ' hLf' hrest ?_ ?_
        · simp only [hl, List.range_succ, List.map_append, List.map_cons, List.map_nil, he, hedge]
        · simp only [hl, List.range_succ, List.map_append, List.map_cons, List.map_nil, hw, hweight]

end SkNet.HMetrics
