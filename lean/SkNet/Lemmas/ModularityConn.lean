/-
The executable component test used by the spec lines (`clustersWithinComponents`) against the relation the
theorems are about (`Connected`): the test is sound, and complete whenever the reach sets it computed are closed
under links — a certificate the test evaluates itself on every call.
-/
import SkNet.Lemmas.ModularitySums

namespace SkNet.Modularity

theorem reachK_sound (n : Nat) (A : Nat → Nat → Rat) (u : Nat) (hu : u < n) (k : Nat) :
    ∀ v, (reachK n A u k).getD v false = true → Connected n A u v := by
  induction k with
  | zero =>
    intro v hv
    simp only [reachK, tab_getD] at hv
    split at hv
    · have : v = u := by simpa using hv
      rw [this]; exact Connected.refl hu
    · cases hv
  | succ k ih =>
    intro w hw
    simp only [reachK, tab_getD] at hw
    split at hw
    · rename_i hwn
      rcases Bool.or_eq_true _ _ ▸ hw with h | h
      · exact ih w h
      · rw [List.any_eq_true] at h
        obtain ⟨v, -, hv⟩ := h
        rw [Bool.and_eq_true] at hv
        exact Connected.step (ih v hv.1) hwn hv.2
    · cases hw

theorem reach_complete (n : Nat) (A : Nat → Nat → Rat) (r : List Bool) (hclosed : closedUnder n A r = true)
    (u v : Nat) (hr : r.getD u false = true) (h : Connected n A u v) : r.getD v false = true := by
  induction h with
  | refl => exact hr
  | @step v w hc hw hl ih =>
    have hv : v < n := by
      cases hc with
      | refl h => exact h
      | step _ h _ => exact h
    unfold closedUnder at hclosed
    rw [List.all_eq_true] at hclosed
    have h1 := hclosed v (List.mem_range.mpr hv)
    rw [List.all_eq_true] at h1
    have h2 := h1 w (List.mem_range.mpr hw)
    simp only [ih, hl, Bool.and_self, Bool.not_true, Bool.false_or] at h2
    exact h2

/-- the executable test accepts only labelings whose clusters lie inside connected components -/
theorem clustersWithinComponents_sound (n : Nat) (A : Nat → Nat → Rat) (c : Nat → Nat)
    (h : clustersWithinComponents n A c = true) :
    ∀ u v, u < n → v < n → c u = c v → Connected n A u v := by
  intro u v hu hv huv
  unfold clustersWithinComponents at h
  simp only [Bool.and_eq_true, List.all_eq_true] at h
  have h1 := h.2 u (List.mem_range.mpr hu) v (List.mem_range.mpr hv)
  have hne : (c u != c v) = false := by simp [huv]
  rw [hne, Bool.false_or, tab_getD, if_pos hu] at h1
  exact reachK_sound n A u hu n v h1

/-- and it accepts every such labeling, given its own closure certificate -/
theorem clustersWithinComponents_complete (n : Nat) (A : Nat → Nat → Rat) (c : Nat → Nat)
    (hcert : ∀ u, u < n → closedUnder n A (reachK n A u n) = true)
    (h : ∀ u v, u < n → v < n → c u = c v → Connected n A u v) :
    clustersWithinComponents n A c = true := by
  unfold clustersWithinComponents
  simp only [Bool.and_eq_true, List.all_eq_true]
  refine ⟨?_, ?_⟩
  · intro u hu
    have hu' := List.mem_range.mp hu
    rw [tab_getD, if_pos hu']
    exact hcert u hu'
  · intro u hu v hv
    have hu' := List.mem_range.mp hu
    have hv' := List.mem_range.mp hv
    by_cases huv : c u = c v
    · have hne : (c u != c v) = false := by simp [huv]
      rw [hne, Bool.false_or, tab_getD, if_pos hu']
      refine reach_complete n A _ (hcert u hu') u v ?_ (h u v hu' hv' huv)
      -- `u` reaches itself at every depth
      have self : ∀ k, (reachK n A u k).getD u false = true := by
        intro k
        induction k with
        | zero =>
          show (tab n fun v => v == u).getD u false = true
          rw [tab_getD, if_pos hu']; exact beq_self_eq_true u
        | succ k ih =>
          show (tab n fun w => (reachK n A u k).getD w false ||
            (List.range n).any fun v => (reachK n A u k).getD v false && linked A v w).getD u false = true
          rw [tab_getD, if_pos hu', ih, Bool.true_or]
      exact self n
    · have hne : (c u != c v) = true := by simp [huv]
      rw [hne, Bool.true_or]

/-! ### the test with a forest certificate -/

theorem Connected.left_lt {n : Nat} {A : Nat → Nat → Rat} {u v : Nat} (h : Connected n A u v) : u < n := by
  induction h with
  | refl h => exact h
  | step _ _ _ ih => exact ih

theorem Connected.trans {n : Nat} {A : Nat → Nat → Rat} {u v w : Nat} (h1 : Connected n A u v)
    (h2 : Connected n A v w) : Connected n A u w := by
  induction h2 with
  | refl _ => exact h1
  | step _ hw hl ih => exact Connected.step ih hw hl

theorem linked_symm (A : Nat → Nat → Rat) (u v : Nat) : linked A u v = linked A v u := by
  unfold linked; rw [Bool.or_comm]

theorem Connected.symm {n : Nat} {A : Nat → Nat → Rat} {u v : Nat} (h : Connected n A u v) : Connected n A v u := by
  induction h with
  | refl h => exact Connected.refl h
  | @step v w hc hw hl ih =>
    have hv : v < n := by
      cases hc with
      | refl h => exact h
      | step _ h _ => exact h
    have h1 : Connected n A w v := Connected.step (Connected.refl hw) hv (by rw [linked_symm]; exact hl)
    exact h1.trans ih

theorem rootOf_connected (n : Nat) (A : Nat → Nat → Rat) (parent : Nat → Nat) (hf : forestOK n A parent = true)
    (k : Nat) : ∀ u, u < n → Connected n A u (rootOf parent k u) := by
  unfold forestOK at hf
  rw [List.all_eq_true] at hf
  induction k with
  | zero => intro u hu; exact Connected.refl hu
  | succ k ih =>
    intro u hu
    have h := hf u (List.mem_range.mpr hu)
    rw [Bool.and_eq_true, decide_eq_true_eq, Bool.or_eq_true] at h
    obtain ⟨hp, hl⟩ := h
    have h1 : Connected n A u (parent u) := by
      rcases hl with hl | hl
      · have : parent u = u := by simpa using hl
        rw [this]; exact Connected.refl hu
      · exact Connected.step (Connected.refl hu) hp hl
    exact h1.trans (ih (parent u) hp)

/-- the test with a certificate accepts only labelings whose clusters lie inside connected components, whatever the
    certificate -/
theorem clustersWithinForest_sound (n : Nat) (A : Nat → Nat → Rat) (c parent croot : Nat → Nat)
    (h : clustersWithinForest n A c parent croot = true) :
    ∀ u v, u < n → v < n → c u = c v → Connected n A u v := by
  intro u v hu hv huv
  unfold clustersWithinForest at h
  rw [Bool.and_eq_true, List.all_eq_true] at h
  obtain ⟨hf, hr⟩ := h
  have h1 := hr u (List.mem_range.mpr hu)
  have h2 := hr v (List.mem_range.mpr hv)
  rw [beq_iff_eq] at h1 h2
  have c1 := rootOf_connected n A parent hf n u hu
  have c2 := rootOf_connected n A parent hf n v hv
  rw [h1, huv, ← h2] at c1
  exact c1.trans c2.symm

end SkNet.Modularity
