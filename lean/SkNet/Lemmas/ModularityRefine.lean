/-
The Leiden refinement kernel (`refineCore`): whatever the arithmetic and the random choices, the refined
partition refines the given clusters — a node only ever joins the refined cluster of a stored neighbour that
carries the node's own label.
-/
import SkNet.Lemmas.ModularityFitComp

namespace SkNet.Modularity

variable {α : Type} [Scalar α]

/-- neighbour loop of the refinement: which refined clusters become candidates -/
theorem rNbr_mem (labels refined : List Nat) (label : Nat) (row : List (Nat × α)) (cw : List α) (s : List Nat) :
    ∀ x, x ∈ (row.foldl (rNbrStep labels refined label) (cw, s)).2 ↔
      x ∈ s ∨ ∃ e ∈ row, labels.getD e.1 0 = label ∧ refined.getD e.1 0 = x := by
  induction row generalizing cw s with
  | nil => simp
  | cons e r ih =>
    intro x
    simp only [List.foldl_cons]
    by_cases h : labels.getD e.1 0 = label
    · have hb : (labels.getD e.1 0 == label) = true := beq_iff_eq.mpr h
      have hstep : rNbrStep labels refined label (cw, s) e
          = (cw.set (refined.getD e.1 0) (cw.getD (refined.getD e.1 0) Scalar.zero + e.2),
             setInsert (refined.getD e.1 0) s) := by
        simp only [rNbrStep]; rw [if_pos hb]
      rw [hstep, ih, mem_setInsert]
      constructor
      · rintro ((rfl | hs) | ⟨e', he', h1, h2⟩)
        · exact Or.inr ⟨e, List.mem_cons_self, h, rfl⟩
        · exact Or.inl hs
        · exact Or.inr ⟨e', List.mem_cons_of_mem _ he', h1, h2⟩
      · rintro (hs | ⟨e', he', h1, h2⟩)
        · exact Or.inl (Or.inr hs)
        · rcases List.mem_cons.mp he' with rfl | he'
          · exact Or.inl (Or.inl h2.symm)
          · exact Or.inr ⟨e', he', h1, h2⟩
    · have hb : ¬ (labels.getD e.1 0 == label) = true := fun hh => h (beq_iff_eq.mp hh)
      have hstep : rNbrStep labels refined label (cw, s) e = (cw, s) := by
        simp only [rNbrStep]; rw [if_neg hb]
      rw [hstep, ih]
      constructor
      · rintro (hs | ⟨e', he', h1, h2⟩)
        · exact Or.inl hs
        · exact Or.inr ⟨e', List.mem_cons_of_mem _ he', h1, h2⟩
      · rintro (hs | ⟨e', he', h1, h2⟩)
        · exact Or.inl hs
        · rcases List.mem_cons.mp he' with rfl | he'
          · exact absurd h1 h
          · exact Or.inr ⟨e', he', h1, h2⟩

/-- the clusters with a positive gain are among the candidates -/
theorem rTarget_mem (res outW inW delta : α) (inCl outCl : List α) (cands : List Nat) (s : List Nat) (cw : List α) :
    ∀ x, x ∈ (cands.foldl (rTargetStep res outW inW delta inCl outCl) (s, cw)).1 → x ∈ s ∨ x ∈ cands := by
  induction cands generalizing s cw with
  | nil => intro x hx; exact Or.inl hx
  | cons t r ih =>
    intro x hx
    simp only [List.foldl_cons] at hx
    unfold rTargetStep at hx
    simp only at hx
    split at hx
    · rcases ih _ _ x hx with h | h
      · rcases (mem_setInsert t x s).mp h with rfl | h
        · exact Or.inr List.mem_cons_self
        · exact Or.inl h
      · exact Or.inr (List.mem_cons_of_mem _ h)
    · rcases ih _ _ x hx with h | h
      · exact Or.inl h
      · exact Or.inr (List.mem_cons_of_mem _ h)

theorem pick_mem (r : Nat) (s : List Nat) (hs : s ≠ []) : pick r s ∈ s := by
  unfold pick
  have hpos : 0 < s.length := List.length_pos_iff.mpr hs
  simp only
  split
  · have hlt : s.length - 1 < s.length := by omega
    rw [List.getD_eq_getElem?_getD, List.getElem?_eq_getElem hlt]
    exact List.getElem_mem hlt
  · rename_i hk
    have hlt : r % s.length - 1 < s.length := by
      have := Nat.mod_lt r hpos
      omega
    rw [List.getD_eq_getElem?_getD, List.getElem?_eq_getElem hlt]
    exact List.getElem_mem hlt

/-- one node of the refinement: it stays, or joins the refined cluster of a stored neighbour with its own label -/
theorem rNodeStep_labels (g : Graph α) (res : α) (labels : List Nat) (st : RSt α) (flag : Bool) (rands : List Nat)
    (i : Nat) :
    (rNodeStep g res labels (st, flag, rands) i).1.refined = st.refined ∨
    ∃ e ∈ g.row i, labels.getD e.1 0 = labels.getD i 0 ∧
      (rNodeStep g res labels (st, flag, rands) i).1.refined = st.refined.set i (st.refined.getD e.1 0) := by
  generalize hr : rNodeStep g res labels (st, flag, rands) i = r
  simp only [rNodeStep] at hr
  split at hr
  · subst hr; exact Or.inl rfl
  · split at hr
    · subst hr; exact Or.inl rfl
    · rename_i hne
      subst hr
      right
      have hne' : (List.foldl
          (rTargetStep res (g.outW i) (g.inW i)
            (leaveDelta res (g.outW i) (g.inW i) (g.selfLoop i)
              ((List.foldl (rNbrStep labels st.refined (labels.getD i 0)) (st.cw, []) (g.row i)).1.getD
                (st.refined.getD i 0) Scalar.zero)
              (st.inCl.getD (st.refined.getD i 0) Scalar.zero) (st.outCl.getD (st.refined.getD i 0) Scalar.zero))
            st.inCl st.outCl)
          ([], (List.foldl (rNbrStep labels st.refined (labels.getD i 0)) (st.cw, []) (g.row i)).1)
          (setErase (st.refined.getD i 0)
            (List.foldl (rNbrStep labels st.refined (labels.getD i 0)) (st.cw, []) (g.row i)).2)).1 ≠ [] := by
        intro h; apply hne; rw [h]; rfl
      have hmem := pick_mem (rands.headD 0) _ hne'
      rcases rTarget_mem _ _ _ _ _ _ _ _ _ _ hmem with h | h
      · exact absurd h List.not_mem_nil
      · have h2 := ((mem_setErase _ _ _).mp h).1
        rcases (rNbr_mem labels st.refined (labels.getD i 0) (g.row i) st.cw [] _).mp h2 with h3 | ⟨e, he, h4, h5⟩
        · exact absurd h3 List.not_mem_nil
        · exact ⟨e, he, h4, by rw [h5]⟩

/-- the refined partition refines the clusters -/
structure RefInv (n : Nat) (labels refined : List Nat) : Prop where
  len : refined.length = n
  refines : ∀ u v, u < n → v < n → labOf refined u = labOf refined v → labOf labels u = labOf labels v

theorem refInv_set (n : Nat) (labels refined : List Nat) (h : RefInv n labels refined) (i j : Nat) (hi : i < n)
    (hj : j < n) (hl : labOf labels j = labOf labels i) : RefInv n labels (refined.set i (labOf refined j)) := by
  have hi' : i < refined.length := by rw [h.len]; exact hi
  refine ⟨by simp [h.len], ?_⟩
  intro u v hu hv huv
  rw [labOf_set _ _ _ hi'] at huv
  simp only [Function.update_apply] at huv
  by_cases h1 : u = i
  · by_cases h2 : v = i
    · rw [h1, h2]
    · simp only [h1, h2, if_true, if_false] at huv
      rw [h1, ← hl]
      exact h.refines j v hj hv huv
  · by_cases h2 : v = i
    · simp only [h1, h2, if_true, if_false] at huv
      rw [h2, ← hl]
      exact h.refines u j hu hj huv
    · simp only [h1, h2, if_false] at huv
      exact h.refines u v hu hv huv

section rat

theorem rFold_spec (g : Graph Rat) (hcols : ∀ i, i < g.n → ∀ e ∈ g.row i, e.1 < g.n) (res : Rat)
    (labels : List Nat) (idx : List Nat) (hidx : ∀ i ∈ idx, i < g.n) (st : RSt Rat) (flag : Bool)
    (rands : List Nat) (hinv : RefInv g.n labels st.refined) :
    RefInv g.n labels (idx.foldl (rNodeStep g res labels) (st, flag, rands)).1.refined ∧
    JoinSteps g st.refined (idx.foldl (rNodeStep g res labels) (st, flag, rands)).1.refined := by
  induction idx generalizing st flag rands with
  | nil => exact ⟨hinv, JoinSteps.refl _⟩
  | cons i r ih =>
    have hi : i < g.n := hidx i List.mem_cons_self
    simp only [List.foldl_cons]
    have hstep := rNodeStep_labels g res labels st flag rands i
    rcases hp : rNodeStep g res labels (st, flag, rands) i with ⟨st', flag', rands'⟩
    rw [hp] at hstep
    simp only at hstep
    have hinv' : RefInv g.n labels st'.refined ∧ JoinSteps g st.refined st'.refined := by
      rcases hstep with h | ⟨e, he, h1, h2⟩
      · rw [h]; exact ⟨hinv, JoinSteps.refl _⟩
      · rw [h2]
        exact ⟨refInv_set g.n labels st.refined hinv i e.1 hi (hcols i hi e he) h1,
          JoinSteps.step i e (JoinSteps.refl _) hi he⟩
    obtain ⟨k1, k2⟩ := ih (fun j hj => hidx j (List.mem_cons_of_mem _ hj)) st' flag' rands' hinv'.1
    exact ⟨k1, hinv'.2.trans k2⟩

theorem refineLoop_spec (g : Graph Rat) (hcols : ∀ i, i < g.n → ∀ e ∈ g.row i, e.1 < g.n) (res : Rat)
    (labels : List Nat) (fuel : Nat) (st : RSt Rat) (rands : List Nat) (hinv : RefInv g.n labels st.refined)
    (st' : RSt Rat) (rest : List Nat) (h : refineLoop g res labels fuel st rands = some (st', rest)) :
    RefInv g.n labels st'.refined ∧ JoinSteps g st.refined st'.refined := by
  induction fuel generalizing st rands with
  | zero => simp [refineLoop] at h
  | succ f ih =>
    obtain ⟨p1, p2⟩ := rFold_spec g hcols res labels (List.range g.n) (fun i hi => List.mem_range.mp hi)
      st false rands hinv
    simp only [refineLoop] at h
    split at h
    · obtain ⟨q1, q2⟩ := ih _ _ p1 h
      exact ⟨q1, p2.trans q2⟩
    · simp only [Option.some.injEq, Prod.mk.injEq] at h
      obtain ⟨rfl, -⟩ := h
      exact ⟨p1, p2⟩

theorem refineCapped_spec (g : Graph Rat) (hcols : ∀ i, i < g.n → ∀ e ∈ g.row i, e.1 < g.n) (res : Rat)
    (labels : List Nat) (passes : Nat) (st : RSt Rat) (rands : List Nat) (hinv : RefInv g.n labels st.refined) :
    RefInv g.n labels (refineCapped g res labels passes st rands).1.refined ∧
    JoinSteps g st.refined (refineCapped g res labels passes st rands).1.refined := by
  induction passes generalizing st rands with
  | zero => exact ⟨hinv, JoinSteps.refl _⟩
  | succ f ih =>
    obtain ⟨p1, p2⟩ := rFold_spec g hcols res labels (List.range g.n) (fun i hi => List.mem_range.mp hi)
      st false rands hinv
    simp only [refineCapped]
    split
    · obtain ⟨q1, q2⟩ := ih _ _ p1
      exact ⟨q1, p2.trans q2⟩
    · exact ⟨p1, p2⟩

/-- **optimize_refine_core**, for every oracle and whether or not the bound on the passes is reached: the result
    refines `labels`, and is reached by joining the refined clusters of stored neighbours. -/
theorem refineCore_spec (g : Graph Rat) (hcols : ∀ i, i < g.n → ∀ e ∈ g.row i, e.1 < g.n) (res : Rat)
    (labels : List Nat) (fuel : Nat) (st : RSt Rat) (rands : List Nat) (hinv : RefInv g.n labels st.refined)
    (refined' rest : List Nat) (h : refineCore g res labels fuel st rands = some (refined', rest)) :
    RefInv g.n labels refined' ∧ JoinSteps g st.refined refined' := by
  unfold refineCore at h
  simp only [Option.some.injEq, Prod.mk.injEq] at h
  obtain ⟨rfl, -⟩ := h
  exact refineCapped_spec g hcols res labels refinePasses st rands hinv

end rat

end SkNet.Modularity
