/- Reachability lemmas and the counting lemma behind "as many components as nodes". -/
import SkNet.Model.Connectivity
import SkNet.Spec.Connectivity
import SkNet.Lemmas.Connectivity

namespace SkNet.Connectivity
open SkNet

theorem Reach.trans {adj : Nat → List Nat} {u v w : Nat} (h₁ : Reach adj u v) (h₂ : Reach adj v w) : Reach adj u w := by
  induction h₂ with
  | refl => exact h₁
  | tail _ he ih => exact Reach.tail ih he

theorem Reach.edge {adj : Nat → List Nat} {u v : Nat} (h : v ∈ adj u) : Reach adj u v :=
  Reach.tail (Reach.refl u) h

/-- a non-trivial walk starts with an edge -/
theorem Reach.head_cases {adj : Nat → List Nat} {u v : Nat} (h : Reach adj u v) :
    u = v ∨ ∃ x, x ∈ adj u ∧ Reach adj x v := by
  induction h with
  | refl => left; rfl
  | tail _ he ih =>
    rcases ih with rfl | ⟨x, hx, hr⟩
    · right; exact ⟨_, he, Reach.refl _⟩
    · right; exact ⟨x, hx, Reach.tail hr he⟩

/-- walks stay inside the nodes -/
theorem Reach.lt {n : Nat} {adj : Nat → List Nat} (hwf : ∀ u, u < n → ∀ v ∈ adj u, v < n) {u v : Nat}
    (h : Reach adj u v) (hu : u < n) : v < n := by
  induction h with
  | refl => exact hu
  | tail _ he ih => exact hwf _ ih _ he

/-- a duplicate-free list whose members all occur in `l` is not longer than `l`;
    when it is as long, `l` has no duplicate either -/
theorem nodup_sub_length {u l : List Nat} (hu : u.Nodup) (hsub : ∀ a ∈ u, a ∈ l) :
    u.length ≤ l.length ∧ (u.length = l.length → l.Nodup) := by
  induction l generalizing u with
  | nil =>
    have : u = [] := by
      cases u with
      | nil => rfl
      | cons a _ => exact absurd (hsub a List.mem_cons_self) (by simp)
    subst this
    exact ⟨Nat.le_refl _, fun _ => List.nodup_nil⟩
  | cons a t ih =>
    have hu' : (u.erase a).Nodup := hu.erase a
    have hsub' : ∀ x ∈ u.erase a, x ∈ t := by
      intro x hx
      have hxu : x ∈ u := List.mem_of_mem_erase hx
      have hxa : x ≠ a := by
        intro h; subst h
        exact (List.Nodup.mem_erase_iff hu).mp hx |>.1 rfl
      rcases List.mem_cons.mp (hsub x hxu) with h | h
      · exact absurd h hxa
      · exact h
    obtain ⟨hle, heq⟩ := ih hu' hsub'
    by_cases hau : a ∈ u
    · have hlen : (u.erase a).length = u.length - 1 := List.length_erase_of_mem hau
      have hpos : 0 < u.length := List.length_pos_of_mem hau
      refine ⟨by simp only [List.length_cons]; omega, fun h => ?_⟩
      simp only [List.length_cons] at h
      have htn : t.Nodup := heq (by omega)
      refine List.nodup_cons.mpr ⟨?_, htn⟩
      intro hat
      -- then all of `u` lies in `t`
      have hsub2 : ∀ x ∈ u, x ∈ t := by
        intro x hx
        rcases List.mem_cons.mp (hsub x hx) with h | h
        · rw [h]; exact hat
        · exact h
      have := (ih hu hsub2).1
      omega
    · have hlen : u.erase a = u := List.erase_of_not_mem hau
      rw [hlen] at hle
      refine ⟨by simp only [List.length_cons]; omega, fun h => ?_⟩
      simp only [List.length_cons] at h
      omega

/-- `n` distinct labels on `n` nodes: no two nodes share a label -/
theorem npUnique_length_eq_iff_nodup (l : List Nat) : (npUnique l).length = l.length ↔ l.Nodup := by
  constructor
  · exact (nodup_sub_length (npUnique_nodup l) (fun a ha => mem_npUnique.mp ha)).2
  · intro h
    exact ((List.perm_ext_iff_of_nodup (npUnique_nodup l) h).mpr (fun a => mem_npUnique)).length_eq

theorem nodup_iff_getD_inj (l : List Nat) :
    l.Nodup ↔ ∀ u v, u < l.length → v < l.length → l.getD u 0 = l.getD v 0 → u = v := by
  constructor
  · intro h u v hu hv he
    simp only [List.getD_eq_getElem?_getD, List.getElem?_eq_getElem hu, List.getElem?_eq_getElem hv,
      Option.getD_some] at he
    exact (List.getElem_inj h).mp he
  · intro h
    rw [List.nodup_iff_pairwise_ne, List.pairwise_iff_getElem]
    intro i j hi hj hij he
    have := h i j hi hj (by simp [List.getD_eq_getElem?_getD, hi, hj, he])
    omega

end SkNet.Connectivity

namespace SkNet.Connectivity
open SkNet

/-- weights are not negative -/
def Mat.NonNeg (m : Mat) : Prop := ∀ i j, 0 ≤ m.val i j

/-- no two distinct nodes are mutually reachable and no node has a self-loop, iff there is no cycle -/
theorem not_hasCycle_iff {n : Nat} {adj : Nat → List Nat} (hwf : ∀ u, u < n → ∀ v ∈ adj u, v < n) :
    ¬ HasCycle n adj ↔
      (∀ u, u < n → u ∉ adj u) ∧ (∀ u v, u < n → v < n → Reach adj u v → Reach adj v u → u = v) := by
  constructor
  · intro h
    refine ⟨fun u hu hmem => h ⟨u, u, hu, hmem, Reach.refl u⟩, fun u v hu hv huv hvu => ?_⟩
    rcases Reach.head_cases huv with heq | ⟨x, hx, hxv⟩
    · exact heq
    · exact absurd ⟨u, x, hu, hx, hxv.trans hvu⟩ h
  · intro ⟨hloop, hinj⟩ ⟨u, v, hu, hv, hr⟩
    have hvn : v < n := hwf u hu v hv
    have := hinj u v hu hvn (Reach.edge hv) hr
    subst this
    exact hloop u hu hv

end SkNet.Connectivity
