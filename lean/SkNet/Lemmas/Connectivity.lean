/- Lemmas about the numpy helpers and the wrapping logic of Model/Connectivity.lean. -/
import SkNet.Model.Connectivity
import SkNet.Spec.Connectivity

namespace SkNet.Connectivity
open SkNet

/-! ### maxOf, argmax -/

theorem le_maxOf {a : Nat} {l : List Nat} (h : a ∈ l) : a ≤ maxOf l := by
  induction l with
  | nil => cases h
  | cons b l ih =>
    simp only [maxOf]
    rcases List.mem_cons.mp h with rfl | h
    · exact Nat.le_max_left _ _
    · exact Nat.le_trans (ih h) (Nat.le_max_right _ _)

theorem maxOf_mem {l : List Nat} (h : l ≠ []) : maxOf l ∈ l := by
  induction l with
  | nil => exact absurd rfl h
  | cons b l ih =>
    simp only [maxOf]
    by_cases hl : l = []
    · subst hl; simp [maxOf]
    · have := ih hl
      rcases Nat.le_total b (maxOf l) with hle | hle
      · rw [Nat.max_eq_right hle]; exact List.mem_cons_of_mem _ this
      · rw [Nat.max_eq_left hle]; exact List.mem_cons_self

theorem argmax_lt {l : List Nat} (h : l ≠ []) : argmax l < l.length :=
  List.idxOf_lt_length_iff.mpr (maxOf_mem h)

theorem getD_argmax {l : List Nat} (h : l ≠ []) : l.getD (argmax l) 0 = maxOf l := by
  have hlt := argmax_lt h
  rw [List.getD_eq_getElem?_getD, List.getElem?_eq_getElem hlt]
  exact List.getElem_idxOf hlt

/-! ### npUnique -/

theorem mem_npUnique {v : Nat} {labels : List Nat} : v ∈ npUnique labels ↔ v ∈ labels := by
  unfold npUnique
  rw [List.mem_filter, List.mem_range]
  constructor
  · intro ⟨_, h⟩; simpa using h
  · intro h; exact ⟨Nat.lt_succ_of_le (le_maxOf h), by simpa using h⟩

theorem npUnique_sorted (labels : List Nat) : (npUnique labels).Pairwise (· < ·) :=
  List.Pairwise.filter _ List.pairwise_lt_range

theorem npUnique_nodup (labels : List Nat) : (npUnique labels).Nodup :=
  (npUnique_sorted labels).imp (fun h => Nat.ne_of_lt h)

theorem npUnique_ne_nil {labels : List Nat} (h : labels ≠ []) : npUnique labels ≠ [] := by
  obtain ⟨a, l, rfl⟩ := List.exists_cons_of_ne_nil h
  intro hn
  have : a ∈ npUnique (a :: l) := mem_npUnique.mpr List.mem_cons_self
  rw [hn] at this; cases this

/-! ### argwhereEq -/

theorem mem_argwhereEq {labels : List Nat} {v i : Nat} :
    i ∈ argwhereEq labels v ↔ i < labels.length ∧ labels.getD i 0 = v := by
  unfold argwhereEq
  rw [List.mem_filter, List.mem_range]
  simp

theorem argwhereEq_sorted (labels : List Nat) (v : Nat) : (argwhereEq labels v).Pairwise (· < ·) :=
  List.Pairwise.filter _ List.pairwise_lt_range

/-! ### subMatrix -/

theorem subMatrix_length (m : Mat) (r c : List Nat) : (subMatrix m r c).length = r.length := by
  simp [subMatrix]

theorem subMatrix_getD (m : Mat) (r c : List Nat) (a b : Nat) (ha : a < r.length) (hb : b < c.length) :
    ((subMatrix m r c).getD a []).getD b 0 = m.val (r.getD a 0) (c.getD b 0) := by
  simp [subMatrix, List.getD_eq_getElem?_getD, ha, hb]

/-- the largest label: one whose count is maximal -/
theorem largest_count_max {labels : List Nat} (h : labels ≠ []) :
    let uniq := npUnique labels
    let counts := uniq.map fun v => labels.count v
    let L := uniq.getD (argmax counts) 0
    L ∈ labels ∧ ∀ l, labels.count l ≤ labels.count L := by
  intro uniq counts L
  have hu : uniq ≠ [] := npUnique_ne_nil h
  have hc : counts ≠ [] := by simpa [counts] using hu
  have hlt : argmax counts < uniq.length := by simpa [counts] using argmax_lt hc
  have hL : L = uniq[argmax counts] := by
    simp [L, List.getD_eq_getElem?_getD, List.getElem?_eq_getElem hlt]
  have hLmem : L ∈ uniq := by rw [hL]; exact List.getElem_mem hlt
  refine ⟨mem_npUnique.mp hLmem, fun l => ?_⟩
  have hmax : counts.getD (argmax counts) 0 = maxOf counts := getD_argmax hc
  have hcount : labels.count L = maxOf counts := by
    rw [← hmax, hL]
    simp [counts, List.getD_eq_getElem?_getD, hlt]
  by_cases hl : l ∈ labels
  · rw [hcount]
    apply le_maxOf
    exact List.mem_map.mpr ⟨l, mem_npUnique.mpr hl, rfl⟩
  · rw [List.count_eq_zero.mpr hl]; exact Nat.zero_le _

end SkNet.Connectivity

namespace SkNet.Connectivity
open SkNet

theorem block_isSquare (m : Mat) : m.block.isSquare = true := by simp [Mat.block, Mat.isSquare]

theorem checkFormat_ok {m : Mat} {u : Unit} (h : checkFormat m = .ok u) : m.nnz ≠ 0 := by
  unfold checkFormat at h
  split at h
  · cases h
  · rename_i hn; simpa using hn

theorem getAdjacency_ok {m : Mat} {fb : Bool} {p : Mat × Bool} (h : getAdjacency m fb = .ok p) :
    m.nnz ≠ 0 ∧ p = (if (fb || !m.isSquare) = true then (m.block, true) else (m, false)) := by
  unfold getAdjacency at h
  cases hcf : checkFormat m with
  | error e => simp [hcf] at h
  | ok u =>
    refine ⟨checkFormat_ok hcf, ?_⟩
    simp only [hcf] at h
    split at h <;> rename_i hb <;> cases h <;> simp [hb]

/-- what `get_connected_components(adjacency)` answers on a square adjacency -/
theorem getConnectedComponents_square (cc : CC) (g : Mat) (strong : Bool) (hsq : g.isSquare = true)
    (labels : List Nat) (h : getConnectedComponents cc g strong false = .ok labels) :
    labels = cc g strong ∧ g.nnz ≠ 0 := by
  unfold getConnectedComponents at h
  cases hcf : checkFormat g with
  | error e => simp [hcf] at h
  | ok u =>
    simp only [hcf] at h
    cases hga : getAdjacency g false with
    | error e => simp [hga] at h
    | ok p =>
      have := (getAdjacency_ok hga).2
      simp [hsq] at this
      subst this
      simp only [hga] at h
      cases h
      exact ⟨rfl, checkFormat_ok hcf⟩

/-- shape of the answer of `get_largest_connected_component` in terms of the labelling -/
theorem getLargest_spec (cc : CC) (m : Mat) (strong fb : Bool) (r : Largest)
    (h : getLargestConnectedComponent cc m strong fb = .ok r) :
    let bip := fb || !m.isSquare
    let g := if bip then m.block else m
    let labels := cc g strong
    let L := (npUnique labels).getD (argmax ((npUnique labels).map fun v => labels.count v)) 0
    m.nnz ≠ 0 ∧
    (bip = false → r.index = argwhereEq labels L ∧ r.matrix = subMatrix m r.index r.index ∧ r.nIndexRow = r.index.length) ∧
    (bip = true → r.index = argwhereEq (labels.take m.nRow) L ++ argwhereEq (labels.drop m.nRow) L ∧
      r.nIndexRow = (argwhereEq (labels.take m.nRow) L).length ∧
      r.matrix = subMatrix m (argwhereEq (labels.take m.nRow) L) (argwhereEq (labels.drop m.nRow) L)) := by
  intro bip g labels L
  unfold getLargestConnectedComponent at h
  cases hga : getAdjacency m fb with
  | error e => simp [hga] at h
  | ok p =>
    obtain ⟨adjacency, bipartite⟩ := p
    simp only [hga] at h
    obtain ⟨hnnz, hp⟩ := getAdjacency_ok hga
    have hadj : adjacency = g ∧ bipartite = bip := by
      by_cases hb : bip = true
      · have hb2 : (fb || !m.isSquare) = true := hb
        simp only [hb2, ↓reduceIte] at hp
        cases hp
        simp [g, hb]
      · have hb' : bip = false := by simpa using hb
        have hb2 : (fb || !m.isSquare) = false := hb'
        simp only [hb2, Bool.false_eq_true, ↓reduceIte] at hp
        cases hp
        simp [g, hb']
    obtain ⟨rfl, rfl⟩ := hadj
    have hgsq : g.isSquare = true := by
      by_cases hb : bip = true
      · simp [g, hb, block_isSquare]
      · have hb' : bip = false := by simpa using hb
        have : m.isSquare = true := by
          simp only [bip, Bool.or_eq_false_iff] at hb'
          simpa using hb'.2
        simp [g, hb', this]
    cases hcc : getConnectedComponents cc g strong false with
    | error e => simp [hcc] at h
    | ok lab =>
      have := (getConnectedComponents_square cc g strong hgsq lab hcc).1
      subst this
      simp only [hcc] at h
      refine ⟨hnnz, ?_, ?_⟩
      · intro hb
        simp only [hb, Bool.false_eq_true, ↓reduceIte] at h
        cases h
        exact ⟨rfl, rfl, rfl⟩
      · intro hb
        simp only [hb, ↓reduceIte] at h
        cases h
        exact ⟨rfl, rfl, rfl⟩

end SkNet.Connectivity

namespace SkNet.Connectivity
open SkNet

theorem range_map_getD (l : List Nat) : (List.range l.length).map (fun i => l.getD i 0) = l := by
  apply List.ext_getElem
  · simp
  · intro i h1 h2
    simp [List.getD_eq_getElem?_getD, h2]

/-- `np.argwhere(labels == v)` has as many entries as `v` occurs -/
theorem argwhereEq_length (labels : List Nat) (v : Nat) : (argwhereEq labels v).length = labels.count v := by
  unfold argwhereEq
  rw [← List.countP_eq_length_filter]
  conv => rhs; rw [← range_map_getD labels]
  rw [List.count, List.countP_map]
  rfl

theorem npUnique_length_eq_one {l : List Nat} :
    (npUnique l).length = 1 ↔ l ≠ [] ∧ ∀ a ∈ l, ∀ b ∈ l, a = b := by
  constructor
  · intro h
    match hu : npUnique l, h with
    | [x], _ =>
      have hx : ∀ a ∈ l, a = x := fun a ha => by
        have := mem_npUnique.mpr ha
        rw [hu] at this
        simpa using this
      refine ⟨?_, fun a ha b hb => (hx a ha).trans (hx b hb).symm⟩
      intro hl
      subst hl
      have : x ∈ npUnique [] := by rw [hu]; simp
      simp [npUnique] at this
  · intro ⟨hne, hall⟩
    obtain ⟨a, t, rfl⟩ := List.exists_cons_of_ne_nil hne
    have hnd := npUnique_nodup (a :: t)
    have hmem : ∀ x ∈ npUnique (a :: t), x = a := fun x hx =>
      hall x (mem_npUnique.mp hx) a List.mem_cons_self
    have ha : a ∈ npUnique (a :: t) := mem_npUnique.mpr List.mem_cons_self
    match hu : npUnique (a :: t) with
    | [] => rw [hu] at ha; cases ha
    | [x] => rfl
    | x :: y :: r =>
      rw [hu] at hnd hmem
      have hx := hmem x (by simp)
      have hy := hmem y (by simp)
      have : x ≠ y := by
        have := (List.nodup_cons.mp hnd).1
        intro hxy; apply this; rw [hxy]; simp
      exact absurd (hx.trans hy.symm) this

end SkNet.Connectivity

namespace SkNet.Connectivity
open SkNet

theorem subMatrix_row_length (m : Mat) (r c : List Nat) : ∀ row ∈ subMatrix m r c, row.length = c.length := by
  intro row hrow
  simp only [subMatrix, List.map_map, List.mem_map] at hrow
  obtain ⟨i, _, rfl⟩ := hrow
  simp

/-- the labels of the rows and of the columns of a block labelling add up -/
theorem count_take_drop (labels : List Nat) (k L : Nat) :
    (labels.take k).count L + (labels.drop k).count L = labels.count L := by
  rw [← List.count_append, List.take_append_drop]

end SkNet.Connectivity
