/-
C11 helper lemmas about the specification: the pruned recursive count equals the brute-force count, and the
recursive count unfolds over a strictly increasing candidate list into sums over later neighbours.
-/
import SkNet.Spec.Topology
import SkNet.Lemmas.TopologyCsr

set_option linter.unusedSimpArgs false

namespace SkNet.Topology

/-! ### `choose` and `cliqueCountIn` -/

theorem choose_zero (l : List Nat) : choose 0 l = [[]] := by
  cases l <;> rfl

theorem choose_filter (p : Nat → Bool) (k : Nat) (l : List Nat) :
    (choose k l).filter (fun s => s.all p) = choose k (l.filter p) := by
  induction l generalizing k with
  | nil => cases k <;> simp [choose]
  | cons x xs ih =>
    cases k with
    | zero => simp [choose_zero]
    | succ k =>
      rw [choose, List.filter_append, List.filter_map, ih (k+1)]
      by_cases hx : p x = true
      · rw [List.filter_cons, if_pos hx, choose]
        congr 1
        rw [← ih k]
        congr 1
        apply List.filter_congr
        intro s _
        simp [hx]
      · rw [List.filter_cons, if_neg hx]
        have : (choose k xs).filter ((fun s => s.all p) ∘ fun x_1 => x :: x_1) = [] := by
          rw [List.filter_eq_nil_iff]
          intro s _
          simp [hx]
        rw [this]; simp

theorem cliqueCountOn_zero (adj : Nat → Nat → Bool) (l : List Nat) : cliqueCountOn adj 0 l = 1 := by
  simp [cliqueCountOn, choose_zero, isClique, List.filter_cons]

theorem cliqueCountOn_nil (adj : Nat → Nat → Bool) (k : Nat) : cliqueCountOn adj (k+1) [] = 0 := by
  simp [cliqueCountOn, choose]

theorem cliqueCountOn_cons (adj : Nat → Nat → Bool) (k : Nat) (x : Nat) (xs : List Nat) :
    cliqueCountOn adj (k+1) (x :: xs) =
      cliqueCountOn adj k (xs.filter (adj x)) + cliqueCountOn adj (k+1) xs := by
  unfold cliqueCountOn
  rw [choose, List.filter_append, List.length_append, List.filter_map, List.length_map]
  congr 1
  rw [← choose_filter, List.filter_filter]
  congr 1
  apply List.filter_congr
  intro s _
  simp [isClique, Bool.and_comm]

/-- the pruned recursive count is the brute-force count -/
theorem cliqueCountIn_eq (adj : Nat → Nat → Bool) (k : Nat) (l : List Nat) :
    cliqueCountIn adj k l = cliqueCountOn adj k l := by
  induction k generalizing l with
  | zero => rw [cliqueCountOn_zero]; rfl
  | succ k ih =>
    induction l with
    | nil => rw [cliqueCountOn_nil]; rfl
    | cons x xs ihl =>
      rw [cliqueCountOn_cons, ← ihl, ← ih]
      rfl

/-! ### `sumTails` over a strictly increasing list -/

theorem sumTails_sorted (f : Nat → List Nat → Nat) (l : List Nat) (h : l.Pairwise (· < ·)) :
    sumTails f l = (l.map fun x => f x (l.filter (x < ·))).sum := by
  induction l with
  | nil => rfl
  | cons a as ih =>
    rw [List.pairwise_cons] at h
    rw [sumTails, ih h.2, List.map_cons, List.sum_cons]
    have h1 : (a :: as).filter (fun y => decide (a < y)) = as := by
      rw [List.filter_cons]
      simp only [Nat.lt_irrefl, decide_false, Bool.false_eq_true, if_false]
      rw [List.filter_eq_self]
      intro y hy
      simpa using h.1 y hy
    rw [h1]
    congr 1
    congr 1
    apply List.map_congr_left
    intro x hx
    have : ¬ x < a := by have := h.1 x hx; omega
    rw [List.filter_cons]
    simp [this]

theorem cliqueCountIn_one (adj : Nat → Nat → Bool) (l : List Nat) : cliqueCountIn adj 1 l = l.length := by
  induction l with
  | nil => rfl
  | cons x xs ih =>
    have : cliqueCountIn adj 1 (x :: xs) = 1 + cliqueCountIn adj 1 xs := rfl
    rw [this, ih]; simp; omega

theorem pairwise_filter_range (n : Nat) (p : Nat → Bool) : ((List.range n).filter p).Pairwise (· < ·) :=
  List.Pairwise.filter _ List.pairwise_lt_range

/-- the recursive count, one level, on a strictly increasing candidate list -/
theorem cliqueCountIn_succ_sorted (adj : Nat → Nat → Bool) (k : Nat) (l : List Nat) (h : l.Pairwise (· < ·)) :
    cliqueCountIn adj (k+1) l =
      (l.map fun x => cliqueCountIn adj k (l.filter fun y => adj x y && decide (x < y))).sum := by
  have : cliqueCountIn adj (k+1) l = sumTails (fun x xs => cliqueCountIn adj k (xs.filter (adj x))) l := rfl
  rw [this, sumTails_sorted _ _ h]
  congr 1
  apply List.map_congr_left
  intro x _
  rw [List.filter_filter]

end SkNet.Topology
