/-
Helper lemmas for C14: harmonic functions (fixed points of the Dirichlet round), uniqueness by the maximum
principle along paths to the boundary, non-expansiveness of one round.
-/
import SkNet.Lemmas.HeatValues
import SkNet.Spec.Heat

namespace SkNet.Heat
open SkNet.HeatSpec

attribute [-simp] List.getD_eq_getElem?_getD

theorem total_eq_sumTo (n : Nat) (f : Nat → Rat) : total n f = sumTo n f := by
  induction n with
  | zero => rfl
  | succ n ih => simp only [total, sumTo, ih]

/-! ### reachability -/

theorem reachesSeed_lt {n : Nat} {w : Nat → Nat → Rat} {seed : Nat → Bool} {t i : Nat}
    (h : ReachesSeed n w seed t i) : i < n := by
  cases h <;> assumption

theorem reachesSeed_mono {n : Nat} {w : Nat → Nat → Rat} {seed : Nat → Bool} {t i : Nat}
    (h : ReachesSeed n w seed t i) : ∀ {t'}, t ≤ t' → ReachesSeed n w seed t' i := by
  induction h with
  | here hi hs => intro _ _; exact .here hi hs
  | @step i j t hi hw _ ih =>
    intro t' ht
    obtain ⟨s, rfl⟩ : ∃ s, t' = s + 1 := ⟨t' - 1, by omega⟩
    exact .step hi hw (ih (by omega))

theorem path_reachesSeed {n : Nat} {w : Nat → Nat → Rat} {seed : Nat → Bool} {i j : Nat}
    (h : Path n w i j) (hs : seed j = true) : ∃ t, ReachesSeed n w seed t i := by
  induction h with
  | refl hi => exact ⟨0, .here hi hs⟩
  | head hi hw _ ih =>
    obtain ⟨t, ht⟩ := ih hs
    exact ⟨t + 1, .step hi hw ht⟩

/-- on a connected graph with a non-empty boundary every node reaches a seed -/
theorem connected_reachesSeed {n : Nat} {w : Nat → Nat → Rat} {seed : Nat → Bool}
    (hc : Connected n w) {b : Nat} (hb : b < n) (hs : seed b = true) :
    ∀ i, i < n → ∃ t, ReachesSeed n w seed t i :=
  fun i hi => path_reachesSeed (hc i b hi hb) hs

/-! ### harmonic functions in normalised form -/

/-- a non-seed node with an outgoing edge: harmonic means "equal to the `normalize`d mean of the neighbours" -/
theorem harmonic_normalized {n : Nat} {A : Nat → Nat → Rat} {i : Nat} {h : Nat → Rat}
    (hA : ∀ j, j < n → 0 ≤ A i j) (hN : rowNorm n A i ≠ 0) :
    (total n fun j => A i j) * h i = total n (fun j => A i j * h j) ↔
      h i = sumTo n fun j => normalize n A i j * h j := by
  rw [total_eq_sumTo, total_eq_sumTo, ← rowNorm_of_nonneg hA]
  have hs : sumTo n (fun j => normalize n A i j * h j) = pinv (rowNorm n A i) * sumTo n (fun j => A i j * h j) := by
    rw [← sumTo_mul_left]
    exact sumTo_congr (fun j _ => by unfold normalize; ring)
  rw [hs]
  have hp := pinv_mul_self hN
  constructor
  · intro e
    rw [← e, ← mul_assoc, hp, one_mul]
  · intro e
    rw [e, ← mul_assoc, mul_comm (rowNorm n A i), hp, one_mul]

/-- existence of a maximiser on `0 … n-1` -/
theorem exists_max {n : Nat} (hn : 0 < n) (f : Nat → Rat) : ∃ i, i < n ∧ ∀ j, j < n → f j ≤ f i := by
  induction n with
  | zero => omega
  | succ n ih =>
    by_cases h0 : n = 0
    · subst h0
      exact ⟨0, by omega, fun j hj => by have : j = 0 := by omega
                                         subst this; exact le_refl _⟩
    · obtain ⟨i, hi, hmax⟩ := ih (by omega)
      by_cases hc : f i ≤ f n
      · refine ⟨n, by omega, fun j hj => ?_⟩
        by_cases hjn : j = n
        · subst hjn; exact le_refl _
        · exact le_trans (hmax j (by omega)) hc
      · refine ⟨i, by omega, fun j hj => ?_⟩
        by_cases hjn : j = n
        · subst hjn; exact le_of_lt (not_le.1 hc)
        · exact hmax j (by omega)

/-- A function that vanishes on the seeds and is, at every other node, the weighted mean of its neighbours
    is `≤ 0` wherever a seed can be reached (maximum principle along a path). -/
theorem subharmonic_le_zero {n : Nat} {w : Nat → Nat → Rat} {seed : Nat → Bool} {d : Nat → Rat}
    (hw : ∀ i j, i < n → j < n → 0 ≤ w i j)
    (hseed : ∀ i, i < n → seed i = true → d i = 0)
    (hmean : ∀ i, i < n → seed i = false → (sumTo n fun j => w i j) * d i = sumTo n fun j => w i j * d j)
    {M : Rat} (hM : ∀ j, j < n → d j ≤ M) :
    ∀ {t i}, ReachesSeed n w seed t i → d i = M → M ≤ 0 := by
  intro t i hr
  induction hr with
  | here hi hs => intro e; rw [← e, hseed _ hi hs]
  | @step i j t hi hwij hrj ih =>
    intro e
    cases hs : seed i with
    | true => rw [← e, hseed i hi hs]
    | false =>
      have hj : j < n := reachesSeed_lt hrj
      -- Σ_k w i k (M - d k) = 0 with non-negative terms
      have hz : sumTo n (fun k => w i k * (M - d k)) = 0 := by
        have h1 : sumTo n (fun k => w i k * (M - d k)) = sumTo n (fun k => w i k * M) - sumTo n (fun k => w i k * d k) := by
          rw [← sumTo_sub]; exact sumTo_congr (fun k _ => by ring)
        rw [h1, sumTo_mul_right, ← hmean i hi hs, e]; ring
      have hterm := sumTo_eq_zero_of_nonneg
        (fun k hk => mul_nonneg (hw i k hi hk) (by have := hM k hk; linarith)) hz j hj
      have : M - d j = 0 := by
        rcases mul_eq_zero.1 hterm with h0 | h0
        · exact absurd h0 (ne_of_gt hwij)
        · exact h0
      exact ih (by linarith)

/-- **uniqueness**: two harmonic functions with the same boundary values agree on every node that reaches a seed
    (in particular everywhere on a connected graph with a non-empty boundary). -/
theorem harmonic_unique_of_reach {n : Nat} {w : Nat → Nat → Rat} {seed : Nat → Bool} {temp h1 h2 : Nat → Rat}
    (hw : ∀ i j, i < n → j < n → 0 ≤ w i j)
    (hreach : ∀ i, i < n → ∃ t, ReachesSeed n w seed t i)
    (H1 : IsHarmonic n w seed temp h1) (H2 : IsHarmonic n w seed temp h2) :
    ∀ i, i < n → h1 i = h2 i := by
  -- both differences are ≤ 0
  have key : ∀ (a b : Nat → Rat), IsHarmonic n w seed temp a → IsHarmonic n w seed temp b →
      ∀ i, i < n → a i - b i ≤ 0 := by
    intro a b Ha Hb i hi
    have hn : 0 < n := by omega
    obtain ⟨m, hm, hmax⟩ := exists_max hn (fun k => a k - b k)
    obtain ⟨t, ht⟩ := hreach m hm
    have hle : a m - b m ≤ 0 :=
      subharmonic_le_zero (d := fun k => a k - b k) hw
        (fun k hk hs => by rw [(Ha k hk).1 hs, (Hb k hk).1 hs]; ring)
        (fun k hk hs => by
          have ea := (Ha k hk).2 hs
          have eb := (Hb k hk).2 hs
          rw [total_eq_sumTo, total_eq_sumTo] at ea eb
          have : sumTo n (fun j => w k j * (a j - b j)) = sumTo n (fun j => w k j * a j) - sumTo n (fun j => w k j * b j) := by
            rw [← sumTo_sub]; exact sumTo_congr (fun j _ => by ring)
          rw [this, ← ea, ← eb]; ring)
        hmax ht rfl
    exact le_trans (hmax i hi) hle
  intro i hi
  have h12 := key h1 h2 H1 H2 i hi
  have h21 := key h2 h1 H2 H1 i hi
  linarith

/-! ### one Dirichlet round and a harmonic function -/

/-- the Dirichlet round written with functions -/
theorem dirichletStep_harmonic_diff {n : Nat} {A : Nat → Nat → Rat} {temps : List Rat} {border : List Bool}
    {v : List Rat} {h : Nat → Rat} {M : Rat}
    (hA : ∀ i j, i < n → j < n → 0 ≤ A i j)
    (hN : ∀ i, i < n → border.getD i false = false → rowNorm n A i ≠ 0)
    (hH : IsHarmonic n A (fun i => border.getD i false) (fun i => temps.getD i 0) h)
    (hn : 0 < n)
    (hv : ∀ i, i < n → -M ≤ v.getD i 0 - h i ∧ v.getD i 0 - h i ≤ M) :
    ∀ i, i < n → -M ≤ (dirichletStep n (mat n n (normalize n A)) temps border v).getD i 0 - h i ∧
      (dirichletStep n (mat n n (normalize n A)) temps border v).getD i 0 - h i ≤ M := by
  have hM : 0 ≤ M := by have := hv 0 hn; linarith
  intro i hi
  rw [dirichletStep_getD hi]
  cases hb : border.getD i false with
  | true =>
    have := (hH i hi).1 hb
    simp only [if_true]
    rw [this]; constructor <;> linarith
  | false =>
    simp only [Bool.false_eq_true, if_false]
    have hNi := hN i hi hb
    have hAi : ∀ j, j < n → 0 ≤ A i j := fun j hj => hA i j hi hj
    have hh : h i = sumTo n fun j => normalize n A i j * h j := (harmonic_normalized hAi hNi).1 ((hH i hi).2 hb)
    have hd : (sumTo n fun j => ent (mat n n (normalize n A)) i j * v.getD j 0) - h i
        = sumTo n fun j => normalize n A i j * (v.getD j 0 - h j) := by
      rw [hh, ← sumTo_sub]
      exact sumTo_congr (fun j hj => by rw [ent_mat hi hj]; ring)
    rw [hd]
    exact convex_bounds (fun j hj => normalize_nonneg (hAi j hj)) (normalize_row_sum hAi hNi) hv

/-- fixed points of the Dirichlet round are exactly the harmonic functions -/
theorem dirichletStep_fixed_iff {n : Nat} {A : Nat → Nat → Rat} {temps : List Rat} {border : List Bool}
    {v : List Rat} (hlen : v.length = n)
    (hA : ∀ i j, i < n → j < n → 0 ≤ A i j)
    (hN : ∀ i, i < n → border.getD i false = false → rowNorm n A i ≠ 0) :
    dirichletStep n (mat n n (normalize n A)) temps border v = v ↔
      IsHarmonic n A (fun i => border.getD i false) (fun i => temps.getD i 0) (fun i => v.getD i 0) := by
  have hstep : ∀ i, i < n → border.getD i false = false →
      (dirichletStep n (mat n n (normalize n A)) temps border v).getD i 0
        = sumTo n fun j => normalize n A i j * v.getD j 0 := by
    intro i hi hb
    rw [dirichletStep_getD hi, hb]
    simp only [Bool.false_eq_true, if_false]
    exact sumTo_congr (fun j hj => by rw [ent_mat hi hj])
  constructor
  · intro e i hi
    have ei : (dirichletStep n (mat n n (normalize n A)) temps border v).getD i 0 = v.getD i 0 := by rw [e]
    constructor
    · intro hb
      rw [dirichletStep_getD hi] at ei
      simp only at hb
      rw [hb] at ei
      simpa using ei.symm
    · intro hb
      simp only at hb
      rw [hstep i hi hb] at ei
      exact (harmonic_normalized (h := fun i => v.getD i 0) (fun j hj => hA i j hi hj) (hN i hi hb)).2 ei.symm
  · intro H
    apply ext_getD (by simp) hlen
    intro i hi
    cases hb : border.getD i false with
    | true =>
      rw [dirichletStep_getD hi, hb]
      simpa using ((H i hi).1 hb).symm
    | false =>
      rw [hstep i hi hb]
      exact ((harmonic_normalized (h := fun i => v.getD i 0) (fun j hj => hA i j hi hj) (hN i hi hb)).1 ((H i hi).2 hb)).symm

end SkNet.Heat
