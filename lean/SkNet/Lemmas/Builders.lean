/- The tree builders of LouvainIteration / LouvainHierarchy produce well-formed trees over the given nodes,
   whatever labels Louvain returns (as long as there is one label per node). -/
import SkNet.Spec.Hierarchy
import SkNet.Lemmas.Dict

set_option linter.unusedSimpArgs false

namespace SkNet.Hier
open SkNet SkNet.Dendro

/-! ### `np.unique` -/

theorem mem_ins (x y : Nat) (l : List Nat) : y ∈ uniqueSorted.ins x l ↔ y = x ∨ y ∈ l := by
  induction l with
  | nil => simp [uniqueSorted.ins]
  | cons z zs ih =>
    simp only [uniqueSorted.ins]
    split
    · simp
    · split
      · rename_i h; subst h; simp
      · simp only [List.mem_cons, ih]
        constructor
        · rintro (h | h | h)
          · exact Or.inr (Or.inl h)
          · exact Or.inl h
          · exact Or.inr (Or.inr h)
        · rintro (h | h | h)
          · exact Or.inr (Or.inl h)
          · exact Or.inl h
          · exact Or.inr (Or.inr h)

theorem ins_sorted (x : Nat) (l : List Nat) (hl : l.Pairwise (· < ·)) : (uniqueSorted.ins x l).Pairwise (· < ·) := by
  induction l with
  | nil => simp [uniqueSorted.ins]
  | cons z zs ih =>
    have hz := List.pairwise_cons.mp hl
    simp only [uniqueSorted.ins]
    split
    · rename_i hlt
      refine List.pairwise_cons.mpr ⟨?_, hl⟩
      intro b hb
      rcases List.mem_cons.mp hb with e | e
      · subst e; exact hlt
      · exact Nat.lt_trans hlt (hz.1 b e)
    · split
      · exact hl
      · rename_i h1 h2
        refine List.pairwise_cons.mpr ⟨?_, ih hz.2⟩
        intro b hb
        rcases (mem_ins x b zs).mp hb with e | e
        · subst e; omega
        · exact hz.1 b e

theorem mem_uniqueSorted (l : List Nat) (y : Nat) : y ∈ uniqueSorted l ↔ y ∈ l := by
  unfold uniqueSorted
  induction l with
  | nil => simp
  | cons x xs ih => simp only [List.foldr_cons, mem_ins, ih, List.mem_cons]

theorem uniqueSorted_nodup (l : List Nat) : (uniqueSorted l).Nodup := by
  have : (uniqueSorted l).Pairwise (· < ·) := by
    unfold uniqueSorted
    induction l with
    | nil => simp
    | cons x xs ih => simp only [List.foldr_cons]; exact ins_sorted x _ ih
  exact this.imp (fun h => Nat.ne_of_lt h)

/-! ### grouping by label -/

/-- the members of cluster `c` -/
def members {β : Type} (ps : List (β × Nat)) (c : Nat) : List β :=
  ps.filterMap fun p => if p.2 == c then some p.1 else none

theorem members_eq {β : Type} (ps : List (β × Nat)) (c : Nat) :
    members ps c = (ps.filter fun p => p.2 == c).map (·.1) := by
  unfold members
  induction ps with
  | nil => rfl
  | cons p ps ih =>
    rw [List.filterMap_cons, List.filter_cons]
    by_cases h : (p.2 == c) = true
    · simp only [h, if_true, List.map_cons]; rw [ih]
    · simp only [h, if_false, Bool.false_eq_true]; rw [ih]

theorem group_perm {β : Type} (ps : List (β × Nat)) : ∀ (cs : List Nat), cs.Nodup →
    (cs.flatMap (members ps)).Perm ((ps.filter fun p => cs.contains p.2).map (·.1)) := by
  intro cs
  induction cs with
  | nil => intro _; simp
  | cons c cs ih =>
    intro hnd
    have hnd' := List.nodup_cons.mp hnd
    rw [List.flatMap_cons, members_eq]
    refine (List.Perm.append_left _ (ih hnd'.2)).trans ?_
    rw [← List.map_append]
    apply List.Perm.map
    -- split the filter on `c :: cs` by `p.2 == c`
    have key := List.filter_append_perm (fun p : β × Nat => p.2 == c)
      (ps.filter fun p => (c :: cs).contains p.2)
    rw [List.filter_filter, List.filter_filter] at key
    have e1 : (ps.filter fun p => (p.2 == c) && (c :: cs).contains p.2) = ps.filter fun p => p.2 == c := by
      apply List.filter_congr
      intro p _
      by_cases h : p.2 = c
      · simp [h]
      · simp [h]
    have e2 : (ps.filter fun p => (!(p.2 == c)) && (c :: cs).contains p.2) = ps.filter fun p => cs.contains p.2 := by
      apply List.filter_congr
      intro p _
      by_cases h : p.2 = c
      · subst h
        simp [hnd'.1]
      · have : ¬ (c = p.2) := fun e => h e.symm
        simp [h, List.contains_cons, this]
    rw [e1, e2] at key
    exact key

theorem group_all {β : Type} (ps : List (β × Nat)) (cs : List Nat) (hnd : cs.Nodup)
    (hall : ∀ p ∈ ps, p.2 ∈ cs) : (cs.flatMap (members ps)).Perm (ps.map (·.1)) := by
  have := group_perm ps cs hnd
  rwa [List.filter_eq_self.mpr (by intro p hp; simpa using hall p hp)] at this

theorem zip_map_fst {β γ : Type} : ∀ (a : List β) (b : List γ), a.length = b.length → (a.zip b).map (·.1) = a := by
  intro a
  induction a with
  | nil => intro b _; rfl
  | cons x xs ih =>
    intro b h
    cases b with
    | nil => simp at h
    | cons y ys => simp only [List.zip_cons_cons, List.map_cons]; rw [ih ys (by simpa using h)]

theorem mem_zip_snd {β γ : Type} {a : List β} {b : List γ} {p : β × γ} (h : p ∈ a.zip b) : p.2 ∈ b :=
  (List.of_mem_zip h).2

theorem members_ne_nil {β : Type} {a : List β} {b : List Nat} (hl : a.length = b.length) {c : Nat} (hc : c ∈ b) :
    members (a.zip b) c ≠ [] := by
  induction a generalizing b with
  | nil => cases b <;> simp_all
  | cons x xs ih =>
    cases b with
    | nil => simp at hc
    | cons y ys =>
      simp only [List.zip_cons_cons, members, List.filterMap_cons]
      by_cases h : y = c
      · simp [h]
      · have hc' : c ∈ ys := by
          rcases List.mem_cons.mp hc with e | e
          · exact absurd e.symm h
          · exact e
        have := ih (b := ys) (by simpa using hl) hc'
        simp only [members] at this
        have hyc : (y == c) = false := by simpa using h
        simp only [hyc, Bool.false_eq_true, if_false]
        exact this

theorem members_length_le {β : Type} (ps : List (β × Nat)) (c : Nat) : (members ps c).length ≤ ps.length := by
  unfold members; exact List.length_filterMap_le _ _

theorem perm_flatMap_left {β γ : Type} (l : List β) {f g : β → List γ} (h : ∀ a ∈ l, (f a).Perm (g a)) :
    (l.flatMap f).Perm (l.flatMap g) := by
  induction l with
  | nil => simp
  | cons a as ih =>
    simp only [List.flatMap_cons]
    exact List.Perm.append (h a List.mem_cons_self) (ih fun b hb => h b (List.mem_cons_of_mem _ hb))

/-! ### trees -/

theorem tleavesL_map_leaf (l : List Nat) : tleavesL (l.map .leaf) = l := by
  induction l with
  | nil => rfl
  | cons x xs ih => simp [tleavesL, tleaves, ih]

theorem wfl_map_leaf (l : List Nat) : WFL (l.map .leaf) := by
  induction l with
  | nil => trivial
  | cons x xs ih => exact ⟨trivial, ih⟩

theorem wfl_map {β : Type} (f : β → Tree) (l : List β) (h : ∀ x ∈ l, WF (f x)) : WFL (l.map f) := by
  induction l with
  | nil => trivial
  | cons x xs ih =>
    exact ⟨h x List.mem_cons_self, ih (fun y hy => h y (List.mem_cons_of_mem _ hy))⟩

theorem tleavesL_map {β : Type} (f : β → Tree) (l : List β) : tleavesL (l.map f) = l.flatMap fun x => tleaves (f x) := by
  induction l with
  | nil => rfl
  | cons x xs ih => simp [tleavesL, ih]

/-- **`_recursive_louvain`** returns a well-formed tree over exactly the nodes it was given, whatever Louvain
    answers (one label per node), as long as the recursion is given enough fuel. -/
theorem recursiveLouvain_wf (hasEdge : List Nat → Bool) (oracle : List Nat → List Nat)
    (ho : ∀ nodes, (oracle nodes).length = nodes.length) :
    ∀ (fuel : Nat) (depth : Int) (nodes : List Nat), nodes ≠ [] → nodes.length ≤ fuel →
      WF (recursiveLouvain hasEdge oracle fuel depth nodes) ∧
      (tleaves (recursiveLouvain hasEdge oracle fuel depth nodes)).Perm nodes := by
  intro fuel
  induction fuel with
  | zero =>
    intro depth nodes hne hlen
    cases nodes with
    | nil => exact absurd rfl hne
    | cons x xs => simp at hlen
  | succ fuel ih =>
    intro depth nodes hne hlen
    unfold recursiveLouvain
    simp only
    generalize hlab : (if (hasEdge nodes && depth != 0) = true then oracle nodes else nodes.map fun _ => 0) = labels
    have hll : labels.length = nodes.length := by
      rw [← hlab]; split
      · exact ho nodes
      · simp
    split
    · -- a single cluster
      split
      · rename_i h2
        refine ⟨⟨by simp only [List.length_map]; simp at h2; omega, wfl_map_leaf nodes⟩, ?_⟩
        simp only [tleaves, tleavesL_map_leaf]
        exact List.Perm.refl _
      · rename_i h2
        cases nodes with
        | nil => exact absurd rfl hne
        | cons x xs =>
          cases xs with
          | nil => simp [WF, tleaves]
          | cons y ys => simp at h2
    · rename_i h1
      -- at least two clusters
      have hcl_ne : uniqueSorted labels ≠ [] := by
        intro e
        cases hn : nodes with
        | nil => exact hne hn
        | cons x xs =>
          cases hl : labels with
          | nil => rw [hl, hn] at hll; simp at hll
          | cons l ls =>
            have : l ∈ uniqueSorted labels := (mem_uniqueSorted _ _).mpr (by rw [hl]; simp)
            rw [e] at this; simp at this
      have hcl2 : 2 ≤ (uniqueSorted labels).length := by
        have : (uniqueSorted labels).length ≠ 0 := fun e => hcl_ne (List.eq_nil_of_length_eq_zero e)
        have : (uniqueSorted labels).length ≠ 1 := by simpa using h1
        omega
      have hperm := group_all (nodes.zip labels) (uniqueSorted labels) (uniqueSorted_nodup labels)
        (fun p hp => (mem_uniqueSorted _ _).mpr (mem_zip_snd hp))
      rw [zip_map_fst nodes labels hll.symm] at hperm
      -- every cluster is non-empty and smaller than the whole
      have hsub : ∀ c ∈ uniqueSorted labels,
          members (nodes.zip labels) c ≠ [] ∧ (members (nodes.zip labels) c).length ≤ fuel := by
        intro c hc
        have hne' := members_ne_nil hll.symm ((mem_uniqueSorted _ _).mp hc)
        refine ⟨hne', ?_⟩
        -- another cluster is non-empty too, and the clusters partition the nodes
        have hlen_eq := hperm.length_eq
        obtain ⟨c', hc', hcc'⟩ : ∃ c' ∈ uniqueSorted labels, c' ≠ c := by
          match hu : uniqueSorted labels, hcl2 with
          | a :: b :: rest, _ =>
            have hnd := uniqueSorted_nodup labels
            rw [hu] at hnd
            have hab : a ≠ b := fun e => (List.nodup_cons.mp hnd).1 (e ▸ List.mem_cons_self)
            by_cases ha : a = c
            · exact ⟨b, by simp, fun e => hab (ha.trans e.symm)⟩
            · exact ⟨a, by simp, ha⟩
        have hne'' := members_ne_nil hll.symm ((mem_uniqueSorted _ _).mp hc')
        -- lengths: the two clusters are disjoint parts of the sum
        have hsum : (members (nodes.zip labels) c).length + (members (nodes.zip labels) c').length ≤
            ((uniqueSorted labels).flatMap (members (nodes.zip labels))).length := by
          have hnd := uniqueSorted_nodup labels
          obtain ⟨l1, l2, hsplit⟩ := List.append_of_mem hc
          rw [hsplit] at hc' hnd ⊢
          simp only [List.flatMap_append, List.flatMap_cons, List.length_append]
          rcases List.mem_append.mp hc' with hm | hm
          · obtain ⟨m1, m2, hs2⟩ := List.append_of_mem hm
            rw [hs2]; simp only [List.flatMap_append, List.flatMap_cons, List.length_append]; omega
          · rcases List.mem_cons.mp hm with e | hm
            · exact absurd e hcc'
            · obtain ⟨m1, m2, hs2⟩ := List.append_of_mem hm
              rw [hs2]; simp only [List.flatMap_append, List.flatMap_cons, List.length_append]; omega
        have : 0 < (members (nodes.zip labels) c').length := List.length_pos_iff.mpr hne''
        omega
      have hmem_eq : ∀ c, ((nodes.zip labels).filterMap fun p => if p.2 == c then some p.1 else none) =
          members (nodes.zip labels) c := fun c => rfl
      constructor
      · refine ⟨by simpa using hcl2, wfl_map _ _ ?_⟩
        intro c hc
        exact (ih (depth - 1) _ (hsub c hc).1 (hsub c hc).2).1
      · simp only [tleaves, tleavesL_map]
        refine (perm_flatMap_left _ ?_).trans hperm
        intro c hc
        exact (ih (depth - 1) _ (hsub c hc).1 (hsub c hc).2).2


/-! ### LouvainHierarchy -/

theorem tleavesL_eq_flatMap (l : List Tree) : tleavesL l = l.flatMap tleaves := by
  induction l with
  | nil => rfl
  | cons t ts ih => simp [tleavesL, ih]

/-- the item made of the members of one cluster -/
def groupOf (ms : List Tree) : Tree :=
  match ms with
  | [t] => t
  | ms => .node ms

theorem groupItems_eq (items : List Tree) (labels lu : List Nat) :
    groupItems items labels lu = lu.map fun c => groupOf (members (items.zip labels) c) := by
  unfold groupItems
  apply List.map_congr_left
  intro c _
  rfl

theorem tleaves_groupOf (ms : List Tree) : tleaves (groupOf ms) = tleavesL ms := by
  unfold groupOf
  split
  · simp [tleavesL]
  · simp [tleaves]

theorem wf_groupOf (ms : List Tree) (hne : ms ≠ []) (h : ∀ t ∈ ms, WF t) : WF (groupOf ms) := by
  unfold groupOf
  split
  · exact h _ (by simp)
  · rename_i h1
    refine ⟨?_, ?_⟩
    · match ms, hne, h1 with
      | [_], _, h1 => exact absurd rfl (h1 _)
      | _ :: _ :: _, _, _ => simp
    · have := wfl_map id ms (by simpa using h)
      simpa using this

theorem mem_members {β : Type} {ps : List (β × Nat)} {c : Nat} {x : β} (h : x ∈ members ps c) :
    ∃ p ∈ ps, p.1 = x := by
  unfold members at h
  obtain ⟨p, hp, hx⟩ := List.mem_filterMap.mp h
  split at hx
  · exact ⟨p, hp, Option.some.inj hx⟩
  · cases hx

/-- one round of grouping keeps the items well formed and their leaves -/
theorem group_spec (items : List Tree) (labels : List Nat) (hl : labels.length = items.length)
    (hwf : ∀ t ∈ items, WF t) :
    (∀ t ∈ groupItems items labels (uniqueSorted labels), WF t) ∧
    (tleavesL (groupItems items labels (uniqueSorted labels))).Perm (tleavesL items) ∧
    (groupItems items labels (uniqueSorted labels)).length = (uniqueSorted labels).length := by
  rw [groupItems_eq]
  refine ⟨?_, ?_, by simp⟩
  · intro t ht
    obtain ⟨c, hc, rfl⟩ := List.mem_map.mp ht
    refine wf_groupOf _ (members_ne_nil hl.symm ((mem_uniqueSorted _ _).mp hc)) ?_
    intro x hx
    obtain ⟨p, hp, rfl⟩ := mem_members hx
    exact hwf _ (List.of_mem_zip hp).1
  · rw [tleavesL_eq_flatMap, List.flatMap_map]
    have h1 : ((uniqueSorted labels).flatMap fun c => tleaves (groupOf (members (items.zip labels) c))) =
        ((uniqueSorted labels).flatMap (members (items.zip labels))).flatMap tleaves := by
      rw [List.flatMap_assoc]
      congr 1
      funext c
      rw [tleaves_groupOf, tleavesL_eq_flatMap]
    rw [h1, tleavesL_eq_flatMap]
    have hperm := group_all (items.zip labels) (uniqueSorted labels) (uniqueSorted_nodup labels)
      (fun p hp => (mem_uniqueSorted _ _).mpr (mem_zip_snd hp))
    rw [zip_map_fst items labels hl.symm] at hperm
    exact List.Perm.flatMap_right _ hperm

/-- consistency of the recorded answers of Louvain: each has one label per current cluster -/
def SeqOK : List (List Nat) → Nat → Prop
  | [], _ => True
  | next :: more, k => next.length = k ∧ SeqOK more (uniqueSorted next).length

theorem getHierarchyLoop_spec : ∀ (seq : List (List Nat)) (items : List Tree) (labels : List Nat)
    (res : List Tree), labels.length = items.length → (∀ t ∈ items, WF t) →
    SeqOK seq (uniqueSorted labels).length →
    getHierarchyLoop seq items labels (uniqueSorted labels) = some res →
    (∀ t ∈ res, WF t) ∧ (tleavesL res).Perm (tleavesL items) := by
  intro seq
  induction seq with
  | nil => intro items labels res _ _ _ h; simp [getHierarchyLoop] at h
  | cons next more ih =>
    intro items labels res hl hwf hok h
    obtain ⟨g1, g2, g3⟩ := group_spec items labels hl hwf
    simp only [getHierarchyLoop] at h
    split at h
    · simp only [Option.some.injEq] at h; subst h; exact ⟨g1, g2⟩
    · simp only [SeqOK] at hok
      obtain ⟨r1, r2⟩ := ih _ next res (by rw [g3]; exact hok.1) g1 hok.2 h
      exact ⟨r1, r2.trans g2⟩

/-- **`_get_hierarchy`** (with the unwrapping of a single top cluster): a well-formed tree over the `n` nodes,
    whatever Louvain answers, when the loop ends within the recorded sequence -/
theorem getHierarchy_wf (n : Nat) (hn : 2 ≤ n) (first : List Nat) (more : List (List Nat)) (t : Tree)
    (hfirst : first.length = n) (hok : SeqOK more (uniqueSorted first).length)
    (h : getHierarchy n (first :: more) = some t) :
    WF t ∧ (tleaves t).Perm (List.range n) := by
  unfold getHierarchy at h
  simp only [Option.map_eq_some_iff] at h
  obtain ⟨items, hloop, rfl⟩ := h
  obtain ⟨h1, h2⟩ := getHierarchyLoop_spec more ((List.range n).map .leaf) first items
    (by simpa using hfirst) (by intro t ht; obtain ⟨k, _, rfl⟩ := List.mem_map.mp ht; trivial) hok hloop
  rw [tleavesL_map_leaf] at h2
  have hlen := h2.length_eq
  simp only [List.length_range] at hlen
  match items, h1, h2, hlen with
  | [], _, _, hlen => simp [tleavesL] at hlen; omega
  | [.leaf k], _, _, hlen => simp [tleavesL, tleaves] at hlen; omega
  | [.node ms], h1, h2, _ =>
    have hw : WF (.node ms) := h1 _ (by simp)
    have hms : ms.length > 1 := by simp only [WF] at hw; omega
    simp only [hms, if_true]
    refine ⟨hw, ?_⟩
    simpa [tleavesL] using h2
  | a :: b :: rest, h1, h2, _ =>
    have hw : WFL (a :: b :: rest) := by
      have := wfl_map id (a :: b :: rest) (by simpa using h1)
      simpa using this
    split
    · rename_i heq; simp at heq
    · exact ⟨⟨by simp, hw⟩, by simpa [tleaves] using h2⟩

end SkNet.Hier
