/- Lemmas for C01: the arithmetic of the dtype (`bool`: or, `int lo hi`: wrap-around, `float`: exact) and the
   dtype-aware conversions. Core Lean only. -/
import SkNet.Lemmas.Container

namespace SkNet.Fmt

attribute [-simp] List.getD_eq_getElem?_getD

/-- a dtype whose range contains 0 (every numpy dtype) -/
def DType.valid : DType → Prop
  | .int lo hi => lo ≤ 0 ∧ 0 ≤ hi
  | _ => True

theorem wrap_range (lo hi z : Int) (h : lo ≤ hi) : lo ≤ wrap lo hi z ∧ wrap lo hi z ≤ hi := by
  unfold wrap
  have hM : 0 < hi - lo + 1 := by omega
  have h1 := Int.emod_nonneg (z - lo) (Int.ne_of_gt hM)
  have h2 := Int.emod_lt_of_pos (z - lo) hM
  omega

theorem wrap_of_mem (lo hi z : Int) (h1 : lo ≤ z) (h2 : z ≤ hi) : wrap lo hi z = z := by
  unfold wrap
  rw [Int.emod_eq_of_lt (by omega) (by omega)]; omega

theorem wrap_add_wrap (lo hi a b : Int) : wrap lo hi (a + wrap lo hi b) = wrap lo hi (a + b) := by
  unfold wrap
  have : a + ((b - lo) % (hi - lo + 1) + lo) - lo = a + (b - lo) % (hi - lo + 1) := by omega
  rw [this, Int.add_emod_emod]
  congr 2; omega

theorem intCast_of_den_one (a : Rat) (h : a.den = 1) : ((a.num : Int) : Rat) = a := by
  apply Rat.ext <;> simp [h]

theorem DType.mem_zero (dt : DType) (hv : dt.valid) : dt.mem 0 := by
  cases dt with
  | float => trivial
  | bool => exact Or.inl rfl
  | int lo hi => exact ⟨rfl, hv.1, hv.2⟩

/-- adding nothing to a value of the dtype gives the value back -/
theorem DType.add_zero (dt : DType) (a : Rat) (h : dt.mem a) : dt.add a 0 = a := by
  cases dt with
  | float => simp [DType.add, Rat.add_zero]
  | bool =>
    rcases h with h | h <;> subst h <;> simp [DType.add]
  | int lo hi =>
    obtain ⟨hd, h1, h2⟩ := h
    simp only [DType.add]
    have : (0 : Rat).num = 0 := rfl
    rw [this, Int.add_zero, wrap_of_mem lo hi a.num h1 h2]
    exact intCast_of_den_one a hd

theorem DType.mem_add (dt : DType) (hv : dt.valid) (a b : Rat) : dt.mem (dt.add a b) := by
  cases dt with
  | float => trivial
  | bool =>
    simp only [DType.add, DType.mem]
    split
    · exact Or.inr rfl
    · exact Or.inl rfl
  | int lo hi =>
    simp only [DType.add, DType.mem]
    have hr := wrap_range lo hi (a.num + b.num) (by have := hv.1; have := hv.2; omega)
    refine ⟨by simp, by simpa using hr.1, by simpa using hr.2⟩

theorem sumD_nil (dt : DType) : sumD dt [] = 0 := rfl
theorem sumD_cons (dt : DType) (x : Rat) (l : List Rat) : sumD dt (x :: l) = dt.add x (sumD dt l) := rfl

theorem sumD_mem (dt : DType) (hv : dt.valid) (l : List Rat) : dt.mem (sumD dt l) := by
  cases l with
  | nil => exact dt.mem_zero hv
  | cons x xs => exact dt.mem_add hv _ _

/-- one stored value is its own sum -/
theorem sumD_single (dt : DType) (a : Rat) (h : dt.mem a) : sumD dt [a] = a := dt.add_zero a h

/-- the order in which duplicates are added does not matter, in any dtype -/
theorem DType.add_left_comm (dt : DType) (x y z : Rat) : dt.add y (dt.add x z) = dt.add x (dt.add y z) := by
  cases dt with
  | float => simp only [DType.add]; exact Rat.add_left_comm y x z
  | bool =>
    simp only [DType.add]
    by_cases hx : x = 0 <;> by_cases hy : y = 0 <;> by_cases hz : z = 0 <;> simp [hx, hy, hz]
  | int lo hi =>
    simp only [DType.add]
    congr 1
    simp only [Rat.num_intCast]
    rw [wrap_add_wrap, wrap_add_wrap]
    congr 1; omega

theorem sumD_perm (dt : DType) {a b : List Rat} (h : a.Perm b) : sumD dt a = sumD dt b := by
  unfold sumD
  exact h.foldr_eq' (fun x _ y _ z => dt.add_left_comm x y z) 0

/-- the `float` instance is the exact sum of the definitions without `D` -/
theorem sumD_float (l : List Rat) : sumD .float l = sumR l := rfl

/-- **no overflow ⇒ the dtype does not matter**: if the exact sums of the suffixes of the stored values stay in the
range of the integer dtype (scipy adds the duplicates one after the other), the wrapped sum is the exact sum. -/
theorem sumD_int_exact (lo hi : Int) : ∀ (l : List Rat), (∀ x ∈ l, x.den = 1) →
    (∀ k, k ≤ l.length → (sumR (l.drop k)).den = 1 ∧ lo ≤ (sumR (l.drop k)).num ∧ (sumR (l.drop k)).num ≤ hi) →
    sumD (.int lo hi) l = sumR l
  | [], _, _ => rfl
  | x :: xs, hint, hsuf => by
    have ih := sumD_int_exact lo hi xs (fun y hy => hint y (by simp [hy]))
      (fun k hk => by have := hsuf (k + 1) (by simp; omega); simpa using this)
    rw [sumD_cons, ih, sumR_cons]
    simp only [DType.add]
    have h0 := hsuf 0 (by simp)
    simp only [List.drop_zero, sumR_cons] at h0
    have hx := hint x (by simp)
    have hs := (hsuf 1 (by simp)).1
    simp only [List.drop_succ_cons, List.drop_zero] at hs
    -- numerators add when both denominators are 1
    have hnum : x.num + (sumR xs).num = (x + sumR xs).num := by
      have e1 := intCast_of_den_one x hx
      have e2 := intCast_of_den_one (sumR xs) hs
      rw [← e1, ← e2]
      simp [← Rat.intCast_add]
    rw [hnum, wrap_of_mem lo hi _ h0.2.1 h0.2.2]
    exact intCast_of_den_one _ h0.1

/-- sum of the numerators -/
def sumZ (l : List Rat) : Int := (l.map (·.num)).foldr (· + ·) 0

/-- wrap-around is a ring morphism: the wrapped sum of integers is the wrap of their exact sum, whatever the
intermediate overflows -/
theorem sumD_int_eq_wrap (lo hi : Int) (h0 : lo ≤ 0 ∧ 0 ≤ hi) : ∀ (l : List Rat),
    sumD (.int lo hi) l = ((wrap lo hi (sumZ l) : Int) : Rat)
  | [] => by
    simp only [sumD_nil, sumZ, List.map_nil, List.foldr_nil]
    rw [wrap_of_mem lo hi 0 h0.1 h0.2]; rfl
  | x :: xs => by
    rw [sumD_cons, sumD_int_eq_wrap lo hi h0 xs]
    simp only [DType.add, Rat.num_intCast]
    rw [wrap_add_wrap]
    rfl

theorem sumR_of_integral : ∀ (l : List Rat), (∀ x ∈ l, x.den = 1) → sumR l = ((sumZ l : Int) : Rat)
  | [], _ => rfl
  | x :: xs, h => by
    rw [sumR_cons, sumR_of_integral xs (fun y hy => h y (by simp [hy]))]
    have e1 := intCast_of_den_one x (h x (by simp))
    show x + ((sumZ xs : Int) : Rat) = ((x.num + sumZ xs : Int) : Rat)
    rw [Rat.intCast_add, e1]

/-- **only the total has to fit**: if the exact sum of the stored integers lies in the range of the dtype, the wrapped
sum is the exact sum — intermediate overflows cancel -/
theorem sumD_int_exact_total (lo hi : Int) (h0 : lo ≤ 0 ∧ 0 ≤ hi) (l : List Rat) (hint : ∀ x ∈ l, x.den = 1)
    (hfit : lo ≤ sumZ l ∧ sumZ l ≤ hi) : sumD (.int lo hi) l = sumR l := by
  rw [sumD_int_eq_wrap lo hi h0, wrap_of_mem lo hi _ hfit.1 hfit.2, sumR_of_integral l hint]

/-! ### the conversions keep the stored values of every position -/

theorem cell_csr_eq (nCol : Nat) (rows : Rows) (i j : Nat) :
    cell (.csr nCol rows) i j = ((rows.getD i []).filter fun p => p.1 == j).map (·.2) := rfl

/-- stored values of column `j0` in a row built by transposing the columns -/
theorem cell_flatMap_cols (cols : Rows) (i : Nat) :
    ∀ (n j0 : Nat), (((List.range n).flatMap fun j =>
        ((cols.getD j []).filter fun p => p.1 == i).map fun p => (j, p.2)).filter fun p => p.1 == j0).map (·.2)
      = if j0 < n then ((cols.getD j0 []).filter fun p => p.1 == i).map (·.2) else [] := by
  intro n
  induction n with
  | zero => intro j0; simp
  | succ n ih =>
    intro j0
    rw [List.range_succ, List.flatMap_append, List.filter_append, List.map_append, ih j0]
    simp only [List.flatMap_cons, List.flatMap_nil, List.append_nil]
    by_cases h2 : j0 = n
    · subst h2
      have : ¬ j0 < j0 := by omega
      simp only [this, if_false, List.nil_append, Nat.lt_succ_self, if_true]
      rw [List.filter_eq_self.2 (by
        intro p hp
        obtain ⟨q, _, rfl⟩ := List.mem_map.1 hp
        simp)]
      rw [List.map_map]; rfl
    · have hnil : (List.map (fun p => (n, p.2)) (List.filter (fun p => p.1 == i) (cols.getD n []))).filter (fun p => p.1 == j0) = [] := by
        apply List.filter_eq_nil_iff.2
        intro p hp
        obtain ⟨q, _, rfl⟩ := List.mem_map.1 hp
        simp; omega
      rw [hnil]
      by_cases h1 : j0 < n
      · have : j0 < n + 1 := by omega
        simp [h1, this]
      · have : ¬ j0 < n + 1 := by omega
        simp [h1, this]

/-- stored values of column `j0` in a row built column by column -/
theorem cell_range_filterMap (c : Nat → Bool) (g : Nat → Rat) :
    ∀ (n j0 : Nat), (((List.range n).filterMap fun j => if c j then some (j, g j) else none).filter fun p => p.1 == j0).map (·.2)
      = if j0 < n ∧ c j0 = true then [g j0] else [] := by
  intro n
  induction n with
  | zero => intro j0; simp
  | succ n ih =>
    intro j0
    rw [List.range_succ, List.filterMap_append, List.filter_append, List.map_append, ih j0]
    by_cases h2 : j0 = n
    · subst h2
      have : ¬ j0 < j0 := by omega
      cases hc : c j0 <;> simp [List.filterMap, hc, this]
    · have hlast : (List.filterMap (fun j => if c j then some (j, g j) else none) [n]).filter (fun p => p.1 == j0) = [] := by
        cases hc : c n
        · simp [List.filterMap, hc]
        · simp [List.filterMap, hc]; omega
      rw [hlast]
      by_cases h1 : j0 < n
      · have : j0 < n + 1 := by omega
        simp [h1, this]
      · have : ¬ j0 < n + 1 := by omega
        simp [h1, this]

end SkNet.Fmt
