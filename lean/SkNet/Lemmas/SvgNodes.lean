/-
Node shapes and names: what the node loops and the text loops of Model/Svg.lean contribute to a drawing.
The circle-or-pie decision of the code (taken on the dense row) agrees with the specification's `isPie`
(stated on the stored entries) because the dense row sums to the sum of the stored values.
-/
import Mathlib.Tactic.Ring
import SkNet.Lemmas.SvgCount

set_option linter.unusedSimpArgs false

namespace SkNet.Svg

/-! ### sums -/

def lsum (l : List Rat) : Rat := l.foldl (· + ·) 0

theorem foldl_add_init (l : List Rat) (a : Rat) : l.foldl (· + ·) a = a + lsum l := by
  unfold lsum
  induction l generalizing a with
  | nil => simp
  | cons x xs ih =>
    simp only [List.foldl_cons]
    rw [ih (a + x), ih (0 + x)]
    ring

theorem lsum_append (a b : List Rat) : lsum (a ++ b) = lsum a + lsum b := by
  unfold lsum
  rw [List.foldl_append, foldl_add_init]
  rfl

theorem lsum_tab_succ (k : Nat) (f : Nat → Rat) : lsum (tab (k + 1) f) = lsum (tab k f) + f k := by
  have : tab (k + 1) f = tab k f ++ [f k] := by simp [SkNet.tab, List.range_succ]
  rw [this, lsum_append]
  simp [lsum]

theorem lsum_tab_zero (k : Nat) : lsum (tab k fun _ => (0 : Rat)) = 0 := by
  induction k with
  | zero => rfl
  | succ k ih => rw [lsum_tab_succ, ih]; ring

theorem lsum_tab_add (k : Nat) (f g : Nat → Rat) :
    lsum (tab k fun j => f j + g j) = lsum (tab k f) + lsum (tab k g) := by
  induction k with
  | zero => simp [SkNet.tab, lsum]
  | succ k ih => rw [lsum_tab_succ, lsum_tab_succ, lsum_tab_succ, ih]; ring

theorem lsum_tab_indicator (k c : Nat) (v : Rat) :
    lsum (tab k fun j => if c = j then v else 0) = if c < k then v else 0 := by
  induction k with
  | zero => simp [SkNet.tab, lsum]
  | succ k ih =>
    rw [lsum_tab_succ, ih]
    by_cases h1 : c < k
    · have : c ≠ k := by omega
      have h2 : c < k + 1 := by omega
      simp [h1, this, h2]
    · by_cases h2 : c = k
      · subst h2; simp
      · have : ¬ c < k + 1 := by omega
        simp [h1, h2, this]

/-- sum of the stored values of a row -/
def rowSum (row : List (Nat × Rat)) : Rat := row.foldl (fun a e => a + e.2) 0

theorem rowSum_init (row : List (Nat × Rat)) (a : Rat) : row.foldl (fun a e => a + e.2) a = a + rowSum row := by
  unfold rowSum
  induction row generalizing a with
  | nil => simp
  | cons x xs ih =>
    simp only [List.foldl_cons]
    rw [ih (a + x.2), ih (0 + x.2)]
    ring

theorem rowSum_cons (e : Nat × Rat) (r : List (Nat × Rat)) : rowSum (e :: r) = e.2 + rowSum r := by
  have := rowSum_init r (0 + e.2)
  simp only [rowSum, List.foldl_cons] at this ⊢
  rw [this]; ring

/-- the dense row sums to the sum of the stored values (columns within the matrix) -/
theorem lsum_buckets (k : Nat) (row : List (Nat × Rat)) (h : ∀ e ∈ row, e.1 < k) :
    lsum (tab k fun j => rowSum (row.filter (fun e => e.1 = j))) = rowSum row := by
  induction row with
  | nil =>
    simp only [List.filter_nil]
    exact lsum_tab_zero k
  | cons e r ih =>
    have hb : ∀ j, rowSum ((e :: r).filter (fun x => x.1 = j)) =
        (if e.1 = j then e.2 else 0) + rowSum (r.filter (fun x => x.1 = j)) := by
      intro j
      by_cases hj : e.1 = j
      · simp [List.filter_cons, hj, rowSum_cons]
      · simp [List.filter_cons, hj]
    simp only [hb]
    rw [lsum_tab_add, lsum_tab_indicator, ih (fun x hx => h x (List.mem_cons_of_mem _ hx)), rowSum_cons]
    simp [h e List.mem_cons_self]

/-- column indices of the membership matrix are within its shape -/
def ProbsOk (probs : Option Probs) : Prop :=
  ∀ p, probs = some p → ∀ row ∈ p.rows, ∀ e ∈ row, e.1 < p.ncols

theorem denseRow_sum (p : Probs) (i : Nat) (h : ∀ row ∈ p.rows, ∀ e ∈ row, e.1 < p.ncols) :
    (denseRow p i).foldl (· + ·) 0 = rowSum (p.rows.getD i []) := by
  have hrow : ∀ e ∈ p.rows.getD i [], e.1 < p.ncols := by
    intro e he
    rw [List.getD_eq_getElem?_getD] at he
    cases hi : p.rows[i]? with
    | none => simp [hi] at he
    | some row =>
      simp only [hi, Option.getD_some] at he
      exact h row (List.mem_of_getElem? hi) e he
  have := lsum_buckets p.ncols (p.rows.getD i []) hrow
  unfold denseRow
  simpa [lsum, rowSum] using this

/-! ### node shapes -/

/-- what a node contributes: one circle, or one sector per label when it is a pie -/
def nodeSummary (probs : Option Probs) (i : Nat) : Summary :=
  if isPie probs i then ⟨0, ncolsOf probs, 0, []⟩ else ⟨1, 0, 0, []⟩

theorem pieSectors_shape {ν : Nums} {i side : Nat} {colors : List PyStr} (k : Nat) {ps : List Piece}
    (h : (List.range k).foldlM (fun out index => do
      let c ← modIndex colors index
      pure (out ++ svgPieSector (fun t => ν (.pie t) (2 * i + side) index) c (ν .sw i side))) [] = .ok ps) :
    Shape ps ⟨0, k, 0, []⟩ := by
  have := foldlM_prefix (fun (pre : List Nat) acc => Shape acc ⟨0, pre.length, 0, []⟩) _ _ [] [] ps Shape.nil ?_ h
  · simpa using this
  · intro pre x acc acc' hacc hstep
    simp only [bind, Except.bind, pure, Except.pure] at hstep
    split at hstep
    · simp at hstep
    · simp only [Except.ok.injEq] at hstep
      subst hstep
      exact (Shape.append hacc (svgPieSector_shape _ _ _)).cast (by simp [Summary.add])

theorem nodeShape_shape {ν : Nums} {side i : Nat} {probs : Option Probs} {colors : List PyStr} {ps : List Piece}
    (hp : ProbsOk probs) (h : nodeShape ν side i probs colors = .ok ps) : Shape ps (nodeSummary probs i) := by
  unfold nodeShape at h
  split at h
  · -- no membership matrix
    split at h
    · simp only [Except.ok.injEq] at h
      subst h
      exact (svgNode_shape _ _ _ _ _).cast (by simp [nodeSummary, isPie])
    · simp at h
  · rename_i p
    split at h
    · simp at h
    split at h
    · simp at h
    simp only at h
    split at h
    · -- one stored entry: a circle
      rename_i hlen
      split at h
      · simp only [Except.ok.injEq] at h
        subst h
        have hpie : isPie (some p) i = false := by
          unfold isPie
          simp only [hlen]
          simp
        exact (svgNode_shape _ _ _ _ _).cast (by simp [nodeSummary, hpie])
      · simp at h
    · rename_i hlen
      have hsum := denseRow_sum p i (hp p rfl)
      unfold svgPieChartNode at h
      split at h
      · -- the row sums to zero: a white circle
        rename_i hz
        simp only [Except.ok.injEq] at h
        subst h
        rw [hsum] at hz
        have hpie : isPie (some p) i = false := by
          unfold isPie
          simp only [rowSum] at hz
          simp only [hz]
          simp
        exact (svgNode_shape _ _ _ _ _).cast (by simp [nodeSummary, hpie])
      · rename_i hz
        rw [hsum] at hz
        have hk : (denseRow p i).length = p.ncols := by simp [denseRow]
        rw [hk] at h
        have hpie : isPie (some p) i = true := by
          unfold isPie
          simp only [rowSum] at hz
          simp only [Bool.and_eq_true, decide_eq_true_eq, ne_eq]
          exact ⟨hlen, hz⟩
        exact (pieSectors_shape p.ncols h).cast (by simp [nodeSummary, hpie, ncolsOf])

/-- summary of a node loop over the nodes `l` -/
def nodesSummary (probs : Option Probs) (l : List Nat) : Summary :=
  ⟨(l.filter fun i => !isPie probs i).length, (l.filter fun i => isPie probs i).length * ncolsOf probs, 0, []⟩

theorem nodesSummary_snoc (probs : Option Probs) (l : List Nat) (x : Nat) :
    (nodesSummary probs l).add (nodeSummary probs x) = nodesSummary probs (l ++ [x]) := by
  unfold nodesSummary nodeSummary Summary.add
  by_cases hx : isPie probs x = true
  · simp [hx, List.filter_append, Nat.add_mul]
  · simp [hx, List.filter_append]

theorem graphNodes_shape {ν : Nums} {order : List Nat} {npos : Nat} {probs : Option Probs} {colors : List PyStr}
    {ps : List Piece} (hp : ProbsOk probs) (h : graphNodes ν order npos probs colors = .ok ps) :
    Shape ps (nodesSummary probs order) := by
  unfold graphNodes at h
  have := foldlM_prefix (fun pre acc => Shape acc (nodesSummary probs pre)) _ _ [] [] ps
    (Shape.nil.cast (by simp [nodesSummary, Summary.zero])) ?_ h
  · simpa using this
  · intro pre x acc acc' hacc hstep
    split at hstep
    · simp at hstep
    · split at hstep
      · rename_i s hs
        simp only [Except.ok.injEq] at hstep
        subst hstep
        exact (Shape.append hacc (nodeShape_shape hp hs)).cast (nodesSummary_snoc _ _ _)
      · simp at hstep

theorem nodeLoop_shape {ν : Nums} {side n : Nat} {probs : Option Probs} {colors : List PyStr}
    {ps : List Piece} (hp : ProbsOk probs) (h : nodeLoop ν side n probs colors = .ok ps) :
    Shape ps (nodesSummary probs (List.range n)) := by
  unfold nodeLoop at h
  have := foldlM_prefix (fun pre acc => Shape acc (nodesSummary probs pre)) _ _ [] [] ps
    (Shape.nil.cast (by simp [nodesSummary, Summary.zero])) ?_ h
  · simpa using this
  · intro pre x acc acc' hacc hstep
    split at hstep
    · rename_i s hs
      simp only [Except.ok.injEq] at hstep
      subst hstep
      exact (Shape.append hacc (nodeShape_shape hp hs)).cast (nodesSummary_snoc _ _ _)
    · simp at hstep

/-! ### names -/

theorem textLoop_shape {ν : Nums} {side n : Nat} {names : List PyStr} {np : NamePos} {ps : List Piece}
    (h : textLoop ν side n names np = .ok ps) :
    Shape ps ⟨0, 0, 0, (List.range n).map fun i => displayed (names.getD i [])⟩ := by
  unfold textLoop at h
  have := foldlM_prefix (fun pre acc => Shape acc ⟨0, 0, 0, pre.map fun i => displayed (names.getD i [])⟩)
    _ _ [] [] ps Shape.nil ?_ h
  · simpa using this
  · intro pre x acc acc' hacc hstep
    split at hstep
    · simp only [Except.ok.injEq] at hstep
      subst hstep
      exact (Shape.append hacc (svgText_shape _ _ _)).cast (by simp [Summary.add])
    · simp at hstep

/-- the displayed texts of an optional list of names for `n` nodes -/
def namesTexts (n : Nat) (names : Option (List PyStr)) : List PyStr :=
  match names with
  | none => []
  | some names => (List.range n).map fun i => displayed (names.getD i [])

theorem namesText_shape {ν : Nums} {side n : Nat} {names : Option (List PyStr)} {np : NamePos} {ps : List Piece}
    (h : namesText ν side n names np = .ok ps) : Shape ps ⟨0, 0, 0, namesTexts n names⟩ := by
  unfold namesText at h
  split at h
  · exact textLoop_shape h
  · simp only [pure, Except.pure, Except.ok.injEq] at h
    exact h ▸ Shape.nil

end SkNet.Svg
