/-
C15 lemmas for the functions that read the CSR arrays: get_weights / get_degrees / get_neighbors (with scipy's
csc → csr conversion for `transpose=True`) and the matrix built by get_membership, against the dense matrix
the arrays denote.
-/
import SkNet.Lemmas.Convert
open SkNet SkNet.LinOp SkNet.Convert

namespace SkNet.Convert

/-- `l.foldl (·+·) 0` -/
def fsum (l : List Rat) : Rat := l.foldl (· + ·) 0

theorem foldl_add_init (l : List Rat) (a : Rat) : l.foldl (· + ·) a = a + fsum l := by
  unfold fsum
  induction l generalizing a with
  | nil => simp
  | cons x xs ih => rw [List.foldl_cons, List.foldl_cons, ih, ih (0 + x)]; ring

@[simp] theorem fsum_nil : fsum [] = 0 := rfl
theorem fsum_cons (a : Rat) (l : List Rat) : fsum (a :: l) = a + fsum l := by
  unfold fsum; rw [List.foldl_cons, foldl_add_init]; unfold fsum; ring
theorem fsum_append (l1 l2 : List Rat) : fsum (l1 ++ l2) = fsum l1 + fsum l2 := by
  induction l1 with
  | nil => simp
  | cons a l ih => rw [List.cons_append, fsum_cons, fsum_cons, ih]; ring

/-- sum of the values stored at column `j` in a list of (column, value) entries -/
def colSum (es : List (Nat × Rat)) (j : Nat) : Rat := fsum ((es.filter fun e => e.1 == j).map (·.2))

@[simp] theorem colSum_nil (j : Nat) : colSum [] j = 0 := rfl
theorem colSum_cons (e : Nat × Rat) (es : List (Nat × Rat)) (j : Nat) :
    colSum (e :: es) j = (if e.1 = j then e.2 else 0) + colSum es j := by
  unfold colSum
  by_cases h : e.1 = j
  · simp [List.filter_cons, h, fsum_cons]
  · simp [List.filter_cons, h]
theorem colSum_append (l1 l2 : List (Nat × Rat)) (j : Nat) : colSum (l1 ++ l2) j = colSum l1 j + colSum l2 j := by
  unfold colSum; rw [List.filter_append, List.map_append, fsum_append]

/-- summing the column sums over all columns gives the sum of all stored values -/
theorem sum_colSum {n : Nat} (es : List (Nat × Rat)) (h : ∀ e ∈ es, e.1 < n) :
    sumTo n (colSum es) = fsum (es.map (·.2)) := by
  induction es with
  | nil => exact sumTo_eq_zero (fun k _ => colSum_nil k)
  | cons e es ih =>
    rw [show colSum (e :: es) = fun j => (if e.1 = j then e.2 else 0) + colSum es j from funext (colSum_cons e es)]
    rw [sumTo_add, ih (fun x hx => h x (List.mem_cons_of_mem _ hx)), List.map_cons, fsum_cons]
    rw [sumTo_ite_eq' n e.1 (fun _ => e.2), if_pos (h e (List.mem_cons_self ..))]

theorem get_csrDense (c : Csr Rat) {i j : Nat} (hi : i < c.nRow) (hj : j < c.nCol) :
    (csrDense c).get i j = colSum (c.row i) j := by
  unfold csrDense colSum fsum; rw [Mat.get_ofFn]; simp [hi, hj]

/-- every stored column index of the matrix is inside the declared shape (part of scipy's invariant) -/
def InRange (c : Csr Rat) : Prop := ∀ i, ∀ e ∈ c.row i, e.1 < c.nCol

/-- **get_weights** (not transposed): the row sums of the dense matrix the CSR arrays denote (duplicates add up,
explicit zeros count for nothing) -/
theorem weights_eq_rowSums (c : Csr Rat) (h : InRange c) :
    (tab c.nRow fun i => ((c.row i).map (·.2)).foldl (· + ·) 0) = (csrDense c).rowSums := by
  apply vec_ext (by simp [csrDense, Mat.rowSums])
  intro i hi
  simp only [tab_length] at hi
  rw [vget_tab, if_pos hi]
  unfold Mat.rowSums
  rw [Mat.vget_mulVec]
  have : sumTo (csrDense c).nCol (fun j => (csrDense c).get i j * vget (ones (csrDense c).nCol) j)
      = sumTo c.nCol (colSum (c.row i)) := by
    apply sumTo_congr; intro j hj
    have hj' : j < c.nCol := hj
    rw [get_csrDense c hi hj']
    show _ * vget (ones c.nCol) j = _
    simp [hj']
  rw [this, sum_colSum _ (h i)]
  rfl

/-- offset of the `j`-th block in a flattened list of blocks -/
def blockOffset {γ : Type} (L : List (List γ)) (j : Nat) : Nat := ((L.map List.length).take j).foldl (· + ·) 0

theorem foldl_add_nat (l : List Nat) (a : Nat) : l.foldl (· + ·) a = a + l.foldl (· + ·) 0 := by
  induction l generalizing a with
  | nil => simp
  | cons x xs ih => rw [List.foldl_cons, List.foldl_cons, ih, ih (0 + x)]; omega

theorem blockOffset_zero {γ : Type} (L : List (List γ)) : blockOffset L 0 = 0 := by simp [blockOffset]

theorem blockOffset_cons_succ {γ : Type} (x : List γ) (xs : List (List γ)) (j : Nat) :
    blockOffset (x :: xs) (j+1) = x.length + blockOffset xs j := by
  unfold blockOffset
  simp only [List.map_cons, List.take_succ_cons, List.foldl_cons]
  rw [foldl_add_nat]; omega

theorem blockOffset_succ {γ : Type} (L : List (List γ)) (j : Nat) (hj : j < L.length) :
    blockOffset L (j+1) = blockOffset L j + (L.getD j []).length := by
  induction L generalizing j with
  | nil => simp at hj
  | cons x xs ih =>
    cases j with
    | zero => simp [blockOffset]
    | succ j =>
      rw [blockOffset_cons_succ, blockOffset_cons_succ, ih j (by simpa using hj)]
      simp [List.getD_cons_succ]; omega

/-- reading the flattened list at `offset j + t` gives the `t`-th element of block `j` -/
theorem getD_flatten_offset {γ : Type} (L : List (List γ)) (j t : Nat) (d : γ) (hj : j < L.length)
    (ht : t < (L.getD j []).length) :
    L.flatten.getD (blockOffset L j + t) d = (L.getD j []).getD t d := by
  induction L generalizing j with
  | nil => simp at hj
  | cons x xs ih =>
    cases j with
    | zero =>
      simp only [List.getD_cons_zero] at ht ⊢
      rw [blockOffset_zero, Nat.zero_add, List.flatten_cons, List.getD_eq_getElem?_getD, List.getD_eq_getElem?_getD,
        List.getElem?_append_left ht]
    | succ j =>
      simp only [List.getD_cons_succ] at ht ⊢
      rw [blockOffset_cons_succ, List.flatten_cons, List.getD_eq_getElem?_getD,
        List.getElem?_append_right (by omega)]
      have : x.length + blockOffset xs j + t - x.length = blockOffset xs j + t := by omega
      rw [this, ← List.getD_eq_getElem?_getD]
      exact ih j (by simpa using hj) ht

/-- the entries that `csr_matrix(A.T)` stores in its row `j` -/
def transposedRow (c : Csr Rat) (j : Nat) : List (Nat × Rat) :=
  (List.range c.nRow).flatMap fun i => ((c.row i).filter fun e => e.1 == j).map fun e => (i, e.2)

theorem csrTranspose_row (c : Csr Rat) (j : Nat) (hj : j < c.nCol) :
    (csrTranspose c).row j = transposedRow c j := by
  -- the blocks
  let ents : List (List (Nat × Rat)) := tab c.nCol fun j => transposedRow c j
  have hents : ents.length = c.nCol := by simp [ents]
  have hgetj : ents.getD j [] = transposedRow c j := by
    show (tab c.nCol fun j => transposedRow c j).getD j [] = _
    rw [tab_getD, if_pos hj]
  have hidx : (csrTranspose c).indices = ((ents.map fun r => r.map (·.1)).flatten).toArray := by
    unfold csrTranspose; simp [ents, transposedRow, List.flatMap]
  have hdat : (csrTranspose c).data = ((ents.map fun r => r.map (·.2)).flatten).toArray := by
    unfold csrTranspose; simp [ents, transposedRow, List.flatMap]
  have hptr : ∀ k, k ≤ c.nCol → (csrTranspose c).indptr.getD k 0 = blockOffset ents k := by
    intro k hk
    unfold csrTranspose
    simp only [toArray_getD, tab_getD, Nat.lt_succ_of_le hk, if_true]
    rfl
  have hlenj : (blockOffset ents (j+1)) - blockOffset ents j = (transposedRow c j).length := by
    rw [blockOffset_succ ents j (by rw [hents]; exact hj), hgetj]; omega
  unfold Csr.row Csr.rowRange
  rw [hptr j (Nat.le_of_lt hj), hptr (j+1) hj]
  show List.map _ (List.map (fun x => x + blockOffset ents j) (List.range (blockOffset ents (j+1) - blockOffset ents j))) = _
  rw [hlenj, List.map_map]
  apply List.ext_getElem (by simp)
  intro t h1 h2
  simp only [List.length_map, List.length_range] at h1
  simp only [List.getElem_map, List.getElem_range, Function.comp]
  have hmm : ∀ {β : Type} (f : Nat × Rat → β), (ents.map fun r => r.map f).getD j [] = (transposedRow c j).map f := by
    intro β f
    rw [List.getD_eq_getElem?_getD, List.getElem?_map, ← hgetj, List.getD_eq_getElem?_getD]
    cases ents[j]? <;> simp
  have hb : ∀ {β : Type} (f : Nat × Rat → β), blockOffset (ents.map fun r => r.map f) j = blockOffset ents j := by
    intro β f; unfold blockOffset; simp [List.map_map, Function.comp_def]
  have e1 : (csrTranspose c).indices.getD (t + blockOffset ents j) 0 = ((transposedRow c j).map (·.1)).getD t 0 := by
    rw [hidx, toArray_getD, Nat.add_comm]
    have := getD_flatten_offset (ents.map fun r => r.map (·.1)) j t 0 (by simp [hents, hj])
      (by rw [hmm]; simpa using h1)
    rw [hb, hmm] at this
    exact this
  have e2 : (csrTranspose c).data.getD (t + blockOffset ents j) default = ((transposedRow c j).map (·.2)).getD t default := by
    rw [hdat, toArray_getD, Nat.add_comm]
    have := getD_flatten_offset (ents.map fun r => r.map (·.2)) j t (default : Rat) (by simp [hents, hj])
      (by rw [hmm]; simpa using h1)
    rw [hb, hmm] at this
    exact this
  rw [e1, e2]
  simp [List.getD_eq_getElem?_getD, List.getElem?_eq_getElem h1]


theorem colSum_block (row : List (Nat × Rat)) (j i' i : Nat) :
    colSum ((row.filter fun e => e.1 == j).map fun e => (i', e.2)) i = if i' = i then colSum row j else 0 := by
  induction row with
  | nil => simp
  | cons e es ih =>
    by_cases h : e.1 = j
    · have : (List.filter (fun e => e.1 == j) (e :: es)) = e :: List.filter (fun e => e.1 == j) es := by
        simp [List.filter_cons, h]
      rw [this, List.map_cons, colSum_cons, colSum_cons, ih]
      by_cases h2 : i' = i <;> simp [h, h2]
    · have : (List.filter (fun e => e.1 == j) (e :: es)) = List.filter (fun e => e.1 == j) es := by
        simp [List.filter_cons, h]
      rw [this, colSum_cons, ih]
      by_cases h2 : i' = i <;> simp [h, h2]

theorem colSum_flatMap_range (n : Nat) (B : Nat → List (Nat × Rat)) (i : Nat) :
    colSum ((List.range n).flatMap B) i = sumTo n (fun i' => colSum (B i') i) := by
  induction n with
  | zero => simp
  | succ n ih => rw [List.range_succ, List.flatMap_append, colSum_append, ih, sumTo_succ]; simp

theorem colSum_transposedRow (c : Csr Rat) (j i : Nat) (hi : i < c.nRow) :
    colSum (transposedRow c j) i = colSum (c.row i) j := by
  unfold transposedRow
  rw [colSum_flatMap_range]
  rw [sumTo_congr (fun i' _ => colSum_block (c.row i') j i' i), sumTo_ite_eq, if_pos hi]

/-- **`csr_matrix(A.T)` denotes the transposed matrix** (the CSR arrays built by the csc → csr conversion) -/
theorem csrTranspose_dense (c : Csr Rat) : Mat.Eqv (csrDense (csrTranspose c)) (csrDense c).transpose := by
  refine ⟨rfl, rfl, fun j i => ?_⟩
  rw [Mat.get_transpose]
  by_cases hji : j < c.nCol ∧ i < c.nRow
  · obtain ⟨hj, hi⟩ := hji
    rw [get_csrDense (csrTranspose c) (by exact hj) (by exact hi), csrTranspose_row c j hj,
      colSum_transposedRow c j i hi, get_csrDense c hi hj]
  · rw [Mat.get_of_not_lt (a := csrDense (csrTranspose c)) (by exact hji),
      Mat.get_of_not_lt (a := csrDense c) (by exact fun h => hji ⟨h.2, h.1⟩)]

theorem csrTranspose_row_ge (c : Csr Rat) (j : Nat) (hj : c.nCol ≤ j) : (csrTranspose c).row j = [] := by
  unfold Csr.row Csr.rowRange csrTranspose
  simp only [toArray_getD, tab_getD]
  have : ¬ j + 1 < c.nCol + 1 := by omega
  simp [this]

theorem csrTranspose_inRange (c : Csr Rat) : InRange (csrTranspose c) := by
  intro j e he
  by_cases hj : j < c.nCol
  · rw [csrTranspose_row c j hj] at he
    unfold transposedRow at he
    obtain ⟨i, hi, he⟩ := List.mem_flatMap.mp he
    obtain ⟨x, _, rfl⟩ := List.mem_map.mp he
    exact List.mem_range.mp hi
  · rw [csrTranspose_row_ge c j (Nat.le_of_not_lt hj)] at he
    cases he

/-- **get_weights**: the row sums of the dense matrix the CSR arrays denote, the column sums with `transpose=True` -/
theorem getWeights_spec (c : Csr Rat) (h : InRange c) (tr : Bool) :
    getWeights c tr = (if tr then (csrDense c).transpose else csrDense c).rowSums := by
  cases tr with
  | false => exact weights_eq_rowSums c h
  | true =>
    have := weights_eq_rowSums (csrTranspose c) (csrTranspose_inRange c)
    show (tab (csrTranspose c).nRow fun i => (((csrTranspose c).row i).map (·.2)).foldl (· + ·) 0) = _
    rw [this]
    exact Mat.Eqv.rowSums (csrTranspose_dense c)

end SkNet.Convert

namespace SkNet.Convert

theorem rowIdx_eq (c : Csr Rat) (i : Nat) : c.rowIdx i = (c.row i).map (·.1) := by
  unfold Csr.rowIdx Csr.row; rw [List.map_map]; rfl

/-- **get_neighbors** (not transposed): the stored column indices of the row, `IndexError` past the last row -/
theorem getNeighbors_spec (c : Csr Rat) (node : Nat) :
    getNeighbors c node false = if node < c.nRow then .ok ((c.row node).map (·.1)) else .error .indexError := by
  unfold getNeighbors orT
  by_cases h : node < c.nRow
  · have : ¬ c.nRow ≤ node := by omega
    simp [h, this, rowIdx_eq]
  · have : c.nRow ≤ node := by omega
    simp [h, this]

/-- **get_neighbors(transpose=True)**: the rows that store the column `node`, by increasing row
(once per stored entry) -/
theorem getNeighbors_transpose_spec (c : Csr Rat) (node : Nat) (h : node < c.nCol) :
    getNeighbors c node true
      = .ok ((List.range c.nRow).flatMap fun i => ((c.row i).filter fun e => e.1 == node).map fun _ => i) := by
  unfold getNeighbors orT
  have : ¬ (csrTranspose c).nRow ≤ node := by show ¬ c.nCol ≤ node; omega
  simp only [if_true, this, if_false]
  rw [rowIdx_eq, csrTranspose_row c node h]
  unfold transposedRow
  rw [List.map_flatMap]
  simp [List.map_map, Function.comp_def]

/-- **get_degrees**: the number of stored entries of every row; with `transpose=True` of every column -/
theorem getDegrees_spec (c : Csr Rat) :
    getDegrees c false = tab c.nRow (fun i => (c.row i).length) ∧
    getDegrees c true = tab c.nCol (fun j => (transposedRow c j).length) := by
  constructor
  · unfold getDegrees orT degrees
    apply tab_congr; intro i _
    unfold Csr.row Csr.rowRange; simp
  · unfold getDegrees orT degrees
    show tab c.nCol _ = _
    apply tab_congr; intro j hj
    rw [← csrTranspose_row c j hj]
    unfold Csr.row Csr.rowRange; simp

end SkNet.Convert

namespace SkNet.Convert

theorem filter_position (l : List Int) (i : Nat) (hi : i < l.length) (hp : 0 ≤ l[i]) :
    (l.filter (0 ≤ ·)).getD (countNonneg l i) 0 = l[i] := by
  unfold countNonneg
  have hsplit : l = l.take i ++ l[i] :: l.drop (i+1) := by
    conv => lhs; rw [← List.take_append_drop i l]
    rw [List.drop_eq_getElem_cons hi]
  have : l.filter (0 ≤ ·) = (l.take i).filter (0 ≤ ·) ++ l[i] :: (l.drop (i+1)).filter (0 ≤ ·) := by
    conv => lhs; rw [hsplit]
    rw [List.filter_append, List.filter_cons]
    simp [hp]
  rw [this, List.getD_eq_getElem?_getD, List.getElem?_append_right (Nat.le_refl _)]
  simp

theorem membership_row (l : List Int) (m : Int) (i : Nat) (hi : i < l.length) :
    (membershipCsr l m).row i = if 0 ≤ l[i] then [((l[i]).toNat, 1)] else [] := by
  unfold Csr.row Csr.rowRange membershipCsr
  simp only [toArray_getD, tab_getD]
  have h1 : i < l.length + 1 := by omega
  have h2 : i + 1 < l.length + 1 := by omega
  simp only [h1, h2, if_true]
  rw [countNonneg_succ l i hi, List.getD_eq_getElem?_getD, List.getElem?_eq_getElem hi]
  by_cases hp : 0 ≤ l[i]
  · simp only [Option.getD_some, hp, if_true]
    have e : countNonneg l i + 1 - countNonneg l i = 1 := by omega
    rw [e]
    simp only [List.range_one, List.map_cons, List.map_nil, Nat.zero_add]
    have hk := filter_position l i hi hp
    have hlen : countNonneg l i < (l.filter (0 ≤ ·)).length := by
      unfold countNonneg
      have hsplit : l = l.take i ++ l[i] :: l.drop (i+1) := by
        conv => lhs; rw [← List.take_append_drop i l]
        rw [List.drop_eq_getElem_cons hi]
      conv => rhs; rw [hsplit]
      rw [List.filter_append, List.filter_cons]
      simp [hp]
    have e1 : (List.map Int.toNat (List.filter (fun x => decide (0 ≤ x)) l)).getD (countNonneg l i) 0 = (l[i]).toNat := by
      rw [List.getD_eq_getElem?_getD] at hk
      rw [List.getD_eq_getElem?_getD, List.getElem?_map]
      rw [List.getElem?_eq_getElem hlen] at hk ⊢
      simp only [Option.getD_some, Option.map_some] at hk ⊢
      rw [hk]
    have e2 : (List.map (fun _ => (1 : Rat)) (List.filter (fun x => decide (0 ≤ x)) l)).getD (countNonneg l i) default = 1 := by
      rw [List.getD_eq_getElem?_getD, List.getElem?_map, List.getElem?_eq_getElem hlen]; rfl
    rw [e1, e2]
  · simp [hp]

/-- **get_membership builds the indicator matrix of the labels**: entry `(i, j)` is 1 exactly when `labels[i] = j` -/
theorem membership_dense (l : List Int) (m : Int) (i j : Nat) (hi : i < l.length) (hj : j < m.toNat) :
    (csrDense (membershipCsr l m)).get i j = if l[i] = (j : Int) then 1 else 0 := by
  rw [get_csrDense _ (by exact hi) (by exact hj), membership_row l m i hi]
  by_cases hp : 0 ≤ l[i]
  · simp only [hp, if_true, colSum_cons, colSum_nil]
    by_cases e : l[i] = (j : Int)
    · have : (l[i]).toNat = j := by rw [e]; simp
      simp [e, this]
    · have : ¬ (l[i]).toNat = j := by
        intro h; apply e; rw [← h]; exact (Int.toNat_of_nonneg hp).symm
      simp [e, this]
  · have : ¬ l[i] = (j : Int) := by
      intro h; apply hp; rw [h]; exact Int.natCast_nonneg j
    simp [hp, this]

end SkNet.Convert

/-! ### get_norms / normalize with p = 2 -/

namespace SkNet.LinOp

theorem vget_norms2sq (a : Mat) (i : Nat) : vget (norms2sq a) i = sumTo a.nCol (fun j => a.get i j * a.get i j) := by
  unfold norms2sq Mat.rowSums
  rw [Mat.vget_mulVec, Mat.ofFn_nCol]
  apply sumTo_congr; intro j hj
  rw [Mat.get_ofFn]
  by_cases hi : i < a.nRow
  · simp [hi, hj]
  · simp [hi, hj, Mat.get_of_row_ge j (Nat.le_of_not_lt hi)]

theorem get_normalize2 (a : Mat) (s : Vec) (i j : Nat) :
    (normalize2 a s).get i j = pinv (vget s i) * a.get i j := by
  unfold normalize2
  rw [Mat.get_scaleRows, vget_pinvVec]

/-- **normalize(matrix, p=2)**, given `s = np.sqrt(Σ_j a_ij²)` with the contract `s ≥ 0`, `s² = Σ_j a_ij²`:
rows of 2-norm 1, null rows stay null, each row a non-negative multiple of the input row -/
theorem normalize2_spec (a : Mat) (s : Vec) (i : Nat) (hs0 : 0 ≤ vget s i)
    (hs : vget s i * vget s i = vget (norms2sq a) i) :
    (sumTo a.nCol (fun j => (normalize2 a s).get i j * (normalize2 a s).get i j)
        = if vget (norms2sq a) i = 0 then 0 else 1) ∧
    (∀ j, (normalize2 a s).get i j * vget s i = a.get i j) ∧
    (∀ j, 0 ≤ (normalize2 a s).get i j * a.get i j) := by
  have hsq : ∀ j, j < a.nCol → vget (norms2sq a) i = 0 → a.get i j = 0 := by
    intro j hj h0
    rw [vget_norms2sq] at h0
    have := (sumTo_eq_zero_iff (fun k _ => mul_self_nonneg (a.get i k))).mp h0 j hj
    exact mul_self_eq_zero.mp this
  by_cases h0 : vget s i = 0
  · have hn : vget (norms2sq a) i = 0 := by rw [← hs, h0]; ring
    refine ⟨?_, fun j => ?_, fun j => ?_⟩
    · rw [if_pos hn]
      apply sumTo_eq_zero; intro j _
      rw [get_normalize2, h0]; simp [pinv]
    · rw [get_normalize2, h0]
      by_cases hj : j < a.nCol
      · rw [hsq j hj hn]; ring
      · rw [Mat.get_of_col_ge i (Nat.le_of_not_lt hj)]; ring
    · rw [get_normalize2, h0]; simp [pinv]
  · have hn : vget (norms2sq a) i ≠ 0 := by
      rw [← hs]; exact mul_ne_zero h0 h0
    have hp : pinv (vget s i) * vget s i = 1 := pinv_mul_self h0
    refine ⟨?_, fun j => ?_, fun j => ?_⟩
    · rw [if_neg hn]
      have e : ∀ j, (normalize2 a s).get i j * (normalize2 a s).get i j
          = (pinv (vget s i) * pinv (vget s i)) * (a.get i j * a.get i j) := by
        intro j; rw [get_normalize2]; ring
      rw [sumTo_congr (fun j _ => e j), sumTo_mul_left, ← vget_norms2sq, ← hs]
      calc pinv (vget s i) * pinv (vget s i) * (vget s i * vget s i)
          = (pinv (vget s i) * vget s i) * (pinv (vget s i) * vget s i) := by ring
        _ = 1 := by rw [hp]; ring
    · rw [get_normalize2, mul_comm (pinv _), mul_assoc, hp]; ring
    · rw [get_normalize2]
      have : 0 ≤ pinv (vget s i) := pinv_nonneg hs0
      calc 0 ≤ pinv (vget s i) * (a.get i j * a.get i j) := mul_nonneg this (mul_self_nonneg _)
        _ = pinv (vget s i) * a.get i j * a.get i j := by ring

end SkNet.LinOp

/-! ### scipy's invariant; specification predicates of the driver hold of the model -/

namespace SkNet.Convert

/-- scipy's invariant of a constructed CSR matrix (`Csr.WF` of Model/Basic.lean) gives the hypothesis of
`get_weights_spec`: every stored column index of every row is inside the shape -/
theorem inRange_of_wf (c : Csr Rat) (h : c.WF = true) : InRange c := by
  unfold Csr.WF at h
  simp only [Bool.and_eq_true, beq_iff_eq, List.all_eq_true, List.mem_range, decide_eq_true_eq,
    Array.all_eq_true] at h
  obtain ⟨⟨⟨⟨⟨hsz, h0⟩, hlast⟩, hdat⟩, hmono⟩, hidx⟩ := h
  -- indptr is monotone up to the last row
  have hchain : ∀ k i, i + k ≤ c.nRow → c.indptr.getD i 0 ≤ c.indptr.getD (i + k) 0 := by
    intro k
    induction k with
    | zero => intro i _; exact Nat.le_refl _
    | succ k ih =>
      intro i hik
      have h1 := ih i (by omega)
      have h2 := hmono (i + k) (by omega)
      have : i + (k + 1) = i + k + 1 := by omega
      rw [this]
      exact Nat.le_trans h1 h2
  intro i e he
  unfold Csr.row Csr.rowRange at he
  obtain ⟨p, hp, rfl⟩ := List.mem_map.mp he
  obtain ⟨t, ht, rfl⟩ := List.mem_map.mp hp
  have ht' := List.mem_range.mp ht
  by_cases hi : i < c.nRow
  · have hle : c.indptr.getD (i + 1) 0 ≤ c.indices.size := by
      have := hchain (c.nRow - (i + 1)) (i + 1) (by omega)
      have e : i + 1 + (c.nRow - (i + 1)) = c.nRow := by omega
      rw [e, hlast] at this
      exact this
    have hp' : t + c.indptr.getD i 0 < c.indices.size := by omega
    have := hidx (t + c.indptr.getD i 0) hp'
    simp only [Array.getD, hp', dite_true]
    exact this
  · -- past the last row `indptr[i+1]` is read outside the array: the row is empty
    have : c.indptr.getD (i + 1) 0 = 0 := by
      simp only [Array.getD]
      have : ¬ i + 1 < c.indptr.size := by rw [hsz]; omega
      simp [this]
    rw [this] at ht'
    omega

end SkNet.Convert

namespace SkNet.Convert

theorem foldl_ge {β : Type} (f : Rat → β → Rat) (hf : ∀ m x, m ≤ f m x) (l : List β) (m0 : Rat) :
    m0 ≤ l.foldl f m0 := by
  induction l generalizing m0 with
  | nil => exact le_refl _
  | cons x xs ih => rw [List.foldl_cons]; exact le_trans (hf m0 x) (ih _)

theorem matMaxAbs_nonneg (a : Mat) : 0 ≤ matMaxAbs a := by
  unfold matMaxAbs
  apply foldl_ge
  intro m i
  apply foldl_ge
  intro m j
  split
  · rename_i h; exact le_of_lt h
  · exact le_refl _

/-- the specification evaluated on the implementation's `get_laplacian` holds of the model's output -/
theorem laplacianSpec_model (tol : Rat) (ht : 0 ≤ tol) (a l : Mat) (h : getLaplacian a = .ok l) :
    LaplacianSpec tol a l = true := by
  obtain ⟨hsq, hr, hc, hget, hsum⟩ := getLaplacian_spec h
  unfold LaplacianSpec rowAll colAll
  have hsc : 0 ≤ matMaxAbs a * (a.nCol : Rat) := mul_nonneg (matMaxAbs_nonneg a) (by exact_mod_cast Nat.zero_le _)
  simp only [Bool.and_eq_true, beq_iff_eq, List.all_eq_true, List.mem_range, Bool.or_eq_true]
  refine ⟨⟨⟨hsq, hr⟩, by rw [hc, hsq]⟩, fun i hi => ⟨?_, fun j hj => ?_⟩⟩
  · apply close_of_eq ht hsc
    rw [← hsq]; exact hsum i hi
  · by_cases e : i = j
    · exact Or.inl e
    · right
      apply close_of_eq ht hsc
      rw [hget i j hi (by rw [hsq]; exact hj)]
      simp [e]

/-- the specification evaluated on the implementation's `get_membership` holds of the model's output -/
theorem membershipCols_nCol {l : List Int} {nl : Option Nat} {m : Int} (hm : membershipCols l nl = .ok m) :
    m.toNat = membershipNCol l nl := by
  unfold membershipCols at hm
  unfold membershipNCol
  cases nl with
  | some k => simp only at hm ⊢; cases hm; simp
  | none =>
    simp only at hm ⊢
    cases l with
    | nil => simp [maxPlusOne] at hm
    | cons x xs =>
      simp only [maxPlusOne] at hm
      cases hm
      simp [List.foldl_cons, List.headD]

theorem membershipSpec_model (l : List Int) (nl : Option Nat) (m : Int) (hm : membershipCols l nl = .ok m) :
    MembershipSpec l nl (csrDense (membershipCsr l m)) = true := by
  unfold MembershipSpec rowAll colAll
  simp only [Bool.and_eq_true, beq_iff_eq, List.all_eq_true, List.mem_range]
  refine ⟨⟨rfl, membershipCols_nCol hm⟩, fun i hi j hj => ?_⟩
  have hi' : i < l.length := hi
  have hj' : j < m.toNat := hj
  rw [membership_dense l m i j hi' hj', List.getD_eq_getElem?_getD, List.getElem?_eq_getElem hi']
  rfl

end SkNet.Convert

/-! ### neighbours and degrees of a canonical CSR matrix against the dense matrix -/

namespace SkNet.Convert

/-- scipy's canonical format without explicit zeros: in every row the stored columns increase strictly and no
stored value is zero -/
def Canonical (c : Csr Rat) : Prop :=
  ∀ i, ((c.row i).map (·.1)).Pairwise (· < ·) ∧ ∀ e ∈ c.row i, e.2 ≠ 0

theorem colSum_eq_zero_of_not_mem (es : List (Nat × Rat)) (j : Nat) (h : j ∉ es.map (·.1)) : colSum es j = 0 := by
  induction es with
  | nil => rfl
  | cons e es ih =>
    rw [colSum_cons]
    have h1 : e.1 ≠ j := fun c => h (by simp [c])
    have h2 : j ∉ es.map (·.1) := fun c => h (by simp at c ⊢; exact Or.inr c)
    rw [ih h2]; simp [h1]

/-- with distinct stored columns and no stored zero, the dense entry is non-zero exactly at the stored columns -/
theorem colSum_ne_zero_iff (es : List (Nat × Rat)) (hs : (es.map (·.1)).Pairwise (· < ·))
    (hv : ∀ e ∈ es, e.2 ≠ 0) (j : Nat) : colSum es j ≠ 0 ↔ j ∈ es.map (·.1) := by
  induction es with
  | nil => simp
  | cons e es ih =>
    rw [List.map_cons, List.pairwise_cons] at hs
    rw [colSum_cons]
    have ih' := ih hs.2 (fun x hx => hv x (List.mem_cons_of_mem _ hx))
    by_cases h1 : e.1 = j
    · have hnot : j ∉ es.map (·.1) := by
        intro c
        have := hs.1 j c
        omega
      rw [colSum_eq_zero_of_not_mem es j hnot]
      simp [h1, hv e (List.mem_cons_self ..)]
    · simp only [h1, if_false, zero_add, List.map_cons, List.mem_cons]
      rw [ih']
      constructor
      · intro h; exact Or.inr h
      · rintro (h | h)
        · exact absurd h.symm h1
        · exact h

theorem sortNat_of_sorted (l : List Nat) (h : l.Pairwise (· < ·)) : sortNat l = l := by
  induction l with
  | nil => rfl
  | cons a t ih =>
    rw [List.pairwise_cons] at h
    unfold sortNat
    rw [List.foldr_cons]
    have : List.foldr insertNat [] t = t := ih h.2
    rw [this]
    cases t with
    | nil => rfl
    | cons b t' =>
      unfold insertNat
      have : a ≤ b := Nat.le_of_lt (h.1 b (List.mem_cons_self ..))
      simp [this]

/-- two strictly increasing lists with the same elements are equal -/
theorem pairwise_lt_ext : ∀ (l1 l2 : List Nat), l1.Pairwise (· < ·) → l2.Pairwise (· < ·) →
    (∀ x, x ∈ l1 ↔ x ∈ l2) → l1 = l2
  | [], [], _, _, _ => rfl
  | [], b :: t, _, _, hm => absurd ((hm b).mpr (List.mem_cons_self ..)) (by simp)
  | a :: s, [], _, _, hm => absurd ((hm a).mp (List.mem_cons_self ..)) (by simp)
  | a :: s, b :: t, h1, h2, hm => by
    rw [List.pairwise_cons] at h1 h2
    have hab : a = b := by
      rcases List.mem_cons.mp ((hm a).mp (List.mem_cons_self ..)) with h | h
      · exact h
      · rcases List.mem_cons.mp ((hm b).mpr (List.mem_cons_self ..)) with h' | h'
        · exact h'.symm
        · have := h2.1 a h
          have := h1.1 b h'
          omega
    subst hab
    congr 1
    apply pairwise_lt_ext s t h1.2 h2.2
    intro x
    constructor
    · intro hx
      rcases List.mem_cons.mp ((hm x).mp (List.mem_cons_of_mem _ hx)) with h | h
      · have := h1.1 x hx; omega
      · exact h
    · intro hx
      rcases List.mem_cons.mp ((hm x).mpr (List.mem_cons_of_mem _ hx)) with h | h
      · have := h2.1 x hx; omega
      · exact h

/-- a strictly increasing list of numbers below `n` is the list of the numbers below `n` that it contains -/
theorem filter_range_eq_of_sorted (n : Nat) (l : List Nat) (hs : l.Pairwise (· < ·)) (hb : ∀ x ∈ l, x < n) :
    (List.range n).filter (fun j => decide (j ∈ l)) = l := by
  apply pairwise_lt_ext _ _ ((List.pairwise_lt_range (n := n)).sublist List.filter_sublist) hs
  intro x
  simp only [List.mem_filter, List.mem_range, decide_eq_true_eq]
  exact ⟨fun h => h.2, fun h => ⟨hb x h, h⟩⟩

/-- **get_neighbors against the dense matrix** (canonical CSR): the neighbours of a row are exactly the columns of its
non-zero entries, in increasing order — `NeighborsSpec`, the predicate the driver evaluates on the implementation's
output, holds of the model's output -/
theorem neighborsSpec_model (c : Csr Rat) (hr : InRange c) (hc : Canonical c) (node : Nat) (hn : node < c.nRow) :
    NeighborsSpec (csrDense c) node ((c.row node).map (·.1)) = true := by
  unfold NeighborsSpec
  rw [sortNat_of_sorted _ (hc node).1]
  simp only [beq_iff_eq]
  rw [← filter_range_eq_of_sorted c.nCol ((c.row node).map (·.1)) (hc node).1
    (fun x hx => by obtain ⟨e, he, rfl⟩ := List.mem_map.mp hx; exact hr node e he)]
  apply List.filter_congr
  intro j hj
  have hj' : j < c.nCol := List.mem_range.mp hj
  show decide _ = (_ != _)
  rw [get_csrDense c hn hj']
  have := colSum_ne_zero_iff (c.row node) (hc node).1 (hc node).2 j
  by_cases hm : j ∈ (c.row node).map (·.1)
  · simp [hm, this.mpr hm]
  · have : colSum (c.row node) j = 0 := by
      by_contra hne; exact hm (this.mp hne)
    simp [hm, this]

/-- **get_degrees against the dense matrix** (canonical CSR): the number of non-zero entries of every row -/
theorem degreesSpec_model (c : Csr Rat) (hr : InRange c) (hc : Canonical c) :
    DegreesSpec (csrDense c) (getDegrees c false) = true := by
  unfold DegreesSpec
  simp only [beq_iff_eq]
  rw [(getDegrees_spec c).1]
  show tab c.nRow _ = tab c.nRow _
  apply tab_congr
  intro i hi
  have h := neighborsSpec_model c hr hc i hi
  unfold NeighborsSpec at h
  rw [sortNat_of_sorted _ (hc i).1] at h
  simp only [beq_iff_eq] at h
  show (c.row i).length = ((List.range (csrDense c).nCol).filter fun j => (csrDense c).get i j != 0).length
  rw [← h]; simp

end SkNet.Convert

namespace SkNet.Convert

theorem filter_col_length_le_one (es : List (Nat × Rat)) (hs : (es.map (·.1)).Pairwise (· < ·)) (j : Nat) :
    (es.filter fun e => e.1 == j).length ≤ 1 := by
  induction es with
  | nil => simp
  | cons e es ih =>
    rw [List.map_cons, List.pairwise_cons] at hs
    by_cases h : e.1 = j
    · have hnone : es.filter (fun e => e.1 == j) = [] := by
        apply List.filter_eq_nil_iff.mpr
        intro x hx
        have := hs.1 x.1 (List.mem_map.mpr ⟨x, hx, rfl⟩)
        simp; omega
      simp [List.filter_cons, h, hnone]
    · have := ih hs.2
      simp [List.filter_cons, h, this]

theorem pairwise_flatMap_range (n : Nat) (L : Nat → List Nat) (hL : ∀ i, ∀ x ∈ L i, x = i)
    (h1 : ∀ i, (L i).length ≤ 1) : ((List.range n).flatMap L).Pairwise (· < ·) := by
  induction n with
  | zero => simp
  | succ n ih =>
    rw [List.range_succ, List.flatMap_append]
    simp only [List.flatMap_cons, List.flatMap_nil, List.append_nil]
    apply List.pairwise_append.mpr
    refine ⟨ih, ?_, ?_⟩
    · have := h1 n
      match hl : L n with
      | [] => simp
      | [a] => simp
      | a :: b :: t => rw [hl] at this; simp at this
    · intro a ha b hb
      obtain ⟨i, hi, hai⟩ := List.mem_flatMap.mp ha
      have e1 := hL i a hai
      have e2 := hL n b hb
      have := List.mem_range.mp hi
      omega

theorem canonical_transpose (c : Csr Rat) (hc : Canonical c) : Canonical (csrTranspose c) := by
  intro j
  by_cases hj : j < c.nCol
  · rw [csrTranspose_row c j hj]
    unfold transposedRow
    constructor
    · rw [List.map_flatMap]
      apply pairwise_flatMap_range
      · intro i x hx
        obtain ⟨e, _, rfl⟩ := List.mem_map.mp hx
        obtain ⟨e', _, rfl⟩ := List.mem_map.mp ‹e ∈ _›
        rfl
      · intro i
        simp only [List.length_map]
        exact filter_col_length_le_one (c.row i) (hc i).1 j
    · intro e he
      obtain ⟨i, _, he⟩ := List.mem_flatMap.mp he
      obtain ⟨x, hx, rfl⟩ := List.mem_map.mp he
      exact (hc i).2 x (List.mem_filter.mp hx).1
  · rw [csrTranspose_row_ge c j (Nat.le_of_not_lt hj)]
    exact ⟨by simp, by simp⟩

theorem neighborsSpec_congr {d1 d2 : Mat} (h : Mat.Eqv d1 d2) (node : Nat) (out : List Nat) :
    NeighborsSpec d1 node out = NeighborsSpec d2 node out := by
  unfold NeighborsSpec
  rw [h.nCol]
  congr 2
  funext j
  rw [h.get]

theorem degreesSpec_congr {d1 d2 : Mat} (h : Mat.Eqv d1 d2) (out : List Nat) :
    DegreesSpec d1 out = DegreesSpec d2 out := by
  unfold DegreesSpec
  rw [h.nRow, h.nCol]
  congr 2
  funext i
  congr 2
  funext j
  rw [h.get]

/-- **get_neighbors / get_degrees with `transpose=True`** against the transposed dense matrix (canonical CSR) -/
theorem neighborsSpec_transpose_model (c : Csr Rat) (hc : Canonical c) (node : Nat) (hn : node < c.nCol) :
    NeighborsSpec (csrDense c).transpose node (((csrTranspose c).row node).map (·.1)) = true := by
  rw [← neighborsSpec_congr (csrTranspose_dense c)]
  exact neighborsSpec_model (csrTranspose c) (csrTranspose_inRange c) (canonical_transpose c hc) node hn

theorem degreesSpec_transpose_model (c : Csr Rat) (hc : Canonical c) :
    DegreesSpec (csrDense c).transpose (getDegrees c true) = true := by
  rw [← degreesSpec_congr (csrTranspose_dense c)]
  exact degreesSpec_model (csrTranspose c) (csrTranspose_inRange c) (canonical_transpose c hc)

/-! ### the documented definitions of the format conversions and of tf-idf hold of the models' outputs -/

theorem d2uSpec_model (tol : Rat) (ht : 0 ≤ tol) (a m : Mat) (w : Bool) (h : directed2undirected a w = .ok m) :
    D2USpec tol a w m = true := by
  obtain ⟨hsq, hr, hc, hget, _⟩ := directed2undirected_spec h
  unfold D2USpec rowAll colAll
  have hsc : 0 ≤ 2 * matMaxAbs a := mul_nonneg (by norm_num) (matMaxAbs_nonneg a)
  simp only [Bool.and_eq_true, beq_iff_eq, List.all_eq_true, List.mem_range]
  refine ⟨⟨⟨hsq, hr⟩, hc⟩, fun i hi j hj => ?_⟩
  have hj' : j < a.nRow := by rw [hsq]; exact hj
  rw [hget i j hi hj']
  cases w with
  | true => simp only [if_true]; exact close_self ht hsc _
  | false => simp

theorem b2dSpec_model (tol : Rat) (ht : 0 ≤ tol) (b : Mat) : B2DSpec tol b (bipartite2directed b) = true := by
  unfold B2DSpec
  have hsc : 0 ≤ matMaxAbs b := matMaxAbs_nonneg b
  have hr : (bipartite2directed b).nRow = b.nRow + b.nCol := rfl
  have hc : (bipartite2directed b).nCol = b.nRow + b.nCol := rfl
  simp only [hr, hc, beq_self_eq_true, Bool.true_and, List.all_eq_true, List.mem_range]
  intro i hi j hj
  apply close_of_eq ht hsc
  rw [bipartite2directed_spec b i j hi hj]
  by_cases h : i < b.nRow ∧ b.nRow ≤ j
  · simp [h.1, h.2]
  · rw [if_neg h]
    by_cases h1 : i < b.nRow
    · have : ¬ b.nRow ≤ j := fun h2 => h ⟨h1, h2⟩
      simp [this]
    · simp [h1]

theorem b2uSpec_model (tol : Rat) (ht : 0 ≤ tol) (b : Mat) : B2USpec tol b (bipartite2undirected b) = true := by
  unfold B2USpec
  have hsc : 0 ≤ matMaxAbs b := matMaxAbs_nonneg b
  have hr : (bipartite2undirected b).nRow = b.nRow + b.nCol := rfl
  have hc : (bipartite2undirected b).nCol = b.nRow + b.nCol := rfl
  simp only [hr, hc, beq_self_eq_true, Bool.true_and, List.all_eq_true, List.mem_range]
  intro i hi j hj
  apply close_of_eq ht hsc
  rw [bipartite2undirected_spec b i j hi hj]
  by_cases h1 : i < b.nRow <;> by_cases h2 : j < b.nRow
  · have : ¬ b.nRow ≤ j := by omega
    have h3 : ¬ b.nRow ≤ i := by omega
    simp [h1, h2, this, h3]
  · have : b.nRow ≤ j := by omega
    simp [h1, h2, this]
  · have : b.nRow ≤ i := by omega
    simp [h1, h2, this]
  · have : b.nRow ≤ i := by omega
    simp [h1, h2]

theorem tfidfSpec_model (tol : Rat) (ht : 0 ≤ tol) (count : Mat) (logTable : List Rat) :
    TfidfSpec tol count logTable (getTfidf count logTable) = true := by
  unfold TfidfSpec rowAll colAll
  have hr : (getTfidf count logTable).nRow = count.nRow := rfl
  have hc : (getTfidf count logTable).nCol = count.nCol := rfl
  simp only [hr, hc, beq_self_eq_true, Bool.true_and, List.all_eq_true, List.mem_range]
  intro i hi j hj
  rw [getTfidf_spec count logTable i j hi hj, docFreq_spec count j hj]
  have hs : (sumTo count.nCol fun k => |count.get i k|) = sumTo count.nCol fun k => rabs (count.get i k) :=
    sumTo_congr (fun k _ => (rabs_eq_abs _).symm)
  rw [hs]
  by_cases h0 : (sumTo count.nCol fun k => rabs (count.get i k)) = 0
  · simp [h0, pinv]
  · simp only [h0, if_false]
    apply close_of_eq ht (mul_nonneg (sumTo_nonneg (fun k _ => rabs_nonneg _)) (rabs_nonneg _))
    unfold pinv
    rw [if_neg h0]
    generalize (sumTo count.nCol fun k => rabs (count.get i k)) = s at h0 ⊢
    generalize (if 0 < (List.filter (fun i => decide (0 < count.get i j)) (List.range count.nRow)).length then
          logTable.getD ((List.filter (fun i => decide (0 < count.get i j)) (List.range count.nRow)).length - 1) 0
        else 0) = t
    have h1 : 1 / s * s = 1 := by rw [one_div, inv_mul_cancel₀ h0]
    calc 1 / s * count.get i j * t * s = (1 / s * s) * (count.get i j * t) := by ring
      _ = count.get i j * t := by rw [h1, one_mul]

end SkNet.Convert
