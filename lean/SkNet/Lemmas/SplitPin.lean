/- `split_dendrogram`, sharper agreement: a merge of the side dendrogram comes from *the* merge of the full
   dendrogram that joins two clusters both meeting the side (so its height is pinned), every such merge of the full
   dendrogram appears, and the rows of the side are written in the order of the full dendrogram (sortedness is kept). -/
import SkNet.Lemmas.SplitAgree
import SkNet.Lemmas.Reorder

set_option linter.unusedSimpArgs false
set_option linter.unusedVariables false

namespace SkNet.Hier
open SkNet SkNet.Dendro

variable {α : Type}

structure BInv (m N off : Nat) (pre : Dendro α) (a : SplitSide α) (L : Dict Nat) : Prop where
  ne : ∀ x ∈ Dict.keys L, (a.id.get? x).isSome = true → sideOf m off (leaves N pre x) ≠ []
  bnd : ∀ (t : Nat) (rt : Row α), pre[t]? = some rt → rt.i < N + t ∧ rt.j < N + t
  pin : ∀ (u : Nat) (ru : Row α), a.rows[u]? = some ru →
    ∃ (t : Nat) (rt : Row α), pre[t]? = some rt ∧ ru.h = rt.h ∧
      sideOf m off (leaves N pre rt.i) ≠ [] ∧ sideOf m off (leaves N pre rt.j) ≠ [] ∧
      leaves m a.rows (m + u) = sideOf m off (leaves N pre (N + t))
  conv : ∀ (t : Nat) (rt : Row α), pre[t]? = some rt →
    sideOf m off (leaves N pre rt.i) ≠ [] → sideOf m off (leaves N pre rt.j) ≠ [] →
    ∃ (u : Nat) (ru : Row α), a.rows[u]? = some ru ∧ ru.h = rt.h ∧
      leaves m a.rows (m + u) = sideOf m off (leaves N pre (N + t))
  heights : (a.rows.map (fun (q : Row α) => q.h)).Sublist (pre.map (fun (q : Row α) => q.h))

theorem splitSide_binv {m N off : Nat} {pre : Dendro α} {a : SplitSide α} {LR L L1 : Dict Nat} {r : Row α}
    (hS : SInv m a LR L) (hA : AInv m N off pre a L) (hB : BInv m N off pre a L) (hL : LInv N pre.length L)
    (hstep : liveStep N pre.length r L = some L1) :
    BInv m N off (pre ++ [r]) (splitSide (N + pre.length) r a) L1 := by
  obtain ⟨si0, sj0, hi0, hj0, hne, _, _, _, hget1⟩ := liveStep_spec hL hstep
  have hki := Dict.get?_some_key_mem hi0
  have hkj := Dict.get?_some_key_mem hj0
  have hbi := hL.bound _ hki
  have hbj := hL.bound _ hkj
  have hnewD : leaves N (pre ++ [r]) (N + pre.length) = leaves N pre r.i ++ leaves N pre r.j := leaves_new N pre r
  have holdD : ∀ x, x < N + pre.length → leaves N (pre ++ [r]) x = leaves N pre x :=
    fun x hx => leaves_append_lt N pre [r] hx
  have hkeys1 : ∀ x ∈ Dict.keys L1, x = N + pre.length ∨ (x ∈ Dict.keys L ∧ x ≠ r.i ∧ x ≠ r.j) := by
    intro x hx
    obtain ⟨v, hv⟩ := (mem_keys_iff L1 x).mp hx
    rw [hget1] at hv
    by_cases e : x = N + pre.length
    · exact Or.inl e
    · right
      simp only [e, if_false] at hv
      by_cases e2 : x = r.j
      · simp [e2] at hv
      · by_cases e3 : x = r.i
        · simp [e2, e3] at hv
        · simp only [e2, e3, if_false] at hv
          exact ⟨Dict.get?_some_key_mem hv, e3, e2⟩
  have hfreshid : a.id.get? (N + pre.length) = none := by
    rw [Dict.get?_eq_none_iff]
    intro hm
    have := hL.bound _ (hS.sub _ hm); omega
  have hagi := hA.ag r.i hki
  have hagj := hA.ag r.j hkj
  -- facts that do not depend on the case
  have hbnd : ∀ (t : Nat) (rt : Row α), (pre ++ [r])[t]? = some rt → rt.i < N + t ∧ rt.j < N + t := by
    intro t rt ht
    by_cases htl : t < pre.length
    · rw [List.getElem?_append_left htl] at ht; exact hB.bnd t rt ht
    · have hlen := (List.getElem?_eq_some_iff.mp ht).1
      simp only [List.length_append, List.length_cons, List.length_nil] at hlen
      have hte : t = pre.length := by omega
      subst hte
      rw [List.getElem?_append_right (Nat.le_refl _)] at ht
      simp only [Nat.sub_self, List.getElem?_cons_zero, Option.some.injEq] at ht
      subst ht; exact ⟨hbi, hbj⟩
  -- an old row of `pre`: its children and its node keep their leaves
  have hstab : ∀ (t : Nat) (rt : Row α), pre[t]? = some rt →
      leaves N (pre ++ [r]) rt.i = leaves N pre rt.i ∧ leaves N (pre ++ [r]) rt.j = leaves N pre rt.j ∧
      leaves N (pre ++ [r]) (N + t) = leaves N pre (N + t) := by
    intro t rt ht
    have htl := (List.getElem?_eq_some_iff.mp ht).1
    obtain ⟨b1, b2⟩ := hB.bnd t rt ht
    exact ⟨holdD _ (by omega), holdD _ (by omega), holdD _ (by omega)⟩
  have hne_old : ∀ x, x ∈ Dict.keys L → x ≠ r.i → x ≠ r.j →
      ((splitSide (N + pre.length) r a).id.get? x).isSome = true → sideOf m off (leaves N (pre ++ [r]) x) ≠ [] := by
    intro x hxL hx1 hx2 hsome
    have hb := hL.bound _ hxL
    have e1 : x ≠ N + pre.length := by omega
    rw [holdD x hb]
    apply hB.ne x hxL
    rw [splitSide_id] at hsome
    cases hi : a.id.get? r.i <;> cases hj : a.id.get? r.j <;> simp only [hi, hj, e1, hx1, hx2, if_false] at hsome <;>
      exact hsome
  by_cases hboth : (a.id.get? r.i).isSome = true ∧ (a.id.get? r.j).isSome = true
  · -- a row of the side dendrogram
    obtain ⟨yi, hi⟩ := Option.isSome_iff_exists.mp hboth.1
    obtain ⟨yj, hj⟩ := Option.isSome_iff_exists.mp hboth.2
    rw [hi] at hagi; rw [hj] at hagj
    simp only at hagi hagj
    have hnei := hB.ne r.i hki hboth.1
    have hnej := hB.ne r.j hkj hboth.2
    obtain ⟨si, _, hLRi⟩ := hS.rel r.i yi hi
    obtain ⟨sj, _, hLRj⟩ := hS.rel r.j yj hj
    let row : Row α := { i := yi, j := yj, h := r.h, s := (a.size.get? r.i).getD 0 + (a.size.get? r.j).getD 0 }
    have hrows : (splitSide (N + pre.length) r a).rows = a.rows ++ [row] := by rw [splitSide_rows, hi, hj]
    have hnewR : leaves m (a.rows ++ [row]) (m + a.rows.length) = leaves m a.rows yi ++ leaves m a.rows yj :=
      leaves_new m a.rows row
    have holdR : ∀ y, y < m + a.rows.length → leaves m (a.rows ++ [row]) y = leaves m a.rows y :=
      fun y hy => leaves_append_lt m a.rows [row] hy
    have hnewEq : leaves m (a.rows ++ [row]) (m + a.rows.length) =
        sideOf m off (leaves N (pre ++ [r]) (N + pre.length)) := by
      rw [hnewR, hnewD, sideOf_append, hagi, hagj]
    refine ⟨?_, hbnd, ?_, ?_, ?_⟩
    · intro x hx hsome
      rcases hkeys1 x hx with e | ⟨hxL, hx1, hx2⟩
      · subst e
        rw [hnewD, sideOf_append]
        intro hnil
        exact hnei (List.append_eq_nil_iff.mp hnil).1
      · exact hne_old x hxL hx1 hx2 hsome
    · intro u ru hu
      rw [hrows] at hu ⊢
      by_cases hul : u < a.rows.length
      · rw [List.getElem?_append_left hul] at hu
        obtain ⟨t, rt, h1, h2, h3, h4, h5⟩ := hB.pin u ru hu
        have htl := (List.getElem?_eq_some_iff.mp h1).1
        obtain ⟨s1, s2, s3⟩ := hstab t rt h1
        refine ⟨t, rt, by rw [List.getElem?_append_left htl]; exact h1, h2, by rw [s1]; exact h3,
          by rw [s2]; exact h4, ?_⟩
        rw [holdR _ (by omega), s3]; exact h5
      · have hlen := (List.getElem?_eq_some_iff.mp hu).1
        simp only [List.length_append, List.length_cons, List.length_nil] at hlen
        have hue : u = a.rows.length := by omega
        subst hue
        rw [List.getElem?_append_right (Nat.le_refl _)] at hu
        simp only [Nat.sub_self, List.getElem?_cons_zero, Option.some.injEq] at hu
        subst hu
        refine ⟨pre.length, r, by rw [List.getElem?_append_right (Nat.le_refl _)]; simp, rfl,
          by rw [holdD _ hbi]; exact hnei, by rw [holdD _ hbj]; exact hnej, hnewEq⟩
    · intro t rt ht h1 h2
      rw [hrows]
      by_cases htl : t < pre.length
      · rw [List.getElem?_append_left htl] at ht
        obtain ⟨s1, s2, s3⟩ := hstab t rt ht
        rw [s1] at h1; rw [s2] at h2
        obtain ⟨u, ru, hu, e1, e2⟩ := hB.conv t rt ht h1 h2
        have hul := (List.getElem?_eq_some_iff.mp hu).1
        refine ⟨u, ru, by rw [List.getElem?_append_left hul]; exact hu, e1, ?_⟩
        rw [holdR _ (by omega), s3]; exact e2
      · have hlen := (List.getElem?_eq_some_iff.mp ht).1
        simp only [List.length_append, List.length_cons, List.length_nil] at hlen
        have hte : t = pre.length := by omega
        subst hte
        rw [List.getElem?_append_right (Nat.le_refl _)] at ht
        simp only [Nat.sub_self, List.getElem?_cons_zero, Option.some.injEq] at ht
        subst ht
        exact ⟨a.rows.length, row, by rw [List.getElem?_append_right (Nat.le_refl _)]; simp, rfl, hnewEq⟩
    · rw [hrows]
      simp only [List.map_append, List.map_cons, List.map_nil]
      exact List.Sublist.append hB.heights (List.Sublist.refl _)
  · -- no row is written for this side
    have hrows : (splitSide (N + pre.length) r a).rows = a.rows := by
      rw [splitSide_rows]
      cases hi : a.id.get? r.i <;> cases hj : a.id.get? r.j <;> simp only [hi, hj] at hboth ⊢
      exact absurd ⟨rfl, rfl⟩ hboth
    -- one of the two children does not meet the side
    have hempty : sideOf m off (leaves N pre r.i) = [] ∨ sideOf m off (leaves N pre r.j) = [] := by
      cases hi : a.id.get? r.i with
      | none => rw [hi] at hagi; exact Or.inl hagi
      | some yi =>
        cases hj : a.id.get? r.j with
        | none => rw [hj] at hagj; exact Or.inr hagj
        | some yj => exact absurd ⟨by rw [hi]; rfl, by rw [hj]; rfl⟩ hboth
    refine ⟨?_, hbnd, ?_, ?_, ?_⟩
    · intro x hx hsome
      rcases hkeys1 x hx with e | ⟨hxL, hx1, hx2⟩
      · subst e
        rw [hnewD, sideOf_append]
        rw [splitSide_id] at hsome
        cases hi : a.id.get? r.i with
        | none =>
          cases hj : a.id.get? r.j with
          | none =>
            simp only [hi, hj, hfreshid] at hsome; cases hsome
          | some yj =>
            have := hB.ne r.j hkj (by rw [hj]; rfl)
            intro hnil; exact this (List.append_eq_nil_iff.mp hnil).2
        | some yi =>
          have := hB.ne r.i hki (by rw [hi]; rfl)
          intro hnil; exact this (List.append_eq_nil_iff.mp hnil).1
      · exact hne_old x hxL hx1 hx2 hsome
    · intro u ru hu
      rw [hrows] at hu ⊢
      obtain ⟨t, rt, h1, h2, h3, h4, h5⟩ := hB.pin u ru hu
      have htl := (List.getElem?_eq_some_iff.mp h1).1
      obtain ⟨s1, s2, s3⟩ := hstab t rt h1
      exact ⟨t, rt, by rw [List.getElem?_append_left htl]; exact h1, h2, by rw [s1]; exact h3,
        by rw [s2]; exact h4, by rw [s3]; exact h5⟩
    · intro t rt ht h1 h2
      rw [hrows]
      by_cases htl : t < pre.length
      · rw [List.getElem?_append_left htl] at ht
        obtain ⟨s1, s2, s3⟩ := hstab t rt ht
        rw [s1] at h1; rw [s2] at h2
        obtain ⟨u, ru, hu, e1, e2⟩ := hB.conv t rt ht h1 h2
        exact ⟨u, ru, hu, e1, by rw [s3]; exact e2⟩
      · exfalso
        have hlen := (List.getElem?_eq_some_iff.mp ht).1
        simp only [List.length_append, List.length_cons, List.length_nil] at hlen
        have hte : t = pre.length := by omega
        subst hte
        rw [List.getElem?_append_right (Nat.le_refl _)] at ht
        simp only [Nat.sub_self, List.getElem?_cons_zero, Option.some.injEq] at ht
        subst ht
        rw [holdD _ hbi] at h1; rw [holdD _ hbj] at h2
        rcases hempty with e | e
        · exact h1 e
        · exact h2 e
    · rw [hrows]
      simp only [List.map_append]
      exact hB.heights.trans (List.sublist_append_left _ _)

theorem sideLoop_binv {m N off : Nat} : ∀ (rs pre : Dendro α) (a : SplitSide α) (LR L Lf : Dict Nat),
    SInv m a LR L → AInv m N off pre a L → BInv m N off pre a L → LInv N pre.length L →
    liveAfter N pre.length rs L = some Lf →
    BInv m N off (pre ++ rs) (sideLoop N pre.length rs a) Lf := by
  intro rs
  induction rs with
  | nil =>
    intro pre a LR L Lf _ _ hB _ hl
    simp only [liveAfter, Option.some.injEq] at hl
    subst hl
    simpa [sideLoop] using hB
  | cons r rs ih =>
    intro pre a LR L Lf hS hA hB hL hl
    simp only [liveAfter] at hl
    cases hs : liveStep N pre.length r L with
    | none => simp [hs] at hl
    | some L1 =>
      simp only [hs, Option.bind_some] at hl
      obtain ⟨_, _, _, _, _, _, hL1, _, _⟩ := liveStep_spec hL hs
      obtain ⟨LR1, hS1⟩ := splitSide_sinv hS hL hs
      have hA1 := splitSide_ainv hS hA hL hs
      have hB1 := splitSide_binv hS hA hB hL hs
      have hlen : (pre ++ [r]).length = pre.length + 1 := by simp
      have := ih (pre ++ [r]) _ LR1 L1 Lf hS1 hA1 hB1 (by rw [hlen]; exact hL1) (by rw [hlen]; exact hl)
      rw [hlen] at this
      simpa [sideLoop] using this

theorem binv_init (m N off : Nat) (hN : off + m ≤ N) :
    BInv (α := α) m N off [] (sideInit α m off) (liveInit (List.replicate N 1)) := by
  refine ⟨?_, by intro t rt ht; simp at ht, by intro u ru hu; simp [sideInit] at hu,
    by intro t rt ht; simp at ht, by simp [sideInit]⟩
  intro x hx hsome
  have hxN : x < N := by
    obtain ⟨v, hv⟩ := (mem_keys_iff _ _).mp hx
    rw [liveInit_get?_full] at hv
    split at hv
    · simpa using ‹x < (List.replicate N 1).length›
    · cases hv
  have hid : (sideInit α m off).id.get? x = if off ≤ x ∧ x < off + m then some (x - off) else none := by
    unfold sideInit; exact get?_map_range_off (fun i => i) off m x
  rw [hid] at hsome
  rw [leaves_leaf N [] hxN]
  by_cases hside : off ≤ x ∧ x < off + m
  · simp [sideOf, hside.1, hside.2]
  · simp [hside] at hsome

/-! ### sortedness -/

section sorted
variable [LinearOrder α]

theorem pairwise_of_heightsSorted : ∀ (D : Dendro α), heightsSorted D = true →
    D.Pairwise (fun a b => ¬ b.h < a.h) := by
  intro D
  induction D with
  | nil => intro _; exact List.Pairwise.nil
  | cons a l ih =>
    intro h
    cases l with
    | nil => exact List.pairwise_singleton _ _
    | cons b l' =>
      unfold heightsSorted at h
      simp only [List.drop_one, List.tail_cons, List.zip_cons_cons, List.all_cons, Bool.and_eq_true] at h
      have hab : ¬ b.h < a.h := by simpa using h.1
      have ht : heightsSorted (b :: l') = true := by
        unfold heightsSorted
        simp only [List.drop_one, List.tail_cons]
        exact h.2
      have ihp := ih ht
      refine List.pairwise_cons.mpr ⟨?_, ihp⟩
      intro c hc
      rcases List.mem_cons.mp hc with e | e
      · rw [e]; exact hab
      · have := (List.pairwise_cons.mp ihp).1 c e
        exact fun hlt => this (lt_of_lt_of_le hlt (not_lt.mp hab))

/-- a dendrogram whose heights are a sublist of sorted heights is sorted -/
theorem heightsSorted_of_sublist {S D : Dendro α}
    (hsub : (S.map (fun (q : Row α) => q.h)).Sublist (D.map (fun (q : Row α) => q.h)))
    (hD : heightsSorted D = true) : heightsSorted S = true := by
  apply heightsSorted_of_pairwise
  have hp : (D.map (fun (q : Row α) => q.h)).Pairwise (fun x y => ¬ y < x) := by
    rw [List.pairwise_map]; exact pairwise_of_heightsSorted D hD
  have := hp.sublist hsub
  rw [List.pairwise_map] at this
  exact this

end sorted

end SkNet.Hier
