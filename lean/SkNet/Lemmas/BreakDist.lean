/- The distances `break_cycles` asks `get_distances` for are hop distances: the statement of property C10
   (`SkNet.C10.getDistances_plain_exact`), restated in the vocabulary of C12 (`Reach`). -/
import SkNet.Model.Cycles
import SkNet.Spec.Connectivity
import SkNet.Lemmas.BreakCycles
import SkNet.Lemmas.Reach
import SkNet.Properties.C10

namespace SkNet.Cycles
open SkNet SkNet.Connectivity

/-- what `get_distances(adjacency, source=root)` returned are hop distances from the roots — the statement of
    property C10 (`-1` exactly for the nodes no root reaches, `0` only at roots, a predecessor one step closer) -/
structure IsHopDist (a0 : Rows) (n : Nat) (root : List Nat) (d : List Int) : Prop where
  reach : ∀ v, v < n → (0 ≤ d.getD v (-1) ↔ ∃ r ∈ root, Reach a0.row r v)
  zero : ∀ v, v < n → d.getD v (-1) = 0 → v ∈ root
  pred : ∀ v, v < n → 0 < d.getD v (-1) → ∃ x, v ∈ a0.row x ∧ d.getD x (-1) = d.getD v (-1) - 1

theorem walk_reach {n : Nat} {a0 : Rows} {root : List Nat} {k v : Nat}
    (h : SkNet.Path.Walk n (fun i j => a0.has i j) (fun v => root.contains v) k v) :
    ∃ r ∈ root, Reach a0.row r v := by
  induction h with
  | zero _ hs => exact ⟨_, by simpa using hs, Reach.refl _⟩
  | succ _ he _ ih =>
    obtain ⟨r, hr, hreach⟩ := ih
    exact ⟨r, hr, Reach.tail hreach (by simpa [Rows.has] using he)⟩

theorem reach_walk {n : Nat} {a0 : Rows} (hwf : ∀ u v, v ∈ a0.row u → v < n) {root : List Nat} {r v : Nat}
    (hr : r ∈ root) (hrn : r < n) (h : Reach a0.row r v) :
    ∃ k, SkNet.Path.Walk n (fun i j => a0.has i j) (fun v => root.contains v) k v := by
  induction h with
  | refl => exact ⟨0, SkNet.Path.Walk.zero hrn (by simpa using hr)⟩
  | tail _ he ih =>
    obtain ⟨k, hk⟩ := ih
    exact ⟨k + 1, SkNet.Path.Walk.succ hk (by simpa [Rows.has] using he) (hwf _ _ he)⟩

/-- an exact distance vector (C10) is a vector of hop distances in the sense used here -/
theorem isHopDist_of_exact {n : Nat} {a0 : Rows} (hwf : ∀ u v, v ∈ a0.row u → v < n) {root : List Nat}
    (hroot : ∀ r ∈ root, r < n) {d : List Int}
    (hex : SkNet.Path.Exact n (fun i j => a0.has i j) (fun v => root.contains v) d) :
    IsHopDist a0 n root d := by
  refine ⟨fun v hv => ?_, fun v hv h0 => ?_, fun v hv hp => ?_⟩
  · rcases hex.2 v hv with ⟨k, hk, hdist⟩ | ⟨hm, hun⟩
    · exact ⟨fun _ => walk_reach hdist.1, fun _ => by rw [hk]; exact Int.natCast_nonneg k⟩
    · constructor
      · intro h; rw [hm] at h; omega
      · intro ⟨r, hr, hreach⟩
        obtain ⟨k, hk⟩ := reach_walk hwf hr (hroot r hr) hreach
        exact absurd hk (hun k)
  · rcases hex.2 v hv with ⟨k, hk, hdist⟩ | ⟨hm, _⟩
    · have : k = 0 := by rw [hk] at h0; omega
      subst this
      cases hdist.1 with
      | zero _ hs => simpa using hs
    · rw [hm] at h0; omega
  · rcases hex.2 v hv with ⟨k, hk, hdist⟩ | ⟨hm, _⟩
    · cases k with
      | zero => rw [hk] at hp; simp at hp
      | succ k =>
        obtain ⟨hw, hmin⟩ := hdist
        cases hw with
        | @succ _ u _ hwu he _ =>
          have hun : u < n := by
            cases hwu with
            | zero h _ => exact h
            | succ _ _ h => exact h
          refine ⟨u, by simpa [Rows.has] using he, ?_⟩
          -- u is at distance exactly k
          have hdu : SkNet.Path.IsDist n (fun i j => a0.has i j) (fun v => root.contains v) u k := by
            refine ⟨hwu, fun k' hk' hw' => ?_⟩
            exact hmin (k' + 1) (by omega) (SkNet.Path.Walk.succ hw' he hv)
          have := ((SkNet.C10.exact_entry hex hun).2 k).mpr hdu
          rw [this, hk]; omega
    · rw [hm] at hp; omega

/-- ★ what `break_cycles` gets from `get_distances` (the model of property C10) on the loop-free adjacency, for roots
    inside the matrix: a vector of hop distances -/
theorem distancesFrom_isHopDist (m : Mat) (hwf : ∀ u v, v ∈ (noLoopRows m).row u → v < m.nRow) (root : List Nat)
    (hroot : ∀ r ∈ root, r < m.nRow) :
    ∃ d, distancesFrom m (noLoopRows m) root = .ok (some d) ∧ IsHopDist (noLoopRows m) m.nRow root d := by
  obtain ⟨d, hd, hex⟩ := SkNet.C10.getDistances_plain_exact m.nRow (fun i j => (noLoopRows m).has i j) root hroot
  refine ⟨d, ?_, isHopDist_of_exact hwf hroot hex⟩
  unfold distancesFrom
  rw [hd]

end SkNet.Cycles
