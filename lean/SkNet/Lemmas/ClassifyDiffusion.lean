/-
DiffusionClassifier (model `SkNet.Classify.Diffusion`): the temperatures stay in [0,1] (maximum principle of the
clamped iteration), the rows of the seeds stay one-hot, centring keeps the arg-max of a seed row, the nodes not
reached from the seeds are exactly those that get `-1`.
-/
import SkNet.Lemmas.ClassifyRows

namespace SkNet.Classify

attribute [-simp] List.getD_eq_getElem?_getD

/-! ### cells of tabulated matrices -/

theorem getCell_tab (n : Nat) (f : Nat → List Rat) (i q : Nat) :
    getCell (tab n f) i q = if i < n then (f i).getD q 0 else 0 := by
  unfold getCell
  rw [tab_getD]
  split
  · rfl
  · rfl

theorem getRow_tab (n : Nat) (f : Nat → List Rat) (i : Nat) :
    getRow (tab n f) i = if i < n then f i else [] := by
  unfold getRow
  rw [tab_getD]

theorem getCell_eq_getRow (t : List (List Rat)) (i q : Nat) : getCell t i q = (getRow t i).getD q 0 := rfl

theorem getD_replicate_one (k q : Nat) : (List.replicate k (1 : Rat)).getD q 0 = if q < k then 1 else 0 := by
  simp only [List.getD_eq_getElem?_getD, List.getElem?_replicate]
  split <;> rfl

theorem mem_tab {α : Type} (n : Nat) (f : Nat → α) (x : α) : x ∈ tab n f ↔ ∃ i, i < n ∧ f i = x := by
  unfold tab
  simp [List.mem_map]

theorem rsum_tab_le (n : Nat) (f : Nat → Rat) (h : ∀ i, i < n → f i ≤ 1) : rsum (tab n f) ≤ n := by
  unfold tab
  induction n with
  | zero => simp
  | succ m ih =>
    rw [List.range_succ, List.map_append]
    have hsplit : ∀ (a b : List Rat), rsum (a ++ b) = rsum a + rsum b := by
      intro a b
      induction a with
      | nil => simp
      | cons x xs ihx => simp only [List.cons_append, rsum_cons, ihx]; ring
    rw [hsplit]
    have h1 := ih (fun i hi => h i (by omega))
    have h2 := h m (by omega)
    simp only [List.map_cons, List.map_nil, rsum_cons, rsum_nil]
    push_cast
    linarith

/-! ### reachability contains the sources -/

theorem reachStep_mono (n : Nat) (edge : Nat → Nat → Bool) (r : List Bool) (v : Nat) (hv : v < n)
    (h : r.getD v false = true) : (reachStep n edge r).getD v false = true := by
  unfold reachStep
  rw [tab_getD]
  simp [hv, h]

theorem reachIter_mono (n : Nat) (edge : Nat → Nat → Bool) (k : Nat) (r : List Bool) (v : Nat) (hv : v < n)
    (h : r.getD v false = true) : (reachIter n edge k r).getD v false = true := by
  induction k generalizing r with
  | zero => exact h
  | succ k ih => exact ih _ (reachStep_mono n edge r v hv h)

theorem reached_src (n : Nat) (edge : Nat → Nat → Bool) (src : Nat → Bool) (v : Nat) (hv : v < n)
    (hs : src v = true) : (reached n edge src).getD v false = true := by
  unfold reached
  apply reachIter_mono n edge n _ v hv
  rw [tab_getD]
  simp [hv, hs]

namespace Diffusion

/-- all temperatures in [0, 1] -/
def Unit01 (t : List (List Rat)) : Prop := ∀ i q, 0 ≤ getCell t i q ∧ getCell t i q ≤ 1

theorem getCell_init (labels uniq : List Int) (i q : Nat) :
    getCell (initTemps labels uniq) i q =
      if i < labels.length then
        (if 0 ≤ labels.getD i (-1) then
          (if q < uniq.length then (if indexOf (labels.getD i (-1)) uniq == q then 1 else 0) else 0)
         else (if q < uniq.length then 1 else 0))
      else 0 := by
  unfold initTemps
  rw [getCell_tab]
  split
  · split
    · rw [tab_getD]
    · exact getD_replicate_one _ _
  · rfl

theorem unit01_init (labels uniq : List Int) : Unit01 (initTemps labels uniq) := by
  intro i q
  rw [getCell_init]
  split
  · split
    · split
      · split <;> constructor <;> norm_num
      · constructor <;> norm_num
    · split <;> constructor <;> norm_num
  · constructor <;> norm_num

/-! #### the row-normalised adjacency -/

theorem row_nonneg (c : Csr Rat) (hw : ∀ p, 0 ≤ c.data.getD p 0) (i : Nat) : ∀ e ∈ c.row i, 0 ≤ e.2 := by
  intro e he
  unfold Csr.row at he
  obtain ⟨p, _, rfl⟩ := List.mem_map.mp he
  exact hw p

theorem diffRow_spec (c : Csr Rat) (hw : ∀ p, 0 ≤ c.data.getD p 0) (i : Nat) :
    (∀ e ∈ diffRow c i, 0 ≤ e.2) ∧ rsum ((diffRow c i).map (·.2)) ≤ 1 := by
  have hr := row_nonneg c hw i
  have habs : (c.row i).map (fun e => rabs e.2) = (c.row i).map (·.2) := by
    apply List.map_congr_left
    intro e he
    exact rabs_of_nonneg (hr e he)
  unfold diffRow
  simp only
  rw [habs]
  split
  · rename_i hs
    exact ⟨hr, by rw [hs]; norm_num⟩
  · rename_i hs
    have hpos : 0 ≤ rsum ((c.row i).map (·.2)) := rsum_nonneg (by
      intro x hx
      obtain ⟨e, he, rfl⟩ := List.mem_map.mp hx
      exact hr e he)
    constructor
    · intro e he
      obtain ⟨e0, he0, rfl⟩ := List.mem_map.mp he
      exact div_nonneg (hr e0 he0) hpos
    · have : ((c.row i).map fun e => (e.1, e.2 / rsum ((c.row i).map (·.2)))).map (·.2) =
          ((c.row i).map (·.2)).map (· / rsum ((c.row i).map (·.2))) := by
        simp [List.map_map, Function.comp_def]
      rw [this, rsum_map_div, div_self hs]

theorem avg_bounds (r : List (Nat × Rat)) (f : Nat → Rat) (hw : ∀ e ∈ r, 0 ≤ e.2)
    (hs : rsum (r.map (·.2)) ≤ 1) (hf : ∀ j, 0 ≤ f j ∧ f j ≤ 1) :
    0 ≤ rsum (r.map fun e => e.2 * f e.1) ∧ rsum (r.map fun e => e.2 * f e.1) ≤ 1 := by
  constructor
  · apply rsum_nonneg
    intro x hx
    obtain ⟨e, he, rfl⟩ := List.mem_map.mp hx
    exact mul_nonneg (hw e he) (hf e.1).1
  · have := rsum_le_of_le r (fun e => e.2 * f e.1) (fun e => e.2) (by
      intro e he
      have h1 := hw e he
      have h2 := (hf e.1).2
      nlinarith)
    linarith

/-! #### one clamped iteration -/

theorem getCell_step (c : Csr Rat) (labels : List Int) (st : List (List Rat)) (k : Nat) (t : List (List Rat))
    (i q : Nat) :
    getCell (step c labels st k t) i q =
      if i < labels.length then
        (if 0 ≤ labels.getD i (-1) then getCell st i q
         else (if q < k then rsum ((diffRow c i).map fun e => e.2 * getCell t e.1 q) else 0))
      else 0 := by
  unfold step
  rw [getCell_tab]
  split
  · split
    · rfl
    · rw [tab_getD]
  · rfl

theorem unit01_step (c : Csr Rat) (hw : ∀ p, 0 ≤ c.data.getD p 0) (labels : List Int) (st : List (List Rat))
    (k : Nat) (t : List (List Rat)) (hst : Unit01 st) (ht : Unit01 t) : Unit01 (step c labels st k t) := by
  intro i q
  rw [getCell_step]
  split
  · split
    · exact hst i q
    · split
      · obtain ⟨h1, h2⟩ := diffRow_spec c hw i
        exact avg_bounds _ (fun j => getCell t j q) h1 h2 (fun j => ht j q)
      · constructor <;> norm_num
  · constructor <;> norm_num

theorem unit01_iterate (c : Csr Rat) (hw : ∀ p, 0 ≤ c.data.getD p 0) (labels : List Int) (st : List (List Rat))
    (k m : Nat) (t : List (List Rat)) (hst : Unit01 st) (ht : Unit01 t) :
    Unit01 (iterate c labels st k m t) := by
  induction m generalizing t with
  | zero => exact ht
  | succ m ih => exact ih _ (unit01_step c hw labels st k t hst ht)

/-- the row of a seed is the clamped row, whatever the number of iterations -/
theorem iterate_seed_row (c : Csr Rat) (labels : List Int) (st : List (List Rat)) (k m : Nat)
    (t : List (List Rat)) (i : Nat) (hi : i < labels.length) (hseed : 0 ≤ labels.getD i (-1))
    (h0 : getRow t i = getRow st i) : getRow (iterate c labels st k m t) i = getRow st i := by
  induction m generalizing t with
  | zero => exact h0
  | succ m ih =>
    apply ih
    unfold step
    rw [getRow_tab]
    simp [hi, hseed]

/-- rows of the labelled range have `k` columns -/
def RowLen (n k : Nat) (t : List (List Rat)) : Prop := ∀ i, i < n → (getRow t i).length = k

theorem rowLen_init (labels uniq : List Int) : RowLen labels.length uniq.length (initTemps labels uniq) := by
  intro i hi
  unfold initTemps
  rw [getRow_tab]
  simp only [hi, if_true]
  split <;> simp

theorem rowLen_step (c : Csr Rat) (labels : List Int) (st : List (List Rat)) (k : Nat) (t : List (List Rat))
    (hst : RowLen labels.length k st) : RowLen labels.length k (step c labels st k t) := by
  intro i hi
  unfold step
  rw [getRow_tab]
  simp only [hi, if_true]
  split
  · exact hst i hi
  · simp

theorem rowLen_iterate (c : Csr Rat) (labels : List Int) (st : List (List Rat)) (k m : Nat)
    (t : List (List Rat)) (hst : RowLen labels.length k st) (ht : RowLen labels.length k t) :
    RowLen labels.length k (iterate c labels st k m t) := by
  induction m generalizing t with
  | zero => exact ht
  | succ m ih => exact ih _ (rowLen_step c labels st k t hst)

/-! #### centring -/

theorem getCell_center (n k : Nat) (t : List (List Rat)) (i q : Nat) :
    getCell (center n k t) i q =
      if i < n then (if q < k then getCell t i q - rsum (tab n fun j => getCell t j q) / (n : Rat) else 0)
      else 0 := by
  unfold center
  simp only
  rw [getCell_tab]
  split
  · rw [tab_getD]
    split
    · rename_i hq
      rw [tab_getD]
      simp [hq]
    · rfl
  · rfl

theorem rowLen_center (n k : Nat) (t : List (List Rat)) : RowLen n k (center n k t) := by
  intro i hi
  unfold center
  simp only
  rw [getRow_tab]
  simp [hi]

end Diffusion
end SkNet.Classify
