/-
The GNN model at `ℝ`: the scalar instance, the bridge from the model's list sums to `Finset` sums,
entry lemmas for the matrices the model builds.
-/
import Mathlib.Analysis.SpecialFunctions.Sigmoid
import Mathlib.Analysis.SpecialFunctions.Log.Deriv
import Mathlib.Analysis.Real.Sqrt
import Mathlib.Algebra.BigOperators.Group.Finset.Basic
import Mathlib.Tactic.Ring
import Mathlib.Tactic.Linarith
import Mathlib.Tactic.FieldSimp
import SkNet.Model.Gnn
import SkNet.Spec.Gnn

namespace SkNet.Gnn
open SkNet

/-- the real numbers as scalars of the GNN model (`<` and `==` decided classically) -/
noncomputable instance instNumReal : Num ℝ where
  exp := Real.exp
  log := Real.log
  sqrt := Real.sqrt
  lt a b := decide (a < b)
  eqb a b := decide (a = b)
  frac p q := (p : ℝ) / (q : ℝ)
  nat n := (n : ℝ)

@[simp] theorem num_exp (x : ℝ) : Num.exp x = Real.exp x := rfl
@[simp] theorem num_log (x : ℝ) : Num.log x = Real.log x := rfl
@[simp] theorem num_sqrt (x : ℝ) : Num.sqrt x = Real.sqrt x := rfl
@[simp] theorem num_lt (x y : ℝ) : Num.lt x y = decide (x < y) := rfl
@[simp] theorem num_eqb (x y : ℝ) : Num.eqb x y = decide (x = y) := rfl
@[simp] theorem num_frac (p q : Nat) : (Num.frac p q : ℝ) = (p : ℝ) / (q : ℝ) := rfl
@[simp] theorem num_nat (n : Nat) : (Num.nat n : ℝ) = (n : ℝ) := rfl


/-- the model's `sumTo` is the `Finset` sum over `range n` -/
theorem sumTo_eq (n : Nat) (f : Nat → ℝ) : sumTo n f = ∑ i ∈ Finset.range n, f i := by
  unfold sumTo
  induction n with
  | zero => simp
  | succ n ih =>
    rw [List.range_succ, List.map_append, List.sum_append, ih, Finset.sum_range_succ]
    simp

theorem tab_sum (n : Nat) (f : Nat → ℝ) : (tab n f).sum = ∑ i ∈ Finset.range n, f i := sumTo_eq n f

theorem tab_congr {β : Type} {n : Nat} {f g : Nat → β} (h : ∀ i, i < n → f i = g i) : tab n f = tab n g := by
  unfold tab
  apply List.map_congr_left
  intro i hi
  exact h i (List.mem_range.mp hi)

theorem sumTo_congr {n : Nat} {f g : Nat → ℝ} (h : ∀ i, i < n → f i = g i) : sumTo n f = sumTo n g := by
  rw [sumTo_eq, sumTo_eq]
  exact Finset.sum_congr rfl fun i hi => h i (Finset.mem_range.mp hi)

namespace Mat

@[simp] theorem mk'_r (r c : Nat) (f : Nat → Nat → ℝ) : (mk' r c f).r = r := rfl
@[simp] theorem mk'_c (r c : Nat) (f : Nat → Nat → ℝ) : (mk' r c f).c = c := rfl

theorem get_mk' (r c : Nat) (f : Nat → Nat → ℝ) (i j : Nat) :
    (mk' r c f).get i j = if i < r ∧ j < c then f i j else 0 := by
  unfold get mk'
  show ((tab r fun i => tab c fun j => f i j).getD i []).getD j 0 = _
  rw [tab_getD]
  by_cases hi : i < r
  · rw [if_pos hi, tab_getD]
    by_cases hj : j < c <;> simp [hi, hj]
  · rw [if_neg hi]
    simp [hi]

theorem get_mk'_of_lt {r c : Nat} (f : Nat → Nat → ℝ) {i j : Nat} (hi : i < r) (hj : j < c) :
    (mk' r c f).get i j = f i j := by
  rw [get_mk']; simp [hi, hj]

theorem mk'_congr {r c : Nat} {f g : Nat → Nat → ℝ} (h : ∀ i, i < r → ∀ j, j < c → f i j = g i j) :
    mk' r c f = mk' r c g := by
  unfold mk'
  congr 1
  exact tab_congr fun i hi => tab_congr fun j hj => h i hi j hj

theorem row_mk' (r c : Nat) (f : Nat → Nat → ℝ) (i : Nat) (hi : i < r) :
    (mk' r c f).row i = tab c fun j => f i j := by
  unfold row
  exact tab_congr fun j hj => get_mk'_of_lt f hi hj

end Mat

end SkNet.Gnn
