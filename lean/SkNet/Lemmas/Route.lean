/-
Helper lemmas for the routing theorems of C10: a normal form of `routeDistances` (the two refusals, then two
mask assignments). Core Lean only.
-/
import SkNet.Lemmas.Path
import SkNet.Spec.Route

set_option linter.unusedSimpArgs false

namespace SkNet.Path

attribute [-simp] List.getD_eq_getElem?_getD

theorem setMask_nil (n : Nat) (mask : List Bool) (h : mask.length = n) : setMask n mask [] = .ok mask := by
  unfold setMask
  simp only [List.all_nil, if_true, List.contains_nil, Bool.or_false]
  congr 1
  apply List.ext_getElem?
  intro i
  rw [tab_getElem?]
  by_cases hi : i < n
  · simp [hi, List.getD_eq_getElem?_getD, List.getElem?_eq_getElem (h ▸ hi)]
  · rw [List.getElem?_eq_none (by omega)]; simp [hi]

theorem setMask_length {n : Nat} {mask : List Bool} {idx : List Nat} {m : List Bool}
    (h : setMask n mask idx = .ok m) : m.length = n := by
  unfold setMask at h
  split at h
  · cases h; simp
  · cases h

/-- normal form of the routing: the two refusals, then two mask assignments -/
theorem route_normal (nRow0 nCol0 : Nat) (a : DistArgs) :
    routeDistances nRow0 nCol0 a =
      let s := routeSpec nRow0 nCol0 a
      if (s.bipartite && a.source.isSome && a.sourceRow.isSome) || (s.rowSrc.isNone && s.colSrc.isNone)
      then .error .valueError
      else (setMask s.nNodes (tab s.nNodes fun _ => false) (s.rowSrc.getD [])).bind fun m1 =>
           (setMask s.nNodes m1 ((s.colSrc.getD []).map (s.nRow + ·))).bind fun m2 =>
           .ok ⟨s.bipartite, s.nRow, s.nNodes, m2⟩ := by
  rcases a with ⟨src, sr, sc, tr, fb⟩
  have hnil : ∀ n, setMask n (tab n fun _ => false) [] = .ok (tab n fun _ => false) :=
    fun n => setMask_nil n _ (by simp)
  have hc : (nCol0 = nRow0) = (nRow0 = nCol0) := propext eq_comm
  cases src <;> cases sr <;> cases sc <;> cases tr <;> cases fb <;>
    by_cases hsq : nRow0 = nCol0 <;>
    simp [routeDistances, routeSpec, hsq, bind, Except.bind, pure, Except.pure, throw, throwThe,
      MonadExceptOf.throw, hnil, hc]
  all_goals
    generalize hsm : setMask _ _ _ = r
    cases r with
    | error e => simp [hsq, hc]
    | ok v => simp [setMask_nil _ v (setMask_length hsm), hsq, hc]

theorem setMask_ok_of {n : Nat} (mask : List Bool) {idx : List Nat} (h : ∀ i ∈ idx, i < n) :
    ∃ m, setMask n mask idx = .ok m := by
  unfold setMask
  rw [if_pos (List.all_eq_true.2 fun i hi => by simpa using h i hi)]
  exact ⟨_, rfl⟩

theorem setMask_error_kind {n : Nat} {mask : List Bool} {idx : List Nat} {e : PyErr}
    (h : setMask n mask idx = .error e) : e = .indexError := by
  unfold setMask at h
  split at h
  · cases h
  · cases h; rfl

end SkNet.Path
