/-
The concrete `argsortStable` of the model meets the contract `IsArgsort` assumed of `np.argsort`
(so the contract is satisfiable and the run lines of the driver use an admissible instance).
-/
import SkNet.Lemmas.ClusteringReindex

namespace SkNet.Clustering

theorem insertBy_perm (key : Nat → Int) (v : Nat) (l : List Nat) : (insertBy key v l).Perm (v :: l) := by
  induction l with
  | nil => simp [insertBy]
  | cons w ws ih =>
    unfold insertBy
    split
    · exact List.Perm.refl _
    · exact (List.Perm.cons w ih).trans (List.Perm.swap v w ws)

theorem insertBy_sorted (key : Nat → Int) (v : Nat) {l : List Nat}
    (h : (l.map key).Pairwise (· ≤ ·)) : ((insertBy key v l).map key).Pairwise (· ≤ ·) := by
  induction l with
  | nil => simp [insertBy]
  | cons w ws ih =>
    rw [List.map_cons, List.pairwise_cons] at h
    unfold insertBy
    split
    · rename_i hvw
      simp only [List.map_cons, List.pairwise_cons]
      refine ⟨?_, h.1, h.2⟩
      intro a ha
      rcases List.mem_cons.mp ha with rfl | ha
      · exact hvw
      · exact le_trans hvw (h.1 a ha)
    · rename_i hvw
      simp only [List.map_cons, List.pairwise_cons]
      refine ⟨?_, ih h.2⟩
      intro a ha
      obtain ⟨x, hx, rfl⟩ := List.mem_map.mp ha
      rcases List.mem_cons.mp ((insertBy_perm key v ws).mem_iff.mp hx) with rfl | hx
      · omega
      · exact h.1 _ (List.mem_map.mpr ⟨x, hx, rfl⟩)

theorem foldr_insertBy_perm (key : Nat → Int) (l : List Nat) :
    (l.foldr (insertBy key) []).Perm l := by
  induction l with
  | nil => simp
  | cons x xs ih => exact (insertBy_perm key x _).trans (List.Perm.cons x ih)

theorem foldr_insertBy_sorted (key : Nat → Int) (l : List Nat) :
    ((l.foldr (insertBy key) []).map key).Pairwise (· ≤ ·) := by
  induction l with
  | nil => simp
  | cons x xs ih => exact insertBy_sorted key x ih

/-- the stable insertion argsort of the model is a sorting permutation -/
theorem argsortStable_isArgsort (d : List Int) : IsArgsort d (argsortStable d) :=
  ⟨foldr_insertBy_perm _ _, foldr_insertBy_sorted _ _⟩

end SkNet.Clustering
