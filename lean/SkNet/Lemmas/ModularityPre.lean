/-
`Louvain._pre_processing`: the first level is well-formed, and the generalised objective `Q` on it is the
documented modularity of the modularity kind (Dugué, Newman, Potts) on the input matrix.
-/
import SkNet.Lemmas.ModularityFit
import SkNet.Lemmas.ModularityMetric

namespace SkNet.Modularity
open Finset

theorem rowEntry_map_filter (L : List Nat) (hL : L.Nodup) (p : Nat → Bool) (f : Nat → Rat) (v : Nat) :
    rowEntry ((L.filter p).map fun j => (j, f j)) v = if v ∈ L ∧ p v = true then f v else 0 := by
  induction L with
  | nil => simp [rowEntry]
  | cons a r ih =>
    have hnd := List.nodup_cons.mp hL
    have ih' := ih hnd.2
    by_cases hp : p a = true
    · have : (((a :: r).filter p).map fun j => (j, f j)) = (a, f a) :: ((r.filter p).map fun j => (j, f j)) := by
        simp [hp]
      rw [this]
      have e : rowEntry ((a, f a) :: ((r.filter p).map fun j => (j, f j))) v
          = (if a = v then f a else 0) + rowEntry ((r.filter p).map fun j => (j, f j)) v := by
        simp [rowEntry]
      rw [e, ih']
      by_cases hav : a = v
      · subst hav
        have : ¬ (a ∈ r ∧ p a = true) := fun h => hnd.1 h.1
        rw [if_pos rfl, if_neg this, if_pos ⟨List.mem_cons_self, hp⟩, add_zero]
      · have : (v ∈ a :: r ∧ p v = true) ↔ (v ∈ r ∧ p v = true) := by
          simp [List.mem_cons, Ne.symm hav]
        simp only [hav, if_false, zero_add, this]
    · have : (((a :: r).filter p).map fun j => (j, f j)) = ((r.filter p).map fun j => (j, f j)) := by
        simp [hp]
      rw [this, ih']
      by_cases hav : a = v
      · subst hav
        have h1 : ¬ (a ∈ r ∧ p a = true) := fun h => hp h.2
        have h2 : ¬ (a ∈ a :: r ∧ p a = true) := fun h => hp h.2
        simp only [h1, h2, if_false]
      · have : (v ∈ a :: r ∧ p v = true) ↔ (v ∈ r ∧ p v = true) := by
          simp [List.mem_cons, Ne.symm hav]
        simp only [this]

theorem symm_comm (A : Nat → Nat → Rat) (i j : Nat) : symm A i j = symm A j i := by
  unfold symm; ring

/-- total of `A + Aᵀ` -/
def symTotal (n : Nat) (A : Nat → Nat → Rat) : Rat := sumTo n fun i => sumTo n (symm A i)

theorem symLevel_entry (n : Nat) (A : Nat → Nat → Rat) (out inn : Nat → Rat) (u v : Nat) (hu : u < n) (hv : v < n) :
    adj (symLevel n A out inn).graph u v = symm A u v / symTotal n A := by
  unfold adj
  have hrow : (symLevel n A out inn).graph.row u
      = ((List.range n).filter fun j => symm A u j != 0).map fun j => (j, symm A u j / symTotal n A) := by
    show (tab n _).getD u [] = _
    rw [tab_getD, if_pos hu]
    rfl
  rw [hrow, rowEntry_map_filter _ List.nodup_range]
  by_cases h0 : symm A u v = 0
  · simp [h0]
  · simp [h0, hv]

theorem symLevel_levelOK (n : Nat) (A : Nat → Nat → Rat) (out inn : Nat → Rat) : LevelOK (symLevel n A out inn) where
  lenR := by simp [symLevel]
  lenO := by simp [symLevel]
  lenI := by simp [symLevel]
  cols := by
    intro i hi e he
    have hi' : i < n := hi
    have hrow : (symLevel n A out inn).rows.getD i []
        = ((List.range n).filter fun j => symm A i j != 0).map fun j => (j, symm A i j / symTotal n A) := by
      show (tab n _).getD i [] = _
      rw [tab_getD, if_pos hi']
      rfl
    rw [hrow] at he
    obtain ⟨j, hj, rfl⟩ := List.mem_map.mp he
    exact List.mem_range.mp (List.mem_filter.mp hj).1
  sym := by
    intro u v hu hv
    have e1 := symLevel_entry n A out inn u v hu hv
    have e2 := symLevel_entry n A out inn v u hv hu
    unfold adj at e1 e2
    show rowEntry ((symLevel n A out inn).graph.row u) v = rowEntry ((symLevel n A out inn).graph.row v) u
    rw [e1, e2, symm_comm]

/-- swapping the two summation indices of a cluster-restricted double sum -/
theorem sum_same_swap (n : Nat) (c : Nat → Nat) (f : Nat → Nat → Rat) :
    ∑ u ∈ range n, ∑ v ∈ range n, (if c u = c v then f v u else 0)
      = ∑ u ∈ range n, ∑ v ∈ range n, (if c u = c v then f u v else 0) := by
  rw [sum_comm]
  refine sum_congr rfl fun u _ => sum_congr rfl fun v _ => ?_
  by_cases h : c u = c v
  · rw [if_pos h, if_pos h.symm]
  · rw [if_neg h, if_neg (fun h' => h h'.symm)]

theorem symTotal_eq (n : Nat) (A : Nat → Nat → Rat) : symTotal n A = 2 * totalWeight n A := by
  unfold symTotal totalWeight symm
  simp only [sumTo_eq]
  have : ∑ i ∈ range n, ∑ j ∈ range n, A j i = ∑ i ∈ range n, ∑ j ∈ range n, A i j := sum_comm
  simp only [sum_add_distrib, this]
  ring

/-- `Q` on the first level, split into its fit part and its null-model part -/
theorem Q_symLevel (n : Nat) (A : Nat → Nat → Rat) (out inn : Nat → Rat) (γ : Rat) (c : Nat → Nat) :
    Q n (adj (symLevel n A out inn).graph) (symLevel n A out inn).graph.outW (symLevel n A out inn).graph.inW γ c
      = (1 / totalWeight n A) * (∑ u ∈ range n, ∑ v ∈ range n, if c u = c v then A u v else 0)
        - γ * ∑ u ∈ range n, ∑ v ∈ range n, if c u = c v then out u * inn v else 0 := by
  rw [Q_eq]
  have hterm : ∀ u ∈ range n, ∀ v ∈ range n,
      (if c u = c v then adj (symLevel n A out inn).graph u v
          - γ * ((symLevel n A out inn).graph.outW u * (symLevel n A out inn).graph.inW v) else 0)
      = (1 / symTotal n A) * (if c u = c v then A u v else 0)
        + (1 / symTotal n A) * (if c u = c v then A v u else 0)
        - γ * (if c u = c v then out u * inn v else 0) := by
    intro u hu v hv
    have hu' := mem_range.mp hu
    have hv' := mem_range.mp hv
    have ho : (symLevel n A out inn).graph.outW u = out u := by
      show (tab n out).getD u 0 = _
      rw [tab_getD, if_pos hu']
    have hi : (symLevel n A out inn).graph.inW v = inn v := by
      show (tab n inn).getD v 0 = _
      rw [tab_getD, if_pos hv']
    rw [symLevel_entry n A out inn u v hu' hv', ho, hi]
    unfold symm
    split_ifs <;> ring
  rw [sum_congr rfl fun u hu => sum_congr rfl fun v hv => hterm u hu v hv]
  simp only [sum_sub_distrib, sum_add_distrib, ← mul_sum]
  rw [sum_same_swap n c A, symTotal_eq]
  ring

/-- the documented double sum with degree products, split into fit part and null-model part -/
theorem doc_split (n : Nat) (w γ : Rat) (c : Nat → Nat) (A : Nat → Nat → Rat) (d d' : Nat → Rat) :
    (1 / w) * (∑ u ∈ range n, ∑ v ∈ range n, if c u = c v then A u v - γ * (d u * d' v / w) else 0)
      = (1 / w) * (∑ u ∈ range n, ∑ v ∈ range n, if c u = c v then A u v else 0)
        - γ * ∑ u ∈ range n, ∑ v ∈ range n, if c u = c v then (d u / w) * (d' v / w) else 0 := by
  rw [mul_sum, mul_sum, mul_sum, ← sum_sub_distrib]
  refine sum_congr rfl fun u _ => ?_
  rw [mul_sum, mul_sum, mul_sum, ← sum_sub_distrib]
  refine sum_congr rfl fun v _ => ?_
  split_ifs <;> ring

/-- **objective_eq_modularity (core).**  With the node weights of the kind, `Q` on the first level is the
    documented modularity of the kind on the matrix `A`. -/
theorem kindWeights_objective (kind : Kind) (n : Nat) (A : Nat → Nat → Rat) (w : (Nat → Rat) × (Nat → Rat))
    (h : kindWeights kind n A = .ok w) (γ : Rat) (c : Nat → Nat) :
    Q n (adj (symLevel n A w.1 w.2).graph) (symLevel n A w.1 w.2).graph.outW (symLevel n A w.1 w.2).graph.inW γ c
      = objective kind n A γ c := by
  rw [Q_symLevel]
  cases kind with
  | dugue =>
    unfold kindWeights at h
    simp only at h
    split at h
    · cases h
    · rename_i o ho
      split at h
      · cases h
      · rename_i i hi
        cases h
        simp only [objective, sumTo_eq]
        rw [getProbs_degree_out _ _ _ ho, getProbs_degree_in _ _ _ hi, doc_split]
  | newman =>
    unfold kindWeights at h
    simp only at h
    split at h
    · cases h
    · rename_i o ho
      cases h
      simp only [objective, sumTo_eq]
      rw [getProbs_degree_out _ _ _ ho, doc_split]
  | potts =>
    unfold kindWeights at h
    simp only at h
    split at h
    · cases h
    · rename_i o ho
      cases h
      simp only [objective, sumTo_eq]
      rw [getProbs_uniform _ _ _ ho]
      congr 2
      refine sum_congr rfl fun u _ => sum_congr rfl fun v _ => ?_
      split_ifs
      · ring
      · rfl
  | other =>
    unfold kindWeights at h
    cases h

/-- what a successful pre-processing went through -/
theorem preProcessAdj_ok (kind : Kind) (n : Nat) (A : Nat → Nat → Rat) (nnz : Nat) (lv : Level)
    (h : preProcessAdj kind n A nnz = .ok lv) :
    ∃ w, kindWeights kind n A = .ok w ∧ lv = symLevel n A w.1 w.2 := by
  unfold preProcessAdj at h
  split at h
  · cases h
  · split at h
    · cases h
    · rename_i w hw
      split at h
      · cases h
      · cases h
        exact ⟨w, hw, rfl⟩

theorem preProcess_ok (kind : Kind) (nRow nCol nnz : Nat) (B : Nat → Nat → Rat) (fb : Bool) (lv : Level)
    (h : preProcess kind nRow nCol nnz B fb = .ok lv) :
    ∃ w, kindWeights kind (kindAdj kind nRow nCol B fb).1 (kindAdj kind nRow nCol B fb).2 = .ok w ∧
      lv = symLevel (kindAdj kind nRow nCol B fb).1 (kindAdj kind nRow nCol B fb).2 w.1 w.2 :=
  preProcessAdj_ok kind _ _ nnz lv h

/-- **Louvain.fit as compiled, exact arithmetic**, on the adjacency `A` of `n` nodes that `get_adjacency` (and the
    optional shuffle) produced -/
theorem louvainFitAdj_spec (kind : Kind) (res tolOpt tolAgg : Rat) (nAgg : Int) (n : Nat) (A : Nat → Nat → Rat)
    (nnz : Nat) (out : FitOut) (h : louvainFitAdj kind res tolOpt tolAgg nAgg n A nnz = .ok (some out)) :
    out.labels.length = n ∧
    objective kind n A res (labOf out.labels) = objective kind n A res (fun u => u) + out.increases.sum ∧
    ∀ x ∈ out.increases, 0 ≤ x := by
  unfold louvainFitAdj at h
  split at h
  · cases h
  · rename_i lv hlv
    simp only [Except.ok.injEq] at h
    obtain ⟨w, hw, rfl⟩ := preProcessAdj_ok _ _ _ _ _ hlv
    have hOK := symLevel_levelOK n A w.1 w.2
    obtain ⟨extra, k1, k2, k3, k4⟩ := louvainLoopCapped_spec res tolOpt tolAgg nAgg _ _ 0 _
      (arange n) [] out hOK (by simp [arange, symLevel])
      (fun u hu => by
        show labOf (List.range n) u < n
        rw [labOf_range n u hu]; exact hu)
      (fun c' => Q_congr _ _ _ _ _ _ _ fun u hu => by
        show c' u = c' (labOf (List.range n) u)
        rw [labOf_range n u hu]) h
    simp only [List.nil_append] at k1
    refine ⟨k3, ?_, by rw [k1]; exact k2⟩
    have e1 := kindWeights_objective kind _ _ w hw res (labOf out.labels)
    have e2 := kindWeights_objective kind _ _ w hw res (labOf (arange n))
    have e3 : objective kind n A res (labOf (arange n)) = objective kind n A res (fun u => u) := by
      rw [← e2, ← kindWeights_objective kind _ _ w hw res (fun u => u)]
      exact Q_congr _ _ _ _ _ _ _ fun u hu => labOf_range _ _ hu
    rw [← e1, ← e3, ← e2, k1]
    exact k4

theorem louvainFitCapped_spec (kind : Kind) (res tolOpt tolAgg : Rat) (nAgg : Int) (nRow nCol nnz : Nat)
    (B : Nat → Nat → Rat) (fb : Bool) (out : FitOut)
    (h : louvainFitCapped kind res tolOpt tolAgg nAgg nRow nCol nnz B fb = .ok (some out)) :
    out.labels.length = (kindAdj kind nRow nCol B fb).1 ∧
    objective kind (kindAdj kind nRow nCol B fb).1 (kindAdj kind nRow nCol B fb).2 res (labOf out.labels)
      = objective kind (kindAdj kind nRow nCol B fb).1 (kindAdj kind nRow nCol B fb).2 res (fun u => u)
        + out.increases.sum ∧
    ∀ x ∈ out.increases, 0 ≤ x :=
  louvainFitAdj_spec kind res tolOpt tolAgg nAgg _ _ nnz out h

end SkNet.Modularity
