/-
`MinHeap` and `compute_core` stay within their buffers and terminate (property C17).

`Bnd h n` is the part of the heap invariant that bounds need: both vectors have `n` cells, `size ≤ n`, the live
prefix of `val` holds node ids `< n` (nothing is assumed of `pos`: stale positions are harmless for bounds).
Under `Bnd` every checked operation of `SkNet/Model/KernelsHeap.lean` succeeds and returns exactly what the
unchecked model of C11 (`SkNet/Model/Topology.lean`) returns, and `Bnd` is preserved.  Consequently on every
well-formed square CSR structure — symmetric or not, sorted or not, with duplicates or self-loops —
`compute_core` (repaired `__cinit__`: `resize`) never leaves its arrays, its `while not mh.empty()` loop makes
exactly `n` rounds, and the result is the result of C11's model.
-/
import SkNet.Model.KernelsHeap

set_option linter.unusedSimpArgs false

namespace SkNet.KHeap
open SkNet SkNet.Topology

/-! ### checked reads and writes -/

theorem rd_ok {l : List Nat} {i : Nat} (h : i < l.length) : rd l i = .ok (l.getD i 0) := by simp [rd, h]
theorem rdI_ok {l : List Int} {i : Nat} (h : i < l.length) : rdI l i = .ok (l.getD i 0) := by simp [rdI, h]
theorem wr_ok {l : List Nat} {i v : Nat} (h : i < l.length) : wr l i v = .ok (l.set i v) := by simp [wr, h]
theorem wrI_ok {l : List Int} {i : Nat} {v : Int} (h : i < l.length) : wrI l i v = .ok (l.set i v) := by
  simp [wrI, h]

@[simp] theorem ok_bind {ε α β : Type} (a : α) (f : α → Except ε β) : (Except.ok a >>= f) = f a := rfl
@[simp] theorem pure_eq_ok {ε α : Type} (a : α) : (pure a : Except ε α) = Except.ok a := rfl

theorem getD_set_nat (l : List Nat) (i j a d : Nat) :
    (l.set i a).getD j d = if i = j ∧ j < l.length then a else l.getD j d := by
  simp only [List.getD_eq_getElem?_getD, List.getElem?_set]
  by_cases hij : i = j
  · subst hij
    by_cases hl : i < l.length
    · simp [hl]
    · simp [hl]
  · simp [hij]

/-! ### the bounds invariant -/

structure Bnd (h : Heap) (n : Nat) : Prop where
  lenVal : h.val.length = n
  lenPos : h.pos.length = n
  sizeLe : h.size ≤ n
  valLt : ∀ i, i < h.size → h.val.getD i 0 < n

theorem bnd_empty (n : Nat) : Bnd (cinit true n) n := by
  refine ⟨by simp [cinit, Heap.empty], by simp [cinit, Heap.empty], Nat.zero_le _, ?_⟩
  intro i hi
  simp [cinit, Heap.empty] at hi

theorem cinit_true (n : Nat) : cinit true n = Heap.empty n := rfl

/-! ### swap -/

theorem swap_bnd {h : Heap} {n : Nat} (hb : Bnd h n) {x y : Nat} (hx : x < h.size) (hy : y < h.size) :
    Bnd (h.swap x y) n ∧ (h.swap x y).size = h.size := by
  have hxl : x < h.val.length := by have := hb.lenVal; have := hb.sizeLe; omega
  have hyl : y < h.val.length := by have := hb.lenVal; have := hb.sizeLe; omega
  refine ⟨⟨by simp [Heap.swap, hb.lenVal], by simp [Heap.swap, hb.lenPos], hb.sizeLe, ?_⟩, rfl⟩
  intro i hi
  show ((h.val.set x (h.val.getD y 0)).set y (h.val.getD x 0)).getD i 0 < n
  rw [getD_set_nat, getD_set_nat]
  split
  · exact hb.valLt x hx
  · split
    · exact hb.valLt y hy
    · exact hb.valLt i hi

theorem swap?_ok {h : Heap} {n : Nat} (hb : Bnd h n) {x y : Nat} (hx : x < h.size) (hy : y < h.size) :
    swap? h x y = .ok (h.swap x y) := by
  have hxl : x < h.val.length := by have := hb.lenVal; have := hb.sizeLe; omega
  have hyl : y < h.val.length := by have := hb.lenVal; have := hb.sizeLe; omega
  have hb' := (swap_bnd hb hx hy).1
  have v2x : ((h.val.set x (h.val.getD y 0)).set y (h.val.getD x 0)).getD x 0 < n := hb'.valLt x hx
  have v2y : ((h.val.set x (h.val.getD y 0)).set y (h.val.getD x 0)).getD y 0 < n := hb'.valLt y hy
  unfold swap?
  rw [rd_ok hxl]; simp only [ok_bind, pure_bind]
  rw [rd_ok hyl]; simp only [ok_bind, pure_bind]
  rw [wr_ok hxl]; simp only [ok_bind, pure_bind]
  rw [wr_ok (by simpa using hyl)]; simp only [ok_bind, pure_bind]
  rw [rd_ok (by simpa using hxl)]; simp only [ok_bind, pure_bind]
  rw [wr_ok (by rw [hb.lenPos]; exact v2x)]; simp only [ok_bind, pure_bind]
  rw [rd_ok (by simpa using hyl)]; simp only [ok_bind, pure_bind]
  rw [wr_ok (by rw [List.length_set, hb.lenPos]; exact v2y)]; simp only [ok_bind, pure_bind]
  rfl

/-! ### sift up -/

theorem siftUp?_ok (sc : List Int) (h : Heap) (i n : Nat) (hb : Bnd h n) (hi : i < h.size)
    (hsc : sc.length = n) :
    ∀ fuel, i < fuel →
      siftUp? sc fuel h i = .ok (h.siftUp sc i) ∧ Bnd (h.siftUp sc i) n ∧ (h.siftUp sc i).size = h.size := by
  fun_induction Heap.siftUp sc h i with
  | case1 h =>
    intro fuel hf
    cases fuel with
    | zero => omega
    | succ f => exact ⟨by simp [siftUp?], hb, rfl⟩
  | case2 h i hi0 hgt ih =>
    intro fuel hf
    have hp : parent i < i := by unfold parent; omega
    have hps : parent i < h.size := by omega
    have hil : i < h.val.length := by have := hb.lenVal; have := hb.sizeLe; omega
    have hpl : parent i < h.val.length := by omega
    obtain ⟨hb', hs'⟩ := swap_bnd hb hi hps
    cases fuel with
    | zero => omega
    | succ f =>
      obtain ⟨e1, e2, e3⟩ := ih hb' (by rw [hs']; exact hps) f (by omega)
      refine ⟨?_, e2, by rw [e3, hs']⟩
      simp only [siftUp?]
      rw [if_neg hi0]
      rw [rd_ok hpl]; simp only [ok_bind, pure_bind]
      rw [rdI_ok (by rw [hsc]; exact hb.valLt _ hps)]; simp only [ok_bind, pure_bind]
      rw [rd_ok hil]; simp only [ok_bind, pure_bind]
      rw [rdI_ok (by rw [hsc]; exact hb.valLt _ hi)]; simp only [ok_bind, pure_bind]
      rw [if_pos hgt, swap?_ok hb hi hps]; simp only [ok_bind, pure_bind]
      exact e1
  | case3 h i hi0 hgt =>
    intro fuel hf
    have hp : parent i < i := by unfold parent; omega
    have hps : parent i < h.size := by omega
    have hil : i < h.val.length := by have := hb.lenVal; have := hb.sizeLe; omega
    have hpl : parent i < h.val.length := by omega
    cases fuel with
    | zero => omega
    | succ f =>
      refine ⟨?_, hb, rfl⟩
      simp only [siftUp?]
      rw [if_neg hi0]
      rw [rd_ok hpl]; simp only [ok_bind, pure_bind]
      rw [rdI_ok (by rw [hsc]; exact hb.valLt _ hps)]; simp only [ok_bind, pure_bind]
      rw [rd_ok hil]; simp only [ok_bind, pure_bind]
      rw [rdI_ok (by rw [hsc]; exact hb.valLt _ hi)]; simp only [ok_bind, pure_bind]
      rw [if_neg hgt]
      rfl

/-! ### insert_key, decrease_key -/

theorem insertKey?_ok {h : Heap} {n k : Nat} (sc : List Int) (hb : Bnd h n) (hs : h.size < n) (hk : k < n)
    (hsc : sc.length = n) :
    insertKey? h k sc = .ok (h.insertKey k sc) ∧ Bnd (h.insertKey k sc) n ∧
      (h.insertKey k sc).size = h.size + 1 := by
  have hb1 : Bnd { val := h.val.set h.size k, pos := h.pos.set k h.size, size := h.size + 1 } n := by
    refine ⟨by simp [hb.lenVal], by simp [hb.lenPos], by show h.size + 1 ≤ n; omega, ?_⟩
    intro i hi
    show (h.val.set h.size k).getD i 0 < n
    rw [getD_set_nat]
    split
    · exact hk
    · exact hb.valLt i (by
        have hi' : i < h.size + 1 := hi
        rename_i hne
        have : ¬ (h.size = i) := by
          intro e; apply hne; exact ⟨e, by rw [hb.lenVal, ← e]; exact hs⟩
        omega)
  obtain ⟨e1, e2, e3⟩ := siftUp?_ok sc _ h.size n hb1 (by show h.size < h.size + 1; omega) hsc (h.size + 1) (by omega)
  refine ⟨?_, e2, e3⟩
  unfold insertKey?
  rw [wr_ok (by rw [hb.lenVal]; exact hs)]; simp only [ok_bind, pure_bind]
  rw [wr_ok (by rw [hb.lenPos]; exact hk)]; simp only [ok_bind, pure_bind]
  exact e1

theorem decreaseKey?_ok {h : Heap} {n j : Nat} (sc : List Int) (hb : Bnd h n) (hj : j < n) (hsc : sc.length = n) :
    decreaseKey? h j sc = .ok (h.decreaseKey j sc) ∧ Bnd (h.decreaseKey j sc) n ∧
      (h.decreaseKey j sc).size = h.size := by
  by_cases hp : h.pos.getD j 0 < h.size
  · have e : h.decreaseKey j sc = h.siftUp sc (h.pos.getD j 0) := by
      show (if h.pos.getD j 0 < h.size then h.siftUp sc (h.pos.getD j 0) else h) = _
      rw [if_pos hp]
    rw [e]
    obtain ⟨s1, s2, s3⟩ := siftUp?_ok sc h _ n hb hp hsc (h.pos.getD j 0 + 1) (by omega)
    refine ⟨?_, s2, s3⟩
    unfold decreaseKey?
    rw [rd_ok (by rw [hb.lenPos]; exact hj)]; simp only [ok_bind, pure_bind]
    rw [if_pos hp]
    exact s1
  · have e : h.decreaseKey j sc = h := by
      show (if h.pos.getD j 0 < h.size then h.siftUp sc (h.pos.getD j 0) else h) = _
      rw [if_neg hp]
    rw [e]
    refine ⟨?_, hb, rfl⟩
    unfold decreaseKey?
    rw [rd_ok (by rw [hb.lenPos]; exact hj)]; simp only [ok_bind, pure_bind]
    rw [if_neg hp]
    rfl

/-! ### min_heapify, pop_min -/

theorem smallest?_ok {h : Heap} {n i : Nat} (sc : List Int) (hb : Bnd h n) (hi : i < h.size) (hsc : sc.length = n) :
    smallest? sc h i = .ok (h.smallest sc i) := by
  have hlen : ∀ j, j < h.size → j < h.val.length := by
    intro j hj; have := hb.lenVal; have := hb.sizeLe; omega
  have hv : ∀ j, j < h.size → h.val.getD j 0 < sc.length := by
    intro j hj; rw [hsc]; exact hb.valLt j hj
  unfold smallest? Heap.smallest
  by_cases h1 : 2 * i + 1 < h.size
  · simp only [h1, if_true, true_and]
    rw [rd_ok (hlen _ h1)]; simp only [ok_bind, pure_bind]
    rw [rdI_ok (hv _ h1)]; simp only [ok_bind, pure_bind]
    rw [rd_ok (hlen _ hi)]; simp only [ok_bind, pure_bind]
    rw [rdI_ok (hv _ hi)]; simp only [ok_bind, pure_bind]
    by_cases h2 : 2 * i + 2 < h.size
    · simp only [h2, if_true, true_and]
      have hs1 : (if sc.getD (h.val.getD (2 * i + 1) 0) 0 < sc.getD (h.val.getD i 0) 0 then 2 * i + 1 else i) < h.size := by
        split <;> assumption
      rw [rd_ok (hlen _ h2)]; simp only [ok_bind, pure_bind]
      rw [rdI_ok (hv _ h2)]; simp only [ok_bind, pure_bind]
      rw [rd_ok (hlen _ hs1)]; simp only [ok_bind, pure_bind]
      rw [rdI_ok (hv _ hs1)]; simp only [ok_bind, pure_bind]
      rfl
    · simp only [h2, if_false, false_and, pure_bind]
      rfl
  · simp only [h1, if_false, false_and, ok_bind, pure_bind]
    by_cases h2 : 2 * i + 2 < h.size
    · omega
    · simp only [h2, if_false, false_and]
      rfl

theorem minHeapify?_ok (sc : List Int) (h : Heap) (i n : Nat) (hb : Bnd h n) (hi : i < h.size)
    (hsc : sc.length = n) :
    ∀ fuel, h.size - i < fuel →
      minHeapify? sc fuel h i = .ok (h.minHeapify sc i) ∧ Bnd (h.minHeapify sc i) n ∧
        (h.minHeapify sc i).size = h.size := by
  fun_induction Heap.minHeapify sc h i with
  | case1 h i hne ih =>
    intro fuel hf
    have hcases := Heap.smallest_cases sc h i
    have hss : h.smallest sc i < h.size ∧ i < h.smallest sc i := by
      rcases hcases with e | ⟨e, hlt⟩ | ⟨e, hlt⟩
      · exact absurd e hne
      · rw [e]; exact ⟨hlt, by omega⟩
      · rw [e]; exact ⟨hlt, by omega⟩
    obtain ⟨hb', hs'⟩ := swap_bnd hb hi hss.1
    cases fuel with
    | zero => omega
    | succ f =>
      obtain ⟨e1, e2, e3⟩ := ih hb' (by rw [hs']; exact hss.1) f (by rw [hs']; omega)
      refine ⟨?_, e2, by rw [e3, hs']⟩
      simp only [minHeapify?]
      rw [smallest?_ok sc hb hi hsc]; simp only [ok_bind, pure_bind]
      rw [if_pos hne, swap?_ok hb hi hss.1]; simp only [ok_bind, pure_bind]
      exact e1
  | case2 h i hne =>
    intro fuel hf
    cases fuel with
    | zero => omega
    | succ f =>
      refine ⟨?_, hb, rfl⟩
      simp only [minHeapify?]
      rw [smallest?_ok sc hb hi hsc]; simp only [ok_bind, pure_bind]
      rw [if_neg hne]
      rfl

theorem popMin?_ok {h : Heap} {n : Nat} (sc : List Int) (hb : Bnd h n) (hpos : 0 < h.size) (hsc : sc.length = n) :
    popMin? h sc = .ok (h.popMin sc) ∧ Bnd (h.popMin sc).2 n ∧ (h.popMin sc).2.size = h.size - 1 ∧
      (h.popMin sc).1 < n := by
  have h0l : 0 < h.val.length := by have := hb.lenVal; have := hb.sizeLe; omega
  by_cases h1 : h.size = 1
  · have e : h.popMin sc = (h.val.getD 0 0, { h with size := 0 }) := by simp [Heap.popMin, h1]
    rw [e]
    refine ⟨?_, ⟨hb.lenVal, hb.lenPos, Nat.zero_le _, fun i hi => absurd hi (Nat.not_lt_zero _)⟩, by simp [h1],
      hb.valLt 0 hpos⟩
    unfold popMin?
    rw [if_pos h1, rd_ok h0l]
    rfl
  · have h2 : 2 ≤ h.size := by omega
    have hlast : h.size - 1 < h.val.length := by have := hb.lenVal; have := hb.sizeLe; omega
    have hb1 : Bnd { val := h.val.set 0 (h.val.getD (h.size - 1) 0),
                     pos := h.pos.set ((h.val.set 0 (h.val.getD (h.size - 1) 0)).getD 0 0) 0,
                     size := h.size - 1 } n := by
      refine ⟨by simp [hb.lenVal], by simp [hb.lenPos], by show h.size - 1 ≤ n; have := hb.sizeLe; omega, ?_⟩
      intro i hi
      have hi' : i < h.size - 1 := hi
      show (h.val.set 0 (h.val.getD (h.size - 1) 0)).getD i 0 < n
      rw [getD_set_nat]
      split
      · exact hb.valLt _ (by omega)
      · exact hb.valLt i (by omega)
    have hv0 : (h.val.set 0 (h.val.getD (h.size - 1) 0)).getD 0 0 < n := hb1.valLt 0 (by show 0 < h.size - 1; omega)
    obtain ⟨e1, e2, e3⟩ := minHeapify?_ok sc _ 0 n hb1 (by show 0 < h.size - 1; omega) hsc (h.size - 1 + 1)
      (by show h.size - 1 - 0 < h.size - 1 + 1; omega)
    have e : h.popMin sc = (h.val.getD 0 0, Heap.minHeapify sc
        { val := h.val.set 0 (h.val.getD (h.size - 1) 0),
          pos := h.pos.set ((h.val.set 0 (h.val.getD (h.size - 1) 0)).getD 0 0) 0,
          size := h.size - 1 } 0) := by
      simp [Heap.popMin, h1]
    rw [e]
    refine ⟨?_, e2, e3, hb.valLt 0 hpos⟩
    unfold popMin?
    rw [if_neg h1, if_neg (by omega)]
    rw [rd_ok h0l]; simp only [ok_bind, pure_bind]
    rw [rd_ok hlast]; simp only [ok_bind, pure_bind]
    rw [wr_ok h0l]; simp only [ok_bind, pure_bind]
    rw [rd_ok (by simpa using h0l)]; simp only [ok_bind, pure_bind]
    rw [wr_ok (by rw [hb.lenPos]; exact hv0)]; simp only [ok_bind, pure_bind]
    rw [e1]
    rfl

/-! ### compute_core -/

/-- what `compute_core` may assume of the CSR structure it receives: `indptr` has `n + 1` cells, every row ends
    inside `indices`, every column index is a node -/
structure CsrOK (indptr indices : List Nat) (n : Nat) : Prop where
  lenPtr : indptr.length = n + 1
  rowEnd : ∀ i, i < n → indptr.getD (i + 1) 0 ≤ indices.length
  colLt : ∀ k, k < indices.length → indices.getD k 0 < n

/-- body of the loop over the neighbours, as in the model of C11 -/
def relaxStep (indices : List Nat) (hd : Heap × List Int) (k : Nat) : Heap × List Int :=
  let j := indices.getD k 0
  let degrees := hd.2.set j (hd.2.getD j 0 - 1)
  (hd.1.decreaseKey j degrees, degrees)

theorem relax?_ok (indices : List Nat) (n : Nat) (hcol : ∀ k, k < indices.length → indices.getD k 0 < n) :
    ∀ (ks : List Nat) (hd : Heap × List Int), (∀ k ∈ ks, k < indices.length) → Bnd hd.1 n → hd.2.length = n →
      relax? indices ks hd = .ok (ks.foldl (relaxStep indices) hd) ∧
        Bnd (ks.foldl (relaxStep indices) hd).1 n ∧ (ks.foldl (relaxStep indices) hd).2.length = n ∧
        (ks.foldl (relaxStep indices) hd).1.size = hd.1.size := by
  intro ks
  induction ks with
  | nil => intro hd _ hb hl; exact ⟨rfl, hb, hl, rfl⟩
  | cons k ks ih =>
    intro hd hks hb hl
    have hk := hks k (List.mem_cons_self ..)
    have hj := hcol k hk
    have hl' : (hd.2.set (indices.getD k 0) (hd.2.getD (indices.getD k 0) 0 - 1)).length = n := by simp [hl]
    obtain ⟨d1, d2, d3⟩ := decreaseKey?_ok (hd.2.set (indices.getD k 0) (hd.2.getD (indices.getD k 0) 0 - 1)) hb hj hl'
    obtain ⟨r1, r2, r3, r4⟩ := ih (relaxStep indices hd k) (fun k' hk' => hks k' (List.mem_cons_of_mem _ hk'))
      d2 hl'
    simp only [List.foldl_cons]
    refine ⟨?_, r2, r3, by rw [r4]; exact d3⟩
    simp only [relax?]
    rw [rd_ok hk]; simp only [ok_bind, pure_bind]
    rw [rdI_ok (by rw [hl]; exact hj)]; simp only [ok_bind, pure_bind]
    rw [wrI_ok (by rw [hl]; exact hj)]; simp only [ok_bind, pure_bind]
    rw [d1]; simp only [ok_bind, pure_bind]
    exact r1

theorem relaxNeighbors_eq_fold (indptr indices : List Nat) (m : Nat) (heap : Heap) (degrees : List Int) :
    relaxNeighbors indptr indices m heap degrees =
      (rangeFrom (indptr.getD m 0) (indptr.getD (m+1) 0)).foldl (relaxStep indices) (heap, degrees) := rfl

/-- the part of the loop state that bounds need -/
structure CInv (s : CoreState) (n : Nat) : Prop where
  heap : Bnd s.heap n
  dlen : s.degrees.length = n
  llen : s.labels.length = n

theorem mem_rangeFrom {lo hi k : Nat} (h : k ∈ rangeFrom lo hi) : k < hi := by
  simp only [rangeFrom, List.mem_map, List.mem_range] at h
  obtain ⟨t, ht, rfl⟩ := h
  omega

theorem coreStep?_ok {indptr indices : List Nat} {n : Nat} (hc : CsrOK indptr indices n) {s : CoreState}
    (inv : CInv s n) (hpos : 0 < s.heap.size) :
    coreStep? indptr indices s = .ok (coreStep indptr indices s) ∧ CInv (coreStep indptr indices s) n ∧
      (coreStep indptr indices s).heap.size = s.heap.size - 1 := by
  obtain ⟨p1, p2, p3, p4⟩ := popMin?_ok s.degrees inv.heap hpos inv.dlen
  have hmem : ∀ k ∈ rangeFrom (indptr.getD (s.heap.popMin s.degrees).1 0) (indptr.getD ((s.heap.popMin s.degrees).1 + 1) 0),
      k < indices.length := by
    intro k hk
    have := mem_rangeFrom hk
    have := hc.rowEnd _ p4
    omega
  obtain ⟨r1, r2, r3, r4⟩ := relax?_ok indices n hc.colLt _ ((s.heap.popMin s.degrees).2, s.degrees) hmem p2 inv.dlen
  have e : coreStep indptr indices s =
      { heap := ((rangeFrom (indptr.getD (s.heap.popMin s.degrees).1 0) (indptr.getD ((s.heap.popMin s.degrees).1 + 1) 0)).foldl
          (relaxStep indices) ((s.heap.popMin s.degrees).2, s.degrees)).1,
        degrees := ((rangeFrom (indptr.getD (s.heap.popMin s.degrees).1 0) (indptr.getD ((s.heap.popMin s.degrees).1 + 1) 0)).foldl
          (relaxStep indices) ((s.heap.popMin s.degrees).2, s.degrees)).2,
        labels := s.labels.set (s.heap.popMin s.degrees).1 (max s.coreValue (s.degrees.getD (s.heap.popMin s.degrees).1 0)),
        coreValue := max s.coreValue (s.degrees.getD (s.heap.popMin s.degrees).1 0) } := by
    simp only [coreStep, relaxNeighbors_eq_fold]
  rw [e]
  refine ⟨?_, ⟨r2, r3, by simp [inv.llen]⟩, by rw [r4]; exact p3⟩
  unfold coreStep?
  rw [p1]; simp only [ok_bind, pure_bind]
  rw [rdI_ok (by rw [inv.dlen]; exact p4)]; simp only [ok_bind, pure_bind]
  rw [rd_ok (by rw [hc.lenPtr]; omega)]; simp only [ok_bind, pure_bind]
  rw [rd_ok (by rw [hc.lenPtr]; omega)]; simp only [ok_bind, pure_bind]
  rw [r1]; simp only [ok_bind, pure_bind]
  rw [wrI_ok (by rw [inv.llen]; exact p4)]; simp only [ok_bind, pure_bind]
  rfl

theorem coreLoop?_ok {indptr indices : List Nat} {n : Nat} (hc : CsrOK indptr indices n) :
    ∀ (fuel : Nat) (s : CoreState), CInv s n → s.heap.size ≤ fuel →
      ∃ s', coreLoop? indptr indices fuel s = .ok s' ∧ coreLoop indptr indices fuel s = some s' ∧ CInv s' n := by
  intro fuel
  induction fuel with
  | zero =>
    intro s inv hs
    have h0 : s.heap.size = 0 := by omega
    exact ⟨s, by simp [coreLoop?, h0], by simp [coreLoop, h0], inv⟩
  | succ fuel ih =>
    intro s inv hs
    by_cases h0 : s.heap.size = 0
    · exact ⟨s, by simp [coreLoop?, h0], by simp [coreLoop, h0], inv⟩
    · obtain ⟨c1, c2, c3⟩ := coreStep?_ok hc inv (by omega)
      obtain ⟨s', l1, l2, l3⟩ := ih _ c2 (by rw [c3]; omega)
      refine ⟨s', ?_, ?_, l3⟩
      · simp only [coreLoop?, h0, if_false]
        rw [c1]; simp only [ok_bind, pure_bind]
        exact l1
      · simp only [coreLoop, h0, if_false]
        exact l2

theorem insertAll?_ok (degrees : List Int) (n : Nat) (hd : degrees.length = n) :
    ∀ (is : List Nat) (h : Heap), (∀ i ∈ is, i < n) → Bnd h n → h.size + is.length ≤ n →
      insertAll? degrees is h = .ok (is.foldl (fun h i => h.insertKey i degrees) h) ∧
        Bnd (is.foldl (fun h i => h.insertKey i degrees) h) n ∧
        (is.foldl (fun h i => h.insertKey i degrees) h).size = h.size + is.length := by
  intro is
  induction is with
  | nil => intro h _ hb _; exact ⟨rfl, hb, rfl⟩
  | cons i is ih =>
    intro h his hb hlen
    simp only [List.length_cons] at hlen
    obtain ⟨e1, e2, e3⟩ := insertKey?_ok degrees hb (by omega) (his i (List.mem_cons_self ..)) hd
    obtain ⟨r1, r2, r3⟩ := ih (h.insertKey i degrees) (fun j hj => his j (List.mem_cons_of_mem _ hj)) e2
      (by rw [e3]; omega)
    simp only [List.foldl_cons]
    refine ⟨?_, r2, by rw [r3, e3]; simp only [List.length_cons]; omega⟩
    simp only [insertAll?]
    rw [e1]; simp only [ok_bind, pure_bind]
    exact r1

/-- **`compute_core` stays within its buffers and terminates**: on every CSR structure with `n + 1` row pointers,
    rows ending inside `indices` and column indices `< n`, the checked model (repaired `__cinit__`) returns —
    no access outside an array, the `while not mh.empty()` loop within its `n` rounds — and it returns what the
    unchecked model of C11 returns. -/
theorem computeCore?_ok {indptr indices : List Nat} {n : Nat} (hc : CsrOK indptr indices n) :
    ∃ labels : List Int, computeCore? true indptr indices = .ok labels ∧
      Topology.computeCore indptr indices = some labels ∧ labels.length = n := by
  have hn : indptr.length - 1 = n := by rw [hc.lenPtr]; omega
  obtain ⟨i1, i2, i3⟩ := insertAll?_ok (tab n fun i => (indptr.getD (i+1) 0 : Int) - (indptr.getD i 0 : Int)) n
    (by simp) (List.range n) (cinit true n) (fun i hi => List.mem_range.mp hi) (bnd_empty n)
    (by simp [cinit, Heap.empty])
  have inv0 : CInv
      { heap := (List.range n).foldl (fun h i => h.insertKey i
          (tab n fun i => (indptr.getD (i+1) 0 : Int) - (indptr.getD i 0 : Int))) (cinit true n),
        degrees := tab n fun i => (indptr.getD (i+1) 0 : Int) - (indptr.getD i 0 : Int),
        labels := List.replicate n 0, coreValue := 0 } n := ⟨i2, by simp, by simp⟩
  obtain ⟨s', l1, l2, l3⟩ := coreLoop?_ok hc n _ inv0 (by
    show ((List.range n).foldl _ (cinit true n)).size ≤ n
    rw [i3]; simp [cinit, Heap.empty])
  refine ⟨s'.labels, ?_, ?_, l3.llen⟩
  · unfold computeCore?
    simp only [hn]
    rw [i1]; simp only [ok_bind, pure_bind]
    rw [l1]; simp only [ok_bind, pure_bind]
    rfl
  · unfold Topology.computeCore coreInit
    simp only [hn]
    rw [← cinit_true, l2]
    rfl

end SkNet.KHeap
