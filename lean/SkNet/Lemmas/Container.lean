/- Lemmas for C01: sums over stored rows, the conversions of `toCsrRows`. Core Lean only. -/
import SkNet.Model.Container

namespace SkNet.Fmt

attribute [-simp] List.getD_eq_getElem?_getD

theorem filterMap_congr' {α β : Type} {f g : α → Option β} : ∀ {l : List α}, (∀ x ∈ l, f x = g x) →
    l.filterMap f = l.filterMap g
  | [], _ => rfl
  | x :: xs, h => by
    have hx := h x (by simp)
    have ih := filterMap_congr' (l := xs) (fun y hy => h y (by simp [hy]))
    simp only [List.filterMap_cons, hx, ih]

theorem sumR_nil : sumR [] = 0 := rfl
theorem sumR_cons (x : Rat) (l : List Rat) : sumR (x :: l) = x + sumR l := rfl

theorem sumR_append (a b : List Rat) : sumR (a ++ b) = sumR a + sumR b := by
  induction a with
  | nil => simp [sumR_nil, Rat.zero_add]
  | cons x xs ih => rw [List.cons_append, sumR_cons, sumR_cons, ih, Rat.add_assoc]

theorem sumR_perm {a b : List Rat} (h : a.Perm b) : sumR a = sumR b := by
  unfold sumR
  exact h.foldr_eq' (fun x _ y _ z => Rat.add_left_comm y x z) 0

theorem rowEntry_nil (j : Nat) : rowEntry [] j = 0 := rfl

theorem rowEntry_append (a b : Row) (j : Nat) : rowEntry (a ++ b) j = rowEntry a j + rowEntry b j := by
  unfold rowEntry
  rw [List.filter_append, List.map_append, sumR_append]

theorem rowEntry_perm {a b : Row} (h : a.Perm b) (j : Nat) : rowEntry a j = rowEntry b j := by
  unfold rowEntry
  exact sumR_perm ((h.filter _).map _)

/-- a row that only stores column `k` -/
theorem rowEntry_single_col (r : Row) (k j : Nat) (h : ∀ p ∈ r, p.1 = k) :
    rowEntry r j = if j = k then sumR (r.map (·.2)) else 0 := by
  unfold rowEntry
  by_cases hjk : j = k
  · subst hjk
    have : r.filter (fun p => p.1 == j) = r := by
      apply List.filter_eq_self.2
      intro p hp; simp [h p hp]
    simp [this]
  · have : r.filter (fun p => p.1 == j) = [] := by
      apply List.filter_eq_nil_iff.2
      intro p hp
      have := h p hp
      simp; omega
    simp [this, hjk, sumR_nil]

/-- rows built column by column: `if c j then some (j, g j)` over `range n` -/
theorem rowEntry_range_filterMap (c : Nat → Bool) (g : Nat → Rat) (hg : ∀ j, c j = false → g j = 0) :
    ∀ (n j0 : Nat), rowEntry ((List.range n).filterMap fun j => if c j then some (j, g j) else none) j0
      = if j0 < n then g j0 else 0 := by
  intro n
  induction n with
  | zero => intro j0; simp [rowEntry_nil]
  | succ n ih =>
    intro j0
    rw [List.range_succ, List.filterMap_append, rowEntry_append, ih j0]
    have hlast : rowEntry (List.filterMap (fun j => if c j then some (j, g j) else none) [n]) j0
        = if j0 = n then g n else 0 := by
      cases hc : c n
      · simp [List.filterMap, hc, rowEntry_nil, hg n hc]
      · simp only [List.filterMap, hc, if_true]
        rw [rowEntry_single_col [(n, g n)] n j0 (by simp)]
        simp [sumR_cons, sumR_nil, Rat.add_zero]
    rw [hlast]
    by_cases h1 : j0 < n
    · have : j0 ≠ n := by omega
      have h2 : j0 < n + 1 := by omega
      simp [h1, this, h2, Rat.add_zero]
    · by_cases h2 : j0 = n
      · subst h2; simp [Rat.zero_add]
      · have h3 : ¬ j0 < n + 1 := by omega
        simp [h1, h2, h3, Rat.add_zero]

/-- rows built by transposing columns: column `j` contributes its entries of row `i` at column `j` -/
theorem rowEntry_flatMap_cols (cols : Rows) (i : Nat) :
    ∀ (n j0 : Nat), rowEntry ((List.range n).flatMap fun j =>
        ((cols.getD j []).filter fun p => p.1 == i).map fun p => (j, p.2)) j0
      = if j0 < n then rowEntry (cols.getD j0 []) i else 0 := by
  intro n
  induction n with
  | zero => intro j0; simp [rowEntry_nil]
  | succ n ih =>
    intro j0
    rw [List.range_succ, List.flatMap_append, rowEntry_append, ih j0]
    simp only [List.flatMap_cons, List.flatMap_nil, List.append_nil]
    rw [rowEntry_single_col _ n j0 (by
      intro p hp
      obtain ⟨q, _, rfl⟩ := List.mem_map.1 hp
      rfl)]
    have hsum : sumR ((((cols.getD n []).filter fun p => p.1 == i).map fun p => (n, p.2)).map (·.2))
        = rowEntry (cols.getD n []) i := by
      unfold rowEntry
      rw [List.map_map]
      rfl
    rw [hsum]
    by_cases h1 : j0 < n
    · have : j0 ≠ n := by omega
      have h2 : j0 < n + 1 := by omega
      simp [h1, this, h2, Rat.add_zero]
    · by_cases h2 : j0 = n
      · subst h2; simp [Rat.zero_add]
      · have h3 : ¬ j0 < n + 1 := by omega
        simp [h1, h2, h3, Rat.add_zero]

end SkNet.Fmt
