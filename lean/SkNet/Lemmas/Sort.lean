/- `np.sort` as modelled by `SkNet.Cut.sortH`: a sorted permutation; the counting fact behind `cut_straight`. -/
import SkNet.Model.Cut
import Mathlib.Order.Defs.LinearOrder

namespace SkNet.Cut
variable {α : Type} [LinearOrder α]

theorem insertH_perm (x : α) (l : List α) : (insertH x l).Perm (x :: l) := by
  induction l with
  | nil => simp [insertH]
  | cons y ys ih =>
    simp only [insertH]
    split
    · exact List.Perm.refl _
    · exact (List.Perm.cons y ih).trans (List.Perm.swap x y ys)

theorem insertH_sorted (x : α) (l : List α) (hl : l.Pairwise (· ≤ ·)) : (insertH x l).Pairwise (· ≤ ·) := by
  induction l with
  | nil => simp [insertH]
  | cons y ys ih =>
    simp only [insertH]
    have hy := List.pairwise_cons.mp hl
    split
    · rename_i hlt
      refine List.pairwise_cons.mpr ⟨?_, hl⟩
      intro b hb
      rcases List.mem_cons.mp hb with e | e
      · subst e; exact le_of_lt hlt
      · exact le_trans (le_of_lt hlt) (hy.1 b e)
    · rename_i hge
      refine List.pairwise_cons.mpr ⟨?_, ih hy.2⟩
      intro b hb
      have hb' := (insertH_perm x ys).subset hb
      rcases List.mem_cons.mp hb' with e | e
      · subst e; exact not_lt.mp hge
      · exact hy.1 b e

theorem sortH_perm (l : List α) : (sortH l).Perm l := by
  induction l with
  | nil => simp [sortH]
  | cons x xs ih =>
    simp only [sortH, List.foldr_cons]
    exact (insertH_perm _ _).trans (List.Perm.cons x ih)

theorem sortH_sorted (l : List α) : (sortH l).Pairwise (· ≤ ·) := by
  induction l with
  | nil => simp [sortH]
  | cons x xs ih =>
    simp only [sortH, List.foldr_cons]
    exact insertH_sorted _ _ ih

/-- in a sorted list at most `m` elements are strictly below the element at position `m` -/
theorem countP_lt_sorted (S : List α) (hS : S.Pairwise (· ≤ ·)) (m : Nat) (c : α) (hc : S[m]? = some c) :
    S.countP (fun x => decide (x < c)) ≤ m := by
  induction S generalizing m with
  | nil => simp at hc
  | cons y ys ih =>
    have hy := List.pairwise_cons.mp hS
    cases m with
    | zero =>
      simp only [List.getElem?_cons_zero, Option.some.injEq] at hc
      subst hc
      have : (y :: ys).countP (fun x => decide (x < y)) = 0 := by
        rw [List.countP_eq_zero]
        intro a ha
        simp only [decide_eq_true_eq, not_lt]
        rcases List.mem_cons.mp ha with e | e
        · subst e; exact le_refl _
        · exact hy.1 a e
      omega
    | succ m =>
      simp only [List.getElem?_cons_succ] at hc
      have := ih hy.2 m hc
      rw [List.countP_cons]
      split <;> omega

/-- at most `m` heights are strictly below `np.sort(heights)[m]` -/
theorem countP_lt_sortH (l : List α) (m : Nat) (c : α) (hc : (sortH l)[m]? = some c) :
    l.countP (fun x => decide (x < c)) ≤ m := by
  rw [← (sortH_perm l).countP_eq]
  exact countP_lt_sorted _ (sortH_sorted l) m c hc

end SkNet.Cut
