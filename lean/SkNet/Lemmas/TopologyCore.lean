/-
C11 helper lemmas: `compute_core` (peeling by minimum degree with the indexed min-heap) returns the core number
of every node of an undirected simple graph.
-/
import SkNet.Lemmas.TopologyHeap
import SkNet.Lemmas.TopologyCsr
import SkNet.Spec.Topology

set_option linter.unusedSimpArgs false

namespace SkNet.Topology

/-! ### degrees inside a set -/

theorem filter_length_mono {α : Type} (l : List α) (p q : α → Bool) (h : ∀ x ∈ l, p x = true → q x = true) :
    (l.filter p).length ≤ (l.filter q).length := by
  induction l with
  | nil => exact Nat.le_refl _
  | cons x xs ih =>
    have ih' := ih (fun y hy => h y (List.mem_cons_of_mem _ hy))
    rw [List.filter_cons, List.filter_cons]
    by_cases hp : p x = true
    · rw [if_pos hp, if_pos (h x (List.mem_cons_self) hp)]
      simp only [List.length_cons]; omega
    · rw [if_neg hp]
      by_cases hq : q x = true
      · rw [if_pos hq]; simp only [List.length_cons]; omega
      · rw [if_neg hq]; exact ih'

theorem degIn_congr (n : Nat) (adj : Nat → Nat → Bool) (S S' : Nat → Bool) (v : Nat)
    (h : ∀ u, u < n → S u = S' u) : degIn n adj S v = degIn n adj S' v := by
  unfold degIn
  congr 1
  apply List.filter_congr
  intro u hu
  rw [h u (List.mem_range.1 hu)]

theorem degIn_mono (n : Nat) (adj : Nat → Nat → Bool) (S S' : Nat → Bool) (v : Nat)
    (h : ∀ u, S u = true → S' u = true) : degIn n adj S v ≤ degIn n adj S' v := by
  unfold degIn
  apply filter_length_mono
  intro u _ hu
  rw [Bool.and_eq_true] at hu ⊢
  exact ⟨h u hu.1, hu.2⟩

theorem filter_remove_length (l : List Nat) (hnd : l.Nodup) (S : Nat → Bool) (q : Nat → Bool) (r : Nat)
    (hr : r ∈ l) (hS : S r = true) :
    (l.filter fun u => (S u && u != r) && q u).length + (if q r then 1 else 0) =
      (l.filter fun u => S u && q u).length := by
  induction l with
  | nil => simp at hr
  | cons x xs ih =>
    rw [List.nodup_cons] at hnd
    by_cases hxr : x = r
    · subst hxr
      have hrest : (xs.filter fun u => (S u && u != x) && q u) = xs.filter fun u => S u && q u := by
        apply List.filter_congr
        intro u hu
        have hne : (u != x) = true := by
          rw [bne_iff_ne]; exact fun e => hnd.1 (e ▸ hu)
        rw [hne, Bool.and_true]
      have h1 : ((S x && x != x) && q x) = false := by simp
      rw [List.filter_cons, List.filter_cons, h1, hrest, hS, Bool.true_and]
      by_cases hq : q x = true
      · simp [hq]
      · simp [hq]
    · have hr' : r ∈ xs := by
        rcases List.mem_cons.1 hr with e | e
        · exact absurd e.symm hxr
        · exact e
      have ih' := ih hnd.2 hr'
      have hne : (x != r) = true := by simp [hxr]
      have h1 : ((S x && x != r) && q x) = (S x && q x) := by rw [hne, Bool.and_true]
      rw [List.filter_cons, List.filter_cons, h1]
      by_cases hc : (S x && q x) = true
      · rw [if_pos hc, if_pos hc]; simp only [List.length_cons]; omega
      · rw [if_neg hc, if_neg hc]; exact ih'

theorem degIn_remove (n : Nat) (adj : Nat → Nat → Bool) (S S' : Nat → Bool) (r v : Nat) (hr : r < n)
    (hS : S r = true) (hS' : ∀ u, u < n → S' u = (S u && u != r)) :
    degIn n adj S' v + (if adj v r then 1 else 0) = degIn n adj S v := by
  unfold degIn
  have : (List.range n).filter (fun u => S' u && adj v u) =
      (List.range n).filter (fun u => (S u && u != r) && adj v u) := by
    apply List.filter_congr
    intro u hu
    rw [hS' u (List.mem_range.1 hu)]
  rw [this]
  exact filter_remove_length (List.range n) List.nodup_range S (adj v) r (List.mem_range.2 hr) hS

/-- every node of `S` is a node and has at least `k` neighbours in `S` -/
def MinDeg (n : Nat) (adj : Nat → Nat → Bool) (S : Nat → Bool) (k : Int) : Prop :=
  ∀ u, S u = true → u < n ∧ k ≤ (degIn n adj S u : Int)

theorem inCore_iff (n : Nat) (adj : Nat → Nat → Bool) (k v : Nat) :
    InCore n adj k v ↔ ∃ S : Nat → Bool, S v = true ∧ MinDeg n adj S (k : Int) := by
  unfold InCore MinDeg
  constructor
  · rintro ⟨S, h1, h2⟩
    exact ⟨S, h1, fun u hu => ⟨(h2 u hu).1, by exact_mod_cast (h2 u hu).2⟩⟩
  · rintro ⟨S, h1, h2⟩
    exact ⟨S, h1, fun u hu => ⟨(h2 u hu).1, by exact_mod_cast (h2 u hu).2⟩⟩

/-! ### the live set of the heap as a boolean predicate -/

/-- membership in the heap, as a boolean predicate (for `degIn`) -/
noncomputable def liveB (h : Heap) (v : Nat) : Bool := @decide (h.live v) (Classical.propDecidable _)

theorem liveB_iff (h : Heap) (v : Nat) : liveB h v = true ↔ h.live v := by
  unfold liveB; exact @decide_eq_true_iff _ (Classical.propDecidable _)

theorem live_lt {h : Heap} {sc : List Int} {n : Nat} (hinv : HeapInv h sc n) {v : Nat} (hl : h.live v) : v < n := by
  obtain ⟨i, hi, e⟩ := hl
  rw [← e]; exact hinv.valLt i hi

end SkNet.Topology

namespace SkNet.Topology

/-! ### the loop over the neighbours of the removed node -/

/-- body of the loop of `relaxNeighbors`, on the neighbour itself -/
def relaxBody (hd : Heap × List Int) (j : Nat) : Heap × List Int :=
  ((hd.1.decreaseKey j (hd.2.set j (hd.2.getD j 0 - 1))), hd.2.set j (hd.2.getD j 0 - 1))

theorem relaxNeighbors_eq (indptr indices : List Nat) (minNode : Nat) (heap : Heap) (degrees : List Int) :
    relaxNeighbors indptr indices minNode heap degrees =
      (Dag.row ⟨indptr, indices⟩ minNode).foldl relaxBody (heap, degrees) := by
  unfold relaxNeighbors Dag.row sliceOf
  rw [List.foldl_map]
  rfl

theorem coreStep_eq (indptr indices : List Nat) (s : CoreState) :
    coreStep indptr indices s =
      { heap := (relaxNeighbors indptr indices (s.heap.popMin s.degrees).1 (s.heap.popMin s.degrees).2 s.degrees).1,
        degrees := (relaxNeighbors indptr indices (s.heap.popMin s.degrees).1 (s.heap.popMin s.degrees).2 s.degrees).2,
        labels := s.labels.set (s.heap.popMin s.degrees).1
          (max s.coreValue (s.degrees.getD (s.heap.popMin s.degrees).1 0)),
        coreValue := max s.coreValue (s.degrees.getD (s.heap.popMin s.degrees).1 0) } := rfl

theorem relax_fold (n : Nat) (row : List Nat) (hnd : row.Nodup) (hlt : ∀ j ∈ row, j < n) :
    ∀ (h0 : Heap) (d0 : List Int), HeapInv h0 d0 n → d0.length = n →
      HeapInv (row.foldl relaxBody (h0, d0)).1 (row.foldl relaxBody (h0, d0)).2 n ∧
        (row.foldl relaxBody (h0, d0)).2.length = n ∧
        (row.foldl relaxBody (h0, d0)).1.size = h0.size ∧
        (∀ v, (row.foldl relaxBody (h0, d0)).1.live v ↔ h0.live v) ∧
        ∀ v, (row.foldl relaxBody (h0, d0)).2.getD v 0 = d0.getD v 0 - (if v ∈ row then 1 else 0) := by
  induction row with
  | nil =>
    intro h0 d0 hinv hlen
    exact ⟨hinv, hlen, rfl, fun _ => Iff.rfl, fun v => by simp⟩
  | cons j js ih =>
    intro h0 d0 hinv hlen
    rw [List.nodup_cons] at hnd
    have hj : j < n := hlt j List.mem_cons_self
    rw [List.foldl_cons]
    have hjl : j < d0.length := by rw [hlen]; exact hj
    have hspec := decreaseKey_spec (j := j) (sc' := d0.set j (d0.getD j 0 - 1)) hinv
      (by rw [heap_getD_set_eq _ _ _ _ hjl]; omega)
      (fun v hv => heap_getD_set_ne _ _ _ _ _ (fun e => hv e.symm))
    obtain ⟨h1, h2, hsz, h3, h4⟩ := ih hnd.2 (fun x hx => hlt x (List.mem_cons_of_mem _ hx))
      (relaxBody (h0, d0) j).1 (relaxBody (h0, d0) j).2 hspec.1 (by simp [relaxBody, hlen])
    refine ⟨h1, h2, hsz.trans hspec.2.1, fun v => (h3 v).trans (hspec.2.2 v), ?_⟩
    intro v
    rw [h4 v]
    show (d0.set j (d0.getD j 0 - 1)).getD v 0 - _ = _
    by_cases hvj : v = j
    · subst hvj
      rw [heap_getD_set_eq _ _ _ _ hjl]
      have : v ∉ js := hnd.1
      simp [this]
    · rw [heap_getD_set_ne _ _ _ _ _ (fun e => hvj e.symm)]
      by_cases hvs : v ∈ js
      · simp [hvs]
      · simp [hvs, hvj]

end SkNet.Topology

namespace SkNet.Topology

/-! ### the invariant of the peeling loop -/

/-- what the `while not mh.empty()` loop maintains on the CSR structure of an undirected simple graph -/
structure CoreInv (n : Nat) (adj : Nat → Nat → Bool) (s : CoreState) : Prop where
  hinv : HeapInv s.heap s.degrees n
  dlen : s.degrees.length = n
  llen : s.labels.length = n
  /-- the key of a live node is its number of live neighbours -/
  degs : ∀ v, s.heap.live v → s.degrees.getD v 0 = (degIn n adj (liveB s.heap) v : Int)
  cv0 : 0 ≤ s.coreValue
  /-- every set of minimum degree above the current core value is still entirely in the heap -/
  upper : ∀ S : Nat → Bool, MinDeg n adj S (s.coreValue + 1) → ∀ u, S u = true → s.heap.live u
  /-- some set of minimum degree at least the current core value contains the whole heap -/
  lower : ∃ S : Nat → Bool, (∀ u, s.heap.live u → S u = true) ∧ MinDeg n adj S s.coreValue
  /-- the removed nodes carry their core number -/
  done : ∀ v, v < n → ¬ s.heap.live v → ∃ c : Nat, s.labels.getD v 0 = (c : Int) ∧ IsCoreNumber n adj v c

theorem coreStep_inv (n : Nat) (adj : Nat → Nat → Bool) (hsym : ∀ a b, adj a b = adj b a)
    (indptr indices : List Nat)
    (hrow : ∀ v, v < n → (Dag.row ⟨indptr, indices⟩ v).Perm (nbrs n adj v))
    (s : CoreState) (inv : CoreInv n adj s) (hpos : 0 < s.heap.size) :
    CoreInv n adj (coreStep indptr indices s) ∧ (coreStep indptr indices s).heap.size = s.heap.size - 1 := by
  rw [coreStep_eq]
  obtain ⟨hinv1, hsize1, hrlive, hlive1, hmin⟩ := popMin_spec inv.hinv hpos
  generalize hr : (s.heap.popMin s.degrees).1 = r at hrlive hlive1 hmin
  generalize hh1 : (s.heap.popMin s.degrees).2 = h1 at hinv1 hsize1 hlive1
  have hrn : r < n := live_lt inv.hinv hrlive
  rw [relaxNeighbors_eq]
  have hperm := hrow r hrn
  generalize Dag.row ⟨indptr, indices⟩ r = row at hperm
  have hnbnd : row.Nodup := hperm.nodup_iff.2 (List.Pairwise.filter _ List.nodup_range)
  have hnblt : ∀ j ∈ row, j < n := fun j hj => List.mem_range.1 (List.mem_filter.1 (hperm.mem_iff.1 hj)).1
  obtain ⟨hinv2, hlen2, hsize2, hlive2, hdeg2⟩ :=
    relax_fold n row hnbnd hnblt h1 s.degrees hinv1 inv.dlen
  generalize (row.foldl relaxBody (h1, s.degrees)) = res at hinv2 hlen2 hsize2 hlive2 hdeg2
  -- the new live set
  have hlive : ∀ v, res.1.live v ↔ (s.heap.live v ∧ v ≠ r) := fun v => (hlive2 v).trans (hlive1 v)
  have hdr : s.degrees.getD r 0 = (degIn n adj (liveB s.heap) r : Int) := inv.degs r hrlive
  have hdr0 : 0 ≤ s.degrees.getD r 0 := by rw [hdr]; exact Int.natCast_nonneg _
  refine ⟨⟨hinv2, hlen2, by simp [inv.llen], ?_, ?_, ?_, ?_, ?_⟩, hsize2.trans hsize1⟩
  · -- keys = live degrees
    show ∀ v, res.1.live v → res.2.getD v 0 = (degIn n adj (liveB res.1) v : Int)
    intro v hv
    obtain ⟨hv1, hvr⟩ := (hlive v).1 hv
    have hvn : v < n := live_lt inv.hinv hv1
    rw [hdeg2 v, inv.degs v hv1]
    have hrem := degIn_remove n adj (liveB s.heap) (liveB res.1) r v hrn ((liveB_iff _ _).2 hrlive)
      (fun u _ => by
        rw [Bool.eq_iff_iff, liveB_iff, Bool.and_eq_true, liveB_iff, bne_iff_ne]
        exact hlive u)
    have hmem : v ∈ row ↔ adj v r = true := by
      rw [hperm.mem_iff]
      unfold nbrs
      rw [List.mem_filter, List.mem_range, hsym r v]
      exact ⟨fun h => h.2, fun h => ⟨hvn, h⟩⟩
    by_cases ha : adj v r = true
    · rw [if_pos (hmem.2 ha)]
      rw [if_pos ha] at hrem
      omega
    · rw [if_neg (fun e => ha (hmem.1 e))]
      rw [if_neg ha] at hrem
      omega
  · exact Int.le_trans inv.cv0 (Int.le_max_left _ _)
  · -- upper
    show ∀ S : Nat → Bool, MinDeg n adj S (max s.coreValue (s.degrees.getD r 0) + 1) → ∀ u, S u = true → res.1.live u
    intro S hS u hu
    have hS1 : MinDeg n adj S (s.coreValue + 1) := fun w hw =>
      ⟨(hS w hw).1, by have := (hS w hw).2; have := Int.le_max_left s.coreValue (s.degrees.getD r 0); omega⟩
    have hsub : ∀ w, S w = true → s.heap.live w := inv.upper S hS1
    rw [hlive u]
    refine ⟨hsub u hu, ?_⟩
    intro e
    subst e
    have h1 := (hS u hu).2
    have h2 : degIn n adj S u ≤ degIn n adj (liveB s.heap) u :=
      degIn_mono n adj S (liveB s.heap) u (fun w hw => (liveB_iff _ _).2 (hsub w hw))
    have h3 := Int.le_max_right s.coreValue (s.degrees.getD u 0)
    rw [hdr] at h3
    omega
  · -- lower
    show ∃ S : Nat → Bool, (∀ u, res.1.live u → S u = true) ∧ MinDeg n adj S (max s.coreValue (s.degrees.getD r 0))
    by_cases hc : s.degrees.getD r 0 ≤ s.coreValue
    · obtain ⟨S, h1, h2⟩ := inv.lower
      refine ⟨S, fun u hu => h1 u ((hlive u).1 hu).1, ?_⟩
      rw [Int.max_eq_left hc]; exact h2
    · refine ⟨liveB s.heap, fun u hu => (liveB_iff _ _).2 ((hlive u).1 hu).1, ?_⟩
      rw [Int.max_eq_right (by omega)]
      intro u hu
      have hu' := (liveB_iff _ _).1 hu
      refine ⟨live_lt inv.hinv hu', ?_⟩
      rw [← inv.degs u hu']
      exact hmin u hu'
  · -- done
    show ∀ v, v < n → ¬ res.1.live v → ∃ c : Nat,
      (s.labels.set r (max s.coreValue (s.degrees.getD r 0))).getD v 0 = (c : Int) ∧ IsCoreNumber n adj v c
    intro v hv hnl
    by_cases hvr : v = r
    · subst hvr
      rw [heap_getD_set_eq _ _ _ _ (by rw [inv.llen]; exact hv)]
      have hmax0 : 0 ≤ max s.coreValue (s.degrees.getD v 0) := Int.le_trans inv.cv0 (Int.le_max_left _ _)
      refine ⟨(max s.coreValue (s.degrees.getD v 0)).toNat, (Int.toNat_of_nonneg hmax0).symm, ?_, ?_⟩
      · -- in the core of that value: the witness contains `v` itself
        rw [inCore_iff, Int.toNat_of_nonneg hmax0]
        by_cases hc : s.degrees.getD v 0 ≤ s.coreValue
        · obtain ⟨S, h1, h2⟩ := inv.lower
          exact ⟨S, h1 v hrlive, by rw [Int.max_eq_left hc]; exact h2⟩
        · refine ⟨liveB s.heap, (liveB_iff _ _).2 hrlive, ?_⟩
          rw [Int.max_eq_right (by omega)]
          intro u hu
          have hu' := (liveB_iff _ _).1 hu
          refine ⟨live_lt inv.hinv hu', ?_⟩
          rw [← inv.degs u hu']
          exact hmin u hu'
      · -- not in the next core
        rw [inCore_iff]
        rintro ⟨S, hSv, hS⟩
        have hcast : (((max s.coreValue (s.degrees.getD v 0)).toNat + 1 : Nat) : Int) =
            max s.coreValue (s.degrees.getD v 0) + 1 := by
          rw [Int.natCast_add, Int.toNat_of_nonneg hmax0]; rfl
        rw [hcast] at hS
        have hS1 : MinDeg n adj S (s.coreValue + 1) := fun w hw =>
          ⟨(hS w hw).1, by have := (hS w hw).2; have := Int.le_max_left s.coreValue (s.degrees.getD v 0); omega⟩
        have hsub : ∀ w, S w = true → s.heap.live w := inv.upper S hS1
        have h1 := (hS v hSv).2
        have h2 : degIn n adj S v ≤ degIn n adj (liveB s.heap) v :=
          degIn_mono n adj S (liveB s.heap) v (fun w hw => (liveB_iff _ _).2 (hsub w hw))
        have h3 := Int.le_max_right s.coreValue (s.degrees.getD v 0)
        rw [hdr] at h3 h1
        omega
    · have hnl' : ¬ s.heap.live v := fun h => hnl ((hlive v).2 ⟨h, hvr⟩)
      rw [heap_getD_set_ne _ _ _ _ _ (fun e => hvr e.symm)]
      exact inv.done v hv hnl'

end SkNet.Topology

namespace SkNet.Topology

/-! ### the loop, the initial state, the result -/

theorem coreLoop_spec (n : Nat) (adj : Nat → Nat → Bool) (hsym : ∀ a b, adj a b = adj b a)
    (indptr indices : List Nat) (hrow : ∀ v, v < n → (Dag.row ⟨indptr, indices⟩ v).Perm (nbrs n adj v)) :
    ∀ (fuel : Nat) (s : CoreState), CoreInv n adj s → s.heap.size ≤ fuel →
      ∃ s', coreLoop indptr indices fuel s = some s' ∧ CoreInv n adj s' ∧ s'.heap.size = 0 := by
  intro fuel
  induction fuel with
  | zero =>
    intro s inv hs
    have : s.heap.size = 0 := by omega
    exact ⟨s, by simp [coreLoop, this], inv, this⟩
  | succ fuel ih =>
    intro s inv hs
    by_cases h0 : s.heap.size = 0
    · exact ⟨s, by simp [coreLoop, h0], inv, h0⟩
    · obtain ⟨inv', hsz⟩ := coreStep_inv n adj hsym indptr indices hrow s inv (by omega)
      obtain ⟨s', h1, h2, h3⟩ := ih (coreStep indptr indices s) inv' (by omega)
      exact ⟨s', by rw [coreLoop, if_neg h0]; exact h1, h2, h3⟩

/-- the heap after `for i in range(t): mh.insert_key(i, degrees)` -/
theorem insert_fold (n : Nat) (sc : List Int) :
    ∀ t, t ≤ n →
      HeapInv ((List.range t).foldl (fun h i => h.insertKey i sc) (Heap.empty n)) sc n ∧
        ((List.range t).foldl (fun h i => h.insertKey i sc) (Heap.empty n)).size = t ∧
        ∀ v, ((List.range t).foldl (fun h i => h.insertKey i sc) (Heap.empty n)).live v ↔ v < t := by
  intro t
  induction t with
  | zero =>
    intro _
    exact ⟨heapInv_empty sc n, rfl, fun v => ⟨fun h => absurd h (not_live_empty n v), fun h => by omega⟩⟩
  | succ t ih =>
    intro ht
    obtain ⟨h1, h2, h3⟩ := ih (by omega)
    rw [List.range_succ, List.foldl_append]
    generalize (List.range t).foldl (fun h i => h.insertKey i sc) (Heap.empty n) = h at h1 h2 h3
    simp only [List.foldl_cons, List.foldl_nil]
    have hnl : ¬ h.live t := fun e => by have := (h3 t).1 e; omega
    obtain ⟨g1, g2, g3⟩ := insertKey_spec' h1 (by omega) hnl
    refine ⟨g1, by rw [g2, h2], fun v => ?_⟩
    rw [g3 v, h3 v]; omega

theorem degIn_full (n : Nat) (adj : Nat → Nat → Bool) (S : Nat → Bool) (hS : ∀ u, u < n → S u = true) (v : Nat) :
    degIn n adj S v = (nbrs n adj v).length := by
  unfold degIn nbrs
  congr 1
  apply List.filter_congr
  intro u hu
  rw [hS u (List.mem_range.1 hu), Bool.true_and]

theorem csrOfEdge_nodes (n : Nat) (adj : Nat → Nat → Bool) : (csrOfEdge n adj).indptr.length - 1 = n := by
  unfold csrOfEdge
  rw [csrOfRows_indptr_length, tab_length]

theorem csrOfEdge_row (n : Nat) (adj : Nat → Nat → Bool) (v : Nat) (hv : v < n) :
    (csrOfEdge n adj).row v = nbrs n adj v := by
  unfold csrOfEdge
  rw [csrOfRows_row _ v (by rw [tab_length]; exact hv), tab_getD, if_pos hv]
  rfl

theorem csrOfEdge_degree (n : Nat) (adj : Nat → Nat → Bool) (v : Nat) (hv : v < n) :
    ((csrOfEdge n adj).indptr.getD (v+1) 0 : Int) - ((csrOfEdge n adj).indptr.getD v 0 : Int) =
      ((nbrs n adj v).length : Int) := by
  have h := indptrOf_mono (tab n fun i => (List.range n).filter (adj i)) v (by rw [tab_length]; exact hv)
  rw [tab_getD, if_pos hv] at h
  show (((indptrOf (tab n fun i => (List.range n).filter (adj i))).getD (v+1) 0 : Nat) : Int) -
    (((indptrOf (tab n fun i => (List.range n).filter (adj i))).getD v 0 : Nat) : Int) = _
  rw [h]
  unfold nbrs
  push_cast
  omega

/-- a CSR structure of the graph `adj` on `n` nodes with the rows in any order: every stored entry is an edge and
    every edge is stored once (no stored zero, no duplicate entry) -/
structure IsCsrOf (n : Nat) (adj : Nat → Nat → Bool) (indptr indices : List Nat) : Prop where
  len : indptr.length = n + 1
  mono : ∀ v, v < n → indptr.getD v 0 ≤ indptr.getD (v+1) 0
  row : ∀ v, v < n → (Dag.row ⟨indptr, indices⟩ v).Perm (nbrs n adj v)

theorem csrOfEdge_isCsrOf (n : Nat) (adj : Nat → Nat → Bool) :
    IsCsrOf n adj (csrOfEdge n adj).indptr (csrOfEdge n adj).indices := by
  refine ⟨?_, ?_, fun v hv => by rw [csrOfEdge_row n adj v hv]⟩
  · have := csrOfEdge_nodes n adj
    have hl : (csrOfEdge n adj).indptr.length = (tab n fun i => (List.range n).filter (adj i)).length + 1 :=
      indptrOf_length _
    rw [tab_length] at hl; exact hl
  · intro v hv
    have := csrOfEdge_degree n adj v hv
    omega

/-- the state before the loop satisfies the invariant -/
theorem coreInit_inv (n : Nat) (adj : Nat → Nat → Bool) (indptr indices : List Nat)
    (hcsr : IsCsrOf n adj indptr indices) :
    CoreInv n adj (coreInit indptr) ∧ (coreInit indptr).heap.size = n := by
  unfold coreInit
  have hn : indptr.length - 1 = n := by rw [hcsr.len]; omega
  rw [hn]
  simp only
  generalize hd : (tab n fun i => (indptr.getD (i+1) 0 : Int) - (indptr.getD i 0 : Int)) = degrees
  have hdv : ∀ v, v < n → degrees.getD v 0 = ((nbrs n adj v).length : Int) := by
    intro v hv
    rw [← hd, tab_getD, if_pos hv, ← (hcsr.row v hv).length_eq]
    unfold Dag.row
    rw [sliceOf, List.length_map, rangeFrom_length]
    have := hcsr.mono v hv
    simp only
    omega
  obtain ⟨h1, h2, h3⟩ := insert_fold n degrees n (Nat.le_refl _)
  generalize (List.range n).foldl (fun h i => h.insertKey i degrees) (Heap.empty n) = heap at h1 h2 h3
  have hfull : ∀ u, u < n → liveB heap u = true := fun u hu => (liveB_iff _ _).2 ((h3 u).2 hu)
  refine ⟨⟨h1, by rw [← hd, tab_length], by simp, ?_, Int.le_refl _, ?_, ?_, ?_⟩, h2⟩
  · intro v hv
    show degrees.getD v 0 = _
    rw [hdv v ((h3 v).1 hv), degIn_full n adj _ hfull]
  · intro S hS u hu
    exact (h3 u).2 (hS u hu).1
  · refine ⟨fun u => decide (u < n), fun u hu => by simpa using (h3 u).1 hu, ?_⟩
    intro u hu
    have hu' : u < n := by simpa using hu
    exact ⟨hu', Int.natCast_nonneg _⟩
  · intro v hv hnl
    exact absurd ((h3 v).2 hv) hnl

/-- ★ `core_exact`: on every CSR structure (rows in any order) of an undirected graph `compute_core` terminates
    within its fuel and labels every node with its core number -/
theorem computeCore_spec_csr (n : Nat) (adj : Nat → Nat → Bool) (hsym : ∀ a b, adj a b = adj b a)
    (indptr indices : List Nat) (hcsr : IsCsrOf n adj indptr indices) :
    ∃ labels : List Int, computeCore indptr indices = some labels ∧ labels.length = n ∧
      ∀ v, v < n → ∃ c : Nat, labels.getD v 0 = (c : Int) ∧ IsCoreNumber n adj v c := by
  obtain ⟨inv0, hsz⟩ := coreInit_inv n adj indptr indices hcsr
  obtain ⟨s', h1, h2, h3⟩ := coreLoop_spec n adj hsym indptr indices hcsr.row n _ inv0 (by omega)
  refine ⟨s'.labels, ?_, h2.llen, ?_⟩
  · unfold computeCore
    have hn : indptr.length - 1 = n := by rw [hcsr.len]; omega
    rw [hn, h1]; rfl
  · intro v hv
    apply h2.done v hv
    rintro ⟨i, hi, _⟩
    omega

theorem computeCore_spec (n : Nat) (adj : Nat → Nat → Bool) (hsym : ∀ a b, adj a b = adj b a) :
    ∃ labels : List Int, computeCore (csrOfEdge n adj).indptr (csrOfEdge n adj).indices = some labels ∧
      labels.length = n ∧
      ∀ v, v < n → ∃ c : Nat, labels.getD v 0 = (c : Int) ∧ IsCoreNumber n adj v c :=
  computeCore_spec_csr n adj hsym _ _ (csrOfEdge_isCsrOf n adj)

end SkNet.Topology
