/- `split_dendrogram`: every merge of a side dendrogram is the restriction to that side of a merge of the full one. -/
import SkNet.Lemmas.Split
import SkNet.Lemmas.Dendro

set_option linter.unusedSimpArgs false

namespace SkNet.Hier
open SkNet SkNet.Dendro

variable {α : Type}

/-- restriction of a leaf list to the side `off … off + m - 1`, renumbered from 0 -/
def sideOf (m off : Nat) (l : List Nat) : List Nat :=
  (l.filter fun v => decide (off ≤ v) && decide (v < off + m)).map (· - off)

theorem sideOf_append (m off : Nat) (a b : List Nat) : sideOf m off (a ++ b) = sideOf m off a ++ sideOf m off b := by
  simp [sideOf]

/-- the id map after one row -/
theorem splitSide_id (key : Nat) (r : Row α) (a : SplitSide α) (x : Nat) :
    (splitSide key r a).id.get? x =
      match a.id.get? r.i, a.id.get? r.j with
      | some _, some _ => if x = r.j then none else if x = r.i then none else if x = key then some a.idNew else a.id.get? x
      | some yi, none => if x = key then some yi else if x = r.i then none else a.id.get? x
      | none, some yj => if x = key then some yj else if x = r.j then none else a.id.get? x
      | none, none => a.id.get? x := by
  unfold splitSide
  cases a.id.get? r.i <;> cases a.id.get? r.j <;> simp [Dict.get?_set, Dict.get?_erase]

theorem splitSide_rows (key : Nat) (r : Row α) (a : SplitSide α) :
    (splitSide key r a).rows =
      match a.id.get? r.i, a.id.get? r.j with
      | some yi, some yj =>
        a.rows ++ [{ i := yi, j := yj, h := r.h, s := (a.size.get? r.i).getD 0 + (a.size.get? r.j).getD 0 }]
      | _, _ => a.rows := by
  unfold splitSide
  cases a.id.get? r.i <;> cases a.id.get? r.j <;> rfl

/-- agreement of the side with the full dendrogram, after the rows `pre` -/
structure AInv (m N off : Nat) (pre : Dendro α) (a : SplitSide α) (L : Dict Nat) : Prop where
  ag : ∀ x ∈ Dict.keys L,
    match a.id.get? x with
    | some y => leaves m a.rows y = sideOf m off (leaves N pre x)
    | none => sideOf m off (leaves N pre x) = []
  rowsOK : ∀ (u : Nat) (ru : Row α), a.rows[u]? = some ru →
    ∃ (t : Nat) (rt : Row α), pre[t]? = some rt ∧ ru.h = rt.h ∧
      leaves m a.rows (m + u) = sideOf m off (leaves N pre (N + t))

theorem splitSide_ainv {m N off : Nat} {pre : Dendro α} {a : SplitSide α} {LR L L1 : Dict Nat} {r : Row α}
    (hS : SInv m a LR L) (hA : AInv m N off pre a L) (hL : LInv N pre.length L)
    (hstep : liveStep N pre.length r L = some L1) :
    AInv m N off (pre ++ [r]) (splitSide (N + pre.length) r a) L1 := by
  obtain ⟨si0, sj0, hi0, hj0, hne, _, _, _, hget1⟩ := liveStep_spec hL hstep
  have hki := Dict.get?_some_key_mem hi0
  have hkj := Dict.get?_some_key_mem hj0
  have hbi := hL.bound _ hki
  have hbj := hL.bound _ hkj
  -- leaves of the new node of the full dendrogram
  have hnewD : leaves N (pre ++ [r]) (N + pre.length) = leaves N pre r.i ++ leaves N pre r.j := leaves_new N pre r
  have holdD : ∀ x, x < N + pre.length → leaves N (pre ++ [r]) x = leaves N pre x :=
    fun x hx => leaves_append_lt N pre [r] hx
  -- keys of the new live set
  have hkeys1 : ∀ x ∈ Dict.keys L1, x = N + pre.length ∨ (x ∈ Dict.keys L ∧ x ≠ r.i ∧ x ≠ r.j) := by
    intro x hx
    obtain ⟨v, hv⟩ := (mem_keys_iff L1 x).mp hx
    rw [hget1] at hv
    by_cases e : x = N + pre.length
    · exact Or.inl e
    · right
      simp only [e, if_false] at hv
      by_cases e2 : x = r.j
      · simp [e2] at hv
      · by_cases e3 : x = r.i
        · simp [e2, e3] at hv
        · simp only [e2, e3, if_false] at hv
          exact ⟨Dict.get?_some_key_mem hv, e3, e2⟩
  have hfreshid : a.id.get? (N + pre.length) = none := by
    rw [Dict.get?_eq_none_iff]
    intro hm
    have := hL.bound _ (hS.sub _ hm); omega
  have hagi := hA.ag r.i hki
  have hagj := hA.ag r.j hkj
  cases hi : a.id.get? r.i with
  | none =>
    cases hj : a.id.get? r.j with
    | none =>
      -- the row does not concern this side
      rw [hi] at hagi; rw [hj] at hagj
      simp only at hagi hagj
      have hrows : (splitSide (N + pre.length) r a).rows = a.rows := by rw [splitSide_rows, hi, hj]
      refine ⟨?_, ?_⟩
      · intro x hx
        rw [splitSide_id, hi, hj, hrows]
        simp only
        rcases hkeys1 x hx with e | ⟨hxL, _, _⟩
        · subst e
          rw [hfreshid, hnewD, sideOf_append, hagi, hagj]; rfl
        · have := hA.ag x hxL
          rw [holdD x (hL.bound _ hxL)]
          exact this
      · intro u ru hu
        rw [hrows] at hu ⊢
        obtain ⟨t, rt, h1, h2, h3⟩ := hA.rowsOK u ru hu
        have htl := (List.getElem?_eq_some_iff.mp h1).1
        exact ⟨t, rt, by rw [List.getElem?_append_left htl]; exact h1, h2,
          by rw [holdD _ (by omega)]; exact h3⟩
    | some yj =>
      rw [hi] at hagi; rw [hj] at hagj
      simp only at hagi hagj
      have hrows : (splitSide (N + pre.length) r a).rows = a.rows := by rw [splitSide_rows, hi, hj]
      refine ⟨?_, ?_⟩
      · intro x hx
        rw [splitSide_id, hi, hj, hrows]
        simp only
        rcases hkeys1 x hx with e | ⟨hxL, hx1, hx2⟩
        · subst e
          simp only [if_true]
          rw [hnewD, sideOf_append, hagi, hagj]; rfl
        · have hb := hL.bound _ hxL
          have e1 : x ≠ N + pre.length := by omega
          simp only [e1, hx2, if_false]
          have := hA.ag x hxL
          rw [holdD x hb]
          exact this
      · intro u ru hu
        rw [hrows] at hu ⊢
        obtain ⟨t, rt, h1, h2, h3⟩ := hA.rowsOK u ru hu
        have htl := (List.getElem?_eq_some_iff.mp h1).1
        exact ⟨t, rt, by rw [List.getElem?_append_left htl]; exact h1, h2,
          by rw [holdD _ (by omega)]; exact h3⟩
  | some yi =>
    cases hj : a.id.get? r.j with
    | none =>
      rw [hi] at hagi; rw [hj] at hagj
      simp only at hagi hagj
      have hrows : (splitSide (N + pre.length) r a).rows = a.rows := by rw [splitSide_rows, hi, hj]
      refine ⟨?_, ?_⟩
      · intro x hx
        rw [splitSide_id, hi, hj, hrows]
        simp only
        rcases hkeys1 x hx with e | ⟨hxL, hx1, hx2⟩
        · subst e
          simp only [if_true]
          rw [hnewD, sideOf_append, hagi, hagj]; simp
        · have hb := hL.bound _ hxL
          have e1 : x ≠ N + pre.length := by omega
          simp only [e1, hx1, if_false]
          have := hA.ag x hxL
          rw [holdD x hb]
          exact this
      · intro u ru hu
        rw [hrows] at hu ⊢
        obtain ⟨t, rt, h1, h2, h3⟩ := hA.rowsOK u ru hu
        have htl := (List.getElem?_eq_some_iff.mp h1).1
        exact ⟨t, rt, by rw [List.getElem?_append_left htl]; exact h1, h2,
          by rw [holdD _ (by omega)]; exact h3⟩
    | some yj =>
      -- a row of the side dendrogram
      rw [hi] at hagi; rw [hj] at hagj
      simp only at hagi hagj
      obtain ⟨si, _, hLRi⟩ := hS.rel r.i yi hi
      obtain ⟨sj, _, hLRj⟩ := hS.rel r.j yj hj
      have hyi := hS.linv.bound _ (Dict.get?_some_key_mem hLRi)
      have hyj := hS.linv.bound _ (Dict.get?_some_key_mem hLRj)
      let row : Row α := { i := yi, j := yj, h := r.h, s := (a.size.get? r.i).getD 0 + (a.size.get? r.j).getD 0 }
      have hrows : (splitSide (N + pre.length) r a).rows = a.rows ++ [row] := by rw [splitSide_rows, hi, hj]
      have hnewR : leaves m (a.rows ++ [row]) (m + a.rows.length) = leaves m a.rows yi ++ leaves m a.rows yj :=
        leaves_new m a.rows row
      have holdR : ∀ y, y < m + a.rows.length → leaves m (a.rows ++ [row]) y = leaves m a.rows y :=
        fun y hy => leaves_append_lt m a.rows [row] hy
      refine ⟨?_, ?_⟩
      · intro x hx
        rw [splitSide_id, hi, hj, hrows]
        simp only
        rcases hkeys1 x hx with e | ⟨hxL, hx1, hx2⟩
        · subst e
          have e1 : N + pre.length ≠ r.j := by omega
          have e2 : N + pre.length ≠ r.i := by omega
          simp only [e1, e2, if_false, if_true]
          rw [hS.idNew, hnewR, hnewD, sideOf_append, hagi, hagj]
        · have hb := hL.bound _ hxL
          have e1 : x ≠ N + pre.length := by omega
          simp only [hx2, hx1, e1, if_false]
          have := hA.ag x hxL
          rw [holdD x hb]
          cases hxid : a.id.get? x with
          | none => rw [hxid] at this; exact this
          | some y =>
            rw [hxid] at this
            simp only at this ⊢
            obtain ⟨s, _, hLRy⟩ := hS.rel x y hxid
            rw [holdR y (hS.linv.bound _ (Dict.get?_some_key_mem hLRy))]
            exact this
      · intro u ru hu
        rw [hrows] at hu ⊢
        by_cases hul : u < a.rows.length
        · rw [List.getElem?_append_left hul] at hu
          obtain ⟨t, rt, h1, h2, h3⟩ := hA.rowsOK u ru hu
          have htl := (List.getElem?_eq_some_iff.mp h1).1
          refine ⟨t, rt, by rw [List.getElem?_append_left htl]; exact h1, h2, ?_⟩
          rw [holdR _ (by omega), holdD _ (by omega)]; exact h3
        · have hlen := (List.getElem?_eq_some_iff.mp hu).1
          simp only [List.length_append, List.length_cons, List.length_nil] at hlen
          have hue : u = a.rows.length := by omega
          subst hue
          rw [List.getElem?_append_right (Nat.le_refl _)] at hu
          simp only [Nat.sub_self, List.getElem?_cons_zero, Option.some.injEq] at hu
          subst hu
          refine ⟨pre.length, r, by rw [List.getElem?_append_right (Nat.le_refl _)]; simp, rfl, ?_⟩
          rw [hnewR, hnewD, sideOf_append, hagi, hagj]


theorem sideLoop_ainv {m N off : Nat} : ∀ (rs pre : Dendro α) (a : SplitSide α) (LR L Lf : Dict Nat),
    SInv m a LR L → AInv m N off pre a L → LInv N pre.length L → liveAfter N pre.length rs L = some Lf →
    AInv m N off (pre ++ rs) (sideLoop N pre.length rs a) Lf := by
  intro rs
  induction rs with
  | nil =>
    intro pre a LR L Lf _ hA _ hl
    simp only [liveAfter, Option.some.injEq] at hl
    subst hl
    simpa [sideLoop] using hA
  | cons r rs ih =>
    intro pre a LR L Lf hS hA hL hl
    simp only [liveAfter] at hl
    cases hs : liveStep N pre.length r L with
    | none => simp [hs] at hl
    | some L1 =>
      simp only [hs, Option.bind_some] at hl
      obtain ⟨_, _, _, _, _, _, hL1, _, _⟩ := liveStep_spec hL hs
      obtain ⟨LR1, hS1⟩ := splitSide_sinv hS hL hs
      have hA1 := splitSide_ainv hS hA hL hs
      have hlen : (pre ++ [r]).length = pre.length + 1 := by simp
      have := ih (pre ++ [r]) _ LR1 L1 Lf hS1 hA1 (by rw [hlen]; exact hL1) (by rw [hlen]; exact hl)
      rw [hlen] at this
      simpa [sideLoop] using this

theorem ainv_init (m N off : Nat) (hN : off + m ≤ N) :
    AInv (α := α) m N off [] (sideInit α m off) (liveInit (List.replicate N 1)) := by
  refine ⟨?_, by intro u ru hu; simp [sideInit] at hu⟩
  intro x hx
  have hxN : x < N := by
    obtain ⟨v, hv⟩ := (mem_keys_iff _ _).mp hx
    rw [liveInit_get?_full] at hv
    split at hv
    · simpa using ‹x < (List.replicate N 1).length›
    · cases hv
  have hid : (sideInit α m off).id.get? x = if off ≤ x ∧ x < off + m then some (x - off) else none := by
    unfold sideInit; exact get?_map_range_off (fun i => i) off m x
  rw [hid, leaves_leaf N [] hxN]
  by_cases hside : off ≤ x ∧ x < off + m
  · simp only [hside, and_self, if_true]
    show leaves m [] (x - off) = _
    rw [leaves_leaf m [] (by omega)]
    simp [sideOf, hside.1, hside.2]
  · simp only [hside, if_false]
    simp only [sideOf, List.filter_cons, List.filter_nil]
    have : (decide (off ≤ x) && decide (x < off + m)) = false := by
      simp only [Bool.and_eq_false_iff, decide_eq_false_iff_not]
      by_cases h1 : off ≤ x
      · exact Or.inr (fun h2 => hside ⟨h1, h2⟩)
      · exact Or.inl h1
    simp [this]

end SkNet.Hier
