/- What `ValidDendro` gives: the full replay of the merges (every row applied) never fails, the children of
   every row are live clusters created earlier, the size column counts the leaves below. -/
import SkNet.Spec.Dendro
import SkNet.Lemmas.Cut

namespace SkNet.Dendro
open SkNet SkNet.Cut

variable {α : Type}

/-- the sizes of a cluster dict (same keys, same order) -/
def sizesOf (st : Dict (List Nat)) : Dict Nat := st.map fun p => (p.1, p.2.length)

theorem get?_sizesOf (st : Dict (List Nat)) (k : Nat) :
    Dict.get? (sizesOf st) k = (Dict.get? st k).map List.length := by
  induction st with
  | nil => rfl
  | cons p r ih =>
    obtain ⟨k', v⟩ := p
    simp only [sizesOf, List.map_cons, Dict.get?_cons] at ih ⊢
    split
    · rfl
    · exact ih

theorem erase_sizesOf (st : Dict (List Nat)) (k : Nat) :
    Dict.erase (sizesOf st) k = sizesOf (Dict.erase st k) := by
  simp only [sizesOf, Dict.erase, List.filter_map]
  rfl

theorem set_sizesOf (st : Dict (List Nat)) (k : Nat) (c : List Nat) :
    Dict.set (sizesOf st) k c.length = sizesOf (Dict.set st k c) := by
  induction st with
  | nil => rfl
  | cons p r ih =>
    obtain ⟨k', v⟩ := p
    simp only [sizesOf, List.map_cons, Dict.set] at ih ⊢
    split
    · rfl
    · simp only [List.map_cons]; rw [ih]

theorem sizesOf_initCluster (n : Nat) : sizesOf (initCluster n) = liveInit (List.replicate n 1) := by
  simp only [sizesOf, initCluster, liveInit, List.map_map, List.length_replicate]
  apply List.map_congr_left
  intro x hx
  simp only [List.mem_range] at hx
  simp [hx, List.getD_eq_getElem?_getD]

/-- the cut condition that applies every merge -/
def allRows : Row α → List Nat → List Nat → Bool := fun _ _ _ => true

/-- one row of a valid dendrogram, seen from the full replay: both children are live clusters, distinct,
    and the size column is the sum of their sizes -/
structure RowOK (n : Nat) (pre : Dendro α) (st : Dict (List Nat)) (r : Row α) : Prop where
  ci : st.get? r.i = some (leaves n pre r.i)
  cj : st.get? r.j = some (leaves n pre r.j)
  ne : r.i ≠ r.j
  size : r.s = (leaves n pre r.i).length + (leaves n pre r.j).length

theorem get?_leaves {n : Nat} {pre : Dendro α} {st : Dict (List Nat)} (h : CInv n pre st) {k : Nat}
    {c : List Nat} (hk : st.get? k = some c) : c = leaves n pre k :=
  h.leaves (k, c) (Dict.get?_some_mem hk)

/-- Splitting a valid dendrogram anywhere: the full replay of the first part succeeds, keeps the invariant,
    and the next row is well-formed in the state reached. -/
theorem valid_replay (n : Nat) : ∀ (rs1 pre : Dendro α) (st : Dict (List Nat)) (r : Row α) (rs2 : Dendro α),
    CInv n pre st → validLoop n pre.length (rs1 ++ r :: rs2) (sizesOf st) = true →
    ∃ st1, mergeLoop n allRows pre.length rs1 st = .ok st1 ∧ CInv n (pre ++ rs1) st1 ∧
      RowOK n (pre ++ rs1) st1 r ∧
      validLoop n (pre ++ rs1).length (r :: rs2) (sizesOf st1) = true ∧
      st1.length + rs1.length = st.length := by
  intro rs1
  induction rs1 with
  | nil =>
    intro pre st r rs2 hinv hv
    refine ⟨st, rfl, by simpa using hinv, ?_, by simpa using hv, by simp⟩
    simp only [List.nil_append] at hv
    unfold validLoop at hv
    simp only [get?_sizesOf] at hv
    cases hi : st.get? r.i with
    | none => simp [hi] at hv
    | some ci =>
      cases hj : st.get? r.j with
      | none => simp [hi, hj] at hv
      | some cj =>
        simp only [hi, hj, Option.map_some, Bool.and_eq_true, bne_iff_ne, ne_eq, beq_iff_eq] at hv
        have e1 := get?_leaves hinv hi
        have e2 := get?_leaves hinv hj
        simp only [List.append_nil]
        exact ⟨by rw [hi, e1], by rw [hj, e2], hv.1.1, by rw [← e1, ← e2]; exact hv.1.2⟩
  | cons a rs1 ih =>
    intro pre st r rs2 hinv hv
    simp only [List.cons_append] at hv
    unfold validLoop at hv
    simp only [get?_sizesOf] at hv
    cases hi : st.get? a.i with
    | none => simp [hi] at hv
    | some ci =>
      cases hj : st.get? a.j with
      | none => simp [hi, hj] at hv
      | some cj =>
        simp only [hi, hj, Option.map_some, Bool.and_eq_true, bne_iff_ne, ne_eq, beq_iff_eq] at hv
        obtain ⟨⟨hne, hs⟩, hrest⟩ := hv
        have hm := cinv_merge hinv a hi hj hne
        have hsz : ((Dict.erase (Dict.erase (sizesOf st) a.i) a.j).set (n + pre.length) a.s) =
            sizesOf (merged n st pre.length a.i a.j ci cj) := by
          unfold merged
          rw [erase_sizesOf, erase_sizesOf, hs, ← List.length_append, set_sizesOf]
        rw [hsz] at hrest
        have hl : (pre ++ [a]).length = pre.length + 1 := by simp
        rw [← hl] at hrest
        obtain ⟨st1, h1, h2, h3, h4, h5⟩ := ih (pre ++ [a]) _ r rs2 hm hrest
        have h6 := length_merged hinv hi hj hne
        refine ⟨st1, ?_, by simpa using h2, by simpa using h3, by simpa using h4,
          by simp only [List.length_cons]; omega⟩
        unfold mergeLoop
        simp only [hi, hj, allRows, if_true, hne, if_false]
        rw [← hl]
        exact h1

/-- the state of the full replay just before a given row of a valid dendrogram -/
theorem valid_at {n : Nat} {pre : Dendro α} {r : Row α} {rs : Dendro α}
    (hv : ValidDendro n (pre ++ r :: rs) = true) :
    ∃ st, mergeLoop n allRows 0 pre (initCluster n) = .ok st ∧ CInv n pre st ∧ RowOK n pre st r ∧
      st.length + pre.length = n := by
  unfold ValidDendro ValidDendroW at hv
  simp only [Bool.and_eq_true, List.length_replicate] at hv
  have h2 := hv.2
  rw [← sizesOf_initCluster] at h2
  obtain ⟨st, h1, hc, hr, _, hlen⟩ := valid_replay n pre [] (initCluster n) r rs (cinv_init n) (by simpa using h2)
  exact ⟨st, by simpa using h1, by simpa using hc, by simpa using hr, by simpa [initCluster] using hlen⟩

theorem valid_length {n : Nat} {D : Dendro α} (hv : ValidDendro n D = true) : D.length + 1 = n := by
  unfold ValidDendro ValidDendroW at hv
  simp only [Bool.and_eq_true, List.length_replicate, beq_iff_eq] at hv
  exact hv.1

/-- in a valid dendrogram the children of row `t` were created before it, are distinct, the leaves below the new
    node are those of its children, and the size column counts them -/
theorem valid_row {n : Nat} {pre : Dendro α} {r : Row α} {rs : Dendro α}
    (hv : ValidDendro n (pre ++ r :: rs) = true) :
    r.i < n + pre.length ∧ r.j < n + pre.length ∧ r.i ≠ r.j ∧
    leaves n (pre ++ r :: rs) (n + pre.length) =
      leaves n (pre ++ r :: rs) r.i ++ leaves n (pre ++ r :: rs) r.j ∧
    r.s = (leaves n (pre ++ r :: rs) (n + pre.length)).length := by
  obtain ⟨st, _, hc, hr, _⟩ := valid_at hv
  have hi := hc.bound _ (Dict.get?_some_key_mem hr.ci)
  have hj := hc.bound _ (Dict.get?_some_key_mem hr.cj)
  have hl := leaves_row n pre r rs hi hj
  refine ⟨hi, hj, hr.ne, hl, ?_⟩
  rw [hl, List.length_append, leaves_append_lt n pre (r :: rs) hi, leaves_append_lt n pre (r :: rs) hj]
  exact hr.size


/-- the size column of the last row of a valid dendrogram is the number of leaves -/
theorem valid_last_size {n : Nat} {pre : Dendro α} {r : Row α} (hv : ValidDendro n (pre ++ [r]) = true) :
    r.s = n := by
  obtain ⟨st, _, hc, hr, hlen⟩ := valid_at hv
  have hn := valid_length hv
  simp only [List.length_append, List.length_cons, List.length_nil] at hn
  -- two live clusters are left: the children of the last row
  have p1 := perm_values_erase hc.nodup hr.ci
  have hj' : (st.erase r.i).get? r.j = some (leaves n pre r.j) := by
    rw [Dict.get?_erase]; simp [Ne.symm hr.ne, hr.cj]
  have p2 := perm_values_erase (Dict.nodup_keys_erase hc.nodup r.i) hj'
  have l1 := Dict.length_erase_of_mem hc.nodup (Dict.get?_some_key_mem hr.ci)
  have l2 := Dict.length_erase_of_mem (Dict.nodup_keys_erase hc.nodup r.i) (Dict.get?_some_key_mem hj')
  have hempty : (st.erase r.i).erase r.j = [] := List.eq_nil_of_length_eq_zero (by omega)
  rw [hempty] at p2
  simp only [Dict.values, List.map_nil, List.flatten_nil, List.append_nil] at p2
  have := (p1.trans (List.Perm.append_left _ p2)).symm.trans hc.perm
  have hl := this.length_eq
  simp only [List.length_append, List.length_range] at hl
  rw [hr.size]; exact hl

end SkNet.Dendro
