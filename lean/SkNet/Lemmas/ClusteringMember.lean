/-
Membership matrices of label vectors and their products across aggregation levels (C05).
-/
import SkNet.Lemmas.ClusteringReindex

namespace SkNet.Clustering

/-- the membership matrix of a label vector: one stored column per row -/
def ofLabels (l : List Nat) (k : Nat) : Membership := ⟨k, l.map fun c => [c]⟩

theorem identity_eq (n : Nat) : identity n = ofLabels (List.range n) n := by
  simp [identity, ofLabels, tab]

theorem indices_ofLabels (l : List Nat) (k : Nat) : indices (ofLabels l k) = l := by
  simp only [indices, ofLabels]
  induction l with
  | nil => rfl
  | cons x xs ih => simp [ih]

theorem max?_map_ofNat (l : List Nat) : (l.map Int.ofNat).max? = l.max?.map Int.ofNat := by
  cases hm : l.max? with
  | none =>
    have : l = [] := List.max?_eq_none_iff.mp hm
    subst this; rfl
  | some m =>
    have hm' := List.max?_eq_some_iff.mp hm
    simp only [Option.map_some]
    rw [List.max?_eq_some_iff]
    refine ⟨List.mem_map.mpr ⟨m, hm'.1, rfl⟩, ?_⟩
    intro b hb
    obtain ⟨x, hx, rfl⟩ := List.mem_map.mp hb
    exact Int.ofNat_le.mpr (hm'.2 x hx)

/-- `get_membership` of non-negative labels never raises and has `max + 1` columns -/
theorem getMembership_ofNat {l : List Nat} (h : l ≠ []) :
    getMembership (l.map Int.ofNat) none = .ok (ofLabels l (nLabels l)) := by
  unfold getMembership membershipCols nLabels
  rw [max?_map_ofNat]
  cases hm : l.max? with
  | none => exact absurd (List.max?_eq_none_iff.mp hm) h
  | some m =>
    have hm' := List.max?_eq_some_iff.mp hm
    have h0 : (0 : Int) ≤ Int.ofNat m := Int.natCast_nonneg m
    have h1 : ¬ ((Int.ofNat m + 1) < 0) := by omega
    have h2 : (l.map Int.ofNat).any (fun l => decide (Int.ofNat m + 1 ≤ l)) = false := by
      rw [List.any_eq_false]
      intro x hx
      obtain ⟨y, hy, rfl⟩ := List.mem_map.mp hx
      have := hm'.2 y hy
      simp; omega
    simp only [Option.map_some, h1, h2, if_false, Bool.false_eq_true]
    simp [ofLabels]

theorem dot_ofLabels {a b : List Nat} {ka kb : Nat} (hk : ka = b.length) (ha : ∀ x ∈ a, x < b.length) :
    dot (ofLabels a ka) (ofLabels b kb) = .ok (ofLabels (a.map fun x => b.getD x 0) kb) := by
  unfold dot
  simp only [ofLabels, List.length_map, hk, bne_self_eq_false, Bool.false_eq_true, if_false, List.map_map]
  congr 2
  apply List.map_congr_left
  intro x hx
  have := ha x hx
  simp [List.getD_eq_getElem?_getD, this, List.eraseDups_cons]

/-- composing a contiguous labelling of the nodes with a contiguous labelling of its clusters -/
theorem compose_contiguous {a b : List Nat} {n k : Nat} (ha : Contiguous a n) (hb : Contiguous b k)
    (hbl : b.length = n) : Contiguous (a.map fun x => b.getD x 0) k := by
  constructor
  · intro x hx
    obtain ⟨y, hy, rfl⟩ := List.mem_map.mp hx
    have : y < b.length := hbl ▸ ha.1 y hy
    rw [List.getD_eq_getElem?_getD, List.getElem?_eq_getElem this, Option.getD_some]
    exact hb.1 _ (List.getElem_mem this)
  · intro c hc
    obtain ⟨i, hi, rfl⟩ := List.getElem_of_mem (hb.2 c hc)
    refine List.mem_map.mpr ⟨i, ha.2 i (hbl ▸ hi), ?_⟩
    simp [List.getD_eq_getElem?_getD, hi]

/-- the composed partition is coarser: nodes together at one level stay together -/
theorem compose_coarser {a b : List Nat} {i j : Nat} (h : a[i]? = a[j]?) :
    (a.map fun x => b.getD x 0)[i]? = (a.map fun x => b.getD x 0)[j]? := by
  simp [List.getElem?_map, h]

end SkNet.Clustering
