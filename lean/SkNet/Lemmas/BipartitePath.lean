/-
Helper definitions and lemmas for C03 about the routing specification of the path functions (Spec/Route.lean).
-/
import SkNet.Spec.Route

namespace SkNet.Bip
open SkNet

/-- the block-numbered source list of a routed call: row sources as they are, column sources shifted by `n_row` -/
def blockSources (s : Path.RouteSpec) : List Nat :=
  s.rowSrc.getD [] ++ (s.colSrc.getD []).map (s.nRow + ·)

theorem blockSources_contains (s : Path.RouteSpec) (v : Nat) :
    (blockSources s).contains v = s.isSource v := by
  apply Bool.eq_iff_iff.2
  simp only [blockSources, Path.RouteSpec.isSource, List.contains_eq_mem, List.mem_append, List.mem_map,
    decide_eq_true_eq, Bool.or_eq_true, Bool.and_eq_true]
  constructor
  · rintro (h | ⟨j, hj, rfl⟩)
    · exact Or.inl h
    · exact Or.inr ⟨by omega, by rwa [Nat.add_sub_cancel_left]⟩
  · rintro (h | ⟨hle', h⟩)
    · exact Or.inl h
    · exact Or.inr ⟨v - s.nRow, h, by omega⟩

end SkNet.Bip
