/-
Renumbering the nodes: the specification of the layer is equivariant under a permutation of the nodes.
A renumbering is a function `p : ℕ → ℕ` whose values on `0 … n-1` are a rearrangement of `0 … n-1`.
-/
import SkNet.Lemmas.GnnForward

namespace SkNet.Gnn
open SkNet Mat Finset

/-- `p` renumbers the `n` nodes -/
def IsRenumbering (n : Nat) (p : Nat → Nat) : Prop := ((List.range n).map p).Perm (List.range n)

theorem IsRenumbering.lt {n : Nat} {p : Nat → Nat} (hp : IsRenumbering n p) {i : Nat} (hi : i < n) : p i < n := by
  have : p i ∈ (List.range n).map p := List.mem_map_of_mem (List.mem_range.mpr hi)
  exact List.mem_range.mp (hp.mem_iff.mp this)

theorem IsRenumbering.inj {n : Nat} {p : Nat → Nat} (hp : IsRenumbering n p) {i j : Nat} (hi : i < n) (hj : j < n)
    (h : p i = p j) : i = j := by
  have hnd : ((List.range n).map p).Nodup := hp.nodup_iff.mpr List.nodup_range
  exact List.inj_on_of_nodup_map hnd (List.mem_range.mpr hi) (List.mem_range.mpr hj) h

theorem IsRenumbering.sum_comp {n : Nat} {p : Nat → Nat} (hp : IsRenumbering n p) (f : Nat → ℝ) :
    ∑ j ∈ range n, f (p j) = ∑ j ∈ range n, f j := by
  rw [← sumTo_eq, ← sumTo_eq]
  unfold sumTo
  have : (List.range n).map (fun j => f (p j)) = ((List.range n).map p).map f := by
    rw [List.map_map]
    rfl
  rw [this]
  exact (hp.map f).sum_eq

variable {n : Nat} {p : Nat → Nat}

theorem weight_renumber (hp : IsRenumbering n p) (a : Nat → Nat → ℝ) (i : Nat) (hi : i < n) :
    Spec.weight (mk' n n fun i j => a (p i) (p j)) i = Spec.weight (mk' n n a) (p i) := by
  rw [weight_mk' n n _ i hi, weight_mk' n n a (p i) (hp.lt hi)]
  exact hp.sum_comp fun j => a (p i) j

theorem normEntry_renumber (hp : IsRenumbering n p) (norm : Norm) (se : Bool) (a : Nat → Nat → ℝ)
    (i j : Nat) (hi : i < n) (hj : j < n) :
    Spec.normEntry norm se (mk' n n fun i j => a (p i) (p j)) i j =
      Spec.normEntry norm se (mk' n n a) (p i) (p j) := by
  have hself : (i == j) = (p i == p j) := by
    by_cases h : i = j
    · subst h; simp
    · have : p i ≠ p j := fun h' => h (hp.inj hi hj h')
      simp [h, this]
  unfold Spec.normEntry
  rw [hself, get_mk'_of_lt _ hi hj, get_mk'_of_lt a (hp.lt hi) (hp.lt hj)]
  cases norm with
  | left => simp only [weight_renumber hp a i hi]
  | right => simp only [weight_renumber hp a j hj]
  | both => simp only [weight_renumber hp a i hi, weight_renumber hp a j hj]
  | none => rfl

theorem preAct_renumber (hp : IsRenumbering n p) (norm : Norm) (se : Bool) (a x : Nat → Nat → ℝ) (d : Nat)
    (W : Mat ℝ) (b : Option (List ℝ)) (i k : Nat) (hi : i < n) :
    Spec.preAct norm se (mk' n n fun i j => a (p i) (p j)) (mk' n d fun i l => x (p i) l) W b i k =
      Spec.preAct norm se (mk' n n a) (mk' n d x) W b (p i) k := by
  unfold Spec.preAct
  simp only [mk'_c]
  have hz : (sumTo n fun j => Spec.normEntry norm se (mk' n n fun i j => a (p i) (p j)) i j *
        sumTo d fun l => (mk' n d fun i l => x (p i) l).get j l * W.get l k)
      = sumTo n fun j => Spec.normEntry norm se (mk' n n a) (p i) j *
        sumTo d fun l => (mk' n d x).get j l * W.get l k := by
    rw [sumTo_eq, sumTo_eq]
    rw [← hp.sum_comp fun j => Spec.normEntry norm se (mk' n n a) (p i) j *
        sumTo d fun l => (mk' n d x).get j l * W.get l k]
    apply Finset.sum_congr rfl
    intro j hj
    have hj' := mem_range.mp hj
    rw [normEntry_renumber hp norm se a i j hi hj']
    congr 1
    apply sumTo_congr
    intro l hl
    rw [get_mk'_of_lt _ hj' hl, get_mk'_of_lt x (hp.lt hj') hl]
  rw [hz]

/-- the specification is equivariant: the layer of the renumbered graph is the renumbered layer -/
theorem specForward_renumber (hp : IsRenumbering n p) (cfg : LayerCfg) (a x : Nat → Nat → ℝ) (d : Nat)
    (W : Mat ℝ) (b : Option (List ℝ)) :
    Spec.forward cfg (mk' n n fun i j => a (p i) (p j)) (mk' n d fun i l => x (p i) l) W b =
      mk' n W.c fun i k => (Spec.forward cfg (mk' n n a) (mk' n d x) W b).get (p i) k := by
  unfold Spec.forward
  simp only [mk'_r]
  apply mk'_congr
  intro i hi k hk
  rw [get_mk'_of_lt _ (hp.lt hi) hk]
  congr 1
  funext k'
  exact preAct_renumber hp cfg.norm cfg.selfEmb a x d W b i k' hi

end SkNet.Gnn
