/-
C09, RandomProjection: the loop `factor = α·M·factor; embedding += factor` computes `Σ_{t≤K} (αM)ᵗ G`
(`rpLoop_closed_form`), where `M` is the multiplier entry by entry (`Regularizer` or `Normalizer`).
-/
import SkNet.Lemmas.EmbeddingSLR
import SkNet.Lemmas.EmbeddingLaplacian

set_option linter.unusedSectionVars false

open Finset

namespace SkNet.Embedding

variable {α : Type} [Field α] [LinearOrder α] [IsStrictOrderedRing α]

/-- one application of the multiplier is the product with `Spec.rpMultiplierEntry` -/
theorem rpMultiply_entry (n k : Nat) (hn : 0 < n) (a : Mat α) (reg : α) (rw : Bool) (m : Mat α)
    (i c : Nat) (hi : i < n) (hc : c < k) :
    mget (rpMultiply n k a reg rw m) i c = ∑ j ∈ range n, Spec.rpMultiplierEntry n a reg rw i j * mget m j c := by
  have hn' : (n : α) ≠ 0 := Nat.cast_ne_zero.mpr (Nat.pos_iff_ne_zero.mp hn)
  cases rw with
  | false =>
    simp only [rpMultiply, Bool.false_eq_true, if_false, Spec.rpMultiplierEntry]
    rw [regularizer_eq, matmat_rank1 n n k a _ _ m i c hi hc]
    refine Finset.sum_congr rfl fun j hj => ?_
    rw [← regularizer_eq, entry_regularizer n n a reg i j hi (Finset.mem_range.mp hj)]
  | true =>
    simp only [rpMultiply, if_true, Spec.rpMultiplierEntry]
    unfold normalizerMatmat
    by_cases h0 : reg = 0
    swap
    · have hr : (!(reg == 0)) = true := by simp [h0]
      simp only [hr, if_true]
      simp +contextual only [mget_mkMat, vget_tab, hi, hc, if_true, sumN_eq_sum, mul_one, one_mul]
      simp only [Spec.aReg, add_mul, Finset.sum_add_distrib, Finset.mul_sum, mul_add]
      congr 1
      · exact Finset.sum_congr rfl fun j _ => by ring
      · rw [Finset.sum_div, Finset.mul_sum, Finset.mul_sum]
        exact Finset.sum_congr rfl fun j _ => by field_simp
    · simp only [h0, beq_self_eq_true, Bool.not_true, Bool.false_eq_true, if_false]
      simp +contextual only [mget_mkMat, vget_tab, hi, hc, if_true, sumN_eq_sum, mul_one]
      simp only [Spec.aReg, zero_div, add_zero, Finset.mul_sum]
      exact Finset.sum_congr rfl fun j _ => by ring

variable (n k : Nat) (a : Mat α) (reg alpha : α) (rw : Bool)

/-- running one more iteration = one step after the previous ones -/
theorem rpLoop_succ' (t : Nat) (factor emb : Mat α) :
    rpLoop n k a reg alpha rw (t+1) factor emb
      = (mkMat n k fun i c => alpha * mget (rpMultiply n k a reg rw (rpLoop n k a reg alpha rw t factor emb).1) i c,
         mkMat n k fun i c => mget (rpLoop n k a reg alpha rw t factor emb).2 i c
            + mget (mkMat n k fun i c => alpha * mget (rpMultiply n k a reg rw (rpLoop n k a reg alpha rw t factor emb).1) i c) i c) := by
  induction t generalizing factor emb with
  | zero => rfl
  | succ t ih =>
    rw [rpLoop]
    rw [ih]
    rfl

/-- `(αM)ᵗ G` -/
def lpow (m g : Nat → Nat → α) (alpha : α) : Nat → Nat → Nat → α
  | 0 => g
  | t+1 => fun i c => alpha * ∑ j ∈ range n, m i j * lpow m g alpha t j c

theorem lpow_eq (m g : Nat → Nat → α) (t i c : Nat) :
    lpow n m g alpha t i c = Spec.powN alpha t * Spec.matPowApply n m g t i c := by
  induction t generalizing i c with
  | zero => simp [lpow, Spec.powN, Spec.matPowApply]
  | succ t ih =>
    simp only [lpow, Spec.powN, Spec.matPowApply, sumN_eq_sum, ih, Finset.mul_sum]
    exact Finset.sum_congr rfl fun j _ => by ring

/-- loop invariant: after `t` iterations `factor = (αM)ᵗ G` and `embedding = Σ_{s ≤ t} (αM)ˢ G` -/
theorem rpLoop_invariant (hn : 0 < n) (q : Mat α) (t : Nat) :
    ∀ i c, i < n → c < k →
      mget (rpLoop n k a reg alpha rw t q q).1 i c
        = lpow n (Spec.rpMultiplierEntry n a reg rw) (mget q) alpha t i c ∧
      mget (rpLoop n k a reg alpha rw t q q).2 i c
        = ∑ s ∈ range (t+1), lpow n (Spec.rpMultiplierEntry n a reg rw) (mget q) alpha s i c := by
  induction t with
  | zero =>
    intro i c _ _
    simp [rpLoop, lpow]
  | succ t ih =>
    intro i c hi hc
    rw [rpLoop_succ']
    have hf : mget (mkMat n k fun i c => alpha * mget (rpMultiply n k a reg rw (rpLoop n k a reg alpha rw t q q).1) i c) i c
        = lpow n (Spec.rpMultiplierEntry n a reg rw) (mget q) alpha (t+1) i c := by
      rw [mget_mkMat_lt _ hi hc, rpMultiply_entry n k hn a reg rw _ i c hi hc]
      simp only [lpow]
      congr 1
      exact Finset.sum_congr rfl fun j hj => by rw [(ih j c (Finset.mem_range.mp hj) hc).1]
    refine ⟨hf, ?_⟩
    simp only []
    rw [mget_mkMat_lt _ hi hc, hf, (ih i c hi hc).2, Finset.sum_range_succ _ (t+1)]

/-- **`randomProjection_closed_form`**: after `K` iterations the (un-normalised) embedding is
    `Σ_{t ≤ K} αᵗ Mᵗ G`, `M` the regularised adjacency or transition matrix, `G` the random matrix. -/
theorem rpLoop_closed_form (hn : 0 < n) (q : Mat α) (K : Nat) (i c : Nat) (hi : i < n) (hc : c < k) :
    mget (rpLoop n k a reg alpha rw K q q).2 i c
      = Spec.rpClosedForm n (Spec.rpMultiplierEntry n a reg rw) alpha (mget q) K i c := by
  rw [(rpLoop_invariant n k a reg alpha rw hn q K i c hi hc).2, Spec.rpClosedForm, sumN_eq_sum]
  exact Finset.sum_congr rfl fun s _ => lpow_eq n alpha _ _ s i c

end SkNet.Embedding
