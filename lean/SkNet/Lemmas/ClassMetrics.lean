/-
Classification metrics (model `SkNet.ClassMetrics`) against their confusion-matrix definitions
(`SkNet.Classify.Spec.conf`, `accuracyDef`, `precisionDef`, `recallDef`, `f1Def`, `macroDef`).
-/
import SkNet.Model.ClassMetrics
import SkNet.Spec.Classify
import Mathlib.Tactic.Linarith
import Mathlib.Tactic.Ring
import Mathlib.Tactic.FieldSimp
import Mathlib.Algebra.Order.Field.Rat

namespace SkNet.ClassMetrics
open SkNet.Classify

attribute [-simp] List.getD_eq_getElem?_getD

/-! ### counting by fibres -/

theorem sum_range_indicator (k a : Nat) (h : a < k) :
    ((List.range k).map fun i => if a = i then 1 else 0).sum = 1 := by
  induction k with
  | zero => omega
  | succ m ih =>
    rw [List.range_succ, List.map_append, List.sum_append]
    simp only [List.map_cons, List.map_nil, List.sum_cons, List.sum_nil]
    by_cases hm : a = m
    · subst hm
      have : ((List.range a).map fun i => if a = i then 1 else 0).sum = 0 := by
        apply List.sum_eq_zero
        intro x hx
        obtain ⟨i, hi, rfl⟩ := List.mem_map.mp hx
        have := List.mem_range.mp hi
        rw [if_neg (by omega)]
      rw [this]
      simp
    · rw [ih (by omega), if_neg hm]
      rfl

theorem sum_map_add_nat (l : List Nat) (f g : Nat → Nat) :
    (l.map fun i => f i + g i).sum = (l.map f).sum + (l.map g).sum := by
  induction l with
  | nil => rfl
  | cons x xs ih =>
    simp only [List.map_cons, List.sum_cons, ih]
    omega

/-- the fibres of `f` over `0 … k-1` partition a list whose `f`-values lie in that range -/
theorem sum_fibres {α : Type} (m : List α) (f : α → Int) (k : Nat) (h : ∀ x ∈ m, 0 ≤ f x ∧ f x < k) :
    ((List.range k).map fun (i : Nat) => (m.filter fun x => f x == (i : Int)).length).sum = m.length := by
  induction m with
  | nil => simp
  | cons x xs ih =>
    obtain ⟨h0, h1⟩ := h x (List.mem_cons_self ..)
    have hstep : ∀ i : Nat, ((x :: xs).filter fun y => f y == (i : Int)).length =
        (if (f x).toNat = i then 1 else 0) + (xs.filter fun y => f y == (i : Int)).length := by
      intro i
      simp only [List.filter_cons]
      by_cases hx : f x = (i : Int)
      · have : (f x).toNat = i := by omega
        simp [hx, this]
        omega
      · have hb : (f x == (i : Int)) = false := by simpa using hx
        have : ¬ (f x).toNat = i := by omega
        simp [hb, this]
    rw [List.map_congr_left (fun i _ => hstep i), sum_map_add_nat,
      ih (fun y hy => h y (List.mem_cons_of_mem _ hy)), sum_range_indicator k (f x).toNat (by omega)]
    simp
    omega

/-! ### the confusion matrix -/

theorem foldl_max_ge (l : List Int) (m : Int) : m ≤ l.foldl max m ∧ ∀ x ∈ l, x ≤ l.foldl max m := by
  induction l generalizing m with
  | nil => simp
  | cons y ys ih =>
    simp only [List.foldl_cons]
    obtain ⟨h1, h2⟩ := ih (max m y)
    refine ⟨by omega, ?_⟩
    intro x hx
    rcases List.mem_cons.mp hx with rfl | hx
    · omega
    · exact h2 x hx

/-- every counted pair has both labels below `nLabels` -/
theorem masked_range (t p : List Int) : ∀ x ∈ masked t p,
    (0 ≤ x.1 ∧ x.1 < (nLabels t p : Nat)) ∧ (0 ≤ x.2 ∧ x.2 < (nLabels t p : Nat)) := by
  intro x hx
  unfold masked at hx
  simp only [List.mem_filter, Bool.and_eq_true, decide_eq_true_eq] at hx
  obtain ⟨hz, h1, h2⟩ := hx
  have ht : x.1 ∈ t := (List.of_mem_zip hz).1
  have hp : x.2 ∈ p := (List.of_mem_zip hz).2
  have h3 := (foldl_max_ge t (-1)).2 x.1 ht
  have h4 := (foldl_max_ge p (-1)).2 x.2 hp
  unfold nLabels
  constructor <;> constructor <;> omega

/-- counting in the masked pairs or in all pairs is the same for non-negative labels -/
theorem conf_masked (t p : List Int) (i j : Nat) :
    ((masked t p).filter fun x => x.1 == (i : Int) && x.2 == (j : Int)).length = Spec.conf t p i j := by
  unfold masked Spec.conf
  rw [List.filter_filter]
  congr 1
  apply List.filter_congr
  intro x _
  by_cases h : x.1 = (i : Int) ∧ x.2 = (j : Int)
  · have h1 : (0 : Int) ≤ x.1 := by omega
    have h2 : (0 : Int) ≤ x.2 := by omega
    simp [h.1, h.2]
  · have : (x.1 == (i : Int) && x.2 == (j : Int)) = false := by
      simp only [Bool.and_eq_false_imp, beq_iff_eq, beq_eq_false_iff_ne, ne_eq]
      intro h1 h2
      exact h ⟨h1, h2⟩
    simp [this]

theorem confusion_ok (t p : List Int) (C : List (List Nat)) (h : confusion t p = .ok C) :
    C = tab (nLabels t p) fun i => tab (nLabels t p) fun j =>
      ((masked t p).filter fun x => x.1 == (i : Int) && x.2 == (j : Int)).length := by
  unfold confusion at h
  by_cases h1 : (t.length != p.length) = true
  · simp [h1] at h
  · by_cases h2 : (masked t p).isEmpty = true
    · simp [h1, h2] at h
    · simp only [h1, h2, Bool.false_eq_true, if_false, Except.ok.injEq] at h
      exact h.symm

theorem confusion_cell (t p : List Int) (C : List (List Nat)) (h : confusion t p = .ok C) (i j : Nat)
    (hi : i < nLabels t p) (hj : j < nLabels t p) : cell C i j = Spec.conf t p i j := by
  rw [confusion_ok t p C h]
  unfold cell
  rw [tab_getD, if_pos hi, tab_getD, if_pos hj]
  exact conf_masked t p i j

theorem confusion_length (t p : List Int) (C : List (List Nat)) (h : confusion t p = .ok C) :
    C.length = nLabels t p := by
  rw [confusion_ok t p C h]
  simp

/-! ### totals -/

theorem total_eq (t p : List Int) :
    Spec.total (Spec.conf t p) (nLabels t p) = (masked t p).length := by
  unfold Spec.total Spec.rowSum
  have hrow : ∀ i, i ∈ List.range (nLabels t p) →
      ((List.range (nLabels t p)).map fun j => Spec.conf t p i j).sum =
        ((masked t p).filter fun x => x.1 == (i : Int)).length := by
    intro i _
    have hin : ∀ j, j ∈ List.range (nLabels t p) → Spec.conf t p i j =
        (((masked t p).filter fun x => x.1 == (i : Int)).filter fun x => x.2 == (j : Int)).length := by
      intro j _
      rw [← conf_masked, List.filter_filter]
      congr 1
      apply List.filter_congr
      intro x _
      exact Bool.and_comm _ _
    rw [List.map_congr_left hin]
    refine sum_fibres ((masked t p).filter fun x => x.1 == (i : Int)) (fun x => x.2) (nLabels t p) ?_
    intro x hx
    exact (masked_range t p x (List.mem_filter.mp hx).1).2
  rw [List.map_congr_left hrow]
  refine sum_fibres (masked t p) (fun x => x.1) (nLabels t p) ?_
  intro x hx
  exact (masked_range t p x hx).1

theorem trace_eq (t p : List Int) :
    Spec.trace (Spec.conf t p) (nLabels t p) = ((masked t p).filter fun x => x.1 == x.2).length := by
  unfold Spec.trace
  have hin : ∀ i, i ∈ List.range (nLabels t p) → Spec.conf t p i i =
      (((masked t p).filter fun x => x.1 == x.2).filter fun x => x.1 == (i : Int)).length := by
    intro i _
    rw [← conf_masked, List.filter_filter]
    congr 1
    apply List.filter_congr
    intro x _
    rw [Bool.eq_iff_iff]
    simp only [Bool.and_eq_true, beq_iff_eq]
    constructor
    · rintro ⟨a, b⟩
      exact ⟨a, by omega⟩
    · rintro ⟨a, b⟩
      exact ⟨a, by omega⟩
  rw [List.map_congr_left hin]
  refine sum_fibres ((masked t p).filter fun x => x.1 == x.2) (fun x => x.1) (nLabels t p) ?_
  intro x hx
  exact (masked_range t p x (List.mem_filter.mp hx).1).1

/-- ★ accuracy (= micro-averaged F1) is trace / total of the confusion matrix -/
theorem accuracy_eq (t p : List Int) (x : Rat) (h : accuracy t p = .ok x) :
    x = Spec.accuracyDef (Spec.conf t p) (nLabels t p) := by
  unfold accuracy at h
  by_cases h1 : (t.length != p.length) = true
  · simp [h1] at h
  · by_cases h2 : (masked t p).isEmpty = true
    · simp [h1, h2] at h
    · simp only [h1, h2, Bool.false_eq_true, if_false, Except.ok.injEq] at h
      unfold Spec.accuracyDef
      rw [trace_eq, total_eq, ← h]

/-! ### precision, recall, F1 -/

theorem mem_le_sum (l : List Nat) (x : Nat) (h : x ∈ l) : x ≤ l.sum := by
  induction l with
  | nil => cases h
  | cons y ys ih =>
    simp only [List.sum_cons]
    rcases List.mem_cons.mp h with rfl | h
    · omega
    · have := ih h
      omega

theorem cell_le_rowSum (C : Nat → Nat → Nat) (k l : Nat) (hl : l < k) : C l l ≤ Spec.rowSum C k l := by
  unfold Spec.rowSum
  exact mem_le_sum _ _ (List.mem_map.mpr ⟨l, List.mem_range.mpr hl, rfl⟩)

theorem cell_le_colSum (C : Nat → Nat → Nat) (k l : Nat) (hl : l < k) : C l l ≤ Spec.colSum C k l := by
  unfold Spec.colSum
  exact mem_le_sum _ _ (List.mem_map.mpr ⟨l, List.mem_range.mpr hl, rfl⟩)

/-- ★ per-label recall, precision and F1 of `get_f1_scores` equal their confusion-matrix definitions -/
theorem scores_eq (t p : List Int) (s : Scores) (h : f1Scores t p = .ok s) (l : Nat) (hl : l < nLabels t p) :
    s.recall.getD l 0 = Spec.recallDef (Spec.conf t p) (nLabels t p) l ∧
    s.precision.getD l 0 = Spec.precisionDef (Spec.conf t p) (nLabels t p) l ∧
    s.f1.getD l 0 = Spec.f1Def (Spec.conf t p) (nLabels t p) l := by
  unfold f1Scores at h
  cases hc : confusion t p with
  | error e => rw [hc] at h; cases h
  | ok C =>
    rw [hc] at h
    simp only [Except.map] at h
    have hs : s = scoresOf C := by
      injection h with h
      exact h.symm
    have hlen := confusion_length t p C hc
    have hcell := confusion_cell t p C hc
    set k := nLabels t p with hk
    have hrow : ((List.range k).map fun j => cell C l j).sum = Spec.rowSum (Spec.conf t p) k l := by
      unfold Spec.rowSum
      congr 1
      apply List.map_congr_left
      intro j hj
      exact hcell l j hl (List.mem_range.mp hj)
    have hcol : ((List.range k).map fun i => cell C i l).sum = Spec.colSum (Spec.conf t p) k l := by
      unfold Spec.colSum
      congr 1
      apply List.map_congr_left
      intro i hi
      exact hcell i l (List.mem_range.mp hi) hl
    have hdiag : cell C l l = Spec.conf t p l l := hcell l l hl hl
    have hr : s.recall.getD l 0 = Spec.recallDef (Spec.conf t p) k l := by
      rw [hs]
      unfold scoresOf Spec.recallDef
      simp only [hlen, tab_getD, hl, if_true, hrow, hdiag]
      by_cases hz : Spec.rowSum (Spec.conf t p) k l = 0
      · simp [hz]
      · have : Spec.rowSum (Spec.conf t p) k l > 0 := by omega
        simp [hz, this]
    have hp : s.precision.getD l 0 = Spec.precisionDef (Spec.conf t p) k l := by
      rw [hs]
      unfold scoresOf Spec.precisionDef
      simp only [hlen, tab_getD, hl, if_true, hcol, hdiag]
      by_cases hz : Spec.colSum (Spec.conf t p) k l = 0
      · simp [hz]
      · have : Spec.colSum (Spec.conf t p) k l > 0 := by omega
        simp [hz, this]
    refine ⟨hr, hp, ?_⟩
    have hf : s.f1.getD l 0 =
        (if 0 < s.precision.getD l 0 ∧ 0 < s.recall.getD l 0 then
          2 / (1 / s.precision.getD l 0 + 1 / s.recall.getD l 0) else 0) := by
      rw [hs]
      unfold scoresOf
      simp only [hlen, tab_getD, hl, if_true, Bool.and_eq_true, decide_eq_true_eq]
    rw [hf, hr, hp]
    unfold Spec.f1Def Spec.recallDef Spec.precisionDef
    have h1 := cell_le_rowSum (Spec.conf t p) k l hl
    have h2 := cell_le_colSum (Spec.conf t p) k l hl
    by_cases hz : Spec.conf t p l l = 0
    · have : ¬ ((0 : Rat) < (if Spec.colSum (Spec.conf t p) k l = 0 then 0
          else ((Spec.conf t p l l : Nat) : Rat) / (Spec.colSum (Spec.conf t p) k l : Rat)) ∧
          (0 : Rat) < (if Spec.rowSum (Spec.conf t p) k l = 0 then 0
          else ((Spec.conf t p l l : Nat) : Rat) / (Spec.rowSum (Spec.conf t p) k l : Rat))) := by
        rintro ⟨hh, _⟩
        rw [hz] at hh
        split at hh <;> simp at hh
      rw [if_neg this, if_pos hz]
    · have hrs : Spec.rowSum (Spec.conf t p) k l ≠ 0 := by omega
      have hcs : Spec.colSum (Spec.conf t p) k l ≠ 0 := by omega
      have ha : (0 : Rat) < (Spec.conf t p l l : Rat) := by
        have : 0 < Spec.conf t p l l := by omega
        exact_mod_cast this
      have hr' : (0 : Rat) < (Spec.rowSum (Spec.conf t p) k l : Rat) := by
        have : 0 < Spec.rowSum (Spec.conf t p) k l := by omega
        exact_mod_cast this
      have hc' : (0 : Rat) < (Spec.colSum (Spec.conf t p) k l : Rat) := by
        have : 0 < Spec.colSum (Spec.conf t p) k l := by omega
        exact_mod_cast this
      rw [if_neg hrs, if_neg hcs, if_neg hz, if_pos ⟨div_pos ha hc', div_pos ha hr'⟩]
      field_simp
      ring

/-! ### averages -/

theorem scoresOf_f1_length (C : List (List Nat)) : (scoresOf C).f1.length = C.length := by
  unfold scoresOf
  simp

/-- ★ the macro average is the mean of the per-label F1 of the confusion matrix -/
theorem macro_eq (t p : List Int) (x : Rat) (h : averageF1 t p .macro = .ok x) :
    x = Spec.macroDef (Spec.conf t p) (nLabels t p) := by
  unfold averageF1 at h
  simp only at h
  cases hs : f1Scores t p with
  | error e => rw [hs] at h; cases h
  | ok s =>
    rw [hs] at h
    simp only [Except.map, Except.ok.injEq] at h
    have hsc := scores_eq t p s hs
    have hlen : s.f1.length = nLabels t p := by
      unfold f1Scores at hs
      cases hc : confusion t p with
      | error e => rw [hc] at hs; cases hs
      | ok C =>
        rw [hc] at hs
        simp only [Except.map] at hs
        injection hs with hs
        rw [← hs, scoresOf_f1_length, confusion_length t p C hc]
    have hlist : s.f1 = (List.range (nLabels t p)).map fun l => Spec.f1Def (Spec.conf t p) (nLabels t p) l := by
      apply List.ext_getElem
      · simp [hlen]
      · intro l h1 h2
        have hl : l < nLabels t p := by rw [← hlen]; exact h1
        have := (hsc l hl).2.2
        rw [List.getD_eq_getElem?_getD, List.getElem?_eq_getElem h1] at this
        simp only [Option.getD_some] at this
        rw [this]
        simp
    unfold Spec.macroDef
    rw [← h, hlen, hlist]
    rfl

theorem filter_fst_zip (t p : List Int) (hlen : t.length = p.length) (f : Int → Bool) :
    ((t.zip p).filter fun x => f x.1).length = (t.filter f).length := by
  induction t generalizing p with
  | nil => simp
  | cons a as ih =>
    cases p with
    | nil => simp at hlen
    | cons b bs =>
      simp only [List.zip_cons_cons, List.filter_cons]
      have := ih bs (by simpa using hlen)
      split <;> simp [this]

/-- when every sample with a non-negative true label has a non-negative prediction, the weighted average of the
    code is the confusion-matrix value (weights = row sums) -/
theorem weighted_eq_of_all_predicted (t p : List Int) (x : Rat) (hlen : t.length = p.length)
    (hall : ∀ y ∈ t.zip p, 0 ≤ y.1 → 0 ≤ y.2) (h : averageF1 t p .weighted = .ok x) :
    x = Spec.weightedDef (Spec.conf t p) (nLabels t p) := by
  unfold averageF1 at h
  simp only at h
  cases hs : f1Scores t p with
  | error e => rw [hs] at h; cases h
  | ok s =>
    rw [hs] at h
    simp only [bind, Except.bind, pure, Except.pure, Except.ok.injEq] at h
    have hsc := scores_eq t p s hs
    have hlenf : s.f1.length = nLabels t p := by
      unfold f1Scores at hs
      cases hc : confusion t p with
      | error e => rw [hc] at hs; cases hs
      | ok C =>
        rw [hc] at hs
        simp only [Except.map] at hs
        injection hs with hs
        rw [← hs, scoresOf_f1_length, confusion_length t p C hc]
    -- masked pairs with first component i are all pairs with first component i
    have hmask : ∀ i : Nat, ((masked t p).filter fun y => y.1 == (i : Int)).length =
        (t.filter fun a => a == (i : Int)).length := by
      intro i
      rw [← filter_fst_zip t p hlen (fun a => a == (i : Int))]
      unfold masked
      rw [List.filter_filter]
      congr 1
      apply List.filter_congr
      intro y hy
      by_cases he : y.1 = (i : Int)
      · have h0 : (0 : Int) ≤ y.1 := by omega
        have h1 := hall y hy h0
        simp [he, h1]
      · simp [he]
    have hrows : ∀ i, i < nLabels t p → Spec.rowSum (Spec.conf t p) (nLabels t p) i =
        ((t.filter (0 ≤ ·)).filter fun a => a == (i : Int)).length := by
      intro i _
      have h1 : Spec.rowSum (Spec.conf t p) (nLabels t p) i =
          ((masked t p).filter fun y => y.1 == (i : Int)).length := by
        unfold Spec.rowSum
        have hin : ∀ j, j ∈ List.range (nLabels t p) → Spec.conf t p i j =
            (((masked t p).filter fun x => x.1 == (i : Int)).filter fun x => x.2 == (j : Int)).length := by
          intro j _
          rw [← conf_masked, List.filter_filter]
          congr 1
          apply List.filter_congr
          intro x _
          exact Bool.and_comm _ _
        rw [List.map_congr_left hin]
        refine sum_fibres ((masked t p).filter fun x => x.1 == (i : Int)) (fun x => x.2) (nLabels t p) ?_
        intro x hx
        exact (masked_range t p x (List.mem_filter.mp hx).1).2
      rw [h1, hmask, List.filter_filter]
      congr 1
      apply List.filter_congr
      intro a _
      by_cases he : a = (i : Int)
      · have : (0 : Int) ≤ a := by omega
        simp [he]
      · simp [he]
    have htot : Spec.total (Spec.conf t p) (nLabels t p) = (t.filter (0 ≤ ·)).length := by
      rw [total_eq]
      rw [← filter_fst_zip t p hlen (fun a => decide (0 ≤ a))]
      unfold masked
      congr 1
      apply List.filter_congr
      intro y hy
      by_cases h0 : 0 ≤ y.1
      · simp [h0, hall y hy h0]
      · simp [h0]
    unfold Spec.weightedDef
    rw [← h, hlenf, htot]
    congr 1
    have hmap : ∀ (k : Nat) (f g : Nat → Rat), (∀ l, l < k → f l = g l) → tab k f = (List.range k).map g := by
      intro k f g hfg
      unfold tab
      exact List.map_congr_left (fun l hl => hfg l (List.mem_range.mp hl))
    congr 1
    apply hmap
    intro l hl'
    rw [(hsc l hl').2.2, hrows l hl', tab_getD, if_pos hl']

/-- a binary problem has label 1: the matrices have at least two rows -/
theorem isBinary_nLabels (t p : List Int) (h : isBinary t p = true) : 1 < nLabels t p := by
  unfold isBinary at h
  simp only [Bool.and_eq_true, List.contains_iff_mem, List.mem_append, List.mem_filter, decide_eq_true_eq] at h
  obtain ⟨_, h1⟩ := h
  unfold nLabels
  rcases h1 with ⟨hm, _⟩ | ⟨hm, _⟩
  · have := (foldl_max_ge t (-1)).2 1 hm
    omega
  · have := (foldl_max_ge p (-1)).2 1 hm
    omega

/-- ★ `get_f1_score` (binary): F1, precision and recall of label 1 -/
theorem f1Binary_eq (t p : List Int) (a b c : Rat) (h : f1Binary t p = .ok (a, b, c)) :
    a = Spec.f1Def (Spec.conf t p) (nLabels t p) 1 ∧ b = Spec.precisionDef (Spec.conf t p) (nLabels t p) 1 ∧
    c = Spec.recallDef (Spec.conf t p) (nLabels t p) 1 := by
  unfold f1Binary at h
  by_cases hb : isBinary t p = true
  · simp only [hb, Bool.not_true, Bool.false_eq_true, if_false] at h
    cases hs : f1Scores t p with
    | error e => rw [hs] at h; cases h
    | ok s =>
      rw [hs] at h
      simp only [Except.map, Except.ok.injEq, Prod.mk.injEq] at h
      obtain ⟨h1, h2, h3⟩ := h
      obtain ⟨r1, r2, r3⟩ := scores_eq t p s hs 1 (isBinary_nLabels t p hb)
      exact ⟨by rw [← h1, r3], by rw [← h2, r2], by rw [← h3, r1]⟩
  · have : isBinary t p = false := by simpa using hb
    simp [this] at h

end SkNet.ClassMetrics
