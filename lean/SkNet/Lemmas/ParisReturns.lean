/- Paris does not raise: on a symmetric graph whose nodes with a neighbour have positive weights, and for a monotone
   rounding of the similarities, every node of the chain is alive when it is read (the chain stays a chain of
   nearest neighbours after a merge — reducibility of the linkage — and never visits a node twice). -/
import SkNet.Lemmas.ParisTerm
import SkNet.Lemmas.Reducible

set_option linter.unusedSimpArgs false
set_option linter.unusedVariables false

namespace SkNet.Paris
open SkNet SkNet.Dendro SkNet.Agg

/-! ### nearest neighbours, independently of the order of the scan -/

/-- `d` is the neighbour of `x` of greatest similarity, of smallest id among equals -/
structure IsNN (round32 : ℚ → ℚ) (g : AggGraph ℚ) (x d : Nat) : Prop where
  adj : K g.nb x d = true
  ne : d ≠ x
  max : ∀ y, K g.nb x y = true → y ≠ x → simGt (similarity round32 g x y) (similarity round32 g x d) = false
  min : ∀ y, K g.nb x y = true → y ≠ x → similarity round32 g x y = similarity round32 g x d → d ≤ y

theorem mem_nbrs_iff {g : AggGraph ℚ} {x y : Nat} {rowX : Dict ℚ} (hx : g.nb.get? x = some rowX) :
    y ∈ rowX.keys.filter (· != x) ↔ K g.nb x y = true ∧ y ≠ x := by
  rw [List.mem_filter, ← row_of_get hx, mem_keys_row_iff]
  simp

/-- what the scan returns is the nearest neighbour -/
theorem nearest_isNN (round32 : ℚ → ℚ) {g : AggGraph ℚ} {x k : Nat} {ks : List Nat} {rowX : Dict ℚ}
    (hx : g.nb.get? x = some rowX) (hnb : rowX.keys.filter (· != x) = k :: ks) :
    IsNN round32 g x (nearest round32 g x k ks).1 := by
  obtain ⟨h1, h2, h3, h4⟩ := nearest_spec round32 g x k ks
  rw [← hnb] at h1 h3 h4
  obtain ⟨a1, a2⟩ := (mem_nbrs_iff hx).mp h1
  refine ⟨a1, a2, ?_, ?_⟩
  · intro y hy hne
    rw [h2]; exact h3 y ((mem_nbrs_iff hx).mpr ⟨hy, hne⟩)
  · intro y hy hne he
    exact h4 y ((mem_nbrs_iff hx).mpr ⟨hy, hne⟩) (by rw [he, h2])

theorem isNN_unique {round32 : ℚ → ℚ} {g : AggGraph ℚ} {x d d' : Nat} (h : IsNN round32 g x d)
    (h' : IsNN round32 g x d') : d = d' := by
  have a := h.max d' h'.adj h'.ne
  have b := h'.max d h.adj h.ne
  have e : similarity round32 g x d = similarity round32 g x d' := by
    by_contra hne
    have := simGt_of_not b hne
    rw [a] at this; cases this
  have l1 := h.min d' h'.adj h'.ne e.symm
  have l2 := h'.min d h.adj h.ne e
  omega

/-- along two consecutive nearest-neighbour steps that do not come back, the key climbs -/
theorem key_step {round32 : ℚ → ℚ} {g : AggGraph ℚ} (hI : NbInv g.nb g.next) {z0 z1 z2 : Nat}
    (h01 : IsNN round32 g z0 z1) (h12 : IsNN round32 g z1 z2) (hne : z2 ≠ z0) :
    keyLtB round32 g (z0, z1) (z1, z2) = true := by
  have hback : K g.nb z1 z0 = true := by rw [hI.sym]; exact h01.adj
  have hsymm : similarity round32 g z1 z0 = similarity round32 g z0 z1 := similarity_symm round32 g hI.wsym z1 z0
  have hle := h12.max z0 hback (Ne.symm h01.ne)
  unfold keyLtB
  simp only [Bool.or_eq_true, Bool.and_eq_true, decide_eq_true_eq]
  by_cases heq : similarity round32 g z0 z1 = similarity round32 g z1 z2
  · right
    refine ⟨simEq_iff.mpr heq.symm, ?_⟩
    have := h12.min z0 hback (Ne.symm h01.ne) (by rw [hsymm, heq])
    omega
  · left
    rw [hsymm] at hle
    exact simGt_of_not hle heq

/-- a chain of nearest neighbours, top first -/
def NNChain (round32 : ℚ → ℚ) (g : AggGraph ℚ) : List Nat → Prop
  | [] => True
  | [_] => True
  | z1 :: z0 :: rest => IsNN round32 g z0 z1 ∧ NNChain round32 g (z0 :: rest)

theorem nnChain_tail {round32 : ℚ → ℚ} {g : AggGraph ℚ} {z : Nat} {l : List Nat} (h : NNChain round32 g (z :: l)) :
    NNChain round32 g l := by
  cases l with
  | nil => trivial
  | cons a as => exact h.2

/-- the key of every pair of the chain is at most the key of the pair on top -/
theorem key_below_top {round32 : ℚ → ℚ} {g : AggGraph ℚ} (hI : NbInv g.nb g.next) :
    ∀ (l : List Nat) (z1 z0 : Nat), NNChain round32 g (z1 :: z0 :: l) → (z1 :: z0 :: l).Nodup →
      ∀ (pre : List Nat) (c d : Nat) (post : List Nat), z0 :: l = pre ++ d :: c :: post →
        keyLtB round32 g (c, d) (z0, z1) = true := by
  intro l
  induction l with
  | nil =>
    intro z1 z0 _ _ pre c d post he
    have := congrArg List.length he
    simp at this; omega
  | cons y ys ih =>
    intro z1 z0 hch hnd pre c d post he
    have hstep : keyLtB round32 g (y, z0) (z0, z1) = true := by
      refine key_step hI hch.2.1 hch.1 ?_
      intro e
      have := List.nodup_cons.mp hnd
      exact this.1 (by rw [e]; simp)
    cases pre with
    | nil =>
      simp only [List.nil_append, List.cons.injEq] at he
      obtain ⟨e1, e2, _⟩ := he
      subst e1; subst e2
      exact hstep
    | cons p ps =>
      simp only [List.cons_append, List.cons.injEq] at he
      have := ih z0 y hch.2 (List.nodup_cons.mp hnd).2 ps c d post he.2
      exact keyLtB_trans this hstep

/-- **the chain never visits a node twice**: the nearest neighbour of the top is not deeper in the chain -/
theorem nn_not_in_chain {round32 : ℚ → ℚ} {g : AggGraph ℚ} (hI : NbInv g.nb g.next) {node nn : Nat}
    {rest : List Nat} (hch : NNChain round32 g (node :: rest)) (hnd : (node :: rest).Nodup)
    (hnn : IsNN round32 g node nn) (hlast : ∀ last rest', rest = last :: rest' → nn ≠ last) :
    nn ∉ node :: rest := by
  intro hmem
  rcases List.mem_cons.mp hmem with e | hm
  · exact hnn.ne e
  · cases rest with
    | nil => cases hm
    | cons last rest' =>
      rcases List.mem_cons.mp hm with e | hm'
      · exact hlast last rest' rfl e
      · -- nn is deeper: … nn, d, …, last, node
        obtain ⟨p1, p2, hsplit⟩ := List.append_of_mem hm'
        obtain ⟨pre, d, hpd⟩ : ∃ pre d, last :: p1 = pre ++ [d] := by
          rcases List.eq_nil_or_concat (last :: p1) with h | ⟨pre, d, h⟩
          · cases h
          · exact ⟨pre, d, by rw [h, List.concat_eq_append]⟩
        have hd : last :: rest' = pre ++ d :: nn :: p2 := by
          rw [hsplit, ← List.cons_append, hpd]; simp
        -- the pair (nn, d) of the chain is below the pair on top
        have hkey1 := key_below_top hI rest' node last hch hnd pre nn d p2 hd
        have hkey2 : keyLtB round32 g (last, node) (node, nn) = true :=
          key_step hI hch.1 hnn (hlast last rest' rfl)
        have hkey := keyLtB_trans hkey1 hkey2
        -- (nn, d) is a pair of nearest neighbours
        have hpair : IsNN round32 g nn d := by
          have hrest := nnChain_tail hch
          rw [hd] at hrest
          clear hd hpd hkey1
          induction pre with
          | nil => exact hrest.1
          | cons q qs ihq => exact ihq (nnChain_tail hrest)
        -- node is a neighbour of nn, not better than d
        have hback : K g.nb nn node = true := by rw [hI.sym]; exact hnn.adj
        have hsymm : similarity round32 g nn node = similarity round32 g node nn :=
          similarity_symm round32 g hI.wsym nn node
        have hle := hpair.max node hback (Ne.symm hnn.ne)
        unfold keyLtB at hkey
        simp only [Bool.or_eq_true, Bool.and_eq_true, decide_eq_true_eq] at hkey
        rcases hkey with h1 | ⟨h1, h2⟩
        · rw [hsymm, h1] at hle; cases hle
        · have he := simEq_iff.mp h1
          have := hpair.min node hback (Ne.symm hnn.ne) (by rw [hsymm, he])
          omega


/-! ### a merge keeps the nearest neighbours of the other nodes (reducibility) -/

theorem similarity_some (round32 : ℚ → ℚ) (g : AggGraph ℚ) (x c : Nat)
    (hd : 0 < wOf g.outW x * wOf g.inW c + wOf g.outW c * wOf g.inW x) :
    similarity round32 g x c =
      some (round32 (2 * getEntry g.nb x c / (wOf g.outW x * wOf g.inW c + wOf g.outW c * wOf g.inW x))) := by
  unfold similarity
  simp only [hd, if_true]

theorem simGt_some {x y : ℚ} : simGt (some x) (some y) = false ↔ x ≤ y := by
  simp [simGt]

/-- nodes known to the graph -/
theorem K_lt {nb : Dict (Dict ℚ)} {next : Nat} (hI : NbInv nb next) {x y : Nat} (h : K nb x y = true) :
    x < next ∧ y < next := by
  constructor
  · by_contra hcon
    have := hI.fresh y x (by omega)
    rw [hI.sym] at this
    rw [h] at this; cases this
  · by_contra hcon
    have := hI.fresh x y (by omega)
    rw [h] at this; cases this

theorem similarity_merge_other (round32 : ℚ → ℚ) {g : AggGraph ℚ} (hI : NbInv g.nb g.next) {a b c y : Nat}
    (hab : a ≠ b) (ha : a < g.next) (hb : b < g.next) (hca : c ≠ a) (hcb : c ≠ b) (hcz : c ≠ g.next)
    (hya : y ≠ a) (hyb : y ≠ b) (hyz : y ≠ g.next) :
    similarity round32 (g.merge a b) c y = similarity round32 g c y := by
  have h4 : g.next ≠ a := by omega
  have h5 : g.next ≠ b := by omega
  obtain ⟨_, hW, _⟩ := mergeNb_spec g.nb hab h4 h5 hI.rows (fun x => hI.fresh x g.next (Nat.le_refl _)) hI.sym
  have eK : getEntry (g.merge a b).nb c y = getEntry g.nb c y := by
    show getEntry (mergeNb g.nb a b g.next) c y = _
    rw [hW]; simp [hca, hcb, hya, hyb, hcz, hyz]
  have e1 : wOf (g.merge a b).outW c = wOf g.outW c := wOf_merge_other _ _ _ _ _ hca hcb hcz
  have e2 : wOf (g.merge a b).inW c = wOf g.inW c := wOf_merge_other _ _ _ _ _ hca hcb hcz
  have e3 : wOf (g.merge a b).outW y = wOf g.outW y := wOf_merge_other _ _ _ _ _ hya hyb hyz
  have e4 : wOf (g.merge a b).inW y = wOf g.inW y := wOf_merge_other _ _ _ _ _ hya hyb hyz
  unfold similarity
  simp only [eK, e1, e2, e3, e4]

theorem isNN_merge {round32 : ℚ → ℚ} (hr : Monotone round32) {g : AggGraph ℚ} (hI : NbInv g.nb g.next)
    {a b c d : Nat} (hab : a ≠ b) (ha : a < g.next) (hb : b < g.next) (hca : c ≠ a) (hcb : c ≠ b)
    (hda : d ≠ a) (hdb : d ≠ b) (hcd : IsNN round32 g c d)
    (hwn : ∀ x, 0 ≤ wOf g.outW x ∧ 0 ≤ wOf g.inW x)
    (hden : ∀ y, K g.nb c y = true → y ≠ c →
      0 < wOf g.outW c * wOf g.inW y + wOf g.outW y * wOf g.inW c) :
    IsNN round32 (g.merge a b) c d := by
  have h4 : g.next ≠ a := by omega
  have h5 : g.next ≠ b := by omega
  obtain ⟨hcl, hdl⟩ := K_lt hI hcd.adj
  have hcz : c ≠ g.next := by omega
  have hdz : d ≠ g.next := by omega
  obtain ⟨_, hW, hK⟩ := mergeNb_spec g.nb hab h4 h5 hI.rows (fun x => hI.fresh x g.next (Nat.le_refl _)) hI.sym
  have hKc : ∀ y, K (g.merge a b).nb c y =
      if y = a ∨ y = b then false else if y = g.next then (K g.nb a c || K g.nb b c) else K g.nb c y := by
    intro y
    show K (mergeNb g.nb a b g.next) c y = _
    rw [hK]
    by_cases h1 : y = a ∨ y = b
    · have : c = a ∨ c = b ∨ y = a ∨ y = b := Or.inr (Or.inr h1)
      simp [this, h1]
    · have : ¬ (c = a ∨ c = b ∨ y = a ∨ y = b) := by
        rintro (h | h | h | h)
        · exact hca h
        · exact hcb h
        · exact h1 (Or.inl h)
        · exact h1 (Or.inr h)
      rw [if_neg this, if_neg hcz, if_neg h1]
  have hsd' : similarity round32 (g.merge a b) c d = similarity round32 g c d :=
    similarity_merge_other round32 hI hab ha hb hca hcb hcz hda hdb hdz
  -- similarity to the new node: a mediant, rounded
  have hda0 : 0 ≤ wOf g.outW c * wOf g.inW a + wOf g.outW a * wOf g.inW c := by
    have := mul_nonneg (hwn c).1 (hwn a).2; have := mul_nonneg (hwn a).1 (hwn c).2; linarith
  have hdb0 : 0 ≤ wOf g.outW c * wOf g.inW b + wOf g.outW b * wOf g.inW c := by
    have := mul_nonneg (hwn c).1 (hwn b).2; have := mul_nonneg (hwn b).1 (hwn c).2; linarith
  have hdd : 0 < wOf g.outW c * wOf g.inW d + wOf g.outW d * wOf g.inW c := hden d hcd.adj hcd.ne
  have eO : wOf (g.merge a b).outW g.next = wOf g.outW a + wOf g.outW b := wOf_merge_new _ _ _ _
  have eI : wOf (g.merge a b).inW g.next = wOf g.inW a + wOf g.inW b := wOf_merge_new _ _ _ _
  have eOc : wOf (g.merge a b).outW c = wOf g.outW c := wOf_merge_other _ _ _ _ _ hca hcb hcz
  have eIc : wOf (g.merge a b).inW c = wOf g.inW c := wOf_merge_other _ _ _ _ _ hca hcb hcz
  have eKz : getEntry (g.merge a b).nb c g.next = getEntry g.nb c a + getEntry g.nb c b := by
    show getEntry (mergeNb g.nb a b g.next) c g.next = _
    rw [hW]; simp [hca, hcb, hcz, h4, h5]
  have hsz : 0 < (wOf g.outW c * wOf g.inW a + wOf g.outW a * wOf g.inW c) +
      (wOf g.outW c * wOf g.inW b + wOf g.outW b * wOf g.inW c) →
      similarity round32 (g.merge a b) c g.next =
      some (round32 ((2 * getEntry g.nb c a + 2 * getEntry g.nb c b) /
        ((wOf g.outW c * wOf g.inW a + wOf g.outW a * wOf g.inW c) +
          (wOf g.outW c * wOf g.inW b + wOf g.outW b * wOf g.inW c)))) := by
    intro hpos
    have hden' : 0 < wOf (g.merge a b).outW c * wOf (g.merge a b).inW g.next +
        wOf (g.merge a b).outW g.next * wOf (g.merge a b).inW c := by
      rw [eO, eI, eOc, eIc]
      have e : wOf g.outW c * (wOf g.inW a + wOf g.inW b) + (wOf g.outW a + wOf g.outW b) * wOf g.inW c =
          (wOf g.outW c * wOf g.inW a + wOf g.outW a * wOf g.inW c) +
            (wOf g.outW c * wOf g.inW b + wOf g.outW b * wOf g.inW c) := by ring
      rw [e]; exact hpos
    rw [similarity_some round32 _ _ _ hden', eO, eI, eOc, eIc, eKz]
    congr 2
    ring
  have hsdd := similarity_some round32 g c d hdd
  have hnn := hI.nonneg
  -- an adjacent part is at most the similarity to `d`
  have hpart : ∀ (e : Nat), K g.nb c e = true → e ≠ c →
      round32 (2 * getEntry g.nb c e / (wOf g.outW c * wOf g.inW e + wOf g.outW e * wOf g.inW c)) ≤
        round32 (2 * getEntry g.nb c d / (wOf g.outW c * wOf g.inW d + wOf g.outW d * wOf g.inW c)) := by
    intro e hKe hec
    have hde := hden e hKe hec
    have := hcd.max e hKe hec
    rw [similarity_some round32 g c e hde, hsdd] at this
    exact simGt_some.mp this
  have hmax_z : (K g.nb a c || K g.nb b c) = true →
      simGt (similarity round32 (g.merge a b) c g.next) (similarity round32 g c d) = false := by
    intro hz
    by_cases hKa : K g.nb c a = true
    · have hd1 := hden a hKa (Ne.symm hca)
      by_cases hKb : K g.nb c b = true
      · have hd2 := hden b hKb (Ne.symm hcb)
        rw [hsz (by linarith), hsdd, simGt_some]
        have hmed := mediant_le_max (p1 := 2 * getEntry g.nb c a) (p2 := 2 * getEntry g.nb c b) hd1 hd2
        have h1 := hr hmed
        rw [hr.map_max] at h1
        exact le_trans h1 (max_le (hpart a hKa (Ne.symm hca)) (hpart b hKb (Ne.symm hcb)))
      · have h0 : getEntry g.nb c b = 0 := getEntry_of_not_K (by simpa using hKb)
        rw [hsz (by linarith), hsdd, simGt_some, h0]
        refine le_trans (hr ?_) (hpart a hKa (Ne.symm hca))
        simp only [mul_zero, add_zero]
        exact div_le_div_of_nonneg_left (mul_nonneg (by norm_num) (hnn c a)) hd1 (by linarith)
    · have hKb : K g.nb c b = true := by
        rw [hI.sym a c, hI.sym b c] at hz
        simp only [Bool.or_eq_true] at hz
        rcases hz with h | h
        · exact absurd h hKa
        · exact h
      have hd2 := hden b hKb (Ne.symm hcb)
      have h0 : getEntry g.nb c a = 0 := getEntry_of_not_K (by simpa using hKa)
      rw [hsz (by linarith), hsdd, simGt_some, h0]
      refine le_trans (hr ?_) (hpart b hKb (Ne.symm hcb))
      simp only [mul_zero, zero_add]
      exact div_le_div_of_nonneg_left (mul_nonneg (by norm_num) (hnn c b)) hd2 (by linarith)
  refine ⟨?_, hcd.ne, ?_, ?_⟩
  · rw [hKc]; simp [hda, hdb, hdz, hcd.adj]
  · intro y hy hyc
    rw [hKc] at hy
    by_cases h1 : y = a ∨ y = b
    · simp [h1] at hy
    · simp only [h1, if_false] at hy
      have hya : y ≠ a := fun e => h1 (Or.inl e)
      have hyb : y ≠ b := fun e => h1 (Or.inr e)
      rw [hsd']
      by_cases hyz : y = g.next
      · rw [if_pos hyz] at hy
        rw [hyz]; exact hmax_z hy
      · simp only [hyz, if_false] at hy
        rw [similarity_merge_other round32 hI hab ha hb hca hcb hcz hya hyb hyz]
        exact hcd.max y hy hyc
  · intro y hy hyc he
    rw [hKc] at hy
    by_cases h1 : y = a ∨ y = b
    · simp [h1] at hy
    · simp only [h1, if_false] at hy
      have hya : y ≠ a := fun e => h1 (Or.inl e)
      have hyb : y ≠ b := fun e => h1 (Or.inr e)
      by_cases hyz : y = g.next
      · omega
      · simp only [hyz, if_false] at hy
        rw [hsd', similarity_merge_other round32 hI hab ha hb hca hcb hcz hya hyb hyz] at he
        exact hcd.min y hy hyc he


/-! ### the invariant of the chain loop -/

/-- the sum of the two products of node weights in the denominator of `similarity` -/
def den (g : AggGraph ℚ) (x y : Nat) : ℚ := wOf g.outW x * wOf g.inW y + wOf g.outW y * wOf g.inW x

structure RetInv (round32 : ℚ → ℚ) (n : Nat) (st : PState ℚ) : Prop where
  tinv : TInv n st
  active_row : ∀ x ∈ Dict.keys st.g.sizes, ∃ rowX, st.g.nb.get? x = some rowX
  nbr_active : ∀ x y, x ∈ Dict.keys st.g.sizes → K st.g.nb x y = true → y ≠ x → y ∈ Dict.keys st.g.sizes
  wnn : ∀ x, 0 ≤ wOf st.g.outW x ∧ 0 ≤ wOf st.g.inW x
  denpos : ∀ x y, x ∈ Dict.keys st.g.sizes → K st.g.nb x y = true → y ≠ x → 0 < den st.g x y
  chain_active : ∀ x ∈ st.chain, x ∈ Dict.keys st.g.sizes
  chain_nodup : st.chain.Nodup
  nn : NNChain round32 st.g st.chain

theorem K_get {nb : Dict (Dict ℚ)} {x y : Nat} (h : K nb x y = true) : ∃ rowX, nb.get? x = some rowX := by
  cases hx : nb.get? x with
  | some r => exact ⟨r, rfl⟩
  | none =>
    exfalso
    unfold K row at h
    rw [hx] at h
    simp [Dict.contains, Dict.get?] at h

/-! the outer dict keeps its other keys through a merge -/

theorem isSome_set {β : Type} (d : Dict β) (k : Nat) (v : β) {x : Nat} (h : (d.get? x).isSome = true) :
    ((d.set k v).get? x).isSome = true := by
  rw [Dict.get?_set]; split
  · rfl
  · exact h

theorem isSome_erase {β : Type} (d : Dict β) (k : Nat) {x : Nat} (hx : x ≠ k) (h : (d.get? x).isSome = true) :
    ((d.erase k).get? x).isSome = true := by
  rw [Dict.get?_erase, if_neg hx]; exact h

theorem isSome_foldl {β γ : Type} (f : Dict β → γ → Dict β) {x : Nat}
    (hf : ∀ (d : Dict β) (e : γ), (Dict.get? d x).isSome = true → (Dict.get? (f d e) x).isSome = true) :
    ∀ (l : List γ) (d : Dict β), (Dict.get? d x).isSome = true → (Dict.get? (l.foldl f d) x).isSome = true := by
  intro l
  induction l with
  | nil => intro d h; exact h
  | cons e es ih => intro d h; exact ih _ (hf d e h)

theorem isSome_foldl_mem {β γ : Type} (f : Dict β → γ → Dict β) {x : Nat} :
    ∀ (l : List γ), (∀ (d : Dict β) (e : γ), e ∈ l → (Dict.get? d x).isSome = true →
      (Dict.get? (f d e) x).isSome = true) →
    ∀ (d : Dict β), (Dict.get? d x).isSome = true → (Dict.get? (l.foldl f d) x).isSome = true := by
  intro l
  induction l with
  | nil => intro _ d h; exact h
  | cons e es ih =>
    intro hf d h
    exact ih (fun d' e' he' => hf d' e' (List.mem_cons_of_mem _ he')) _ (hf d e List.mem_cons_self h)

theorem mergeNb_isSome (nb : Dict (Dict ℚ)) (a b new : Nat) {x : Nat} (hxa : x ≠ a) (hxb : x ≠ b)
    (h : (nb.get? x).isSome = true) : ((mergeNb nb a b new).get? x).isSome = true := by
  have hset : ∀ (d : Dict (Dict ℚ)) (p q : Nat) (v : ℚ), (Dict.get? d x).isSome = true →
      (Dict.get? (setEntry d p q v) x).isSome = true :=
    fun d p q v hd => isSome_set d p _ hd
  have hdel : ∀ (d : Dict (Dict ℚ)) (p q : Nat), (Dict.get? d x).isSome = true →
      (Dict.get? (delEntry d p q) x).isSome = true :=
    fun d p q hd => isSome_set d p _ hd
  have hcommon : ∀ (d : Dict (Dict ℚ)) (e : Nat), (Dict.get? d x).isSome = true →
      (Dict.get? (commonStep a b new d e) x).isSome = true := by
    intro d e hd
    unfold commonStep
    exact hset _ _ _ _ (hdel _ _ _ (hdel _ _ _ (hset _ _ _ _ (hdel _ _ _ (hdel _ _ _ hd)))))
  have hother : ∀ (node : Nat) (d : Dict (Dict ℚ)) (e : Nat), (Dict.get? d x).isSome = true →
      (Dict.get? (otherStep node new d e) x).isSome = true := by
    intro node d e hd
    unfold otherStep
    exact hset _ _ _ _ (hdel _ _ _ (hset _ _ _ _ (hdel _ _ _ hd)))
  have hself : ∀ (node : Nat) (d : Dict (Dict ℚ)) (e : Nat), (Dict.get? d x).isSome = true →
      (Dict.get? (selfStep node new d e) x).isSome = true := by
    intro node d e hd
    unfold selfStep
    split
    · exact hset _ _ _ _ hd
    · exact hd
  have hnode : ∀ (nodes : List Nat) (d : Dict (Dict ℚ)) (node : Nat), (node = a ∨ node = b) →
      (Dict.get? d x).isSome = true → (Dict.get? (nodeStep a b new nodes d node) x).isSome = true := by
    intro nodes d node hn hd
    unfold nodeStep
    have hxn : x ≠ node := by rcases hn with e | e <;> rw [e] <;> assumption
    exact isSome_erase _ _ hxn (isSome_foldl _ (hself node) _ _ (isSome_foldl _ (hother node) _ _ hd))
  have hnodes : ∀ e ∈ (if a = b then [a] else [a, b]), e = a ∨ e = b := by
    intro e he
    split at he
    · simp only [List.mem_cons, List.not_mem_nil, or_false] at he; exact Or.inl he
    · simp only [List.mem_cons, List.not_mem_nil, or_false] at he; exact he
  have h0 := isSome_set nb new [(new, (0 : ℚ))] h
  unfold mergeNb
  refine isSome_foldl_mem _ _ (fun d e he hd => hnode _ d e (hnodes e he) hd) _ ?_
  exact isSome_foldl _ hcommon _ _ h0

theorem wOf_merge_gone (d : Dict ℚ) (n1 n2 new : Nat) (v : ℚ) {x : Nat} (hx : x = n1 ∨ x = n2) (hn : x ≠ new) :
    wOf (((d.erase n1).erase n2).set new v) x = 0 := by
  unfold wOf
  rw [Dict.get?_set, if_neg hn, Dict.get?_erase]
  by_cases h2 : x = n2
  · rw [if_pos h2]; rfl
  · rw [if_neg h2, Dict.get?_erase, if_pos (hx.resolve_right h2)]; rfl

theorem isNN_congr {round32 : ℚ → ℚ} {g g' : AggGraph ℚ} (h1 : g'.nb = g.nb) (h2 : g'.outW = g.outW)
    (h3 : g'.inW = g.inW) {x d : Nat} (h : IsNN round32 g x d) : IsNN round32 g' x d := by
  have hs : ∀ u v, similarity round32 g' u v = similarity round32 g u v := by
    intro u v; unfold similarity; rw [h1, h2, h3]
  refine ⟨by rw [h1]; exact h.adj, h.ne, ?_, ?_⟩
  · intro y hy hne; rw [hs, hs]; rw [h1] at hy; exact h.max y hy hne
  · intro y hy hne he; rw [hs, hs] at he; rw [h1] at hy; exact h.min y hy hne he

theorem nnChain_congr {round32 : ℚ → ℚ} {g g' : AggGraph ℚ} (h1 : g'.nb = g.nb) (h2 : g'.outW = g.outW)
    (h3 : g'.inW = g.inW) : ∀ l, NNChain round32 g l → NNChain round32 g' l := by
  intro l
  induction l with
  | nil => intro _; trivial
  | cons a as ih =>
    intro h
    cases as with
    | nil => trivial
    | cons b bs => exact ⟨isNN_congr h1 h2 h3 h.1, ih h.2⟩

theorem active_lt {n : Nat} {g : AggGraph ℚ} {rows : List (Row (HInf ℚ))} {comps : List (Nat × Nat)} {L : Dict Nat}
    (hP : PInv n g rows comps L) {x : Nat} (hx : x ∈ Dict.keys g.sizes) : x < g.next := by
  obtain ⟨s, hs⟩ := (Hier.mem_keys_iff _ _).mp hx
  have := hP.linv.bound _ (Dict.get?_some_key_mem (hP.sizes _ _ hs))
  rw [hP.next]; exact this

theorem mem_keys_merge_sizes {g : AggGraph ℚ} {a b s1 s2 : Nat} (h1 : g.sizes.get? a = some s1)
    (h2 : g.sizes.get? b = some s2) (x : Nat) :
    x ∈ Dict.keys (g.merge a b).sizes ↔ x = g.next ∨ (x ∈ Dict.keys g.sizes ∧ x ≠ a ∧ x ≠ b) := by
  rw [(merge_sizes g a b h1 h2).1, Hier.mem_keys_set, Dict.mem_keys_erase, Dict.mem_keys_erase]
  constructor
  · rintro (h | ⟨⟨h, h'⟩, h''⟩)
    · exact Or.inl h
    · exact Or.inr ⟨h, h', h''⟩
  · rintro (h | ⟨h, h', h''⟩)
    · exact Or.inl h
    · exact Or.inr ⟨⟨h, h'⟩, h''⟩

theorem nnChain_merge {round32 : ℚ → ℚ} (hr : Monotone round32) {g : AggGraph ℚ} (hI : NbInv g.nb g.next)
    {a b : Nat} (hab : a ≠ b) (ha : a < g.next) (hb : b < g.next)
    (hwn : ∀ x, 0 ≤ wOf g.outW x ∧ 0 ≤ wOf g.inW x) :
    ∀ l, NNChain round32 g l → (∀ x ∈ l, x ≠ a ∧ x ≠ b) →
      (∀ x ∈ l, ∀ y, K g.nb x y = true → y ≠ x → 0 < den g x y) →
      NNChain round32 (g.merge a b) l := by
  intro l
  induction l with
  | nil => intro _ _ _; trivial
  | cons z1 as ih =>
    intro h hl hw
    cases as with
    | nil => trivial
    | cons z0 bs =>
      have h1 := hl z1 List.mem_cons_self
      have h0 := hl z0 (List.mem_cons_of_mem _ List.mem_cons_self)
      have p0 := hw z0 (List.mem_cons_of_mem _ List.mem_cons_self)
      exact ⟨isNN_merge hr hI hab ha hb h0.1 h0.2 h1.1 h1.2 h.1 hwn p0,
        ih h.2 (fun x hx => hl x (List.mem_cons_of_mem _ hx)) (fun x hx => hw x (List.mem_cons_of_mem _ hx))⟩

/-- **one iteration does not raise** and keeps the invariant -/
theorem chainStep_ret {n : Nat} {round32 : ℚ → ℚ} (hr : Monotone round32) (n0 : Nat) {st : PState ℚ}
    (h : RetInv round32 n st) :
    chainStep round32 n0 st = .ok none ∨ ∃ st1, chainStep round32 n0 st = .ok (some st1) ∧ RetInv round32 n st1 := by
  obtain ⟨L, hP⟩ := h.tinv.pinv
  have hI := h.tinv.nbi
  obtain ⟨g, chain, rows, comps⟩ := st
  simp only at hP hI
  have hrow := h.active_row
  have hnbr := h.nbr_active
  have hwn := h.wnn
  have hdp := h.denpos
  have hact := h.chain_active
  have hnd := h.chain_nodup
  have hnn := h.nn
  simp only at hrow hnbr hwn hdp hact hnd hnn
  unfold chainStep
  cases chain with
  | nil =>
    simp only
    cases hsz : g.sizes with
    | nil => exact Or.inl rfl
    | cons p tl =>
      obtain ⟨node, sz⟩ := p
      right
      refine ⟨_, rfl, ⟨⟨⟨L, hP⟩, hI⟩, hrow, hnbr, hwn, hdp, ?_, by simp, trivial⟩⟩
      intro x hx
      simp only [List.mem_cons, List.not_mem_nil, or_false] at hx
      rw [hx, hsz]; simp [Dict.keys]
  | cons node rest =>
    simp only
    have hnode := hact node List.mem_cons_self
    obtain ⟨rowNode, hrowN⟩ := hrow node hnode
    obtain ⟨szN, hszN⟩ := (Hier.mem_keys_iff _ _).mp hnode
    rw [hrowN]
    simp only
    cases hfl : rowNode.keys.filter (· != node) with
    | nil =>
      -- a connected component is finished
      simp only [hszN]
      right
      refine ⟨_, rfl, ⟨⟨⟨L, pinv_comp hP hszN⟩, hI⟩, ?_, ?_, hwn, ?_, ?_, (List.nodup_cons.mp hnd).2, ?_⟩⟩
      · intro x hx; exact hrow x (Dict.mem_keys_erase.mp hx).1
      · intro x y hx hK hne
        have hx' := (Dict.mem_keys_erase.mp hx).1
        refine Dict.mem_keys_erase.mpr ⟨hnbr x y hx' hK hne, ?_⟩
        intro e
        subst e
        have hK' : K g.nb y x = true := by rw [hI.sym]; exact hK
        have : x ∈ rowNode.keys.filter (· != y) := (mem_nbrs_iff hrowN).mpr ⟨hK', Ne.symm hne⟩
        rw [hfl] at this; cases this
      · intro x y hx hK hne; exact hdp x y (Dict.mem_keys_erase.mp hx).1 hK hne
      · intro x hx
        refine Dict.mem_keys_erase.mpr ⟨hact x (List.mem_cons_of_mem _ hx), ?_⟩
        intro e; subst e
        exact (List.nodup_cons.mp hnd).1 hx
      · exact nnChain_congr (g := g) (g' := { g with sizes := g.sizes.erase node }) rfl rfl rfl rest (nnChain_tail hnn)
    | cons k ks =>
      simp only
      have hisnn := nearest_isNN round32 hrowN hfl
      have hnnact := hnbr node _ hnode hisnn.adj hisnn.ne
      cases rest with
      | nil =>
        simp only
        right
        refine ⟨_, rfl, ⟨⟨⟨L, hP⟩, hI⟩, hrow, hnbr, hwn, hdp, ?_, ?_, ⟨hisnn, trivial⟩⟩⟩
        · intro x hx
          simp only [List.mem_cons, List.not_mem_nil, or_false] at hx
          rcases hx with e | e
          · rw [e]; exact hnnact
          · rw [e]; exact hnode
        · simp only [List.nodup_cons, List.mem_cons, List.not_mem_nil, or_false, not_false_eq_true, List.nodup_nil,
            and_true]
          exact hisnn.ne
      | cons last rest' =>
        simp only
        by_cases hlast : (last == (nearest round32 g node k ks).1) = true
        · -- reciprocal nearest neighbours: merge
          have hle : last = (nearest round32 g node k ks).1 := by simpa using hlast
          simp only [hlast, if_true]
          obtain ⟨szNN, hszNN⟩ := (Hier.mem_keys_iff _ _).mp hnnact
          simp only [hszN, hszNN]
          right
          refine ⟨_, rfl, ?_⟩
          generalize hnneq : (nearest round32 g node k ks).1 = nn at *
          generalize (nearest round32 g node k ks).2 = ms at *
          have hab : node ≠ nn := Ne.symm hisnn.ne
          have ha : node < g.next := active_lt hP hnode
          have hb : nn < g.next := active_lt hP hnnact
          have h4 : g.next ≠ node := by omega
          have h5 : g.next ≠ nn := by omega
          obtain ⟨L', hP'⟩ := pinv_merge hP hszN hszNN hab (clampHeight n0 rows (invSim ms) node nn)
          have hnb' : NbInv (g.merge node nn).nb (g.merge node nn).next := nbInv_merge hI hab ha hb
          obtain ⟨_, hW, hK⟩ := mergeNb_spec g.nb hab h4 h5 hI.rows (fun x => hI.fresh x g.next (Nat.le_refl _)) hI.sym
          have hKm : ∀ x y, K (g.merge node nn).nb x y =
              if x = node ∨ x = nn ∨ y = node ∨ y = nn then false
              else if x = g.next then (decide (y = g.next) || K g.nb node y || K g.nb nn y)
              else if y = g.next then (K g.nb node x || K g.nb nn x)
              else K g.nb x y := hK
          have hkeys := mem_keys_merge_sizes hszN hszNN
          have eO : wOf (g.merge node nn).outW g.next = wOf g.outW node + wOf g.outW nn := wOf_merge_new _ _ _ _
          have eI : wOf (g.merge node nn).inW g.next = wOf g.inW node + wOf g.inW nn := wOf_merge_new _ _ _ _
          have hrest'nd : ∀ x ∈ rest', x ≠ node ∧ x ≠ nn := by
            intro x hx
            have h1 := List.nodup_cons.mp hnd
            have h2 := List.nodup_cons.mp h1.2
            constructor
            · intro e; exact h1.1 (by rw [← e]; exact List.mem_cons_of_mem _ hx)
            · intro e; exact h2.1 (by rw [hle, ← e]; exact hx)
          refine ⟨⟨⟨L', hP'⟩, hnb'⟩, ?_, ?_, ?_, ?_, ?_, ?_, ?_⟩
          · -- every active node has a row
            intro x hx
            rcases (hkeys x).mp hx with e | ⟨hxo, hxa, hxb⟩
            · exact K_get (y := g.next) (by rw [e, hKm]; simp [h4, h5])
            · obtain ⟨rx, hrx⟩ := hrow x hxo
              have := mergeNb_isSome g.nb node nn g.next hxa hxb (by rw [hrx]; rfl)
              exact Option.isSome_iff_exists.mp this
          · -- neighbours of active nodes are active
            intro x y hx hKxy hne
            rw [hKm] at hKxy
            by_cases hno : x = node ∨ x = nn ∨ y = node ∨ y = nn
            · rw [if_pos hno] at hKxy; cases hKxy
            · rw [if_neg hno] at hKxy
              have hya : y ≠ node := fun e => hno (Or.inr (Or.inr (Or.inl e)))
              have hyb : y ≠ nn := fun e => hno (Or.inr (Or.inr (Or.inr e)))
              by_cases hyz : y = g.next
              · exact (hkeys y).mpr (Or.inl hyz)
              · refine (hkeys y).mpr (Or.inr ⟨?_, hya, hyb⟩)
                by_cases hxz : x = g.next
                · rw [if_pos hxz] at hKxy
                  simp only [hyz, decide_false, Bool.false_or, Bool.or_eq_true] at hKxy
                  rcases hKxy with h1 | h1
                  · exact hnbr node y hnode h1 hya
                  · exact hnbr nn y hnnact h1 hyb
                · rw [if_neg hxz, if_neg hyz] at hKxy
                  rcases (hkeys x).mp hx with e | ⟨hxo, _, _⟩
                  · exact absurd e hxz
                  · exact hnbr x y hxo hKxy hne
          · -- weights stay non-negative
            intro x
            by_cases hxz : x = g.next
            · rw [hxz, eO, eI]
              exact ⟨by linarith [(hwn node).1, (hwn nn).1], by linarith [(hwn node).2, (hwn nn).2]⟩
            · by_cases hxg : x = node ∨ x = nn
              · have e1 : wOf (g.merge node nn).outW x = 0 := wOf_merge_gone _ _ _ _ _ hxg hxz
                have e2 : wOf (g.merge node nn).inW x = 0 := wOf_merge_gone _ _ _ _ _ hxg hxz
                rw [e1, e2]; exact ⟨le_refl _, le_refl _⟩
              · have hxa : x ≠ node := fun e => hxg (Or.inl e)
                have hxb : x ≠ nn := fun e => hxg (Or.inr e)
                have e1 : wOf (g.merge node nn).outW x = wOf g.outW x := wOf_merge_other _ _ _ _ _ hxa hxb hxz
                have e2 : wOf (g.merge node nn).inW x = wOf g.inW x := wOf_merge_other _ _ _ _ _ hxa hxb hxz
                rw [e1, e2]; exact hwn x
          · -- denominators of adjacent pairs stay positive
            intro x y hx hKxy hne
            rw [hKm] at hKxy
            by_cases hno : x = node ∨ x = nn ∨ y = node ∨ y = nn
            · rw [if_pos hno] at hKxy; cases hKxy
            · rw [if_neg hno] at hKxy
              have hxa : x ≠ node := fun e => hno (Or.inl e)
              have hxb : x ≠ nn := fun e => hno (Or.inr (Or.inl e))
              have hya : y ≠ node := fun e => hno (Or.inr (Or.inr (Or.inl e)))
              have hyb : y ≠ nn := fun e => hno (Or.inr (Or.inr (Or.inr e)))
              unfold den
              by_cases hxz : x = g.next
              · -- the new node and an old neighbour of one of its parts
                rw [if_pos hxz] at hKxy
                have hyz : y ≠ g.next := fun e => hne (by rw [e, hxz])
                simp only [hyz, decide_false, Bool.false_or, Bool.or_eq_true] at hKxy
                have e3 : wOf (g.merge node nn).outW y = wOf g.outW y := wOf_merge_other _ _ _ _ _ hya hyb hyz
                have e4 : wOf (g.merge node nn).inW y = wOf g.inW y := wOf_merge_other _ _ _ _ _ hya hyb hyz
                rw [hxz, eO, eI, e3, e4]
                have hn1 : 0 ≤ den g node y := by
                  unfold den
                  have := mul_nonneg (hwn node).1 (hwn y).2; have := mul_nonneg (hwn y).1 (hwn node).2; linarith
                have hn2 : 0 ≤ den g nn y := by
                  unfold den
                  have := mul_nonneg (hwn nn).1 (hwn y).2; have := mul_nonneg (hwn y).1 (hwn nn).2; linarith
                have hsum : (wOf g.outW node + wOf g.outW nn) * wOf g.inW y + wOf g.outW y * (wOf g.inW node + wOf g.inW nn) =
                    den g node y + den g nn y := by unfold den; ring
                rw [hsum]
                rcases hKxy with h1 | h1
                · have := hdp node y hnode h1 hya; linarith
                · have := hdp nn y hnnact h1 hyb; linarith
              · rw [if_neg hxz] at hKxy
                rcases (hkeys x).mp hx with e | ⟨hxo, _, _⟩
                · exact absurd e hxz
                · have e1 : wOf (g.merge node nn).outW x = wOf g.outW x := wOf_merge_other _ _ _ _ _ hxa hxb hxz
                  have e2 : wOf (g.merge node nn).inW x = wOf g.inW x := wOf_merge_other _ _ _ _ _ hxa hxb hxz
                  by_cases hyz : y = g.next
                  · rw [if_pos hyz] at hKxy
                    simp only [Bool.or_eq_true] at hKxy
                    rw [hyz, eO, eI, e1, e2]
                    have hn1 : 0 ≤ den g x node := by
                      unfold den
                      have := mul_nonneg (hwn x).1 (hwn node).2; have := mul_nonneg (hwn node).1 (hwn x).2; linarith
                    have hn2 : 0 ≤ den g x nn := by
                      unfold den
                      have := mul_nonneg (hwn x).1 (hwn nn).2; have := mul_nonneg (hwn nn).1 (hwn x).2; linarith
                    have hsum : wOf g.outW x * (wOf g.inW node + wOf g.inW nn) + (wOf g.outW node + wOf g.outW nn) * wOf g.inW x =
                        den g x node + den g x nn := by unfold den; ring
                    rw [hsum]
                    rcases hKxy with h1 | h1
                    · have := hdp x node hxo (by rw [hI.sym]; exact h1) (Ne.symm hxa); linarith
                    · have := hdp x nn hxo (by rw [hI.sym]; exact h1) (Ne.symm hxb); linarith
                  · rw [if_neg hyz] at hKxy
                    have e3 : wOf (g.merge node nn).outW y = wOf g.outW y := wOf_merge_other _ _ _ _ _ hya hyb hyz
                    have e4 : wOf (g.merge node nn).inW y = wOf g.inW y := wOf_merge_other _ _ _ _ _ hya hyb hyz
                    rw [e1, e2, e3, e4]
                    exact hdp x y hxo hKxy hne
          · intro x hx
            have hxo := hact x (List.mem_cons_of_mem _ (List.mem_cons_of_mem _ hx))
            obtain ⟨h1, h2⟩ := hrest'nd x hx
            exact (hkeys x).mpr (Or.inr ⟨hxo, h1, h2⟩)
          · exact (List.nodup_cons.mp (List.nodup_cons.mp hnd).2).2
          · -- the rest of the chain is still a chain of nearest neighbours
            refine nnChain_merge hr hI hab ha hb hwn rest' (nnChain_tail (nnChain_tail hnn)) hrest'nd ?_
            intro x hx y hKxy hyx
            exact hdp x y (hact x (List.mem_cons_of_mem _ (List.mem_cons_of_mem _ hx))) hKxy hyx
        · -- the chain grows
          have hne : last ≠ (nearest round32 g node k ks).1 := by simpa using hlast
          simp only [hlast, if_false]
          right
          refine ⟨_, rfl, ⟨⟨⟨L, hP⟩, hI⟩, hrow, hnbr, hwn, hdp, ?_, ?_, ⟨hisnn, hnn⟩⟩⟩
          · intro x hx
            rcases List.mem_cons.mp hx with e | e
            · rw [e]; exact hnnact
            · exact hact x e
          · refine List.nodup_cons.mpr ⟨?_, hnd⟩
            exact nn_not_in_chain hI hnn hnd hisnn (fun l r' e => by
              simp only [List.cons.injEq] at e
              rw [← e.1]; exact Ne.symm hne)

/-- the chain loop, with enough fuel, ends without raising, all clusters consumed -/
theorem chainLoop_ret {n : Nat} {round32 : ℚ → ℚ} (hr : Monotone round32) (n0 : Nat) :
    ∀ (fuel : Nat) (st : PState ℚ), RetInv round32 n st → mu round32 (2 * n) st < fuel →
      ∃ st', chainLoop round32 n0 fuel st = .ok (some st') ∧ RetInv round32 n st' ∧ st'.g.sizes = [] := by
  intro fuel
  induction fuel with
  | zero => intro st _ h; omega
  | succ fuel ih =>
    intro st hR hmu
    unfold chainLoop
    rcases chainStep_ret hr n0 hR with hdone | ⟨st1, hstep, hR1⟩
    · rw [hdone]
      exact ⟨st, rfl, hR, chainStep_done round32 n0 hdone⟩
    · rw [hstep]
      simp only
      obtain ⟨_, hlt⟩ := chainStep_mu round32 n0 hR.tinv hstep
      exact ih st1 hR1 (by omega)

theorem liveAfter_nonempty {n : Nat} : ∀ (rs : List (Row (HInf ℚ))) (t : Nat) (live L : Dict Nat),
    LInv n t live → liveAfter n t rs live = some L → 0 < live.length → 0 < L.length := by
  intro rs
  induction rs with
  | nil =>
    intro t live L _ h hpos
    simp only [liveAfter, Option.some.injEq] at h
    subst h; exact hpos
  | cons r rs ih =>
    intro t live L hinv h _
    simp only [liveAfter] at h
    cases hs : liveStep n t r live with
    | none => simp [hs] at h
    | some l =>
      simp only [hs, Option.bind_some] at h
      obtain ⟨_, _, _, _, _, _, hl, _, hget⟩ := liveStep_spec hinv hs
      have hnew : l.get? (n + t) = some r.s := by rw [hget]; simp
      exact ih (t + 1) l L hl h (List.length_pos_of_mem (Dict.get?_some_mem hnew))

end SkNet.Paris
