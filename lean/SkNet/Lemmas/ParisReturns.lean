/- Paris does not raise: on a symmetric graph whose nodes with a neighbour have positive weights, and for a monotone
   rounding of the similarities, every node of the chain is alive when it is read (the chain stays a chain of
   nearest neighbours after a merge — reducibility of the linkage — and never visits a node twice). -/
import SkNet.Lemmas.ParisTerm
import SkNet.Lemmas.Reducible

set_option linter.unusedSimpArgs false
set_option linter.unusedVariables false

namespace SkNet.Paris
open SkNet SkNet.Dendro SkNet.Agg

/-! ### nearest neighbours, independently of the order of the scan -/

/-- `d` is the neighbour of `x` of greatest similarity, of smallest id among equals -/
structure IsNN (round32 : ℚ → ℚ) (g : AggGraph ℚ) (x d : Nat) : Prop where
  adj : K g.nb x d = true
  ne : d ≠ x
  max : ∀ y, K g.nb x y = true → y ≠ x → simGt (similarity round32 g x y) (similarity round32 g x d) = false
  min : ∀ y, K g.nb x y = true → y ≠ x → similarity round32 g x y = similarity round32 g x d → d ≤ y

theorem mem_nbrs_iff {g : AggGraph ℚ} {x y : Nat} {rowX : Dict ℚ} (hx : g.nb.get? x = some rowX) :
    y ∈ rowX.keys.filter (· != x) ↔ K g.nb x y = true ∧ y ≠ x := by
  rw [List.mem_filter, ← row_of_get hx, mem_keys_row_iff]
  simp

/-- what the scan returns is the nearest neighbour -/
theorem nearest_isNN (round32 : ℚ → ℚ) {g : AggGraph ℚ} {x k : Nat} {ks : List Nat} {rowX : Dict ℚ}
    (hx : g.nb.get? x = some rowX) (hnb : rowX.keys.filter (· != x) = k :: ks) :
    IsNN round32 g x (nearest round32 g x k ks).1 := by
  obtain ⟨h1, h2, h3, h4⟩ := nearest_spec round32 g x k ks
  rw [← hnb] at h1 h3 h4
  obtain ⟨a1, a2⟩ := (mem_nbrs_iff hx).mp h1
  refine ⟨a1, a2, ?_, ?_⟩
  · intro y hy hne
    rw [h2]; exact h3 y ((mem_nbrs_iff hx).mpr ⟨hy, hne⟩)
  · intro y hy hne he
    exact h4 y ((mem_nbrs_iff hx).mpr ⟨hy, hne⟩) (by rw [he, h2])

theorem isNN_unique {round32 : ℚ → ℚ} {g : AggGraph ℚ} {x d d' : Nat} (h : IsNN round32 g x d)
    (h' : IsNN round32 g x d') : d = d' := by
  have a := h.max d' h'.adj h'.ne
  have b := h'.max d h.adj h.ne
  have e : similarity round32 g x d = similarity round32 g x d' := by
    by_contra hne
    have := simGt_of_not b hne
    rw [a] at this; cases this
  have l1 := h.min d' h'.adj h'.ne e.symm
  have l2 := h'.min d h.adj h.ne e
  omega

/-- along two consecutive nearest-neighbour steps that do not come back, the key climbs -/
theorem key_step {round32 : ℚ → ℚ} {g : AggGraph ℚ} (hI : NbInv g.nb g.next) {z0 z1 z2 : Nat}
    (h01 : IsNN round32 g z0 z1) (h12 : IsNN round32 g z1 z2) (hne : z2 ≠ z0) :
    keyLtB round32 g (z0, z1) (z1, z2) = true := by
  have hback : K g.nb z1 z0 = true := by rw [hI.sym]; exact h01.adj
  have hsymm : similarity round32 g z1 z0 = similarity round32 g z0 z1 := similarity_symm round32 g hI.wsym z1 z0
  have hle := h12.max z0 hback (Ne.symm h01.ne)
  unfold keyLtB
  simp only [Bool.or_eq_true, Bool.and_eq_true, decide_eq_true_eq]
  by_cases heq : similarity round32 g z0 z1 = similarity round32 g z1 z2
  · right
    refine ⟨simEq_iff.mpr heq.symm, ?_⟩
    have := h12.min z0 hback (Ne.symm h01.ne) (by rw [hsymm, heq])
    omega
  · left
    rw [hsymm] at hle
    exact simGt_of_not hle heq

/-- a chain of nearest neighbours, top first -/
def NNChain (round32 : ℚ → ℚ) (g : AggGraph ℚ) : List Nat → Prop
  | [] => True
  | [_] => True
  | z1 :: z0 :: rest => IsNN round32 g z0 z1 ∧ NNChain round32 g (z0 :: rest)

theorem nnChain_tail {round32 : ℚ → ℚ} {g : AggGraph ℚ} {z : Nat} {l : List Nat} (h : NNChain round32 g (z :: l)) :
    NNChain round32 g l := by
  cases l with
  | nil => trivial
  | cons a as => exact h.2

/-- the key of every pair of the chain is at most the key of the pair on top -/
theorem key_below_top {round32 : ℚ → ℚ} {g : AggGraph ℚ} (hI : NbInv g.nb g.next) :
    ∀ (l : List Nat) (z1 z0 : Nat), NNChain round32 g (z1 :: z0 :: l) → (z1 :: z0 :: l).Nodup →
      ∀ (pre : List Nat) (c d : Nat) (post : List Nat), z0 :: l = pre ++ d :: c :: post →
        keyLtB round32 g (c, d) (z0, z1) = true := by
  intro l
  induction l with
  | nil =>
    intro z1 z0 _ _ pre c d post he
    have := congrArg List.length he
    simp at this; omega
  | cons y ys ih =>
    intro z1 z0 hch hnd pre c d post he
    have hstep : keyLtB round32 g (y, z0) (z0, z1) = true := by
      refine key_step hI hch.2.1 hch.1 ?_
      intro e
      have := List.nodup_cons.mp hnd
      exact this.1 (by rw [e]; simp)
    cases pre with
    | nil =>
      simp only [List.nil_append, List.cons.injEq] at he
      obtain ⟨e1, e2, _⟩ := he
      subst e1; subst e2
      exact hstep
    | cons p ps =>
      simp only [List.cons_append, List.cons.injEq] at he
      have := ih z0 y hch.2 (List.nodup_cons.mp hnd).2 ps c d post he.2
      exact keyLtB_trans this hstep

/-- **the chain never visits a node twice**: the nearest neighbour of the top is not deeper in the chain -/
theorem nn_not_in_chain {round32 : ℚ → ℚ} {g : AggGraph ℚ} (hI : NbInv g.nb g.next) {node nn : Nat}
    {rest : List Nat} (hch : NNChain round32 g (node :: rest)) (hnd : (node :: rest).Nodup)
    (hnn : IsNN round32 g node nn) (hlast : ∀ last rest', rest = last :: rest' → nn ≠ last) :
    nn ∉ node :: rest := by
  intro hmem
  rcases List.mem_cons.mp hmem with e | hm
  · exact hnn.ne e
  · cases rest with
    | nil => cases hm
    | cons last rest' =>
      rcases List.mem_cons.mp hm with e | hm'
      · exact hlast last rest' rfl e
      · -- nn is deeper: … nn, d, …, last, node
        obtain ⟨p1, p2, hsplit⟩ := List.append_of_mem hm'
        obtain ⟨pre, d, hpd⟩ : ∃ pre d, last :: p1 = pre ++ [d] := by
          rcases List.eq_nil_or_concat (last :: p1) with h | ⟨pre, d, h⟩
          · cases h
          · exact ⟨pre, d, by rw [h, List.concat_eq_append]⟩
        have hd : last :: rest' = pre ++ d :: nn :: p2 := by
          rw [hsplit, ← List.cons_append, hpd]; simp
        -- the pair (nn, d) of the chain is below the pair on top
        have hkey1 := key_below_top hI rest' node last hch hnd pre nn d p2 hd
        have hkey2 : keyLtB round32 g (last, node) (node, nn) = true :=
          key_step hI hch.1 hnn (hlast last rest' rfl)
        have hkey := keyLtB_trans hkey1 hkey2
        -- (nn, d) is a pair of nearest neighbours
        have hpair : IsNN round32 g nn d := by
          have hrest := nnChain_tail hch
          rw [hd] at hrest
          clear hd hpd hkey1
          induction pre with
          | nil => exact hrest.1
          | cons q qs ihq => exact ihq (nnChain_tail hrest)
        -- node is a neighbour of nn, not better than d
        have hback : K g.nb nn node = true := by rw [hI.sym]; exact hnn.adj
        have hsymm : similarity round32 g nn node = similarity round32 g node nn :=
          similarity_symm round32 g hI.wsym nn node
        have hle := hpair.max node hback (Ne.symm hnn.ne)
        unfold keyLtB at hkey
        simp only [Bool.or_eq_true, Bool.and_eq_true, decide_eq_true_eq] at hkey
        rcases hkey with h1 | ⟨h1, h2⟩
        · rw [hsymm, h1] at hle; cases hle
        · have he := simEq_iff.mp h1
          have := hpair.min node hback (Ne.symm hnn.ne) (by rw [hsymm, he])
          omega


/-! ### a merge keeps the nearest neighbours of the other nodes (reducibility) -/

theorem similarity_some (round32 : ℚ → ℚ) (g : AggGraph ℚ) (x c : Nat)
    (hd : 0 < wOf g.outW x * wOf g.inW c + wOf g.outW c * wOf g.inW x) :
    similarity round32 g x c =
      some (round32 (2 * getEntry g.nb x c / (wOf g.outW x * wOf g.inW c + wOf g.outW c * wOf g.inW x))) := by
  unfold similarity
  simp only [hd, if_true]

theorem simGt_some {x y : ℚ} : simGt (some x) (some y) = false ↔ x ≤ y := by
  simp [simGt]

/-- nodes known to the graph -/
theorem K_lt {nb : Dict (Dict ℚ)} {next : Nat} (hI : NbInv nb next) {x y : Nat} (h : K nb x y = true) :
    x < next ∧ y < next := by
  constructor
  · by_contra hcon
    have := hI.fresh y x (by omega)
    rw [hI.sym] at this
    rw [h] at this; cases this
  · by_contra hcon
    have := hI.fresh x y (by omega)
    rw [h] at this; cases this

theorem similarity_merge_other (round32 : ℚ → ℚ) {g : AggGraph ℚ} (hI : NbInv g.nb g.next) {a b c y : Nat}
    (hab : a ≠ b) (ha : a < g.next) (hb : b < g.next) (hca : c ≠ a) (hcb : c ≠ b) (hcz : c ≠ g.next)
    (hya : y ≠ a) (hyb : y ≠ b) (hyz : y ≠ g.next) :
    similarity round32 (g.merge a b) c y = similarity round32 g c y := by
  have h4 : g.next ≠ a := by omega
  have h5 : g.next ≠ b := by omega
  obtain ⟨_, hW, _⟩ := mergeNb_spec g.nb hab h4 h5 hI.rows (fun x => hI.fresh x g.next (Nat.le_refl _)) hI.sym
  have eK : getEntry (g.merge a b).nb c y = getEntry g.nb c y := by
    show getEntry (mergeNb g.nb a b g.next) c y = _
    rw [hW]; simp [hca, hcb, hya, hyb, hcz, hyz]
  have e1 : wOf (g.merge a b).outW c = wOf g.outW c := wOf_merge_other _ _ _ _ _ hca hcb hcz
  have e2 : wOf (g.merge a b).inW c = wOf g.inW c := wOf_merge_other _ _ _ _ _ hca hcb hcz
  have e3 : wOf (g.merge a b).outW y = wOf g.outW y := wOf_merge_other _ _ _ _ _ hya hyb hyz
  have e4 : wOf (g.merge a b).inW y = wOf g.inW y := wOf_merge_other _ _ _ _ _ hya hyb hyz
  unfold similarity
  simp only [eK, e1, e2, e3, e4]

theorem isNN_merge {round32 : ℚ → ℚ} (hr : Monotone round32) {g : AggGraph ℚ} (hI : NbInv g.nb g.next)
    {a b c d : Nat} (hab : a ≠ b) (ha : a < g.next) (hb : b < g.next) (hca : c ≠ a) (hcb : c ≠ b)
    (hda : d ≠ a) (hdb : d ≠ b) (hcd : IsNN round32 g c d)
    (hpa : 0 < wOf g.outW a ∧ 0 < wOf g.inW a) (hpb : 0 < wOf g.outW b ∧ 0 < wOf g.inW b)
    (hpc : 0 < wOf g.outW c ∧ 0 < wOf g.inW c) (hpd : 0 < wOf g.outW d ∧ 0 < wOf g.inW d) :
    IsNN round32 (g.merge a b) c d := by
  have h4 : g.next ≠ a := by omega
  have h5 : g.next ≠ b := by omega
  obtain ⟨hcl, hdl⟩ := K_lt hI hcd.adj
  have hcz : c ≠ g.next := by omega
  have hdz : d ≠ g.next := by omega
  obtain ⟨_, hW, hK⟩ := mergeNb_spec g.nb hab h4 h5 hI.rows (fun x => hI.fresh x g.next (Nat.le_refl _)) hI.sym
  have hKc : ∀ y, K (g.merge a b).nb c y =
      if y = a ∨ y = b then false else if y = g.next then (K g.nb a c || K g.nb b c) else K g.nb c y := by
    intro y
    show K (mergeNb g.nb a b g.next) c y = _
    rw [hK]
    by_cases h1 : y = a ∨ y = b
    · have : c = a ∨ c = b ∨ y = a ∨ y = b := Or.inr (Or.inr h1)
      simp [this, h1]
    · have : ¬ (c = a ∨ c = b ∨ y = a ∨ y = b) := by
        rintro (h | h | h | h)
        · exact hca h
        · exact hcb h
        · exact h1 (Or.inl h)
        · exact h1 (Or.inr h)
      rw [if_neg this, if_neg hcz, if_neg h1]
  have hsd' : similarity round32 (g.merge a b) c d = similarity round32 g c d :=
    similarity_merge_other round32 hI hab ha hb hca hcb hcz hda hdb hdz
  -- similarity to the new node: a mediant, rounded
  have hd1 : 0 < wOf g.outW c * wOf g.inW a + wOf g.outW a * wOf g.inW c := by
    have := mul_pos hpc.1 hpa.2; have := mul_pos hpa.1 hpc.2; linarith
  have hd2 : 0 < wOf g.outW c * wOf g.inW b + wOf g.outW b * wOf g.inW c := by
    have := mul_pos hpc.1 hpb.2; have := mul_pos hpb.1 hpc.2; linarith
  have hdd : 0 < wOf g.outW c * wOf g.inW d + wOf g.outW d * wOf g.inW c := by
    have := mul_pos hpc.1 hpd.2; have := mul_pos hpd.1 hpc.2; linarith
  have eO : wOf (g.merge a b).outW g.next = wOf g.outW a + wOf g.outW b := wOf_merge_new _ _ _ _
  have eI : wOf (g.merge a b).inW g.next = wOf g.inW a + wOf g.inW b := wOf_merge_new _ _ _ _
  have eOc : wOf (g.merge a b).outW c = wOf g.outW c := wOf_merge_other _ _ _ _ _ hca hcb hcz
  have eIc : wOf (g.merge a b).inW c = wOf g.inW c := wOf_merge_other _ _ _ _ _ hca hcb hcz
  have eKz : getEntry (g.merge a b).nb c g.next = getEntry g.nb c a + getEntry g.nb c b := by
    show getEntry (mergeNb g.nb a b g.next) c g.next = _
    rw [hW]; simp [hca, hcb, hcz, h4, h5]
  have hsz : similarity round32 (g.merge a b) c g.next =
      some (round32 ((2 * getEntry g.nb c a + 2 * getEntry g.nb c b) /
        ((wOf g.outW c * wOf g.inW a + wOf g.outW a * wOf g.inW c) +
          (wOf g.outW c * wOf g.inW b + wOf g.outW b * wOf g.inW c)))) := by
    have hden : 0 < wOf (g.merge a b).outW c * wOf (g.merge a b).inW g.next +
        wOf (g.merge a b).outW g.next * wOf (g.merge a b).inW c := by
      rw [eO, eI, eOc, eIc]
      have := mul_pos hpc.1 hpa.2; have := mul_pos hpa.1 hpc.2
      have := mul_pos hpc.1 hpb.2; have := mul_pos hpb.1 hpc.2
      nlinarith
    rw [similarity_some round32 _ _ _ hden, eO, eI, eOc, eIc, eKz]
    congr 2
    ring
  have hsa := similarity_some round32 g c a hd1
  have hsb := similarity_some round32 g c b hd2
  have hsdd := similarity_some round32 g c d hdd
  have hnn := hI.nonneg
  -- each part is at most the similarity to `d`
  have hpart : ∀ (e : Nat) (den : ℚ), 0 < den → e ≠ c →
      similarity round32 g c e = some (round32 (2 * getEntry g.nb c e / den)) →
      round32 (2 * getEntry g.nb c e / den) ≤ round32 (2 * getEntry g.nb c d /
        (wOf g.outW c * wOf g.inW d + wOf g.outW d * wOf g.inW c)) := by
    intro e den hden hec hse
    by_cases hKe : K g.nb c e = true
    · have := hcd.max e hKe hec
      rw [hse, hsdd] at this
      exact simGt_some.mp this
    · have h0 : getEntry g.nb c e = 0 := getEntry_of_not_K (by simpa using hKe)
      rw [h0]
      apply hr
      simp only [mul_zero, zero_div]
      exact div_nonneg (mul_nonneg (by norm_num) (hnn c d)) (le_of_lt hdd)
  have hmax_z : simGt (similarity round32 (g.merge a b) c g.next) (similarity round32 g c d) = false := by
    rw [hsz, hsdd, simGt_some]
    have hmed := mediant_le_max (p1 := 2 * getEntry g.nb c a) (p2 := 2 * getEntry g.nb c b) hd1 hd2
    have h1 := hr hmed
    rw [hr.map_max] at h1
    have ha' := hpart a _ hd1 (Ne.symm hca) hsa
    have hb' := hpart b _ hd2 (Ne.symm hcb) hsb
    exact le_trans h1 (max_le ha' hb')
  refine ⟨?_, hcd.ne, ?_, ?_⟩
  · rw [hKc]; simp [hda, hdb, hdz, hcd.adj]
  · intro y hy hyc
    rw [hKc] at hy
    by_cases h1 : y = a ∨ y = b
    · simp [h1] at hy
    · simp only [h1, if_false] at hy
      have hya : y ≠ a := fun e => h1 (Or.inl e)
      have hyb : y ≠ b := fun e => h1 (Or.inr e)
      rw [hsd']
      by_cases hyz : y = g.next
      · rw [hyz]; exact hmax_z
      · simp only [hyz, if_false] at hy
        rw [similarity_merge_other round32 hI hab ha hb hca hcb hcz hya hyb hyz]
        exact hcd.max y hy hyc
  · intro y hy hyc he
    rw [hKc] at hy
    by_cases h1 : y = a ∨ y = b
    · simp [h1] at hy
    · simp only [h1, if_false] at hy
      have hya : y ≠ a := fun e => h1 (Or.inl e)
      have hyb : y ≠ b := fun e => h1 (Or.inr e)
      by_cases hyz : y = g.next
      · omega
      · simp only [hyz, if_false] at hy
        rw [hsd', similarity_merge_other round32 hI hab ha hb hca hcb hcz hya hyb hyz] at he
        exact hcd.min y hy hyc he


/-! ### the invariant of the chain loop -/

structure RetInv (round32 : ℚ → ℚ) (n : Nat) (st : PState ℚ) : Prop where
  tinv : TInv n st
  active_row : ∀ x ∈ Dict.keys st.g.sizes, ∃ y, K st.g.nb x y = true
  nbr_active : ∀ x y, x ∈ Dict.keys st.g.sizes → K st.g.nb x y = true → y ≠ x → y ∈ Dict.keys st.g.sizes
  wpos : ∀ x, x ∈ Dict.keys st.g.sizes → (∃ y, y ≠ x ∧ K st.g.nb x y = true) →
    0 < wOf st.g.outW x ∧ 0 < wOf st.g.inW x
  chain_active : ∀ x ∈ st.chain, x ∈ Dict.keys st.g.sizes
  chain_nodup : st.chain.Nodup
  nn : NNChain round32 st.g st.chain

theorem K_get {nb : Dict (Dict ℚ)} {x y : Nat} (h : K nb x y = true) : ∃ rowX, nb.get? x = some rowX := by
  cases hx : nb.get? x with
  | some r => exact ⟨r, rfl⟩
  | none =>
    exfalso
    unfold K row at h
    rw [hx] at h
    simp [Dict.contains, Dict.get?] at h

theorem isNN_congr {round32 : ℚ → ℚ} {g g' : AggGraph ℚ} (h1 : g'.nb = g.nb) (h2 : g'.outW = g.outW)
    (h3 : g'.inW = g.inW) {x d : Nat} (h : IsNN round32 g x d) : IsNN round32 g' x d := by
  have hs : ∀ u v, similarity round32 g' u v = similarity round32 g u v := by
    intro u v; unfold similarity; rw [h1, h2, h3]
  refine ⟨by rw [h1]; exact h.adj, h.ne, ?_, ?_⟩
  · intro y hy hne; rw [hs, hs]; rw [h1] at hy; exact h.max y hy hne
  · intro y hy hne he; rw [hs, hs] at he; rw [h1] at hy; exact h.min y hy hne he

theorem nnChain_congr {round32 : ℚ → ℚ} {g g' : AggGraph ℚ} (h1 : g'.nb = g.nb) (h2 : g'.outW = g.outW)
    (h3 : g'.inW = g.inW) : ∀ l, NNChain round32 g l → NNChain round32 g' l := by
  intro l
  induction l with
  | nil => intro _; trivial
  | cons a as ih =>
    intro h
    cases as with
    | nil => trivial
    | cons b bs => exact ⟨isNN_congr h1 h2 h3 h.1, ih h.2⟩

theorem active_lt {n : Nat} {g : AggGraph ℚ} {rows : List (Row (HInf ℚ))} {comps : List (Nat × Nat)} {L : Dict Nat}
    (hP : PInv n g rows comps L) {x : Nat} (hx : x ∈ Dict.keys g.sizes) : x < g.next := by
  obtain ⟨s, hs⟩ := (Hier.mem_keys_iff _ _).mp hx
  have := hP.linv.bound _ (Dict.get?_some_key_mem (hP.sizes _ _ hs))
  rw [hP.next]; exact this

theorem mem_keys_merge_sizes {g : AggGraph ℚ} {a b s1 s2 : Nat} (h1 : g.sizes.get? a = some s1)
    (h2 : g.sizes.get? b = some s2) (x : Nat) :
    x ∈ Dict.keys (g.merge a b).sizes ↔ x = g.next ∨ (x ∈ Dict.keys g.sizes ∧ x ≠ a ∧ x ≠ b) := by
  rw [(merge_sizes g a b h1 h2).1, Hier.mem_keys_set, Dict.mem_keys_erase, Dict.mem_keys_erase]
  constructor
  · rintro (h | ⟨⟨h, h'⟩, h''⟩)
    · exact Or.inl h
    · exact Or.inr ⟨h, h', h''⟩
  · rintro (h | ⟨h, h', h''⟩)
    · exact Or.inl h
    · exact Or.inr ⟨⟨h, h'⟩, h''⟩

theorem nnChain_merge {round32 : ℚ → ℚ} (hr : Monotone round32) {g : AggGraph ℚ} (hI : NbInv g.nb g.next)
    {a b : Nat} (hab : a ≠ b) (ha : a < g.next) (hb : b < g.next)
    (hpa : 0 < wOf g.outW a ∧ 0 < wOf g.inW a) (hpb : 0 < wOf g.outW b ∧ 0 < wOf g.inW b)
    :
    ∀ l, NNChain round32 g l → (∀ x ∈ l, x ≠ a ∧ x ≠ b) →
      (∀ x ∈ l, (∃ y, y ≠ x ∧ K g.nb x y = true) → 0 < wOf g.outW x ∧ 0 < wOf g.inW x) →
      NNChain round32 (g.merge a b) l := by
  intro l
  induction l with
  | nil => intro _ _ _; trivial
  | cons z1 as ih =>
    intro h hl hw
    cases as with
    | nil => trivial
    | cons z0 bs =>
      have h1 := hl z1 List.mem_cons_self
      have h0 := hl z0 (List.mem_cons_of_mem _ List.mem_cons_self)
      have p0 := hw z0 (List.mem_cons_of_mem _ List.mem_cons_self) ⟨z1, h.1.ne, h.1.adj⟩
      have p1 := hw z1 List.mem_cons_self ⟨z0, Ne.symm h.1.ne, by rw [hI.sym]; exact h.1.adj⟩
      exact ⟨isNN_merge hr hI hab ha hb h0.1 h0.2 h1.1 h1.2 h.1 hpa hpb p0 p1,
        ih h.2 (fun x hx => hl x (List.mem_cons_of_mem _ hx)) (fun x hx => hw x (List.mem_cons_of_mem _ hx))⟩


/-- **one iteration does not raise** and keeps the invariant -/
theorem chainStep_ret {n : Nat} {round32 : ℚ → ℚ} (hr : Monotone round32) (n0 : Nat) {st : PState ℚ}
    (h : RetInv round32 n st) :
    chainStep round32 n0 st = .ok none ∨ ∃ st1, chainStep round32 n0 st = .ok (some st1) ∧ RetInv round32 n st1 := by
  obtain ⟨L, hP⟩ := h.tinv.pinv
  have hI := h.tinv.nbi
  obtain ⟨g, chain, rows, comps⟩ := st
  simp only at hP hI
  have hrow := h.active_row
  have hnbr := h.nbr_active
  have hwp := h.wpos
  have hact := h.chain_active
  have hnd := h.chain_nodup
  have hnn := h.nn
  simp only at hrow hnbr hwp hact hnd hnn
  unfold chainStep
  cases chain with
  | nil =>
    simp only
    cases hsz : g.sizes with
    | nil => exact Or.inl rfl
    | cons p tl =>
      obtain ⟨node, sz⟩ := p
      right
      refine ⟨_, rfl, ⟨⟨⟨L, hP⟩, hI⟩, hrow, hnbr, hwp, ?_, by simp, trivial⟩⟩
      intro x hx
      simp only [List.mem_cons, List.not_mem_nil, or_false] at hx
      rw [hx, hsz]; simp [Dict.keys]
  | cons node rest =>
    simp only
    have hnode := hact node List.mem_cons_self
    obtain ⟨y0, hy0⟩ := hrow node hnode
    obtain ⟨rowNode, hrowN⟩ := K_get hy0
    obtain ⟨szN, hszN⟩ := (Hier.mem_keys_iff _ _).mp hnode
    rw [hrowN]
    simp only
    cases hfl : rowNode.keys.filter (· != node) with
    | nil =>
      -- a connected component is finished
      simp only [hszN]
      right
      refine ⟨_, rfl, ⟨⟨⟨L, pinv_comp hP hszN⟩, hI⟩, ?_, ?_, ?_, ?_, (List.nodup_cons.mp hnd).2, ?_⟩⟩
      · intro x hx; exact hrow x (Dict.mem_keys_erase.mp hx).1
      · intro x y hx hK hne
        have hx' := (Dict.mem_keys_erase.mp hx).1
        refine Dict.mem_keys_erase.mpr ⟨hnbr x y hx' hK hne, ?_⟩
        intro e
        subst e
        -- `x` would be a neighbour of the finished node
        have hK' : K g.nb y x = true := by rw [hI.sym]; exact hK
        have : x ∈ rowNode.keys.filter (· != y) := (mem_nbrs_iff hrowN).mpr ⟨hK', Ne.symm hne⟩
        rw [hfl] at this; cases this
      · intro x hx hex; exact hwp x (Dict.mem_keys_erase.mp hx).1 hex
      · intro x hx
        refine Dict.mem_keys_erase.mpr ⟨hact x (List.mem_cons_of_mem _ hx), ?_⟩
        intro e; subst e
        exact (List.nodup_cons.mp hnd).1 hx
      · exact nnChain_congr (g := g) (g' := { g with sizes := g.sizes.erase node }) rfl rfl rfl rest (nnChain_tail hnn)
    | cons k ks =>
      simp only
      have hisnn := nearest_isNN round32 hrowN hfl
      have hnnact := hnbr node _ hnode hisnn.adj hisnn.ne
      cases rest with
      | nil =>
        simp only
        right
        refine ⟨_, rfl, ⟨⟨⟨L, hP⟩, hI⟩, hrow, hnbr, hwp, ?_, ?_, ⟨hisnn, trivial⟩⟩⟩
        · intro x hx
          simp only [List.mem_cons, List.not_mem_nil, or_false] at hx
          rcases hx with e | e
          · rw [e]; exact hnnact
          · rw [e]; exact hnode
        · simp only [List.nodup_cons, List.mem_cons, List.not_mem_nil, or_false, not_false_eq_true, List.nodup_nil,
            and_true]
          exact hisnn.ne
      | cons last rest' =>
        simp only
        by_cases hlast : (last == (nearest round32 g node k ks).1) = true
        · -- reciprocal nearest neighbours: merge
          have hle : last = (nearest round32 g node k ks).1 := by simpa using hlast
          simp only [hlast, if_true]
          obtain ⟨szNN, hszNN⟩ := (Hier.mem_keys_iff _ _).mp hnnact
          simp only [hszN, hszNN]
          right
          refine ⟨_, rfl, ?_⟩
          -- notation
          generalize hnneq : (nearest round32 g node k ks).1 = nn at *
          generalize (nearest round32 g node k ks).2 = ms at *
          have hab : node ≠ nn := Ne.symm hisnn.ne
          have ha : node < g.next := active_lt hP hnode
          have hb : nn < g.next := active_lt hP hnnact
          have h4 : g.next ≠ node := by omega
          have h5 : g.next ≠ nn := by omega
          obtain ⟨L', hP'⟩ := pinv_merge hP hszN hszNN hab (clampHeight n0 rows (invSim ms) node nn)
          have hnb' : NbInv (g.merge node nn).nb (g.merge node nn).next := nbInv_merge hI hab ha hb
          obtain ⟨_, hW, hK⟩ := mergeNb_spec g.nb hab h4 h5 hI.rows (fun x => hI.fresh x g.next (Nat.le_refl _)) hI.sym
          have hKm : ∀ x y, K (g.merge node nn).nb x y =
              if x = node ∨ x = nn ∨ y = node ∨ y = nn then false
              else if x = g.next then (decide (y = g.next) || K g.nb node y || K g.nb nn y)
              else if y = g.next then (K g.nb node x || K g.nb nn x)
              else K g.nb x y := hK
          have hkeys := mem_keys_merge_sizes hszN hszNN
          have hpa := hwp node hnode ⟨nn, hisnn.ne, hisnn.adj⟩
          have hpb := hwp nn hnnact ⟨node, hab, by rw [hI.sym]; exact hisnn.adj⟩
          have hrest'nd : ∀ x ∈ rest', x ≠ node ∧ x ≠ nn := by
            intro x hx
            have h1 := List.nodup_cons.mp hnd
            have h2 := List.nodup_cons.mp h1.2
            constructor
            · intro e; exact h1.1 (by rw [← e]; exact List.mem_cons_of_mem _ hx)
            · intro e; exact h2.1 (by rw [hle, ← e]; exact hx)
          refine ⟨⟨⟨L', hP'⟩, hnb'⟩, ?_, ?_, ?_, ?_, ?_, ?_⟩
          · -- every active node has a row
            intro x hx
            rcases (hkeys x).mp hx with e | ⟨hxo, hxa, hxb⟩
            · exact ⟨g.next, by rw [e, hKm]; simp [h4, h5]⟩
            · obtain ⟨y, hy⟩ := hrow x hxo
              have hxl := active_lt hP hxo
              have hxz : x ≠ g.next := by omega
              by_cases hyab : y = node ∨ y = nn
              · refine ⟨g.next, ?_⟩
                rw [hKm]
                have hno : ¬ (x = node ∨ x = nn ∨ g.next = node ∨ g.next = nn) := by
                  rintro (e | e | e | e)
                  · exact hxa e
                  · exact hxb e
                  · exact h4 e
                  · exact h5 e
                rw [if_neg hno, if_neg hxz, if_pos rfl]
                rcases hyab with e | e
                · rw [e] at hy; rw [hI.sym] at hy; simp [hy]
                · rw [e] at hy; rw [hI.sym] at hy; simp [hy]
              · refine ⟨y, ?_⟩
                have hyl := (K_lt hI hy).2
                have hyz : y ≠ g.next := by omega
                rw [hKm]
                have hno : ¬ (x = node ∨ x = nn ∨ y = node ∨ y = nn) := by
                  rintro (e | e | e | e)
                  · exact hxa e
                  · exact hxb e
                  · exact hyab (Or.inl e)
                  · exact hyab (Or.inr e)
                rw [if_neg hno, if_neg hxz, if_neg hyz]; exact hy
          · -- neighbours of active nodes are active
            intro x y hx hKxy hne
            rw [hKm] at hKxy
            by_cases hno : x = node ∨ x = nn ∨ y = node ∨ y = nn
            · rw [if_pos hno] at hKxy; cases hKxy
            · rw [if_neg hno] at hKxy
              have hya : y ≠ node := fun e => hno (Or.inr (Or.inr (Or.inl e)))
              have hyb : y ≠ nn := fun e => hno (Or.inr (Or.inr (Or.inr e)))
              by_cases hyz : y = g.next
              · exact (hkeys y).mpr (Or.inl hyz)
              · refine (hkeys y).mpr (Or.inr ⟨?_, hya, hyb⟩)
                by_cases hxz : x = g.next
                · rw [if_pos hxz] at hKxy
                  simp only [hyz, decide_false, Bool.false_or, Bool.or_eq_true] at hKxy
                  rcases hKxy with h1 | h1
                  · exact hnbr node y hnode h1 hya
                  · exact hnbr nn y hnnact h1 hyb
                · rw [if_neg hxz, if_neg hyz] at hKxy
                  rcases (hkeys x).mp hx with e | ⟨hxo, _, _⟩
                  · exact absurd e hxz
                  · exact hnbr x y hxo hKxy hne
          · -- weights of nodes with a neighbour are positive
            intro x hx hex
            rcases (hkeys x).mp hx with e | ⟨hxo, hxa, hxb⟩
            · rw [e]
              have eO : wOf (g.merge node nn).outW g.next = wOf g.outW node + wOf g.outW nn := wOf_merge_new _ _ _ _
              have eI : wOf (g.merge node nn).inW g.next = wOf g.inW node + wOf g.inW nn := wOf_merge_new _ _ _ _
              rw [eO, eI]
              exact ⟨by linarith [hpa.1, hpb.1], by linarith [hpa.2, hpb.2]⟩
            · have hxl := active_lt hP hxo
              have hxz : x ≠ g.next := by omega
              have e1 : wOf (g.merge node nn).outW x = wOf g.outW x := wOf_merge_other _ _ _ _ _ hxa hxb hxz
              have e2 : wOf (g.merge node nn).inW x = wOf g.inW x := wOf_merge_other _ _ _ _ _ hxa hxb hxz
              rw [e1, e2]
              obtain ⟨y, hyx, hKxy⟩ := hex
              rw [hKm] at hKxy
              by_cases hno : x = node ∨ x = nn ∨ y = node ∨ y = nn
              · rw [if_pos hno] at hKxy; cases hKxy
              · rw [if_neg hno, if_neg hxz] at hKxy
                by_cases hyz : y = g.next
                · rw [if_pos hyz] at hKxy
                  simp only [Bool.or_eq_true] at hKxy
                  rcases hKxy with h1 | h1
                  · exact hwp x hxo ⟨node, Ne.symm hxa, by rw [hI.sym]; exact h1⟩
                  · exact hwp x hxo ⟨nn, Ne.symm hxb, by rw [hI.sym]; exact h1⟩
                · rw [if_neg hyz] at hKxy
                  exact hwp x hxo ⟨y, hyx, hKxy⟩
          · intro x hx
            have hxo := hact x (List.mem_cons_of_mem _ (List.mem_cons_of_mem _ hx))
            obtain ⟨h1, h2⟩ := hrest'nd x hx
            exact (hkeys x).mpr (Or.inr ⟨hxo, h1, h2⟩)
          · exact (List.nodup_cons.mp (List.nodup_cons.mp hnd).2).2
          · -- the rest of the chain is still a chain of nearest neighbours
            refine nnChain_merge hr hI hab ha hb hpa hpb rest' (nnChain_tail (nnChain_tail hnn)) hrest'nd ?_
            intro x hx hex
            exact hwp x (hact x (List.mem_cons_of_mem _ (List.mem_cons_of_mem _ hx))) hex
        · -- the chain grows
          have hne : last ≠ (nearest round32 g node k ks).1 := by simpa using hlast
          simp only [hlast, if_false]
          right
          refine ⟨_, rfl, ⟨⟨⟨L, hP⟩, hI⟩, hrow, hnbr, hwp, ?_, ?_, ⟨hisnn, hnn⟩⟩⟩
          · intro x hx
            rcases List.mem_cons.mp hx with e | e
            · rw [e]; exact hnnact
            · exact hact x e
          · refine List.nodup_cons.mpr ⟨?_, hnd⟩
            exact nn_not_in_chain hI hnn hnd hisnn (fun l r' e => by
              simp only [List.cons.injEq] at e
              rw [← e.1]; exact Ne.symm hne)


/-- the chain loop, with enough fuel, ends without raising, all clusters consumed -/
theorem chainLoop_ret {n : Nat} {round32 : ℚ → ℚ} (hr : Monotone round32) (n0 : Nat) :
    ∀ (fuel : Nat) (st : PState ℚ), RetInv round32 n st → mu round32 (2 * n) st < fuel →
      ∃ st', chainLoop round32 n0 fuel st = .ok (some st') ∧ RetInv round32 n st' ∧ st'.g.sizes = [] := by
  intro fuel
  induction fuel with
  | zero => intro st _ h; omega
  | succ fuel ih =>
    intro st hR hmu
    unfold chainLoop
    rcases chainStep_ret hr n0 hR with hdone | ⟨st1, hstep, hR1⟩
    · rw [hdone]
      exact ⟨st, rfl, hR, chainStep_done round32 n0 hdone⟩
    · rw [hstep]
      simp only
      obtain ⟨_, hlt⟩ := chainStep_mu round32 n0 hR.tinv hstep
      exact ih st1 hR1 (by omega)

theorem liveAfter_nonempty {n : Nat} : ∀ (rs : List (Row (HInf ℚ))) (t : Nat) (live L : Dict Nat),
    LInv n t live → liveAfter n t rs live = some L → 0 < live.length → 0 < L.length := by
  intro rs
  induction rs with
  | nil =>
    intro t live L _ h hpos
    simp only [liveAfter, Option.some.injEq] at h
    subst h; exact hpos
  | cons r rs ih =>
    intro t live L hinv h _
    simp only [liveAfter] at h
    cases hs : liveStep n t r live with
    | none => simp [hs] at h
    | some l =>
      simp only [hs, Option.bind_some] at h
      obtain ⟨_, _, _, _, _, _, hl, _, hget⟩ := liveStep_spec hinv hs
      have hnew : l.get? (n + t) = some r.s := by rw [hget]; simp
      exact ih (t + 1) l L hl h (List.length_pos_of_mem (Dict.get?_some_mem hnew))

end SkNet.Paris
