/-
Termination of the Louvain kernel in exact arithmetic for every tolerance `≥ 0`: the objective takes finitely many
values over the label vectors and strictly increases along every pass that does not stop the loop.
-/
import Mathlib.Data.Fintype.Pi
import Mathlib.Data.Fintype.BigOperators
import SkNet.Lemmas.ModularityTerm

namespace SkNet.Modularity
open Finset

/-- the label function of a vector of `n` labels below `K`, defaulting to `0` outside -/
def extendLabels {n K : Nat} (f : Fin n → Fin K) (u : Nat) : Nat :=
  if h : u < n then (f ⟨u, h⟩).val else 0

/-- the finitely many values `Q` can take on label vectors of length `n` with labels below `K` -/
noncomputable def qValues (g : Graph Rat) (res : Rat) (K : Nat) : Finset Rat :=
  (Finset.univ : Finset (Fin g.n → Fin K)).image fun f =>
    Q g.n (adj g) g.outW g.inW res (extendLabels f)

theorem QG_mem_qValues (g : Graph Rat) (res : Rat) (K : Nat) (st : St Rat) (hinv : CoreInv g K st) :
    QG g res st.labels ∈ qValues g res K := by
  unfold qValues
  rw [Finset.mem_image]
  refine ⟨fun u => ⟨labOf st.labels u.val, hinv.bound u.val u.isLt⟩, Finset.mem_univ _, ?_⟩
  unfold QG Q
  refine sumTo_congr fun u hu => sumTo_congr fun v hv => ?_
  simp [extendLabels, hu, hv]

/-- how many values of `Q` lie strictly above the current one -/
noncomputable def roomAbove (g : Graph Rat) (res : Rat) (K : Nat) (q : Rat) : Nat :=
  ((qValues g res K).filter fun x => q < x).card

theorem roomAbove_lt (g : Graph Rat) (res : Rat) (K : Nat) (q q' : Rat) (hq' : q' ∈ qValues g res K) (h : q < q') :
    roomAbove g res K q' < roomAbove g res K q := by
  unfold roomAbove
  apply Finset.card_lt_card
  refine ⟨?_, ?_⟩
  · intro x hx
    rw [Finset.mem_filter] at hx ⊢
    exact ⟨hx.1, lt_trans h hx.2⟩
  · intro hsub
    have : q' ∈ (qValues g res K).filter fun x => q' < x := hsub (Finset.mem_filter.mpr ⟨hq', h⟩)
    exact lt_irrefl _ (Finset.mem_filter.mp this).2

theorem coreLoop_terminates_zero (g : Graph Rat) (hg : GraphOK g) (res tol : Rat) (htol : 0 ≤ tol) (K : Nat) :
    ∀ (fuel : Nat) (st : St Rat) (inc : Rat), CoreInv g K st →
      roomAbove g res K (QG g res st.labels) < fuel → (coreLoop g res tol fuel st inc).isSome = true := by
  intro fuel
  induction fuel with
  | zero => intro st inc _ h; exact absurd h (Nat.not_lt_zero _)
  | succ f ih =>
    intro st inc hinv h
    obtain ⟨p1, p2, -, -, -⟩ := corePass_spec g hg res K st hinv
    simp only [coreLoop]
    split
    · rfl
    · rename_i hstop
      have hgt : tol < (corePass g res st).2 := by
        simp only [le_rat, decide_eq_true_eq, not_le] at hstop
        exact hstop
      refine ih _ _ p1 ?_
      have hlt : QG g res st.labels < QG g res (corePass g res st).1.labels := by linarith
      have := roomAbove_lt g res K _ _ (QG_mem_qValues g res K _ p1) hlt
      omega

/-- **termination of `optimize_core`** in exact arithmetic, for every tolerance `≥ 0` -/
theorem optimizeCore_terminates_zero (g : Graph Rat) (hg : GraphOK g) (res tol : Rat) (htol : 0 ≤ tol) (K : Nat)
    (st : St Rat) (hinv : CoreInv g K st) :
    ∃ fuel : Nat, ∀ fuel', fuel ≤ fuel' → (optimizeCore g res tol fuel' st).isSome = true := by
  refine ⟨roomAbove g res K (QG g res st.labels) + 1, fun fuel' hle => ?_⟩
  unfold optimizeCore
  rw [Option.isSome_map]
  exact coreLoop_terminates_zero g hg res tol htol K fuel' st _ hinv (by omega)

end SkNet.Modularity
