/-
Calculus of the activations and losses of sknetwork/gnn over `ℝ`: the Jacobian entries of the specification are the
partial derivatives (`HasDerivAt`), the closed forms of the loss gradients are the derivatives of the losses.
-/
import SkNet.Lemmas.GnnForward

namespace SkNet.Gnn
open SkNet Mat Finset

/-! ### the soft-max of a row with one coordinate moving -/

/-- `Σ_{j<c, j≠k} exp (s j)` -/
noncomputable def restExp (c : Nat) (s : Nat → ℝ) (k : Nat) : ℝ := ∑ x ∈ (range c).erase k, Real.exp (s x)

theorem restExp_nonneg (c : Nat) (s : Nat → ℝ) (k : Nat) : 0 ≤ restExp c s k :=
  Finset.sum_nonneg fun _ _ => (Real.exp_pos _).le

theorem sum_exp_update (c : Nat) (s : Nat → ℝ) (k : Nat) (hk : k < c) (t : ℝ) :
    ∑ j ∈ range c, Real.exp (Function.update s k t j) = Real.exp t + restExp c s k := by
  rw [← Finset.add_sum_erase (range c) _ (mem_range.mpr hk)]
  congr 1
  · rw [Function.update_self]
  · unfold restExp
    apply Finset.sum_congr rfl
    intro x hx
    rw [Function.update_of_ne (Finset.ne_of_mem_erase hx)]

theorem sum_exp_split (c : Nat) (s : Nat → ℝ) (k : Nat) (hk : k < c) :
    ∑ j ∈ range c, Real.exp (s j) = Real.exp (s k) + restExp c s k := by
  have := sum_exp_update c s k hk (s k)
  rwa [Function.update_eq_self] at this

theorem softmaxFn_update (c : Nat) (s : Nat → ℝ) (k l : Nat) (hk : k < c) (t : ℝ) :
    Spec.softmaxFn c (Function.update s k t) l =
      (if l = k then Real.exp t else Real.exp (s l)) / (Real.exp t + restExp c s k) := by
  unfold Spec.softmaxFn
  rw [sumTo_eq]
  simp only [num_exp]
  rw [sum_exp_update c s k hk t]
  congr 1
  by_cases h : l = k
  · subst h; simp
  · simp [h]

theorem softmaxFn_eq (c : Nat) (s : Nat → ℝ) (k l : Nat) (hk : k < c) :
    Spec.softmaxFn c s l = Real.exp (s l) / (Real.exp (s k) + restExp c s k) := by
  unfold Spec.softmaxFn
  rw [sumTo_eq]
  simp only [num_exp]
  rw [sum_exp_split c s k hk]

theorem softmaxFn_pos (c : Nat) (s : Nat → ℝ) (l : Nat) (hl : l < c) : 0 < Spec.softmaxFn c s l := by
  rw [softmaxFn_eq c s l l hl]
  exact div_pos (Real.exp_pos _) (add_pos_of_pos_of_nonneg (Real.exp_pos _) (restExp_nonneg _ _ _))

/-- **soft-max Jacobian**: `∂ p_l / ∂ s_k = p_l (δ_lk − p_k)` -/
theorem softmax_hasDerivAt (c : Nat) (s : Nat → ℝ) (l k : Nat) (hk : k < c) :
    HasDerivAt (fun t => Spec.softmaxFn c (Function.update s k t) l)
      (Spec.softmaxFn c s l * ((if l = k then 1 else 0) - Spec.softmaxFn c s k)) (s k) := by
  have hfun : (fun t => Spec.softmaxFn c (Function.update s k t) l) =
      fun t => (if l = k then Real.exp t else Real.exp (s l)) / (Real.exp t + restExp c s k) := by
    funext t
    exact softmaxFn_update c s k l hk t
  rw [hfun, softmaxFn_eq c s k l hk, softmaxFn_eq c s k k hk]
  set R := restExp c s k with hR
  have hRnn : 0 ≤ R := restExp_nonneg c s k
  have hZ : Real.exp (s k) + R ≠ 0 := ne_of_gt (add_pos_of_pos_of_nonneg (Real.exp_pos _) hRnn)
  have hden : HasDerivAt (fun t => Real.exp t + R) (Real.exp (s k)) (s k) :=
    (Real.hasDerivAt_exp (s k)).add_const R
  by_cases h : l = k
  · subst h
    simp only [if_true]
    have hnum : HasDerivAt (fun t => Real.exp t) (Real.exp (s l)) (s l) := Real.hasDerivAt_exp (s l)
    refine (hnum.div hden hZ).congr_deriv ?_
    field_simp
  · simp only [if_neg h]
    have hnum : HasDerivAt (fun _ : ℝ => Real.exp (s l)) 0 (s k) := hasDerivAt_const _ _
    refine (hnum.div hden hZ).congr_deriv ?_
    simp only [zero_mul, zero_sub]
    field_simp

/-! ### Jacobians of the activations -/

theorem sigmoid_spec_eq (c : Nat) (s : Nat → ℝ) (k : Nat) :
    Spec.actFn .sigmoid c s k = Real.sigmoid (s k) := by
  simp only [Spec.actFn, num_exp, Real.sigmoid_def, one_div]

/-- **Jacobian of every activation**: `Spec.jac a c s l k` is `∂ out_l / ∂ s_k` (ReLU: away from the kink) -/
theorem jac_hasDerivAt (a : Act) (c : Nat) (s : Nat → ℝ) (l k : Nat) (hk : k < c)
    (hrelu : a = .relu → s k ≠ 0) :
    HasDerivAt (fun t => Spec.actFn a c (Function.update s k t) l) (Spec.jac a c s l k) (s k) := by
  cases a with
  | identity =>
    simp only [Spec.actFn, Spec.jac]
    by_cases h : l = k
    · subst h
      simp only [Function.update_self, if_true]
      exact hasDerivAt_id _
    · simp only [Function.update_of_ne h, if_neg h]
      exact hasDerivAt_const _ _
  | relu =>
    have hne := hrelu rfl
    simp only [Spec.actFn, Spec.jac, num_lt, decide_eq_true_eq]
    by_cases h : l = k
    · subst h
      simp only [Function.update_self, if_true]
      rcases lt_or_gt_of_ne hne with hneg | hpos
      · have hev : (fun t : ℝ => if 0 < t then t else 0) =ᶠ[nhds (s l)] fun _ => (0 : ℝ) := by
          filter_upwards [Iio_mem_nhds hneg] with t ht
          simp only [Set.mem_Iio] at ht
          simp [not_lt.mpr ht.le]
        rw [if_neg (not_lt.mpr hneg.le)]
        exact (hasDerivAt_const _ _).congr_of_eventuallyEq hev
      · have hev : (fun t : ℝ => if 0 < t then t else 0) =ᶠ[nhds (s l)] fun t => t := by
          filter_upwards [Ioi_mem_nhds hpos] with t ht
          simp only [Set.mem_Ioi] at ht
          simp [ht]
        rw [if_pos hpos]
        exact (hasDerivAt_id _).congr_of_eventuallyEq hev
    · simp only [Function.update_of_ne h, if_neg h]
      exact hasDerivAt_const _ _
  | sigmoid =>
    by_cases h : l = k
    · subst h
      have hfun : (fun t => Spec.actFn .sigmoid c (Function.update s l t) l) = Real.sigmoid := by
        funext t
        rw [sigmoid_spec_eq, Function.update_self]
      simp only [Spec.jac, if_true]
      rw [hfun, sigmoid_spec_eq]
      exact Real.hasDerivAt_sigmoid (s l)
    · have hfun : (fun t => Spec.actFn .sigmoid c (Function.update s k t) l) = fun _ => Real.sigmoid (s l) := by
        funext t
        rw [sigmoid_spec_eq, Function.update_of_ne h]
      simp only [Spec.jac, if_neg h]
      rw [hfun]
      exact hasDerivAt_const _ _
  | softmax =>
    simp only [Spec.actFn, Spec.jac]
    exact softmax_hasDerivAt c s l k hk

/-! ### losses, one row -/

/-- **cross-entropy of one sample**: `∂(−log p_y)/∂ s_k = p_k − δ_yk` -/
theorem ce_row_hasDerivAt (c : Nat) (s : Nat → ℝ) (y k : Nat) (hy : y < c) (hk : k < c) :
    HasDerivAt (fun t => - Real.log (Spec.softmaxFn c (Function.update s k t) y))
      (Spec.softmaxFn c s k - (if y = k then 1 else 0)) (s k) := by
  have hp : Spec.softmaxFn c (Function.update s k (s k)) y ≠ 0 := by
    rw [Function.update_eq_self]
    exact ne_of_gt (softmaxFn_pos c s y hy)
  have h1 := (softmax_hasDerivAt c s y k hk).log hp
  have h2 : HasDerivAt (fun t => - Real.log (Spec.softmaxFn c (Function.update s k t) y)) _ (s k) := h1.neg
  refine h2.congr_deriv ?_
  rw [Function.update_eq_self]
  have hpy : Spec.softmaxFn c s y ≠ 0 := ne_of_gt (softmaxFn_pos c s y hy)
  by_cases h : y = k
  · simp only [if_pos h]
    field_simp
    ring
  · simp only [if_neg h]
    field_simp
    ring

theorem sigmoid_pos' (x : ℝ) : 0 < Real.sigmoid x := Real.sigmoid_pos x

/-- **binary cross-entropy of one channel, positive target**: `∂(−log σ(t))/∂t = σ(t) − 1` -/
theorem bce_pos_hasDerivAt (x : ℝ) :
    HasDerivAt (fun t => - Real.log (Real.sigmoid t)) (Real.sigmoid x - 1) x := by
  have h : HasDerivAt (fun t => - Real.log (Real.sigmoid t)) _ x :=
    ((Real.hasDerivAt_sigmoid x).log (ne_of_gt (Real.sigmoid_pos x))).neg
  refine h.congr_deriv ?_
  have : Real.sigmoid x ≠ 0 := ne_of_gt (Real.sigmoid_pos x)
  field_simp
  ring

/-- **binary cross-entropy of one channel, negative target**: `∂(−log(1 − σ(t)))/∂t = σ(t)` -/
theorem bce_neg_hasDerivAt (x : ℝ) :
    HasDerivAt (fun t => - Real.log (1 - Real.sigmoid t)) (Real.sigmoid x) x := by
  have hne : 1 - Real.sigmoid x ≠ 0 := ne_of_gt (sub_pos.mpr (Real.sigmoid_lt_one x))
  have h : HasDerivAt (fun t => - Real.log (1 - Real.sigmoid t)) _ x :=
    (((Real.hasDerivAt_sigmoid x).const_sub 1).log hne).neg
  refine h.congr_deriv ?_
  field_simp

end SkNet.Gnn
