/-
Helper lemmas for C14: `get_values` / `stack_values` / `get_adjacency_values` (what vector of seeds the three
input forms produce), and the shape of `fit`.
-/
import SkNet.Lemmas.Heat

namespace SkNet.Heat

attribute [-simp] List.getD_eq_getElem?_getD

/-! ### `pyIndex`, `assign` -/

theorem pyIndex_lt {n : Nat} {k : Int} {i : Nat} (h : pyIndex n k = some i) : i < n := by
  unfold pyIndex at h
  split at h
  · cases h; omega
  · split at h
    · cases h; omega
    · cases h

theorem pyIndex_nonneg {n : Nat} {k : Nat} (h : k < n) : pyIndex n (k : Int) = some k := by
  unfold pyIndex
  have : (0 : Int) ≤ (k : Int) ∧ (k : Int) < (n : Int) := ⟨by omega, by omega⟩
  simp [this]

/-- the value the assignments `values[keys] = values_` leave at position `i` (`none`: untouched) -/
def lastAt (n : Nat) : List (Int × Rat) → Nat → Option Rat
  | [], _ => none
  | (k, x) :: rest, i =>
    match lastAt n rest i with
    | some y => some y
    | none => if pyIndex n k = some i then some x else none

theorem getD_set (l : List Rat) (i j : Nat) (x d : Rat) :
    (l.set i x).getD j d = if j = i ∧ i < l.length then x else l.getD j d := by
  simp only [List.getD_eq_getElem?_getD, List.getElem?_set]
  by_cases h : i = j
  · subst h
    by_cases h2 : i < l.length
    · simp [h2]
    · simp [h2]
  · have : ¬ j = i := fun e => h e.symm
    simp [h, this]

theorem assign_spec {n : Nat} : ∀ {kv : List (Int × Rat)} {acc r : List Rat}, acc.length = n →
    assign n acc kv = .ok r →
    r.length = n ∧ ∀ i, i < n → ∀ d, r.getD i d = (lastAt n kv i).getD (acc.getD i d)
  | [], acc, r, hl, h => by
    simp only [assign] at h
    cases h
    exact ⟨hl, fun i _ d => by simp [lastAt]⟩
  | (k, x) :: rest, acc, r, hl, h => by
    simp only [assign] at h
    cases hk : pyIndex n k with
    | none => simp [hk] at h
    | some p =>
      simp only [hk] at h
      have hp := pyIndex_lt hk
      obtain ⟨h1, h2⟩ := assign_spec (kv := rest) (acc := acc.set p x) (by simp [hl]) h
      refine ⟨h1, fun i hi d => ?_⟩
      rw [h2 i hi d]
      simp only [lastAt, hk]
      cases hr : lastAt n rest i with
      | some y => simp
      | none =>
        simp only [Option.getD_none, getD_set, hl]
        by_cases hpi : p = i
        · subst hpi; simp [hp]
        · have : ¬ i = p := fun e => hpi e.symm
          simp [hpi, this]

theorem assign_ok_of_keys {n : Nat} : ∀ (kv : List (Int × Rat)) (acc : List Rat),
    (∀ e, e ∈ kv → (pyIndex n e.1).isSome) → ∃ r, assign n acc kv = .ok r
  | [], acc, _ => ⟨acc, rfl⟩
  | (k, x) :: rest, acc, h => by
    have hk := h (k, x) (by simp)
    cases hp : pyIndex n k with
    | none => simp [hp] at hk
    | some p =>
      obtain ⟨r, hr⟩ := assign_ok_of_keys rest (acc.set p x) (fun e he => h e (by simp [he]))
      exact ⟨r, by simp [assign, hp, hr]⟩

/-! ### `get_values` -/

theorem getValues_length {n : Nat} {v : Values} {d : Rat} {r : List Rat} (h : getValues n v d = .ok r) :
    r.length = n := by
  unfold getValues at h
  cases v with
  | none => simp only at h; cases h; simp
  | arr l =>
    simp only at h
    split at h
    · cases h
    · cases h; rename_i hl; simpa using hl
  | list l =>
    simp only at h
    split at h
    · cases h
    · cases h; rename_i hl; simpa using hl
  | dict kv =>
    simp only at h
    split at h
    · cases h
    · exact (assign_spec (by simp) h).1

theorem getValues_dict {n : Nat} {kv : List (Int × Rat)} {d : Rat} {r : List Rat}
    (h : getValues n (.dict kv) d = .ok r) :
    r.length = n ∧ ∀ i, i < n → r.getD i 0 = (lastAt n kv i).getD d := by
  unfold getValues at h
  simp only at h
  split at h
  · cases h
  · obtain ⟨h1, h2⟩ := assign_spec (by simp) h
    refine ⟨h1, fun i hi => ?_⟩
    rw [h2 i hi 0]
    simp [hi]

/-! ### `stack_values`, `get_adjacency_values` -/

theorem stackValues_ok {nRow nCol : Nat} {vr vc : Values} {d : Rat} {s : List Rat}
    (h : stackValues nRow nCol vr vc d = .ok s) :
    ∃ r c, r.length = nRow ∧ c.length = nCol ∧ s = r ++ c := by
  unfold stackValues at h
  simp only at h
  split at h
  · cases h
  · rename_i r hr
    split at h
    · cases h
    · rename_i c hc
      cases h
      exact ⟨r, c, getValues_length hr, getValues_length hc, rfl⟩

theorem blockMat_nonneg {nRow : Nat} {B : Nat → Nat → Rat} (hB : ∀ i j, 0 ≤ B i j) (i j : Nat) :
    0 ≤ blockMat nRow B i j := by
  unfold blockMat
  split <;> split <;> first | exact le_refl _ | exact hB _ _

theorem blockMat_symm (nRow : Nat) (B : Nat → Nat → Rat) (i j : Nat) :
    blockMat nRow B i j = blockMat nRow B j i := by
  unfold blockMat
  by_cases hi : i < nRow <;> by_cases hj : j < nRow <;> simp [hi, hj]

/-- what `get_adjacency_values` hands to the estimators -/
theorem getAdjacencyValues_ok {nRow nCol nnz : Nat} {B : Nat → Nat → Rat} {a : Args} {p : Prepared}
    (h : getAdjacencyValues nRow nCol nnz B a = .ok p) :
    nnz ≠ 0 ∧ p.seeds.length = p.n ∧
    (p.bipartite = true → p.n = nRow + nCol ∧ p.adj = blockMat nRow B) ∧
    (p.bipartite = false → p.n = nRow ∧ p.adj = B ∧ nRow = nCol) := by
  unfold getAdjacencyValues at h
  split at h
  · cases h
  · rename_i hnnz
    simp only at h
    split at h
    · -- bipartite
      split at h
      · cases h
      · rename_i s hs
        cases h
        have hst : ∃ r c, r.length = nRow ∧ c.length = nCol ∧ s = r ++ c := by
          split at hs
          · exact stackValues_ok hs
          · exact stackValues_ok hs
        obtain ⟨r, c, hr, hc, rfl⟩ := hst
        exact ⟨hnnz, by simp [hr, hc], fun _ => ⟨rfl, rfl⟩, fun hb => by cases hb⟩
    · rename_i hbip
      split at h
      · cases h
      · rename_i s hs
        cases h
        refine ⟨hnnz, getValues_length hs, fun hb => (by cases hb), fun _ => ⟨rfl, rfl, ?_⟩⟩
        simp only [Bool.or_eq_true, bne_iff_ne, ne_eq, not_or, Decidable.not_not] at hbip
        exact hbip.2

theorem getAdjacencyValues_nonneg {nRow nCol nnz : Nat} {B : Nat → Nat → Rat} {a : Args} {p : Prepared}
    (h : getAdjacencyValues nRow nCol nnz B a = .ok p) (hB : ∀ i j, 0 ≤ B i j) : ∀ i j, 0 ≤ p.adj i j := by
  obtain ⟨_, _, h1, h2⟩ := getAdjacencyValues_ok h
  cases hb : p.bipartite with
  | true => rw [(h1 hb).2]; exact blockMat_nonneg hB
  | false => rw [(h2 hb).2.1]; exact hB

theorem getD_take (v : List Rat) (k i : Nat) (d : Rat) (h : i < k) : (v.take k).getD i d = v.getD i d := by
  simp [List.getD_eq_getElem?_getD, h]

theorem getD_drop (v : List Rat) (k j : Nat) (d : Rat) : (v.drop k).getD j d = v.getD (k + j) d := by
  simp [List.getD_eq_getElem?_getD, List.getElem?_drop]

/-! ### the three input forms -/

/-- a dict `{node: temperature}` with natural keys, as Python hands it over -/
def toKV (kv : List (Nat × Rat)) : List (Int × Rat) := kv.map fun e => ((e.1 : Int), e.2)

/-- the same temperatures as a vector: `d` where no temperature is given -/
def seedsArray (n : Nat) (kv : List (Nat × Rat)) (d : Rat) : List Rat :=
  tab n fun i => ((kv.find? fun e => e.1 == i).map (·.2)).getD d

theorem lastAt_none {n : Nat} : ∀ {kv : List (Nat × Rat)} {i : Nat}, (∀ e, e ∈ kv → e.1 < n) →
    (∀ e, e ∈ kv → e.1 ≠ i) → lastAt n (toKV kv) i = none
  | [], _, _, _ => rfl
  | (k, x) :: rest, i, hk, h => by
    have ih := lastAt_none (kv := rest) (i := i) (fun e he => hk e (by simp [he])) (fun e he => h e (by simp [he]))
    have hki : k ≠ i := h (k, x) (by simp)
    have hp := pyIndex_nonneg (hk (k, x) (by simp))
    simp only [toKV, List.map_cons, lastAt] at ih ⊢
    rw [ih]
    simp [hp, hki]

theorem lastAt_mem {n : Nat} : ∀ {kv : List (Nat × Rat)}, (∀ e, e ∈ kv → e.1 < n) → (kv.map (·.1)).Nodup →
    ∀ {k : Nat} {x : Rat}, (k, x) ∈ kv → lastAt n (toKV kv) k = some x
  | [], _, _, _, _, hm => by cases hm
  | (k0, x0) :: rest, hk, hnd, k, x, hm => by
    simp only [List.map_cons, List.nodup_cons] at hnd
    simp only [toKV, List.map_cons, lastAt]
    rcases List.mem_cons.1 hm with heq | hin
    · cases heq
      have hnone : lastAt n (toKV rest) k0 = none :=
        lastAt_none (fun e he => hk e (by simp [he])) (fun e he hek => hnd.1 (hek ▸ List.mem_map_of_mem (f := (·.1)) he))
      simp only [toKV] at hnone
      rw [hnone]
      simp [pyIndex_nonneg (hk (k0, x0) (by simp))]
    · have ih := lastAt_mem (kv := rest) (fun e he => hk e (by simp [he])) hnd.2 hin
      simp only [toKV] at ih
      rw [ih]

theorem ext_getD {n : Nat} {l1 l2 : List Rat} (h1 : l1.length = n) (h2 : l2.length = n)
    (h : ∀ i, i < n → l1.getD i 0 = l2.getD i 0) : l1 = l2 := by
  apply List.ext_getElem (by rw [h1, h2])
  intro i hi1 hi2
  have := h i (h1 ▸ hi1)
  simpa [List.getD_eq_getElem?_getD, hi1, hi2] using this

/-- a dict with distinct in-range keys: every temperature reaches its node, the other nodes get the default -/
theorem getValues_dict_nodup {n : Nat} {kv : List (Nat × Rat)} {d : Rat} (hne : kv ≠ [])
    (hk : ∀ e, e ∈ kv → e.1 < n) (hnd : (kv.map (·.1)).Nodup) :
    ∃ r, getValues n (.dict (toKV kv)) d = .ok r ∧ r.length = n ∧
      (∀ e, e ∈ kv → r.getD e.1 0 = e.2) ∧ (∀ i, i < n → (∀ e, e ∈ kv → e.1 ≠ i) → r.getD i 0 = d) := by
  have hex : ∃ r, getValues n (.dict (toKV kv)) d = .ok r := by
    unfold getValues
    have : (toKV kv).isEmpty = false := by
      cases kv with
      | nil => exact absurd rfl hne
      | cons e rest => rfl
    simp only [this]
    apply assign_ok_of_keys
    intro e he
    obtain ⟨e0, he0, rfl⟩ := List.mem_map.1 he
    simp [pyIndex_nonneg (hk e0 he0)]
  obtain ⟨r, hr⟩ := hex
  obtain ⟨hl, hv⟩ := getValues_dict hr
  refine ⟨r, hr, hl, fun e he => ?_, fun i hi hno => ?_⟩
  · rw [hv e.1 (hk e he), lastAt_mem hk hnd (k := e.1) (x := e.2) he]; rfl
  · rw [hv i hi, lastAt_none hk hno]; rfl

/-- … and that vector is the array form of the same temperatures -/
theorem getValues_dict_eq_array {n : Nat} {kv : List (Nat × Rat)} {d : Rat} (hne : kv ≠ [])
    (hk : ∀ e, e ∈ kv → e.1 < n) (hnd : (kv.map (·.1)).Nodup) :
    getValues n (.dict (toKV kv)) d = .ok (seedsArray n kv d) := by
  obtain ⟨r, hr, hl, hin, hout⟩ := getValues_dict_nodup (d := d) hne hk hnd
  rw [hr]
  congr 1
  apply ext_getD hl (by simp [seedsArray])
  intro i hi
  simp only [seedsArray, tab_getD, hi, if_true]
  cases hf : kv.find? (fun e => e.1 == i) with
  | some e =>
    have hm := List.mem_of_find?_eq_some hf
    have hp := List.find?_some hf
    simp only [beq_iff_eq] at hp
    subst hp
    simpa using hin e hm
  | none =>
    have hno : ∀ e, e ∈ kv → e.1 ≠ i := by
      intro e he
      have := List.find?_eq_none.1 hf e he
      simpa using this
    simpa using hout i hi hno

theorem getValues_array {n : Nat} {l : List Rat} (d : Rat) (h : l.length = n) : getValues n (.arr l) d = .ok l := by
  simp [getValues, h]

/-- two descriptions of the temperatures that `get_values` (default value −1, as everywhere in this pipeline)
    cannot tell apart -/
def SameValues (n : Nat) (v v' : Values) : Prop :=
  v.isNone = v'.isNone ∧ getValues n v (-1) = getValues n v' (-1)

theorem SameValues.refl (n : Nat) (v : Values) : SameValues n v v := ⟨rfl, rfl⟩

theorem sameValues_list_arr (n : Nat) (l : List Rat) : SameValues n (.list l) (.arr l) := ⟨rfl, rfl⟩

theorem sameValues_dict_arr {n : Nat} {kv : List (Nat × Rat)} (hne : kv ≠ [])
    (hk : ∀ e, e ∈ kv → e.1 < n) (hnd : (kv.map (·.1)).Nodup) :
    SameValues n (.dict (toKV kv)) (.arr (seedsArray n kv (-1))) := by
  refine ⟨rfl, ?_⟩
  rw [getValues_dict_eq_array hne hk hnd, getValues_array _ (by simp [seedsArray])]

theorem stackValues_congr {nRow nCol : Nat} {vr vr' vc vc' : Values}
    (h1 : SameValues nRow vr vr') (h2 : SameValues nCol vc vc') :
    stackValues nRow nCol vr vc (-1) = stackValues nRow nCol vr' vc' (-1) := by
  unfold stackValues
  simp only [h1.1, h2.1]
  cases hr : vr'.isNone <;> cases hc : vc'.isNone <;> simp [h1.2, h2.2]

theorem getAdjacencyValues_congr {nRow nCol nnz : Nat} {B : Nat → Nat → Rat} {a a' : Args}
    (hv : SameValues nRow a.values a'.values) (hr : SameValues nRow a.valuesRow a'.valuesRow)
    (hc : SameValues nCol a.valuesCol a'.valuesCol) (hf : a.forceBipartite = a'.forceBipartite) :
    getAdjacencyValues nRow nCol nnz B a = getAdjacencyValues nRow nCol nnz B a' := by
  unfold getAdjacencyValues
  simp only [hv.1, hr.1, hc.1, hf, hv.2, stackValues_congr hr hc,
    stackValues_congr hv hc]

theorem fit_congr {algo : Algo} {nRow nCol nnz : Nat} {B : Nat → Nat → Rat} {a a' : Args} {nIter : Int} {α : Rat}
    (hv : SameValues nRow a.values a'.values) (hr : SameValues nRow a.valuesRow a'.valuesRow)
    (hc : SameValues nCol a.valuesCol a'.valuesCol) (hf : a.forceBipartite = a'.forceBipartite)
    (hi : a.init = a'.init) :
    fit algo nRow nCol nnz B a nIter α = fit algo nRow nCol nnz B a' nIter α := by
  unfold fit
  rw [getAdjacencyValues_congr hv hr hc hf, hi]

/-! ### the shape of `fit` -/

theorem fit_ok {algo : Algo} {nRow nCol nnz : Nat} {B : Nat → Nat → Rat} {a : Args} {nIter : Int} {α : Rat}
    {out : Out} (h : fit algo nRow nCol nnz B a nIter α = .ok out) :
    0 < nIter ∧ ∃ p v, getAdjacencyValues nRow nCol nnz B a = .ok p ∧
      fitVector algo p a.init nIter.toNat α = .ok v ∧ out = splitVars p.bipartite nRow v := by
  unfold fit at h
  split at h
  · cases h
  · rename_i hk
    split at h
    · cases h
    · rename_i p hp
      split at h
      · cases h
      · rename_i v hv
        cases h
        exact ⟨by omega, p, v, hp, hv, rfl⟩

theorem fitVector_diffusion_ok {p : Prepared} {init : Option Rat} {k : Nat} {α : Rat} {v : List Rat}
    (h : fitVector .diffusion p init k α = .ok v) :
    ∃ temps border, initTemperatures p.seeds init = .ok (temps, border) ∧
      v = loop (matVec p.n (mat p.n p.n (diffusionEntry p.n p.adj α))) k temps := by
  unfold fitVector at h
  split at h
  · cases h
  · rename_i temps border ht
    simp only at h; cases h
    exact ⟨temps, border, ht, rfl⟩

theorem fitVector_dirichlet_ok {p : Prepared} {init : Option Rat} {k : Nat} {α : Rat} {v : List Rat}
    (h : fitVector .dirichlet p init k α = .ok v) :
    ∃ temps border, initTemperatures p.seeds init = .ok (temps, border) ∧
      v = loop (dirichletStep p.n (mat p.n p.n (normalize p.n p.adj)) temps border) k temps := by
  unfold fitVector at h
  split at h
  · cases h
  · rename_i temps border ht
    simp only at h; cases h
    exact ⟨temps, border, ht, rfl⟩

end SkNet.Heat
