/- `get_labels`: the labels assigned from an ordered list of disjoint clusters; the sorting permutation. -/
import SkNet.Lemmas.Cut

namespace SkNet.Cut
open SkNet SkNet.Dendro

theorem foldl_set_length (nodes : List Nat) (label : Nat) (labels : List Nat) :
    (nodes.foldl (fun l v => l.set v label) labels).length = labels.length := by
  induction nodes generalizing labels with
  | nil => rfl
  | cons a as ih => simp [List.foldl_cons, ih]

theorem foldl_set_getD (nodes : List Nat) (label : Nat) (labels : List Nat) (v d : Nat) :
    (nodes.foldl (fun l v => l.set v label) labels).getD v d =
      if v ∈ nodes ∧ v < labels.length then label else labels.getD v d := by
  induction nodes generalizing labels with
  | nil => simp
  | cons a as ih =>
    simp only [List.foldl_cons, ih, List.length_set, List.mem_cons]
    by_cases h1 : v ∈ as ∧ v < labels.length
    · simp [h1]
    · simp only [h1, if_false]
      by_cases h2 : v = a
      · subst h2
        by_cases h3 : v < labels.length
        · simp [h3, List.getD_eq_getElem?_getD]
        · simp only [List.getD_eq_getElem?_getD]
          rw [List.getElem?_set]
          simp [h3]
      · have : ¬ ((v = a ∨ v ∈ as) ∧ v < labels.length) := by
          rintro ⟨h | h, hl⟩
          · exact h2 h
          · exact h1 ⟨h, hl⟩
        simp only [this, if_false, List.getD_eq_getElem?_getD]
        rw [List.getElem?_set]
        simp [Ne.symm h2]

theorem assignAll_spec : ∀ (cl : List (List Nat)) (start : Nat) (labels : List Nat),
    (∀ c ∈ cl, ∀ v ∈ c, v < labels.length) → cl.flatten.Nodup →
    ∃ l', assignAll start cl labels = .ok l' ∧ l'.length = labels.length ∧
      (∀ p c, cl[p]? = some c → ∀ v ∈ c, l'.getD v 0 = start + p) ∧
      (∀ v, v ∉ cl.flatten → l'.getD v 0 = labels.getD v 0) := by
  intro cl
  induction cl with
  | nil => intro start labels _ _; exact ⟨labels, rfl, rfl, by simp, by simp⟩
  | cons c rest ih =>
    intro start labels hb hnd
    have hall : c.all (· < labels.length) = true := by
      simp only [List.all_eq_true, decide_eq_true_eq]
      exact fun v hv => hb c List.mem_cons_self v hv
    let l1 := c.foldl (fun l v => l.set v start) labels
    have hl1 : l1.length = labels.length := foldl_set_length _ _ _
    simp only [List.flatten_cons] at hnd
    have hnd' := List.nodup_append.mp hnd
    obtain ⟨l', h1, h2, h3, h4⟩ := ih (start + 1) l1
      (by intro c' hc' v hv; rw [hl1]; exact hb c' (List.mem_cons_of_mem _ hc') v hv) hnd'.2.1
    refine ⟨l', ?_, by rw [h2, hl1], ?_, ?_⟩
    · simp only [assignAll, assign, hall, if_true]
      exact h1
    · intro p c' hp v hv
      cases p with
      | zero =>
        simp only [List.getElem?_cons_zero, Option.some.injEq] at hp
        subst hp
        have hnot : v ∉ rest.flatten := fun hm => (hnd'.2.2 v hv v hm) rfl
        rw [h4 v hnot]
        show (c.foldl (fun l v => l.set v start) labels).getD v 0 = start + 0
        rw [foldl_set_getD]
        simp [hv, hb c List.mem_cons_self v hv]
      | succ p =>
        simp only [List.getElem?_cons_succ] at hp
        rw [h3 p c' hp v hv]; omega
    · intro v hv
      simp only [List.flatten_cons, List.mem_append, not_or] at hv
      rw [h4 v hv.2]
      show (c.foldl (fun l v => l.set v start) labels).getD v 0 = labels.getD v 0
      rw [foldl_set_getD]
      simp [hv.1]

/-! ### the sorting permutation -/

theorem range_map_getD {β : Type} (l : List β) (d : β) : (List.range l.length).map (fun i => l.getD i d) = l := by
  apply List.ext_getElem
  · simp
  · intro i h1 h2
    simp only [List.length_map, List.length_range] at h1
    simp [h1]

/-- the ordered clusters are a permutation of the dict's values -/
theorem orderedClusters_perm {argsort : List Nat → List Nat} (hs : SortsDesc argsort)
    (cluster : Dict (List Nat)) (srt : Bool) :
    (orderedClusters cluster srt argsort).Perm cluster.values := by
  unfold orderedClusters
  cases srt with
  | false => simp
  | true =>
    simp only [if_true]
    have hp := (hs (cluster.values.map List.length)).1
    simp only [List.length_map] at hp
    have := hp.map (fun i => cluster.values.getD i [])
    rwa [range_map_getD] at this

theorem orderedClusters_sorted {argsort : List Nat → List Nat} (hs : SortsDesc argsort)
    (cluster : Dict (List Nat)) :
    (orderedClusters cluster true argsort).Pairwise (fun a b => b.length ≤ a.length) := by
  unfold orderedClusters
  simp only [if_true]
  rw [List.pairwise_map]
  refine (hs (cluster.values.map List.length)).2.imp ?_
  intro a b h
  have e : ∀ i, (cluster.values.map List.length).getD i 0 = (cluster.values.getD i []).length := by
    intro i
    simp only [List.getD_eq_getElem?_getD, List.getElem?_map]
    cases cluster.values[i]? <;> simp
  rwa [e, e] at h

/-! ### `argsortDesc` (the permutation used by the runs) meets the contract -/

theorem insertDesc_perm (sizes : List Nat) (t : Nat) (l : List Nat) : (insertDesc sizes t l).Perm (t :: l) := by
  induction l with
  | nil => simp [insertDesc]
  | cons u us ih =>
    simp only [insertDesc]
    split
    · exact List.Perm.refl _
    · exact (List.Perm.cons u ih).trans (List.Perm.swap t u us)

theorem insertDesc_pairwise (sizes : List Nat) (t : Nat) (l : List Nat)
    (hl : l.Pairwise (fun a b => sizes.getD b 0 ≤ sizes.getD a 0)) :
    (insertDesc sizes t l).Pairwise (fun a b => sizes.getD b 0 ≤ sizes.getD a 0) := by
  induction l with
  | nil => simp [insertDesc]
  | cons u us ih =>
    simp only [insertDesc]
    have hu := List.pairwise_cons.mp hl
    split
    · rename_i hlt
      refine List.pairwise_cons.mpr ⟨?_, hl⟩
      intro b hb
      rcases List.mem_cons.mp hb with e | e
      · subst e; omega
      · have := hu.1 b e; omega
    · rename_i hge
      refine List.pairwise_cons.mpr ⟨?_, ih hu.2⟩
      intro b hb
      have hb' := (insertDesc_perm sizes t us).subset hb
      rcases List.mem_cons.mp hb' with e | e
      · subst e; omega
      · exact hu.1 b e

theorem argsortDesc_sortsDesc : SortsDesc argsortDesc := by
  intro sizes
  unfold argsortDesc
  generalize List.range sizes.length = idx
  induction idx with
  | nil => simp
  | cons t ts ih =>
    simp only [List.foldr_cons]
    exact ⟨(insertDesc_perm _ _ _).trans (List.Perm.cons t ih.1), insertDesc_pairwise _ _ _ ih.2⟩

end SkNet.Cut
