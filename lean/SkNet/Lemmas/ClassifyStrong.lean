/-
The strong form of the probability-row clause: a row sums to 1 when a label reaches the node, and to 0 (only) when
none does — per classifier, with what "reaches" means for it.
-/
import SkNet.Lemmas.ClassifyKnn
import SkNet.Lemmas.ClassifyRank
import SkNet.Lemmas.ClassifyReach
import SkNet.Lemmas.VoteFixed

namespace SkNet.Classify

attribute [-simp] List.getD_eq_getElem?_getD

/-! ### Propagation -/

theorem propagation_row_strong (c : Csr Rat) (hw : ∀ p, 0 ≤ c.data.getD p 0) (labels : List Int) (i : Nat) :
    Spec.rowStrong 0 (Spec.propReaches c labels i) (Propagation.probsRow c labels i) = true := by
  have hrow := Diffusion.row_nonneg c hw i
  set raw := tab (Vote.nLabels labels) fun l =>
    rsum (((c.row i).filter fun e => labels.getD e.1 (-1) == (l : Int)).map (·.2)) with hraw
  have hinner : ∀ l : Nat, ∀ y ∈ (((c.row i).filter fun e => labels.getD e.1 (-1) == (l : Int)).map (·.2)), 0 ≤ y := by
    intro l y hy
    obtain ⟨e, he, rfl⟩ := List.mem_map.mp hy
    exact hrow e (List.mem_filter.mp he).1
  have hnn : ∀ x ∈ raw, 0 ≤ x := by
    intro x hx
    obtain ⟨l, _, rfl⟩ := (mem_tab _ _ _).mp hx
    exact rsum_nonneg (hinner l)
  have hp : Propagation.probsRow c labels i = normalizeRow raw := rfl
  rw [hp]
  apply rowStrong_of (normalizeRow_nonneg hnn)
  · intro hr
    unfold Spec.propReaches at hr
    simp only [List.any_eq_true, Bool.and_eq_true, decide_eq_true_eq] at hr
    obtain ⟨e, he, h0, hpos⟩ := hr
    have hidx := Diffusion.getD_lt_of_nonneg h0
    have hlt : (labels.getD e.1 (-1)).toNat < Vote.nLabels labels :=
      Vote.nLabels_inRange labels _ (Diffusion.getD_mem hidx _) h0
    apply normalizeRow_sum_one hnn
    apply ne_of_gt
    apply rsum_pos_of_mem hnn (y := rsum (((c.row i).filter fun e' =>
      labels.getD e'.1 (-1) == (((labels.getD e.1 (-1)).toNat : Nat) : Int)).map (·.2)))
    · exact (mem_tab _ _ _).mpr ⟨_, hlt, rfl⟩
    · apply rsum_pos_of_mem (hinner _) (y := e.2) _ hpos
      apply List.mem_map.mpr
      refine ⟨e, List.mem_filter.mpr ⟨he, ?_⟩, rfl⟩
      simp only [beq_iff_eq]
      omega
  · intro hr
    unfold Spec.propReaches at hr
    apply normalizeRow_sum_zero hnn
    rw [rsum_eq_zero_iff hnn]
    intro x hx
    obtain ⟨l, _, rfl⟩ := (mem_tab _ _ _).mp hx
    rw [rsum_eq_zero_iff (hinner l)]
    intro y hy
    obtain ⟨e, he, rfl⟩ := List.mem_map.mp hy
    obtain ⟨hem, hel⟩ := List.mem_filter.mp he
    simp only [beq_iff_eq] at hel
    have hnot : ¬ (0 < e.2) := by
      intro hpos
      have : (c.row i).any (fun e => decide (0 ≤ labels.getD e.1 (-1)) && decide (0 < e.2)) = true := by
        simp only [List.any_eq_true, Bool.and_eq_true, decide_eq_true_eq]
        exact ⟨e, hem, by omega, hpos⟩
      rw [this] at hr
      cases hr
    exact le_antisymm (not_lt.mp hnot) (hrow e hem)

/-! ### DiffusionClassifier -/
namespace Diffusion

/-- with centring (soft-max by any positive function): 1 on the reached nodes, 0 on the others -/
theorem soft_row_strong (c : Csr Rat) (labels : List Int) (nIter : Nat) (o : Out)
    (h : fit c labels nIter true = .ok o) (scale : Rat) (expf : Rat → Rat) (hexp : ∀ x, 0 < expf x)
    (i : Nat) (hi : i < labels.length) :
    Spec.rowStrong 0 (o.reached.getD i false) (getRow (probsSoft o scale expf) i) = true := by
  have hp := fit_parts c labels nIter true o h
  have hlen := labels_length c labels nIter true o hp
  have hrow : getRow (probsSoft o scale expf) i =
      if o.reached.getD i false then normalizeRow ((getRow o.temps i).map fun x => expf (scale * x))
      else (getRow o.temps i).map fun _ => 0 := by
    unfold probsSoft
    rw [getRow_tab, hlen, if_pos hi]
  rw [hrow]
  have hpos : ∀ x ∈ (getRow o.temps i).map (fun x => expf (scale * x)), 0 ≤ x := by
    intro x hx
    obtain ⟨y, _, rfl⟩ := List.mem_map.mp hx
    exact le_of_lt (hexp _)
  cases hr : o.reached.getD i false with
  | true =>
    simp only [if_true]
    apply rowStrong_of (normalizeRow_nonneg hpos) true
    · intro _
      apply normalizeRow_sum_one hpos
      apply ne_of_gt
      have hl := temps_rowLen c labels nIter true o hp i hi
      have hk : 0 < (uniqueLabels labels).length := by
        have := uniq_ne_nil labels hp.some_seed
        exact List.length_pos_iff.mpr this
      have hne : getRow o.temps i ≠ [] := by
        intro h0
        rw [h0] at hl
        simp at hl
        omega
      obtain ⟨y, hy⟩ := List.exists_mem_of_ne_nil _ hne
      exact rsum_pos_of_mem hpos (List.mem_map.mpr ⟨y, hy, rfl⟩) (hexp _)
    · intro hf; cases hf
  | false =>
    simp only [Bool.false_eq_true, if_false]
    apply rowStrong_of _ false
    · intro hf; cases hf
    · intro _
      exact rsum_map_zero _
    · intro x hx
      obtain ⟨_, _, rfl⟩ := List.mem_map.mp hx
      exact le_refl 0

/-- every reached node keeps a positive temperature in some column -/
def PosRow (labels : List Int) (reach : List Bool) (k : Nat) (t : List (List Rat)) : Prop :=
  ∀ i, i < labels.length → reach.getD i false = true → ∃ q, q < k ∧ 0 < getCell t i q

theorem rabs_nonneg (x : Rat) : 0 ≤ rabs x := by
  unfold rabs
  split <;> linarith

theorem posRow_init (labels : List Int) (reach : List Bool) (hk : 0 < (uniqueLabels labels).length) :
    PosRow labels reach (uniqueLabels labels).length (initTemps labels (uniqueLabels labels)) := by
  intro i hi _
  by_cases hseed : 0 ≤ labels.getD i (-1)
  · have hm : labels.getD i (-1) ∈ uniqueLabels labels := mem_uniqueLabels.mpr ⟨getD_mem hi _, hseed⟩
    refine ⟨indexOf (labels.getD i (-1)) (uniqueLabels labels), indexOf_lt hm, ?_⟩
    rw [getCell_init]
    simp [hi, hseed, indexOf_lt hm]
  · refine ⟨0, hk, ?_⟩
    rw [getCell_init]
    simp [hi, hseed, hk]

/-- one clamped iteration keeps a positive temperature at every reached node, provided every reached node
    without label has an entry of positive weight to a reached node -/
theorem posRow_step (c : Csr Rat) (hw : ∀ p, 0 ≤ c.data.getD p 0) (labels : List Int) (reach : List Bool)
    (st : List (List Rat)) (k : Nat) (t : List (List Rat))
    (hst : PosRow labels reach k st) (ht : PosRow labels reach k t) (hU : Unit01 t)
    (hnb : ∀ i, i < labels.length → reach.getD i false = true → ¬ 0 ≤ labels.getD i (-1) →
      ∃ e ∈ c.row i, 0 < e.2 ∧ e.1 < labels.length ∧ reach.getD e.1 false = true) :
    PosRow labels reach k (step c labels st k t) := by
  intro i hi hr
  by_cases hseed : 0 ≤ labels.getD i (-1)
  · obtain ⟨q, hq, hpos⟩ := hst i hi hr
    refine ⟨q, hq, ?_⟩
    rw [getCell_step]
    simp only [hi, hseed, if_true]
    exact hpos
  · obtain ⟨e0, he0, hw0, he0n, he0r⟩ := hnb i hi hr hseed
    obtain ⟨q, hq, hpos⟩ := ht e0.1 he0n he0r
    refine ⟨q, hq, ?_⟩
    rw [getCell_step]
    simp only [hi, hseed, if_true, if_false, hq]
    obtain ⟨hdw, _⟩ := diffRow_spec c hw i
    have hnn : ∀ x ∈ (diffRow c i).map (fun e => e.2 * getCell t e.1 q), 0 ≤ x := by
      intro x hx
      obtain ⟨e, he, rfl⟩ := List.mem_map.mp hx
      exact mul_nonneg (hdw e he) (hU e.1 q).1
    -- the normalising sum is positive
    have hrow := row_nonneg c hw i
    have hs : 0 < rsum ((c.row i).map fun e => rabs e.2) := by
      apply rsum_pos_of_mem (y := rabs e0.2)
      · intro x hx
        obtain ⟨e, _, rfl⟩ := List.mem_map.mp hx
        exact rabs_nonneg _
      · exact List.mem_map.mpr ⟨e0, he0, rfl⟩
      · rw [rabs_of_nonneg (le_of_lt hw0)]
        exact hw0
    have hmem : (e0.1, e0.2 / rsum ((c.row i).map fun e => rabs e.2)) ∈ diffRow c i := by
      unfold diffRow
      simp only
      rw [if_neg (ne_of_gt hs)]
      exact List.mem_map.mpr ⟨e0, he0, rfl⟩
    apply rsum_pos_of_mem hnn
      (y := (e0.2 / rsum ((c.row i).map fun e => rabs e.2)) * getCell t e0.1 q)
    · exact List.mem_map.mpr ⟨_, hmem, rfl⟩
    · exact mul_pos (div_pos hw0 hs) hpos

theorem posRow_iterate (c : Csr Rat) (hw : ∀ p, 0 ≤ c.data.getD p 0) (labels : List Int) (reach : List Bool)
    (st : List (List Rat)) (k m : Nat) (t : List (List Rat))
    (hst : PosRow labels reach k st) (hUs : Unit01 st) (ht : PosRow labels reach k t) (hU : Unit01 t)
    (hnb : ∀ i, i < labels.length → reach.getD i false = true → ¬ 0 ≤ labels.getD i (-1) →
      ∃ e ∈ c.row i, 0 < e.2 ∧ e.1 < labels.length ∧ reach.getD e.1 false = true) :
    PosRow labels reach k (iterate c labels st k m t) := by
  induction m generalizing t with
  | zero => exact ht
  | succ m ih =>
    exact ih _ (posRow_step c hw labels reach st k t hst ht hU hnb) (unit01_step c hw labels st k t hUs hU)

theorem reach_lt {n : Nat} {edge : Nat → Nat → Bool} {src : Nat → Bool} {v : Nat}
    (h : Spec.Reach n edge src v) : v < n := by
  cases h with
  | base hv _ => exact hv
  | step _ _ hv => exact hv

/-- on an undirected graph a reached node without label has an entry of positive weight to a reached node -/
theorem reached_neighbour (c : Csr Rat) (hw : ∀ p, 0 ≤ c.data.getD p 0) (labels : List Int)
    (hsym : ∀ u v, u < labels.length → v < labels.length → hasEdge c u v = hasEdge c v u) (i : Nat)
    (hr : (reached labels.length (hasEdge c) (fun v => decide (0 ≤ labels.getD v (-1)))).getD i false = true)
    (hns : ¬ 0 ≤ labels.getD i (-1)) :
    ∃ e ∈ c.row i, 0 < e.2 ∧ e.1 < labels.length ∧
      (reached labels.length (hasEdge c) (fun v => decide (0 ≤ labels.getD v (-1)))).getD e.1 false = true := by
  have hR := (reached_iff _ i).mp hr
  cases hR with
  | base _ hs => simp at hs; exact absurd hs hns
  | step hu he hv =>
    rename_i u
    rw [hsym _ _ (reach_lt hu) hv] at he
    unfold hasEdge at he
    simp only [List.any_eq_true, Bool.and_eq_true, beq_iff_eq, bne_iff_ne, ne_eq] at he
    obtain ⟨e, hem, heu, hne⟩ := he
    refine ⟨e, hem, lt_of_le_of_ne (row_nonneg c hw i e hem) (Ne.symm hne), ?_, ?_⟩
    · rw [heu]
      exact reach_lt hu
    · rw [heu]
      exact (reached_iff _ u).mpr hu

/-- ★ without centring, on an undirected graph: the row of every reached node sums to 1, of every other node to 0 -/
theorem plain_row_strong_sym (c : Csr Rat) (hw : ∀ p, 0 ≤ c.data.getD p 0) (labels : List Int) (nIter : Nat)
    (o : Out) (h : fit c labels nIter false = .ok o)
    (hsym : ∀ u v, u < labels.length → v < labels.length → hasEdge c u v = hasEdge c v u)
    (i : Nat) (hi : i < labels.length) :
    Spec.rowStrong 0 (o.reached.getD i false) (getRow (probsPlain o) i) = true := by
  have hp := fit_parts c labels nIter false o h
  have hlen := labels_length c labels nIter false o hp
  have hrow : getRow (probsPlain o) i =
      if o.reached.getD i false then normalizeRow (getRow o.temps i) else (getRow o.temps i).map fun _ => 0 := by
    unfold probsPlain
    rw [getRow_tab, hlen, if_pos hi]
  rw [hrow]
  have htemps : o.temps = iterate c labels (initTemps labels (uniqueLabels labels)) (uniqueLabels labels).length
      nIter (initTemps labels (uniqueLabels labels)) := by
    rw [hp.temps]
    simp
  have hU := unit01_final c hw labels nIter
  have hnn : ∀ x ∈ getRow o.temps i, 0 ≤ x := by
    intro x hx
    obtain ⟨q, hq, rfl⟩ := List.mem_iff_getElem.mp hx
    rw [getElem_getRow o.temps i q hq, htemps]
    exact (hU i q).1
  cases hr : o.reached.getD i false with
  | true =>
    simp only [if_true]
    apply rowStrong_of (normalizeRow_nonneg hnn) true
    · intro _
      have hk : 0 < (uniqueLabels labels).length :=
        List.length_pos_iff.mpr (uniq_ne_nil labels hp.some_seed)
      have hpos := posRow_iterate c hw labels o.reached _ _ nIter _
        (posRow_init labels o.reached hk) (unit01_init _ _) (posRow_init labels o.reached hk) (unit01_init _ _)
        (by
          intro j hj hrj hns
          rw [hp.reach] at hrj ⊢
          exact reached_neighbour c hw labels hsym j hrj hns)
      obtain ⟨q, hq, hcell⟩ := hpos i hi hr
      rw [← htemps] at hcell
      apply normalizeRow_sum_one hnn
      apply ne_of_gt
      have hl := temps_rowLen c labels nIter false o hp i hi
      have hql : q < (getRow o.temps i).length := by rw [hl]; exact hq
      apply rsum_pos_of_mem hnn (y := (getRow o.temps i)[q]) (List.getElem_mem hql)
      rw [getElem_getRow o.temps i q hql]
      exact hcell
    · intro hf; cases hf
  | false =>
    simp only [Bool.false_eq_true, if_false]
    apply rowStrong_of _ false
    · intro hf; cases hf
    · intro _
      exact rsum_map_zero _
    · intro x hx
      obtain ⟨_, _, rfl⟩ := List.mem_map.mp hx
      exact le_refl 0

/-- without centring, any graph: 0 on the unreached nodes; on a reached node 1 unless all its temperatures are
    null (a reached node of a directed graph without out-going entry receives no heat) -/
theorem plain_row_strong (c : Csr Rat) (hw : ∀ p, 0 ≤ c.data.getD p 0) (labels : List Int) (nIter : Nat)
    (o : Out) (h : fit c labels nIter false = .ok o) (i : Nat) (hi : i < labels.length) :
    Spec.rowStrong 0 (o.reached.getD i false && !(getRow o.temps i).all (· == 0)) (getRow (probsPlain o) i) = true := by
  have hp := fit_parts c labels nIter false o h
  have hlen := labels_length c labels nIter false o hp
  have hrow : getRow (probsPlain o) i =
      if o.reached.getD i false then normalizeRow (getRow o.temps i) else (getRow o.temps i).map fun _ => 0 := by
    unfold probsPlain
    rw [getRow_tab, hlen, if_pos hi]
  rw [hrow]
  have htemps : o.temps = iterate c labels (initTemps labels (uniqueLabels labels)) (uniqueLabels labels).length
      nIter (initTemps labels (uniqueLabels labels)) := by
    rw [hp.temps]
    simp
  have hU := unit01_final c hw labels nIter
  have hnn : ∀ x ∈ getRow o.temps i, 0 ≤ x := by
    intro x hx
    obtain ⟨q, hq, rfl⟩ := List.mem_iff_getElem.mp hx
    rw [getElem_getRow o.temps i q hq, htemps]
    exact (hU i q).1
  cases hr : o.reached.getD i false with
  | true =>
    simp only [if_true, Bool.true_and]
    apply rowStrong_of (normalizeRow_nonneg hnn)
    · intro hreach
      apply normalizeRow_sum_one hnn
      intro hz
      have hall := (rsum_eq_zero_iff hnn).mp hz
      have : (getRow o.temps i).all (· == 0) = true := by
        rw [List.all_eq_true]
        intro x hx
        simp [hall x hx]
      rw [this] at hreach
      cases hreach
    · intro hreach
      apply normalizeRow_sum_zero hnn
      rw [rsum_eq_zero_iff hnn]
      have : (getRow o.temps i).all (· == 0) = true := by simpa using hreach
      intro x hx
      have := List.all_eq_true.mp this x hx
      simpa using this
  | false =>
    simp only [Bool.false_eq_true, if_false, Bool.false_and]
    apply rowStrong_of _ false
    · intro hf; cases hf
    · intro _
      exact rsum_map_zero _
    · intro x hx
      obtain ⟨_, _, rfl⟩ := List.mem_map.mp hx
      exact le_refl 0

end Diffusion

/-! ### NNClassifier -/
namespace Knn

/-- with at least one neighbour selected among labelled nodes, every row sums to 1 -/
theorem row_sum_one (emb : List (List Rat)) (labels : List Int) (k : Nat)
    (sel : Nat → List Rat → Nat → List Nat) (i : Nat) (hi : i < labels.length)
    (hne : 0 ≤ labels.getD i (-1) ∨ (neighbourLabels emb labels k sel i ≠ [] ∧
      ∀ x ∈ neighbourLabels emb labels k sel i, 0 ≤ x ∧ x.toNat < nCols labels)) :
    rsum (row emb labels k sel i) = 1 := by
  by_cases hseed : 0 ≤ labels.getD i (-1)
  · obtain ⟨hrow, hlt⟩ := seed_row emb labels k sel i hi hseed
    rw [hrow]
    exact rsum_onehot _ _ hlt
  · rcases hne with h | ⟨hnn, hall⟩
    · exact absurd h hseed
    · unfold row
      simp only [hseed, if_false]
      have hraw : ∀ x ∈ (tab (nCols labels) fun q =>
          (((neighbourLabels emb labels k sel i).filter (· == (q : Int))).length : Rat)), 0 ≤ x := by
        intro x hx
        obtain ⟨q, _, rfl⟩ := (mem_tab _ _ _).mp hx
        exact Nat.cast_nonneg _
      apply normalizeRow_sum_one hraw
      apply ne_of_gt
      obtain ⟨x0, hx0⟩ := List.exists_mem_of_ne_nil _ hnn
      obtain ⟨h0, hlt⟩ := hall x0 hx0
      apply rsum_pos_of_mem hraw (y := (((neighbourLabels emb labels k sel i).filter
        (· == ((x0.toNat : Nat) : Int))).length : Rat))
      · exact (mem_tab _ _ _).mpr ⟨_, hlt, rfl⟩
      · have : 0 < ((neighbourLabels emb labels k sel i).filter (· == ((x0.toNat : Nat) : Int))).length := by
          apply List.length_pos_of_mem (a := x0)
          simp only [List.mem_filter, beq_iff_eq]
          exact ⟨hx0, by omega⟩
        exact_mod_cast this

end Knn

/-! ### RankClassifier -/
namespace Rank

/-- a row of `probs_` sums to 1 unless all the scores of the node are null, and then to 0 -/
theorem probs_row_strong (values : List Int) (scores : List (List Rat)) (o : Out)
    (h : fitCore values scores = .ok o) (hnn : ∀ r ∈ scores, ∀ x ∈ r, 0 ≤ x)
    (hlen : ∀ r ∈ scores, r.length = (uniqueLabels values).length) (j : Nat) (hj : j < scores.length) :
    Spec.rowStrong 0 (!(getRow scores j).all (· == 0)) (getRow o.probs j) = true := by
  have hp := fit_parts values scores o h
  set r := getRow scores j with hr
  have hrm : r ∈ scores := by
    rw [hr]
    unfold getRow
    rw [List.getD_eq_getElem?_getD, List.getElem?_eq_getElem hj]
    exact List.getElem_mem hj
  have hrow : getRow o.probs j = movedRow values (normalizeRow r) := by
    rw [probs_eq_moved values scores o h]
    unfold getRow
    rw [List.getD_eq_getElem?_getD, List.getElem?_map, List.getElem?_map, List.getElem?_eq_getElem hj]
    simp only [Option.map_some, Option.getD_some]
    rw [hr]
    unfold getRow
    rw [List.getD_eq_getElem?_getD, List.getElem?_eq_getElem hj]
    rfl
  have hmem : getRow o.probs j ∈ o.probs := by
    have hl : j < o.probs.length := by rw [hp.probs_eq]; simpa using hj
    unfold getRow
    rw [List.getD_eq_getElem?_getD, List.getElem?_eq_getElem hl]
    exact List.getElem_mem hl
  have hnonneg := probs_nonneg values scores o h hnn _ hmem
  have hsum : rsum (getRow o.probs j) = rsum (normalizeRow r) := by
    rw [hrow]
    exact rsum_movedRow values _ (by rw [normalizeRow_length, hlen r hrm])
  have hrnn := hnn r hrm
  apply rowStrong_of hnonneg
  · intro hreach
    rw [hsum]
    apply normalizeRow_sum_one hrnn
    intro hz
    have hall := (rsum_eq_zero_iff hrnn).mp hz
    have : r.all (· == 0) = true := by
      rw [List.all_eq_true]
      intro x hx
      simp [hall x hx]
    rw [this] at hreach
    cases hreach
  · intro hreach
    rw [hsum]
    apply normalizeRow_sum_zero hrnn
    rw [rsum_eq_zero_iff hrnn]
    have : r.all (· == 0) = true := by simpa using hreach
    intro x hx
    have := List.all_eq_true.mp this x hx
    simpa using this

end Rank
end SkNet.Classify
