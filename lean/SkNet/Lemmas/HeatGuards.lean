/-
Helper lemmas for C14: the executable guards of the harmonic spec lines (`allReachSeed`, `nonnegW` of
SkNet/Spec/Heat.lean) imply the propositions used by the theorems (`ReachesSeed`, non-negative weights).
-/
import SkNet.Lemmas.HeatHarmonic

namespace SkNet.Heat
open SkNet.HeatSpec

attribute [-simp] List.getD_eq_getElem?_getD

theorem reachIter_length (n : Nat) (w : Nat → Nat → Rat) (s : Seeds) (k : Nat) : (reachIter n w s k).length = n := by
  cases k <;> simp [reachIter, reachStep]

/-- a node marked after `k` rounds of backward closure reaches a seed -/
theorem reachIter_sound (n : Nat) (w : Nat → Nat → Rat) (s : Seeds) :
    ∀ (k v : Nat), v < n → (reachIter n w s k).getD v false = true → ∃ t, ReachesSeed n w (isSeed s) t v
  | 0, v, hv, h => by
    simp only [reachIter, tab_getD, hv, if_true] at h
    exact ⟨0, .here hv h⟩
  | k+1, v, hv, h => by
    simp only [reachIter, reachStep, tab_getD, hv, if_true, Bool.or_eq_true, List.any_eq_true, List.mem_range,
      Bool.and_eq_true, decide_eq_true_eq] at h
    rcases h with h | ⟨u, hu, hw, hr⟩
    · exact reachIter_sound n w s k v hv h
    · obtain ⟨t, ht⟩ := reachIter_sound n w s k u hu hr
      exact ⟨t + 1, .step hv hw ht⟩

theorem allReachSeed_sound {n : Nat} {w : Nat → Nat → Rat} {s : Seeds} (h : allReachSeed n w s = true) :
    ∀ v, v < n → ∃ t, ReachesSeed n w (isSeed s) t v := by
  intro v hv
  apply reachIter_sound n w s n v hv
  unfold allReachSeed at h
  rw [List.all_eq_true] at h
  have hl := reachIter_length n w s n
  have hv' : v < (reachIter n w s n).length := by rw [hl]; exact hv
  have := h _ (List.getElem_mem hv')
  simp only [id] at this
  simp [List.getD_eq_getElem?_getD, hv', this]

theorem nonnegW_sound {n : Nat} {w : Nat → Nat → Rat} (h : nonnegW n w = true) :
    ∀ i j, i < n → j < n → 0 ≤ w i j := by
  intro i j hi hj
  unfold nonnegW at h
  simp only [List.all_eq_true, List.mem_range, decide_eq_true_eq] at h
  exact h i hi j hj

end SkNet.Heat
