/-
C09: the stable argsort of the model returns a permutation of `0..n-1` along which the keys are
non-decreasing (`argsortN_*`), hence what `Spectral.fit` / `GSVD.fit` select with it.
-/
import SkNet.Lemmas.Embedding

set_option linter.unusedSectionVars false

namespace SkNet.Embedding

variable {α : Type} [LinearOrder α]

theorem mem_insertIdx (key : Nat → α) (v x : Nat) (l : List Nat) :
    x ∈ insertIdx key v l ↔ x = v ∨ x ∈ l := by
  induction l with
  | nil => simp [insertIdx]
  | cons w ws ih =>
    unfold insertIdx
    by_cases h : key v < key w
    · simp [h]
    · simp only [h, if_false, List.mem_cons, ih]
      constructor
      · rintro (h1 | h1 | h1) <;> simp [h1]
      · rintro (h1 | h1 | h1) <;> simp [h1]

theorem length_insertIdx (key : Nat → α) (v : Nat) (l : List Nat) :
    (insertIdx key v l).length = l.length + 1 := by
  induction l with
  | nil => simp [insertIdx]
  | cons w ws ih =>
    unfold insertIdx
    by_cases h : key v < key w
    · simp [h]
    · simp [h, ih]

theorem sorted_insertIdx (key : Nat → α) (v : Nat) (l : List Nat)
    (hl : l.Pairwise fun a b => key a ≤ key b) :
    (insertIdx key v l).Pairwise fun a b => key a ≤ key b := by
  induction l with
  | nil => simp [insertIdx]
  | cons w ws ih =>
    rw [List.pairwise_cons] at hl
    unfold insertIdx
    by_cases h : key v < key w
    · simp only [h, if_true]
      rw [List.pairwise_cons]
      refine ⟨?_, List.pairwise_cons.mpr hl⟩
      intro x hx
      rcases List.mem_cons.mp hx with hx | hx
      · rw [hx]; exact le_of_lt h
      · exact le_trans (le_of_lt h) (hl.1 x hx)
    · simp only [h, if_false]
      rw [List.pairwise_cons]
      refine ⟨?_, ih hl.2⟩
      intro x hx
      rcases (mem_insertIdx key v x ws).mp hx with hx | hx
      · rw [hx]; exact not_lt.mp h
      · exact hl.1 x hx

theorem nodup_insertIdx (key : Nat → α) (v : Nat) (l : List Nat) (hv : v ∉ l) (hl : l.Nodup) :
    (insertIdx key v l).Nodup := by
  induction l with
  | nil => simp [insertIdx]
  | cons w ws ih =>
    rw [List.nodup_cons] at hl
    have hvw : v ≠ w := fun e => hv (by simp [e])
    have hvws : v ∉ ws := fun e => hv (by simp [e])
    unfold insertIdx
    by_cases h : key v < key w
    · simp only [h, if_true]
      exact List.nodup_cons.mpr ⟨hv, List.nodup_cons.mpr hl⟩
    · simp only [h, if_false]
      refine List.nodup_cons.mpr ⟨?_, ih hvws hl.2⟩
      intro hw
      rcases (mem_insertIdx key v w ws).mp hw with hw | hw
      · exact hvw hw.symm
      · exact hl.1 hw

theorem argsortN_succ (n : Nat) (key : Nat → α) :
    argsortN (n+1) key = insertIdx key n (argsortN n key) := by
  simp [argsortN, List.range_succ, List.foldl_append]

theorem mem_argsortN (n : Nat) (key : Nat → α) (x : Nat) : x ∈ argsortN n key ↔ x < n := by
  induction n with
  | zero => simp [argsortN]
  | succ n ih => rw [argsortN_succ, mem_insertIdx, ih]; omega

theorem length_argsortN (n : Nat) (key : Nat → α) : (argsortN n key).length = n := by
  induction n with
  | zero => simp [argsortN]
  | succ n ih => rw [argsortN_succ, length_insertIdx, ih]

theorem sorted_argsortN (n : Nat) (key : Nat → α) :
    (argsortN n key).Pairwise fun a b => key a ≤ key b := by
  induction n with
  | zero => simp [argsortN]
  | succ n ih => rw [argsortN_succ]; exact sorted_insertIdx key n _ ih

theorem nodup_argsortN (n : Nat) (key : Nat → α) : (argsortN n key).Nodup := by
  induction n with
  | zero => simp [argsortN]
  | succ n ih =>
    rw [argsortN_succ]
    exact nodup_insertIdx key n _ (by rw [mem_argsortN]; omega) ih

/-- every position of `argsort l` (and of any suffix of it) holds a valid index of `l` -/
theorem getD_argsortN_lt (n : Nat) (key : Nat → α) (d c : Nat) (hc : c < ((argsortN n key).drop d).length) :
    ((argsortN n key).drop d).getD c 0 < n := by
  have hmem : ((argsortN n key).drop d).getD c 0 ∈ argsortN n key := by
    have : ((argsortN n key).drop d).getD c 0 = ((argsortN n key).drop d)[c] := by
      rw [List.getD_eq_getElem?_getD, List.getElem?_eq_getElem hc, Option.getD_some]
    rw [this]
    exact List.mem_of_mem_drop (List.getElem_mem hc)
  exact (mem_argsortN n key _).mp hmem

end SkNet.Embedding
