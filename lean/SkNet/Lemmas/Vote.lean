/-
Lemmas about the vote kernel model (SkNet/Model/Vote.lean): the set of neighbour labels, the accumulation of
votes in the scratch vector, the selection loop, one node update, the sweep invariant.
-/
import SkNet.Model.Vote
import Mathlib.Tactic.Linarith
import Mathlib.Tactic.Ring
import Mathlib.Algebra.Order.Field.Rat

namespace SkNet.Vote

attribute [-simp] List.getD_eq_getElem?_getD

/-- non-negative weights, from a check of the stored values -/
theorem getD_nonneg_of_forall (a : Array Rat) (h : ∀ x ∈ a.toList, 0 ≤ x) (p : Nat) : 0 ≤ a.getD p 0 := by
  unfold Array.getD
  split
  · apply h
    simp
  · exact le_refl 0

/-! ### `std::set` insertion -/

theorem mem_setInsert {x y : Int} {l : List Int} : y ∈ setInsert x l ↔ y = x ∨ y ∈ l := by
  induction l with
  | nil => simp [setInsert]
  | cons z zs ih =>
    simp only [setInsert]
    split
    · simp
    · split
      · rename_i _ h
        subst h
        simp
      · simp only [List.mem_cons, ih]
        tauto

theorem setInsert_sorted {x : Int} {l : List Int} (h : l.Pairwise (· < ·)) :
    (setInsert x l).Pairwise (· < ·) := by
  induction l with
  | nil => simp [setInsert]
  | cons z zs ih =>
    have hz := List.pairwise_cons.mp h
    simp only [setInsert]
    split
    · rename_i hxz
      refine List.pairwise_cons.mpr ⟨?_, h⟩
      intro y hy
      rcases List.mem_cons.mp hy with rfl | hy
      · exact hxz
      · exact Int.lt_trans hxz (hz.1 y hy)
    · split
      · exact h
      · rename_i h1 h2
        refine List.pairwise_cons.mpr ⟨?_, ih hz.2⟩
        intro y hy
        rcases mem_setInsert.mp hy with rfl | hy
        · omega
        · exact hz.1 y hy

theorem sorted_nodup {l : List Int} (h : l.Pairwise (· < ·)) : l.Nodup := by
  unfold List.Nodup
  exact h.imp (fun hab => by omega)

/-! ### reading the scratch vector by label -/

/-- the cell of label `l` in the scratch vector -/
def vget (vs : List Rat) (l : Int) : Rat := vs.getD l.toNat 0

/-- total vote of label `l` in a list of (label, vote) pairs -/
def scoreOf : List (Int × Rat) → Int → Rat
  | [], _ => 0
  | p :: ps, l => (if p.1 = l then p.2 else 0) + scoreOf ps l

theorem getD_set_eq (vs : List Rat) (k j : Nat) (x : Rat) :
    (vs.set k x).getD j 0 = if k = j ∧ k < vs.length then x else vs.getD j 0 := by
  simp only [List.getD_eq_getElem?_getD, List.getElem?_set]
  by_cases h : k = j
  · subst h
    by_cases h2 : k < vs.length
    · simp [h2]
    · simp [h2]
  · simp [h]

theorem vget_set (vs : List Rat) (l l' : Int) (x : Rat) (hl : 0 ≤ l) (hl' : 0 ≤ l') :
    vget (vs.set l.toNat x) l' = if l = l' ∧ l.toNat < vs.length then x else vget vs l' := by
  unfold vget
  rw [getD_set_eq]
  have : (l.toNat = l'.toNat) ↔ l = l' := by omega
  simp only [this]

theorem scoreOf_nonneg {ps : List (Int × Rat)} (h : ∀ p ∈ ps, 0 ≤ p.2) (l : Int) : 0 ≤ scoreOf ps l := by
  induction ps with
  | nil => simp [scoreOf]
  | cons p ps ih =>
    simp only [scoreOf]
    have h1 : 0 ≤ p.2 := h p (List.mem_cons_self ..)
    have h2 := ih (fun q hq => h q (List.mem_cons_of_mem _ hq))
    split <;> linarith

theorem scoreOf_eq_zero {ps : List (Int × Rat)} {l : Int} (h : ∀ p ∈ ps, p.1 ≠ l) : scoreOf ps l = 0 := by
  induction ps with
  | nil => simp [scoreOf]
  | cons p ps ih =>
    simp only [scoreOf]
    rw [if_neg (h p (List.mem_cons_self ..)), ih (fun q hq => h q (List.mem_cons_of_mem _ hq))]
    simp

/-! ### second inner loop -/

theorem accFold_length (ps : List (Int × Rat)) (a : Acc) :
    (ps.foldl accStep a).votes.length = a.votes.length := by
  induction ps generalizing a with
  | nil => rfl
  | cons p ps ih =>
    simp only [List.foldl_cons]
    rw [ih]
    unfold accStep
    split <;> simp

theorem accFold_votes (ps : List (Int × Rat)) (a : Acc) (l : Int) (hl : 0 ≤ l)
    (hb : ∀ p ∈ ps, 0 ≤ p.1 → p.1.toNat < a.votes.length) :
    vget (ps.foldl accStep a).votes l = vget a.votes l + scoreOf ps l := by
  induction ps generalizing a with
  | nil => simp [scoreOf]
  | cons p ps ih =>
    simp only [List.foldl_cons, scoreOf]
    have hlen : (accStep a p).votes.length = a.votes.length := by
      unfold accStep; split <;> simp
    rw [ih (accStep a p) (fun q hq h0 => by rw [hlen]; exact hb q (List.mem_cons_of_mem _ hq) h0)]
    unfold accStep
    by_cases hp : 0 ≤ p.1
    · have hin := hb p (List.mem_cons_self ..) hp
      simp only [hp, if_true]
      rw [vget_set _ _ _ _ hp hl]
      by_cases he : p.1 = l
      · subst he
        simp only [hin, and_self, if_true]
        unfold vget
        ring
      · rw [if_neg (fun h => he h.1), if_neg he]
        ring
    · have hne : p.1 ≠ l := by omega
      rw [if_neg hp, if_neg hne]
      ring

theorem accFold_uniq (ps : List (Int × Rat)) (a : Acc) (y : Int) :
    y ∈ (ps.foldl accStep a).uniq ↔ y ∈ a.uniq ∨ (0 ≤ y ∧ ∃ w, (y, w) ∈ ps) := by
  induction ps generalizing a with
  | nil => simp
  | cons p ps ih =>
    simp only [List.foldl_cons]
    rw [ih]
    unfold accStep
    by_cases hp : 0 ≤ p.1
    · simp only [hp, if_true, mem_setInsert, List.mem_cons]
      constructor
      · rintro ((rfl | h) | ⟨h0, w, hw⟩)
        · exact Or.inr ⟨hp, p.2, Or.inl rfl⟩
        · exact Or.inl h
        · exact Or.inr ⟨h0, w, Or.inr hw⟩
      · rintro (h | ⟨h0, w, hw | hw⟩)
        · exact Or.inl (Or.inr h)
        · left; left
          have := congrArg Prod.fst hw
          simpa using this
        · exact Or.inr ⟨h0, w, hw⟩
    · simp only [hp, if_false, List.mem_cons]
      constructor
      · rintro (h | ⟨h0, w, hw⟩)
        · exact Or.inl h
        · exact Or.inr ⟨h0, w, Or.inr hw⟩
      · rintro (h | ⟨h0, w, hw | hw⟩)
        · exact Or.inl h
        · exfalso
          have := congrArg Prod.fst hw
          simp at this
          omega
        · exact Or.inr ⟨h0, w, hw⟩

theorem accFold_sorted (ps : List (Int × Rat)) (a : Acc) (h : a.uniq.Pairwise (· < ·)) :
    (ps.foldl accStep a).uniq.Pairwise (· < ·) := by
  induction ps generalizing a with
  | nil => exact h
  | cons p ps ih =>
    simp only [List.foldl_cons]
    apply ih
    unfold accStep
    split
    · exact setInsert_sorted h
    · exact h

/-! ### third inner loop -/

theorem selFold_length (u : List Int) (s : Sel) : (u.foldl selStep s).votes.length = s.votes.length := by
  induction u generalizing s with
  | nil => rfl
  | cons x xs ih =>
    simp only [List.foldl_cons]
    rw [ih]
    simp [selStep]

theorem vget_out_of_range {vs : List Rat} {l : Int} (h : vs.length ≤ l.toNat) : vget vs l = 0 := by
  unfold vget
  simp [List.getD_eq_getElem?_getD, List.getElem?_eq_none h]

theorem selFold_votes (u : List Int) (s : Sel) (l : Int) (hl : 0 ≤ l) (hu : ∀ x ∈ u, 0 ≤ x) :
    vget (u.foldl selStep s).votes l = if l ∈ u then 0 else vget s.votes l := by
  induction u generalizing s with
  | nil => simp
  | cons x xs ih =>
    simp only [List.foldl_cons]
    rw [ih _ (fun y hy => hu y (List.mem_cons_of_mem _ hy))]
    have hx := hu x (List.mem_cons_self ..)
    have hv : vget (selStep s x).votes l = if x = l ∧ x.toNat < s.votes.length then 0 else vget s.votes l := by
      unfold selStep
      exact vget_set _ _ _ _ hx hl
    by_cases hm : l ∈ xs
    · simp [hm]
    · rw [if_neg hm, hv]
      by_cases he : x = l
      · subst he
        by_cases hlt : x.toNat < s.votes.length
        · simp [hlt]
        · have := vget_out_of_range (vs := s.votes) (l := x) (by omega)
          simp [hlt, this]
      · have : ¬ (l = x ∨ l ∈ xs) := by
          rintro (h | h)
          · exact he h.symm
          · exact hm h
        simp [he, List.mem_cons, this]

theorem selStep_best (s : Sel) (x : Int) :
    (selStep s x).best = if s.best < vget s.votes x then vget s.votes x else s.best := rfl

theorem selStep_label (s : Sel) (x : Int) :
    (selStep s x).label = if s.best < vget s.votes x then x else s.label := rfl

theorem selFold_spec (u : List Int) (s : Sel) (hnd : u.Nodup) (hu : ∀ x ∈ u, 0 ≤ x) :
    (∀ l ∈ u, vget s.votes l ≤ (u.foldl selStep s).best) ∧ s.best ≤ (u.foldl selStep s).best ∧
    (((u.foldl selStep s).best = s.best ∧ (u.foldl selStep s).label = s.label) ∨
     ((u.foldl selStep s).label ∈ u ∧ vget s.votes (u.foldl selStep s).label = (u.foldl selStep s).best ∧
        s.best < (u.foldl selStep s).best)) := by
  induction u generalizing s with
  | nil => simp
  | cons x xs ih =>
    have hnd' := List.nodup_cons.mp hnd
    have hx := hu x (List.mem_cons_self ..)
    have hxs : ∀ y ∈ xs, 0 ≤ y := fun y hy => hu y (List.mem_cons_of_mem _ hy)
    simp only [List.foldl_cons]
    obtain ⟨h1, h2, h3⟩ := ih (selStep s x) hnd'.2 hxs
    have hsame : ∀ y ∈ xs, vget (selStep s x).votes y = vget s.votes y := by
      intro y hy
      have hne : x ≠ y := fun h => hnd'.1 (h ▸ hy)
      have : vget (selStep s x).votes y = if x = y ∧ x.toNat < s.votes.length then 0 else vget s.votes y := by
        unfold selStep
        exact vget_set _ _ _ _ hx (hxs y hy)
      rw [this, if_neg (fun h => hne h.1)]
    have hstep : s.best ≤ (selStep s x).best ∧ vget s.votes x ≤ (selStep s x).best := by
      rw [selStep_best]
      split
      · constructor <;> linarith
      · constructor <;> linarith
    refine ⟨?_, ?_, ?_⟩
    · intro l hl
      rcases List.mem_cons.mp hl with rfl | hl
      · linarith [hstep.2]
      · rw [← hsame l hl]
        exact h1 l hl
    · linarith [hstep.1]
    · rcases h3 with ⟨hb, hl⟩ | ⟨hm, hv, hlt⟩
      · by_cases hc : s.best < vget s.votes x
        · right
          refine ⟨?_, ?_, ?_⟩
          · rw [hl, selStep_label, if_pos hc]
            exact List.mem_cons_self ..
          · rw [hl, selStep_label, if_pos hc, hb, selStep_best, if_pos hc]
          · rw [hb, selStep_best, if_pos hc]
            exact hc
        · left
          rw [hb, hl, selStep_best, selStep_label, if_neg hc, if_neg hc]
          exact ⟨rfl, rfl⟩
      · right
        refine ⟨List.mem_cons_of_mem _ hm, ?_, ?_⟩
        · rw [← hsame _ hm]
          exact hv
        · linarith [hstep.1]

/-! ### one node -/

/-- the scratch vector is clear -/
def Clear (vs : List Rat) : Prop := ∀ k : Nat, vs.getD k 0 = 0

/-- every non-negative label of the list has a cell among `K` -/
def InRange (labels : List Int) (K : Nat) : Prop := ∀ x ∈ labels, 0 ≤ x → x.toNat < K

theorem vget_clear {vs : List Rat} (h : Clear vs) (l : Int) : vget vs l = 0 := h _

theorem getD_mem_or_default (l : List Int) (j : Nat) (d : Int) : l.getD j d = d ∨ l.getD j d ∈ l := by
  by_cases h : j < l.length
  · right
    rw [List.getD_eq_getElem?_getD, List.getElem?_eq_getElem h]
    exact List.getElem_mem h
  · left
    rw [List.getD_eq_getElem?_getD, List.getElem?_eq_none (by omega)]
    rfl

theorem neigh_label (c : Csr Rat) (labels : List Int) (i : Nat) :
    ∀ p ∈ neigh c labels i, p.1 = -1 ∨ p.1 ∈ labels := by
  intro p hp
  unfold neigh at hp
  obtain ⟨q, _, rfl⟩ := List.mem_map.mp hp
  exact getD_mem_or_default _ _ _

theorem neigh_weight (c : Csr Rat) (labels : List Int) (i : Nat) (hw : ∀ p, 0 ≤ c.data.getD p 0) :
    ∀ p ∈ neigh c labels i, 0 ≤ p.2 := by
  intro p hp
  unfold neigh at hp
  obtain ⟨q, _, rfl⟩ := List.mem_map.mp hp
  exact hw q

/-- the label `voteNode` writes at `i` -/
def chosen (c : Csr Rat) (st : St) (i : Nat) : Int :=
  (select (accumulate (neigh c st.labels i) st.votes).uniq (accumulate (neigh c st.labels i) st.votes).votes
    (st.labels.getD i (-1))).label

theorem voteNode_labels (c : Csr Rat) (st : St) (i : Nat) :
    (voteNode c st i).labels = st.labels.set i (chosen c st i) := rfl

theorem voteNode_spec (c : Csr Rat) (st : St) (i : Nat) (hclear : Clear st.votes)
    (hr : InRange st.labels st.votes.length) (hw : ∀ p ∈ neigh c st.labels i, 0 ≤ p.2) :
    Clear (voteNode c st i).votes ∧ (voteNode c st i).votes.length = st.votes.length ∧
    ((¬ ∃ p ∈ neigh c st.labels i, 0 ≤ p.1) → chosen c st i = st.labels.getD i (-1)) ∧
    ((∃ p ∈ neigh c st.labels i, 0 ≤ p.1) →
      (0 ≤ chosen c st i ∧ (∃ w, (chosen c st i, w) ∈ neigh c st.labels i) ∧
        ∀ p ∈ neigh c st.labels i, 0 ≤ p.1 →
          scoreOf (neigh c st.labels i) p.1 ≤ scoreOf (neigh c st.labels i) (chosen c st i))) := by
  set ps := neigh c st.labels i with hps
  have hb : ∀ p ∈ ps, 0 ≤ p.1 → p.1.toNat < st.votes.length := by
    intro p hp h0
    rcases neigh_label c st.labels i p hp with h | h
    · omega
    · exact hr _ h h0
  set a := accumulate ps st.votes with ha
  have hvotes : ∀ l, 0 ≤ l → vget a.votes l = scoreOf ps l := by
    intro l hl
    have := accFold_votes ps ⟨[], st.votes⟩ l hl hb
    rw [ha]
    unfold accumulate
    rw [this, vget_clear hclear]
    simp
  have huniq : ∀ y, y ∈ a.uniq ↔ (0 ≤ y ∧ ∃ w, (y, w) ∈ ps) := by
    intro y
    have := accFold_uniq ps ⟨[], st.votes⟩ y
    rw [ha]
    unfold accumulate
    rw [this]
    simp
  have hsorted : a.uniq.Pairwise (· < ·) := by
    rw [ha]
    unfold accumulate
    exact accFold_sorted ps ⟨[], st.votes⟩ List.Pairwise.nil
  have hnn : ∀ x ∈ a.uniq, 0 ≤ x := fun x hx => ((huniq x).mp hx).1
  have hlen : a.votes.length = st.votes.length := by
    rw [ha]
    unfold accumulate
    exact accFold_length ps ⟨[], st.votes⟩
  obtain ⟨s1, s2, s3⟩ := selFold_spec a.uniq ⟨st.labels.getD i (-1), -1, a.votes⟩ (sorted_nodup hsorted) hnn
  have hchosen : chosen c st i = (a.uniq.foldl selStep ⟨st.labels.getD i (-1), -1, a.votes⟩).label := rfl
  have hnode : (voteNode c st i).votes = (a.uniq.foldl selStep ⟨st.labels.getD i (-1), -1, a.votes⟩).votes := rfl
  refine ⟨?_, ?_, ?_, ?_⟩
  · intro k
    rw [hnode]
    have h0 : (0 : Int) ≤ (k : Int) := Int.natCast_nonneg k
    have := selFold_votes a.uniq ⟨st.labels.getD i (-1), -1, a.votes⟩ (k : Int) h0 hnn
    unfold vget at this
    simp only [Int.toNat_natCast] at this
    rw [this]
    split
    · rfl
    · rename_i hk
      have hz : scoreOf ps (k : Int) = 0 := by
        apply scoreOf_eq_zero
        intro p hp hpe
        apply hk
        rw [huniq]
        exact ⟨h0, p.2, by rw [← hpe]; exact hp⟩
      have := hvotes (k : Int) h0
      unfold vget at this
      simp only [Int.toNat_natCast] at this
      rw [this, hz]
  · rw [hnode, selFold_length]
    exact hlen
  · intro hnone
    have hnil : a.uniq = [] := by
      apply List.eq_nil_iff_forall_not_mem.mpr
      intro y hy
      obtain ⟨h0, w, hw'⟩ := (huniq y).mp hy
      exact hnone ⟨(y, w), hw', h0⟩
    rw [hchosen, hnil]
    rfl
  · rintro ⟨p0, hp0, h00⟩
    have hm0 : p0.1 ∈ a.uniq := (huniq p0.1).mpr ⟨h00, p0.2, hp0⟩
    have hs0 : 0 ≤ scoreOf ps p0.1 := scoreOf_nonneg hw _
    have hbest : (0 : Rat) ≤ (a.uniq.foldl selStep ⟨st.labels.getD i (-1), -1, a.votes⟩).best := by
      have := s1 p0.1 hm0
      simp only at this
      rw [hvotes _ h00] at this
      linarith
    rcases s3 with ⟨hb', _⟩ | ⟨hm, hv, _⟩
    · exfalso
      simp only at hb'
      rw [hb'] at hbest
      linarith
    · rw [← hchosen] at hm hv
      have hc0 := hnn _ hm
      refine ⟨hc0, ((huniq _).mp hm).2, ?_⟩
      intro p hp h0
      have hmp : p.1 ∈ a.uniq := (huniq p.1).mpr ⟨h0, p.2, hp⟩
      have := s1 p.1 hmp
      simp only at this hv
      rw [hvotes _ h0] at this
      rw [hvotes _ hc0] at hv
      linarith

/-! ### the sweep -/

theorem getD_set_ne (l : List Int) (i j : Nat) (a d : Int) (h : i ≠ j) : (l.set i a).getD j d = l.getD j d := by
  simp [List.getD_eq_getElem?_getD, h]

theorem sweep_length (c : Csr Rat) (index : List Nat) (st : St) :
    (sweep c st index).labels.length = st.labels.length := by
  unfold sweep
  induction index generalizing st with
  | nil => rfl
  | cons i is ih =>
    simp only [List.foldl_cons]
    rw [ih, voteNode_labels]
    simp

/-- nodes outside the update index are never written -/
theorem sweep_outside (c : Csr Rat) (index : List Nat) (st : St) (j : Nat) (d : Int) (hj : j ∉ index) :
    (sweep c st index).labels.getD j d = st.labels.getD j d := by
  unfold sweep
  induction index generalizing st with
  | nil => rfl
  | cons i is ih =>
    simp only [List.foldl_cons]
    rw [ih _ (fun h => hj (List.mem_cons_of_mem _ h)), voteNode_labels]
    exact getD_set_ne _ _ _ _ _ (fun h => hj (h ▸ List.mem_cons_self ..))

/-- invariant of the sweep: scratch clear, sizes constant, every label comes from the initial labels `L0` -/
structure Inv (L0 : List Int) (K n : Nat) (st : St) : Prop where
  clear : Clear st.votes
  len : st.votes.length = K
  sub : ∀ x ∈ st.labels, x ∈ L0
  size : st.labels.length = n

theorem voteNode_inv (c : Csr Rat) (hw : ∀ p, 0 ≤ c.data.getD p 0) {L0 : List Int} {K n : Nat}
    (hK : InRange L0 K) {st : St} (h : Inv L0 K n st) (i : Nat) (hi : i < n) :
    Inv L0 K n (voteNode c st i) := by
  have hr : InRange st.labels st.votes.length := by
    intro x hx h0
    rw [h.len]
    exact hK x (h.sub x hx) h0
  obtain ⟨h1, h2, h3, h4⟩ := voteNode_spec c st i h.clear hr (neigh_weight c st.labels i hw)
  refine ⟨h1, by rw [h2, h.len], ?_, by rw [voteNode_labels]; simp [h.size]⟩
  intro x hx
  rw [voteNode_labels] at hx
  rcases List.mem_or_eq_of_mem_set hx with hx | rfl
  · exact h.sub x hx
  · by_cases hex : ∃ p ∈ neigh c st.labels i, 0 ≤ p.1
    · obtain ⟨h0, ⟨w, hwm⟩, _⟩ := h4 hex
      rcases neigh_label c st.labels i _ hwm with hl | hl
      · simp only at hl
        omega
      · exact h.sub _ hl
    · rw [h3 hex]
      have hlt : i < st.labels.length := by rw [h.size]; exact hi
      apply h.sub
      rw [List.getD_eq_getElem?_getD, List.getElem?_eq_getElem hlt]
      exact List.getElem_mem hlt

end SkNet.Vote
