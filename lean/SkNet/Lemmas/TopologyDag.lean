/-
C11 helper lemmas: what `getDag` keeps — row `i` of the result is the list of `j` (increasing) with
`edge i j`, `0 ≤ order i` and `order i < order j`.
-/
import SkNet.Lemmas.TopologyCsr

set_option linter.unusedSimpArgs false

namespace SkNet.Topology

/-- the condition under which `dagStep order value` zeroes the entry -/
def killed (order : List Int) (value : Int) (e : Entry) : Bool :=
  if value < 0 then order.getD e.row 0 == value
  else order.getD e.row 0 == value && decide (order.getD e.col 0 ≤ value)

theorem dagStep_eq (order : List Int) (value : Int) (es : List Entry) :
    dagStep order value es = es.map fun e => if killed order value e then { e with keep := false } else e := by
  unfold dagStep killed
  apply List.map_congr_left
  intro e _
  by_cases h : value < 0 <;> simp [h]

theorem dagLoop_eq (order : List Int) (values : List Int) (es : List Entry) :
    dagLoop order values es =
      es.map fun e => if values.any (killed order · e) then { e with keep := false } else e := by
  unfold dagLoop
  induction values generalizing es with
  | nil => simp
  | cons v vs ih =>
    rw [List.foldl_cons, ih, dagStep_eq, List.map_map]
    apply List.map_congr_left
    intro e _
    simp only [Function.comp, List.any_cons]
    by_cases h1 : killed order v e
    · simp only [h1, if_true, Bool.true_or]
      have hk : (fun x => killed order x { e with keep := false }) = (fun x => killed order x e) := by
        funext x; simp [killed]
      rw [hk]
      by_cases h2 : vs.any (fun x => killed order x e) <;> simp [h2]
    · simp [h1]

/-- the orientation rule of `get_dag` -/
def keepPred (order : List Int) (i j : Nat) : Bool :=
  decide (0 ≤ order.getD i 0) && decide (order.getD i 0 < order.getD j 0)

theorem killed_iff (order : List Int) (v : Int) (e : Entry) :
    killed order v e = true ↔
      order.getD e.row 0 = v ∧ (v < 0 ∨ order.getD e.col 0 ≤ v) := by
  unfold killed
  generalize order.getD e.row 0 = a
  generalize order.getD e.col 0 = b
  by_cases hv : v < 0
  · simp only [hv, if_true, beq_iff_eq, true_or, and_true]
  · simp only [hv, if_false, Bool.and_eq_true, beq_iff_eq, decide_eq_true_eq, false_or]

theorem any_killed (order : List Int) (e : Entry) (h : e.row < order.length) :
    order.eraseDups.any (killed order · e) = !keepPred order e.row e.col := by
  have hmem : order.getD e.row 0 ∈ order.eraseDups := by
    rw [List.mem_eraseDups]
    rw [List.getD_eq_getElem?_getD, List.getElem?_eq_getElem h]
    exact List.getElem_mem h
  rw [Bool.eq_iff_iff]
  simp only [List.any_eq_true, killed_iff, keepPred, Bool.not_eq_true', Bool.and_eq_false_iff,
    decide_eq_false_iff_not]
  generalize order.getD e.row 0 = a at *
  generalize order.getD e.col 0 = b at *
  constructor
  · rintro ⟨v, _, rfl, h2⟩; omega
  · intro h2; exact ⟨a, hmem, rfl, by omega⟩

theorem flatMap_single {α : Type} (l : List Nat) (i : Nat) (X : Nat → List α) (hn : l.Nodup) (hi : i ∈ l) :
    l.flatMap (fun a => if a = i then X a else []) = X i := by
  induction l with
  | nil => simp at hi
  | cons a as ih =>
    rw [List.nodup_cons] at hn
    rw [List.flatMap_cons]
    by_cases h : a = i
    · subst h
      have : as.flatMap (fun b => if b = a then X b else []) = [] := by
        rw [List.flatMap_eq_nil_iff]
        intro b hb
        have : b ≠ a := fun e => hn.1 (e ▸ hb)
        simp [this]
      simp [this]
    · have hi' : i ∈ as := by
        rcases List.mem_cons.1 hi with e | e
        · exact absurd e.symm h
        · exact e
      simp [h, ih hn.2 hi']

theorem flatMap_congr' {α β : Type} (l : List α) (f g : α → List β) (h : ∀ a ∈ l, f a = g a) :
    l.flatMap f = l.flatMap g := by
  rw [List.flatMap_def, List.flatMap_def, List.map_congr_left h]

/-- the loop, `eliminate_zeros` and the selection of row `i`, entry by entry -/
theorem processed_row (order : List Int) (values : List Int) (es : List Entry) (i : Nat) :
    ((((es.map fun e => if values.any (fun x => killed order x e) then { e with keep := false } else e).filter
        (·.keep)).filter (fun e => e.row == i)).map (·.col))
      = (es.filter fun e => e.keep && !(values.any fun x => killed order x e) && e.row == i).map (·.col) := by
  induction es with
  | nil => rfl
  | cons e es ih =>
    rw [List.map_cons]
    by_cases h1 : values.any (fun x => killed order x e) = true
    · simp only [h1, if_true, List.filter_cons, Bool.false_eq_true, if_false, Bool.not_true, Bool.and_false,
        Bool.false_and]
      exact ih
    · rw [Bool.not_eq_true] at h1
      simp only [h1, Bool.false_eq_true, if_false, List.filter_cons, Bool.not_false, Bool.and_true]
      by_cases h2 : e.keep = true
      · simp only [h2, if_true, List.filter_cons, Bool.true_and]
        by_cases h3 : (e.row == i) = true
        · simp only [h3, if_true, List.map_cons]; rw [ih]
        · simp only [h3, if_false]; exact ih
      · simp only [h2, if_false, Bool.false_and]
        rw [Bool.not_eq_true] at h2
        simp only [h2, Bool.false_and, Bool.false_eq_true, if_false]
        exact ih

/-- rows of the DAG: the kept out-neighbours, in increasing order -/
theorem getDag_rows (n : Nat) (edge : Nat → Nat → Bool) (order : List Int) (hlen : order.length = n)
    (i : Nat) (hi : i < n) :
    (rowsOf n ((dagLoop order order.eraseDups (entriesOf n edge)).filter (·.keep))).getD i [] =
      (List.range n).filter fun j => edge i j && keepPred order i j := by
  unfold rowsOf
  rw [tab_getD, if_pos hi, dagLoop_eq, processed_row]
  unfold entriesOf
  rw [List.filter_flatMap, List.map_flatMap]
  have hblock : ∀ a ∈ List.range n,
      (fun a => ((((List.range n).filter (edge a)).map fun j => (⟨a, j, true⟩ : Entry)).filter
          fun e => e.keep && !(order.eraseDups.any fun x => killed order x e) && e.row == i).map (·.col)) a
        = (fun a => if a = i then (List.range n).filter (fun j => edge i j && keepPred order i j) else []) a := by
    intro a ha
    have ha' : a < order.length := by rw [hlen]; exact List.mem_range.1 ha
    simp only []
    rw [List.filter_map, List.map_map]
    have hid : ((fun e : Entry => e.col) ∘ fun j => (⟨a, j, true⟩ : Entry)) = id := by funext j; rfl
    rw [hid, List.map_id, List.filter_filter]
    by_cases hai : a = i
    · subst hai
      simp only [if_true]
      apply List.filter_congr
      intro j _
      simp only [Function.comp]
      have := any_killed order ⟨a, j, true⟩ ha'
      simp only at this
      rw [this]
      simp [Bool.and_comm]
    · simp only [hai, if_false]
      rw [List.filter_eq_nil_iff]
      intro j _
      simp [Function.comp, hai]
  rw [flatMap_congr' _ _ _ hblock]
  exact flatMap_single (List.range n) i _ List.nodup_range (List.mem_range.2 hi)

theorem rowsOf_length (n : Nat) (es : List Entry) : (rowsOf n es).length = n := by simp [rowsOf]

/-- the `i`-th row of `getDag`, read the way the kernels read it -/
theorem getDag_row (n : Nat) (edge : Nat → Nat → Bool) (order : List Int) (hlen : order.length = n)
    (i : Nat) (hi : i < n) :
    (getDag n edge order).row i = (List.range n).filter fun j => edge i j && keepPred order i j := by
  unfold getDag
  rw [csrOfRows_row _ i (by rw [rowsOf_length]; exact hi)]
  exact getDag_rows n edge order hlen i hi

theorem getDag_nodes (n : Nat) (edge : Nat → Nat → Bool) (order : List Int) :
    (getDag n edge order).indptr.length - 1 = n := by
  unfold getDag
  rw [csrOfRows_indptr_length, rowsOf_length]

end SkNet.Topology
