/-
C11 helper lemmas: what `getDag` keeps — row `i` of the result is the list of `j` (increasing) with
`edge i j`, `0 ≤ order i` and `order i < order j`.
-/
import SkNet.Lemmas.TopologyCsr

set_option linter.unusedSimpArgs false

namespace SkNet.Topology

/-- the orientation rule of `get_dag` -/
def keepPred (order : List Int) (i j : Nat) : Bool :=
  decide (0 ≤ order.getD i 0) && decide (order.getD i 0 < order.getD j 0)

/-- the mask zeroes exactly the entries that the orientation rule rejects -/
theorem masked_iff (order : List Int) (e : Entry) :
    (decide (order.getD e.row 0 < 0) || decide (order.getD e.col 0 ≤ order.getD e.row 0)) =
      !keepPred order e.row e.col := by
  unfold keepPred
  generalize order.getD e.row 0 = a
  generalize order.getD e.col 0 = b
  rw [Bool.eq_iff_iff]
  simp only [Bool.or_eq_true, decide_eq_true_eq, Bool.not_eq_true', Bool.and_eq_false_iff, decide_eq_false_iff_not]
  omega

theorem flatMap_single {α : Type} (l : List Nat) (i : Nat) (X : Nat → List α) (hn : l.Nodup) (hi : i ∈ l) :
    l.flatMap (fun a => if a = i then X a else []) = X i := by
  induction l with
  | nil => simp at hi
  | cons a as ih =>
    rw [List.nodup_cons] at hn
    rw [List.flatMap_cons]
    by_cases h : a = i
    · subst h
      have : as.flatMap (fun b => if b = a then X b else []) = [] := by
        rw [List.flatMap_eq_nil_iff]
        intro b hb
        have : b ≠ a := fun e => hn.1 (e ▸ hb)
        simp [this]
      simp [this]
    · have hi' : i ∈ as := by
        rcases List.mem_cons.1 hi with e | e
        · exact absurd e.symm h
        · exact e
      simp [h, ih hn.2 hi']

theorem flatMap_congr' {α β : Type} (l : List α) (f g : α → List β) (h : ∀ a ∈ l, f a = g a) :
    l.flatMap f = l.flatMap g := by
  rw [List.flatMap_def, List.flatMap_def, List.map_congr_left h]

/-- the mask, `eliminate_zeros` and the selection of row `i`, entry by entry -/
theorem processed_row (kill : Entry → Bool) (es : List Entry) (i : Nat) :
    ((((es.map fun e => if kill e then { e with keep := false } else e).filter
        (·.keep)).filter (fun e => e.row == i)).map (·.col))
      = (es.filter fun e => e.keep && !(kill e) && e.row == i).map (·.col) := by
  induction es with
  | nil => rfl
  | cons e es ih =>
    rw [List.map_cons]
    by_cases h1 : kill e = true
    · simp only [h1, if_true, List.filter_cons, Bool.false_eq_true, if_false, Bool.not_true, Bool.and_false,
        Bool.false_and]
      exact ih
    · rw [Bool.not_eq_true] at h1
      simp only [h1, Bool.false_eq_true, if_false, List.filter_cons, Bool.not_false, Bool.and_true]
      by_cases h2 : e.keep = true
      · simp only [h2, if_true, List.filter_cons, Bool.true_and]
        by_cases h3 : (e.row == i) = true
        · simp only [h3, if_true, List.map_cons]; rw [ih]
        · simp only [h3, if_false]; exact ih
      · simp only [h2, if_false, Bool.false_and]
        rw [Bool.not_eq_true] at h2
        simp only [h2, Bool.false_and, Bool.false_eq_true, if_false]
        exact ih

/-- rows of the DAG: the kept out-neighbours, in increasing order -/
theorem getDag_rows (n : Nat) (edge : Nat → Nat → Bool) (order : List Int)
    (i : Nat) (hi : i < n) :
    (rowsOf n (dagEntries n edge order)).getD i [] =
      (List.range n).filter fun j => edge i j && keepPred order i j := by
  unfold rowsOf dagEntries
  rw [tab_getD, if_pos hi]
  have hm : (entriesOf n edge).map (dagMask order) = (entriesOf n edge).map fun e =>
      if (fun e : Entry => decide (order.getD e.row 0 < 0) || decide (order.getD e.col 0 ≤ order.getD e.row 0)) e
      then { e with keep := false } else e := rfl
  rw [hm, processed_row]
  unfold entriesOf
  rw [List.filter_flatMap, List.map_flatMap]
  have hblock : ∀ a ∈ List.range n,
      (fun a => ((((List.range n).filter (edge a)).map fun j => (⟨a, j, true⟩ : Entry)).filter
          fun e => e.keep && !(decide (order.getD e.row 0 < 0) || decide (order.getD e.col 0 ≤ order.getD e.row 0))
            && e.row == i).map (·.col)) a
        = (fun a => if a = i then (List.range n).filter (fun j => edge i j && keepPred order i j) else []) a := by
    intro a _
    simp only []
    rw [List.filter_map, List.map_map]
    have hid : ((fun e : Entry => e.col) ∘ fun j => (⟨a, j, true⟩ : Entry)) = id := by funext j; rfl
    rw [hid, List.map_id, List.filter_filter]
    by_cases hai : a = i
    · subst hai
      simp only [if_true]
      apply List.filter_congr
      intro j _
      simp only [Function.comp]
      have := masked_iff order ⟨a, j, true⟩
      simp only at this
      rw [this]
      simp [Bool.and_comm]
    · simp only [hai, if_false]
      rw [List.filter_eq_nil_iff]
      intro j _
      simp [Function.comp, hai]
  rw [flatMap_congr' _ _ _ hblock]
  exact flatMap_single (List.range n) i _ List.nodup_range (List.mem_range.2 hi)

theorem rowsOf_length (n : Nat) (es : List Entry) : (rowsOf n es).length = n := by simp [rowsOf]

/-- the `i`-th row of `getDag`, read the way the kernels read it -/
theorem getDag_row (n : Nat) (edge : Nat → Nat → Bool) (order : List Int) (_hlen : order.length = n)
    (i : Nat) (hi : i < n) :
    (getDag n edge order).row i = (List.range n).filter fun j => edge i j && keepPred order i j := by
  unfold getDag
  rw [csrOfRows_row _ i (by rw [rowsOf_length]; exact hi)]
  exact getDag_rows n edge order i hi

theorem getDag_nodes (n : Nat) (edge : Nat → Nat → Bool) (order : List Int) :
    (getDag n edge order).indptr.length - 1 = n := by
  unfold getDag
  rw [csrOfRows_indptr_length, rowsOf_length]

end SkNet.Topology
