/- The duplicate removal of `get_cycles`: two returned cycles are never the same cycle. -/
import SkNet.Model.Cycles
import SkNet.Spec.Connectivity
import SkNet.Lemmas.GetCycles
import SkNet.Lemmas.BreakCycles

namespace SkNet.Cycles
open SkNet SkNet.Connectivity

/-! ### `np.sort` -/

theorem insertSorted_perm (a : Nat) (l : List Nat) : (insertSorted a l).Perm (a :: l) := by
  induction l with
  | nil => exact List.Perm.refl _
  | cons b l ih =>
    unfold insertSorted
    split
    · exact List.Perm.refl _
    · exact (List.Perm.cons b ih).trans (List.Perm.swap a b l)

theorem sortNat_perm (l : List Nat) : (sortNat l).Perm l := by
  induction l with
  | nil => exact List.Perm.refl _
  | cons a l ih =>
    have : sortNat (a :: l) = insertSorted a (sortNat l) := rfl
    rw [this]
    exact (insertSorted_perm a _).trans (List.Perm.cons a ih)

theorem insertSorted_sorted (a : Nat) (l : List Nat) (h : l.Pairwise (· ≤ ·)) :
    (insertSorted a l).Pairwise (· ≤ ·) := by
  induction l with
  | nil => simp [insertSorted]
  | cons b l ih =>
    unfold insertSorted
    split
    · rename_i hab
      refine List.pairwise_cons.mpr ⟨fun x hx => ?_, h⟩
      rcases List.mem_cons.mp hx with rfl | hx
      · exact hab
      · exact Nat.le_trans hab ((List.pairwise_cons.mp h).1 x hx)
    · rename_i hab
      have hb := List.pairwise_cons.mp h
      refine List.pairwise_cons.mpr ⟨fun x hx => ?_, ih hb.2⟩
      rcases (mem_insertSorted a x l).mp hx with rfl | hx
      · omega
      · exact hb.1 x hx

theorem sortNat_sorted (l : List Nat) : (sortNat l).Pairwise (· ≤ ·) := by
  induction l with
  | nil => simp [sortNat]
  | cons a l ih => exact insertSorted_sorted a _ ih

/-- two duplicate-free lists with the same members have the same sorted form -/
theorem sortNat_eq_of_sameNodes {c d : List Nat} (hc : c.Nodup) (hd : d.Nodup) (h : SameNodes c d) :
    sortNat c = sortNat d := by
  have hperm : c.Perm d := (List.perm_ext_iff_of_nodup hc hd).mpr fun a => ⟨h.1 a, h.2 a⟩
  apply List.Perm.eq_of_pairwise (le := (· ≤ ·)) (fun a b _ _ h1 h2 => Nat.le_antisymm h1 h2)
    (sortNat_sorted c) (sortNat_sorted d)
  exact (sortNat_perm c).trans (hperm.trans (sortNat_perm d).symm)

/-! ### `min(cycle)` and the rotation that puts it first -/

theorem minOf_cons_cons (a b : Nat) (l : List Nat) : minOf (a :: b :: l) = min a (minOf (b :: l)) := by
  rw [minOf]
  intro h; cases h

theorem head?_append_left {a b : List Nat} (h : a ≠ []) : (a ++ b).head? = a.head? := by
  obtain ⟨x, t, rfl⟩ := List.exists_cons_of_ne_nil h
  rfl

theorem minOf_mem {l : List Nat} (h : l ≠ []) : minOf l ∈ l := by
  induction l with
  | nil => exact absurd rfl h
  | cons a l ih =>
    cases l with
    | nil => simp [minOf]
    | cons b l =>
      rw [minOf_cons_cons]
      have := ih (by simp)
      rcases Nat.le_total a (minOf (b :: l)) with hle | hle
      · rw [Nat.min_eq_left hle]; exact List.mem_cons_self
      · rw [Nat.min_eq_right hle]; exact List.mem_cons_of_mem _ this

theorem minOf_le {l : List Nat} {x : Nat} (h : x ∈ l) : minOf l ≤ x := by
  induction l with
  | nil => cases h
  | cons a l ih =>
    cases l with
    | nil => simp at h; subst h; simp [minOf]
    | cons b l =>
      rw [minOf_cons_cons]
      rcases List.mem_cons.mp h with rfl | h
      · exact Nat.min_le_left _ _
      · exact Nat.le_trans (Nat.min_le_right _ _) (ih h)

theorem minOf_eq_of_sameNodes {c d : List Nat} (hc : c ≠ []) (hd : d ≠ []) (h : SameNodes c d) : minOf c = minOf d :=
  Nat.le_antisymm (minOf_le (h.2 _ (minOf_mem hd))) (minOf_le (h.1 _ (minOf_mem hc)))

/-- the least node comes first -/
def MinFirst (c : List Nat) : Prop := c.head? = some (minOf c)

theorem rollMin_sameNodes (c : List Nat) : SameNodes (rollMin c) c := by
  unfold rollMin SameNodes
  constructor
  · intro v hv
    rcases List.mem_append.mp hv with h | h
    · exact List.mem_of_mem_drop h
    · exact List.mem_of_mem_take h
  · intro v hv
    rw [← List.take_append_drop (c.idxOf (minOf c)) c] at hv
    rcases List.mem_append.mp hv with h | h
    · exact List.mem_append_right _ h
    · exact List.mem_append_left _ h

theorem rollMin_ne_nil {c : List Nat} (h : c ≠ []) : rollMin c ≠ [] := by
  intro hn
  obtain ⟨a, t, rfl⟩ := List.exists_cons_of_ne_nil h
  have := (rollMin_sameNodes (a :: t)).2 a List.mem_cons_self
  rw [hn] at this; cases this

theorem rollMin_minFirst {c : List Nat} (h : c ≠ []) : MinFirst (rollMin c) := by
  have hk : c.idxOf (minOf c) < c.length := List.idxOf_lt_length_iff.mpr (minOf_mem h)
  have hmin : minOf (rollMin c) = minOf c := minOf_eq_of_sameNodes (rollMin_ne_nil h) h (rollMin_sameNodes c)
  unfold MinFirst
  rw [hmin]
  have hd : c.drop (c.idxOf (minOf c)) ≠ [] := by
    intro hn
    have := congrArg List.length hn
    simp at this; omega
  show (c.drop (c.idxOf (minOf c)) ++ c.take (c.idxOf (minOf c))).head? = some (minOf c)
  rw [head?_append_left hd, List.head?_drop, List.getElem?_eq_getElem hk, List.getElem_idxOf hk]

/-- two duplicate-free cycles with their least node first that are rotations of each other are equal -/
theorem eq_of_sameRotation {a b : List Nat} (ha : a.Nodup) (hma : MinFirst a) (hmb : MinFirst b)
    (h : SameRotation a b) : a = b := by
  obtain ⟨k, hk, hrot⟩ := h
  unfold rotate at hrot
  rw [Nat.mod_eq_of_lt hk] at hrot
  have hane : a ≠ [] := by intro hn; rw [hn] at hk; simp at hk
  have hsame : SameNodes b a := by
    rw [← hrot]
    constructor
    · intro v hv
      rcases List.mem_append.mp hv with h | h
      · exact List.mem_of_mem_drop h
      · exact List.mem_of_mem_take h
    · intro v hv
      rw [← List.take_append_drop k a] at hv
      rcases List.mem_append.mp hv with h | h
      · exact List.mem_append_right _ h
      · exact List.mem_append_left _ h
  have hbne : b ≠ [] := by
    intro hn
    obtain ⟨x, t, rfl⟩ := List.exists_cons_of_ne_nil hane
    have := hsame.2 x List.mem_cons_self
    rw [hn] at this; cases this
  have hmin : minOf b = minOf a := minOf_eq_of_sameNodes hbne hane hsame
  have hd : a.drop k ≠ [] := by
    intro hn
    have := congrArg List.length hn
    simp at this; omega
  have hb0 : b.head? = some a[k] := by
    rw [← hrot, head?_append_left hd, List.head?_drop, List.getElem?_eq_getElem hk]
  have ha0 : a.head? = some a[0] := by
    obtain ⟨x, t, rfl⟩ := List.exists_cons_of_ne_nil hane; rfl
  unfold MinFirst at hma hmb
  rw [hb0, hmin] at hmb
  rw [ha0] at hma
  have : a[k] = a[0]'(by omega) := by
    have h1 := Option.some.inj hmb
    have h2 := Option.some.inj hma
    rw [h1, h2]
  have hk0 : k = 0 := (List.getElem_inj ha).mp this
  subst hk0
  simpa using hrot

/-! ### the duplicate removal keeps the keys apart -/

/-- the key under which `get_cycles` remembers a cycle -/
def cycleKey (directed : Bool) (c : List Nat) : List Nat := if directed then c else sortNat c

theorem dedupCycles_pairwise (directed : Bool) (cycles visited unique : List (List Nat))
    (hv : ∀ c ∈ unique, cycleKey directed c ∈ visited)
    (hp : unique.Pairwise fun a b => cycleKey directed a ≠ cycleKey directed b) :
    (dedupCycles directed cycles (visited, unique)).Pairwise fun a b => cycleKey directed a ≠ cycleKey directed b := by
  induction cycles generalizing visited unique with
  | nil => simpa [dedupCycles] using hp
  | cons cy rest ih =>
    unfold dedupCycles
    simp only
    have hkey : (if directed = true then rollMin cy else sortNat (rollMin cy)) = cycleKey directed (rollMin cy) := rfl
    rw [hkey]
    by_cases hin : visited.contains (cycleKey directed (rollMin cy)) = true
    · simp only [hin, ↓reduceIte]
      exact ih visited unique hv hp
    · simp only [hin, Bool.false_eq_true, ↓reduceIte]
      apply ih
      · intro c hc
        rcases List.mem_append.mp hc with h | h
        · exact List.mem_cons_of_mem _ (hv c h)
        · simp only [List.mem_singleton] at h; subst h; exact List.mem_cons_self
      · rw [List.pairwise_append]
        refine ⟨hp, by simp, fun a ha b hb => ?_⟩
        simp only [List.mem_singleton] at hb; subst hb
        intro heq
        apply hin
        rw [← heq]
        simpa using hv a ha

end SkNet.Cycles
