/-
C15 lemmas for the type change `astype(int)`: the stored parts become integers, hence an operator cast to `int`
(SparseLR, CoNeighbor) maps integer vectors to integer vectors — the representation-independent content of the cast
that the harness checks on the implementation's outputs (`c15.spec_integral`).
-/
import SkNet.Lemmas.LinOpSLR
import SkNet.Spec.LinOp

namespace SkNet.LinOp
open SkNet

/-- `x` is an integer -/
def IsInt (x : Rat) : Prop := ∃ n : Int, x = (n : Rat)

namespace IsInt

theorem zero : IsInt 0 := ⟨0, by simp⟩
theorem add {x y : Rat} (hx : IsInt x) (hy : IsInt y) : IsInt (x + y) := by
  obtain ⟨a, rfl⟩ := hx; obtain ⟨b, rfl⟩ := hy; exact ⟨a + b, by push_cast; ring⟩
theorem mul {x y : Rat} (hx : IsInt x) (hy : IsInt y) : IsInt (x * y) := by
  obtain ⟨a, rfl⟩ := hx; obtain ⟨b, rfl⟩ := hy; exact ⟨a * b, by push_cast; ring⟩

theorem sumTo {n : Nat} {f : Nat → Rat} (h : ∀ k, k < n → IsInt (f k)) : IsInt (SkNet.LinOp.sumTo n f) := by
  induction n with
  | zero => exact zero
  | succ n ih =>
    show IsInt (SkNet.LinOp.sumTo n f + f n)
    exact add (ih fun k hk => h k (Nat.lt_succ_of_lt hk)) (h n (Nat.lt_succ_self n))

end IsInt

theorem isInt_rtrunc (x : Rat) : IsInt (rtrunc x) := ⟨_, rfl⟩

theorem getD_map_rcast (l : List Rat) (j : Nat) : IsInt ((l.map (rcast .int)).getD j 0) := by
  rw [List.getD_eq_getElem?_getD, List.getElem?_map]
  cases l[j]? with
  | none => exact IsInt.zero
  | some x => exact isInt_rtrunc x

/-- every entry of a vector cast to `int` is an integer -/
theorem isInt_vget_vcast (v : Vec) (i : Nat) : IsInt (vget (vcast .int v) i) := getD_map_rcast v i

/-- every entry of a matrix cast to `int` is an integer -/
theorem isInt_get_cast (a : Mat) (i j : Nat) : IsInt ((a.cast .int).get i j) := by
  unfold Mat.get Mat.cast
  split
  · simp only
    rw [List.getD_eq_getElem?_getD (l := List.map _ a.rows), List.getElem?_map]
    cases a.rows[i]? with
    | none => exact IsInt.zero
    | some r => exact getD_map_rcast r j
  · exact IsInt.zero

/-- a matrix with integer entries maps integer vectors to integer vectors -/
theorem isInt_mulVec {a : Mat} {v : Vec} (ha : ∀ i j, IsInt (a.get i j)) (hv : ∀ j, IsInt (vget v j)) (i : Nat) :
    IsInt (vget (a.mulVec v) i) := by
  rw [Mat.vget_mulVec]
  exact IsInt.sumTo fun j _ => (ha i j).mul (hv j)

theorem isInt_lrEntry {ts : List (Vec × Vec)} (h : ∀ t ∈ ts, ∀ i, IsInt (vget t.1 i) ∧ IsInt (vget t.2 i)) (i j : Nat) :
    IsInt (SLR.lrEntry ts i j) := by
  induction ts with
  | nil => exact IsInt.zero
  | cons t ts ih =>
    rw [SLR.lrEntry_cons]
    exact ((h t (List.mem_cons_self ..) i).1.mul (h t (List.mem_cons_self ..) j).2).add
      (ih fun u hu => h u (List.mem_cons_of_mem _ hu))

/-- **SparseLR.astype(int)** maps integer vectors to integer vectors -/
theorem SLR.astype_int_integral (s : SLR) (v : Vec) (hv : ∀ j, IsInt (vget v j)) (i : Nat) :
    IsInt (vget ((s.astype .int).matvec v) i) := by
  by_cases hi : i < (s.astype .int).nRow
  · unfold SLR.matvec
    rw [SLR.foldl_matvec_get _ _ _ _ _ _ hi]
    refine (isInt_mulVec (fun i j => isInt_get_cast s.sparse i j) hv i).add (IsInt.sumTo fun j _ => ?_)
    refine (isInt_lrEntry (fun t ht k => ?_) i j).mul (hv j)
    unfold SLR.astype at ht
    simp only [List.mem_map] at ht
    obtain ⟨u, _, rfl⟩ := ht
    exact ⟨isInt_vget_vcast u.1 k, isInt_vget_vcast u.2 k⟩
  · rw [vget_of_ge (by rw [SLR.matvec_length]; exact Nat.le_of_not_lt hi)]
    exact IsInt.zero

/-- **CoNeighbor.astype(int)** maps integer vectors to integer vectors -/
theorem CoNeighbor.astype_int_integral (c : CoNeighbor) (v : Vec) (hv : ∀ j, IsInt (vget v j)) (i : Nat) :
    IsInt (vget ((c.astype .int).matvec v) i) := by
  unfold CoNeighbor.matvec CoNeighbor.astype
  exact isInt_mulVec (fun i j => isInt_get_cast c.backward i j)
    (fun j => isInt_mulVec (fun i j => isInt_get_cast c.forward i j) hv j) i

/-- the Boolean test of the driver is the integrality of every entry -/
theorem integralVec_iff (v : Vec) : integralVec v = true ↔ ∀ x ∈ v, IsInt x := by
  unfold integralVec
  rw [List.all_eq_true]
  constructor
  · intro h x hx
    have := h x hx
    exact ⟨x.num, by rw [beq_iff_eq] at this; exact (Rat.den_eq_one_iff x).mp this |>.symm⟩
  · intro h x hx
    obtain ⟨n, rfl⟩ := h x hx
    simp

end SkNet.LinOp
