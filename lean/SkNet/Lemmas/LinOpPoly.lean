/-
C15 lemmas: Polynome — the Ruffini–Horner loop equals the product by `Σ_k c_k M^k`; transposition,
negation and scaling of the polynomial.
-/
import SkNet.Lemmas.LinOpClasses

namespace SkNet.LinOp
open SkNet

namespace Mat

theorem identity_mul (a : Mat) : Eqv ((identity a.nRow).mul a) a := by
  refine ⟨rfl, rfl, fun i j => ?_⟩
  rw [get_mul, identity_nCol]
  simp only [get_identity]
  rw [show (fun k => (if i < a.nRow ∧ i = k then (1 : Rat) else 0) * a.get k j)
        = (fun k => if i = k then (if i < a.nRow then a.get k j else 0) else 0) from by
      funext k
      by_cases h1 : i = k
      · subst h1; by_cases h2 : i < a.nRow <;> simp [h2]
      · simp [h1]]
  rw [sumTo_ite_eq']
  by_cases h : i < a.nRow
  · simp [h]
  · simp [h, get_of_row_ge j (Nat.le_of_not_lt h)]

theorem mul_identity (a : Mat) : Eqv (a.mul (identity a.nCol)) a := by
  refine ⟨rfl, rfl, fun i j => ?_⟩
  rw [get_mul]
  simp only [get_identity]
  rw [show (fun k => a.get i k * (if k < a.nCol ∧ k = j then (1 : Rat) else 0))
        = (fun k => if k = j then a.get i k else 0) from by
      funext k
      by_cases h1 : k = j
      · subst h1
        by_cases h2 : k < a.nCol
        · simp [h2]
        · simp [h2, get_of_col_ge i (Nat.le_of_not_lt h2)]
      · simp [h1]]
  rw [sumTo_ite_eq]
  by_cases h : j < a.nCol
  · simp [h]
  · simp [h, get_of_col_ge i (Nat.le_of_not_lt h)]

theorem pow_nRow (a : Mat) (k : Nat) : (a.pow k).nRow = a.nRow := by
  induction k with
  | zero => rfl
  | succ k ih => simp [pow, ih]

theorem pow_nCol (a : Mat) (hsq : a.nCol = a.nRow) (k : Nat) : (a.pow k).nCol = a.nRow := by
  cases k with
  | zero => rfl
  | succ k => simp [pow, hsq]

/-- powers commute with the matrix -/
theorem pow_comm (a : Mat) (hsq : a.nCol = a.nRow) (k : Nat) : Eqv ((a.pow k).mul a) (a.mul (a.pow k)) := by
  induction k with
  | zero =>
    show Eqv ((identity a.nRow).mul a) (a.mul (identity a.nRow))
    rw [← hsq]
    exact (by rw [hsq]; exact identity_mul a : Eqv ((identity a.nCol).mul a) a).trans (mul_identity a).symm
  | succ k ih =>
    show Eqv (((a.pow k).mul a).mul a) (a.mul ((a.pow k).mul a))
    exact (Eqv.mul ih (Eqv.refl a)).trans (mul_assoc a (a.pow k) a)

theorem transpose_identity (n : Nat) : Eqv (identity n).transpose (identity n) := by
  refine ⟨rfl, rfl, fun i j => ?_⟩
  rw [get_transpose, get_identity, get_identity]
  by_cases h : i = j
  · subst h; rfl
  · have h' : ¬ j = i := fun e => h e.symm
    simp [h, h']

theorem pow_transpose (a : Mat) (hsq : a.nCol = a.nRow) (k : Nat) : Eqv (a.transpose.pow k) (a.pow k).transpose := by
  induction k with
  | zero =>
    show Eqv (identity a.nCol) (identity a.nRow).transpose
    rw [hsq]; exact (transpose_identity a.nRow).symm
  | succ k ih =>
    show Eqv ((a.transpose.pow k).mul a.transpose) ((a.pow k).mul a).transpose
    have h1 : Eqv ((a.transpose.pow k).mul a.transpose) ((a.pow k).transpose.mul a.transpose) :=
      Eqv.mul ih (Eqv.refl _)
    have h2 : Eqv (a.mul (a.pow k)).transpose ((a.pow k).transpose.mul a.transpose) :=
      transpose_mul a (a.pow k) (by rw [pow_nRow, hsq])
    exact h1.trans (h2.symm.trans (Eqv.transpose (pow_comm a hsq k).symm))

theorem mul_zero_right (a : Mat) (n m : Nat) : Eqv (a.mul (zero n m)) (zero a.nRow m) := by
  refine ⟨rfl, rfl, fun i j => ?_⟩
  rw [get_mul, get_zero]
  apply sumTo_eq_zero; intro k _
  rw [get_zero]; ring

end Mat

namespace Polynome

theorem init_ok {a : Mat} {cs : List Rat} {p : Polynome} (h : init a cs = .ok p) :
    p = ⟨a, cs⟩ ∧ cs ≠ [] ∧ a.nCol = a.nRow ∧ a.isNull = false := by
  unfold init at h
  split at h
  · cases h
  · split at h
    · cases h
    · split at h
      · cases h
      · rename_i h1 h2 h3
        refine ⟨by cases h; rfl, ?_, (not_not.mp h3).symm, by simpa using h2⟩
        intro e; subst e; simp at h1

theorem init_eq (a : Mat) (cs : List Rat) (hne : cs ≠ []) (hsq : a.nCol = a.nRow) (hnn : a.isNull = false) :
    init a cs = .ok ⟨a, cs⟩ := by
  unfold init
  have h1 : cs.isEmpty = false := by cases cs <;> simp_all
  simp [h1, hnn, hsq.symm]

theorem powerSum_nRow (m : Mat) (cs : List Rat) (k : Nat) : (powerSum m cs k).nRow = m.nRow := by
  cases cs with
  | nil => rfl
  | cons c cs => simp [powerSum, Mat.pow_nRow]

theorem powerSum_nCol (m : Mat) (hsq : m.nCol = m.nRow) (cs : List Rat) (k : Nat) :
    (powerSum m cs k).nCol = m.nRow := by
  cases cs with
  | nil => rfl
  | cons c cs => simp [powerSum, Mat.pow_nCol m hsq]

/-- `Σ_j c_j M^{k+1+j} = M · Σ_j c_j M^{k+j}` -/
theorem powerSum_shift (m : Mat) (hsq : m.nCol = m.nRow) (cs : List Rat) (k : Nat) :
    Mat.Eqv (powerSum m cs (k+1)) (m.mul (powerSum m cs k)) := by
  induction cs generalizing k with
  | nil =>
    show Mat.Eqv (Mat.zero m.nRow m.nRow) (m.mul (Mat.zero m.nRow m.nRow))
    exact (Mat.mul_zero_right m m.nRow m.nRow).symm
  | cons c cs ih =>
    show Mat.Eqv (((m.pow (k+1)).smul c).add (powerSum m cs (k+2)))
      (m.mul (((m.pow k).smul c).add (powerSum m cs (k+1))))
    have hr : ((m.pow k).smul c).nRow = (powerSum m cs (k+1)).nRow := by
      simp [Mat.pow_nRow, powerSum_nRow]
    have hc : ((m.pow k).smul c).nCol = (powerSum m cs (k+1)).nCol := by
      simp [Mat.pow_nCol m hsq, powerSum_nCol m hsq]
    refine Mat.Eqv.trans ?_ (Mat.mul_add_left m _ _ hr hc).symm
    apply Mat.Eqv.add
    · show Mat.Eqv (((m.pow k).mul m).smul c) (m.mul ((m.pow k).smul c))
      exact (Mat.Eqv.smul c (Mat.pow_comm m hsq k)).trans (Mat.smul_mul c m (m.pow k)).symm
    · exact ih (k+1)
    · simp [Mat.pow_nRow, powerSum_nRow]
    · simp [Mat.pow_nCol m hsq, powerSum_nCol m hsq]

/-- `(c I + M P) v` by entries -/
theorem powerSum_cons_mulVec (m : Mat) (hsq : m.nCol = m.nRow) (c : Rat) (cs : List Rat) (v : Vec)
    {i : Nat} (hi : i < m.nRow) :
    vget ((powerSum m (c :: cs) 0).mulVec v) i
      = vget (m.mulVec ((powerSum m cs 0).mulVec v)) i + c * vget v i := by
  show vget ((((m.pow 0).smul c).add (powerSum m cs 1)).mulVec v) i = _
  rw [Mat.vget_mulVec_add (by simp [Mat.pow_nRow, powerSum_nRow]) (by simp [Mat.pow_nCol m hsq, powerSum_nCol m hsq]),
    Mat.Eqv.mulVec (powerSum_shift m hsq cs 0), Mat.mulVec_mul]
  have : vget (((m.pow 0).smul c).mulVec v) i = c * vget v i := by
    rw [Mat.vget_mulVec]
    show sumTo (Mat.identity m.nRow).nCol (fun j => ((Mat.identity m.nRow).smul c).get i j * vget v j) = _
    simp only [Mat.identity_nCol, Mat.get_smul, Mat.get_identity]
    rw [show (fun j => c * (if i < m.nRow ∧ i = j then (1 : Rat) else 0) * vget v j)
          = (fun j => if i = j then c * vget v j else 0) from by
        funext j
        by_cases h : i = j
        · subst h; simp [hi]
        · simp [h]]
    rw [sumTo_ite_eq', if_pos hi]
  rw [this]; ring

/-! the Horner loop -/

theorem matvec_singleton (m : Mat) (c : Rat) (v : Vec) :
    matvec ⟨m, [c]⟩ v = tab v.length fun i => c * vget v i := rfl

theorem matvec_cons (m : Mat) (c : Rat) (cs : List Rat) (hcs : cs ≠ []) (v : Vec) :
    matvec ⟨m, c :: cs⟩ v
      = tab m.nRow fun i => vget (m.mulVec (matvec ⟨m, cs⟩ v)) i + c * vget v i := by
  unfold matvec
  simp only [List.reverse_cons]
  have hne : cs.reverse ≠ [] := by simpa using hcs
  cases hrev : cs.reverse with
  | nil => exact absurd hrev hne
  | cons h r =>
    simp only [List.cons_append]
    unfold hornerLoop
    rw [List.foldl_append]
    rfl

/-- **Horner's scheme equals the power sum**: `_matvec` of a Polynome is the product by `Σ_k c_k M^k` -/
theorem matvec_eq_dense (m : Mat) (hsq : m.nCol = m.nRow) (cs : List Rat) (hcs : cs ≠ []) (v : Vec)
    (hv : v.length = m.nRow) : matvec ⟨m, cs⟩ v = (powerSum m cs 0).mulVec v := by
  induction cs with
  | nil => exact absurd rfl hcs
  | cons c cs ih =>
    by_cases hcs' : cs = []
    · subst hcs'
      rw [matvec_singleton, hv]
      apply vec_ext (by simp [powerSum_nRow])
      intro i hi
      simp only [tab_length] at hi
      rw [vget_tab, if_pos hi, powerSum_cons_mulVec m hsq c [] v hi]
      have : vget (m.mulVec ((powerSum m [] 0).mulVec v)) i = 0 := by
        rw [Mat.vget_mulVec]
        apply sumTo_eq_zero; intro k _
        rw [Mat.vget_mulVec]
        have : sumTo (powerSum m [] 0).nCol (fun j => (powerSum m [] 0).get k j * vget v j) = 0 := by
          apply sumTo_eq_zero; intro j _
          show (Mat.zero m.nRow m.nRow).get k j * _ = 0
          rw [Mat.get_zero]; ring
        rw [this]; ring
      rw [this]; ring
    · rw [matvec_cons m c cs hcs' v, ih hcs']
      apply vec_ext (by simp [powerSum_nRow])
      intro i hi
      simp only [tab_length] at hi
      rw [vget_tab, if_pos hi, powerSum_cons_mulVec m hsq c cs v hi]

theorem powerSum_map_mul (m : Mat) (hsq : m.nCol = m.nRow) (k : Rat) (cs : List Rat) (j : Nat) :
    Mat.Eqv (powerSum m (cs.map fun c => k * c) j) ((powerSum m cs j).smul k) := by
  induction cs generalizing j with
  | nil =>
    refine ⟨rfl, rfl, fun a b => ?_⟩
    show (Mat.zero m.nRow m.nRow).get a b = ((Mat.zero m.nRow m.nRow).smul k).get a b
    rw [Mat.get_smul, Mat.get_zero]; ring
  | cons c cs ih =>
    show Mat.Eqv (((m.pow j).smul (k * c)).add (powerSum m (cs.map fun c => k * c) (j+1)))
      ((((m.pow j).smul c).add (powerSum m cs (j+1))).smul k)
    have hr : ((m.pow j).smul c).nRow = (powerSum m cs (j+1)).nRow := by simp [Mat.pow_nRow, powerSum_nRow]
    have hc : ((m.pow j).smul c).nCol = (powerSum m cs (j+1)).nCol := by
      simp [Mat.pow_nCol m hsq, powerSum_nCol m hsq]
    refine ⟨by simp, by simp, fun a b => ?_⟩
    rw [Mat.get_add (by simp [Mat.pow_nRow, powerSum_nRow]) (by simp [Mat.pow_nCol m hsq, powerSum_nCol m hsq]),
      (ih (j+1)).get, Mat.get_smul, Mat.get_smul, Mat.get_smul, Mat.get_add hr hc, Mat.get_smul]
    ring

theorem powerSum_transpose (m : Mat) (hsq : m.nCol = m.nRow) (cs : List Rat) (k : Nat) :
    Mat.Eqv (powerSum m.transpose cs k) (powerSum m cs k).transpose := by
  induction cs generalizing k with
  | nil =>
    show Mat.Eqv (Mat.zero m.nCol m.nCol) (Mat.zero m.nRow m.nRow).transpose
    rw [hsq]
    exact ⟨rfl, rfl, fun a b => by simp⟩
  | cons c cs ih =>
    show Mat.Eqv (((m.transpose.pow k).smul c).add (powerSum m.transpose cs (k+1)))
      (((m.pow k).smul c).add (powerSum m cs (k+1))).transpose
    have hr : ((m.pow k).smul c).nRow = (powerSum m cs (k+1)).nRow := by simp [Mat.pow_nRow, powerSum_nRow]
    have hc : ((m.pow k).smul c).nCol = (powerSum m cs (k+1)).nCol := by
      simp [Mat.pow_nCol m hsq, powerSum_nCol m hsq]
    refine Mat.Eqv.trans ?_ (Mat.transpose_add _ _ hr hc).symm
    apply Mat.Eqv.add
    · exact (Mat.Eqv.smul c (Mat.pow_transpose m hsq k)).trans (Mat.transpose_smul c (m.pow k)).symm
    · exact ih (k+1)
    · simp [Mat.pow_nRow, powerSum_nRow]
    · have hsq' : m.transpose.nCol = m.transpose.nRow := by simp [hsq]
      rw [Mat.smul_nCol, Mat.pow_nCol _ hsq', powerSum_nCol _ hsq']

end Polynome
end SkNet.LinOp
