/- The reduced dendrogram built by `get_labels(..., return_dendrogram=True)`: on a valid dendrogram and a labelling
   whose classes are leaf sets of nodes, the loop returns, and its rows form a valid dendrogram over the clusters
   (weighted by their sizes) whose heights are heights of the input, in the same order. -/
import SkNet.Lemmas.Forest
import SkNet.Lemmas.Live
import SkNet.Lemmas.Labels
import SkNet.Lemmas.Reorder
import SkNet.Lemmas.CutExact

set_option linter.unusedSimpArgs false
set_option linter.unusedVariables false

namespace SkNet.Cut
open SkNet SkNet.Dendro

variable {α : Type}

/-! ### leaf sets of a valid dendrogram are nested or disjoint -/

theorem laminar_split {n : Nat} {pre : Dendro α} {r : Row α} {rs : Dendro α}
    (hv : ValidDendro n (pre ++ r :: rs) = true) {x : Nat} (hx : x < n + pre.length) :
    (∀ u ∈ leaves n (pre ++ r :: rs) x, u ∈ leaves n (pre ++ r :: rs) (n + pre.length)) ∨
    (∀ u ∈ leaves n (pre ++ r :: rs) x, u ∉ leaves n (pre ++ r :: rs) (n + pre.length)) := by
  obtain ⟨st, hc, hh, hr⟩ := hist_at hv
  obtain ⟨hbi, hbj, hne, hsplit, _⟩ := valid_row hv
  have hlx : leaves n (pre ++ r :: rs) x = leaves n pre x := leaves_append_lt n pre _ hx
  have hli : leaves n (pre ++ r :: rs) r.i = leaves n pre r.i := leaves_append_lt n pre _ hbi
  have hlj : leaves n (pre ++ r :: rs) r.j = leaves n pre r.j := leaves_append_lt n pre _ hbj
  obtain ⟨p, hp, hsub⟩ := hh.forest x hx
  rw [hsplit, hlx, hli, hlj]
  have hmi := Dict.get?_some_mem hr.ci
  have hmj := Dict.get?_some_mem hr.cj
  have hget := Dict.mem_get?_of_nodup hc.nodup (k := p.1) (v := p.2) hp
  by_cases h1 : p.1 = r.i
  · left
    have : p.2 = leaves n pre r.i := by
      rw [h1, hr.ci] at hget; exact (Option.some.inj hget).symm
    intro u hu; exact List.mem_append_left _ (this ▸ hsub u hu)
  · by_cases h2 : p.1 = r.j
    · left
      have : p.2 = leaves n pre r.j := by
        rw [h2, hr.cj] at hget; exact (Option.some.inj hget).symm
      intro u hu; exact List.mem_append_right _ (this ▸ hsub u hu)
    · right
      intro u hu hmem
      rcases List.mem_append.mp hmem with h | h
      · exact cinv_disjoint hc hp hmi h1 u (hsub u hu) h
      · exact cinv_disjoint hc hp hmj h2 u (hsub u hu) h

theorem laminar_lt {n : Nat} {D : Dendro α} (hv : ValidDendro n D = true) {x y : Nat} (hxy : x < y)
    (hy : y < n + D.length) :
    (∀ u ∈ leaves n D x, u ∈ leaves n D y) ∨ (∀ u ∈ leaves n D x, u ∉ leaves n D y) := by
  by_cases hyn : y < n
  · right
    rw [leaves_leaf n D hyn, leaves_leaf n D (by omega : x < n)]
    intro u hu
    simp only [List.mem_cons, List.not_mem_nil, or_false] at hu ⊢
    omega
  · have ht : y - n < D.length := by omega
    obtain ⟨hD, hl⟩ := split_at (List.getElem?_eq_getElem ht)
    have hv' : ValidDendro n (D.take (y - n) ++ D[y - n] :: D.drop (y - n + 1)) = true := by rw [← hD]; exact hv
    have := laminar_split hv' (x := x) (by rw [hl]; omega)
    rw [← hD, hl] at this
    have e : n + (y - n) = y := by omega
    rw [e] at this
    exact this

/-- two nodes of a valid dendrogram have nested or disjoint leaf sets -/
theorem laminar {n : Nat} {D : Dendro α} (hv : ValidDendro n D = true) {x y : Nat} (hx : x < n + D.length)
    (hy : y < n + D.length) :
    (∀ u ∈ leaves n D x, u ∈ leaves n D y) ∨ (∀ u ∈ leaves n D y, u ∈ leaves n D x) ∨
    (∀ u ∈ leaves n D x, u ∉ leaves n D y) := by
  rcases Nat.lt_trichotomy x y with h | h | h
  · rcases laminar_lt hv h hy with a | a
    · exact Or.inl a
    · exact Or.inr (Or.inr a)
  · subst h; exact Or.inl (fun u hu => hu)
  · rcases laminar_lt hv h hx with a | a
    · exact Or.inr (Or.inl a)
    · exact Or.inr (Or.inr (fun u hu hm => a u hm hu))

/-- a label class that meets one child of a merge but does not contain the other cannot also meet a third,
    disjoint cluster: it would have to lie inside the first child -/
theorem no_third {n c : Nat} {lab : Nat → Nat} {lρ ly la lb : List Nat}
    (hcls : ∀ u, u < n → (lab u = c ↔ u ∈ lρ))
    (hy : ∀ u, u ∈ ly ↔ u ∈ la ∨ u ∈ lb)
    (hlam : (∀ u ∈ ly, u ∈ lρ) ∨ (∀ u ∈ lρ, u ∈ ly) ∨ (∀ u ∈ ly, u ∉ lρ))
    {a u0 b : Nat} (ha : a ∈ la) (han : a < n) (hac : lab a = c) (hu : u0 ∈ lb) (hun : u0 < n) (huc : lab u0 ≠ c)
    (hbn : b < n) (hbc : lab b = c) (hba : b ∉ la) (hbb : b ∉ lb) : False := by
  rcases hlam with h | h | h
  · exact huc ((hcls u0 hun).mpr (h u0 ((hy u0).mpr (Or.inr hu))))
  · have := h b ((hcls b hbn).mp hbc)
    rcases (hy b).mp this with h1 | h1
    · exact hba h1
    · exact hbb h1
  · exact h a ((hy a).mpr (Or.inl ha)) ((hcls a han).mp hac)

/-! ### the invariant of the loop of `get_labels` that builds the reduced dendrogram -/

/-- `index` maps every live node of the full replay to its reduced cluster: the label of the class that contains
    its leaves, or the node created in the reduced dendrogram; `size` is the live set of the replay of the rows
    written so far; the live reduced clusters are exactly the values of `index`. -/
structure RInv (n k : Nat) (lab : Nat → Nat) (W : List Nat) (pre : Dendro α) (fst : Dict (List Nat))
    (st : RedState α) : Prop where
  dom : ∀ x, (st.index.get? x).isSome = (fst.get? x).isSome
  cur : st.cur = n + pre.length
  curNew : st.curNew = k + st.rows.length
  replay : liveAfter k 0 st.rows (liveInit W) = some st.size
  img : ∀ c, (st.size.get? c).isSome = true ↔ ∃ x, st.index.get? x = some c
  bnd : ∀ x c, st.index.get? x = some c → c < st.curNew
  insideOf : ∀ x lx c, fst.get? x = some lx → st.index.get? x = some c → c < k → ∀ u ∈ lx, lab u = c
  ofInside : ∀ x lx p, fst.get? x = some lx → (∀ u ∈ lx, lab u = p) → st.index.get? x = some p
  pair : ∀ x y c, x ≠ y → st.index.get? x = some c → st.index.get? y = some c → c < k
  heights : (st.rows.map (·.h)).Sublist (pre.map (·.h))
  /-- a live node above the cut holds whole classes: no live node carries the label of one of its leaves -/
  closed : ∀ y ly c', fst.get? y = some ly → st.index.get? y = some c' → k ≤ c' →
    ∀ v ∈ ly, ∀ x', st.index.get? x' ≠ some (lab v)
  /-- the leaves of a live node above the cut are the nodes whose label is a leaf of its reduced node -/
  above : ∀ y ly c', fst.get? y = some ly → st.index.get? y = some c' → k ≤ c' →
    ∀ v, v < n → (v ∈ ly ↔ lab v ∈ leaves k st.rows c')
  /-- every row written is a merge of the given tree: same height, same leaves (through the labels) -/
  rowsTie : ∀ (u : Nat) (ru : Row α), st.rows[u]? = some ru → ∃ (t : Nat) (rt : Row α), pre[t]? = some rt ∧
    ru.h = rt.h ∧ ∀ v, v < n → (v ∈ leaves n pre (n + t) ↔ lab v ∈ leaves k st.rows (k + u))

theorem get?_ees {β : Type} (d : Dict β) (i j k : Nat) (v : β) (x : Nat) :
    (((d.erase i).erase j).set k v).get? x =
      if x = k then some v else if x = j then none else if x = i then none else d.get? x := by
  rw [Dict.get?_set, Dict.get?_erase, Dict.get?_erase]

theorem ees_new {β : Type} (d : Dict β) (i j k : Nat) (v : β) : (((d.erase i).erase j).set k v).get? k = some v := by
  rw [get?_ees]; simp

theorem ees_old {β : Type} (d : Dict β) (i j k : Nat) (v : β) {x : Nat} (h1 : x ≠ k) (h2 : x ≠ j) (h3 : x ≠ i) :
    (((d.erase i).erase j).set k v).get? x = d.get? x := by
  rw [get?_ees, if_neg h1, if_neg h2, if_neg h3]

theorem ees_none {β : Type} (d : Dict β) (i j k : Nat) (v : β) {x : Nat} (h1 : x ≠ k) (h2 : x = j ∨ x = i) :
    (((d.erase i).erase j).set k v).get? x = none := by
  rw [get?_ees, if_neg h1]
  by_cases e : x = j
  · rw [if_pos e]
  · rw [if_neg e, if_pos (h2.resolve_left e)]

theorem ees_inv {β : Type} {d : Dict β} {i j k : Nat} {v : β} {x : Nat} {w : β}
    (h : (((d.erase i).erase j).set k v).get? x = some w) :
    (x = k ∧ w = v) ∨ (x ≠ k ∧ x ≠ j ∧ x ≠ i ∧ d.get? x = some w) := by
  rw [get?_ees] at h
  by_cases h1 : x = k
  · rw [if_pos h1] at h; exact Or.inl ⟨h1, (Option.some.inj h).symm⟩
  · rw [if_neg h1] at h
    by_cases h2 : x = j
    · rw [if_pos h2] at h; cases h
    · rw [if_neg h2] at h
      by_cases h3 : x = i
      · rw [if_pos h3] at h; cases h
      · rw [if_neg h3] at h; exact Or.inr ⟨h1, h2, h3, h⟩

theorem pop_ok {β : Type} {d : Dict β} {k : Nat} {v : β} (h : d.get? k = some v) : pop d k = .ok (v, d.erase k) := by
  unfold pop; rw [h]


/-- one row of the loop -/
theorem reduce_step {n k : Nat} {lab : Nat → Nat} {W : List Nat} {pre : Dendro α} {r : Row α} {rs : Dendro α}
    {fst : Dict (List Nat)} {st : RedState α} {ci cj : List Nat}
    (hv : ValidDendro n (pre ++ r :: rs) = true)
    (hcls : ∀ c, c < k → ∃ ρ, ρ < n + (pre ++ r :: rs).length ∧
      ∀ u, u < n → (lab u = c ↔ u ∈ leaves n (pre ++ r :: rs) ρ))
    (hlab : ∀ u, u < n → lab u < k)
    (hc : CInv n pre fst) (hh : Hist n pre fst) (hi : fst.get? r.i = some ci) (hj : fst.get? r.j = some cj)
    (hne : r.i ≠ r.j) (hR : RInv n k lab W pre fst st) :
    ∃ st', (∀ rest, reduceLoop (r :: rest) st = reduceLoop rest st') ∧
      RInv n k lab W (pre ++ [r]) (merged n fst pre.length r.i r.j ci cj) st' := by
  have hbi := hc.bound _ (Dict.get?_some_key_mem hi)
  have hbj := hc.bound _ (Dict.get?_some_key_mem hj)
  have hci : ci = leaves n pre r.i := get?_leaves hc hi
  have hcj : cj = leaves n pre r.j := get?_leaves hc hj
  have hmi := Dict.get?_some_mem hi
  have hmj := Dict.get?_some_mem hj
  -- the reduced clusters of the two children
  have hdi := hR.dom r.i
  rw [hi] at hdi
  obtain ⟨iNew, hiN⟩ := Option.isSome_iff_exists.mp (by simpa using hdi)
  have hdj := hR.dom r.j
  rw [hj] at hdj
  obtain ⟨jNew, hjN⟩ := Option.isSome_iff_exists.mp (by simpa using hdj)
  have hpop1 := pop_ok hiN
  have hjN' : (st.index.erase r.i).get? r.j = some jNew := by
    rw [Dict.get?_erase]; simp [Ne.symm hne, hjN]
  have hpop2 := pop_ok hjN'
  -- live nodes are below the node being created
  have hlive : ∀ x c, st.index.get? x = some c → x ≠ n + pre.length ∧ ∃ lx, fst.get? x = some lx := by
    intro x c hx
    have := hR.dom x
    rw [hx] at this
    obtain ⟨lx, hlx⟩ := Option.isSome_iff_exists.mp (by simpa using this.symm)
    exact ⟨Nat.ne_of_lt (hc.bound _ (Dict.get?_some_key_mem hlx)), lx, hlx⟩
  have hi1 : r.i ≠ n + pre.length := Nat.ne_of_lt hbi
  have hj1 : r.j ≠ n + pre.length := Nat.ne_of_lt hbj
  unfold merged
  by_cases e : iNew = jNew
  · -- both children lie in the same reduced cluster: no row is written
    subst e
    refine ⟨{ st with index := ((st.index.erase r.i).erase r.j).set st.cur iNew, cur := st.cur + 1 }, ?_, ?_⟩
    · intro rest
      rw [reduceLoop]
      simp only [hpop1, hpop2, bind, Except.bind, bne_self_eq_false, Bool.false_eq_true, if_false]
    · have hc0k : iNew < k := hR.pair r.i r.j iNew hne hiN hjN
      refine ⟨?_, ?_, hR.curNew, hR.replay, ?_, ?_, ?_, ?_, ?_, ?_, ?_, ?_, ?_⟩
      · intro x
        show ((((st.index.erase r.i).erase r.j).set st.cur iNew).get? x).isSome = _
        rw [hR.cur]
        by_cases h1 : x = n + pre.length
        · rw [h1, ees_new, ees_new]; rfl
        · by_cases h2 : x = r.j ∨ x = r.i
          · rw [ees_none _ _ _ _ _ h1 h2, ees_none _ _ _ _ _ h1 h2]; rfl
          · have h3 : x ≠ r.j := fun e => h2 (Or.inl e)
            have h4 : x ≠ r.i := fun e => h2 (Or.inr e)
            rw [ees_old _ _ _ _ _ h1 h3 h4, ees_old _ _ _ _ _ h1 h3 h4]; exact hR.dom x
      · show st.cur + 1 = _
        simp only [hR.cur, List.length_append, List.length_cons, List.length_nil]; omega
      · intro c
        show _ ↔ ∃ x, (((st.index.erase r.i).erase r.j).set st.cur iNew).get? x = some c
        rw [hR.img c, hR.cur]
        constructor
        · rintro ⟨x, hx⟩
          by_cases hxi : x = r.i
          · refine ⟨n + pre.length, ?_⟩
            rw [ees_new]; rw [hxi, hiN] at hx; exact hx
          · by_cases hxj : x = r.j
            · refine ⟨n + pre.length, ?_⟩
              rw [ees_new]; rw [hxj, hjN] at hx; exact hx
            · exact ⟨x, by rw [ees_old _ _ _ _ _ (hlive x c hx).1 hxj hxi]; exact hx⟩
        · rintro ⟨x, hx⟩
          rcases ees_inv hx with ⟨_, h2⟩ | ⟨_, _, _, h2⟩
          · exact ⟨r.i, by rw [hiN, h2]⟩
          · exact ⟨x, h2⟩
      · intro x c hx
        have hx : (((st.index.erase r.i).erase r.j).set st.cur iNew).get? x = some c := hx
        rcases ees_inv hx with ⟨_, h2⟩ | ⟨_, _, _, h2⟩
        · rw [h2]; exact hR.bnd _ _ hiN
        · exact hR.bnd _ _ h2
      · intro x lx c hx hxc hck
        have hxc : (((st.index.erase r.i).erase r.j).set st.cur iNew).get? x = some c := hxc
        rw [hR.cur] at hxc
        rcases ees_inv hx with ⟨h1, h2⟩ | ⟨h1, h3, h4, h2⟩
        · rw [h1, ees_new] at hxc
          have hce : iNew = c := Option.some.inj hxc
          rw [h2]
          intro u hu
          rcases List.mem_append.mp hu with h | h
          · exact hR.insideOf _ _ _ hi (hce ▸ hiN) hck u h
          · exact hR.insideOf _ _ _ hj (hce ▸ hjN) hck u h
        · rw [ees_old _ _ _ _ _ h1 h3 h4] at hxc
          exact hR.insideOf _ _ _ h2 hxc hck
      · intro x lx p hx hall
        show (((st.index.erase r.i).erase r.j).set st.cur iNew).get? x = some p
        rw [hR.cur]
        rcases ees_inv hx with ⟨h1, h2⟩ | ⟨h1, h3, h4, h2⟩
        · rw [h1, ees_new]
          rw [h2] at hall
          have := hR.ofInside _ _ p hi (fun u hu => hall u (List.mem_append_left _ hu))
          rw [hiN] at this; exact this
        · rw [ees_old _ _ _ _ _ h1 h3 h4]
          exact hR.ofInside _ _ p h2 hall
      · intro x y c hxy hx hy
        have hx : (((st.index.erase r.i).erase r.j).set st.cur iNew).get? x = some c := hx
        have hy : (((st.index.erase r.i).erase r.j).set st.cur iNew).get? y = some c := hy
        rcases ees_inv hx with ⟨hx1, hx2⟩ | ⟨hx1, hx3, hx4, hx2⟩
        · rcases ees_inv hy with ⟨hy1, hy2⟩ | ⟨hy1, hy3, hy4, hy2⟩
          · exact absurd (hx1.trans hy1.symm) hxy
          · rw [hx2] at hy2; rw [hx2]; exact hR.pair y r.i _ hy4 hy2 hiN
        · rcases ees_inv hy with ⟨hy1, hy2⟩ | ⟨hy1, hy3, hy4, hy2⟩
          · rw [hy2] at hx2; rw [hy2]; exact hR.pair x r.i _ hx4 hx2 hiN
          · exact hR.pair x y c hxy hx2 hy2
      · show (st.rows.map (·.h)).Sublist ((pre ++ [r]).map (·.h))
        simp only [List.map_append]
        exact hR.heights.trans (List.sublist_append_left _ _)
      · intro y ly c' hy hyc hck v hv x' hx'
        have hyc : (((st.index.erase r.i).erase r.j).set st.cur iNew).get? y = some c' := hyc
        have hx' : (((st.index.erase r.i).erase r.j).set st.cur iNew).get? x' = some (lab v) := hx'
        rw [hR.cur] at hyc hx'
        rcases ees_inv hy with ⟨h1, h2⟩ | ⟨h1, h3, h4, h2⟩
        · rw [h1, ees_new] at hyc
          have := Option.some.inj hyc
          omega
        · rw [ees_old _ _ _ _ _ h1 h3 h4] at hyc
          rcases ees_inv hx' with ⟨g1, g2⟩ | ⟨g1, g3, g4, g2⟩
          · exact hR.closed y ly c' h2 hyc hck v hv r.i (by rw [g2]; exact hiN)
          · exact hR.closed y ly c' h2 hyc hck v hv x' g2
      · intro y ly c' hy hyc hck v hv
        have hyc : (((st.index.erase r.i).erase r.j).set st.cur iNew).get? y = some c' := hyc
        rw [hR.cur] at hyc
        show v ∈ ly ↔ lab v ∈ leaves k st.rows c'
        rcases ees_inv hy with ⟨h1, h2⟩ | ⟨h1, h3, h4, h2⟩
        · rw [h1, ees_new] at hyc
          have := Option.some.inj hyc
          omega
        · rw [ees_old _ _ _ _ _ h1 h3 h4] at hyc
          exact hR.above y ly c' h2 hyc hck v hv
      · intro u ru hu
        have hu : st.rows[u]? = some ru := hu
        obtain ⟨t, rt, h1, h2, h3⟩ := hR.rowsTie u ru hu
        have htl := (List.getElem?_eq_some_iff.mp h1).1
        refine ⟨t, rt, by rw [List.getElem?_append_left htl]; exact h1, h2, ?_⟩
        intro v hv
        rw [leaves_append_lt n pre [r] (by omega)]
        exact h3 v hv
  · -- two different reduced clusters: a row of the reduced dendrogram
    have hkI : (st.size.get? iNew).isSome = true := (hR.img iNew).mpr ⟨r.i, hiN⟩
    have hkJ : (st.size.get? jNew).isSome = true := (hR.img jNew).mpr ⟨r.j, hjN⟩
    obtain ⟨si, hsi⟩ := Option.isSome_iff_exists.mp hkI
    obtain ⟨sj, hsj⟩ := Option.isSome_iff_exists.mp hkJ
    have hsj' : (st.size.erase iNew).get? jNew = some sj := by
      rw [Dict.get?_erase]; simp [Ne.symm e, hsj]
    have hpop3 := pop_ok hsi
    have hpop4 := pop_ok hsj'
    -- no third live node lies in the reduced cluster of a child
    have huniq : ∀ (a b : Nat) (ca cb : List Nat) (aNew bNew : Nat), (a = r.i ∧ b = r.j) ∨ (a = r.j ∧ b = r.i) →
        fst.get? a = some ca → fst.get? b = some cb → st.index.get? a = some aNew → st.index.get? b = some bNew →
        aNew ≠ bNew → ∀ x, x ≠ a → x ≠ b → st.index.get? x ≠ some aNew := by
      intro a b ca cb aNew bNew hab ha hb haN hbN hneq x hxa hxb hxN
      have hck := hR.pair x a aNew hxa hxN haN
      obtain ⟨_, lx, hlx⟩ := hlive x aNew hxN
      have hxin := hR.insideOf x lx aNew hlx hxN hck
      have hain := hR.insideOf a ca aNew ha haN hck
      have hbnot : ¬ ∀ u ∈ cb, lab u = aNew := by
        intro hall
        have := hR.ofInside b cb aNew hb hall
        rw [hbN] at this
        exact hneq (Option.some.inj this).symm
      obtain ⟨u0, hu0, hu0c⟩ : ∃ u0, u0 ∈ cb ∧ lab u0 ≠ aNew := by
        by_contra hcon
        apply hbnot
        intro u hu
        by_contra hne'
        exact hcon ⟨u, hu, hne'⟩
      obtain ⟨ρ, hρ, hcl⟩ := hcls aNew hck
      have hma := Dict.get?_some_mem ha
      have hmb := Dict.get?_some_mem hb
      have hmx := Dict.get?_some_mem hlx
      obtain ⟨a0, ha0⟩ := List.exists_mem_of_ne_nil _ (hh.nonempty _ hma)
      obtain ⟨b0, hb0⟩ := List.exists_mem_of_ne_nil _ (hh.nonempty _ hmx)
      have hb0a : b0 ∉ ca := cinv_disjoint hc hmx hma hxa b0 hb0
      have hb0b : b0 ∉ cb := cinv_disjoint hc hmx hmb hxb b0 hb0
      obtain ⟨_, _, _, hsplit, _⟩ := valid_row hv
      have hli : leaves n (pre ++ r :: rs) r.i = ci := by rw [hci]; exact leaves_append_lt n pre _ hbi
      have hlj : leaves n (pre ++ r :: rs) r.j = cj := by rw [hcj]; exact leaves_append_lt n pre _ hbj
      rw [hli, hlj] at hsplit
      have hlam := laminar hv (x := n + pre.length) (y := ρ)
        (by simp only [List.length_append, List.length_cons]; omega) hρ
      have hy : ∀ u, u ∈ leaves n (pre ++ r :: rs) (n + pre.length) ↔ u ∈ ca ∨ u ∈ cb := by
        intro u
        rw [hsplit, List.mem_append]
        rcases hab with ⟨h1, h2⟩ | ⟨h1, h2⟩
        · rw [h1, hi] at ha; rw [h2, hj] at hb
          cases ha; cases hb; exact Iff.rfl
        · rw [h1, hj] at ha; rw [h2, hi] at hb
          cases ha; cases hb; exact Or.comm
      exact no_third hcl hy hlam ha0 (cinv_lt hc hma a0 ha0) (hain a0 ha0) hu0 (cinv_lt hc hmb u0 hu0) hu0c
        (cinv_lt hc hmx b0 hb0) (hxin b0 hb0) hb0a hb0b
    -- a class held by a single live node lies entirely inside it
    have hfull : ∀ (a b : Nat) (ca cb : List Nat) (aNew bNew : Nat), (a = r.i ∧ b = r.j) ∨ (a = r.j ∧ b = r.i) →
        fst.get? a = some ca → fst.get? b = some cb → st.index.get? a = some aNew → st.index.get? b = some bNew →
        aNew ≠ bNew → aNew < k → ∀ v, v < n → lab v = aNew → v ∈ ca := by
      intro a b ca cb aNew bNew hab ha hb haN hbN hneq hak v hv hlv
      have hvmem : v ∈ (Dict.values fst).flatten := hc.perm.mem_iff.mpr (List.mem_range.mpr hv)
      obtain ⟨ly, hly, hvly⟩ := List.mem_flatten.mp hvmem
      obtain ⟨p, hp, hpe⟩ := List.mem_map.mp hly
      have hgy : fst.get? p.1 = some p.2 := Dict.mem_get?_of_nodup hc.nodup (k := p.1) (v := p.2) hp
      by_cases hya : p.1 = a
      · rw [hya, ha] at hgy
        rw [← hpe, ← Option.some.inj hgy] at hvly; exact hvly
      · exfalso
        have hdy := hR.dom p.1
        rw [hgy] at hdy
        obtain ⟨c'', hc''⟩ := Option.isSome_iff_exists.mp (by simpa using hdy)
        rw [← hpe] at hvly
        by_cases hck : c'' < k
        · have := hR.insideOf p.1 p.2 c'' hgy hc'' hck v hvly
          have hce : c'' = aNew := by rw [← this, hlv]
          rw [hce] at hc''
          by_cases hyb : p.1 = b
          · rw [hyb, hbN] at hc''; exact hneq (Option.some.inj hc'').symm
          · exact huniq a b ca cb aNew bNew hab ha hb haN hbN hneq p.1 hya hyb hc''
        · exact hR.closed p.1 p.2 c'' hgy hc'' (by omega) v hvly a (by rw [hlv]; exact haN)
    have hEi : ∀ v, v < n → (v ∈ ci ↔ lab v ∈ leaves k st.rows iNew) := by
      intro v hv
      by_cases hik : iNew < k
      · rw [leaves_leaf k st.rows hik]
        simp only [List.mem_cons, List.not_mem_nil, or_false]
        exact ⟨fun h => hR.insideOf _ _ _ hi hiN hik v h,
          fun h => hfull r.i r.j ci cj iNew jNew (Or.inl ⟨rfl, rfl⟩) hi hj hiN hjN e hik v hv h⟩
      · exact hR.above r.i ci iNew hi hiN (by omega) v hv
    have hEj : ∀ v, v < n → (v ∈ cj ↔ lab v ∈ leaves k st.rows jNew) := by
      intro v hv
      by_cases hjk : jNew < k
      · rw [leaves_leaf k st.rows hjk]
        simp only [List.mem_cons, List.not_mem_nil, or_false]
        exact ⟨fun h => hR.insideOf _ _ _ hj hjN hjk v h,
          fun h => hfull r.j r.i cj ci jNew iNew (Or.inr ⟨rfl, rfl⟩) hj hi hjN hiN (Ne.symm e) hjk v hv h⟩
      · exact hR.above r.j cj jNew hj hjN (by omega) v hv
    have hnewR : leaves k (st.rows ++ [({ i := iNew, j := jNew, h := r.h, s := si + sj } : Row α)])
        (k + st.rows.length) = leaves k st.rows iNew ++ leaves k st.rows jNew :=
      leaves_new k st.rows { i := iNew, j := jNew, h := r.h, s := si + sj }
    have holdR : ∀ c, c < k + st.rows.length →
        leaves k (st.rows ++ [({ i := iNew, j := jNew, h := r.h, s := si + sj } : Row α)]) c = leaves k st.rows c :=
      fun c hcl => leaves_append_lt k st.rows _ hcl
    have hmem_new : ∀ v, v < n → (v ∈ ci ++ cj ↔ lab v ∈ leaves k (st.rows ++
        [({ i := iNew, j := jNew, h := r.h, s := si + sj } : Row α)]) (k + st.rows.length)) := by
      intro v hv
      rw [hnewR, List.mem_append, List.mem_append, hEi v hv, hEj v hv]
    refine ⟨{ index := ((st.index.erase r.i).erase r.j).set st.cur st.curNew,
              size := ((st.size.erase iNew).erase jNew).set st.curNew (si + sj),
              cur := st.cur + 1, curNew := st.curNew + 1,
              rows := st.rows ++ [{ i := iNew, j := jNew, h := r.h, s := si + sj }] }, ?_, ?_⟩
    · intro rest
      rw [reduceLoop]
      have hb : (iNew != jNew) = true := by simpa using e
      simp only [hpop1, hpop2, hpop3, hpop4, bind, Except.bind, hb, if_true]
    · refine ⟨?_, ?_, ?_, ?_, ?_, ?_, ?_, ?_, ?_, ?_, ?_, ?_, ?_⟩
      · intro x
        show ((((st.index.erase r.i).erase r.j).set st.cur st.curNew).get? x).isSome = _
        rw [hR.cur]
        by_cases h1 : x = n + pre.length
        · rw [h1, ees_new, ees_new]; rfl
        · by_cases h2 : x = r.j ∨ x = r.i
          · rw [ees_none _ _ _ _ _ h1 h2, ees_none _ _ _ _ _ h1 h2]; rfl
          · have h3 : x ≠ r.j := fun e => h2 (Or.inl e)
            have h4 : x ≠ r.i := fun e => h2 (Or.inr e)
            rw [ees_old _ _ _ _ _ h1 h3 h4, ees_old _ _ _ _ _ h1 h3 h4]; exact hR.dom x
      · show st.cur + 1 = _
        simp only [hR.cur, List.length_append, List.length_cons, List.length_nil]; omega
      · show st.curNew + 1 = k + (st.rows ++ [_]).length
        simp only [hR.curNew, List.length_append, List.length_cons, List.length_nil]; omega
      · show liveAfter k 0 (st.rows ++ [_]) (liveInit W) = some _
        rw [liveAfter_append, hR.replay]
        simp only [Option.bind_some, liveAfter, Nat.zero_add]
        rw [liveStep_ok (n := k) (t := st.rows.length) (r := { i := iNew, j := jNew, h := r.h, s := si + sj })
          (si := si) (sj := sj) hsi hsj e rfl]
        simp only [Option.bind_some, hR.curNew]
      · intro c
        show ((((st.size.erase iNew).erase jNew).set st.curNew (si + sj)).get? c).isSome = true ↔
          ∃ x, (((st.index.erase r.i).erase r.j).set st.cur st.curNew).get? x = some c
        rw [hR.cur]
        constructor
        · intro hcs
          obtain ⟨w, hw⟩ := Option.isSome_iff_exists.mp hcs
          rcases ees_inv hw with ⟨h1, _⟩ | ⟨_, h2, h3, h4⟩
          · exact ⟨n + pre.length, by rw [ees_new, h1]⟩
          · obtain ⟨x, hx⟩ := (hR.img c).mp (by rw [h4]; rfl)
            have hxi : x ≠ r.i := by
              intro e'; rw [e', hiN] at hx; exact h3 (Option.some.inj hx).symm
            have hxj : x ≠ r.j := by
              intro e'; rw [e', hjN] at hx; exact h2 (Option.some.inj hx).symm
            exact ⟨x, by rw [ees_old _ _ _ _ _ (hlive x c hx).1 hxj hxi]; exact hx⟩
        · rintro ⟨x, hx⟩
          rcases ees_inv hx with ⟨_, h2⟩ | ⟨_, h3, h4, h2⟩
          · rw [h2, ees_new]; rfl
          · have hcI : c ≠ iNew := by
              intro e'
              exact huniq r.i r.j ci cj iNew jNew (Or.inl ⟨rfl, rfl⟩) hi hj hiN hjN e x h4 h3 (e' ▸ h2)
            have hcJ : c ≠ jNew := by
              intro e'
              exact huniq r.j r.i cj ci jNew iNew (Or.inr ⟨rfl, rfl⟩) hj hi hjN hiN (Ne.symm e) x h3 h4 (e' ▸ h2)
            have hcN : c ≠ st.curNew := Nat.ne_of_lt (hR.bnd _ _ h2)
            rw [ees_old _ _ _ _ _ hcN hcJ hcI]
            exact (hR.img c).mpr ⟨x, h2⟩
      · intro x c hx
        have hx : (((st.index.erase r.i).erase r.j).set st.cur st.curNew).get? x = some c := hx
        show c < st.curNew + 1
        rcases ees_inv hx with ⟨_, h2⟩ | ⟨_, _, _, h2⟩
        · omega
        · have := hR.bnd _ _ h2; omega
      · intro x lx c hx hxc hck
        have hxc : (((st.index.erase r.i).erase r.j).set st.cur st.curNew).get? x = some c := hxc
        rw [hR.cur] at hxc
        rcases ees_inv hx with ⟨h1, h2⟩ | ⟨h1, h3, h4, h2⟩
        · rw [h1, ees_new] at hxc
          have hce : st.curNew = c := Option.some.inj hxc
          have := hR.curNew
          omega
        · rw [ees_old _ _ _ _ _ h1 h3 h4] at hxc
          exact hR.insideOf _ _ _ h2 hxc hck
      · intro x lx p hx hall
        show (((st.index.erase r.i).erase r.j).set st.cur st.curNew).get? x = some p
        rw [hR.cur]
        rcases ees_inv hx with ⟨h1, h2⟩ | ⟨h1, h3, h4, h2⟩
        · exfalso
          rw [h2] at hall
          have a1 := hR.ofInside _ _ p hi (fun u hu => hall u (List.mem_append_left _ hu))
          have a2 := hR.ofInside _ _ p hj (fun u hu => hall u (List.mem_append_right _ hu))
          rw [hiN] at a1; rw [hjN] at a2
          exact e ((Option.some.inj a1).trans (Option.some.inj a2).symm)
        · rw [ees_old _ _ _ _ _ h1 h3 h4]
          exact hR.ofInside _ _ p h2 hall
      · intro x y c hxy hx hy
        have hx : (((st.index.erase r.i).erase r.j).set st.cur st.curNew).get? x = some c := hx
        have hy : (((st.index.erase r.i).erase r.j).set st.cur st.curNew).get? y = some c := hy
        rcases ees_inv hx with ⟨hx1, hx2⟩ | ⟨hx1, hx3, hx4, hx2⟩
        · rcases ees_inv hy with ⟨hy1, hy2⟩ | ⟨hy1, hy3, hy4, hy2⟩
          · exact absurd (hx1.trans hy1.symm) hxy
          · have := hR.bnd _ _ hy2; omega
        · rcases ees_inv hy with ⟨hy1, hy2⟩ | ⟨hy1, hy3, hy4, hy2⟩
          · have := hR.bnd _ _ hx2; omega
          · exact hR.pair x y c hxy hx2 hy2
      · show ((st.rows ++ [({ i := iNew, j := jNew, h := r.h, s := si + sj } : Row α)]).map (fun (q : Row α) => q.h)).Sublist
          ((pre ++ [r]).map (fun (q : Row α) => q.h))
        simp only [List.map_append, List.map_cons, List.map_nil]
        exact List.Sublist.append hR.heights (List.Sublist.refl _)
      · intro y ly c' hy hyc hck v hv x' hx'
        have hyc : (((st.index.erase r.i).erase r.j).set st.cur st.curNew).get? y = some c' := hyc
        have hx' : (((st.index.erase r.i).erase r.j).set st.cur st.curNew).get? x' = some (lab v) := hx'
        rw [hR.cur] at hyc hx'
        have hvn : v < n := by
          rcases ees_inv hy with ⟨_, h2⟩ | ⟨_, _, _, h2⟩
          · rw [h2] at hv
            rcases List.mem_append.mp hv with h | h
            · exact cinv_lt hc hmi v h
            · exact cinv_lt hc hmj v h
          · exact cinv_lt hc (Dict.get?_some_mem h2) v hv
        have hlv := hlab v hvn
        have hcn := hR.curNew
        rcases ees_inv hx' with ⟨g1, g2⟩ | ⟨g1, g3, g4, g2⟩
        · omega
        · rcases ees_inv hy with ⟨h1, h2⟩ | ⟨h1, h3, h4, h2⟩
          · rw [h2] at hv
            rcases List.mem_append.mp hv with hvi | hvj
            · by_cases hik : iNew < k
              · have := hR.insideOf _ _ _ hi hiN hik v hvi
                exact huniq r.i r.j ci cj iNew jNew (Or.inl ⟨rfl, rfl⟩) hi hj hiN hjN e x' g4 g3 (by rw [← this]; exact g2)
              · exact hR.closed r.i ci iNew hi hiN (by omega) v hvi x' g2
            · by_cases hjk : jNew < k
              · have := hR.insideOf _ _ _ hj hjN hjk v hvj
                exact huniq r.j r.i cj ci jNew iNew (Or.inr ⟨rfl, rfl⟩) hj hi hjN hiN (Ne.symm e) x' g3 g4
                  (by rw [← this]; exact g2)
              · exact hR.closed r.j cj jNew hj hjN (by omega) v hvj x' g2
          · rw [ees_old _ _ _ _ _ h1 h3 h4] at hyc
            exact hR.closed y ly c' h2 hyc hck v hv x' g2
      · intro y ly c' hy hyc hck v hv
        have hyc : (((st.index.erase r.i).erase r.j).set st.cur st.curNew).get? y = some c' := hyc
        rw [hR.cur] at hyc
        show v ∈ ly ↔ lab v ∈ leaves k (st.rows ++ [({ i := iNew, j := jNew, h := r.h, s := si + sj } : Row α)]) c'
        have hcn := hR.curNew
        rcases ees_inv hy with ⟨h1, h2⟩ | ⟨h1, h3, h4, h2⟩
        · rw [h1, ees_new] at hyc
          have hce : st.curNew = c' := Option.some.inj hyc
          rw [h2, ← hce, hcn]
          exact hmem_new v hv
        · rw [ees_old _ _ _ _ _ h1 h3 h4] at hyc
          have := hR.bnd _ _ hyc
          rw [holdR c' (by omega)]
          exact hR.above y ly c' h2 hyc hck v hv
      · intro u ru hu
        have hu : (st.rows ++ [({ i := iNew, j := jNew, h := r.h, s := si + sj } : Row α)])[u]? = some ru := hu
        show ∃ (t : Nat) (rt : Row α), (pre ++ [r])[t]? = some rt ∧ ru.h = rt.h ∧ ∀ v, v < n →
          (v ∈ leaves n (pre ++ [r]) (n + t) ↔
            lab v ∈ leaves k (st.rows ++ [({ i := iNew, j := jNew, h := r.h, s := si + sj } : Row α)]) (k + u))
        by_cases hul : u < st.rows.length
        · rw [List.getElem?_append_left hul] at hu
          obtain ⟨t, rt, h1, h2, h3⟩ := hR.rowsTie u ru hu
          have htl := (List.getElem?_eq_some_iff.mp h1).1
          refine ⟨t, rt, by rw [List.getElem?_append_left htl]; exact h1, h2, ?_⟩
          intro v hv
          rw [leaves_append_lt n pre [r] (by omega), holdR (k + u) (by omega)]
          exact h3 v hv
        · have hlen := (List.getElem?_eq_some_iff.mp hu).1
          simp only [List.length_append, List.length_cons, List.length_nil] at hlen
          have hue : u = st.rows.length := by omega
          subst hue
          rw [List.getElem?_append_right (Nat.le_refl _)] at hu
          simp only [Nat.sub_self, List.getElem?_cons_zero, Option.some.injEq] at hu
          subst hu
          refine ⟨pre.length, r, by rw [List.getElem?_append_right (Nat.le_refl _)]; simp, rfl, ?_⟩
          intro v hv
          rw [leaves_new, ← hci, ← hcj]
          exact hmem_new v hv


/-! ### the initial state -/

theorem get?_range_dict {β : Type} (f : Nat → β) (m x : Nat) :
    Dict.get? ((List.range m).map fun i => (i, f i)) x = if x < m then some (f x) else none := by
  by_cases h : x < m
  · rw [if_pos h]; exact Hier.get?_map_range f m x h
  · rw [if_neg h, Dict.get?_eq_none_iff]
    simp only [Dict.keys, List.map_map, Function.comp_def, List.map_id', List.mem_range]
    exact h

theorem getD_map_length (cl : List (List Nat)) (x : Nat) : (cl.map List.length).getD x 0 = (cl.getD x []).length := by
  simp only [List.getD_eq_getElem?_getD, List.getElem?_map]
  cases cl[x]? <;> rfl

theorem rinv_init {n k : Nat} {lab : Nat → Nat} {cl : List (List Nat)} (hk : cl.length = k)
    (hlab : ∀ u, u < n → lab u < k) (hne : ∀ c, c < k → ∃ u, u < n ∧ lab u = c) :
    RInv (α := α) n k lab (cl.map List.length) [] (initCluster n)
      { index := (List.range n).map (fun i => (i, lab i)),
        size := (List.range k).map (fun i => (i, (cl.getD i []).length)),
        cur := n, curNew := k, rows := [] } := by
  have hidx : ∀ x, Dict.get? ((List.range n).map fun i => (i, lab i)) x = if x < n then some (lab x) else none :=
    get?_range_dict lab n
  have hfst : ∀ x, (initCluster n).get? x = if x < n then some [x] else none := by
    intro x; unfold initCluster; exact get?_range_dict (fun i => [i]) n x
  refine ⟨?_, rfl, rfl, ?_, ?_, ?_, ?_, ?_, ?_, List.Sublist.refl _, ?_, ?_, ?_⟩
  · intro x
    show (Dict.get? ((List.range n).map fun i => (i, lab i)) x).isSome = _
    rw [hidx, hfst]
    by_cases h : x < n <;> simp [h]
  · show liveAfter k 0 [] (liveInit (cl.map List.length)) = some _
    simp only [liveAfter, Option.some.injEq, liveInit, List.length_map, hk]
    apply List.map_congr_left
    intro x _
    rw [getD_map_length]
  · intro c
    show (Dict.get? ((List.range k).map fun i => (i, (cl.getD i []).length)) c).isSome = true ↔
      ∃ x, Dict.get? ((List.range n).map fun i => (i, lab i)) x = some c
    rw [get?_range_dict]
    constructor
    · intro h
      have hc : c < k := by
        by_contra hc; simp [hc] at h
      obtain ⟨u, hu, hl⟩ := hne c hc
      exact ⟨u, by rw [hidx, if_pos hu, hl]⟩
    · rintro ⟨x, hx⟩
      rw [hidx] at hx
      by_cases hxn : x < n
      · rw [if_pos hxn] at hx
        have := hlab x hxn
        rw [Option.some.inj hx] at this
        simp [this]
      · rw [if_neg hxn] at hx; cases hx
  · intro x c hx
    have hx : Dict.get? ((List.range n).map fun i => (i, lab i)) x = some c := hx
    rw [hidx] at hx
    by_cases hxn : x < n
    · rw [if_pos hxn] at hx
      rw [← Option.some.inj hx]; exact hlab x hxn
    · rw [if_neg hxn] at hx; cases hx
  · intro x lx c hx hxc _ u hu
    have hxc : Dict.get? ((List.range n).map fun i => (i, lab i)) x = some c := hxc
    rw [hfst] at hx
    rw [hidx] at hxc
    by_cases hxn : x < n
    · rw [if_pos hxn] at hx hxc
      rw [← Option.some.inj hx] at hu
      simp only [List.mem_cons, List.not_mem_nil, or_false] at hu
      rw [hu]; exact Option.some.inj hxc
    · rw [if_neg hxn] at hx; cases hx
  · intro x lx p hx hall
    show Dict.get? ((List.range n).map fun i => (i, lab i)) x = some p
    rw [hfst] at hx
    rw [hidx]
    by_cases hxn : x < n
    · rw [if_pos hxn] at hx ⊢
      have := hall x (by rw [← Option.some.inj hx]; exact List.mem_cons_self)
      rw [this]
    · rw [if_neg hxn] at hx; cases hx
  · intro x y c _ hx _
    have hx : Dict.get? ((List.range n).map fun i => (i, lab i)) x = some c := hx
    rw [hidx] at hx
    by_cases hxn : x < n
    · rw [if_pos hxn] at hx
      rw [← Option.some.inj hx]; exact hlab x hxn
    · rw [if_neg hxn] at hx; cases hx

  · intro y ly c' _ hyc hck
    have hyc : Dict.get? ((List.range n).map fun i => (i, lab i)) y = some c' := hyc
    rw [hidx] at hyc
    by_cases hyn : y < n
    · rw [if_pos hyn] at hyc
      have := hlab y hyn
      rw [Option.some.inj hyc] at this
      omega
    · rw [if_neg hyn] at hyc; cases hyc
  · intro y ly c' _ hyc hck
    have hyc : Dict.get? ((List.range n).map fun i => (i, lab i)) y = some c' := hyc
    rw [hidx] at hyc
    by_cases hyn : y < n
    · rw [if_pos hyn] at hyc
      have := hlab y hyn
      rw [Option.some.inj hyc] at this
      omega
    · rw [if_neg hyn] at hyc; cases hyc
  · intro u ru hu
    simp at hu

/-! ### the whole loop -/

theorem reduceLoop_spec {n k : Nat} {lab : Nat → Nat} {W : List Nat} (D : Dendro α) (hv : ValidDendro n D = true)
    (hcls : ∀ c, c < k → ∃ ρ, ρ < n + D.length ∧ ∀ u, u < n → (lab u = c ↔ u ∈ leaves n D ρ))
    (hlab : ∀ u, u < n → lab u < k) :
    ∀ (rs pre : Dendro α) (fst : Dict (List Nat)) (st : RedState α),
      D = pre ++ rs → CInv n pre fst → Hist n pre fst →
      validLoop n pre.length rs (sizesOf fst) = true → RInv n k lab W pre fst st →
      ∃ st' fst', reduceLoop rs st = .ok st' ∧ CInv n D fst' ∧ RInv n k lab W D fst' st' ∧
        fst'.length + rs.length = fst.length := by
  intro rs
  induction rs with
  | nil =>
    intro pre fst st hD hc _ _ hR
    have : D = pre := by rw [hD]; simp
    subst this
    exact ⟨st, fst, rfl, hc, hR, by simp⟩
  | cons r rs ih =>
    intro pre fst st hD hc hh hvl hR
    have hl : (pre ++ [r]).length = pre.length + 1 := by simp
    have hD' : D = (pre ++ [r]) ++ rs := by simp [hD]
    unfold validLoop at hvl
    simp only [get?_sizesOf] at hvl
    cases hi : fst.get? r.i with
    | none => simp [hi] at hvl
    | some ci =>
      cases hj : fst.get? r.j with
      | none => simp [hi, hj] at hvl
      | some cj =>
        simp only [hi, hj, Option.map_some, Bool.and_eq_true, bne_iff_ne, ne_eq, beq_iff_eq] at hvl
        obtain ⟨⟨hne, hs⟩, hrest⟩ := hvl
        have hsz : ((Dict.erase (Dict.erase (sizesOf fst) r.i) r.j).set (n + pre.length) r.s) =
            sizesOf (merged n fst pre.length r.i r.j ci cj) := by
          unfold merged
          rw [erase_sizesOf, erase_sizesOf, hs, ← List.length_append, set_sizesOf]
        rw [hsz, ← hl] at hrest
        have hv' : ValidDendro n (pre ++ r :: rs) = true := by rw [← hD]; exact hv
        have hcls' : ∀ c, c < k → ∃ ρ, ρ < n + (pre ++ r :: rs).length ∧
            ∀ u, u < n → (lab u = c ↔ u ∈ leaves n (pre ++ r :: rs) ρ) := by rw [← hD]; exact hcls
        obtain ⟨st1, hstep, hR1⟩ := reduce_step hv' hcls' hlab hc hh hi hj hne hR
        have hc1 := cinv_merge hc r hi hj hne
        have hh1 := hist_merge hc hh r hi hj hne
        obtain ⟨st', fst', h1, h2, h3, h4⟩ := ih (pre ++ [r]) _ st1 hD' hc1 hh1 hrest hR1
        refine ⟨st', fst', by rw [hstep]; exact h1, h2, h3, ?_⟩
        have := length_merged hc hi hj hne
        simp only [List.length_cons]
        omega

theorem length_le_one_of_all_eq {l : List Nat} (hnd : l.Nodup) {c : Nat} (h : ∀ a ∈ l, a = c) : l.length ≤ 1 := by
  match l, hnd, h with
  | [], _, _ => simp
  | [_], _, _ => simp
  | a :: b :: _, hnd, h =>
    have h1 := h a List.mem_cons_self
    have h2 := h b (List.mem_cons_of_mem _ List.mem_cons_self)
    have := (List.nodup_cons.mp hnd).1
    exact absurd (by rw [h1, h2]; exact List.mem_cons_self) this

/-- **the loop returns a valid dendrogram over the clusters** -/
theorem reduce_final {n k : Nat} {lab : Nat → Nat} {W : List Nat} (hW : W.length = k) (D : Dendro α)
    (hv : ValidDendro n D = true)
    (hcls : ∀ c, c < k → ∃ ρ, ρ < n + D.length ∧ ∀ u, u < n → (lab u = c ↔ u ∈ leaves n D ρ))
    (hlab : ∀ u, u < n → lab u < k)
    {st0 : RedState α} (hR0 : RInv n k lab W [] (initCluster n) st0) :
    ∃ st', reduceLoop D st0 = .ok st' ∧ ValidDendroW W st'.rows = true ∧
      (st'.rows.map (fun (q : Row α) => q.h)).Sublist (D.map (fun (q : Row α) => q.h)) ∧
      (∀ (u : Nat) (ru : Row α), st'.rows[u]? = some ru → ∃ (t : Nat) (rt : Row α), D[t]? = some rt ∧
        ru.h = rt.h ∧ ∀ v, v < n → (v ∈ leaves n D (n + t) ↔ lab v ∈ leaves k st'.rows (k + u))) := by
  have hlen := valid_length hv
  have hvl : validLoop n 0 D (sizesOf (initCluster n)) = true := by
    rw [sizesOf_initCluster]
    unfold ValidDendro ValidDendroW at hv
    simp only [Bool.and_eq_true, List.length_replicate] at hv
    exact hv.2
  obtain ⟨st', fst', hrun, hc', hR', hcount⟩ :=
    reduceLoop_spec D hv hcls hlab D [] (initCluster n) st0 (by simp) (cinv_init n) (hist_init n) hvl hR0
  have hfl : fst'.length = 1 := by
    have : (initCluster n).length = n := by simp [initCluster]
    omega
  obtain ⟨p0, hp0⟩ : ∃ p0, fst' = [p0] := by
    match fst', hfl with
    | [p], _ => exact ⟨p, rfl⟩
  have hget0 : fst'.get? p0.1 = some p0.2 :=
    Dict.mem_get?_of_nodup hc'.nodup (k := p0.1) (v := p0.2) (by rw [hp0]; exact List.mem_cons_self)
  -- the live set of the reduced replay
  obtain ⟨hlinv, hcnt⟩ := liveAfter_linv st'.rows 0 (liveInit W) st'.size
    (hW ▸ linv_init W) hR'.replay
  have hW' : (liveInit W).length = k := by simp [liveInit, hW]
  have hd0 := hR'.dom p0.1
  rw [hget0] at hd0
  obtain ⟨c0, hc0⟩ := Option.isSome_iff_exists.mp (by simpa using hd0)
  have hge : 1 ≤ st'.size.length := by
    have := (hR'.img c0).mpr ⟨p0.1, hc0⟩
    obtain ⟨w, hw⟩ := Option.isSome_iff_exists.mp this
    have hm := Dict.get?_some_mem hw
    exact List.length_pos_of_mem hm
  have hle : st'.size.length ≤ 1 := by
    have hall : ∀ c ∈ Dict.keys st'.size, c = c0 := by
      intro c hcm
      obtain ⟨w, hw⟩ : ∃ w, st'.size.get? c = some w := by
        cases hw : st'.size.get? c with
        | none => exact absurd hcm ((Dict.get?_eq_none_iff _ _).mp hw)
        | some w => exact ⟨w, rfl⟩
      obtain ⟨x, hx⟩ := (hR'.img c).mp (by rw [hw]; rfl)
      have hdx := hR'.dom x
      rw [hx] at hdx
      obtain ⟨lx, hlx⟩ := Option.isSome_iff_exists.mp (by simpa using hdx.symm)
      have hxm := Dict.get?_some_key_mem hlx
      rw [hp0] at hxm
      simp only [Dict.keys, List.map_cons, List.map_nil, List.mem_cons, List.not_mem_nil, or_false] at hxm
      rw [hxm, hc0] at hx
      exact (Option.some.inj hx).symm
    have := length_le_one_of_all_eq hlinv.nodup hall
    simpa [Dict.keys] using this
  refine ⟨st', hrun, ?_, hR'.heights, hR'.rowsTie⟩
  unfold ValidDendroW
  simp only [Bool.and_eq_true, beq_iff_eq]
  refine ⟨by omega, ?_⟩
  rw [validLoop_eq_isSome, hW, hR'.replay]; rfl

end SkNet.Cut
