/-
Helper lemmas for C10: the frontier loop of `get_distances` against the walk specification.
Core Lean only.
-/
import SkNet.Model.Path
import SkNet.Spec.Path

namespace SkNet.Path

variable {n : Nat} {edge : Nat → Nat → Bool} {src : Nat → Bool}

-- keep `l.getD i d` as it is written in the models
attribute [-simp] List.getD_eq_getElem?_getD

theorem Walk.lt {d v : Nat} (h : Walk n edge src d v) : v < n := by
  cases h with
  | zero hv _ => exact hv
  | succ _ _ hv => exact hv

theorem Walk.zero_iff {v : Nat} : Walk n edge src 0 v ↔ v < n ∧ src v = true := by
  constructor
  · intro h; cases h with | zero hv hs => exact ⟨hv, hs⟩
  · intro ⟨hv, hs⟩; exact Walk.zero hv hs

theorem Walk.succ_iff {d v : Nat} :
    Walk n edge src (d+1) v ↔ v < n ∧ ∃ u, Walk n edge src d u ∧ edge u v = true := by
  constructor
  · intro h; cases h with | succ hw he hv => exact ⟨hv, _, hw, he⟩
  · intro ⟨hv, u, hw, he⟩; exact Walk.succ hw he hv

/-! ### counting -/

theorem countP_lt_of_imp (l : List Nat) (p q : Nat → Bool)
    (himp : ∀ x, x ∈ l → p x = true → q x = true)
    (hex : ∃ x, x ∈ l ∧ p x = false ∧ q x = true) :
    l.countP p < l.countP q := by
  induction l with
  | nil => obtain ⟨x, hx, _⟩ := hex; simp at hx
  | cons a l ih =>
    have hle : l.countP p ≤ l.countP q := by
      clear ih hex
      induction l with
      | nil => simp
      | cons b l ih2 =>
        have hb := himp b (by simp)
        have := ih2 (fun x hx => himp x (by
          rcases List.mem_cons.mp hx with h | h
          · simp [h]
          · simp [h]))
        simp only [List.countP_cons]
        cases hpb : p b <;> cases hqb : q b <;> simp_all <;> omega
    obtain ⟨x, hx, hpx, hqx⟩ := hex
    simp only [List.countP_cons]
    rcases List.mem_cons.mp hx with h | h
    · subst h
      simp [hpx, hqx]; omega
    · have := ih (fun y hy => himp y (by simp [hy])) ⟨x, h, hpx, hqx⟩
      have ha := himp a (by simp)
      cases hpa : p a <;> cases hqa : q a <;> simp_all <;> omega

/-- number of reached nodes -/
def cnt (n : Nat) (reach : List Bool) : Nat := (List.range n).countP (fun v => reach.getD v false)

theorem cnt_le (n : Nat) (reach : List Bool) : cnt n reach ≤ n := by
  have := List.countP_le_length (p := fun v => reach.getD v false) (l := List.range n)
  simpa [cnt] using this

/-! ### the mask of one round -/

theorem noneSet_tab (f : Nat → Bool) : noneSet (tab n f) = true ↔ ∀ v, v < n → f v = false := by
  simp [noneSet, tab, List.all_eq_true]

theorem noneSet_tab_false (f : Nat → Bool) (h : noneSet (tab n f) = false) : ∃ v, v < n ∧ f v = true := by
  by_cases hex : ∃ v, v < n ∧ f v = true
  · exact hex
  · have : noneSet (tab n f) = true := (noneSet_tab f).2 (by
      intro v hv
      cases hf : f v
      · rfl
      · exact absurd ⟨v, hv, hf⟩ hex)
    simp [this] at h

theorem newMask_true_iff (reach : List Bool) {v : Nat} (hv : v < n) :
    (newMask n edge reach).getD v false = true ↔
      (∃ u, u < n ∧ reach.getD u false = true ∧ edge u v = true) ∧ reach.getD v false = false := by
  unfold newMask
  rw [tab_getD]
  simp only [hv, if_true, Bool.and_eq_true, List.any_eq_true, List.mem_range, Bool.not_eq_true']

theorem newMask_length (reach : List Bool) : (newMask n edge reach).length = n := by
  simp [newMask]

/-! ### the loop invariant -/

/-- State of the loop after `k` completed rounds. -/
structure Inv (n : Nat) (edge : Nat → Nat → Bool) (src : Nat → Bool) (k : Nat)
    (dist : List Int) (reach : List Bool) : Prop where
  reach_iff : ∀ v, v < n → (reach.getD v false = true ↔ ∃ d, d ≤ k ∧ Walk n edge src d v)
  dist_reach : ∀ v, v < n → reach.getD v false = true →
      ∃ d : Nat, dist.getD v (-1) = (d : Int) ∧ IsDist n edge src v d ∧ d ≤ k
  k_bound : k = 0 ∨ k + 1 ≤ cnt n reach
  dist_unreach : ∀ v, v < n → reach.getD v false = false → dist.getD v (-1) = -1
  len : dist.length = n

/-- what the function promises -/
def Exact (n : Nat) (edge : Nat → Nat → Bool) (src : Nat → Bool) (dist : List Int) : Prop :=
  dist.length = n ∧ ∀ v, v < n →
    ((∃ d : Nat, dist.getD v (-1) = (d : Int) ∧ IsDist n edge src v d) ∨
     (dist.getD v (-1) = -1 ∧ Unreachable n edge src v))

/-- every finite entry is smaller than the number of nodes -/
def Bounded (n : Nat) (dist : List Int) : Prop :=
  ∀ v, v < n → ∀ d : Nat, dist.getD v (-1) = (d : Int) → d < n

theorem mask_iff_isDist {k : Nat} {dist : List Int} {reach : List Bool}
    (inv : Inv n edge src k dist reach) {v : Nat} (hv : v < n) :
    (newMask n edge reach).getD v false = true ↔ IsDist n edge src v (k+1) := by
  rw [newMask_true_iff reach hv]
  constructor
  · rintro ⟨⟨u, hu, hru, heu⟩, hrv⟩
    obtain ⟨d, hdk, hw⟩ := (inv.reach_iff u hu).1 hru
    have hnot : ∀ d', d' ≤ k → ¬ Walk n edge src d' v := by
      intro d' hd' hw'
      have := (inv.reach_iff v hv).2 ⟨d', hd', hw'⟩
      rw [hrv] at this; exact Bool.noConfusion this
    have hw1 : Walk n edge src (d+1) v := Walk.succ hw heu hv
    have hd : d = k := by
      by_cases h : d + 1 ≤ k
      · exact absurd hw1 (hnot _ h)
      · omega
    subst hd
    exact ⟨hw1, fun d' hd' => hnot d' (by omega)⟩
  · rintro ⟨hw, hmin⟩
    obtain ⟨_, u, hwu, heu⟩ := Walk.succ_iff.1 hw
    refine ⟨⟨u, hwu.lt, (inv.reach_iff u hwu.lt).2 ⟨k, Nat.le_refl _, hwu⟩, heu⟩, ?_⟩
    cases hrv : reach.getD v false
    · rfl
    · obtain ⟨d, hdk, hwd⟩ := (inv.reach_iff v hv).1 hrv
      exact absurd hwd (hmin d (by omega))

/-- when a round finds nothing new, nothing is reachable beyond the reached set -/
theorem closed_of_noneSet {k : Nat} {dist : List Int} {reach : List Bool}
    (inv : Inv n edge src k dist reach)
    (hnone : noneSet (newMask n edge reach) = true) :
    ∀ d v, Walk n edge src d v → ∃ d', d' ≤ k ∧ Walk n edge src d' v := by
  have hno : ∀ v, v < n → ¬ IsDist n edge src v (k+1) := by
    intro v hv hd
    have hm := (mask_iff_isDist inv hv).2 hd
    unfold newMask at hm hnone
    have := (noneSet_tab (n := n) _).1 hnone v hv
    rw [tab_getD] at hm
    simp only [hv, if_true] at hm
    rw [hm] at this; exact Bool.noConfusion this
  intro d
  induction d with
  | zero => intro v hw; exact ⟨0, Nat.zero_le _, hw⟩
  | succ d ih =>
    intro v hw
    obtain ⟨hv, u, hwu, heu⟩ := Walk.succ_iff.1 hw
    obtain ⟨d', hd', hwu'⟩ := ih u hwu
    have hw1 : Walk n edge src (d'+1) v := Walk.succ hwu' heu hv
    by_cases h : d' + 1 ≤ k
    · exact ⟨_, h, hw1⟩
    · have hd'k : d' = k := by omega
      subst hd'k
      -- either a shorter walk exists, or v is at distance exactly d'+1, which a silent round excludes
      by_cases hshort : ∃ e, e ≤ d' ∧ Walk n edge src e v
      · exact hshort
      · exfalso
        apply hno v hv
        refine ⟨hw1, fun e he hwe => hshort ⟨e, by omega, hwe⟩⟩

theorem exact_of_noneSet {k : Nat} {dist : List Int} {reach : List Bool}
    (inv : Inv n edge src k dist reach)
    (hnone : noneSet (newMask n edge reach) = true) : Exact n edge src dist := by
  refine ⟨inv.len, fun v hv => ?_⟩
  cases hr : reach.getD v false
  · right
    refine ⟨inv.dist_unreach v hv hr, fun d hw => ?_⟩
    obtain ⟨d', hd', hw'⟩ := closed_of_noneSet inv hnone d v hw
    have := (inv.reach_iff v hv).2 ⟨d', hd', hw'⟩
    rw [hr] at this; exact Bool.noConfusion this
  · left
    obtain ⟨d, hd, hdist, _⟩ := inv.dist_reach v hv hr
    exact ⟨d, hd, hdist⟩

theorem cnt_step_lt (reach : List Bool) (h : noneSet (newMask n edge reach) = false) :
    cnt n reach < cnt n (tab n fun v => reach.getD v false || (newMask n edge reach).getD v false) := by
  unfold cnt
  apply countP_lt_of_imp
  · intro x hx hp
    have hx' : x < n := List.mem_range.1 hx
    simp [hx', hp]
  · have h2 := h
    unfold newMask at h2
    obtain ⟨v, hv, hg⟩ := noneSet_tab_false _ h2
    have hm : (newMask n edge reach).getD v false = true := by
      unfold newMask; rw [tab_getD]; simp only [hv, if_true]; exact hg
    refine ⟨v, List.mem_range.2 hv, ?_, ?_⟩
    · exact ((newMask_true_iff reach hv).1 hm).2
    · simp [hv, hm]

theorem bounded_of_inv {k : Nat} {dist : List Int} {reach : List Bool}
    (inv : Inv n edge src k dist reach) : Bounded n dist := by
  intro v hv d hd
  cases hr : reach.getD v false
  · have := inv.dist_unreach v hv hr
    rw [this] at hd; omega
  · obtain ⟨e, he, _, hek⟩ := inv.dist_reach v hv hr
    have hde : d = e := by rw [he] at hd; omega
    subst hde
    have := cnt_le n reach
    rcases inv.k_bound with h | h <;> omega

theorem cnt_pos_of_reach (reach : List Bool) {u : Nat} (hu : u < n) (h : reach.getD u false = true) :
    1 ≤ cnt n reach := by
  unfold cnt
  exact List.countP_pos_iff.2 ⟨u, List.mem_range.2 hu, h⟩

theorem inv_step {k : Nat} {dist : List Int} {reach : List Bool}
    (inv : Inv n edge src k dist reach) (hne : noneSet (newMask n edge reach) = false) :
    Inv n edge src (k+1)
      (tab n fun v => if (newMask n edge reach).getD v false then ((k+1 : Nat) : Int) else dist.getD v (-1))
      (tab n fun v => reach.getD v false || (newMask n edge reach).getD v false) := by
  constructor
  · intro v hv
    simp only [tab_getD, hv, if_true, Bool.or_eq_true]
    constructor
    · rintro (h | h)
      · obtain ⟨d, hd, hw⟩ := (inv.reach_iff v hv).1 h
        exact ⟨d, by omega, hw⟩
      · exact ⟨k+1, Nat.le_refl _, ((mask_iff_isDist inv hv).1 h).1⟩
    · rintro ⟨d, hd, hw⟩
      by_cases hsm : ∃ e, e ≤ k ∧ Walk n edge src e v
      · left; exact (inv.reach_iff v hv).2 hsm
      · right
        have hdk : d = k + 1 := by
          by_cases h : d ≤ k
          · exact absurd ⟨d, h, hw⟩ hsm
          · omega
        subst hdk
        exact (mask_iff_isDist inv hv).2 ⟨hw, fun e he hwe => hsm ⟨e, by omega, hwe⟩⟩
  · intro v hv
    simp only [tab_getD, hv, if_true, Bool.or_eq_true]
    rintro (h | h)
    · have hm : (newMask n edge reach).getD v false = false := by
        cases hmm : (newMask n edge reach).getD v false
        · rfl
        · have := ((newMask_true_iff reach hv).1 hmm).2
          simp [h] at this
      simp only [hm]
      obtain ⟨d, hd, hdist, hdk⟩ := inv.dist_reach v hv h
      exact ⟨d, hd, hdist, by omega⟩
    · simp only [h, if_true]
      exact ⟨k+1, rfl, (mask_iff_isDist inv hv).1 h, Nat.le_refl _⟩
  · -- the bound on k: a non-silent round found a reached node with an edge, and added a node
    right
    have hlt := cnt_step_lt (edge := edge) reach hne
    have hne2 := hne
    unfold newMask at hne2
    obtain ⟨v, hv, hg⟩ := noneSet_tab_false _ hne2
    have hm : (newMask n edge reach).getD v false = true := by
      unfold newMask; rw [tab_getD]; simp only [hv, if_true]; exact hg
    obtain ⟨⟨u, hu, hru, _⟩, _⟩ := (newMask_true_iff reach hv).1 hm
    have h1 := cnt_pos_of_reach reach hu hru
    rcases inv.k_bound with h | h <;> omega
  · intro v hv
    simp only [tab_getD, hv, if_true, Bool.or_eq_false_iff]
    rintro ⟨h1, h2⟩
    simp only [h2]
    exact inv.dist_unreach v hv h1
  · simp

theorem bfsLoop_correct : ∀ (fuel k : Nat) (dist : List Int) (reach : List Bool),
    Inv n edge src k dist reach → n + 1 ≤ fuel + cnt n reach →
    ∃ out, bfsLoop n edge fuel k dist reach = some out ∧ Exact n edge src out ∧ Bounded n out := by
  intro fuel
  induction fuel with
  | zero =>
    intro k dist reach _ h
    have := cnt_le n reach
    omega
  | succ fuel ih =>
    intro k dist reach inv h
    unfold bfsLoop
    cases hn : noneSet (newMask n edge reach)
    · simp only [hn]
      apply ih (k+1) _ _ (inv_step inv hn)
      have := cnt_step_lt (edge := edge) reach hn
      omega
    · simp only [hn, if_true]
      exact ⟨dist, rfl, exact_of_noneSet inv hn, bounded_of_inv inv⟩

theorem inv_init (srcMask : List Bool) :
    Inv n edge (fun v => srcMask.getD v false) 0
      (tab n fun v => if srcMask.getD v false then 0 else -1)
      (tab n fun v => srcMask.getD v false) := by
  constructor
  · intro v hv
    simp only [tab_getD, hv, if_true]
    constructor
    · intro h; exact ⟨0, Nat.le_refl _, Walk.zero hv h⟩
    · rintro ⟨d, hd, hw⟩
      have : d = 0 := by omega
      subst this
      exact (Walk.zero_iff.1 hw).2
  · intro v hv
    simp only [tab_getD, hv, if_true]
    intro h
    refine ⟨0, by simp [h], ⟨Walk.zero hv h, fun d' hd' => by omega⟩, Nat.le_refl _⟩
  · left; rfl
  · intro v hv
    simp only [tab_getD, hv, if_true]
    intro h
    simp [h]
  · simp

/-! ### get_dag and breadth_first_search helpers -/

theorem stepE_row (order : List Int) (v : Int) (e : Entry) : (stepE order v e).row = e.row := by
  unfold stepE; split <;> rfl

theorem stepE_col (order : List Int) (v : Int) (e : Entry) : (stepE order v e).col = e.col := by
  unfold stepE; split <;> rfl

theorem kills_stepE (order : List Int) (v w : Int) (e : Entry) :
    kills order w (stepE order v e) = kills order w e := by
  unfold kills; rw [stepE_row, stepE_col]

/-- one entry through the whole `for value in np.unique(order)` loop -/
def loopE (order : List Int) (values : List Int) (e : Entry) : Entry :=
  values.foldl (fun e v => stepE order v e) e

theorem dagLoop_eq_map (order : List Int) (values : List Int) (es : List Entry) :
    dagLoop order values es = es.map (loopE order values) := by
  induction values generalizing es with
  | nil =>
    have : loopE order [] = id := rfl
    simp [dagLoop, this]
  | cons v vs ih =>
    have : dagLoop order (v :: vs) es = dagLoop order vs (dagStep order v es) := by
      simp [dagLoop]
    rw [this, ih]
    simp [dagStep, loopE, List.map_map, Function.comp_def]

theorem loopE_spec (order : List Int) (values : List Int) (e : Entry) :
    (loopE order values e).row = e.row ∧ (loopE order values e).col = e.col ∧
    ((loopE order values e).keep = true ↔ e.keep = true ∧ ∀ v ∈ values, kills order v e = false) := by
  induction values generalizing e with
  | nil => simp [loopE]
  | cons v vs ih =>
    have hrec : loopE order (v :: vs) e = loopE order vs (stepE order v e) := by simp [loopE]
    rw [hrec]
    obtain ⟨h1, h2, h3⟩ := ih (stepE order v e)
    refine ⟨by rw [h1, stepE_row], by rw [h2, stepE_col], ?_⟩
    rw [h3]
    simp only [List.mem_cons, forall_eq_or_imp, kills_stepE]
    unfold stepE
    cases hk : kills order v e <;> simp

/-- an entry is zeroed by some round of the loop iff its row has a negative order or its column is not
strictly later — for any list of loop values that contains the order of the entry's row -/
theorem killed_iff_of_mem (order values : List Int) (e : Entry) (hmem : order.getD e.row 0 ∈ values) :
    (∃ v ∈ values, kills order v e = true) ↔
      (order.getD e.row 0 < 0 ∨ order.getD e.col 0 ≤ order.getD e.row 0) := by
  constructor
  · rintro ⟨v, _, hk⟩
    unfold kills at hk
    split at hk
    · rename_i hneg
      have : order.getD e.row 0 = v := by simpa using hk
      left; omega
    · rename_i hneg
      simp only [Bool.and_eq_true, beq_iff_eq, decide_eq_true_eq] at hk
      right; omega
  · intro h
    refine ⟨order.getD e.row 0, hmem, ?_⟩
    unfold kills
    by_cases hneg : order.getD e.row 0 < 0
    · simp [hneg]
    · rcases h with h | h
      · exact absurd h hneg
      · simp [hneg, h]

theorem mem_unique_row (order : List Int) (e : Entry) (hrow : e.row < order.length) :
    order.getD e.row 0 ∈ unique order := by
  unfold unique
  rw [List.mem_eraseDups]
  rw [List.getD_eq_getElem?_getD, List.getElem?_eq_getElem hrow]
  simp

theorem killed_iff (order : List Int) (e : Entry) (hrow : e.row < order.length) :
    (∃ v ∈ unique order, kills order v e = true) ↔
      (order.getD e.row 0 < 0 ∨ order.getD e.col 0 ≤ order.getD e.row 0) :=
  killed_iff_of_mem order (unique order) e (mem_unique_row order e hrow)

theorem mem_entriesOf (n : Nat) (edge : Nat → Nat → Bool) (e : Entry) :
    e ∈ entriesOf n edge ↔ e.row < n ∧ e.col < n ∧ edge e.row e.col = true ∧ e.keep = true := by
  unfold entriesOf
  simp only [List.mem_flatMap, List.mem_range, List.mem_map, List.mem_filter]
  constructor
  · rintro ⟨i, hi, j, ⟨hj, he⟩, rfl⟩
    exact ⟨hi, hj, he, rfl⟩
  · rintro ⟨hi, hj, he, hk⟩
    refine ⟨e.row, hi, e.col, ⟨hj, he⟩, ?_⟩
    cases e; simp_all

theorem pairwise_drop_prefix_neg (d : List Int) (l : List Nat)
    (hs : l.Pairwise (fun a b => d.getD a 0 ≤ d.getD b 0)) :
    ∃ k, k = (l.filter fun a => decide (d.getD a 0 < 0)).length ∧
      (∀ a ∈ l.take k, d.getD a 0 < 0) ∧ (∀ a ∈ l.drop k, 0 ≤ d.getD a 0) := by
  induction l with
  | nil => exact ⟨0, by simp, by simp, by simp⟩
  | cons x xs ih =>
    obtain ⟨hx, hxs⟩ := List.pairwise_cons.1 hs
    obtain ⟨k, hk, ht, hdp⟩ := ih hxs
    by_cases hneg : d.getD x 0 < 0
    · refine ⟨k+1, by simp [hneg, hk], ?_, ?_⟩
      · intro a ha
        simp only [List.take_succ_cons, List.mem_cons] at ha
        rcases ha with rfl | ha
        · exact hneg
        · exact ht a ha
      · simpa using hdp
    · have hall : ∀ a ∈ xs, 0 ≤ d.getD a 0 := fun a ha => by have := hx a ha; omega
      have hk0 : k = 0 := by
        rw [hk]
        rw [List.length_eq_zero_iff, List.filter_eq_nil_iff]
        intro a ha; have := hall a ha; simp; omega
      subst hk0
      refine ⟨0, by simp [hneg, ← hk], by simp, ?_⟩
      intro a ha
      simp only [List.drop_zero, List.mem_cons] at ha
      rcases ha with rfl | ha
      · omega
      · exact hall a ha

theorem range_filter_length (d : List Int) :
    ((List.range d.length).filter fun a => decide (d.getD a 0 < 0)).length = (d.filter (· < 0)).length := by
  induction d with
  | nil => simp
  | cons x xs ih =>
    rw [List.length_cons, List.range_succ_eq_map, List.filter_cons, List.filter_cons, List.filter_map]
    have hfun : ((fun a => decide ((x :: xs).getD a 0 < 0)) ∘ Nat.succ) = fun a => decide (xs.getD a 0 < 0) := by
      funext a; simp [List.getD_eq_getElem?_getD]
    rw [hfun]
    have h0 : (x :: xs).getD 0 0 = x := by simp [List.getD_eq_getElem?_getD]
    rw [h0]
    by_cases hx : x < 0 <;> simp [hx, ih]

/-- walks only look at sources below `n`: source predicates that agree there define the same walks -/
theorem Walk.congr {src' : Nat → Bool} (h : ∀ v, v < n → src v = src' v) :
    ∀ d v, Walk n edge src d v ↔ Walk n edge src' d v := by
  intro d
  induction d with
  | zero =>
    intro v
    rw [Walk.zero_iff, Walk.zero_iff]
    constructor
    · rintro ⟨hv, hs⟩; exact ⟨hv, by rw [← h v hv]; exact hs⟩
    · rintro ⟨hv, hs⟩; exact ⟨hv, by rw [h v hv]; exact hs⟩
  | succ d ih =>
    intro v
    rw [Walk.succ_iff, Walk.succ_iff]
    constructor
    · rintro ⟨hv, u, hu, he⟩; exact ⟨hv, u, (ih u).1 hu, he⟩
    · rintro ⟨hv, u, hu, he⟩; exact ⟨hv, u, (ih u).2 hu, he⟩

theorem IsDist.congr {src' : Nat → Bool} (h : ∀ v, v < n → src v = src' v) (v d : Nat) :
    IsDist n edge src v d ↔ IsDist n edge src' v d := by
  unfold IsDist
  rw [Walk.congr h d v]
  constructor
  · rintro ⟨h1, h2⟩; exact ⟨h1, fun d' hd' hw => h2 d' hd' ((Walk.congr h d' v).2 hw)⟩
  · rintro ⟨h1, h2⟩; exact ⟨h1, fun d' hd' hw => h2 d' hd' ((Walk.congr h d' v).1 hw)⟩

theorem Exact.congr {src' : Nat → Bool} (h : ∀ v, v < n → src v = src' v) {dist : List Int}
    (hex : Exact n edge src dist) : Exact n edge src' dist := by
  refine ⟨hex.1, fun v hv => ?_⟩
  rcases hex.2 v hv with ⟨d, hd, hdist⟩ | ⟨hm, hun⟩
  · left; exact ⟨d, hd, (IsDist.congr h v d).1 hdist⟩
  · right; exact ⟨hm, fun d hw => hun d ((Walk.congr h d v).2 hw)⟩

/-! ### the stable insertion argsort of the model -/

theorem insertBy_perm (key : Nat → Int) (v : Nat) (l : List Nat) : (insertBy key v l).Perm (v :: l) := by
  induction l with
  | nil => simp [insertBy]
  | cons w ws ih =>
    unfold insertBy
    split
    · exact List.Perm.refl _
    · exact (List.Perm.cons w ih).trans (List.Perm.swap v w ws)

theorem insertBy_sorted (key : Nat → Int) (v : Nat) (l : List Nat)
    (h : l.Pairwise (fun a b => key a ≤ key b)) : (insertBy key v l).Pairwise (fun a b => key a ≤ key b) := by
  induction l with
  | nil => simp [insertBy]
  | cons w ws ih =>
    obtain ⟨h1, h2⟩ := List.pairwise_cons.1 h
    unfold insertBy
    split
    · rename_i hvw
      refine List.pairwise_cons.2 ⟨fun z hz => ?_, h⟩
      rcases List.mem_cons.1 hz with rfl | hz
      · exact hvw
      · exact Int.le_trans hvw (h1 z hz)
    · rename_i hvw
      refine List.pairwise_cons.2 ⟨fun z hz => ?_, ih h2⟩
      have : z ∈ v :: ws := (insertBy_perm key v ws).mem_iff.1 hz
      rcases List.mem_cons.1 this with rfl | hz'
      · omega
      · exact h1 z hz'

/-! ### `findFirst` (the scan used by the executable specification) -/

theorem findFirst_some (f : Nat → Bool) : ∀ (c s d : Nat), findFirst f s c = some d ↔
    (s ≤ d ∧ d < s + c ∧ f d = true ∧ ∀ e, s ≤ e → e < d → f e = false) := by
  intro c
  induction c with
  | zero => intro s d; simp [findFirst]; omega
  | succ c ih =>
    intro s d
    unfold findFirst
    cases hfs : f s
    · simp only [Bool.false_eq_true, if_false]
      rw [ih]
      constructor
      · rintro ⟨h1, h2, h3, h4⟩
        refine ⟨by omega, by omega, h3, fun e he1 he2 => ?_⟩
        by_cases hes : e = s
        · subst hes; exact hfs
        · exact h4 e (by omega) he2
      · rintro ⟨h1, h2, h3, h4⟩
        have : s ≠ d := by intro h; subst h; rw [hfs] at h3; exact Bool.noConfusion h3
        exact ⟨by omega, by omega, h3, fun e he1 he2 => h4 e (by omega) he2⟩
    · simp only [if_true, Option.some.injEq]
      constructor
      · intro h; subst h; exact ⟨Nat.le_refl _, by omega, hfs, fun e h1 h2 => by omega⟩
      · rintro ⟨h1, h2, h3, h4⟩
        by_cases hsd : s = d
        · exact hsd
        · have := h4 s (Nat.le_refl _) (by omega)
          rw [hfs] at this; exact Bool.noConfusion this

theorem findFirst_none (f : Nat → Bool) : ∀ (c s : Nat), findFirst f s c = none ↔
    ∀ e, s ≤ e → e < s + c → f e = false := by
  intro c
  induction c with
  | zero => intro s; simp [findFirst]; omega
  | succ c ih =>
    intro s
    unfold findFirst
    cases hfs : f s
    · simp only [Bool.false_eq_true, if_false]
      rw [ih]
      constructor
      · intro h e h1 h2
        by_cases hes : e = s
        · subst hes; exact hfs
        · exact h e (by omega) (by omega)
      · intro h e h1 h2; exact h e (by omega) (by omega)
    · simp only [if_true]
      constructor
      · intro h; cases h
      · intro h; have := h s (Nat.le_refl _) (by omega); rw [hfs] at this; exact Bool.noConfusion this
end SkNet.Path
