/-
C11 (core.pyx support): invariants of the indexed binary min-heap `MinHeap` (minheap.pyx) as modelled by
`Heap`, `Heap.insertKey`, `Heap.decreaseKey`, `Heap.popMin` in `SkNet.Model.Topology`.

* `HeapInv h sc n` : `val`/`pos` have length `n`, the live prefix `val[0..size)` holds node ids `< n`,
  `pos` is the inverse of `val` on it, and the keys `sc[val[·]]` satisfy the heap order.
* `heapInv_empty`, `insertKey_*`, `decreaseKey_*`, `popMin_*` : each operation keeps the invariant and changes
  the set of live nodes as expected; `popMin` returns a live node of minimum key.
-/
import SkNet.Model.Topology

set_option linter.unusedSimpArgs false

namespace SkNet.Topology

/-! ### reads after writes -/

theorem heap_getD_set_eq {α : Type} (l : List α) (i : Nat) (a d : α) (hi : i < l.length) :
    (l.set i a).getD i d = a := by
  simp [List.getD_eq_getElem?_getD, List.getElem?_set, hi]

theorem heap_getD_set_ne {α : Type} (l : List α) (i j : Nat) (a d : α) (hij : i ≠ j) :
    (l.set i a).getD j d = l.getD j d := by
  simp [List.getD_eq_getElem?_getD, List.getElem?_set, hij]

/-! ### `parent` -/

theorem parent_lt {j : Nat} (hj : 0 < j) : parent j < j := by unfold parent; omega

theorem parent_eq_iff {i j : Nat} (hj : 0 < j) : parent j = i ↔ (j = 2 * i + 1 ∨ j = 2 * i + 2) := by
  unfold parent; omega

/-! ### pure order lemmas (keys as a function of the position) -/

/-- one step of sift-up: after exchanging `i` with its (larger) parent, the weakened invariant holds at the
    parent -/
theorem siftUp_step_order (key key' : Nat → Int) (size i : Nat)
    (h1 : ∀ j, 0 < j → j < size → j ≠ i → key (parent j) ≤ key j)
    (h2 : ∀ j, 0 < j → j < size → parent j = i → 0 < i → key (parent i) ≤ key j)
    (hi : 0 < i) (hisz : i < size) (hlt : key i < key (parent i))
    (hk : ∀ j, key' j = if j = parent i then key i else if j = i then key (parent i) else key j) :
    (∀ j, 0 < j → j < size → j ≠ parent i → key' (parent j) ≤ key' j) ∧
    (∀ j, 0 < j → j < size → parent j = parent i → 0 < parent i →
      key' (parent (parent i)) ≤ key' j) := by
  have hpi : parent i < i := parent_lt hi
  refine ⟨?_, ?_⟩
  · intro j hj hjs hjp
    have hpj : parent j < j := parent_lt hj
    rw [hk j, hk (parent j)]
    by_cases e1 : j = i
    · subst e1
      simp only [if_neg hjp, if_true]
      omega
    · simp only [if_neg hjp, if_neg e1]
      by_cases e2 : parent j = parent i
      · simp only [if_pos e2]
        have := h1 j hj hjs e1
        rw [e2] at this
        omega
      · simp only [if_neg e2]
        by_cases e3 : parent j = i
        · simp only [if_pos e3]
          exact h2 j hj hjs e3 hi
        · simp only [if_neg e3]
          exact h1 j hj hjs e1
  · intro j hj hjs hjp hp
    have hpp : parent (parent i) < parent i := parent_lt hp
    have hpj : parent j < j := parent_lt hj
    have hppi : key (parent (parent i)) ≤ key (parent i) := h1 (parent i) hp (by omega) (by omega)
    rw [hk j, hk (parent (parent i))]
    simp only [if_neg (show parent (parent i) ≠ parent i by omega),
      if_neg (show parent (parent i) ≠ i by omega), if_neg (show j ≠ parent i by omega)]
    by_cases e1 : j = i
    · simp only [if_pos e1]; exact hppi
    · simp only [if_neg e1]
      have := h1 j hj hjs e1
      rw [hjp] at this
      omega

theorem heapify_step_order (key key' : Nat → Int) (size i s : Nat)
    (h1 : ∀ j, 0 < j → j < size → parent j ≠ i → key (parent j) ≤ key j)
    (h2 : ∀ j, 0 < j → j < size → parent j = i → 0 < i → key (parent i) ≤ key j)
    (hs : s = 2 * i + 1 ∨ s = 2 * i + 2) (hssz : s < size)
    (hsi : key s ≤ key i)
    (hsl : 2 * i + 1 < size → key s ≤ key (2 * i + 1))
    (hsr : 2 * i + 2 < size → key s ≤ key (2 * i + 2))
    (hk : ∀ j, key' j = if j = s then key i else if j = i then key s else key j) :
    (∀ j, 0 < j → j < size → parent j ≠ s → key' (parent j) ≤ key' j) ∧
    (∀ j, 0 < j → j < size → parent j = s → 0 < s → key' (parent s) ≤ key' j) := by
  have hps : parent s = i := by unfold parent; omega
  have his : i ≠ s := by omega
  refine ⟨?_, ?_⟩
  · intro j hj hjs hjp
    have hpj : parent j < j := parent_lt hj
    rw [hk j, hk (parent j)]
    simp only [if_neg hjp]
    by_cases e1 : j = s
    · subst e1
      simp only [if_true, hps, if_true]
      exact hsi
    · simp only [if_neg e1]
      by_cases e2 : j = i
      · subst e2
        simp only [if_true, if_neg (show parent j ≠ j by omega)]
        exact h2 s (by omega) hssz hps hj
      · simp only [if_neg e2]
        by_cases e3 : parent j = i
        · simp only [if_pos e3]
          rcases (parent_eq_iff hj).1 e3 with e | e
          · subst e; exact hsl hjs
          · subst e; exact hsr hjs
        · simp only [if_neg e3]
          exact h1 j hj hjs e3
  · intro j hj hjs hjp _
    have hpj : parent j < j := parent_lt hj
    rw [hk j, hk (parent s), hps]
    simp only [if_neg his, if_true, if_neg (show j ≠ s by omega), if_neg (show j ≠ i by omega)]
    have := h1 j hj hjs (by omega)
    rw [hjp] at this
    exact this

/-- root minimality from the heap order, as a statement on positions -/
theorem root_le_of_order (key : Nat → Int) (size : Nat)
    (h : ∀ j, 0 < j → j < size → key (parent j) ≤ key j) :
    ∀ i, i < size → key 0 ≤ key i := by
  intro i
  induction i using Nat.strongRecOn with
  | _ i ih =>
    intro hi
    by_cases h0 : i = 0
    · subst h0; exact Int.le_refl _
    · have hp : parent i < i := parent_lt (by omega)
      have := ih (parent i) hp (by omega)
      have := h i (by omega) hi
      omega

/-! ### the invariant -/

/-- structural part of the invariant: `pos` is the inverse of `val` on the live prefix -/
structure HeapWf (h : Heap) (n : Nat) : Prop where
  lenVal : h.val.length = n
  lenPos : h.pos.length = n
  sizeLe : h.size ≤ n
  valLt  : ∀ i, i < h.size → h.val.getD i 0 < n
  posVal : ∀ i, i < h.size → h.pos.getD (h.val.getD i 0) 0 = i

/-- the heap order on the keys `sc[val[·]]` -/
def HeapOrder (h : Heap) (sc : List Int) : Prop :=
  ∀ i, 0 < i → i < h.size → sc.getD (h.val.getD (parent i) 0) 0 ≤ sc.getD (h.val.getD i 0) 0

/-- heap invariant for a heap over node ids `< n` with keys `sc` -/
structure HeapInv (h : Heap) (sc : List Int) (n : Nat) : Prop where
  lenVal : h.val.length = n
  lenPos : h.pos.length = n
  sizeLe : h.size ≤ n
  valLt  : ∀ i, i < h.size → h.val.getD i 0 < n
  posVal : ∀ i, i < h.size → h.pos.getD (h.val.getD i 0) 0 = i
  order  : ∀ i, 0 < i → i < h.size →
    sc.getD (h.val.getD (parent i) 0) 0 ≤ sc.getD (h.val.getD i 0) 0

/-- node `v` is in the heap -/
def Heap.live (h : Heap) (v : Nat) : Prop := ∃ i, i < h.size ∧ h.val.getD i 0 = v

theorem HeapInv.wf {h : Heap} {sc : List Int} {n : Nat} (hi : HeapInv h sc n) : HeapWf h n :=
  ⟨hi.lenVal, hi.lenPos, hi.sizeLe, hi.valLt, hi.posVal⟩

theorem HeapInv.of_wf {h : Heap} {sc : List Int} {n : Nat} (hw : HeapWf h n) (ho : HeapOrder h sc) :
    HeapInv h sc n :=
  ⟨hw.lenVal, hw.lenPos, hw.sizeLe, hw.valLt, hw.posVal, ho⟩

/-- `val` is injective on the live prefix -/
theorem HeapWf.val_inj {h : Heap} {n : Nat} (hw : HeapWf h n) {i j : Nat} (hi : i < h.size)
    (hj : j < h.size) (e : h.val.getD i 0 = h.val.getD j 0) : i = j := by
  have h1 := hw.posVal i hi
  have h2 := hw.posVal j hj
  rw [e] at h1
  omega

theorem HeapWf.live_pos {h : Heap} {n : Nat} (hw : HeapWf h n) {v : Nat} (hl : h.live v) :
    h.pos.getD v 0 < h.size ∧ h.val.getD (h.pos.getD v 0) 0 = v := by
  obtain ⟨i, hi, rfl⟩ := hl
  rw [hw.posVal i hi]
  exact ⟨hi, rfl⟩

/-! ### empty heap -/

theorem heapInv_empty (sc : List Int) (n : Nat) : HeapInv (Heap.empty n) sc n where
  lenVal := by simp [Heap.empty]
  lenPos := by simp [Heap.empty]
  sizeLe := Nat.zero_le _
  valLt := fun i hi => absurd hi (Nat.not_lt_zero _)
  posVal := fun i hi => absurd hi (Nat.not_lt_zero _)
  order := fun i _ hi => absurd hi (Nat.not_lt_zero _)

theorem not_live_empty (n v : Nat) : ¬ (Heap.empty n).live v := by
  rintro ⟨i, hi, _⟩
  exact absurd hi (Nat.not_lt_zero _)

/-! ### `swap` -/

@[simp] theorem swap_size (h : Heap) (x y : Nat) : (h.swap x y).size = h.size := rfl

theorem swap_val_length (h : Heap) (x y : Nat) : (h.swap x y).val.length = h.val.length := by
  simp [Heap.swap]

theorem swap_pos_length (h : Heap) (x y : Nat) : (h.swap x y).pos.length = h.pos.length := by
  simp [Heap.swap]

theorem swap_val_getD (h : Heap) (x y i : Nat) (hx : x < h.val.length) (hy : y < h.val.length) :
    (h.swap x y).val.getD i 0 =
      if i = y then h.val.getD x 0 else if i = x then h.val.getD y 0 else h.val.getD i 0 := by
  show ((h.val.set x (h.val.getD y 0)).set y (h.val.getD x 0)).getD i 0 = _
  by_cases e1 : i = y
  · subst e1
    rw [if_pos rfl, heap_getD_set_eq _ _ _ _ (by simpa using hy)]
  · rw [if_neg e1, heap_getD_set_ne _ _ _ _ _ (fun e => e1 e.symm)]
    by_cases e2 : i = x
    · subst e2
      rw [if_pos rfl, heap_getD_set_eq _ _ _ _ hx]
    · rw [if_neg e2, heap_getD_set_ne _ _ _ _ _ (fun e => e2 e.symm)]

theorem swap_pos_getD (h : Heap) (x y v : Nat) (hxy : x ≠ y) (hx : x < h.val.length)
    (hy : y < h.val.length) (hvx : h.val.getD x 0 < h.pos.length) (hvy : h.val.getD y 0 < h.pos.length) :
    (h.swap x y).pos.getD v 0 =
      if v = h.val.getD x 0 then y else if v = h.val.getD y 0 then x else h.pos.getD v 0 := by
  have e1 : (h.swap x y).val.getD x 0 = h.val.getD y 0 := by
    rw [swap_val_getD h x y x hx hy, if_neg hxy, if_pos rfl]
  have e2 : (h.swap x y).val.getD y 0 = h.val.getD x 0 := by
    rw [swap_val_getD h x y y hx hy, if_pos rfl]
  show ((h.pos.set ((h.swap x y).val.getD x 0) x).set ((h.swap x y).val.getD y 0) y).getD v 0 = _
  rw [e1, e2]
  by_cases c1 : v = h.val.getD x 0
  · subst c1
    rw [if_pos rfl, heap_getD_set_eq _ _ _ _ (by simpa using hvx)]
  · rw [if_neg c1, heap_getD_set_ne _ _ _ _ _ (fun e => c1 e.symm)]
    by_cases c2 : v = h.val.getD y 0
    · subst c2
      rw [if_pos rfl, heap_getD_set_eq _ _ _ _ hvy]
    · rw [if_neg c2, heap_getD_set_ne _ _ _ _ _ (fun e => c2 e.symm)]

theorem swap_wf {h : Heap} {n : Nat} (hw : HeapWf h n) {x y : Nat} (hx : x < h.size) (hy : y < h.size)
    (hxy : x ≠ y) : HeapWf (h.swap x y) n := by
  have hxl : x < h.val.length := by have := hw.lenVal; have := hw.sizeLe; omega
  have hyl : y < h.val.length := by have := hw.lenVal; have := hw.sizeLe; omega
  have hvx : h.val.getD x 0 < h.pos.length := by have := hw.valLt x hx; have := hw.lenPos; omega
  have hvy : h.val.getD y 0 < h.pos.length := by have := hw.valLt y hy; have := hw.lenPos; omega
  refine ⟨by rw [swap_val_length]; exact hw.lenVal, by rw [swap_pos_length]; exact hw.lenPos,
    hw.sizeLe, ?_, ?_⟩
  · intro i hi
    rw [swap_val_getD h x y i hxl hyl]
    split
    · exact hw.valLt x hx
    · split
      · exact hw.valLt y hy
      · exact hw.valLt i hi
  · intro i hi
    rw [swap_pos_getD h x y _ hxy hxl hyl hvx hvy, swap_val_getD h x y i hxl hyl]
    by_cases c1 : i = y
    · subst c1; rw [if_pos rfl, if_pos rfl]
    · rw [if_neg c1]
      by_cases c2 : i = x
      · subst c2
        rw [if_pos rfl, if_neg (fun e => hxy (hw.val_inj hx hy e.symm)), if_pos rfl]
      · rw [if_neg c2, if_neg (fun e => c2 (hw.val_inj hi hx e)),
          if_neg (fun e => c1 (hw.val_inj hi hy e))]
        exact hw.posVal i hi

theorem swap_live {h : Heap} {n : Nat} (hw : HeapWf h n) {x y : Nat} (hx : x < h.size) (hy : y < h.size)
    (v : Nat) : (h.swap x y).live v ↔ h.live v := by
  have hxl : x < h.val.length := by have := hw.lenVal; have := hw.sizeLe; omega
  have hyl : y < h.val.length := by have := hw.lenVal; have := hw.sizeLe; omega
  constructor
  · rintro ⟨i, hi, e⟩
    rw [swap_val_getD h x y i hxl hyl] at e
    by_cases c1 : i = y
    · rw [if_pos c1] at e; exact ⟨x, hx, e⟩
    · rw [if_neg c1] at e
      by_cases c2 : i = x
      · rw [if_pos c2] at e; exact ⟨y, hy, e⟩
      · rw [if_neg c2] at e; exact ⟨i, hi, e⟩
  · rintro ⟨i, hi, e⟩
    by_cases c1 : i = x
    · subst c1
      exact ⟨y, hy, by rw [swap_val_getD h i y y hxl hyl, if_pos rfl]; exact e⟩
    · by_cases c2 : i = y
      · subst c2
        refine ⟨x, hx, ?_⟩
        rw [swap_val_getD h x i x hxl hyl]
        by_cases c3 : x = i
        · rw [if_pos c3, c3]; exact e
        · rw [if_neg c3, if_pos rfl]; exact e
      · exact ⟨i, hi, by rw [swap_val_getD h x y i hxl hyl, if_neg c2, if_neg c1]; exact e⟩

/-! ### `siftUp` -/

/-- the heap order holds everywhere except possibly between `i` and its parent, and the children of `i`
    are not below the parent of `i` -/
def OrderUp (h : Heap) (sc : List Int) (i : Nat) : Prop :=
  (∀ j, 0 < j → j < h.size → j ≠ i →
    sc.getD (h.val.getD (parent j) 0) 0 ≤ sc.getD (h.val.getD j 0) 0) ∧
  (∀ j, 0 < j → j < h.size → parent j = i → 0 < i →
    sc.getD (h.val.getD (parent i) 0) 0 ≤ sc.getD (h.val.getD j 0) 0)

theorem HeapOrder.orderUp {h : Heap} {sc : List Int} (ho : HeapOrder h sc) (i : Nat) (hi : i < h.size) :
    OrderUp h sc i := by
  refine ⟨fun j hj hjs _ => ho j hj hjs, fun j hj hjs hp h0 => ?_⟩
  have h1 := ho j hj hjs
  have h2 := ho i h0 hi
  rw [hp] at h1
  omega

theorem siftUp_spec (sc : List Int) (h : Heap) (i n : Nat) (hw : HeapWf h n) (hi : i < h.size)
    (ho : OrderUp h sc i) :
    HeapWf (h.siftUp sc i) n ∧ HeapOrder (h.siftUp sc i) sc ∧ (h.siftUp sc i).size = h.size ∧
      ∀ v, (h.siftUp sc i).live v ↔ h.live v := by
  fun_induction Heap.siftUp sc h i with
  | case1 h =>
    refine ⟨hw, fun j hj hjs => ho.1 j hj hjs (by omega), rfl, fun v => Iff.rfl⟩
  | case2 h i hi0 hgt ih =>
    have hpi : parent i < i := parent_lt (by omega)
    have hps : parent i < h.size := by omega
    have hxl : i < h.val.length := by have := hw.lenVal; have := hw.sizeLe; omega
    have hyl : parent i < h.val.length := by omega
    have hw' : HeapWf (h.swap i (parent i)) n := swap_wf hw hi hps (by omega)
    have hk : ∀ j, sc.getD ((h.swap i (parent i)).val.getD j 0) 0 =
        if j = parent i then sc.getD (h.val.getD i 0) 0
        else if j = i then sc.getD (h.val.getD (parent i) 0) 0 else sc.getD (h.val.getD j 0) 0 := by
      intro j
      rw [swap_val_getD h i (parent i) j hxl hyl]
      split
      · rfl
      · split <;> rfl
    have hstep := siftUp_step_order (fun j => sc.getD (h.val.getD j 0) 0)
      (fun j => sc.getD ((h.swap i (parent i)).val.getD j 0) 0) h.size i ho.1 ho.2 (by omega) hi hgt hk
    obtain ⟨r1, r2, r3, r4⟩ := ih hw' hps hstep
    refine ⟨r1, r2, r3, fun v => ?_⟩
    rw [r4 v]
    exact swap_live hw hi hps v
  | case3 h i hi0 hle =>
    refine ⟨hw, fun j hj hjs => ?_, rfl, fun v => Iff.rfl⟩
    by_cases e : j = i
    · subst e; omega
    · exact ho.1 j hj hjs e

/-- on a heap that is ordered everywhere, sift-up from any position does nothing -/
theorem siftUp_eq_self_of_order (sc : List Int) (h : Heap) (i : Nat) (hi : i < h.size)
    (ho : HeapOrder h sc) : h.siftUp sc i = h := by
  unfold Heap.siftUp
  split
  · rfl
  · split
    · have := ho i (by omega) hi
      omega
    · rfl

/-! ### `insertKey` -/

/-- the heap after writing `k` in the first free cell, before sifting up -/
def Heap.push (h : Heap) (k : Nat) : Heap :=
  { val := h.val.set h.size k, pos := h.pos.set k h.size, size := h.size + 1 }

theorem insertKey_eq (h : Heap) (k : Nat) (sc : List Int) :
    h.insertKey k sc = (h.push k).siftUp sc h.size := rfl

theorem push_val_getD (h : Heap) (k i : Nat) (hs : h.size < h.val.length) :
    (h.push k).val.getD i 0 = if i = h.size then k else h.val.getD i 0 := by
  show (h.val.set h.size k).getD i 0 = _
  by_cases e : i = h.size
  · rw [if_pos e, e, heap_getD_set_eq _ _ _ _ hs]
  · rw [if_neg e, heap_getD_set_ne _ _ _ _ _ (fun e' => e e'.symm)]

theorem push_wf {h : Heap} {n : Nat} (hw : HeapWf h n) {k : Nat} (hk : k < n) (hnl : ¬ h.live k)
    (hs : h.size < n) : HeapWf (h.push k) n := by
  have hsl : h.size < h.val.length := by have := hw.lenVal; omega
  refine ⟨by simp [Heap.push, hw.lenVal], by simp [Heap.push, hw.lenPos], hs, ?_, ?_⟩
  · intro i hi
    rw [push_val_getD h k i hsl]
    split
    · exact hk
    · exact hw.valLt i (by change i < h.size + 1 at hi; omega)
  · intro i hi
    change i < h.size + 1 at hi
    rw [push_val_getD h k i hsl]
    show (h.pos.set k h.size).getD _ 0 = i
    by_cases e : i = h.size
    · rw [if_pos e, e, heap_getD_set_eq _ _ _ _ (by have := hw.lenPos; omega)]
    · rw [if_neg e]
      have hi' : i < h.size := by omega
      rw [heap_getD_set_ne _ _ _ _ _ (fun e' => hnl ⟨i, hi', e'.symm⟩)]
      exact hw.posVal i hi'

theorem push_live {h : Heap} {n : Nat} (hw : HeapWf h n) (k : Nat) (hs : h.size < n) (v : Nat) :
    (h.push k).live v ↔ (h.live v ∨ v = k) := by
  have hsl : h.size < h.val.length := by have := hw.lenVal; omega
  constructor
  · rintro ⟨i, hi, e⟩
    change i < h.size + 1 at hi
    rw [push_val_getD h k i hsl] at e
    by_cases c : i = h.size
    · rw [if_pos c] at e; exact Or.inr e.symm
    · rw [if_neg c] at e; exact Or.inl ⟨i, by omega, e⟩
  · rintro (⟨i, hi, e⟩ | e)
    · refine ⟨i, by show i < h.size + 1; omega, ?_⟩
      rw [push_val_getD h k i hsl, if_neg (by omega)]; exact e
    · refine ⟨h.size, by show h.size < h.size + 1; omega, ?_⟩
      rw [push_val_getD h k _ hsl, if_pos rfl]; exact e.symm

theorem push_orderUp {h : Heap} {sc : List Int} {n : Nat} (hw : HeapWf h n) (ho : HeapOrder h sc) (k : Nat)
    (hs : h.size < n) : OrderUp (h.push k) sc h.size := by
  have hsl : h.size < h.val.length := by have := hw.lenVal; omega
  constructor
  · intro j hj hjs hne
    change j < h.size + 1 at hjs
    have hp := parent_lt hj
    rw [push_val_getD h k j hsl, push_val_getD h k (parent j) hsl, if_neg hne, if_neg (by omega)]
    exact ho j hj (by omega)
  · intro j hj hjs hp _
    change j < h.size + 1 at hjs
    have := parent_lt hj
    omega

theorem insertKey_spec {h : Heap} {sc : List Int} {n k : Nat} (hinv : HeapInv h sc n) (hk : k < n)
    (hnl : ¬ h.live k) (hs : h.size < n) :
    HeapInv (h.insertKey k sc) sc n ∧ (h.insertKey k sc).size = h.size + 1 ∧
      ∀ v, (h.insertKey k sc).live v ↔ (h.live v ∨ v = k) := by
  rw [insertKey_eq]
  obtain ⟨r1, r2, r3, r4⟩ := siftUp_spec sc (h.push k) h.size n (push_wf hinv.wf hk hnl hs)
    (by show h.size < h.size + 1; omega) (push_orderUp hinv.wf hinv.order k hs)
  refine ⟨HeapInv.of_wf r1 r2, r3, fun v => ?_⟩
  rw [r4 v]
  exact push_live hinv.wf k hs v

/-! ### `decreaseKey` -/

theorem decreaseKey_spec {h : Heap} {sc sc' : List Int} {n j : Nat} (hinv : HeapInv h sc n)
    (hle : sc'.getD j 0 ≤ sc.getD j 0) (hother : ∀ v, v ≠ j → sc'.getD v 0 = sc.getD v 0) :
    HeapInv (h.decreaseKey j sc') sc' n ∧ (h.decreaseKey j sc').size = h.size ∧
      ∀ v, (h.decreaseKey j sc').live v ↔ h.live v := by
  have hw := hinv.wf
  -- every key is at most its old value, and only the cell `pos[j]` can hold `j`
  have hle' : ∀ v, sc'.getD v 0 ≤ sc.getD v 0 := by
    intro v
    by_cases e : v = j
    · subst e; exact hle
    · rw [hother v e]; exact Int.le_refl _
  have hsame : ∀ i, i < h.size → i ≠ h.pos.getD j 0 →
      sc'.getD (h.val.getD i 0) 0 = sc.getD (h.val.getD i 0) 0 := by
    intro i hi hne
    apply hother
    intro e
    have := hw.posVal i hi
    rw [e] at this
    omega
  unfold Heap.decreaseKey
  by_cases hp : h.pos.getD j 0 < h.size
  · rw [if_pos hp]
    have hup : OrderUp h sc' (h.pos.getD j 0) := by
      constructor
      · intro i hi his hne
        have := hle' (h.val.getD (parent i) 0)
        have := hinv.order i hi his
        have := hsame i his hne
        omega
      · intro i hi his hpar h0
        have hpi := parent_lt hi
        have := hle' (h.val.getD (parent (h.pos.getD j 0)) 0)
        have := hinv.order _ h0 hp
        have h3 := hinv.order i hi his
        rw [hpar] at h3
        have := hsame i his (by omega)
        omega
    obtain ⟨r1, r2, r3, r4⟩ := siftUp_spec sc' h _ n hw hp hup
    exact ⟨HeapInv.of_wf r1 r2, r3, r4⟩
  · rw [if_neg hp]
    refine ⟨HeapInv.of_wf hw ?_, rfl, fun v => Iff.rfl⟩
    intro i hi his
    have hpi := parent_lt hi
    have := hsame i his (by omega)
    have := hsame (parent i) (by omega) (by omega)
    have := hinv.order i hi his
    omega

/-! ### `minHeapify` -/

theorem smallest_le (sc : List Int) (h : Heap) (i : Nat) :
    sc.getD (h.val.getD (h.smallest sc i) 0) 0 ≤ sc.getD (h.val.getD i 0) 0 ∧
    (2 * i + 1 < h.size →
      sc.getD (h.val.getD (h.smallest sc i) 0) 0 ≤ sc.getD (h.val.getD (2 * i + 1) 0) 0) ∧
    (2 * i + 2 < h.size →
      sc.getD (h.val.getD (h.smallest sc i) 0) 0 ≤ sc.getD (h.val.getD (2 * i + 2) 0) 0) := by
  unfold Heap.smallest
  by_cases c1 : 2 * i + 1 < h.size ∧
      sc.getD (h.val.getD (2 * i + 1) 0) 0 < sc.getD (h.val.getD i 0) 0
  · simp only [if_pos c1]
    by_cases c2 : 2 * i + 2 < h.size ∧
        sc.getD (h.val.getD (2 * i + 2) 0) 0 < sc.getD (h.val.getD (2 * i + 1) 0) 0
    · simp only [if_pos c2]
      refine ⟨by omega, fun _ => by omega, fun _ => by omega⟩
    · simp only [if_neg c2]
      refine ⟨by omega, fun _ => by omega, fun hr => by omega⟩
  · simp only [if_neg c1]
    by_cases c2 : 2 * i + 2 < h.size ∧
        sc.getD (h.val.getD (2 * i + 2) 0) 0 < sc.getD (h.val.getD i 0) 0
    · simp only [if_pos c2]
      refine ⟨by omega, fun hl => by omega, fun _ => by omega⟩
    · simp only [if_neg c2]
      refine ⟨by omega, fun hl => by omega, fun hr => by omega⟩

/-- the heap order holds everywhere except possibly between `i` and its children, and the children of `i`
    are not below the parent of `i` -/
def OrderDown (h : Heap) (sc : List Int) (i : Nat) : Prop :=
  (∀ j, 0 < j → j < h.size → parent j ≠ i →
    sc.getD (h.val.getD (parent j) 0) 0 ≤ sc.getD (h.val.getD j 0) 0) ∧
  (∀ j, 0 < j → j < h.size → parent j = i → 0 < i →
    sc.getD (h.val.getD (parent i) 0) 0 ≤ sc.getD (h.val.getD j 0) 0)

theorem minHeapify_spec (sc : List Int) (h : Heap) (i n : Nat) (hw : HeapWf h n) (hi : i < h.size)
    (ho : OrderDown h sc i) :
    HeapWf (h.minHeapify sc i) n ∧ HeapOrder (h.minHeapify sc i) sc ∧
      (h.minHeapify sc i).size = h.size ∧ ∀ v, (h.minHeapify sc i).live v ↔ h.live v := by
  fun_induction Heap.minHeapify sc h i with
  | case1 h i hne ih =>
    have hsl := smallest_le sc h i
    have hcases : (h.smallest sc i = 2 * i + 1 ∨ h.smallest sc i = 2 * i + 2) ∧
        h.smallest sc i < h.size := by
      rcases Heap.smallest_cases sc h i with e | ⟨e, hlt⟩ | ⟨e, hlt⟩
      · exact absurd e hne
      · exact ⟨Or.inl e, by omega⟩
      · exact ⟨Or.inr e, by omega⟩
    generalize h.smallest sc i = s at *
    obtain ⟨hs, hss⟩ := hcases
    have hxl : i < h.val.length := by have := hw.lenVal; have := hw.sizeLe; omega
    have hyl : s < h.val.length := by have := hw.lenVal; have := hw.sizeLe; omega
    have hw' : HeapWf (h.swap i s) n := swap_wf hw hi hss hne.symm
    have hk : ∀ j, sc.getD ((h.swap i s).val.getD j 0) 0 =
        if j = s then sc.getD (h.val.getD i 0) 0
        else if j = i then sc.getD (h.val.getD s 0) 0 else sc.getD (h.val.getD j 0) 0 := by
      intro j
      rw [swap_val_getD h i s j hxl hyl]
      split
      · rfl
      · split <;> rfl
    have hstep := heapify_step_order (fun j => sc.getD (h.val.getD j 0) 0)
      (fun j => sc.getD ((h.swap i s).val.getD j 0) 0) h.size i s ho.1 ho.2 hs hss hsl.1 hsl.2.1
      hsl.2.2 hk
    obtain ⟨r1, r2, r3, r4⟩ := ih hw' hss hstep
    refine ⟨r1, r2, r3, fun v => ?_⟩
    rw [r4 v]
    exact swap_live hw hi hss v
  | case2 h i heq =>
    have heq' : h.smallest sc i = i := Decidable.not_not.mp heq
    have hsl := smallest_le sc h i
    rw [heq'] at hsl
    refine ⟨hw, fun j hj hjs => ?_, rfl, fun v => Iff.rfl⟩
    by_cases e : parent j = i
    · rw [e]
      rcases (parent_eq_iff hj).1 e with e' | e'
      · subst e'; exact hsl.2.1 hjs
      · subst e'; exact hsl.2.2 hjs
    · exact ho.1 j hj hjs e

/-! ### `popMin` -/

/-- the heap after moving the last live cell to the root, before `minHeapify` -/
def Heap.dropRoot (h : Heap) : Heap :=
  { val := h.val.set 0 (h.val.getD (h.size - 1) 0),
    pos := h.pos.set ((h.val.set 0 (h.val.getD (h.size - 1) 0)).getD 0 0) 0,
    size := h.size - 1 }

theorem popMin_eq_one (h : Heap) (sc : List Int) (h1 : h.size = 1) :
    h.popMin sc = (h.val.getD 0 0, { h with size := 0 }) := by
  unfold Heap.popMin; rw [if_pos h1]

theorem popMin_eq (h : Heap) (sc : List Int) (h1 : h.size ≠ 1) :
    h.popMin sc = (h.val.getD 0 0, h.dropRoot.minHeapify sc 0) := by
  unfold Heap.popMin; rw [if_neg h1]; rfl

theorem dropRoot_val_getD (h : Heap) (i : Nat) (hl : 0 < h.val.length) :
    h.dropRoot.val.getD i 0 = if i = 0 then h.val.getD (h.size - 1) 0 else h.val.getD i 0 := by
  show (h.val.set 0 (h.val.getD (h.size - 1) 0)).getD i 0 = _
  by_cases e : i = 0
  · rw [if_pos e, e, heap_getD_set_eq _ _ _ _ hl]
  · rw [if_neg e, heap_getD_set_ne _ _ _ _ _ (fun e' => e e'.symm)]

theorem dropRoot_pos (h : Heap) (hl : 0 < h.val.length) :
    h.dropRoot.pos = h.pos.set (h.val.getD (h.size - 1) 0) 0 := by
  show h.pos.set ((h.val.set 0 (h.val.getD (h.size - 1) 0)).getD 0 0) 0 = _
  rw [heap_getD_set_eq _ _ _ _ hl]

theorem dropRoot_wf {h : Heap} {n : Nat} (hw : HeapWf h n) (h2 : 2 ≤ h.size) : HeapWf h.dropRoot n := by
  have hl : 0 < h.val.length := by have := hw.lenVal; have := hw.sizeLe; omega
  have hlast : h.size - 1 < h.size := by omega
  refine ⟨by simp [Heap.dropRoot, hw.lenVal], by simp [Heap.dropRoot, hw.lenPos],
    by show h.size - 1 ≤ n; have := hw.sizeLe; omega, ?_, ?_⟩
  · intro i hi
    change i < h.size - 1 at hi
    rw [dropRoot_val_getD h i hl]
    split
    · exact hw.valLt _ hlast
    · exact hw.valLt i (by omega)
  · intro i hi
    change i < h.size - 1 at hi
    rw [dropRoot_val_getD h i hl, dropRoot_pos h hl]
    by_cases e : i = 0
    · rw [if_pos e, e, heap_getD_set_eq _ _ _ _ (by have := hw.valLt _ hlast; have := hw.lenPos; omega)]
    · rw [if_neg e]
      have hi' : i < h.size := by omega
      rw [heap_getD_set_ne _ _ _ _ _ (fun e' => by have := hw.val_inj hlast hi' e'; omega)]
      exact hw.posVal i hi'

theorem dropRoot_live {h : Heap} {n : Nat} (hw : HeapWf h n) (h2 : 2 ≤ h.size) (v : Nat) :
    h.dropRoot.live v ↔ (h.live v ∧ v ≠ h.val.getD 0 0) := by
  have hl : 0 < h.val.length := by have := hw.lenVal; have := hw.sizeLe; omega
  have hlast : h.size - 1 < h.size := by omega
  have h0 : 0 < h.size := by omega
  constructor
  · rintro ⟨i, hi, e⟩
    change i < h.size - 1 at hi
    rw [dropRoot_val_getD h i hl] at e
    by_cases c : i = 0
    · rw [if_pos c] at e
      refine ⟨⟨_, hlast, e⟩, fun e' => ?_⟩
      have := hw.val_inj hlast h0 (e.trans e')
      omega
    · rw [if_neg c] at e
      have hi' : i < h.size := by omega
      exact ⟨⟨i, hi', e⟩, fun e' => c (hw.val_inj hi' h0 (e.trans e'))⟩
  · rintro ⟨⟨i, hi, e⟩, hne⟩
    have hi0 : i ≠ 0 := fun e' => hne (by rw [← e, e'])
    by_cases c : i = h.size - 1
    · refine ⟨0, by show 0 < h.size - 1; omega, ?_⟩
      rw [dropRoot_val_getD h 0 hl, if_pos rfl, ← c]; exact e
    · refine ⟨i, by show i < h.size - 1; omega, ?_⟩
      rw [dropRoot_val_getD h i hl, if_neg hi0]; exact e

theorem dropRoot_orderDown {h : Heap} {sc : List Int} {n : Nat} (hw : HeapWf h n) (ho : HeapOrder h sc) :
    OrderDown h.dropRoot sc 0 := by
  constructor
  · intro j hj hjs hp
    change j < h.size - 1 at hjs
    have hl : 0 < h.val.length := by have := hw.lenVal; have := hw.sizeLe; omega
    rw [dropRoot_val_getD h j hl, dropRoot_val_getD h (parent j) hl, if_neg hp, if_neg (by omega)]
    exact ho j hj (by omega)
  · intro j _ _ _ h0
    exact absurd h0 (Nat.lt_irrefl 0)

theorem popMin_spec {h : Heap} {sc : List Int} {n : Nat} (hinv : HeapInv h sc n) (hpos : 0 < h.size) :
    HeapInv (h.popMin sc).2 sc n ∧ (h.popMin sc).2.size = h.size - 1 ∧ h.live (h.popMin sc).1 ∧
      (∀ v, (h.popMin sc).2.live v ↔ (h.live v ∧ v ≠ (h.popMin sc).1)) ∧
      (∀ v, h.live v → sc.getD (h.popMin sc).1 0 ≤ sc.getD v 0) := by
  have hw := hinv.wf
  have hroot : h.live (h.val.getD 0 0) := ⟨0, hpos, rfl⟩
  have hmin : ∀ v, h.live v → sc.getD (h.val.getD 0 0) 0 ≤ sc.getD v 0 := by
    rintro v ⟨i, hi, rfl⟩
    exact root_le_of_order (fun j => sc.getD (h.val.getD j 0) 0) h.size hinv.order i hi
  by_cases h1 : h.size = 1
  · rw [popMin_eq_one h sc h1]
    refine ⟨⟨hw.lenVal, hw.lenPos, Nat.zero_le _, fun i hi => absurd hi (Nat.not_lt_zero _),
      fun i hi => absurd hi (Nat.not_lt_zero _), fun i _ hi => absurd hi (Nat.not_lt_zero _)⟩,
      by show 0 = h.size - 1; omega, hroot, fun v => ?_, hmin⟩
    constructor
    · rintro ⟨i, hi, _⟩; exact absurd hi (Nat.not_lt_zero _)
    · rintro ⟨⟨i, hi, e⟩, hne⟩
      have : i = 0 := by omega
      subst this
      exact absurd e.symm hne
  · rw [popMin_eq h sc h1]
    have h2 : 2 ≤ h.size := by omega
    obtain ⟨r1, r2, r3, r4⟩ := minHeapify_spec sc h.dropRoot 0 n (dropRoot_wf hw h2)
      (by show 0 < h.size - 1; omega) (dropRoot_orderDown hw hinv.order)
    refine ⟨HeapInv.of_wf r1 r2, r3, hroot, fun v => ?_, hmin⟩
    show (h.dropRoot.minHeapify sc 0).live v ↔ _
    rw [r4 v]
    exact dropRoot_live hw h2 v

/-! ### a full heap holds every node (pigeonhole) -/

theorem no_injection (n : Nat) : ∀ f : Nat → Nat, (∀ i, i < n + 1 → f i < n) →
    ∃ i j, i < j ∧ j < n + 1 ∧ f i = f j := by
  induction n with
  | zero => intro f hf; exact absurd (hf 0 (by omega)) (Nat.not_lt_zero _)
  | succ n ih =>
    intro f hf
    by_cases hex : ∃ i, i < n + 1 ∧ f i = f (n + 1)
    · obtain ⟨i, hi, e⟩ := hex
      exact ⟨i, n + 1, hi, by omega, e⟩
    · have hne : ∀ i, i < n + 1 → f i ≠ f (n + 1) := fun i hi e => hex ⟨i, hi, e⟩
      have hlast := hf (n + 1) (by omega)
      obtain ⟨i, j, hij, hj, e⟩ := ih (fun i => if f (n + 1) < f i then f i - 1 else f i) (by
        intro i hi
        have := hf i (by omega)
        have := hne i hi
        show (if f (n + 1) < f i then f i - 1 else f i) < n
        split <;> omega)
      refine ⟨i, j, hij, by omega, ?_⟩
      have := hne i (by omega)
      have := hne j hj
      split at e <;> split at e <;> omega

theorem HeapWf.size_lt_of_not_live {h : Heap} {n k : Nat} (hw : HeapWf h n) (hk : k < n)
    (hnl : ¬ h.live k) : h.size < n := by
  have hsz := hw.sizeLe
  by_cases hlt : h.size < n
  · exact hlt
  · exfalso
    have hsn : h.size = n := by omega
    obtain ⟨m, rfl⟩ : ∃ m, n = m + 1 := ⟨n - 1, by omega⟩
    obtain ⟨i, j, hij, hj, e⟩ := no_injection m
      (fun i => if k < h.val.getD i 0 then h.val.getD i 0 - 1 else h.val.getD i 0) (by
        intro i hi
        have := hw.valLt i (by omega)
        have : h.val.getD i 0 ≠ k := fun e => hnl ⟨i, by omega, e⟩
        show (if k < h.val.getD i 0 then h.val.getD i 0 - 1 else h.val.getD i 0) < m
        split <;> omega)
    have : h.val.getD i 0 ≠ k := fun e => hnl ⟨i, by omega, e⟩
    have : h.val.getD j 0 ≠ k := fun e => hnl ⟨j, by omega, e⟩
    have hinj : h.val.getD i 0 = h.val.getD j 0 := by
      split at e <;> split at e <;> omega
    have := hw.val_inj (by omega) (by omega) hinj
    omega

/-- `insertKey` without the size hypothesis -/
theorem insertKey_spec' {h : Heap} {sc : List Int} {n k : Nat} (hinv : HeapInv h sc n) (hk : k < n)
    (hnl : ¬ h.live k) :
    HeapInv (h.insertKey k sc) sc n ∧ (h.insertKey k sc).size = h.size + 1 ∧
      ∀ v, (h.insertKey k sc).live v ↔ (h.live v ∨ v = k) :=
  insertKey_spec hinv hk hnl (hinv.wf.size_lt_of_not_live hk hnl)

/-! ### the statements one by one -/

theorem heapInv_insertKey {h : Heap} {sc : List Int} {n k : Nat} (hinv : HeapInv h sc n) (hk : k < n)
    (hnl : ¬ h.live k) : HeapInv (h.insertKey k sc) sc n := (insertKey_spec' hinv hk hnl).1

theorem insertKey_size {h : Heap} {sc : List Int} {n k : Nat} (hinv : HeapInv h sc n) (hk : k < n)
    (hnl : ¬ h.live k) : (h.insertKey k sc).size = h.size + 1 := (insertKey_spec' hinv hk hnl).2.1

theorem insertKey_live {h : Heap} {sc : List Int} {n k : Nat} (hinv : HeapInv h sc n) (hk : k < n)
    (hnl : ¬ h.live k) (v : Nat) : (h.insertKey k sc).live v ↔ (h.live v ∨ v = k) :=
  (insertKey_spec' hinv hk hnl).2.2 v

theorem heapInv_decreaseKey {h : Heap} {sc sc' : List Int} {n j : Nat} (hinv : HeapInv h sc n)
    (hle : sc'.getD j 0 ≤ sc.getD j 0) (hother : ∀ v, v ≠ j → sc'.getD v 0 = sc.getD v 0) :
    HeapInv (h.decreaseKey j sc') sc' n := (decreaseKey_spec hinv hle hother).1

theorem decreaseKey_size {h : Heap} {sc sc' : List Int} {n j : Nat} (hinv : HeapInv h sc n)
    (hle : sc'.getD j 0 ≤ sc.getD j 0) (hother : ∀ v, v ≠ j → sc'.getD v 0 = sc.getD v 0) :
    (h.decreaseKey j sc').size = h.size := (decreaseKey_spec hinv hle hother).2.1

theorem decreaseKey_live {h : Heap} {sc sc' : List Int} {n j : Nat} (hinv : HeapInv h sc n)
    (hle : sc'.getD j 0 ≤ sc.getD j 0) (hother : ∀ v, v ≠ j → sc'.getD v 0 = sc.getD v 0) (v : Nat) :
    (h.decreaseKey j sc').live v ↔ h.live v := (decreaseKey_spec hinv hle hother).2.2 v

theorem heapInv_popMin {h : Heap} {sc : List Int} {n : Nat} (hinv : HeapInv h sc n) (hpos : 0 < h.size) :
    HeapInv (h.popMin sc).2 sc n := (popMin_spec hinv hpos).1

theorem popMin_size {h : Heap} {sc : List Int} {n : Nat} (hinv : HeapInv h sc n) (hpos : 0 < h.size) :
    (h.popMin sc).2.size = h.size - 1 := (popMin_spec hinv hpos).2.1

theorem popMin_root_live {h : Heap} {sc : List Int} {n : Nat} (hinv : HeapInv h sc n)
    (hpos : 0 < h.size) : h.live (h.popMin sc).1 := (popMin_spec hinv hpos).2.2.1

theorem popMin_live {h : Heap} {sc : List Int} {n : Nat} (hinv : HeapInv h sc n) (hpos : 0 < h.size)
    (v : Nat) : (h.popMin sc).2.live v ↔ (h.live v ∧ v ≠ (h.popMin sc).1) :=
  (popMin_spec hinv hpos).2.2.2.1 v

theorem popMin_min {h : Heap} {sc : List Int} {n : Nat} (hinv : HeapInv h sc n) (hpos : 0 < h.size)
    (v : Nat) (hv : h.live v) : sc.getD (h.popMin sc).1 0 ≤ sc.getD v 0 :=
  (popMin_spec hinv hpos).2.2.2.2 v hv

end SkNet.Topology
