/-
C09: `normalize(·, p=2)` — every row of the result is null or has unit Euclidean norm.
-/
import SkNet.Lemmas.Embedding

set_option linter.unusedSectionVars false

open Finset

namespace SkNet.Embedding

variable {α : Type} [Field α] [LinearOrder α] [IsStrictOrderedRing α]

/-- squared norm of row `i` of an `_ × k` matrix -/
def sqNorm (k : Nat) (m : Mat α) (i : Nat) : α := ∑ j ∈ range k, mget m i j * mget m i j

theorem norm2_eq (F : Fn α) (k : Nat) (m : Mat α) (i : Nat) : norm2 F k (mget m i) = F.sqrt (sqNorm k m i) := by
  simp [norm2, sqNorm, sumN_eq_sum]

theorem mget_normalize2 (F : Fn α) (n k : Nat) (m : Mat α) (i j : Nat) (hi : i < n) (hj : j < k) :
    mget (normalize2 F n k m) i j = pinv (F.sqrt (sqNorm k m i)) * mget m i j := by
  simp [normalize2, hi, hj, norm2_eq]

/-- a row whose norm is computed as `0` stays null -/
theorem normalize2_row_null (F : Fn α) (n k : Nat) (m : Mat α) (i : Nat)
    (hz : F.sqrt (sqNorm k m i) = 0) (j : Nat) : mget (normalize2 F n k m) i j = 0 := by
  by_cases hi : i < n
  · by_cases hj : j < k
    · rw [mget_normalize2 F n k m i j hi hj, hz, pinv_zero, zero_mul]
    · simp [normalize2, hi, hj]
  · simp [normalize2, hi]

/-- **`normalize_unit`**: a row whose norm is not `0` has squared norm `1` after `normalize(·, p=2)`;
    `sqrt` only has to square back on that row's squared norm. -/
theorem normalize2_row_unit (F : Fn α) (n k : Nat) (m : Mat α) (i : Nat) (hi : i < n)
    (hsq : F.sqrt (sqNorm k m i) * F.sqrt (sqNorm k m i) = sqNorm k m i)
    (hne : F.sqrt (sqNorm k m i) ≠ 0) :
    sqNorm k (normalize2 F n k m) i = 1 := by
  unfold sqNorm
  have : ∀ j ∈ range k, mget (normalize2 F n k m) i j * mget (normalize2 F n k m) i j
      = (pinv (F.sqrt (sqNorm k m i)) * pinv (F.sqrt (sqNorm k m i))) * (mget m i j * mget m i j) := by
    intro j hj
    rw [mget_normalize2 F n k m i j hi (Finset.mem_range.mp hj)]; ring
  rw [Finset.sum_congr rfl this, ← Finset.mul_sum, pinv_of_ne hne]
  change 1 / F.sqrt (sqNorm k m i) * (1 / F.sqrt (sqNorm k m i)) * sqNorm k m i = 1
  generalize F.sqrt (sqNorm k m i) = r at hsq hne ⊢
  rw [← hsq]
  field_simp

/-- in an ordered field a row with a non-zero entry has a positive squared norm -/
theorem sqNorm_pos_of_nonnull (k : Nat) (m : Mat α) (i : Nat) (h : ∃ j, j < k ∧ mget m i j ≠ 0) :
    0 < sqNorm k m i := by
  obtain ⟨j, hj, hne⟩ := h
  unfold sqNorm
  have hnn : ∀ c ∈ range k, 0 ≤ mget m i c * mget m i c := fun c _ => mul_self_nonneg _
  have hpos : 0 < mget m i j * mget m i j := mul_self_pos.mpr hne
  exact lt_of_lt_of_le hpos (Finset.single_le_sum hnn (Finset.mem_range.mpr hj))

/-- **every non-null embedding vector has unit norm**: a row of the input with a non-zero entry is mapped to a
    row of squared norm `1`, a null row stays null. -/
theorem normalize2_nonnull_unit (F : Fn α) (n k : Nat) (m : Mat α) (i : Nat) (hi : i < n)
    (hsq : F.sqrt (sqNorm k m i) * F.sqrt (sqNorm k m i) = sqNorm k m i)
    (h : ∃ j, j < k ∧ mget m i j ≠ 0) :
    sqNorm k (normalize2 F n k m) i = 1 := by
  refine normalize2_row_unit F n k m i hi hsq ?_
  intro hz
  have hp := sqNorm_pos_of_nonnull k m i h
  rw [hz, mul_zero] at hsq
  rw [← hsq] at hp
  exact lt_irrefl _ hp

theorem normalize2_null_of_null (F : Fn α) (n k : Nat) (m : Mat α) (i : Nat)
    (h : ∀ j, j < k → mget m i j = 0) (j : Nat) : mget (normalize2 F n k m) i j = 0 := by
  by_cases hi : i < n
  · by_cases hj : j < k
    · rw [mget_normalize2 F n k m i j hi hj, h j hj, mul_zero]
    · simp [normalize2, hi, hj]
  · simp [normalize2, hi]

/-- the model's `normalize(·, p=2)` is the specification's "divide every row by its norm, null rows stay null" -/
theorem normalize2_eq_normalizedEntry (F : Fn α) (n k : Nat) (m : Mat α) (i j : Nat) (hi : i < n) (hj : j < k) :
    mget (normalize2 F n k m) i j = Spec.normalizedEntry F k m i j := by
  rw [mget_normalize2 F n k m i j hi hj]
  unfold Spec.normalizedEntry sqNorm
  simp only [sumN_eq_sum]
  by_cases h : F.sqrt (∑ c ∈ range k, mget m i c * mget m i c) = 0
  · simp [h, pinv_zero]
  · simp only [beq_iff_eq, h, if_false, pinv_of_ne h]
    field_simp

end SkNet.Embedding
