/-
C11 helper lemmas: the executable core-number specification (`kCore` by exhaustive pruning, `coreNumberSpec`)
computes the core number defined by `InCore` / `IsCoreNumber`.
-/
import SkNet.Lemmas.TopologyCore

set_option linter.unusedSimpArgs false

namespace SkNet.Topology

/-! ### arrays of booleans as node sets -/

theorem toArray_getD (l : List Bool) (i : Nat) : l.toArray.getD i false = l.getD i false := by
  rw [Array.getD_eq_getD_getElem?, List.getElem?_toArray, List.getD_eq_getElem?_getD]

theorem pruneStep_size (n : Nat) (adj : Nat → Nat → Bool) (k : Nat) (S : Array Bool) :
    (pruneStep n adj k S).size = n := by
  simp [pruneStep]

theorem pruneStep_getD (n : Nat) (adj : Nat → Nat → Bool) (k : Nat) (S : Array Bool) (v : Nat) :
    (pruneStep n adj k S).getD v false =
      if v < n then (S.getD v false && decide (k ≤ degIn n adj (fun u => S.getD u false) v)) else false := by
  unfold pruneStep
  rw [toArray_getD, tab_getD]

theorem array_ext_getD (S S' : Array Bool) (n : Nat) (h1 : S.size = n) (h2 : S'.size = n)
    (h : ∀ i, i < n → S.getD i false = S'.getD i false) : S = S' := by
  apply Array.ext (by rw [h1, h2])
  intro i hi1 hi2
  have := h i (by omega)
  rw [Array.getD_eq_getD_getElem?, Array.getD_eq_getD_getElem?, Array.getElem?_eq_getElem hi1,
    Array.getElem?_eq_getElem hi2] at this
  simpa using this

/-- number of nodes in the set -/
def cntOf (n : Nat) (S : Array Bool) : Nat := ((List.range n).filter fun u => S.getD u false).length

theorem filter_length_lt {α : Type} (l : List α) (p q : α → Bool) (h : ∀ x ∈ l, p x = true → q x = true)
    (hex : ∃ x ∈ l, q x = true ∧ p x = false) : (l.filter p).length < (l.filter q).length := by
  induction l with
  | nil => obtain ⟨x, hx, _⟩ := hex; simp at hx
  | cons a as ih =>
    have hmono := filter_length_mono as p q (fun y hy => h y (List.mem_cons_of_mem _ hy))
    rw [List.filter_cons, List.filter_cons]
    obtain ⟨x, hx, hq, hp⟩ := hex
    by_cases hpa : p a = true
    · rw [if_pos hpa, if_pos (h a List.mem_cons_self hpa)]
      have hx' : x ∈ as := by
        rcases List.mem_cons.1 hx with e | e
        · subst e; rw [hpa] at hp; exact absurd hp (by simp)
        · exact e
      have := ih (fun y hy => h y (List.mem_cons_of_mem _ hy)) ⟨x, hx', hq, hp⟩
      simp only [List.length_cons]; omega
    · rw [if_neg hpa]
      by_cases hqa : q a = true
      · rw [if_pos hqa]; simp only [List.length_cons]; omega
      · rw [if_neg hqa]
        have hx' : x ∈ as := by
          rcases List.mem_cons.1 hx with e | e
          · subst e; exact absurd hq hqa
          · exact e
        exact ih (fun y hy => h y (List.mem_cons_of_mem _ hy)) ⟨x, hx', hq, hp⟩

theorem pruneStep_sub (n : Nat) (adj : Nat → Nat → Bool) (k : Nat) (S : Array Bool) (v : Nat)
    (h : (pruneStep n adj k S).getD v false = true) : S.getD v false = true := by
  rw [pruneStep_getD] at h
  by_cases hv : v < n
  · rw [if_pos hv, Bool.and_eq_true] at h; exact h.1
  · rw [if_neg hv] at h; exact absurd h (by simp)

theorem pruneStep_cnt_lt (n : Nat) (adj : Nat → Nat → Bool) (k : Nat) (S : Array Bool) (hs : S.size = n)
    (hne : pruneStep n adj k S ≠ S) : cntOf n (pruneStep n adj k S) < cntOf n S := by
  unfold cntOf
  apply filter_length_lt
  · intro x _ hx; exact pruneStep_sub n adj k S x hx
  · -- some node of `S` was removed
    apply Classical.byContradiction
    intro hno
    apply hne
    apply array_ext_getD _ _ n (pruneStep_size n adj k S) hs
    intro i hi
    by_cases hS : S.getD i false = true
    · by_cases hP : (pruneStep n adj k S).getD i false = true
      · rw [hS, hP]
      · exact absurd ⟨i, List.mem_range.2 hi, hS, by simpa using hP⟩ hno
    · have : (pruneStep n adj k S).getD i false ≠ true := fun e => hS (pruneStep_sub n adj k S i e)
      simp only [Bool.not_eq_true] at hS this
      rw [hS, this]

theorem pruneFix_size (n : Nat) (adj : Nat → Nat → Bool) (k : Nat) :
    ∀ (fuel : Nat) (S : Array Bool), S.size = n → (pruneFix n adj k fuel S).size = n := by
  intro fuel
  induction fuel with
  | zero => intro S hs; exact hs
  | succ fuel ih =>
    intro S hs
    rw [pruneFix]
    by_cases h : pruneStep n adj k S = S
    · rw [if_pos h]; exact hs
    · rw [if_neg h]; exact ih _ (pruneStep_size n adj k S)

/-- with enough fuel the result of `pruneFix` is a fixed point of the pruning round -/
theorem pruneFix_fix (n : Nat) (adj : Nat → Nat → Bool) (k : Nat) :
    ∀ (fuel : Nat) (S : Array Bool), S.size = n → cntOf n S < fuel →
      pruneStep n adj k (pruneFix n adj k fuel S) = pruneFix n adj k fuel S := by
  intro fuel
  induction fuel with
  | zero => intro S _ h; omega
  | succ fuel ih =>
    intro S hs hc
    rw [pruneFix]
    by_cases h : pruneStep n adj k S = S
    · rw [if_pos h]; exact h
    · rw [if_neg h]
      have := pruneStep_cnt_lt n adj k S hs h
      exact ih _ (pruneStep_size n adj k S) (by omega)

theorem pruneFix_sub (n : Nat) (adj : Nat → Nat → Bool) (k : Nat) :
    ∀ (fuel : Nat) (S : Array Bool) (v : Nat), (pruneFix n adj k fuel S).getD v false = true →
      S.getD v false = true := by
  intro fuel
  induction fuel with
  | zero => intro S v h; exact h
  | succ fuel ih =>
    intro S v h
    rw [pruneFix] at h
    by_cases he : pruneStep n adj k S = S
    · rw [if_pos he] at h; exact h
    · rw [if_neg he] at h
      exact pruneStep_sub n adj k S v (ih _ v h)

/-- a set of minimum degree `k` inside `S` survives a pruning round -/
theorem pruneStep_contains (n : Nat) (adj : Nat → Nat → Bool) (k : Nat) (S : Array Bool) (T : Nat → Bool)
    (hT : ∀ u, T u = true → u < n ∧ k ≤ degIn n adj T u) (hsub : ∀ u, T u = true → S.getD u false = true)
    (u : Nat) (hu : T u = true) : (pruneStep n adj k S).getD u false = true := by
  rw [pruneStep_getD, if_pos (hT u hu).1, Bool.and_eq_true, decide_eq_true_eq]
  refine ⟨hsub u hu, ?_⟩
  have := degIn_mono n adj T (fun w => S.getD w false) u hsub
  have := (hT u hu).2
  omega

theorem pruneFix_contains (n : Nat) (adj : Nat → Nat → Bool) (k : Nat) (T : Nat → Bool)
    (hT : ∀ u, T u = true → u < n ∧ k ≤ degIn n adj T u) :
    ∀ (fuel : Nat) (S : Array Bool), (∀ u, T u = true → S.getD u false = true) →
      ∀ u, T u = true → (pruneFix n adj k fuel S).getD u false = true := by
  intro fuel
  induction fuel with
  | zero => intro S hsub u hu; exact hsub u hu
  | succ fuel ih =>
    intro S hsub u hu
    rw [pruneFix]
    by_cases he : pruneStep n adj k S = S
    · rw [if_pos he]; exact hsub u hu
    · rw [if_neg he]
      exact ih _ (fun w hw => pruneStep_contains n adj k S T hT hsub w hw) u hu

/-! ### the `k`-core -/

theorem full_getD (n u : Nat) : ((tab n fun _ => true).toArray).getD u false = decide (u < n) := by
  rw [toArray_getD, tab_getD]
  by_cases h : u < n <;> simp [h]

theorem cntOf_le (n : Nat) (S : Array Bool) : cntOf n S ≤ n := by
  unfold cntOf
  have := List.length_filter_le (fun u => S.getD u false) (List.range n)
  simpa using this

/-- the executable `k`-core is the set of nodes that lie in a set of minimum degree `k` -/
theorem kCore_spec (n : Nat) (adj : Nat → Nat → Bool) (k v : Nat) :
    (kCore n adj k).getD v false = true ↔ InCore n adj k v := by
  unfold kCore
  have hsz : ((tab n fun _ => true).toArray).size = n := by simp
  constructor
  · intro h
    have hfix := pruneFix_fix n adj k (n+1) _ hsz (by have := cntOf_le n (tab n fun _ => true).toArray; omega)
    refine ⟨fun u => (pruneFix n adj k (n+1) (tab n fun _ => true).toArray).getD u false, h, ?_⟩
    intro u hu
    have h1 : (pruneStep n adj k (pruneFix n adj k (n+1) (tab n fun _ => true).toArray)).getD u false = true := by
      rw [hfix]; exact hu
    rw [pruneStep_getD] at h1
    by_cases hun : u < n
    · rw [if_pos hun, Bool.and_eq_true, decide_eq_true_eq] at h1
      exact ⟨hun, h1.2⟩
    · rw [if_neg hun] at h1; exact absurd h1 (by simp)
  · rintro ⟨T, hTv, hT⟩
    apply pruneFix_contains n adj k T hT (n+1) _ _ v hTv
    intro u hu
    rw [full_getD]
    exact decide_eq_true (hT u hu).1

/-! ### the core number -/

theorem inCore_antitone (n : Nat) (adj : Nat → Nat → Bool) (k v : Nat) (h : InCore n adj (k+1) v) :
    InCore n adj k v := by
  obtain ⟨S, h1, h2⟩ := h
  exact ⟨S, h1, fun u hu => ⟨(h2 u hu).1, by have := (h2 u hu).2; omega⟩⟩

theorem inCore_zero (n : Nat) (adj : Nat → Nat → Bool) (v : Nat) (hv : v < n) : InCore n adj 0 v :=
  ⟨fun u => u == v, by simp, fun u hu => ⟨by
    have : u = v := by simpa using hu
    omega, Nat.zero_le _⟩⟩

theorem degIn_le (n : Nat) (adj : Nat → Nat → Bool) (S : Nat → Bool) (v : Nat) : degIn n adj S v ≤ n := by
  unfold degIn
  have := List.length_filter_le (fun u => S u && adj v u) (List.range n)
  simpa using this

theorem not_inCore_big (n : Nat) (adj : Nat → Nat → Bool) (v : Nat) : ¬ InCore n adj (n+1) v := by
  rintro ⟨S, h1, h2⟩
  have := (h2 v h1).2
  have := degIn_le n adj S v
  omega

/-- counting the thresholds of a downward-closed predicate gives its largest member -/
theorem count_antitone (q : Nat → Bool) (hq : ∀ k, 1 ≤ k → q (k+1) = true → q k = true) :
    ∀ n, (∀ k, 1 ≤ k → k ≤ ((List.range n).filter fun k => q (k+1)).length → q k = true) ∧
      (((List.range n).filter fun k => q (k+1)).length < n →
        q (((List.range n).filter fun k => q (k+1)).length + 1) = false) := by
  have hdown : ∀ m k, 1 ≤ k → k ≤ m → q m = true → q k = true := by
    intro m
    induction m with
    | zero => intro k h1 h2; omega
    | succ m ih =>
      intro k h1 h2 hm
      by_cases hk : k = m + 1
      · subst hk; exact hm
      · by_cases hm0 : m = 0
        · omega
        · exact ih k h1 (by omega) (hq m (by omega) hm)
  intro n
  induction n with
  | zero => exact ⟨fun k h1 h2 => by simp at h2; omega, fun h => by simp at h⟩
  | succ n ih =>
    rw [List.range_succ, List.filter_append]
    simp only [List.length_append]
    by_cases hn : q (n+1) = true
    · have hall : ((List.range n).filter fun k => q (k+1)) = List.range n := by
        rw [List.filter_eq_self]
        intro k hk
        exact hdown (n+1) (k+1) (by omega) (by have := List.mem_range.1 hk; omega) hn
      rw [hall]
      simp only [List.filter_cons, hn, if_true, List.filter_nil, List.length_cons, List.length_nil,
        List.length_range]
      exact ⟨fun k h1 h2 => hdown (n+1) k h1 (by omega) hn, fun h => by omega⟩
    · simp only [List.filter_cons, hn, if_false, List.filter_nil, List.length_nil, Nat.add_zero,
        Bool.false_eq_true]
      refine ⟨ih.1, fun _ => ?_⟩
      by_cases hc : ((List.range n).filter fun k => q (k+1)).length < n
      · exact ih.2 hc
      · have hle : ((List.range n).filter fun k => q (k+1)).length ≤ n := by
          have := List.length_filter_le (fun k => q (k+1)) (List.range n)
          simpa using this
        have : ((List.range n).filter fun k => q (k+1)).length = n := by omega
        rw [this]; simpa using hn

theorem coreNumberSpec_eq (n : Nat) (adj : Nat → Nat → Bool) (v : Nat) :
    coreNumberSpec n adj v = ((List.range n).filter fun k => (kCore n adj (k+1)).getD v false).length := by
  unfold coreNumberSpec coreNumberFrom coreTable tab
  rw [List.filter_map, List.length_map]
  rfl

/-- the executable specification used by the spec lines is the core number -/
theorem coreNumberSpec_isCoreNumber (n : Nat) (adj : Nat → Nat → Bool) (v : Nat) (hv : v < n) :
    IsCoreNumber n adj v (coreNumberSpec n adj v) := by
  rw [coreNumberSpec_eq]
  have hq := count_antitone (fun k => (kCore n adj k).getD v false)
    (fun k _ h => (kCore_spec n adj k v).2 (inCore_antitone n adj k v ((kCore_spec n adj (k+1) v).1 h))) n
  generalize hc : ((List.range n).filter fun k => (kCore n adj (k+1)).getD v false).length = c at hq
  have hcn : c ≤ n := by
    rw [← hc]
    have := List.length_filter_le (fun k => (kCore n adj (k+1)).getD v false) (List.range n)
    simpa using this
  constructor
  · by_cases h0 : c = 0
    · rw [h0]; exact inCore_zero n adj v hv
    · exact (kCore_spec n adj c v).1 (hq.1 c (by omega) (Nat.le_refl _))
  · by_cases hlt : c < n
    · intro h
      have := hq.2 hlt
      rw [(kCore_spec n adj (c+1) v).2 h] at this
      exact absurd this (by simp)
    · have : c = n := by omega
      rw [this]; exact not_inCore_big n adj v

theorem isCoreNumber_unique (n : Nat) (adj : Nat → Nat → Bool) (v c c' : Nat)
    (h : IsCoreNumber n adj v c) (h' : IsCoreNumber n adj v c') : c = c' := by
  have down : ∀ a b, a ≤ b → InCore n adj b v → InCore n adj a v := by
    intro a b hab
    induction b with
    | zero => intro hb; have : a = 0 := by omega
              rw [this]; exact hb
    | succ b ih =>
      intro hb
      by_cases e : a = b + 1
      · rw [e]; exact hb
      · exact ih (by omega) (inCore_antitone n adj b v hb)
  by_cases h1 : c < c'
  · exact absurd (down (c+1) c' (by omega) h'.1) h.2
  · by_cases h2 : c' < c
    · exact absurd (down (c'+1) c (by omega) h.1) h'.2
    · omega

end SkNet.Topology
