/-
The gradient methods of the model are the closed forms of the specification (`Jᵀ d`, soft-max minus one-hot,
sigmoid minus target), and these are the derivatives of `⟨d, output⟩` and of `n ·` the mean losses.
-/
import SkNet.Lemmas.GnnDeriv

namespace SkNet.Gnn
open SkNet Mat Finset

theorem softmaxFn_congr (c : Nat) (s s' : Nat → ℝ) (h : ∀ k, k < c → s k = s' k) (k : Nat) (hk : k < c) :
    Spec.softmaxFn c s k = Spec.softmaxFn c s' k :=
  actFn_congr .softmax c s s' h k hk

theorem jac_congr (a : Act) (c : Nat) (s s' : Nat → ℝ) (h : ∀ k, k < c → s k = s' k) (l k : Nat)
    (hl : l < c) (hk : k < c) : Spec.jac a c s l k = Spec.jac a c s' l k := by
  cases a with
  | identity => rfl
  | relu => simp only [Spec.jac, h k hk]
  | sigmoid => simp only [Spec.jac, actFn_congr .sigmoid c s s' h k hk]
  | softmax => simp only [Spec.jac, softmaxFn_congr c s s' h l hl, softmaxFn_congr c s s' h k hk]

/-- the rows of a tabulated matrix, read back -/
theorem get_row_eq (n c : Nat) (s : Nat → Nat → ℝ) (i : Nat) (hi : i < n) :
    ∀ k, k < c → (fun j => (mk' n c s).get i j) k = s i k :=
  fun _ hk => get_mk'_of_lt s hi hk

/-- **`activation.gradient(signal, direction)` is `Jᵀ d`** with the Jacobian of the specification -/
theorem actGradient_eq_spec (a : Act) (n c : Nat) (s dd : Nat → Nat → ℝ) :
    actGradient a (mk' n c s) (mk' n c dd) = .ok (Spec.actGradient a (mk' n c s) (mk' n c dd)) := by
  unfold actGradient Spec.actGradient
  simp only [mk'_r, mk'_c, ne_eq, not_true_eq_false, or_self, ite_false]
  cases a with
  | identity =>
    simp only []
    congr 1
    unfold mk'
    congr 1
    apply tab_congr
    intro i hi
    apply tab_congr
    intro k hk
    rw [sumTo_eq]
    simp only [Spec.jac, ite_mul, one_mul, zero_mul]
    rw [Finset.sum_ite_eq']
    simp only [mem_range, hk, if_true]
    exact (get_mk'_of_lt dd hi hk).symm
  | relu =>
    simp only []
    congr 1
    apply mk'_congr
    intro i hi k hk
    rw [sumTo_eq]
    simp only [Spec.jac, ite_mul, zero_mul]
    rw [Finset.sum_ite_eq']
    simp only [mem_range, hk, if_true]
    ring
  | sigmoid =>
    simp only []
    congr 1
    apply mk'_congr
    intro i hi k hk
    rw [sumTo_eq]
    simp only [Spec.jac, ite_mul, zero_mul]
    rw [Finset.sum_ite_eq']
    simp only [mem_range, hk, if_true]
    rfl
  | softmax =>
    simp only []
    congr 1
    apply mk'_congr
    intro i hi k hk
    rw [row_mk' n c s i hi, softmaxRow_tab c (s i) k hk, sumTo_eq, sumTo_eq]
    have hrow := get_row_eq n c s i hi
    have e1 : ∀ l ∈ range c, (softmaxRow (tab c fun j => s i j)).getD l 0 * (mk' n c dd).get i l
        = Spec.softmaxFn c (s i) l * dd i l := by
      intro l hl
      rw [softmaxRow_tab c (s i) l (mem_range.mp hl), get_mk'_of_lt dd hi (mem_range.mp hl)]
    have e2 : ∀ l ∈ range c, Spec.jac .softmax c (fun j => (mk' n c s).get i j) l k * (mk' n c dd).get i l
        = Spec.softmaxFn c (s i) l * (if l = k then 1 else 0) * dd i l
          - Spec.softmaxFn c (s i) k * (Spec.softmaxFn c (s i) l * dd i l) := by
      intro l hl
      rw [jac_congr .softmax c _ (s i) hrow l k (mem_range.mp hl) hk, get_mk'_of_lt dd hi (mem_range.mp hl)]
      simp only [Spec.jac]
      ring
    rw [Finset.sum_congr rfl e1, Finset.sum_congr rfl e2, Finset.sum_sub_distrib, ← Finset.mul_sum,
      get_mk'_of_lt dd hi hk]
    simp only [mul_ite, mul_one, mul_zero, ite_mul, zero_mul]
    rw [Finset.sum_ite_eq']
    simp only [mem_range, hk, if_true]
    ring

/-- **the gradient method is the derivative of `⟨direction, output⟩`**: for every entry `(i, k)` of the signal,
`gradient[i, k] = ∂/∂ signal[i, k] Σ_l direction[i, l] · output[i, l]` (ReLU: away from 0). -/
theorem actGradient_hasDerivAt (a : Act) (n c : Nat) (s dd : Nat → Nat → ℝ) (i k : Nat) (hi : i < n) (hk : k < c)
    (hrelu : a = .relu → s i k ≠ 0) :
    HasDerivAt (fun t => ∑ l ∈ range c, dd i l * Spec.actFn a c (Function.update (s i) k t) l)
      ((Spec.actGradient a (mk' n c s) (mk' n c dd)).get i k) (s i k) := by
  have h := HasDerivAt.fun_sum (u := range c)
    (A := fun l t => dd i l * Spec.actFn a c (Function.update (s i) k t) l)
    (A' := fun l => dd i l * Spec.jac a c (s i) l k) (x := s i k)
    (fun l _ => (jac_hasDerivAt a c (s i) l k hk hrelu).const_mul (dd i l))
  refine h.congr_deriv ?_
  unfold Spec.actGradient
  rw [get_mk'_of_lt _ hi hk, sumTo_eq]
  apply Finset.sum_congr rfl
  intro l hl
  rw [jac_congr a c _ (s i) (get_row_eq n c s i hi) l k (mem_range.mp hl) hk,
    get_mk'_of_lt dd hi (mem_range.mp hl)]
  ring

end SkNet.Gnn
